(* OwnPairBus: the ledger law (Ledger/LedgerProofs.proto_law) of
     PAIR0 / PAIR1  -- src/sp/protocol/pair0/pair.c, src/sp/protocol/pair1/pair.c
                       (Proto/PairModel.pair_step behind Proto/PairGuard.pair_step_g, view VPair.view k)
     BUS            -- src/sp/protocol/bus0/bus.c, cooked and raw
                       (Proto/BusModel.bus_step, view VBus.view fixed keep).
   PAIR reuses the invariant PInv, the contract op_ok and the step law of Proto/PairProofs
   (plus: an aio is pending as a send or as a receive, not both); BUS reuses BInv / op_ok /
   bus_step_inv of Proto/BusProofs -- its weighted equation needs no hypothesis at all. *)
From Coq Require Import List Arith NArith Bool Lia Permutation.
From NngV Require Import Proto.Common Proto.PairModel Proto.PairGuard Proto.BusModel
  Ledger.Ledger Ledger.LedgerProofs Ledger.LawTac Ledger.Views Ledger.LedgerThms.
From NngV Require Proto.PairProofs Proto.PairGuardProofs Proto.BusProofs.
Import ListNotations.

Transparent PairModel.set_snd PairModel.snd_of.

(* ------------------------------ shared helpers ------------------------------ *)
Lemma att_key_has_aio_false a (l : list (aioid * pmsg)) : has_aio a l = false -> att_key a l = None.
Proof.
  unfold has_aio. induction l as [|[b m] l IH]; cbn; intros H; [reflexivity|].
  destruct (N.eqb b a); [discriminate|]. apply IH. exact H.
Qed.
Lemma s_fail_none {St} (V : view St) F s o rv l :
  (forall a, In a l -> send_key V s o a = None) ->
  s_take F V s o (fail_aios rv l) = 0 /\ s_del F V s o (fail_aios rv l) = 0.
Proof.
  induction l as [|a l IH]; intros H; [split; reflexivity|]. cbn [fail_aios map s_take s_del].
  rewrite (H a (or_introl eq_refl)). apply IH. intros b Hb. apply H. right. exact Hb.
Qed.
Lemma s_Free_app {St} (V : view St) F s o l r :
  s_take F V s o (map Free l ++ r) = s_take F V s o r /\ s_del F V s o (map Free l ++ r) = s_del F V s o r.
Proof. rewrite s_take_app, s_del_app, s_take_Free, s_del_Free. split; reflexivity. Qed.
Lemma wsum_firstn_skipn {A} (G : A -> nat) n l : wsum G l = wsum G (firstn n l) + wsum G (skipn n l).
Proof. rewrite <- wsum_app, firstn_skipn. reflexivity. Qed.

(* ================================ PAIR ================================ *)
Lemma body_bump m : body (bump m) = body m.
Proof. unfold bump. destruct (get32 (pm_hdr m)) as [[v r]|]; reflexivity. Qed.
Lemma body_wire k m : body (wire_form k m) = body m.
Proof. destruct k; [reflexivity|apply body_bump]. Qed.
Lemma body_norm k m m' : norm_send k m = Some m' -> body m' = body m.
Proof.
  destruct k as [|[|]]; cbn [norm_send]; intros H.
  - inversion H; reflexivity.
  - destruct (get32 (pm_hdr m)) as [[v [|x r]]|]; try discriminate.
    destruct (255 <=? v)%N; [discriminate|]. inversion H; reflexivity.
  - inversion H; reflexivity.
Qed.

Ltac simp_p := cbn [pr_p pr_ttl pr_wmq pr_wcap pr_waq pr_rmq pr_rcap pr_raq pr_rd pr_wr pr_sending pr_readable pr_writable] in *.
Ltac pair_view := unfold w_omega; cbn [VPair.view v_held v_tx v_att v_clones v_dups v_rx v_extra];
                  unfold no_keys, no_rx, no_extra; simp_p.
Ltac pfin := cbn [s_take s_del o_tx o_rel opt_list]; change (E_OK =? 0)%N with true;
             change (E_AGAIN =? 0)%N with false; change (E_PROTO =? 0)%N with false; cbn iota;
             wnorm; cbn [s_take s_del o_tx o_rel opt_list fst snd]; wnorm; rewrite ?body_wire; try lia.

(* pairX_send_sched with a peer attached whose aio_send is idle.  PairModel.lmq_put keeps the
   queue unchanged when it is full (the C ignores nni_lmq_put's failure: the message would leak);
   both call sites put into a queue from which one message has just been taken, so with
   |wmq| <= wcap / |rmq| <= rcap (PInv) the put succeeds: PairProofs.lmq_put_ok. *)
Lemma sched_sum k F s p o s' outs :
  (forall c a nb m, o <> PSend c a nb m) ->
  pr_p s = Some p -> ~ In p (map fst (pr_sending s)) -> length (pr_wmq s) <= pr_wcap s ->
  pair_send_sched k s = (s', outs) ->
  w_omega F (VPair.view k) s + s_take F (VPair.view k) s o outs + o_tx F outs
  = w_omega F (VPair.view k) s' + s_del F (VPair.view k) s o outs + o_rel F outs.
Proof.
  intros Ho Hp Hfr Hlen H. unfold pair_send_sched in H. rewrite Hp in H.
  assert (K : forall a m l, pr_waq s = (a, m) :: l -> send_key (VPair.view k) s o a = Some (body m)).
  { intros a m l E. unfold send_key. cbn [VPair.view v_att]. rewrite E, att_key_head.
    destruct o; auto. exfalso. eapply Ho. reflexivity. }
  destruct s as [p0 ttl wmq wcap waq rmq rcap raq rd wr sn rdb wrb]. simp_p. subst p0.
  destruct wmq as [|m rest]; destruct waq as [|[a m2] aqr]; inversion H; subst; clear H; pair_view;
    unfold set_snd; rewrite ?(filter_keep_notin' p _ Hfr); cbn [s_take s_del];
    try rewrite (K a m2 aqr eq_refl).
  - pfin.
  - pfin.
  - pfin.
  - cbn [length] in Hlen. rewrite PairProofs.lmq_put_ok by lia. pfin.
Qed.

Lemma sched_frame k s s' outs : pair_send_sched k s = (s', outs) ->
  pr_raq s' = pr_raq s /\ incl (pr_waq s') (pr_waq s).
Proof.
  unfold pair_send_sched. destruct s as [p0 ttl wmq wcap waq rmq rcap raq rd wr sn rdb wrb]. simp_p.
  destruct p0 as [p|]; [|intros H; inversion H; subst; split; [reflexivity|apply incl_refl]].
  destruct wmq as [|m rest]; destruct waq as [|[a m2] aqr]; intros H; inversion H; subst; clear H; simp_p;
    (split; [reflexivity|]); try apply incl_refl; apply incl_tl, incl_refl.
Qed.

(* pairX_set_send_buf_len since 7c956d7 (PairModel's waiter loop after nni_lmq_resize): the blocked
   senders that fit move, in order, from waq into wmq; each one's send completes with success,
   i.e. the reference on its aio becomes the protocol's *)
Lemma waiters_frame cap q : forall w w' q' d, takein_waiters cap w q = (w', q', d) -> incl q' q.
Proof.
  induction q as [|[a m] r IH]; intros w w' q' d H; cbn [takein_waiters] in H.
  - inversion H; subst. apply incl_refl.
  - destruct (lmq_full w cap); [inversion H; subst; apply incl_refl|].
    destruct (takein_waiters cap (w ++ [m]) r) as [[w1 q1] d1] eqn:E. inversion H; subst.
    apply incl_tl. eapply IH. exact E.
Qed.
Lemma waiters_sum k F s o cap :
  (forall c a nb m, o <> PSend c a nb m) -> NoDup (map fst (pr_waq s)) ->
  forall q w w' q' d, incl q (pr_waq s) -> takein_waiters cap w q = (w', q', d) ->
    wsum (fun m => F (OProto, body m)) w + wsum (fun x => F (OAio (fst x), body (snd x))) q
    + s_take F (VPair.view k) s o (map (fun a => Complete a E_OK None) d)
    = wsum (fun m => F (OProto, body m)) w' + wsum (fun x => F (OAio (fst x), body (snd x))) q'
      + s_del F (VPair.view k) s o (map (fun a => Complete a E_OK None) d).
Proof.
  intros Ho Hn. induction q as [|[a m] r IH]; intros w w' q' d Hi H; cbn [takein_waiters] in H.
  - inversion H; subst. reflexivity.
  - destruct (lmq_full w cap); [inversion H; subst; reflexivity|].
    destruct (takein_waiters cap (w ++ [m]) r) as [[w1 q1] d1] eqn:E. inversion H; subst; clear H.
    pose proof (IH _ _ _ _ (fun x Hx => Hi x (or_intror Hx)) E) as L.
    assert (K : send_key (VPair.view k) s o a = Some (body m)).
    { rewrite send_key_other by exact Ho. cbn [VPair.view v_att]. apply att_key_in; [exact Hn|]. apply Hi. left. reflexivity. }
    cbn [map s_take s_del]. rewrite K. change (E_OK =? 0)%N with true. cbn iota. wnorm. cbn [fst snd]. lia.
Qed.

(* an aio is pending as a blocked send or as a blocked receive, not both *)
Definition pair_disj (s : pair) : Prop := forall a, In a (pr_raq s) -> ~ In a (map fst (pr_waq s)).
Definition pair_inv (s : pair) : Prop := PairProofs.PInv s /\ pair_disj s.
(* the environment: PairProofs.op_ok (fresh pipe ids; a completion belongs to an operation in
   flight of the attached peer; a send aio is not already queued; a cancel has rv <> 0), and an
   aio is submitted once at a time across the two directions as well *)
Definition pair_ok (s : pair) (o : pop) : Prop :=
  PairProofs.op_ok s o /\
  match o with
  | PSend _ a _ _ => ~ In a (pr_raq s)
  | PRecv _ a _ => ~ In a (map fst (pr_waq s))
  | _ => True
  end.

Lemma pair_inv_init : pair_inv pair_init.
Proof. split; [apply PairProofs.pair_init_inv|]. intros a []. Qed.

Lemma disj_sub (s s' : pair) :
  incl (pr_raq s') (pr_raq s) -> incl (pr_waq s') (pr_waq s) -> pair_disj s -> pair_disj s'.
Proof.
  intros H1 H2 HD a Ha Hw. apply (HD a (H1 a Ha)). apply in_map_iff in Hw. destruct Hw as [x [<- Hx]].
  apply in_map. apply H2. exact Hx.
Qed.
Lemma incl_filter {A} (f : A -> bool) l : incl (filter f l) l.
Proof. intros x Hx. apply filter_In in Hx. tauto. Qed.

Lemma pair_disj_step k fx fr s o s' outs :
  pair_inv s -> pair_ok s o -> pair_step k fx fr s o = (s', outs) -> pair_disj s'.
Proof.
  intros [HI HD] [Hok Hx] H. pose proof HI as (I1 & I2 & I3 & I4 & I5 & I6 & I7).
  destruct o as [c a nb m|c a nb|a rv|p peer|p|p rv|p rv m|c op|c|c| |now]; cbn [pair_step] in H.
  - destruct (norm_send k m) as [m'|]; [|inversion H; subst; exact HD].
    destruct (pr_wr s).
    + destruct (pr_p s); inversion H; subst; exact HD.
    + destruct (negb (lmq_full (pr_wmq s) (pr_wcap s))); [inversion H; subst; exact HD|].
      destruct nb; inversion H; subst; [exact HD|]. intros b Hb. simp_p. rewrite map_app, in_app_iff. cbn [map fst In].
      intros [Hw|[E|[]]]; [exact (HD b Hb Hw)|]. subst b. exact (Hx Hb).
  - destruct (pr_rmq s) as [|m rest].
    + destruct (pr_rd s); [inversion H; subst; exact HD|].
      destruct nb; inversion H; subst; [exact HD|]. intros b Hb. simp_p. apply in_app_or in Hb.
      destruct Hb as [Hb|[E|[]]]; [exact (HD b Hb)|]. subst b. exact Hx.
    + destruct (pr_rd s); inversion H; subst; exact HD.
  - destruct (has_aio a (pr_waq s)); [|destruct (has_id a (pr_raq s))]; inversion H; subst; try exact HD.
    + apply (disj_sub s); simp_p; [apply incl_refl|apply incl_filter|exact HD].
    + apply (disj_sub s); simp_p; [apply incl_filter|apply incl_refl|exact HD].
  - destruct (negb (peer =? pair_peer k)%N); [inversion H; subst; exact HD|].
    destruct (pr_p s); [inversion H; subst; exact HD|].
    match type of H with context [pair_send_sched k ?s1] => destruct (pair_send_sched k s1) as [s2 o2] eqn:SS end.
    inversion H; subst; clear H. destruct (sched_frame _ _ _ _ SS) as [E1 E2]. simp_p.
    apply (disj_sub s); [rewrite E1; apply incl_refl|exact E2|exact HD].
  - destruct (pr_p s) as [q|]; [destruct (q =? p)%N|]; inversion H; subst; exact HD.
  - destruct (negb (rv =? 0)%N).
    + inversion H; subst. exact HD.
    + destruct (sched_frame _ _ _ _ H) as [E1 E2]. simp_p.
      apply (disj_sub s); [rewrite E1; apply incl_refl|exact E2|exact HD].
  - destruct (negb (rv =? 0)%N); [inversion H; subst; exact HD|].
    destruct (rx_decode k (pr_ttl s) m); try (inversion H; subst; exact HD).
    destruct (pr_raq s) as [|a rest] eqn:ER.
    + destruct (negb (lmq_full (pr_rmq s) (pr_rcap s))); inversion H; subst; intros b [].
    + inversion H; subst. apply (disj_sub s); simp_p; [rewrite ER; apply incl_tl, incl_refl|apply incl_refl|exact HD].
  - destruct op; try (inversion H; subst; exact HD).
    + destruct (PAIR_BUF_MAX <? N.of_nat n)%N; [inversion H; subst; exact HD|].
      destruct fr; [|inversion H; subst; exact HD].
      destruct (takein_waiters n (firstn n (pr_wmq s)) (pr_waq s)) as [[w1 q1] d1] eqn:E. inversion H; subst.
      apply (disj_sub s); simp_p; [apply incl_refl|exact (waiters_frame _ _ _ _ _ _ E)|exact HD].
    + destruct (PAIR_BUF_MAX <? N.of_nat n)%N; inversion H; subst; exact HD.
    + destruct k; [inversion H; subst; exact HD|].
      destruct ((n <? PAIR_TTL_MIN) || (PAIR_TTL_MAX <? n)); inversion H; subst; exact HD.
  - inversion H; subst; exact HD.
  - inversion H; subst; exact HD.
  - inversion H; subst. intros b [].
  - inversion H; subst; exact HD.
Qed.

Lemma pair_law_sum k fx fr s o s' outs :
  pair_inv s -> pair_ok s o -> pair_step k fx fr s o = (s', outs) -> law_sum (VPair.view k) s o s' outs.
Proof.
  intros [HI HD] [Hok Hx] H F. cbv zeta. pose proof HI as (I1 & I2 & I3 & I4 & I5 & I6 & I7).
  change (v_extra (VPair.view k) s o outs) with (@nil pmsg).
  change (v_clones (VPair.view k) s o ++ v_dups (VPair.view k) s o) with (@nil key).
  cbn [map]. rewrite app_nil_r, wsum_nil.
  destruct o as [c a nb m|c a nb|a rv|p peer|p|p rv|p rv m|c op|c|c| |now];
    cbn [PairProofs.op_ok op_add op_del] in *; cbn [pair_step] in H.
  - (* PSend: pairX_sock_send *)
    destruct (norm_send k m) as [m'|] eqn:EN.
    2:{ inversion H; subst; clear H. cbn [s_take s_del]. rewrite send_key_self. pfin. }
    pose proof (body_norm _ _ _ EN) as Bm.
    destruct s as [p0 ttl wmq wcap waq rmq rcap raq rd wr sn rdb wrb]. simp_p. destruct wr.
    + destruct p0 as [p|]; [|destruct (I1 eq_refl) as [[] _]]. destruct (I1 eq_refl) as (A & B & C). subst wmq waq.
      inversion H; subst; clear H. pair_view. unfold set_snd. rewrite (filter_keep_notin' p _ A).
      cbn [s_take s_del]. rewrite !send_key_self. pfin. rewrite ?Bm. lia.
    + destruct (lmq_full wmq wcap); cbn [negb] in H.
      * destruct nb; inversion H; subst; clear H; pair_view; cbn [s_take s_del]; rewrite ?send_key_self; pfin; rewrite ?Bm; lia.
      * inversion H; subst; clear H. pair_view. cbn [s_take s_del]. rewrite ?send_key_self. pfin. rewrite ?Bm. lia.
  - (* PRecv: pairX_sock_recv *)
    assert (K : send_key (VPair.view k) s (PRecv c a nb) a = None).
    { cbn [send_key VPair.view v_att]. apply att_key_notin. exact Hx. }
    destruct s as [p0 ttl wmq wcap waq rmq rcap raq rd wr sn rdb wrb]. simp_p.
    destruct rmq as [|m rest].
    + destruct rd as [h|].
      * inversion H; subst; clear H. pair_view. destruct p0; pfin.
      * destruct nb; inversion H; subst; clear H; pair_view; cbn [s_take s_del]; rewrite ?K; pfin.
    + cbn [length] in I5. destruct rd as [h|].
      * rewrite PairProofs.lmq_put_ok in H by lia. inversion H; subst; clear H. pair_view. destruct p0; pfin.
      * inversion H; subst; clear H. pair_view. pfin.
  - (* PCancel: pairX_cancel *)
    destruct s as [p0 ttl wmq wcap waq rmq rcap raq rd wr sn rdb wrb]. simp_p.
    destruct (has_aio a waq) eqn:E; [|destruct (has_id a raq) eqn:E2]; inversion H; subst; clear H; pair_view.
    + destruct (has_aio_in _ _ E) as [m Hm].
      cbn [s_take s_del send_key VPair.view v_att]. simp_p.
      rewrite (att_key_in a m _ I6 Hm). destruct (N.eqb_spec rv 0); [contradiction|].
      rewrite (wsum_remove_aio (fun x => F (OAio (fst x), body (snd x))) a waq m I6 Hm). pfin.
    + cbn [s_take s_del send_key VPair.view v_att]. simp_p. rewrite (att_key_has_aio_false _ _ E). pfin.
    + pfin.
  - (* PPipeStart: pairX_pipe_start *)
    destruct (negb (peer =? pair_peer k)%N); [inversion H; subst; cbn; lia|].
    destruct (pr_p s) as [q|] eqn:EP; [inversion H; subst; cbn; lia|].
    assert (RD : pr_rd s = None).
    { destruct (pr_rd s) eqn:R; auto. destruct I2 as [A _]; [discriminate|]. congruence. }
    match type of H with context [pair_send_sched k ?t] => set (s1 := t) in *; destruct (pair_send_sched k s1) as [s2 o2] eqn:SS end.
    inversion H; subst; clear H.
    pose proof (sched_sum k F s1 p (PPipeStart p peer) s' o2 ltac:(intros; discriminate) eq_refl Hok I4 SS) as L.
    destruct (s_att_ext (VPair.view k) F s s1 (PPipeStart p peer) (o2 ++ [TranRecv p]) eq_refl) as [E1 E2].
    rewrite E1, E2. wnorm. cbn [s_take s_del o_tx o_rel].
    assert (W : w_omega F (VPair.view k) s = w_omega F (VPair.view k) s1).
    { unfold s1. pair_view. rewrite RD. reflexivity. }
    lia.
  - (* PPipeClose: pairX_pipe_close ; pairX_pipe_stop *)
    destruct s as [p0 ttl wmq wcap waq rmq rcap raq rd wr sn rdb wrb]. simp_p.
    destruct p0 as [q|]; [destruct (q =? p)%N|]; inversion H; subst; clear H; pair_view; try (cbn; lia).
    destruct rd; pfin.
  - (* PSendDone: pairX_pipe_send_cb *)
    cbn [VPair.view v_tx].
    rewrite wsum_tx_of, (wsum_tx_of' (fun k => F (OProto, k))).
    pose proof (wsum_filter_key (fun x => F (OPipe (fst x), body (snd x))) p (pr_sending s)) as P.
    destruct (N.eqb_spec rv 0) as [->|Hrv]; cbn [negb] in H.
    + destruct Hok as [_ HP]. specialize (HP eq_refl).
      match type of H with context [pair_send_sched k ?t] => set (s0 := t) in * end.
      assert (Hp0 : ~ In p (map fst (pr_sending s0))) by (unfold s0, set_snd; simp_p; apply PairProofs.set_snd_none_notin).
      pose proof (sched_sum k F s0 p (PSendDone p 0) s' outs ltac:(intros; discriminate) HP Hp0 I4 H) as L.
      destruct (s_att_ext (VPair.view k) F s s0 (PSendDone p 0) outs eq_refl) as [E1 E2].
      rewrite E1, E2. revert L. unfold s0 at 1. pair_view. unfold set_snd. lia.
    + inversion H; subst; clear H. pair_view. unfold set_snd, snd_of.
      destruct (s_Free_app (VPair.view k) F s (PSendDone p rv) (map snd (filter (fun x => (fst x =? p)%N) (pr_sending s))) [ClosePipe p]) as [A B].
      rewrite A, B. pfin.
  - (* PRecvDone: pairX_pipe_recv_cb *)
    destruct s as [p0 ttl wmq wcap waq rmq rcap raq rd wr sn rdb wrb]. simp_p.
    destruct (N.eqb_spec rv 0) as [->|Hrv]; cbn [negb] in H.
    2:{ inversion H; subst; pfin. }
    destruct (Hok eq_refl) as [HP HR]. subst p0 rd.
    cbn [v_rx VPair.view]. unfold VPair.rx. simp_p.
    destruct (rx_decode k ttl m) as [| |m'] eqn:ED.
    + inversion H; subst; clear H. pfin.
    + inversion H; subst; clear H. pfin.
    + destruct raq as [|a rest].
      * destruct (lmq_full rmq rcap); cbn [negb] in H; inversion H; subst; clear H; pair_view; pfin.
      * inversion H; subst; clear H. pair_view. pfin.
  - (* PSetOpt *)
    destruct s as [p0 ttl wmq wcap waq rmq rcap raq rd wr sn rdb wrb]. simp_p.
    destruct op; try (inversion H; subst; cbn; lia).
    + destruct (PAIR_BUF_MAX <? N.of_nat n)%N; [inversion H; subst; cbn; lia|].
      pose proof (wsum_firstn_skipn (fun m => F (OProto, body m)) n wmq) as FS.
      destruct fr.
      * destruct (takein_waiters n (firstn n wmq) waq) as [[w1 q1] d1] eqn:E.
        pose proof (waiters_sum k F (mkPair p0 ttl wmq wcap waq rmq rcap raq rd wr sn rdb wrb) (PSetOpt c (OSendBuf n)) n
                      ltac:(intros; discriminate) I6 waq (firstn n wmq) w1 q1 d1 (incl_refl _) E) as L.
        assert (T0 : o_tx F (map (fun a => Complete a E_OK None) d1) = 0) by apply (o_tx_fail F E_OK).
        assert (R0 : o_rel F (map (fun a => Complete a E_OK None) d1) = 0) by apply (o_rel_fail F E_OK).
        inversion H; subst; clear H. pair_view.
        rewrite !s_take_app, !s_del_app, !s_take_Free, !s_del_Free. pfin.
      * inversion H; subst; clear H. pair_view.
        rewrite !s_take_app, !s_del_app, !s_take_Free, !s_del_Free. pfin.
    + destruct (PAIR_BUF_MAX <? N.of_nat n)%N; [inversion H; subst; cbn; lia|].
      inversion H; subst; clear H. pair_view.
      match goal with |- context [s_take F ?V ?s ?o (map Free ?l ++ ?r)] => destruct (s_Free_app V F s o l r) as [A B] end.
      rewrite A, B. pose proof (wsum_firstn_skipn (fun m => F (OProto, body m)) n rmq). pfin.
    + destruct k; [inversion H; subst; cbn; lia|].
      destruct ((n <? PAIR_TTL_MIN) || (PAIR_TTL_MAX <? n)); inversion H; subst; clear H; pair_view; pfin.
  - inversion H; subst. cbn. lia.
  - inversion H; subst. cbn. lia.
  - (* PSockClose: pairX_sock_close *)
    inversion H; subst; clear H.
    destruct (s_fail_all (VPair.view k) F s PSockClose E_CLOSED I6 ltac:(intros; discriminate) ltac:(discriminate)) as [A B].
    destruct (s_fail_none (VPair.view k) F s PSockClose E_CLOSED (pr_raq s)) as [A0 B0].
    { intros a Ha. cbn [send_key VPair.view v_att]. apply att_key_notin. apply HD. exact Ha. }
    cbn [VPair.view v_att] in A, B.
    rewrite !s_take_app, !s_del_app, !s_take_Free, !s_del_Free, A, B, A0, B0. pair_view. pfin.
  - inversion H; subst. cbn. lia.
Qed.

Theorem pair_proto_law : forall k fx fr fs, proto_law (VPair.view k) (pair_step_g k fx fr fs) pair_inv pair_ok.
Proof.
  intros k fx fr fs s o s' outs HI Hok H.
  rewrite (PairGuardProofs.pair_step_g_contract k fx fr fs s o (proj1 Hok)) in H.
  split; [split|split].
  - exact (proj1 (PairProofs.pair_step_law k fx fr s o s' outs (proj1 HI) (proj1 Hok) H)).
  - eapply pair_disj_step; eauto.
  - apply law_sum_eq. eapply pair_law_sum; eauto.
  - apply clones_held_none. reflexivity.
Qed.

(* ================================ BUS ================================ *)
Ltac simp_b := cbn [bs_raw bs_pipes bs_rq bs_rcap bs_wait bs_sendbuf bs_sending bs_readable bs_lost
                    bp_id bp_busy bp_q bp_cap] in *.
Ltac bus_view := unfold w_omega; cbn [VBus.view v_held v_tx v_att v_clones v_dups v_rx v_extra];
                 unfold no_keys, no_rx, no_extra; cbn [VBus.clones]; simp_b.
Ltac bfin := cbn [s_take s_del o_tx o_rel]; change (E_OK =? 0)%N with true;
             change (E_AGAIN =? 0)%N with false; cbn iota;
             wnorm; cbn [s_take s_del o_tx o_rel fst snd]; wnorm; try lia.

Lemma body_prep raw m : body (snd (bus_prep raw m)) = body m.
Proof. unfold bus_prep. destruct raw; [destruct (4 <=? length (pm_hdr m))|]; reflexivity. Qed.

(* the NNI_LIST_FOREACH of bus0_sock_send: one clone per pipe that takes the message, handed
   to the transport (idle pipe) or put on the pipe's send queue *)
Lemma fan_sum (F : owner * key -> nat) raw sd m l :
  wsum (fun x => F (OProto, body x)) (flat_map bp_q l)
  + wsum (fun k => F (OProto, k)) (map (fun _ => body m) (filter (VBus.takes raw sd) l))
  + o_tx F (flat_map (offer_outs raw sd m) l)
  = wsum (fun x => F (OProto, body x)) (flat_map bp_q (map (offer_pipe raw sd m) l))
    + wsum (fun x => F (OPipe (fst x), body (snd x))) (flat_map (offer_sending raw sd m) l)
    + o_rel F (flat_map (offer_outs raw sd m) l).
Proof.
  induction l as [|bp l IH]; [reflexivity|]. cbn [flat_map map filter].
  unfold VBus.takes at 1, offer_pipe at 1, offer_outs at 1 3, offer_sending at 1.
  destruct (offer_kind raw sd bp); simp_b; wnorm; cbn [o_tx o_rel fst snd]; wnorm; lia.
Qed.
Lemma fan_quiet raw sd m l : no_send_done (flat_map (offer_outs raw sd m) l) = true.
Proof.
  induction l as [|bp l IH]; [reflexivity|]. cbn [flat_map]. unfold offer_outs at 1.
  destruct (offer_kind raw sd bp); cbn; exact IH.
Qed.
(* bus0_pipe_send_cb: the head of the pipe's send queue goes to the transport *)
Lemma next_sum (P : pmsg -> nat) p l :
  wsum P (flat_map bp_q l)
  = wsum P (flat_map bp_q (map (fun bp => if is_pipe p bp then fst (pipe_next bp) else bp) l))
    + wsum P (flat_map (fun bp => if is_pipe p bp then snd (pipe_next bp) else []) l).
Proof.
  induction l as [|bp l IH]; [reflexivity|]. cbn [flat_map map]. wnorm. rewrite IH.
  destruct (is_pipe p bp); [|wnorm; lia]. unfold pipe_next. destruct (bp_q bp); cbn [fst snd bp_q]; wnorm; lia.
Qed.
Lemma o_tx_TranSend F p l : o_tx F (map (TranSend p) l) = wsum (fun m => F (OPipe p, body m)) l.
Proof. induction l; cbn; [reflexivity|]. rewrite wsum_cons, IHl. reflexivity. Qed.
Lemma o_rel_TranSend F p l : o_rel F (map (TranSend p) l) = wsum (fun m => F (OProto, body m)) l.
Proof. induction l; cbn; [reflexivity|]. rewrite wsum_cons, IHl. reflexivity. Qed.
(* bus0_pipe_close: the pipe's send queue is flushed *)
Lemma close_sum (P : pmsg -> nat) p l :
  wsum P (flat_map bp_q l)
  = wsum P (flat_map bp_q (filter (fun bp => negb (is_pipe p bp)) l))
    + wsum P (flat_map (fun bp => if is_pipe p bp then bp_q bp else []) l).
Proof.
  induction l as [|bp l IH]; [reflexivity|]. cbn [flat_map filter]. wnorm. rewrite IH.
  destruct (is_pipe p bp); cbn [negb flat_map]; wnorm; lia.
Qed.
(* NNG_OPT_SENDBUF: every send queue is cut to the new depth *)
Lemma shrink_sum (P : pmsg -> nat) n l :
  wsum P (flat_map bp_q l)
  = wsum P (flat_map bp_q (map (fun bp => mkBP (bp_id bp) (bp_busy bp) (firstn n (bp_q bp)) n) l))
    + wsum P (flat_map (fun bp => skipn n (bp_q bp)) l).
Proof.
  induction l as [|bp l IH]; [reflexivity|]. cbn [flat_map map bp_q]. wnorm. rewrite IH.
  rewrite (wsum_firstn_skipn P n (bp_q bp)). lia.
Qed.

(* the weighted equation of BUS holds in every state, for every operation *)
Lemma bus_law_sum fixed keep s o s' outs :
  bus_step fixed s o = (s', outs) -> law_sum (VBus.view fixed keep) s o s' outs.
Proof.
  intros H F. cbv zeta.
  change (v_extra (VBus.view fixed keep) s o outs) with (@nil pmsg). change (v_dups (VBus.view fixed keep) s o) with (@nil key).
  cbn [map]. rewrite !app_nil_r.
  assert (Q : forall o l, (forall c a nb m, o <> PSend c a nb m) -> s_take F (VBus.view fixed keep) s o l = 0 /\ s_del F (VBus.view fixed keep) s o l = 0).
  { intros o0 l Ho. apply s_none; [reflexivity|exact Ho]. }
  destruct o as [c a nb m|c a nb|a rv|p peer|p|p rv|p rv m|c op|c|c| |now];
    try (match goal with |- context [s_take F (VBus.view fixed keep) s ?o0 outs] => destruct (Q o0 outs ltac:(intros; discriminate)) as [A B] end;
         rewrite A, B; clear A B);
    clear Q;
    cbn [op_add op_del]; cbn [bus_step] in H;
    destruct s as [raw pipes rq rcap wait sbuf sn rdb lost]; simp_b.
  - (* PSend: bus0_sock_send *)
    match goal with |- context [v_clones (VBus.view fixed keep) ?s ?o] => change (v_clones (VBus.view fixed keep) s o) with (VBus.clones fixed s o) end.
    unfold VBus.clones. simp_b.
    destruct (negb fixed && nb).
    + inversion H; subst; clear H. bus_view. cbn [s_take s_del]. rewrite send_key_self. bfin.
    + inversion H; subst; clear H.
      pose proof (fan_sum F raw (fst (bus_prep raw m)) (snd (bus_prep raw m)) pipes) as L.
      rewrite body_prep in L.
      destruct (s_quiet (VBus.view fixed keep) F (mkBus raw pipes rq rcap wait sbuf sn rdb lost) (PSend c a nb m)
                  (flat_map (offer_outs raw (fst (bus_prep raw m)) (snd (bus_prep raw m))) pipes)
                  (fan_quiet _ _ _ _)) as [A B].
      rewrite s_take_app, s_del_app, A, B. cbn [s_take s_del]. rewrite send_key_self.
      bus_view. bfin. rewrite ?body_prep. lia.
  - (* PRecv: bus0_sock_recv *)
    destruct rq as [|m rest]; [destruct nb|]; inversion H; subst; clear H; bus_view; bfin.
  - (* PCancel: bus0_recv_cancel *)
    destruct (has_id a wait); inversion H; subst; clear H; bus_view; bfin.
  - (* PPipeStart: bus0_pipe_start *)
    destruct (negb (peer =? PROTO_BUS)%N); inversion H; subst; clear H; bus_view; bfin.
    rewrite flat_map_app. cbn [flat_map bp_q]. bfin.
  - (* PPipeClose: bus0_pipe_close *)
    inversion H; subst; clear H. bus_view.
    pose proof (close_sum (fun m => F (OProto, body m)) p pipes). bfin.
  - (* PSendDone: bus0_pipe_send_cb *)
    cbn [VBus.view v_tx]. simp_b.
    rewrite wsum_tx_of, (wsum_tx_of' (fun k => F (OProto, k))).
    pose proof (wsum_filter_key (fun x => F (OPipe (fst x), body (snd x))) p sn) as P.
    destruct (N.eqb_spec rv 0) as [->|Hrv]; cbn [negb] in H; inversion H; subst; clear H; bus_view;
      unfold drop_sending, held_of.
    + pose proof (next_sum (fun m => F (OProto, body m)) p pipes). rewrite o_tx_TranSend, o_rel_TranSend. bfin.
    + bfin.
  - (* PRecvDone: bus0_pipe_recv_cb *)
    destruct (N.eqb_spec rv 0) as [->|Hrv]; cbn [negb] in H.
    2:{ inversion H; subst; clear H. destruct (N.eqb_spec rv 0); [contradiction|]. bus_view. bfin. }
    assert (Bm : body (if raw then mkPmsg (pm_hdr m ++ enc32 p) (pm_body m) else m) = body m) by (destruct raw; reflexivity).
    cbn [v_rx VBus.view]. unfold no_rx. cbn [N.eqb].
    destruct wait as [|a rest]; [destruct (length rq <? rcap)|]; inversion H; subst; clear H; bus_view; bfin;
      rewrite ?Bm; lia.
  - (* PSetOpt *)
    destruct op; try (inversion H; subst; clear H; bus_view; bfin; fail).
    + destruct (buf_bad n); inversion H; subst; clear H; bus_view; [bfin|].
      pose proof (shrink_sum (fun m => F (OProto, body m)) n pipes). bfin.
    + destruct (buf_bad n); inversion H; subst; clear H; bus_view; [bfin|].
      pose proof (wsum_firstn_skipn (fun m => F (OProto, body m)) n rq). bfin.
  - inversion H; subst; clear H. bus_view. bfin.
  - inversion H; subst; clear H. bus_view. bfin.
  - (* PSockClose: bus0_sock_close *)
    inversion H; subst; clear H. bus_view. bfin.
  - inversion H; subst; clear H. bus_view. bfin.
Qed.

(* every clone of bus0_sock_send is a clone of the message just taken from the sending aio *)
Lemma bus_clones_held fixed keep s o s' outs :
  bus_step fixed s o = (s', outs) -> clones_held (VBus.view fixed keep) s o outs.
Proof.
  intros H. apply clones_held_intro. intros k0 Hk. right. left.
  cbn [v_clones VBus.view] in Hk. unfold VBus.clones in Hk.
  destruct o as [c a nb m|c a nb|a rv|p peer|p|p rv|p rv m|c op|c|c| |now]; try destruct Hk.
  cbn [bus_step] in H. destruct (negb fixed && nb); [destruct Hk|].
  apply in_map_iff in Hk. destruct Hk as [bp [<- _]].
  exists a. split; [|apply send_key_self].
  inversion H; subst. apply in_or_app. right. right. left. reflexivity.
Qed.

Lemma bus_inv_init raw : BusProofs.BInv (bus_init raw).
Proof. apply BusProofs.bus_init_inv. Qed.

Theorem bus_proto_law : forall fixed keep,
  proto_law (VBus.view fixed keep) (bus_step fixed) BusProofs.BInv BusProofs.op_ok.
Proof.
  intros fixed keep s o s' outs HI Hok H. split; [|split].
  - exact (BusProofs.bus_step_inv fixed s o s' outs HI Hok H).
  - apply law_sum_eq. apply bus_law_sum. exact H.
  - eapply bus_clones_held. exact H.
Qed.

(* ------------------------------ the contracts are satisfiable ------------------------------ *)
(* a send that blocks (buffer depth 0), option change (the buffer grows: with the resize repair the
   blocked sender moves in), peer attaches (the message goes out), transport completion, a direct send,
   a message arrives and is parked, a receive takes it, the peer goes, the socket closes *)
Example pair0_ok_nonvacuous : forall fx fr fs,
  ops_ok (pair_step_g K0 fx fr fs) pair_ok pair_init
    [PSend None 1%N false (mkPmsg [] [1%N]); PSetOpt None (OSendBuf 1); PPipeStart 5%N PROTO_PAIR0;
     PSendDone 5%N 0%N; PSend None 3%N false (mkPmsg [] [2%N]); PSendDone 5%N 0%N;
     PRecvDone 5%N 0%N (mkPmsg [] [9%N]); PRecv None 2%N false; PRecv None 4%N false; PCancel 4%N E_CANCELED;
     PPipeClose 5%N; PSockClose].
Proof. intros [|] [|] [|]; vm_compute; intuition (try discriminate; try congruence). Qed.

Example pair1_ok_nonvacuous : forall fx fr fs,
  ops_ok (pair_step_g (K1 false) fx fr fs) pair_ok pair_init
    [PSetOpt None (OMaxTtl 4); PSetOpt None (OSendBuf 1); PSend None 1%N false (mkPmsg [] [1%N]);
     PPipeStart 5%N PROTO_PAIR1; PSendDone 5%N 0%N; PSend None 3%N false (mkPmsg [] [2%N]); PSendDone 5%N 0%N;
     PRecvDone 5%N 0%N (mkPmsg [] [0%N; 0%N; 0%N; 1%N; 9%N]); PRecv None 2%N false;
     PRecv None 4%N false; PCancel 4%N E_CANCELED; PPipeClose 5%N; PSockClose].
Proof. intros [|] [|] [|]; vm_compute; intuition (try discriminate; try congruence). Qed.

(* option change, two pipes, a send fanned out to both, transport completion, a message arrives,
   a receive takes it, a pipe goes, the socket closes *)
Example bus_ok_nonvacuous : forall fixed raw,
  ops_ok (bus_step fixed) BusProofs.op_ok (bus_init raw)
    [PSetOpt None (ORecvBuf 4); PPipeStart 1%N PROTO_BUS; PPipeStart 2%N PROTO_BUS;
     PSend None 7%N false (mkPmsg [0%N; 0%N; 0%N; 1%N] [3%N]); PSendDone 2%N 0%N;
     PRecvDone 2%N 0%N (mkPmsg [] [4%N]); PRecv None 8%N false; PRecv None 9%N false; PCancel 9%N E_CANCELED;
     PPipeClose 1%N; PSockClose].
Proof. intros [|] [|]; vm_compute; intuition (try discriminate; try congruence). Qed.

(* ================================================================================ *)
(* Part 2: after the close sequence the protocol owns nothing but what its fini frees *)
Section CloseGen.
  Context {St : Type} (step : St -> pop -> St * list pout) (Inv : St -> Prop) (ok : St -> pop -> Prop).
  Hypothesis Hinv : forall s o, Inv s -> ok s o -> Inv (fst (step s o)).

  Lemma run_app a b s : run step s (a ++ b) = run step (run step s a) b.
  Proof. revert s; induction a as [|o a IH]; intros s; cbn [app run]; auto. Qed.
  Lemma ops_ok_app a b s :
    ops_ok step ok s a -> ops_ok step ok (run step s a) b -> ops_ok step ok s (a ++ b).
  Proof.
    revert s; induction a as [|o a IH]; intros s Ha Hb; cbn [app run ops_ok] in *; [exact Hb|].
    destruct Ha as [Ho Ha]. split; [exact Ho|]. apply IH; assumption.
  Qed.

  (* operations the contract allows in every state of the invariant and that leave a component alone *)
  Lemma run_frame {B} (f : St -> B) ops :
    (forall s o, In o ops -> Inv s -> ok s o /\ f (fst (step s o)) = f s) ->
    forall s, Inv s -> ops_ok step ok s ops /\ Inv (run step s ops) /\ f (run step s ops) = f s.
  Proof.
    induction ops as [|o ops IH]; intros H s Hi; cbn [run ops_ok]; [split; [exact I|split; [exact Hi|reflexivity]]|].
    destruct (H s o (or_introl eq_refl) Hi) as [Ho Hf].
    destruct (IH (fun s o Hin => H s o (or_intror Hin)) (fst (step s o)) (Hinv s o Hi Ho)) as (A & B0 & C).
    split; [split; [exact Ho|exact A]|]. split; [exact B0|]. rewrite C. exact Hf.
  Qed.

  (* the transport fails every send still in flight: one failing completion per pipe *)
  Lemma run_fail {B} (f : St -> B) (sn : St -> list (pid * pmsg)) rv :
    (forall s p, Inv s -> In p (map fst (sn s)) -> ok s (PSendDone p rv)) ->
    (forall s p, sn (fst (step s (PSendDone p rv))) = filter (fun x => negb (N.eqb (fst x) p)) (sn s)) ->
    (forall s p, f (fst (step s (PSendDone p rv))) = f s) ->
    forall l s, NoDup l -> Inv s -> incl l (map fst (sn s)) ->
      ops_ok step ok s (map (fun p => PSendDone p rv) l) /\
      Inv (run step s (map (fun p => PSendDone p rv) l)) /\
      f (run step s (map (fun p => PSendDone p rv) l)) = f s /\
      (forall x, In x (sn (run step s (map (fun p => PSendDone p rv) l))) -> In x (sn s) /\ ~ In (fst x) l).
  Proof.
    intros H1 H2 H3. induction l as [|p l IH]; intros s Hn Hi Hl; cbn [map run ops_ok].
    - split; [exact I|]. split; [exact Hi|]. split; [reflexivity|]. intros x Hx. split; [exact Hx|intros []].
    - inversion Hn as [|? ? Hp Hn']; subst.
      assert (Ho : ok s (PSendDone p rv)) by (apply H1; [exact Hi|apply Hl; left; reflexivity]).
      assert (Hl' : incl l (map fst (sn (fst (step s (PSendDone p rv)))))).
      { intros q Hq. rewrite H2. assert (Hq' : In q (map fst (sn s))) by (apply Hl; right; exact Hq).
        apply in_map_iff in Hq'. destruct Hq' as [x [<- Hx]]. apply in_map. apply filter_In. split; [exact Hx|].
        destruct (N.eqb_spec (fst x) p) as [E|E]; [exfalso; apply Hp; rewrite <- E; exact Hq|reflexivity]. }
      destruct (IH (fst (step s (PSendDone p rv))) Hn' (Hinv s _ Hi Ho) Hl') as (A & B0 & C & D).
      split; [split; [exact Ho|exact A]|]. split; [exact B0|]. split; [rewrite C; apply H3|].
      intros x Hx. destruct (D x Hx) as [D1 D2]. rewrite H2 in D1. apply filter_In in D1. destruct D1 as [D1 D3].
      split; [exact D1|]. intros [E|E]; [|exact (D2 E)]. subst p. rewrite N.eqb_refl in D3. discriminate.
  Qed.
  Lemma run_fail_all {B} (f : St -> B) (sn : St -> list (pid * pmsg)) rv :
    (forall s p, Inv s -> In p (map fst (sn s)) -> ok s (PSendDone p rv)) ->
    (forall s p, sn (fst (step s (PSendDone p rv))) = filter (fun x => negb (N.eqb (fst x) p)) (sn s)) ->
    (forall s p, f (fst (step s (PSendDone p rv))) = f s) ->
    forall s, NoDup (map fst (sn s)) -> Inv s ->
      ops_ok step ok s (map (fun p => PSendDone p rv) (map fst (sn s))) /\
      Inv (run step s (map (fun p => PSendDone p rv) (map fst (sn s)))) /\
      f (run step s (map (fun p => PSendDone p rv) (map fst (sn s)))) = f s /\
      sn (run step s (map (fun p => PSendDone p rv) (map fst (sn s)))) = [].
  Proof.
    intros H1 H2 H3 s Hn Hi.
    destruct (run_fail f sn rv H1 H2 H3 (map fst (sn s)) s Hn Hi (incl_refl _)) as (A & B0 & C & D).
    split; [exact A|]. split; [exact B0|]. split; [exact C|].
    destruct (sn (run step s (map (fun p => PSendDone p rv) (map fst (sn s))))) as [|x r]; [reflexivity|].
    exfalso. destruct (D x (or_introl eq_refl)) as [D1 D2]. apply D2. apply in_map. exact D1.
  Qed.
End CloseGen.

(* ------------------------------ PAIR ------------------------------ *)
(* the socket core's close sequence as pairX sees it: the peer pipe (s->p) gets its pipe_close /
   pipe_stop (which frees the message parked in its aio_recv); every transport send still in
   flight -- of the peer or of a pipe replaced earlier -- fails with NNG_ECLOSED; there are no
   contexts; then pairX_sock_close *)
Definition pair_close_script (s : pair) : list pop :=
  map PPipeClose (opt_list (pr_p s))
  ++ map (fun p => PSendDone p E_CLOSED) (map fst (pr_sending s))
  ++ [PSockClose].

Lemma pair_inv_step k fx fr fs s o : pair_inv s -> pair_ok s o -> pair_inv (fst (pair_step_g k fx fr fs s o)).
Proof.
  intros Hi Ho. destruct (pair_step_g k fx fr fs s o) as [s' outs] eqn:E.
  exact (proj1 (pair_proto_law k fx fr fs s o s' outs Hi Ho E)).
Qed.
Lemma pair_fail_step k fx fr fs s p :
  fst (pair_step_g k fx fr fs s (PSendDone p E_CLOSED)) =
  mkPair (pr_p s) (pr_ttl s) (pr_wmq s) (pr_wcap s) (pr_waq s) (pr_rmq s) (pr_rcap s) (pr_raq s)
         (pr_rd s) (pr_wr s) (set_snd (pr_sending s) p None) (pr_readable s) (pr_writable s).
Proof.
  cbn [pair_step_g]. change (E_CLOSED =? 0)%N with false. rewrite andb_false_r. cbn [andb pair_step].
  change (negb false) with true. cbn iota. reflexivity.
Qed.

Theorem pair_close_drains : forall k fx fr fs s, pair_inv s ->
  ops_ok (pair_step_g k fx fr fs) pair_ok s (pair_close_script s) /\
  drained (VPair.view k) (run (pair_step_g k fx fr fs) s (pair_close_script s)).
Proof.
  intros k fx fr fs s Hi. set (step := pair_step_g k fx fr fs).
  pose proof (pair_inv_step k fx fr fs) as Hinv. fold step in Hinv.
  unfold pair_close_script.
  (* 1: the peer's pipe_close *)
  destruct (run_frame step pair_inv pair_ok Hinv pr_sending (map PPipeClose (opt_list (pr_p s)))) with (s := s)
    as (A1 & J1 & F1); [|exact Hi|].
  { intros s0 o Hin _. apply in_map_iff in Hin. destruct Hin as [p [<- _]]. split; [split; exact I|].
    unfold step. cbn [pair_step_g pair_step]. destruct (pr_p s0) as [q|]; [destruct (q =? p)%N|]; reflexivity. }
  assert (R1 : pr_rd (run step s (map PPipeClose (opt_list (pr_p s)))) = None).
  { destruct (pr_p s) as [p|] eqn:EP; cbn [opt_list map run].
    - unfold step. cbn [pair_step_g pair_step]. rewrite EP, N.eqb_refl. reflexivity.
    - destruct (pr_rd s) eqn:R; [|reflexivity]. destruct Hi as [(_ & I2 & _) _].
      destruct I2 as [X _]; [rewrite R; discriminate|]. congruence. }
  set (s1 := run step s (map PPipeClose (opt_list (pr_p s)))) in *.
  (* 2: the transport fails the sends in flight *)
  destruct (run_fail_all step pair_inv pair_ok Hinv pr_rd pr_sending E_CLOSED) with (s := s1)
    as (A2 & J2 & F2 & S2); [| | | |exact J1|].
  { intros s0 p _ Hin. split; [split; [exact Hin|intros; discriminate]|exact I]. }
  { intros s0 p. unfold step. rewrite pair_fail_step. reflexivity. }
  { intros s0 p. unfold step. rewrite pair_fail_step. reflexivity. }
  { destruct J1 as [(_ & _ & _ & _ & _ & _ & I7) _]. exact I7. }
  rewrite F1 in A2, J2, F2, S2.
  set (s2 := run step s1 (map (fun p => PSendDone p E_CLOSED) (map fst (pr_sending s)))) in *.
  split.
  - apply ops_ok_app; [exact A1|]. fold s1. apply ops_ok_app; [exact A2|]. fold s2.
    cbn [ops_ok]. split; [split; exact I|exact I].
  - rewrite !run_app. fold s1. fold s2. cbn [run]. unfold step. cbn [pair_step_g pair_step fst].
    unfold drained. cbn [VPair.view v_tx v_att v_held v_fini]. simp_p.
    split; [exact S2|]. split; [reflexivity|]. rewrite F2, R1. cbn [opt_list app]. apply perm_nil.
Qed.

(* ------------------------------ BUS ------------------------------ *)
(* every pipe on s->pipes gets bus0_pipe_close (its send queue is flushed); every transport send
   still in flight fails with NNG_ECLOSED; there are no contexts; then bus0_sock_close *)
Definition bus_close_script (s : bus) : list pop :=
  map PPipeClose (map bp_id (bs_pipes s))
  ++ map (fun p => PSendDone p E_CLOSED) (map fst (bs_sending s))
  ++ [PSockClose].

Theorem bus_close_drains : forall fixed keep s, BusProofs.BInv s ->
  ops_ok (bus_step fixed) BusProofs.op_ok s (bus_close_script s) /\
  drained (VBus.view fixed keep) (run (bus_step fixed) s (bus_close_script s)).
Proof.
  intros fixed keep s Hi. set (step := bus_step fixed).
  assert (Hinv : forall s o, BusProofs.BInv s -> BusProofs.op_ok s o -> BusProofs.BInv (fst (step s o))).
  { intros s0 o Hi0 Ho. destruct (step s0 o) as [s' outs] eqn:E. exact (BusProofs.bus_step_inv fixed s0 o s' outs Hi0 Ho E). }
  unfold bus_close_script.
  destruct (run_frame step BusProofs.BInv BusProofs.op_ok Hinv bs_sending (map PPipeClose (map bp_id (bs_pipes s)))) with (s := s)
    as (A1 & J1 & F1); [|exact Hi|].
  { intros s0 o Hin _. apply in_map_iff in Hin. destruct Hin as [p [<- _]]. split; [exact I|reflexivity]. }
  set (s1 := run step s (map PPipeClose (map bp_id (bs_pipes s)))) in *.
  destruct (run_fail_all step BusProofs.BInv BusProofs.op_ok Hinv (fun _ : bus => tt) bs_sending E_CLOSED) with (s := s1)
    as (A2 & J2 & _ & S2); [| | | |exact J1|].
  { intros s0 p _ Hin. exact Hin. }
  { intros s0 p. reflexivity. }
  { intros s0 p. reflexivity. }
  { destruct J1 as (_ & _ & I3 & _). exact I3. }
  rewrite F1 in A2, J2, S2.
  set (s2 := run step s1 (map (fun p => PSendDone p E_CLOSED) (map fst (bs_sending s)))) in *.
  split.
  - apply ops_ok_app; [exact A1|]. fold s1. apply ops_ok_app; [exact A2|]. fold s2.
    cbn [ops_ok]. split; exact I.
  - rewrite !run_app. fold s1. fold s2. cbn [run]. unfold step. cbn [bus_step fst].
    unfold drained. cbn [VBus.view v_tx v_att v_held v_fini]. simp_b.
    split; [exact S2|]. split; [reflexivity|]. apply Permutation_refl.
Qed.


Print Assumptions pair_proto_law.
Print Assumptions bus_proto_law.
Print Assumptions pair_close_drains.
Print Assumptions bus_close_drains.
