(* ViewsCur: the views and step functions instantiated with the variant flags of the
   current source (Gen/Consts.v, regenerated from /repo on every run).  Definitions only;
   this is what the model driver ocaml/drv_c03.ml runs. *)
From Coq Require Import List Arith NArith Bool ZArith.
From NngV Require Import Gen.Consts Proto.Common Ledger.Ledger Ledger.Views.
From NngV Require Proto.PushModel Proto.BusModel Proto.ReqModel Proto.RepModel Proto.XReqModel Proto.XRepModel
  Proto.XSurveyModel Proto.SurveyCur.

Definition req_fix_cur : ReqModel.rfix :=
  ReqModel.mkFix C04_REQ_CLONE_FIXED C04_REQ_CANCEL_SEND_FIXED C04_REQ_STASH_FIXED C04_REQ_RDCLR_FIXED.
Definition rep_fix_cur : RepModel.pfix := RepModel.mkPfix C04_REP_RCLOSE_FIXED C04_REP_NBSEND_FIXED C04_REP_SAIO_FIXED C04_REP_WBUSY_FIXED.
Definition mq_fix_cur04 : XReqModel.mqfix := XReqModel.mkMqfix C04_MSGQ_NB_FIXED C04_MSGQ_RESIZE_FIXED C04_MSGQ_GET_RUNS_PUTQ.

Definition req_step_cur := ReqModel.req_step req_fix_cur.
Definition rep_step_cur := RepModel.rep_step rep_fix_cur.
Definition xreq_step_cur := XReqModel.xreq_step mq_fix_cur04.
Definition xrep_step_cur := XRepModel.xrep_step mq_fix_cur04.
Definition bus_step_cur := BusModel.bus_step BUS_SEND_NO_AIO_START.
(* push0_set_send_buf_len: the pinned text or the repair of finding push-resize-overtakes-blocked *)
Definition push_step_cur := PushModel.push_step_r C06_PUSH_RESIZE_ADMITS_FIXED.

Definition view_bus_cur := VBus.view BUS_SEND_NO_AIO_START C03_BUS_START_BEFORE_DETACH.
Definition view_req_cur := VReq.view req_fix_cur.
Definition view_xsurv_cur := VXsurv.view SurveyCur.mq_fix_cur.
