(* ChunkAlloc.v -- C03: the allocator's view of the message-manipulation API.

   src/core/message.c keeps the body of a message in a chunk {ch_buf, ch_cap, ch_ptr, ch_len}.
   The buffer is obtained from / returned to the PLUGGABLE allocator (nng_init params) and the
   size handed to nni_free is the ch_cap FIELD, not something the allocator remembers.  The
   property says every block goes back "with the size it was allocated with", so the model here
   keeps, next to the cap field, the size the block was really allocated with, and every
   operation returns the allocator events it causes:

       EA b n   block b allocated with n bytes          (nni_zalloc / NNI_ALLOC_STRUCT)
       EF b n   block b freed, n passed as its size     (nni_free / NNI_FREE_STRUCT)
       EI b n   block b enters the application's books from outside (a received message)
       EX b n   block b leaves them (a message handed to a successful send), n its cap field

   Sizes only: contents are Msg/MsgModel.v's business (C01).  The functions mirror
   nni_chunk_grow / append / insert / trim / chop / dup / free, nni_msg_alloc / dup / realloc /
   reserve / free and the header operations statement by statement, including the capacity
   rules (never shrink head room, keep the old tail room, the 32+32 bytes of nni_msg_alloc,
   the >=1024 power-of-two exception, the 8 byte pad of the split in insert).

   cf_early1 / cf_early2 describe in which order nni_chunk_grow executes
   `nni_free(ch->ch_buf, ch->ch_cap)` and `ch->ch_cap = allocsz` in its two re-allocating
   branches (false = the free comes first, the order of the source; regenerated from the
   source by tools/gen_consts_d/c03_chunk.py). *)
From Coq Require Import List Arith NArith Bool Lia.
Import ListNotations.
Local Open Scope N_scope.

Inductive aev := EA (b : nat) (n : N) | EF (b : nat) (n : N) | EI (b : nat) (n : N) | EX (b : nat) (n : N).

Record ccfg := mkCfg {
  cf_early1 : bool;   (* in-buffer branch of grow: cap field overwritten BEFORE the old buffer is freed *)
  cf_early2 : bool;   (* same for the branch without a data pointer *)
  cf_null_ge : bool;  (* that branch re-allocates when allocsz >= cap (true) / > cap (false) *)
  cf_tail : N;        (* nni_msg_alloc: grow(sz + cf_tail, cf_head) *)
  cf_head : N;
  cf_big : N;         (* ... unless sz >= cf_big and a power of two *)
  cf_pad : N;         (* sizeof(uint64_t) in nni_chunk_insert *)
  cf_hdr : N;         (* sizeof(m_header_buf) *)
  cf_ssz : N          (* sizeof(struct nng_msg) *)
}.

(* k_buf = Some (block id, size the block was allocated with); None = NULL *)
Record chunk := mkChunk { k_buf : option (nat * N); k_cap : N; k_ptr : option N; k_len : N }.
Definition chunk0 := mkChunk None 0 None 0.

Inductive cres := COk (c : chunk) (evs : list aev) (nx : nat) | CNomem | CInval.

(* nni_free(ch->ch_buf, sz): the allocator of the driver (as free(3)) ignores NULL *)
Definition free_buf (c : chunk) (sz : N) : list aev :=
  match k_buf c with Some (b, _) => [EF b sz] | None => [] end.

(* nni_chunk_grow.  nx = next unused block id, fail = the allocation (if one is made) fails *)
Definition grow (cf : ccfg) (nx : nat) (fail : bool) (c : chunk) (newsz hw : N) : cres :=
  let newsz := N.max newsz (k_len c) in
  let nullpath :=
    let asz := newsz + hw in
    if (if cf_null_ge cf then k_cap c <=? asz else k_cap c <? asz) then
      if (asz =? 0) || fail then CNomem      (* nni_zalloc(0) = NULL *)
      else COk (mkChunk (Some (nx, asz)) asz (Some hw) (k_len c))
               (EA nx asz :: free_buf c (if cf_early2 cf then asz else k_cap c)) (S nx)
    else COk (mkChunk (k_buf c) (k_cap c) (Some hw) (k_len c)) [] nx in
  match k_ptr c with
  | Some off =>
      if off <? k_cap c then
        let hw := N.max hw off in                   (* never shrink the head room *)
        if (newsz + hw <=? k_cap c) && (hw <=? off) then COk c [] nx
        else
          let newsz := N.max newsz (k_cap c - off) in   (* at least the old tail room *)
          let asz := newsz + hw in
          if (asz =? 0) || fail then CNomem
          else COk (mkChunk (Some (nx, asz)) asz (Some hw) (k_len c))
                   (EA nx asz :: free_buf c (if cf_early1 cf then asz else k_cap c)) (S nx)
      else nullpath
  | None => nullpath
  end.

(* nni_chunk_free *)
Definition cfree (c : chunk) : list aev :=
  if k_cap c =? 0 then [] else free_buf c (k_cap c).

Definition cappend (cf : ccfg) (nx : nat) (fail : bool) (c : chunk) (n : N) : cres :=
  if n =? 0 then COk c [] nx else
  match grow cf nx fail c (n + k_len c) 0 with
  | COk c' evs nx' =>
      COk (mkChunk (k_buf c') (k_cap c') (match k_ptr c' with None => Some 0 | p => p end) (k_len c' + n)) evs nx'
  | r => r
  end.

Definition round_up (pad x : N) : N := if pad =? 0 then x else ((x + (pad - 1)) / pad) * pad.

Definition cinsert (cf : ccfg) (nx : nat) (fail : bool) (c : chunk) (n : N) : cres :=
  let off := match k_ptr c with Some o => o | None => 0 end in   (* ch_ptr = ch_buf if it was NULL *)
  let needed := k_len c + n in
  let growpath :=
    match grow cf nx fail (mkChunk (k_buf c) (k_cap c) (Some off) (k_len c)) 0 n with
    | COk c' evs nx' =>
        COk (mkChunk (k_buf c') (k_cap c') (match k_ptr c' with Some o => Some (o - n) | None => None end) (k_len c' + n)) evs nx'
    | r => r
    end in
  if off <? k_cap c then
    if n <=? off then COk (mkChunk (k_buf c) (k_cap c) (Some (off - n)) needed) [] nx
    else if needed + cf_pad cf <=? k_cap c then
      COk (mkChunk (k_buf c) (k_cap c) (Some (round_up (cf_pad cf) ((k_cap c - needed) / 2))) needed) [] nx
    else growpath
  else growpath.

Definition ctrim (c : chunk) (n : N) (nx : nat) : cres :=
  if k_len c <? n then CInval else
  let l := k_len c - n in
  COk (mkChunk (k_buf c) (k_cap c)
         (if l =? 0 then k_ptr c else match k_ptr c with Some o => Some (o + n) | None => None end) l) [] nx.

Definition cchop (c : chunk) (n : N) (nx : nat) : cres :=
  if k_len c <? n then CInval else COk (mkChunk (k_buf c) (k_cap c) (k_ptr c) (k_len c - n)) [] nx.

(* nni_chunk_dup: the copy is allocated with the source's cap FIELD *)
Definition cdup (nx : nat) (fail : bool) (src : chunk) : cres :=
  if (k_cap src =? 0) || fail then CNomem
  else COk (mkChunk (Some (nx, k_cap src)) (k_cap src) (k_ptr src) (k_len src)) [EA nx (k_cap src)] (S nx).

(* ---- messages in numbered slots (the driver's m0 .. m15) ---- *)
Record msg := mkMsg { g_sb : nat; g_hlen : N; g_body : chunk }.
Record mstate := mkSt { s_slots : list (option msg); s_next : nat }.
Definition ms_init (nslots : nat) : mstate := mkSt (repeat None nslots) 0.

Inductive mop :=
| MAlloc (k : nat) (sz : N) | MAppend (k : nat) (n : N) | MInsert (k : nat) (n : N)
| MTrim (k : nat) (n : N) | MChop (k : nat) (n : N) | MRealloc (k : nat) (n : N) | MReserve (k : nat) (n : N)
| MClear (k : nat)
| MHAppend (k : nat) (n : N) | MHInsert (k : nat) (n : N) | MHTrim (k : nat) (n : N) | MHChop (k : nat) (n : N)
| MHClear (k : nat)
| MDup (k j : nat) | MFree (k : nat)
| MGive (k : nat)                                   (* a successful send took the message *)
| MAdopt (k : nat) (asz head len hlen : N).          (* a received message: geometry as observed *)

Definition ENOMEM : N := 2.
Definition EINVAL : N := 3.
Definition EBUSY : N := 4.
Definition ENOENT : N := 12.

Fixpoint put {A} (k : nat) (v : A) (l : list A) : list A :=
  match l, k with
  | [], _ => []
  | _ :: r, O => v :: r
  | x :: r, S k' => x :: put k' v r
  end.

Definition get (k : nat) (l : list (option msg)) : option msg :=
  match nth_error l k with Some (Some m) => Some m | _ => None end.

Definition fails (f : option nat) (i : nat) : bool :=
  match f with Some j => Nat.eqb j i | None => false end.

Definition big_aligned (cf : ccfg) (sz : N) : bool :=
  (cf_big cf <=? sz) && (N.land sz (sz - 1) =? 0).

Definition body_op (st : mstate) (k : nat) (f : msg -> nat -> cres) : mstate * N * list aev :=
  match get k (s_slots st) with
  | None => (st, ENOENT, [])
  | Some m =>
      match f m (s_next st) with
      | COk c evs nx => (mkSt (put k (Some (mkMsg (g_sb m) (g_hlen m) c)) (s_slots st)) nx, 0, evs)
      | CNomem => (st, ENOMEM, [])
      | CInval => (st, EINVAL, [])
      end
  end.

Definition hdr_op (st : mstate) (k : nat) (f : N -> option N) : mstate * N * list aev :=
  match get k (s_slots st) with
  | None => (st, ENOENT, [])
  | Some m =>
      match f (g_hlen m) with
      | Some h => (mkSt (put k (Some (mkMsg (g_sb m) h (g_body m))) (s_slots st)) (s_next st), 0, [])
      | None => (st, EINVAL, [])
      end
  end.

Definition give_buf (c : chunk) : list aev :=
  match k_buf c with Some (b, _) => [EX b (k_cap c)] | None => [] end.

(* one operation; f = Some i: the i-th allocation this operation makes fails *)
Definition mstep (cf : ccfg) (st : mstate) (o : mop) (f : option nat) : mstate * N * list aev :=
  let nx := s_next st in
  match o with
  | MAlloc k sz =>
      match nth_error (s_slots st) k with
      | None => (st, ENOENT, [])
      | Some (Some _) => (st, EBUSY, [])
      | Some None =>
          if fails f 0 then (st, ENOMEM, []) else
          let r := if big_aligned cf sz then grow cf (S nx) (fails f 1) chunk0 sz 0
                   else grow cf (S nx) (fails f 1) chunk0 (sz + cf_tail cf) (cf_head cf) in
          match r with
          | COk c evs nx2 =>
              match cappend cf nx2 false c sz with
              | COk c' evs' nx3 =>
                  (mkSt (put k (Some (mkMsg nx 0 c')) (s_slots st)) nx3, 0, EA nx (cf_ssz cf) :: evs ++ evs')
              | _ => (* nni_panic("chunk_append failed"): not reached, the chunk was grown to fit *)
                  (mkSt (s_slots st) nx2, 99, EA nx (cf_ssz cf) :: evs ++ cfree c ++ [EF nx (cf_ssz cf)])
              end
          | _ => (mkSt (s_slots st) (S nx), ENOMEM, [EA nx (cf_ssz cf); EF nx (cf_ssz cf)])
          end
      end
  | MAppend k n => body_op st k (fun m nx => cappend cf nx (fails f 0) (g_body m) n)
  | MInsert k n => body_op st k (fun m nx => cinsert cf nx (fails f 0) (g_body m) n)
  | MTrim k n => body_op st k (fun m nx => ctrim (g_body m) n nx)
  | MChop k n => body_op st k (fun m nx => cchop (g_body m) n nx)
  | MRealloc k n =>
      body_op st k (fun m nx =>
        if k_len (g_body m) <? n then cappend cf nx (fails f 0) (g_body m) (n - k_len (g_body m))
        else match cchop (g_body m) (k_len (g_body m) - n) nx with
             | CInval => COk (g_body m) [] nx      (* the C ignores the result; it cannot fail *)
             | r => r
             end)
  | MReserve k n => body_op st k (fun m nx => grow cf nx (fails f 0) (g_body m) n 0)
  | MClear k => body_op st k (fun m nx => COk (mkChunk (k_buf (g_body m)) (k_cap (g_body m)) (k_ptr (g_body m)) 0) [] nx)
  | MHAppend k n | MHInsert k n => hdr_op st k (fun h => if cf_hdr cf <? n + h then None else Some (h + n))
  | MHTrim k n | MHChop k n => hdr_op st k (fun h => if h <? n then None else Some (h - n))
  | MHClear k => hdr_op st k (fun _ => Some 0)
  | MDup k j =>
      match get k (s_slots st), nth_error (s_slots st) j with
      | Some m, Some None =>
          if fails f 0 then (st, ENOMEM, []) else
          match cdup (S nx) (fails f 1) (g_body m) with
          | COk c evs nx2 =>
              (mkSt (put j (Some (mkMsg nx (g_hlen m) c)) (s_slots st)) nx2, 0, EA nx (cf_ssz cf) :: evs)
          | _ => (mkSt (s_slots st) (S nx), ENOMEM, [EA nx (cf_ssz cf); EF nx (cf_ssz cf)])
          end
      | Some _, Some (Some _) => (st, EBUSY, [])
      | _, _ => (st, ENOENT, [])
      end
  | MFree k =>
      match get k (s_slots st) with
      | None => (st, ENOENT, [])
      | Some m => (mkSt (put k None (s_slots st)) nx, 0, cfree (g_body m) ++ [EF (g_sb m) (cf_ssz cf)])
      end
  | MGive k =>
      match get k (s_slots st) with
      | None => (st, ENOENT, [])
      | Some m => (mkSt (put k None (s_slots st)) nx, 0, give_buf (g_body m) ++ [EX (g_sb m) (cf_ssz cf)])
      end
  | MAdopt k asz head len hlen =>
      match nth_error (s_slots st) k with
      | None => (st, ENOENT, [])
      | Some (Some _) => (st, EBUSY, [])
      | Some None =>
          if asz =? 0 then (st, EINVAL, []) else
          (mkSt (put k (Some (mkMsg nx hlen (mkChunk (Some (S nx, asz)) asz (Some head) len))) (s_slots st)) (S (S nx)),
           0, [EI nx (cf_ssz cf); EI (S nx) asz])
      end
  end.

(* what the driver can see of slot k: body length, header length, nng_msg_capacity,
   the size the body block was allocated with, the head room *)
Definition mobs (st : mstate) (k : nat) : option (N * N * N * N * N) :=
  match get k (s_slots st) with
  | None => None
  | Some m =>
      let c := g_body m in
      let off := match k_ptr c with Some o => o | None => 0 end in
      Some (k_len c, g_hlen m, k_cap c - off, match k_buf c with Some (_, a) => a | None => 0 end, off)
  end.

(* ---- the allocator's books ---- *)
Definition tab := list (nat * N).

Fixpoint take (b : nat) (n : N) (t : tab) : option tab :=
  match t with
  | [] => None
  | (b', n') :: r =>
      if Nat.eqb b b' && (n =? n') then Some r
      else match take b n r with Some r' => Some ((b', n') :: r') | None => None end
  end.

Definition has_id (b : nat) (t : tab) : bool := existsb (fun p => Nat.eqb (fst p) b) t.

(* None = the event is not acceptable: an id allocated twice, or a free / hand-over that names
   a block that is not live WITH THAT SIZE *)
Definition tstep (t : tab) (e : aev) : option tab :=
  match e with
  | EA b n | EI b n => if has_id b t then None else Some ((b, n) :: t)
  | EF b n | EX b n => take b n t
  end.

Fixpoint treplay (t : tab) (evs : list aev) : option tab :=
  match evs with
  | [] => Some t
  | e :: r => match tstep t e with Some t' => treplay t' r | None => None end
  end.

(* a whole history: operations with their allocation-failure choice *)
Fixpoint mrun (cf : ccfg) (st : mstate) (ops : list (mop * option nat)) : mstate * list aev :=
  match ops with
  | [] => (st, [])
  | (o, f) :: r =>
      let '(st1, _, evs) := mstep cf st o f in
      let '(st2, evs2) := mrun cf st1 r in
      (st2, evs ++ evs2)
  end.

(* blocks the application holds through its slots, with the sizes they were allocated with *)
Definition cblocks (c : chunk) : tab := match k_buf c with Some (b, a) => [(b, a)] | None => [] end.
Definition oblocks (cf : ccfg) (o : option msg) : tab :=
  match o with Some m => (g_sb m, cf_ssz cf) :: cblocks (g_body m) | None => [] end.
Definition owned (cf : ccfg) (l : list (option msg)) : tab := flat_map (oblocks cf) l.
