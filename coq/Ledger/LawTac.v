(* LawTac: the step law of LedgerProofs in a form that computes, and the small lemmas
   and tactics the per-protocol proofs (Ledger/Own*.v) share. *)
From Coq Require Import List Arith NArith Bool Lia.
From NngV Require Import Proto.Common Ledger.Ledger Ledger.LedgerProofs.
Import ListNotations.

Global Arguments wsum {A} F l : simpl never.
Global Arguments cnt x l : simpl never.

Section Sums.
  Variable F : owner * key -> nat.

  (* what the outputs of a step hand to pipes / take out of the protocol *)
  Fixpoint o_tx (outs : list pout) : nat :=
    match outs with
    | [] => 0
    | TranSend p m :: r => F (OPipe p, body m) + o_tx r
    | _ :: r => o_tx r
    end.
  Fixpoint o_rel (outs : list pout) : nat :=
    match outs with
    | [] => 0
    | Free m :: r => F (OProto, body m) + o_rel r
    | TranSend _ m :: r => F (OProto, body m) + o_rel r
    | Complete _ rv (Some m) :: r => (if N.eqb rv 0 then F (OProto, body m) else 0) + o_rel r
    | _ :: r => o_rel r
    end.
  Lemma o_tx_app a b : o_tx (a ++ b) = o_tx a + o_tx b.
  Proof. induction a as [|x a IH]; cbn; [reflexivity|]. destruct x; rewrite ?IH; lia. Qed.
  Lemma o_rel_app a b : o_rel (a ++ b) = o_rel a + o_rel b.
  Proof. induction a as [|x a IH]; cbn; [reflexivity|]. destruct x; try destruct m; rewrite ?IH; lia. Qed.
  Lemma o_tx_Free l : o_tx (map Free l) = 0.
  Proof. induction l; cbn; auto. Qed.
  Lemma o_rel_Free l : o_rel (map Free l) = wsum (fun m => F (OProto, body m)) l.
  Proof. induction l; cbn; [reflexivity|]. rewrite wsum_cons, IHl. reflexivity. Qed.
  Lemma o_tx_fail rv l : o_tx (fail_aios rv l) = 0.
  Proof. induction l; cbn; auto. Qed.
  Lemma o_rel_fail rv l : o_rel (fail_aios rv l) = 0.
  Proof. induction l; cbn; auto. Qed.

  Context {St : Type} (V : view St).

  (* completions of pending sends: taken by the library / leaving the aio *)
  Fixpoint s_take (s : St) (o : pop) (outs : list pout) : nat :=
    match outs with
    | [] => 0
    | Complete a rv None :: r =>
        match send_key V s o a with
        | Some k => (if N.eqb rv 0 then F (OProto, k) else 0) + s_take s o r
        | None => s_take s o r
        end
    | _ :: r => s_take s o r
    end.
  Fixpoint s_del (s : St) (o : pop) (outs : list pout) : nat :=
    match outs with
    | [] => 0
    | Complete a rv None :: r =>
        match send_key V s o a with
        | Some k => F (OAio a, k) + s_del s o r
        | None => s_del s o r
        end
    | _ :: r => s_del s o r
    end.
  Lemma s_take_app s o a b : s_take s o (a ++ b) = s_take s o a + s_take s o b.
  Proof. induction a as [|x a IH]; cbn; [reflexivity|]. destruct x; try destruct m; try destruct (send_key V s o a0); rewrite ?IH; lia. Qed.
  Lemma s_del_app s o a b : s_del s o (a ++ b) = s_del s o a + s_del s o b.
  Proof. induction a as [|x a IH]; cbn; [reflexivity|]. destruct x; try destruct m; try destruct (send_key V s o a0); rewrite ?IH; lia. Qed.
  Lemma s_take_Free s o l : s_take s o (map Free l) = 0.
  Proof. induction l; cbn; auto. Qed.
  Lemma s_del_Free s o l : s_del s o (map Free l) = 0.
  Proof. induction l; cbn; auto. Qed.

  Definition op_add (s : St) (o : pop) : nat :=
    match o with
    | PSend _ a _ m => F (OAio a, body m)
    | PRecvDone p rv m => if N.eqb rv 0 then F (OProto, v_rx V s p m) else 0
    | PSendDone p rv => if N.eqb rv 0 then 0 else wsum (fun m => F (OProto, body m)) (tx_of p (v_tx V s))
    | _ => 0
    end.
  Definition op_del (s : St) (o : pop) : nat :=
    match o with
    | PSendDone p rv => wsum (fun m => F (OPipe p, body m)) (tx_of p (v_tx V s))
    | _ => 0
    end.
  Definition w_omega (s : St) : nat :=
    wsum (fun m => F (OProto, body m)) (v_held V s)
    + wsum (fun x => F (OPipe (fst x), body (snd x))) (v_tx V s)
    + wsum (fun x => F (OAio (fst x), body (snd x))) (v_att V s).

  Lemma w_omega_eq s : wsum F (omega V s) = w_omega s.
  Proof. unfold omega, w_omega. rewrite !wsum_app, !wsum_map. lia. Qed.

  Lemma adds_op s o : wsum F (flat_map aev_adds (evs_op V s o)) = op_add s o.
  Proof.
    destruct o; cbn [evs_op op_add]; try reflexivity.
    - cbn. rewrite wsum_cons, wsum_nil. lia.
    - destruct (N.eqb rv 0).
      + induction (tx_of p (v_tx V s)); cbn; auto.
      + induction (tx_of p (v_tx V s)) as [|m l IH]; [reflexivity|]. cbn [map flat_map aev_adds lib_owner].
        rewrite wsum_app, IH, !wsum_cons, wsum_nil. lia.
    - destruct (N.eqb rv 0); cbn; rewrite ?wsum_cons, ?wsum_nil; lia.
  Qed.
  Lemma dels_op s o : wsum F (flat_map aev_dels (evs_op V s o)) = op_del s o.
  Proof.
    destruct o; cbn [evs_op op_del]; try reflexivity.
    - destruct (N.eqb rv 0); induction (tx_of p (v_tx V s)) as [|m l IH]; try reflexivity;
        cbn [map flat_map aev_dels lib_owner]; rewrite wsum_app, IH, !wsum_cons, wsum_nil; lia.
    - destruct (N.eqb rv 0); reflexivity.
  Qed.
  Lemma adds_sends s o outs : wsum F (flat_map aev_adds (evs_sends V s o outs)) = s_take s o outs.
  Proof.
    induction outs as [|x r IH]; [reflexivity|]. cbn [evs_sends s_take].
    destruct x; auto. destruct m; auto. destruct (send_key V s o a); auto.
    cbn [flat_map]. rewrite wsum_app, IH.
    destruct (N.eqb rv 0); [|destruct (has_id a (v_detach V s o))]; cbn; rewrite ?wsum_cons, ?wsum_nil; lia.
  Qed.
  Lemma dels_sends s o outs : wsum F (flat_map aev_dels (evs_sends V s o outs)) = s_del s o outs.
  Proof.
    induction outs as [|x r IH]; [reflexivity|]. cbn [evs_sends s_del].
    destruct x; auto. destruct m; auto. destruct (send_key V s o a); auto.
    cbn [flat_map]. rewrite wsum_app, IH.
    destruct (N.eqb rv 0); [|destruct (has_id a (v_detach V s o))]; cbn; rewrite ?wsum_cons, ?wsum_nil; lia.
  Qed.
  Lemma adds_outs outs : wsum F (flat_map aev_adds (evs_outs outs)) = o_tx outs.
  Proof.
    induction outs as [|x r IH]; [reflexivity|]. cbn [evs_outs o_tx].
    destruct x; auto.
    - destruct m; auto. destruct (N.eqb rv 0); auto.
    - cbn [flat_map]. rewrite wsum_app, IH. cbn. rewrite ?wsum_cons, ?wsum_nil. lia.
  Qed.
  Lemma dels_outs outs : wsum F (flat_map aev_dels (evs_outs outs)) = o_rel outs.
  Proof.
    induction outs as [|x r IH]; [reflexivity|]. cbn [evs_outs o_rel].
    destruct x; auto.
    - destruct m; auto. destruct (N.eqb rv 0); auto. cbn [flat_map]. rewrite wsum_app, IH. cbn. rewrite ?wsum_cons, ?wsum_nil. lia.
    - cbn [flat_map]. rewrite wsum_app, IH. cbn. rewrite ?wsum_cons, ?wsum_nil. lia.
    - cbn [flat_map]. rewrite wsum_app, IH. cbn. rewrite ?wsum_cons, ?wsum_nil. lia.
  Qed.
  Lemma adds_mid s o :
    wsum F (flat_map aev_adds (map (AClone OProto) (v_clones V s o) ++ map (AAlloc OProto) (v_dups V s o)))
    = wsum (fun k => F (OProto, k)) (v_clones V s o ++ v_dups V s o).
  Proof.
    rewrite flat_map_app, !wsum_app. f_equal.
    - induction (v_clones V s o); cbn; [reflexivity|]. rewrite !wsum_cons. cbn in IHl. cbn. lia.
    - induction (v_dups V s o); cbn; [reflexivity|]. rewrite !wsum_cons. cbn in IHl. cbn. lia.
  Qed.
  Lemma dels_mid s o :
    wsum F (flat_map aev_dels (map (AClone OProto) (v_clones V s o) ++ map (AAlloc OProto) (v_dups V s o))) = 0.
  Proof.
    rewrite flat_map_app, wsum_app.
    assert (flat_map aev_dels (map (AClone OProto) (v_clones V s o)) = []) by (induction (v_clones V s o); cbn; auto).
    assert (flat_map aev_dels (map (AAlloc OProto) (v_dups V s o)) = []) by (induction (v_dups V s o); cbn; auto).
    rewrite H, H0. reflexivity.
  Qed.
End Sums.

(* the law as an equation between computed sums *)
Definition law_sum {St} (V : view St) (s : St) (o : pop) (s' : St) (outs : list pout) : Prop :=
  forall F : owner * key -> nat,
    let outs' := outs ++ map Free (v_extra V s o outs) in
    w_omega F V s + op_add F V s o + s_take F V s o outs
      + wsum (fun k => F (OProto, k)) (v_clones V s o ++ v_dups V s o) + o_tx F outs'
    = w_omega F V s' + op_del F V s o + s_del F V s o outs + o_rel F outs'.

Lemma law_sum_eq {St} (V : view St) s o s' outs : law_sum V s o s' outs -> law_eq V s o s' outs.
Proof.
  intros H F. specialize (H F). cbv zeta in *. unfold step_evs.
  rewrite !flat_map_app, !wsum_app.
  rewrite adds_op, dels_op, adds_sends, dels_sends, adds_outs, dels_outs, !w_omega_eq.
  pose proof (adds_mid F V s o) as A. pose proof (dels_mid F V s o) as D.
  rewrite flat_map_app, wsum_app in A, D. lia.
Qed.

(* a clone is of something held: the send just taken, or a reference the state already has *)
Lemma clones_held_intro {St} (V : view St) s o outs :
  (forall k, In k (v_clones V s o) ->
     In k (map body (v_held V s)) \/
     (exists a, In (Complete a E_OK None) outs /\ send_key V s o a = Some k) \/
     (exists p rv, o = PSendDone p rv /\ rv <> 0%N /\ In k (map body (tx_of p (v_tx V s))))) ->
  clones_held V s o outs.
Proof.
  intros H k Hk. rewrite cnt_app. destruct (H k Hk) as [Hh|[[a [Hin Hs]]|[p [rv [-> [Hrv Hin]]]]]].
  - assert (0 < cnt (OProto, k) (omega V s)); [|lia].
    apply cnt_pos_in. unfold omega. apply in_or_app. left. apply in_map_iff in Hh. destruct Hh as [m [<- Hm]].
    apply in_map_iff. exists m. split; auto.
  - assert (0 < cnt (OProto, k) (flat_map aev_adds (evs_op V s o ++ evs_sends V s o outs))); [|lia].
    apply cnt_pos_in. rewrite flat_map_app. apply in_or_app. right. clear H Hk.
    induction outs as [|x r IH]; [destruct Hin|]. destruct Hin as [->|Hin].
    + cbn [evs_sends]. rewrite Hs. change (E_OK =? 0)%N with true. cbn. left. reflexivity.
    + cbn [evs_sends]. destruct x; auto. destruct m; auto. destruct (send_key V s o a0); auto.
      cbn [flat_map]. apply in_or_app. right. auto.
  - assert (0 < cnt (OProto, k) (flat_map aev_adds (evs_op V s (PSendDone p rv) ++ evs_sends V s (PSendDone p rv) outs))); [|lia].
    apply cnt_pos_in. rewrite flat_map_app. apply in_or_app. left. cbn [evs_op].
    destruct (N.eqb_spec rv 0); [contradiction|].
    apply in_map_iff in Hin. destruct Hin as [m [<- Hm]]. clear H Hk.
    induction (tx_of p (v_tx V s)) as [|y l IH]; [destruct Hm|]. destruct Hm as [->|Hm]; cbn; auto.
Qed.
Lemma clones_held_none {St} (V : view St) s o outs : v_clones V s o = [] -> clones_held V s o outs.
Proof. intros H k Hk. rewrite H in Hk. destruct Hk. Qed.

(* ---- keyed lists ---- *)
Lemma wsum_filter_key {A} (G : N * A -> nat) (p : N) (l : list (N * A)) :
  wsum G l = wsum G (filter (fun x => N.eqb (fst x) p) l) + wsum G (filter (fun x => negb (N.eqb (fst x) p)) l).
Proof. apply wsum_filter_split. Qed.
Lemma wsum_tx_of (G : owner * key -> nat) p l :
  wsum (fun m => G (OPipe p, body m)) (tx_of p l)
  = wsum (fun x => G (OPipe (fst x), body (snd x))) (filter (fun x => N.eqb (fst x) p) l).
Proof.
  unfold tx_of. induction l as [|[q m] l IH]; [reflexivity|]. cbn [filter fst].
  destruct (N.eqb_spec q p); cbn [map snd]; rewrite ?wsum_cons, IH; cbn [fst snd]; [subst; reflexivity|reflexivity].
Qed.
Lemma wsum_tx_of' (G : key -> nat) p l :
  wsum (fun m => G (body m)) (tx_of p l) = wsum (fun x => G (body (snd x))) (filter (fun x => N.eqb (fst x) p) l).
Proof.
  unfold tx_of. induction l as [|[q m] l IH]; [reflexivity|]. cbn [filter fst].
  destruct (N.eqb_spec q p); cbn [map snd]; rewrite ?wsum_cons, IH; reflexivity.
Qed.
Lemma filter_keep_notin' {A} (p : N) (l : list (N * A)) :
  ~ In p (map fst l) -> filter (fun x => negb (N.eqb (fst x) p)) l = l.
Proof.
  induction l as [|[k v] l IH]; cbn; intros H; [reflexivity|].
  destruct (N.eqb_spec k p); cbn; [exfalso; apply H; auto|]. f_equal. apply IH. tauto.
Qed.
Lemma filter_eq_notin' {A} (p : N) (l : list (N * A)) :
  ~ In p (map fst l) -> filter (fun x => N.eqb (fst x) p) l = [].
Proof.
  induction l as [|[k v] l IH]; cbn; intros H; [reflexivity|].
  destruct (N.eqb_spec k p); cbn; [exfalso; apply H; auto|]. apply IH. tauto.
Qed.
Lemma att_key_head a m (l : list (aioid * pmsg)) : att_key a ((a, m) :: l) = Some (body m).
Proof. cbn. now rewrite N.eqb_refl. Qed.
Lemma att_key_notin a (l : list (aioid * pmsg)) : ~ In a (map fst l) -> att_key a l = None.
Proof.
  induction l as [|[b m] l IH]; cbn; intros H; [reflexivity|].
  destruct (N.eqb_spec b a); [exfalso; apply H; auto|]. apply IH. tauto.
Qed.
Lemma att_key_in a m (l : list (aioid * pmsg)) : NoDup (map fst l) -> In (a, m) l -> att_key a l = Some (body m).
Proof.
  induction l as [|[b m'] l IH]; cbn; intros Hn Hi; [destruct Hi|]. inversion Hn; subst.
  destruct Hi as [E|Hi].
  - inversion E; subst. now rewrite N.eqb_refl.
  - destruct (N.eqb_spec b a); [subst; exfalso; apply H1; apply in_map_iff; exists (a, m); auto|]. apply IH; auto.
Qed.

Ltac wnorm :=
  repeat (rewrite ?wsum_app, ?wsum_cons, ?wsum_nil, ?wsum_map, ?o_tx_app, ?o_rel_app, ?o_tx_Free, ?o_rel_Free,
          ?o_tx_fail, ?o_rel_fail, ?s_take_app, ?s_del_app, ?s_take_Free, ?s_del_Free, ?app_nil_r in *).

(* no queued user sends and the operation is not a send: no completion concerns the ledger *)
Lemma s_none {St} (V : view St) F s o outs :
  v_att V s = [] -> (forall c a nb m, o <> PSend c a nb m) ->
  s_take F V s o outs = 0 /\ s_del F V s o outs = 0.
Proof.
  intros Ha Ho. assert (K : forall a, send_key V s o a = None).
  { intros a. unfold send_key. rewrite Ha. destruct o; try reflexivity. exfalso. eapply Ho. reflexivity. }
  induction outs as [|x r [IH1 IH2]]; [split; reflexivity|]. cbn [s_take s_del].
  destruct x; auto. destruct m; auto. rewrite K. auto.
Qed.
(* outputs that complete no send *)
Fixpoint no_send_done (outs : list pout) : bool :=
  match outs with
  | [] => true
  | Complete _ _ None :: _ => false
  | _ :: r => no_send_done r
  end.
Lemma s_quiet {St} (V : view St) F s o outs : no_send_done outs = true ->
  s_take F V s o outs = 0 /\ s_del F V s o outs = 0.
Proof.
  induction outs as [|x r IH]; intros H; [split; reflexivity|]. cbn [s_take s_del no_send_done] in *.
  destruct x; auto. destruct m; auto. discriminate.
Qed.

(* failing a set of queued sends: each leaves its aio's message where it is *)
Lemma s_fail_sub {St} (V : view St) F s o rv (l' : list (aioid * pmsg)) :
  NoDup (map fst (v_att V s)) -> (forall c a nb m, o <> PSend c a nb m) -> rv <> 0%N ->
  incl l' (v_att V s) ->
  s_take F V s o (fail_aios rv (map fst l')) = 0 /\
  s_del F V s o (fail_aios rv (map fst l')) = wsum (fun x => F (OAio (fst x), body (snd x))) l'.
Proof.
  intros Hn Ho Hrv Hi. induction l' as [|[a m] l' IH]; [split; reflexivity|].
  destruct IH as [I1 I2]; [intros x Hx; apply Hi; right; exact Hx|].
  cbn [map fst fail_aios s_take s_del].
  assert (K : send_key V s o a = Some (body m)).
  { unfold send_key. assert (att_key a (v_att V s) = Some (body m)) by (apply att_key_in; [exact Hn|apply Hi; left; reflexivity]).
    destruct o; auto. exfalso. eapply Ho. reflexivity. }
  rewrite K. destruct (N.eqb_spec rv 0); [contradiction|]. rewrite wsum_cons. cbn [fst snd].
  fold (fail_aios rv (map fst l')). rewrite I1, I2. split; lia.
Qed.
Lemma s_fail_all {St} (V : view St) F s o rv :
  NoDup (map fst (v_att V s)) -> (forall c a nb m, o <> PSend c a nb m) -> rv <> 0%N ->
  s_take F V s o (fail_aios rv (map fst (v_att V s))) = 0 /\
  s_del F V s o (fail_aios rv (map fst (v_att V s))) = wsum (fun x => F (OAio (fst x), body (snd x))) (v_att V s).
Proof. intros. apply s_fail_sub; auto. apply incl_refl. Qed.
Lemma wsum_remove_aio (G : aioid * pmsg -> nat) a (l : list (aioid * pmsg)) m :
  NoDup (map fst l) -> In (a, m) l -> wsum G l = G (a, m) + wsum G (remove_aio a l).
Proof.
  unfold remove_aio. induction l as [|[b m'] l IH]; intros Hn Hi; [destruct Hi|]. inversion Hn; subst.
  cbn [filter fst]. destruct Hi as [E|Hi].
  - inversion E; subst. rewrite N.eqb_refl. cbn [negb]. rewrite wsum_cons.
    rewrite (filter_keep_notin' a l H1). reflexivity.
  - destruct (N.eqb_spec b a).
    + subst. exfalso. apply H1. apply in_map_iff. exists (a, m). auto.
    + cbn [negb]. rewrite !wsum_cons, (IH H2 Hi). lia.
Qed.
Lemma has_aio_in {A} a (l : list (aioid * A)) : has_aio a l = true -> exists m, In (a, m) l.
Proof.
  unfold has_aio. rewrite existsb_exists. intros [[b m] [Hi He]]. cbn in He. apply N.eqb_eq in He. subst. eauto.
Qed.
Lemma send_key_self {St} (V : view St) s c a nb m : send_key V s (PSend c a nb m) a = Some (body m).
Proof. unfold send_key. now rewrite N.eqb_refl. Qed.
Lemma send_key_other {St} (V : view St) s o a :
  (forall c a' nb m, o <> PSend c a' nb m) -> send_key V s o a = att_key a (v_att V s).
Proof. intros H. unfold send_key. destruct o; auto. exfalso. eapply H. reflexivity. Qed.
Lemma s_att_ext {St} (V : view St) F s s2 o outs : v_att V s = v_att V s2 ->
  s_take F V s o outs = s_take F V s2 o outs /\ s_del F V s o outs = s_del F V s2 o outs.
Proof.
  intros E. assert (K : forall a, send_key V s o a = send_key V s2 o a) by (intros a; unfold send_key; now rewrite E).
  induction outs as [|y r [I1 I2]]; [split; reflexivity|]. cbn [s_take s_del].
  destruct y; auto. destruct m; auto. rewrite K, I1, I2. auto.
Qed.
