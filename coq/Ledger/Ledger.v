(* Ledger: the ownership ledger of messages (DESIGN 4.2, property C03).  Definitions only.

   A message object is identified by a ledger id; for every live id the ledger
   records its reference count (the C's m_refcnt) and the multiset of owners of
   those references.  The ledger is defined ONCE, here; [replay_step] replays one
   step of ANY protocol model (its operation and its outputs, as named by
   Proto/Common.v: Complete / TranSend / Free) into the ledger.

   What a value-based model can and cannot say.  The protocol models carry
   messages as values (header bytes, body bytes), not as objects.  Where a
   reference sits in an addressed slot -- attached to user aio a, handed to the
   transport of pipe p -- the ledger knows which object it is.  Inside the
   protocol (queues, stashes, per-pipe slots) a reference is recognised by its
   KEY, the body bytes (no protocol changes the body of a message it owns after
   it has taken it; headers are rewritten freely): an output "Free m" releases
   the oldest protocol-held reference whose key is the body of m.  With pairwise
   distinct bodies (what the correspondence check generates) this is the
   object's identity; with equal bodies the references are interchangeable in
   the model and the attribution is first-fit.

   Per-protocol glue (a [view], Ledger/Views.v): which messages of the model's
   state are references held by the protocol, which are in flight on a pipe,
   which are still attached to a queued user send; the body a received message
   has once the receive callback has parsed it; the clones / duplicates a step
   makes (the models have no Clone output); frees the C performs that a model
   does not output.  The glue is checked, not trusted: after every step the
   ledger's library-side holdings must equal the view of the new state
   ([replay_step] returns None otherwise), and that it never fails is the
   theorem (Ledger/LedgerProofs.v + one law per protocol). *)
From Coq Require Import List Arith NArith Bool.
From NngV Require Import Proto.Common.
Import ListNotations.

Definition key := list N.
Definition mid := nat.

Inductive owner :=
| OApp                 (* the application holds the pointer (not attached to any aio) *)
| OAio (a : aioid)     (* attached to user aio a while its send is pending: the library may take it *)
| OBack (a : aioid)    (* attached to user aio a after the operation completed: the caller's
                          (a failed send: nng_aio_get_msg returns it; a successful receive: the message received) *)
| OProto               (* a protocol slot: queue, stash, per-pipe queue or slot *)
| OPipe (p : pid)      (* handed to the transport of pipe p (attached to the pipe's aio_send) *)
| OLost.               (* nobody: the pointer was dropped without being freed -- a leak *)

Definition owner_eqb (x y : owner) : bool :=
  match x, y with
  | OApp, OApp | OProto, OProto | OLost, OLost => true
  | OAio a, OAio b | OBack a, OBack b | OPipe a, OPipe b => N.eqb a b
  | _, _ => false
  end.
Fixpoint key_eqb (a b : key) : bool :=
  match a, b with
  | [], [] => true
  | x :: a', y :: b' => N.eqb x y && key_eqb a' b'
  | _, _ => false
  end.
(* the owners that are the library's side of the fence (plus a pending user send,
   which the library may still take) *)
Definition lib_owner (o : owner) : bool :=
  match o with OAio _ | OProto | OPipe _ => true | _ => false end.

Record entry := mkEntry { e_id : mid; e_key : key; e_rc : nat; e_own : list owner }.
Definition ledger := list entry.

(* ---- the four events of DESIGN 4.2 ---- *)
Inductive lev :=
| LAlloc (i : mid) (k : key) (o : owner)        (* a new object with one reference, held by o *)
| LClone (i : mid) (by_ to : owner)             (* nni_msg_clone by a holder: one more reference, held by to *)
| LGive (i : mid) (from to : owner)             (* one reference changes hands *)
| LFree (i : mid) (o : owner).                  (* o drops its reference; the object dies with the last one *)

Fixpoint rem1 (o : owner) (l : list owner) : option (list owner) :=
  match l with
  | [] => None
  | x :: r => if owner_eqb x o then Some r
              else match rem1 o r with Some r' => Some (x :: r') | None => None end
  end.
Definition has_owner (o : owner) (l : list owner) : bool := existsb (owner_eqb o) l.

(* apply f to the entry of id i: None = no such entry or f refuses; f returns None to delete *)
Fixpoint upd (i : mid) (f : entry -> option (option entry)) (l : ledger) : option ledger :=
  match l with
  | [] => None
  | e :: r =>
      if Nat.eqb (e_id e) i
      then match f e with
           | Some (Some e') => Some (e' :: r)
           | Some None => Some r
           | None => None
           end
      else match upd i f r with Some r' => Some (e :: r') | None => None end
  end.

Definition apply_ev (l : ledger) (ev : lev) : option ledger :=
  match ev with
  | LAlloc i k o =>
      if existsb (fun e => Nat.eqb (e_id e) i) l then None else Some (l ++ [mkEntry i k 1 [o]])
  | LClone i by_ to =>
      upd i (fun e => if has_owner by_ (e_own e)
                      then Some (Some (mkEntry (e_id e) (e_key e) (S (e_rc e)) (e_own e ++ [to])))
                      else None) l
  | LGive i from to =>
      upd i (fun e => match rem1 from (e_own e) with
                      | Some r => Some (Some (mkEntry (e_id e) (e_key e) (e_rc e) (r ++ [to])))
                      | None => None
                      end) l
  | LFree i o =>
      upd i (fun e => match rem1 o (e_own e) with
                      | Some r => if Nat.eqb (e_rc e) 1 then Some None
                                  else Some (Some (mkEntry (e_id e) (e_key e) (e_rc e - 1) r))
                      | None => None              (* a free by a non-owner: double free / wild free *)
                      end) l
  end.

(* the ledger's invariant: ids are unique; every live object has a positive reference
   count, equal to the number of its owners *)
Definition entry_ok (e : entry) : Prop := e_rc e = length (e_own e) /\ 0 < e_rc e.
Definition balanced (l : ledger) : Prop := NoDup (map e_id l) /\ Forall entry_ok l.
Definition entry_okb (e : entry) : bool := Nat.eqb (e_rc e) (length (e_own e)) && (0 <? e_rc e).

(* the references as (owner, key) pairs; the library's side of them *)
Definition refs (l : ledger) : list (owner * key) :=
  flat_map (fun e => map (fun o => (o, e_key e)) (e_own e)) l.
Definition lib_refs (l : ledger) : list (owner * key) := filter (fun x => lib_owner (fst x)) (refs l).
Definition total_refs (l : ledger) : nat := list_sum (map e_rc l).
Definition holds (l : ledger) (i : mid) (o : owner) : Prop :=
  exists e, In e l /\ e_id e = i /\ In o (e_own e).

(* first fit: the oldest object with a reference held by o under key k *)
Definition find_ref (o : owner) (k : key) (l : ledger) : option mid :=
  match find (fun e => key_eqb (e_key e) k && has_owner o (e_own e)) l with
  | Some e => Some (e_id e)
  | None => None
  end.

(* ---- ledger + id supply ---- *)
Record lstate := mkLs { ls_led : ledger; ls_next : mid }.
Definition ls_init : lstate := mkLs [] 0.

(* ---- abstract events: what one step does to the references, by (owner, key) ---- *)
Inductive aev :=
| AAlloc (o : owner) (k : key)                         (* a new object appears, held by o *)
| AClone (o : owner) (k : key)                         (* a holder (o, k) clones: one more (o, k) *)
| AMove (from : owner) (k : key) (to : owner)          (* the reference (from, k) becomes (to, k) *)
| ADel (o : owner) (k : key).                          (* the reference (o, k) is dropped *)

Definition do_aev (s : lstate) (e : aev) : option lstate :=
  match e with
  | AAlloc o k =>
      match apply_ev (ls_led s) (LAlloc (ls_next s) k o) with
      | Some l => Some (mkLs l (S (ls_next s)))
      | None => None
      end
  | AClone o k =>
      match find_ref o k (ls_led s) with
      | Some i => match apply_ev (ls_led s) (LClone i o o) with
                  | Some l => Some (mkLs l (ls_next s)) | None => None end
      | None => None                                   (* a clone of something o does not hold *)
      end
  | AMove from k to =>
      match find_ref from k (ls_led s) with
      | Some i => match apply_ev (ls_led s) (LGive i from to) with
                  | Some l => Some (mkLs l (ls_next s)) | None => None end
      | None => None                                   (* handing on what one does not hold *)
      end
  | ADel o k =>
      match find_ref o k (ls_led s) with
      | Some i => match apply_ev (ls_led s) (LFree i o) with
                  | Some l => Some (mkLs l (ls_next s)) | None => None end
      | None => None                                   (* a free of what one does not hold: double free *)
      end
  end.

Fixpoint do_aevs (s : lstate) (l : list aev) : option lstate :=
  match l with
  | [] => Some s
  | e :: r => match do_aev s e with Some s' => do_aevs s' r | None => None end
  end.

(* what an event list adds to / removes from the library's side, as (owner, key) pairs *)
Definition aev_adds (e : aev) : list (owner * key) :=
  match e with
  | AAlloc o k | AClone o k => if lib_owner o then [(o, k)] else []
  | AMove _ k to => if lib_owner to then [(to, k)] else []
  | ADel _ _ => []
  end.
Definition aev_dels (e : aev) : list (owner * key) :=
  match e with
  | AMove from k _ => if lib_owner from then [(from, k)] else []
  | ADel o k => if lib_owner o then [(o, k)] else []
  | _ => []
  end.

(* ---- per-protocol glue ---- *)
Record view (St : Type) := mkView {
  v_held : St -> list pmsg;               (* references in protocol slots (queues, stash, per-pipe queue / slot) *)
  v_tx : St -> list (pid * pmsg);         (* the message attached to each pipe's aio_send (transport send in flight) *)
  v_att : St -> list (aioid * pmsg);      (* queued user sends: the message is still on the user's aio *)
  v_rx : St -> pid -> pmsg -> key;        (* the body of a received message once the receive callback has parsed it *)
  v_clones : St -> pop -> list key;       (* nni_msg_clone calls of this step, by body (no model outputs them) *)
  v_dups : St -> pop -> list key;         (* nni_msg_dup calls of this step (new objects), by body *)
  v_extra : St -> pop -> list pout -> list pmsg;   (* nni_msg_free calls of the C that the model does not output *)
  v_detach : St -> pop -> list aioid;     (* user aios whose message slot the C empties although the send is refused *)
  v_fini : St -> list pmsg                (* what the protocol's sock_fini / pipe_fini / ctx_fini free (lmq / msgq contents) *)
}.
Arguments v_held {St}. Arguments v_tx {St}. Arguments v_att {St}. Arguments v_rx {St}.
Arguments v_clones {St}. Arguments v_dups {St}. Arguments v_extra {St}. Arguments v_detach {St}.
Arguments v_fini {St}. Arguments mkView {St}.

Definition body (m : pmsg) : key := pm_body m.

(* the library-side holdings a state stands for *)
Definition omega {St} (V : view St) (s : St) : list (owner * key) :=
  map (fun m => (OProto, body m)) (v_held V s)
  ++ map (fun x => (OPipe (fst x), body (snd x))) (v_tx V s)
  ++ map (fun x => (OAio (fst x), body (snd x))) (v_att V s).

Definition tx_of (p : pid) (l : list (pid * pmsg)) : list pmsg :=
  map snd (filter (fun x => N.eqb (fst x) p) l).
Fixpoint att_key (a : aioid) (l : list (aioid * pmsg)) : option key :=
  match l with
  | [] => None
  | (b, m) :: r => if N.eqb b a then Some (body m) else att_key a r
  end.
(* the key of the message on a pending send aio: the op's own, or a queued one *)
Definition send_key {St} (V : view St) (s : St) (o : pop) (a : aioid) : option key :=
  match o with
  | PSend _ a' _ m => if N.eqb a' a then Some (body m) else att_key a (v_att V s)
  | _ => att_key a (v_att V s)
  end.

(* phase 0: what the environment does with the operation itself *)
Definition evs_op {St} (V : view St) (s : St) (o : pop) : list aev :=
  match o with
  | PSend _ a _ m => [AAlloc (OAio a) (body m)]                       (* the caller's message, attached to its aio *)
  | PRecvDone p rv m => if N.eqb rv 0 then [AAlloc OProto (v_rx V s p m)] else []   (* allocated by the transport, handed up *)
  | PSendDone p rv =>
      if N.eqb rv 0
      then map (fun m => ADel (OPipe p) (body m)) (tx_of p (v_tx V s))               (* consumed (freed) by the transport *)
      else map (fun m => AMove (OPipe p) (body m) OProto) (tx_of p (v_tx V s))   (* still on aio_send: the protocol's again *)
  | _ => []
  end.

(* phase 1: completions of pending sends -- taken by the library (rv = 0), or left with the caller *)
Fixpoint evs_sends {St} (V : view St) (s : St) (o : pop) (outs : list pout) : list aev :=
  match outs with
  | [] => []
  | Complete a rv None :: r =>
      match send_key V s o a with
      | Some k =>
          (if N.eqb rv 0 then AMove (OAio a) k OProto
           else if has_id a (v_detach V s o) then AMove (OAio a) k OLost
           else AMove (OAio a) k (OBack a)) :: evs_sends V s o r
      | None => evs_sends V s o r
      end
  | _ :: r => evs_sends V s o r
  end.

(* phase 3: what leaves the protocol, in output order *)
Fixpoint evs_outs (outs : list pout) : list aev :=
  match outs with
  | [] => []
  | Free m :: r => ADel OProto (body m) :: evs_outs r
  | TranSend p m :: r => AMove OProto (body m) (OPipe p) :: evs_outs r
  | Complete a rv (Some m) :: r =>
      if N.eqb rv 0 then AMove OProto (body m) (OBack a) :: evs_outs r else evs_outs r
  | _ :: r => evs_outs r
  end.

Definition step_evs {St} (V : view St) (s : St) (o : pop) (outs : list pout) : list aev :=
  evs_op V s o
  ++ evs_sends V s o outs
  ++ map (AClone OProto) (v_clones V s o) ++ map (AAlloc OProto) (v_dups V s o)
  ++ evs_outs (outs ++ map Free (v_extra V s o outs)).

(* multiset equality of (owner, key) lists, decided by counting *)
Definition ok_eqb (x y : owner * key) : bool := owner_eqb (fst x) (fst y) && key_eqb (snd x) (snd y).
Definition count_ok (x : owner * key) (l : list (owner * key)) : nat := length (filter (ok_eqb x) l).
Definition mset_eqb (a b : list (owner * key)) : bool :=
  Nat.eqb (length a) (length b) && forallb (fun x => Nat.eqb (count_ok x a) (count_ok x b)) a.

(* a user aio that is submitted again no longer carries the message of its previous operation:
   the application took it (nng_aio_get_msg / nng_aio_set_msg) *)
Definition app_takes (l : ledger) (a : aioid) : ledger :=
  map (fun e => mkEntry (e_id e) (e_key e) (e_rc e)
                        (map (fun o => if owner_eqb o (OBack a) then OApp else o) (e_own e))) l.
Definition app_reuse (s : lstate) (o : pop) : lstate :=
  match o with
  | PSend _ a _ _ | PRecv _ a _ => mkLs (app_takes (ls_led s) a) (ls_next s)
  | _ => s
  end.

(* replay one step of a protocol model: None = the ledger is violated (a reference handed on
   or freed that is not held, a clone of something not held) or, at the end of the step, the
   library-side holdings differ from what the new state stands for (a reference vanished
   or appeared unaccounted) *)
Definition replay_step {St} (V : view St) (L : lstate) (s : St) (o : pop) (s' : St) (outs : list pout) : option lstate :=
  match do_aevs (app_reuse L o) (step_evs V s o outs) with
  | Some L' => if mset_eqb (lib_refs (ls_led L')) (omega V s') then Some L' else None
  | None => None
  end.

(* a run of a model with the ledger alongside *)
Fixpoint replay_run {St} (V : view St) (step : St -> pop -> St * list pout)
         (L : lstate) (s : St) (ops : list pop) : option (lstate * St) :=
  match ops with
  | [] => Some (L, s)
  | o :: r =>
      let (s', outs) := step s o in
      match replay_step V L s o s' outs with
      | Some L' => replay_run V step L' s' r
      | None => None
      end
  end.

(* sock_fini / pipe_fini / ctx_fini: the remaining queue contents are freed *)
Definition fini_evs {St} (V : view St) (s : St) : list aev := map (fun m => ADel OProto (body m)) (v_fini V s).

(* numbers the correspondence check compares with hook H3 at every quiescent point *)
Definition lib_ref_count (l : ledger) : nat := length (lib_refs l).
Definition lib_obj_count (l : ledger) : nat :=
  length (filter (fun e => existsb lib_owner (e_own e)) l).
Definition lost_count (l : ledger) : nat := length (filter (fun x => owner_eqb (fst x) OLost) (refs l)).
Definition back_of (l : ledger) (a : aioid) : list key :=
  map snd (filter (fun x => owner_eqb (fst x) (OBack a)) (refs l)).
