(* LedgerProofs: the generic theory of the ownership ledger (Ledger/Ledger.v).
   1. every ledger event keeps the ledger balanced (reference count = number of owners > 0,
      ids unique); a free / hand-over / clone by a non-holder is rejected;
   2. the id-level replay (do_aevs) refines a run on the multiset of (owner, key) references;
   3. the conservation law of a protocol (one weighted equation per step, Ledger "law")
      implies that replay_step never fails and re-establishes the link invariant;
   4. lifting to every history (replay_run). *)
From Coq Require Import List Arith NArith Bool Lia Permutation.
From NngV Require Import Proto.Common Ledger.Ledger.
Import ListNotations.

(* ------------------------------------------------------------------ *)
(* decidable equalities *)
Lemma owner_eqb_spec x y : reflect (x = y) (owner_eqb x y).
Proof.
  destruct x, y; cbn; try (constructor; congruence);
    destruct (N.eqb_spec a a0) || destruct (N.eqb_spec p p0); constructor; congruence.
Qed.
Lemma key_eqb_spec a b : reflect (a = b) (key_eqb a b).
Proof.
  revert b; induction a as [|x a IH]; intros [|y b]; cbn; try (constructor; congruence).
  destruct (N.eqb_spec x y); cbn; [|constructor; congruence].
  destruct (IH b); constructor; congruence.
Qed.
Lemma owner_eqb_refl o : owner_eqb o o = true.
Proof. destruct (owner_eqb_spec o o); congruence. Qed.
Lemma key_eqb_refl k : key_eqb k k = true.
Proof. destruct (key_eqb_spec k k); congruence. Qed.
Definition ok_dec (x y : owner * key) : {x = y} + {x <> y}.
Proof.
  destruct x as [o k], y as [o' k'].
  destruct (owner_eqb_spec o o'); [|right; congruence].
  destruct (key_eqb_spec k k'); [left|right]; congruence.
Defined.
Lemma ok_eqb_spec x y : reflect (x = y) (ok_eqb x y).
Proof.
  destruct x as [o k], y as [o' k']. unfold ok_eqb; cbn.
  destruct (owner_eqb_spec o o'); cbn; [|constructor; congruence].
  destruct (key_eqb_spec k k'); constructor; congruence.
Qed.

(* ------------------------------------------------------------------ *)
(* weighted sums and counts over (owner, key) lists *)
Definition wsum {A} (F : A -> nat) (l : list A) : nat := list_sum (map F l).
Lemma wsum_nil {A} (F : A -> nat) : wsum F [] = 0. Proof. reflexivity. Qed.
Lemma wsum_cons {A} (F : A -> nat) x l : wsum F (x :: l) = F x + wsum F l. Proof. reflexivity. Qed.
Lemma wsum_app {A} (F : A -> nat) a b : wsum F (a ++ b) = wsum F a + wsum F b.
Proof. unfold wsum. now rewrite map_app, list_sum_app. Qed.
Lemma wsum_map {A B} (F : B -> nat) (g : A -> B) l : wsum F (map g l) = wsum (fun x => F (g x)) l.
Proof. unfold wsum. now rewrite map_map. Qed.
Lemma wsum_flat_map {A B} (F : B -> nat) (g : A -> list B) l :
  wsum F (flat_map g l) = wsum (fun x => wsum F (g x)) l.
Proof. induction l; [reflexivity|]. cbn [flat_map]. rewrite wsum_app, wsum_cons. now rewrite IHl. Qed.
Lemma wsum_filter_split {A} (F : A -> nat) (g : A -> bool) l :
  wsum F l = wsum F (filter g l) + wsum F (filter (fun x => negb (g x)) l).
Proof. induction l as [|x l IH]; [reflexivity|]. cbn [filter]. rewrite wsum_cons, IH. destruct (g x); cbn [negb]; rewrite ?wsum_cons; lia. Qed.
Lemma wsum_ext {A} (F G : A -> nat) l : (forall x, In x l -> F x = G x) -> wsum F l = wsum G l.
Proof. induction l; intros H; [reflexivity|]. rewrite !wsum_cons, H, IHl; cbn; auto. intros; apply H; cbn; auto. Qed.
Lemma wsum_const1 {A} (l : list A) : wsum (fun _ => 1) l = length l.
Proof. induction l; [reflexivity|]. rewrite wsum_cons, IHl. reflexivity. Qed.

Definition cnt (x : owner * key) (l : list (owner * key)) : nat := count_occ ok_dec l x.
Definition ind (x : owner * key) : owner * key -> nat := fun y => if ok_dec y x then 1 else 0.
Lemma cnt_wsum x l : cnt x l = wsum (ind x) l.
Proof.
  unfold cnt, ind. induction l as [|y l IH]; [reflexivity|].
  rewrite wsum_cons, <- IH. cbn [count_occ]. destruct (ok_dec y x); lia.
Qed.
Lemma cnt_app x a b : cnt x (a ++ b) = cnt x a + cnt x b.
Proof. apply count_occ_app. Qed.
Lemma cnt_cons x y l : cnt x (y :: l) = (if ok_dec y x then 1 else 0) + cnt x l.
Proof. unfold cnt; cbn. destruct (ok_dec y x); lia. Qed.
Lemma cnt_nil x : cnt x [] = 0. Proof. reflexivity. Qed.
Lemma count_ok_cnt x l : count_ok x l = cnt x l.
Proof.
  unfold count_ok, cnt. induction l as [|y l IH]; cbn; [reflexivity|].
  destruct (ok_eqb_spec x y), (ok_dec y x); cbn; try congruence; now rewrite IH.
Qed.
Lemma cnt_pos_in x l : 0 < cnt x l <-> In x l.
Proof. unfold cnt. split; intros H; [apply (count_occ_In ok_dec) in H|apply (count_occ_In ok_dec)]; auto. Qed.

(* multiset equality as a proposition *)
Definition mseq (a b : list (owner * key)) : Prop := forall x, cnt x a = cnt x b.
Lemma mseq_refl a : mseq a a. Proof. intros x; reflexivity. Qed.
Lemma mseq_sym a b : mseq a b -> mseq b a. Proof. intros H x; now rewrite H. Qed.
Lemma mseq_trans a b c : mseq a b -> mseq b c -> mseq a c. Proof. intros H1 H2 x; now rewrite H1. Qed.
Lemma mseq_perm a b : mseq a b -> Permutation a b.
Proof. intros H. apply (Permutation_count_occ ok_dec). exact H. Qed.
Lemma mseq_length a b : mseq a b -> length a = length b.
Proof. intros H. apply Permutation_length, mseq_perm, H. Qed.
Lemma mseq_wsum F a b : mseq a b -> wsum F a = wsum F b.
Proof.
  intros H. apply mseq_perm in H.
  induction H; rewrite ?wsum_cons in *; try lia.
Qed.
Lemma wsum_mseq a b : (forall F, wsum F a = wsum F b) -> mseq a b.
Proof. intros H x. rewrite !cnt_wsum. apply H. Qed.

Lemma mset_eqb_spec a b : mset_eqb a b = true <-> mseq a b.
Proof.
  unfold mset_eqb. rewrite andb_true_iff, Nat.eqb_eq, forallb_forall. split.
  - intros [HL HA].
    (* every element of a occurs equally often in b, and the lengths agree: so do all others *)
    assert (Hle : forall x, cnt x a <= cnt x b).
    { intros x. destruct (in_dec ok_dec x a) as [Hi|Hn].
      - specialize (HA x Hi). apply Nat.eqb_eq in HA. rewrite !count_ok_cnt in HA. lia.
      - apply (count_occ_not_In ok_dec) in Hn. unfold cnt. lia. }
    (* sum over the distinct elements: a sub-multiset of equal size is the whole *)
    assert (Hinc : forall (a b : list (owner * key)), (forall x, cnt x a <= cnt x b) -> length a = length b -> mseq a b).
    { clear. induction a as [|y a IH]; intros b Hle HL.
      - destruct b; [apply mseq_refl|discriminate].
      - assert (Hy : In y b). { apply cnt_pos_in. specialize (Hle y). rewrite cnt_cons in Hle. destruct (ok_dec y y); [lia|congruence]. }
        apply in_split in Hy. destruct Hy as [b1 [b2 ->]].
        assert (mseq a (b1 ++ b2)).
        { apply IH.
          - intros x. specialize (Hle x). rewrite cnt_cons, !cnt_app, cnt_cons in Hle. rewrite cnt_app. destruct (ok_dec y x); lia.
          - rewrite app_length in *. cbn in HL. lia. }
        intros x. rewrite cnt_cons, cnt_app, cnt_cons. specialize (H x). rewrite cnt_app in H. destruct (ok_dec y x); lia. }
    apply Hinc; auto.
  - intros H. split; [apply mseq_length, H|].
    intros x _. apply Nat.eqb_eq. rewrite !count_ok_cnt. apply H.
Qed.

(* ------------------------------------------------------------------ *)
(* 1. ledger events keep the ledger balanced *)
Lemma rem1_length o l r : rem1 o l = Some r -> length l = S (length r).
Proof.
  revert r; induction l as [|x l IH]; cbn; intros r H; [discriminate|].
  destruct (owner_eqb x o); [inversion H; subst; reflexivity|].
  destruct (rem1 o l) eqn:E; [|discriminate]. inversion H; subst. cbn. now rewrite (IH l0).
Qed.
Lemma rem1_in o l r : rem1 o l = Some r -> In o l.
Proof.
  revert r; induction l as [|x l IH]; cbn; intros r H; [discriminate|].
  destruct (owner_eqb_spec x o); [left; auto|].
  destruct (rem1 o l) eqn:E; [|discriminate]. right. eapply IH; eauto.
Qed.
Lemma rem1_some o l : In o l -> exists r, rem1 o l = Some r.
Proof.
  induction l as [|x l IH]; cbn; intros H; [tauto|].
  destruct (owner_eqb_spec x o); [eexists; reflexivity|].
  destruct H as [H|H]; [congruence|]. destruct (IH H) as [r ->]. eexists; reflexivity.
Qed.
Lemma has_owner_in o l : has_owner o l = true <-> In o l.
Proof.
  unfold has_owner. rewrite existsb_exists. split.
  - intros [x [Hi He]]. destruct (owner_eqb_spec o x); [subst; auto|discriminate].
  - intros H. exists o. split; auto. apply owner_eqb_refl.
Qed.

(* the references of an owner list under a key, and removal of one *)
Definition orefs (k : key) (l : list owner) : list (owner * key) := map (fun o => (o, k)) l.
Lemma rem1_cnt o l r k x : rem1 o l = Some r ->
  cnt x (orefs k l) = cnt x (orefs k r) + (if ok_dec (o, k) x then 1 else 0).
Proof.
  revert r; induction l as [|y l IH]; intros r H; [discriminate|]. cbn [rem1] in H.
  change (orefs k (y :: l)) with ((y, k) :: orefs k l).
  destruct (owner_eqb_spec y o).
  - inversion H; subst. rewrite cnt_cons. lia.
  - destruct (rem1 o l) eqn:E; [|discriminate]. inversion H; subst.
    change (orefs k (y :: l0)) with ((y, k) :: orefs k l0).
    rewrite !cnt_cons, (IH l0 eq_refl). lia.
Qed.

Lemma upd_spec i f l l' :
  upd i f l = Some l' ->
  exists l1 e l2, l = l1 ++ e :: l2 /\ e_id e = i /\ (forall e', In e' l1 -> e_id e' <> i) /\
    ((exists e'', f e = Some (Some e'') /\ l' = l1 ++ e'' :: l2) \/ (f e = Some None /\ l' = l1 ++ l2)).
Proof.
  revert l'; induction l as [|e l IH]; cbn; intros l' H; [discriminate|].
  destruct (Nat.eqb_spec (e_id e) i).
  - exists [], e, l. split; [reflexivity|]. split; [auto|]. split; [cbn; tauto|].
    destruct (f e) as [[e''|]|]; inversion H; subst; [left; eauto|right; auto].
  - destruct (upd i f l) as [r|] eqn:E; [|discriminate]. inversion H; subst.
    destruct (IH r eq_refl) as [l1 [e0 [l2 [-> [Hid [Hn Hc]]]]]].
    exists (e :: l1), e0, l2. split; [reflexivity|]. split; [auto|]. split.
    + intros e' [<-|Hi]; auto.
    + destruct Hc as [[e'' [Hf ->]]|[Hf ->]]; [left; eauto|right; auto].
Qed.
Lemma upd_some i f l l1 e l2 r :
  l = l1 ++ e :: l2 -> e_id e = i -> (forall e', In e' l1 -> e_id e' <> i) -> f e = Some r ->
  upd i f l = Some (match r with Some e'' => l1 ++ e'' :: l2 | None => l1 ++ l2 end).
Proof.
  intros -> Hid Hn Hf. induction l1 as [|x l1 IH]; cbn.
  - rewrite <- Hid, Nat.eqb_refl, Hf. destruct r; reflexivity.
  - destruct (Nat.eqb_spec (e_id x) i) as [E|E]; [exfalso; eapply Hn; [left; reflexivity|exact E]|].
    rewrite IH; [destruct r; reflexivity|]. intros e' Hi. apply Hn. right; auto.
Qed.

Lemma refs_app a b : refs (a ++ b) = refs a ++ refs b.
Proof. unfold refs. apply flat_map_app. Qed.
Lemma refs_cons e l : refs (e :: l) = orefs (e_key e) (e_own e) ++ refs l.
Proof. reflexivity. Qed.

Lemma balanced_app_inv l1 e l2 : balanced (l1 ++ e :: l2) ->
  entry_ok e /\ balanced (l1 ++ l2) /\ ~ In (e_id e) (map e_id (l1 ++ l2)).
Proof.
  intros [Hnd Hf]. rewrite map_app in Hnd. cbn in Hnd.
  apply Forall_app in Hf. destruct Hf as [H1 H2]. inversion H2; subst.
  split; [auto|]. split.
  - split; [rewrite map_app; eapply NoDup_remove_1; eauto|apply Forall_app; auto].
  - rewrite map_app. eapply NoDup_remove_2; eauto.
Qed.
Lemma balanced_replace l1 e e' l2 : balanced (l1 ++ e :: l2) -> e_id e' = e_id e -> entry_ok e' ->
  balanced (l1 ++ e' :: l2).
Proof.
  intros [Hnd Hf] Hid Hok. split.
  - rewrite map_app in *. cbn in *. now rewrite Hid.
  - apply Forall_app in Hf. destruct Hf as [H1 H2]. inversion H2; subst. apply Forall_app. split; auto.
Qed.

Lemma nodup_snoc {A} (l : list A) x : NoDup l -> ~ In x l -> NoDup (l ++ [x]).
Proof.
  induction l as [|y l IH]; cbn; intros Hn Hi.
  - constructor; [tauto|constructor].
  - inversion Hn; subst. constructor.
    + rewrite in_app_iff. cbn. intros [H|[H|[]]]; [auto|subst; tauto].
    + apply IH; tauto.
Qed.

Theorem apply_ev_balanced l ev l' : balanced l -> apply_ev l ev = Some l' -> balanced l'.
Proof.
  intros Hb H. destruct ev as [i k o|i by_ to|i from to|i o]; cbn in H.
  - destruct (existsb (fun e => e_id e =? i) l) eqn:E; [discriminate|]. inversion H; subst.
    destruct Hb as [Hnd Hf]. split.
    + rewrite map_app. cbn. apply nodup_snoc.
      * exact Hnd.
      * intros Hin. apply in_map_iff in Hin. destruct Hin as [e [He Hi]].
        assert (existsb (fun e => e_id e =? i) l = true) by (apply existsb_exists; exists e; split; auto; now apply Nat.eqb_eq).
        congruence.
    + apply Forall_app. split; auto. constructor; [|constructor]. split; cbn; lia.
  - apply upd_spec in H. destruct H as [l1 [e [l2 [-> [Hid [Hn [[e'' [Hf ->]]|[Hf ->]]]]]]]].
    + destruct (has_owner by_ (e_own e)); [|discriminate]. inversion Hf; subst.
      eapply balanced_replace; eauto. destruct (balanced_app_inv _ _ _ Hb) as [[H1 H2] _].
      split; cbn; [rewrite app_length; cbn; lia|lia].
    + destruct (has_owner by_ (e_own e)); discriminate.
  - apply upd_spec in H. destruct H as [l1 [e [l2 [-> [Hid [Hn [[e'' [Hf ->]]|[Hf ->]]]]]]]].
    + destruct (rem1 from (e_own e)) eqn:E; [|discriminate]. inversion Hf; subst.
      eapply balanced_replace; eauto. destruct (balanced_app_inv _ _ _ Hb) as [[H1 H2] _].
      apply rem1_length in E. split; cbn; [rewrite app_length; cbn; lia|lia].
    + destruct (rem1 from (e_own e)); discriminate.
  - apply upd_spec in H. destruct H as [l1 [e [l2 [-> [Hid [Hn [[e'' [Hf ->]]|[Hf ->]]]]]]]].
    + destruct (rem1 o (e_own e)) eqn:E; [|discriminate].
      destruct (Nat.eqb_spec (e_rc e) 1); [discriminate|]. inversion Hf; subst.
      eapply balanced_replace; eauto. destruct (balanced_app_inv _ _ _ Hb) as [[H1 H2] _].
      apply rem1_length in E. split; cbn; lia.
    + destruct (balanced_app_inv _ _ _ Hb) as [_ [H _]]. exact H.
Qed.

(* a free / hand-over / clone needs a holder: the ledger rejects everything else *)
Theorem free_needs_owner l i o l' : apply_ev l (LFree i o) = Some l' -> holds l i o.
Proof.
  cbn. intros H. apply upd_spec in H. destruct H as [l1 [e [l2 [-> [Hid [_ Hc]]]]]].
  exists e. split; [apply in_or_app; right; left; reflexivity|]. split; auto.
  destruct (rem1 o (e_own e)) eqn:E; [eapply rem1_in; eauto|].
  destruct Hc as [[? [? _]]|[? _]]; discriminate.
Qed.
Theorem give_needs_owner l i from to l' : apply_ev l (LGive i from to) = Some l' -> holds l i from.
Proof.
  cbn. intros H. apply upd_spec in H. destruct H as [l1 [e [l2 [-> [Hid [_ Hc]]]]]].
  exists e. split; [apply in_or_app; right; left; reflexivity|]. split; auto.
  destruct (rem1 from (e_own e)) eqn:E; [eapply rem1_in; eauto|].
  destruct Hc as [[? [? _]]|[? _]]; discriminate.
Qed.
Theorem clone_needs_owner l i by_ to l' : apply_ev l (LClone i by_ to) = Some l' -> holds l i by_.
Proof.
  cbn. intros H. apply upd_spec in H. destruct H as [l1 [e [l2 [-> [Hid [_ Hc]]]]]].
  exists e. split; [apply in_or_app; right; left; reflexivity|]. split; auto.
  destruct (has_owner by_ (e_own e)) eqn:E; [now apply has_owner_in|].
  destruct Hc as [[? [? _]]|[? _]]; discriminate.
Qed.
(* the second free of a message that had one reference fails: the object is gone *)
Theorem double_free_rejected l i o l' :
  balanced l -> apply_ev l (LFree i o) = Some l' ->
  (forall e, In e l -> e_id e = i -> e_rc e = 1) -> apply_ev l' (LFree i o) = None.
Proof.
  intros Hb H H1. cbn in H. apply upd_spec in H. destruct H as [l1 [e [l2 [-> [Hid [Hn Hc]]]]]].
  assert (R1 : e_rc e = 1) by (apply H1; [apply in_or_app; right; left; reflexivity|auto]).
  destruct Hc as [[e'' [Hf ->]]|[Hf ->]].
  - destruct (rem1 o (e_own e)); [|discriminate]. rewrite R1 in Hf. discriminate.
  - destruct (balanced_app_inv _ _ _ Hb) as [_ [_ Hni]]. cbn.
    destruct (upd i _ (l1 ++ l2)) eqn:E; [|reflexivity]. exfalso.
    apply upd_spec in E. destruct E as [m1 [e0 [m2 [Hs [Hid0 _]]]]].
    apply Hni. rewrite Hs, Hid, <- Hid0, map_app. apply in_or_app. right. left. reflexivity.
Qed.

(* ------------------------------------------------------------------ *)
(* 2. the id-level replay against the multiset of references *)
Definition aev_add (e : aev) : list (owner * key) :=
  match e with AAlloc o k | AClone o k => [(o, k)] | AMove _ k to => [(to, k)] | ADel _ _ => [] end.
Definition aev_del (e : aev) : list (owner * key) :=
  match e with AMove from k _ => [(from, k)] | ADel o k => [(o, k)] | _ => [] end.
(* the reference an event needs to find *)
Definition aev_src (e : aev) : list (owner * key) :=
  match e with AAlloc _ _ => [] | AClone o k => [(o, k)] | AMove from k _ => [(from, k)] | ADel o k => [(o, k)] end.

Definition ids_below (L : lstate) : Prop := forall e, In e (ls_led L) -> e_id e < ls_next L.
Definition lgood (L : lstate) : Prop := balanced (ls_led L) /\ ids_below L.

Lemma cnt_refs_split l1 e l2 x :
  cnt x (refs (l1 ++ e :: l2)) = cnt x (refs l1) + cnt x (orefs (e_key e) (e_own e)) + cnt x (refs l2).
Proof. rewrite refs_app, refs_cons, !cnt_app. lia. Qed.
Lemma cnt_orefs_in o k l : 0 < cnt (o, k) (orefs k l) <-> In o l.
Proof.
  rewrite cnt_pos_in. unfold orefs. rewrite in_map_iff. split.
  - intros [o' [E Hi]]. inversion E; subst; auto.
  - intros H. exists o; auto.
Qed.
Lemma cnt_orefs_key o k k' l : k <> k' -> cnt (o, k) (orefs k' l) = 0.
Proof.
  intros Hk. unfold cnt. apply count_occ_not_In. unfold orefs. rewrite in_map_iff.
  intros [o' [E _]]. inversion E; congruence.
Qed.
Lemma cnt_orefs_app x k a b : cnt x (orefs k (a ++ b)) = cnt x (orefs k a) + cnt x (orefs k b).
Proof. unfold orefs. now rewrite map_app, cnt_app. Qed.

(* find_ref finds a holder exactly when the reference exists *)
Lemma find_ref_some o k l : 0 < cnt (o, k) (refs l) ->
  exists l1 e l2, l = l1 ++ e :: l2 /\ find_ref o k l = Some (e_id e) /\ e_key e = k /\ In o (e_own e).
Proof.
  unfold find_ref. induction l as [|e l IH]; intros H; [cbn in H; lia|].
  cbn [find]. destruct (key_eqb (e_key e) k && has_owner o (e_own e)) eqn:E.
  - apply andb_true_iff in E. destruct E as [E1 E2]. destruct (key_eqb_spec (e_key e) k); [|discriminate].
    exists [], e, l. repeat split; auto. now apply has_owner_in.
  - rewrite refs_cons, cnt_app in H.
    assert (Z : cnt (o, k) (orefs (e_key e) (e_own e)) = 0).
    { destruct (key_eqb_spec (e_key e) k) as [Ek|Ek].
      - cbn in E. destruct (Nat.eq_dec (cnt (o, k) (orefs (e_key e) (e_own e))) 0); auto.
        exfalso. rewrite Ek in n. assert (In o (e_own e)) by (apply (cnt_orefs_in o k); lia).
        apply has_owner_in in H0. congruence.
      - apply cnt_orefs_key. congruence. }
    destruct IH as [l1 [e0 [l2 [-> [Hf [Hk Ho]]]]]]; [lia|].
    exists (e :: l1), e0, l2. repeat split; auto.
Qed.

Lemma nodup_split_first l1 (e : entry) l2 : NoDup (map e_id (l1 ++ e :: l2)) -> forall e', In e' l1 -> e_id e' <> e_id e.
Proof.
  rewrite map_app. cbn. intros H e' Hi E. apply NoDup_remove_2 in H. apply H.
  apply in_or_app. left. rewrite <- E. now apply in_map.
Qed.

Lemma in_replace_id l1 (e e'' : entry) l2 e' : e_id e'' = e_id e -> In e' (l1 ++ e'' :: l2) ->
  exists e0, In e0 (l1 ++ e :: l2) /\ e_id e0 = e_id e'.
Proof.
  intros Hid H. apply in_app_or in H. destruct H as [H|[<-|H]].
  - exists e'. split; auto. apply in_or_app; auto.
  - exists e. split; auto. apply in_or_app; right; left; reflexivity.
  - exists e'. split; auto. apply in_or_app; right; right; auto.
Qed.
Lemma ids_below_replace L l1 e e'' l2 : ids_below L -> ls_led L = l1 ++ e :: l2 -> e_id e'' = e_id e ->
  forall e', In e' (l1 ++ e'' :: l2) -> e_id e' < ls_next L.
Proof.
  intros Hid Hs He e' Hi. destruct (in_replace_id _ _ _ _ _ He Hi) as [e0 [H0 <-]]. apply Hid. now rewrite Hs.
Qed.
Lemma ids_below_remove L l1 e l2 : ids_below L -> ls_led L = l1 ++ e :: l2 ->
  forall e', In e' (l1 ++ l2) -> e_id e' < ls_next L.
Proof.
  intros Hid Hs e' Hi. apply Hid. rewrite Hs. apply in_app_or in Hi. apply in_or_app. destruct Hi; [left|right; right]; auto.
Qed.

Lemma do_aev_ok L e :
  lgood L -> (forall x, In x (aev_src e) -> 0 < cnt x (refs (ls_led L))) ->
  exists L', do_aev L e = Some L' /\ lgood L' /\
    forall x, cnt x (refs (ls_led L')) + cnt x (aev_del e) = cnt x (refs (ls_led L)) + cnt x (aev_add e).
Proof.
  intros [Hb Hid] Hsrc. destruct e as [o k|o k|from k to|o k]; cbn [do_aev aev_add aev_del aev_src] in *.
  - (* alloc *)
    cbn [apply_ev].
    assert (E : existsb (fun e => e_id e =? ls_next L) (ls_led L) = false).
    { apply not_true_iff_false. intros H. apply existsb_exists in H. destruct H as [e [Hi He]].
      apply Nat.eqb_eq in He. specialize (Hid e Hi). lia. }
    rewrite E. eexists. split; [reflexivity|]. split.
    + split.
      * apply (apply_ev_balanced (ls_led L) (LAlloc (ls_next L) k o)); [exact Hb|]. cbn [apply_ev]. rewrite E. reflexivity.
      * intros e. cbn [ls_led ls_next]. rewrite in_app_iff. intros [H|[<-|[]]]; [specialize (Hid e H); lia|cbn; lia].
    + intros x. cbn [ls_led]. rewrite refs_app, cnt_app.
      change (refs [mkEntry (ls_next L) k 1 [o]]) with [(o, k)]. rewrite !cnt_cons, !cnt_nil. lia.
  - (* clone *)
    destruct (find_ref_some o k (ls_led L)) as [l1 [e [l2 [Hs [Hf [Hk Ho]]]]]]; [apply Hsrc; left; reflexivity|].
    rewrite Hf. cbn [apply_ev].
    assert (Hfirst : forall e', In e' l1 -> e_id e' <> e_id e).
    { rewrite Hs in Hb. destruct Hb as [Hnd _]. apply (nodup_split_first _ _ _ Hnd). }
    erewrite upd_some; [|exact Hs|reflexivity|exact Hfirst|apply has_owner_in in Ho; rewrite Ho; reflexivity].
    eexists. split; [reflexivity|]. split.
    + split; cbn [ls_led ls_next].
      * rewrite Hs in Hb. eapply balanced_replace; [exact Hb|reflexivity|].
        destruct (balanced_app_inv _ _ _ Hb) as [[H1 H2] _]. split; cbn; [rewrite app_length; cbn; lia|lia].
      * unfold ids_below; cbn [ls_led ls_next]; eapply ids_below_replace; [exact Hid|exact Hs|reflexivity].
    + intros x. cbn [ls_led]. rewrite Hs, !cnt_refs_split. cbn [e_key e_own]. rewrite cnt_orefs_app.
      change (orefs (e_key e) [o]) with [(o, e_key e)]. rewrite !cnt_cons, !cnt_nil, Hk. lia.
  - (* move *)
    destruct (find_ref_some from k (ls_led L)) as [l1 [e [l2 [Hs [Hf [Hk Ho]]]]]]; [apply Hsrc; left; reflexivity|].
    rewrite Hf. destruct (rem1_some _ _ Ho) as [r Hr].
    assert (Hfirst : forall e', In e' l1 -> e_id e' <> e_id e).
    { rewrite Hs in Hb. destruct Hb as [Hnd _]. apply (nodup_split_first _ _ _ Hnd). }
    cbn [apply_ev]. erewrite upd_some; [|exact Hs|reflexivity|exact Hfirst|rewrite Hr; reflexivity].
    eexists. split; [reflexivity|]. split.
    + split; cbn [ls_led ls_next].
      * rewrite Hs in Hb. eapply balanced_replace; [exact Hb|reflexivity|].
        destruct (balanced_app_inv _ _ _ Hb) as [[H1 H2] _]. apply rem1_length in Hr.
        split; cbn; [rewrite app_length; cbn; lia|lia].
      * unfold ids_below; cbn [ls_led ls_next]; eapply ids_below_replace; [exact Hid|exact Hs|reflexivity].
    + intros x. cbn [ls_led]. rewrite Hs, !cnt_refs_split. cbn [e_key e_own]. rewrite cnt_orefs_app.
      rewrite (rem1_cnt from (e_own e) r (e_key e) x Hr).
      change (orefs (e_key e) [to]) with [(to, e_key e)]. rewrite !cnt_cons, !cnt_nil, Hk. lia.
  - (* free *)
    destruct (find_ref_some o k (ls_led L)) as [l1 [e [l2 [Hs [Hf [Hk Ho]]]]]]; [apply Hsrc; left; reflexivity|].
    rewrite Hf. destruct (rem1_some _ _ Ho) as [r Hr].
    assert (Hfirst : forall e', In e' l1 -> e_id e' <> e_id e).
    { rewrite Hs in Hb. destruct Hb as [Hnd _]. apply (nodup_split_first _ _ _ Hnd). }
    cbn [apply_ev].
    assert (Hok : entry_ok e) by (rewrite Hs in Hb; apply (balanced_app_inv _ _ _ Hb)).
    destruct Hok as [Hrc Hpos]. pose proof (rem1_length _ _ _ Hr) as Hlen.
    destruct (Nat.eqb_spec (e_rc e) 1) as [R1|R1].
    + erewrite upd_some; [|exact Hs|reflexivity|exact Hfirst|rewrite Hr; destruct (Nat.eqb_spec (e_rc e) 1); [reflexivity|congruence]].
      eexists. split; [reflexivity|]. split.
      * split; cbn [ls_led ls_next].
        -- rewrite Hs in Hb. apply (balanced_app_inv _ _ _ Hb).
        -- unfold ids_below; cbn [ls_led ls_next]; eapply ids_below_remove; [exact Hid|exact Hs].
      * intros x. cbn [ls_led]. rewrite Hs, cnt_refs_split, refs_app, cnt_app.
        rewrite (rem1_cnt o (e_own e) r (e_key e) x Hr).
        assert (r = []) by (destruct r; [reflexivity|cbn in Hlen; lia]). subst r.
        change (orefs (e_key e) []) with (@nil (owner * key)). rewrite !cnt_cons, !cnt_nil, Hk. lia.
    + erewrite upd_some; [|exact Hs|reflexivity|exact Hfirst|rewrite Hr; destruct (Nat.eqb_spec (e_rc e) 1); [congruence|reflexivity]].
      eexists. split; [reflexivity|]. split.
      * split; cbn [ls_led ls_next].
        -- rewrite Hs in Hb. eapply balanced_replace; [exact Hb|reflexivity|]. split; cbn; lia.
        -- unfold ids_below; cbn [ls_led ls_next]; eapply ids_below_replace; [exact Hid|exact Hs|reflexivity].
      * intros x. cbn [ls_led]. rewrite Hs, !cnt_refs_split. cbn [e_key e_own].
        rewrite (rem1_cnt o (e_own e) r (e_key e) x Hr). rewrite !cnt_cons, !cnt_nil, Hk. lia.
Qed.

Definition adds (E : list aev) : list (owner * key) := flat_map aev_add E.
Definition dels (E : list aev) : list (owner * key) := flat_map aev_del E.
Definition csrc (E : list aev) : list (owner * key) :=
  flat_map (fun e => match e with AClone o k => [(o, k)] | _ => [] end) E.
Lemma adds_app a b : adds (a ++ b) = adds a ++ adds b. Proof. apply flat_map_app. Qed.
Lemma dels_app a b : dels (a ++ b) = dels a ++ dels b. Proof. apply flat_map_app. Qed.

Lemma do_aevs_app L a b : do_aevs L (a ++ b) = match do_aevs L a with Some L1 => do_aevs L1 b | None => None end.
Proof. revert L; induction a as [|e a IH]; intros L; cbn; [reflexivity|]. destruct (do_aev L e); auto. Qed.

(* a phase whose removals are all available up front (additions only help) and whose clones
   have a holder succeeds, and the references change by exactly its additions and removals *)
Lemma do_aevs_phase E : forall L,
  lgood L ->
  (forall x, cnt x (dels E) <= cnt x (refs (ls_led L))) ->
  (forall x, In x (csrc E) -> cnt x (dels E) < cnt x (refs (ls_led L))) ->
  exists L', do_aevs L E = Some L' /\ lgood L' /\
    forall x, cnt x (refs (ls_led L')) + cnt x (dels E) = cnt x (refs (ls_led L)) + cnt x (adds E).
Proof.
  induction E as [|e E IH]; intros L Hg Hd Hc.
  - exists L. split; [reflexivity|]. split; auto.
  - assert (Hsrc : forall x, In x (aev_src e) -> 0 < cnt x (refs (ls_led L))).
    { intros x Hx. destruct e as [o k|o k|from k to|o k]; cbn in Hx; try tauto; destruct Hx as [<-|[]].
      - assert (Hin : In (o, k) (csrc (AClone o k :: E))) by (left; reflexivity).
        specialize (Hc (o, k) Hin). lia.
      - specialize (Hd (from, k)). unfold dels in Hd. cbn [flat_map aev_del] in Hd. rewrite cnt_app, cnt_cons in Hd. destruct (ok_dec (from, k) (from, k)); [lia|congruence].
      - specialize (Hd (o, k)). unfold dels in Hd. cbn [flat_map aev_del] in Hd. rewrite cnt_app, cnt_cons in Hd. destruct (ok_dec (o, k) (o, k)); [lia|congruence]. }
    destruct (do_aev_ok L e Hg Hsrc) as [L1 [H1 [Hg1 Hc1]]].
    destruct (IH L1 Hg1) as [L' [H' [Hg' Hc']]].
    + intros x. specialize (Hd x). specialize (Hc1 x). unfold dels in Hd. cbn [flat_map] in Hd. rewrite cnt_app in Hd. fold (dels E) in Hd. lia.
    + intros x Hx. specialize (Hc x). specialize (Hc1 x). specialize (Hd x).
      unfold dels in Hc, Hd. cbn [flat_map] in Hc, Hd. rewrite cnt_app in Hc, Hd. fold (dels E) in Hc, Hd.
      assert (In x (csrc (e :: E))) by (unfold csrc; cbn [flat_map]; apply in_or_app; right; exact Hx).
      specialize (Hc H). lia.
    + exists L'. split; [cbn [do_aevs]; rewrite H1; exact H'|]. split; auto.
      intros x. specialize (Hc1 x). specialize (Hc' x).
      unfold adds, dels. cbn [flat_map]. rewrite !cnt_app. fold (adds E) (dels E). lia.
Qed.

(* ------------------------------------------------------------------ *)
(* 3. the step law of a protocol and what it implies *)
Definition law_eq {St} (V : view St) (s : St) (o : pop) (s' : St) (outs : list pout) : Prop :=
  let E := step_evs V s o outs in
  forall F : owner * key -> nat,
    wsum F (omega V s) + wsum F (flat_map aev_adds E) = wsum F (omega V s') + wsum F (flat_map aev_dels E).
(* every clone is a clone of something the protocol holds at that moment *)
Definition clones_held {St} (V : view St) (s : St) (o : pop) (outs : list pout) : Prop :=
  forall k, In k (v_clones V s o) ->
    0 < cnt (OProto, k) (omega V s ++ flat_map aev_adds (evs_op V s o ++ evs_sends V s o outs)).
Definition step_law {St} (V : view St) (s : St) (o : pop) (s' : St) (outs : list pout) : Prop :=
  law_eq V s o s' outs /\ clones_held V s o outs.

Definition linv {St} (V : view St) (L : lstate) (s : St) : Prop :=
  lgood L /\ mseq (lib_refs (ls_led L)) (omega V s).

Lemma cnt_filter_lib x l : cnt x (filter (fun y => lib_owner (fst y)) l) = if lib_owner (fst x) then cnt x l else 0.
Proof.
  induction l as [|y l IH]; cbn [filter]; [rewrite !cnt_nil; destruct (lib_owner (fst x)); reflexivity|].
  destruct (lib_owner (fst y)) eqn:E; rewrite ?cnt_cons, IH; destruct (ok_dec y x) as [->|]; try rewrite E; destruct (lib_owner (fst x)); lia.
Qed.
Lemma cnt_lib_one x o k :
  cnt x (if lib_owner o then [(o, k)] else []) = if lib_owner (fst x) then cnt x [(o, k)] else 0.
Proof.
  destruct (lib_owner o) eqn:Eo; rewrite ?cnt_cons, ?cnt_nil.
  - destruct (ok_dec (o, k) x) as [E|E]; [rewrite <- E; cbn [fst]; rewrite Eo; reflexivity|destruct (lib_owner (fst x)); reflexivity].
  - destruct (ok_dec (o, k) x) as [E|E]; [rewrite <- E; cbn [fst]; rewrite Eo; reflexivity|destruct (lib_owner (fst x)); reflexivity].
Qed.
Lemma cnt_lib_adds x E : cnt x (flat_map aev_adds E) = if lib_owner (fst x) then cnt x (adds E) else 0.
Proof.
  induction E as [|e E IH]; [cbn; destruct (lib_owner (fst x)); reflexivity|].
  unfold adds. cbn [flat_map]. rewrite !cnt_app, IH. fold (adds E).
  assert (H : cnt x (aev_adds e) = if lib_owner (fst x) then cnt x (aev_add e) else 0).
  { destruct e as [o k|o k|f k t|o k]; cbn [aev_adds aev_add]; try apply cnt_lib_one.
    rewrite cnt_nil. destruct (lib_owner (fst x)); reflexivity. }
  rewrite H. destruct (lib_owner (fst x)); lia.
Qed.
Lemma cnt_lib_dels x E : cnt x (flat_map aev_dels E) = if lib_owner (fst x) then cnt x (dels E) else 0.
Proof.
  induction E as [|e E IH]; [cbn; destruct (lib_owner (fst x)); reflexivity|].
  unfold dels. cbn [flat_map]. rewrite !cnt_app, IH. fold (dels E).
  assert (H : cnt x (aev_dels e) = if lib_owner (fst x) then cnt x (aev_del e) else 0).
  { destruct e as [o k|o k|f k t|o k]; cbn [aev_dels aev_del]; try apply cnt_lib_one;
    rewrite cnt_nil; destruct (lib_owner (fst x)); reflexivity. }
  rewrite H. destruct (lib_owner (fst x)); lia.
Qed.

(* the application's reuse of an aio touches no library-side reference *)
Lemma app_takes_refs l a x : lib_owner (fst x) = true -> cnt x (refs (app_takes l a)) = cnt x (refs l).
Proof.
  intros Hx. induction l as [|e l IH]; [reflexivity|].
  unfold app_takes. cbn [map]. fold (app_takes l a). rewrite !refs_cons, !cnt_app, IH. f_equal.
  cbn [e_key e_own]. generalize (e_own e). intros os. induction os as [|o os IHo]; [reflexivity|].
  unfold orefs in *. cbn [map]. rewrite !cnt_cons, IHo. f_equal.
  destruct (owner_eqb_spec o (OBack a)) as [->|].
  - destruct (ok_dec (OApp, e_key e) x) as [<-|]; [discriminate|]. destruct (ok_dec (OBack a, e_key e) x) as [<-|]; [discriminate|reflexivity].
  - reflexivity.
Qed.
Lemma app_takes_good L a : lgood L -> lgood (mkLs (app_takes (ls_led L) a) (ls_next L)).
Proof.
  intros [[Hnd Hf] Hid]. split; [split|]; cbn [ls_led ls_next].
  - unfold app_takes. rewrite map_map. cbn [e_id]. exact Hnd.
  - unfold app_takes. rewrite Forall_map. eapply Forall_impl; [|exact Hf]. intros e [H1 H2]. split; cbn; [now rewrite map_length|auto].
  - intros e He. unfold app_takes in He. apply in_map_iff in He. destruct He as [e0 [<- H0]]. cbn. now apply Hid.
Qed.
Lemma app_reuse_inv {St} (V : view St) L s o : linv V L s -> linv V (app_reuse L o) s.
Proof.
  intros [Hg Hm]. destruct o; try (split; assumption); cbn [app_reuse].
  all: split; [apply app_takes_good; exact Hg|].
  all: intros x; rewrite <- Hm; unfold lib_refs; cbn [ls_led]; rewrite !cnt_filter_lib;
       destruct (lib_owner (fst x)) eqn:E; [now apply app_takes_refs|reflexivity].
Qed.

(* owner classes, to say which phase of a step touches which references *)
Definition cls (o : owner) : nat :=
  match o with OApp => 0 | OAio _ => 1 | OBack _ => 2 | OProto => 3 | OPipe _ => 4 | OLost => 5 end.
Definition in_cls (cs : list nat) (l : list (owner * key)) : Prop := Forall (fun y => In (cls (fst y)) cs) l.
Lemma in_cls_app cs a b : in_cls cs a -> in_cls cs b -> in_cls cs (a ++ b).
Proof. intros; apply Forall_app; auto. Qed.
Lemma in_cls_nil cs : in_cls cs []. Proof. constructor. Qed.
Lemma cnt_zero_cls cs l x : in_cls cs l -> ~ In (cls (fst x)) cs -> cnt x l = 0.
Proof.
  intros H Hn. unfold cnt. apply count_occ_not_In. intros Hi.
  unfold in_cls in H. rewrite Forall_forall in H. apply Hn. now apply H.
Qed.
Lemma lib_cls o : lib_owner o = true <-> In (cls o) [1; 3; 4].
Proof. destruct o; cbn; intuition (try discriminate; try lia). Qed.

Section Phases.
  Context {St : Type} (V : view St).

  Lemma op_dels_cls s o : in_cls [4] (dels (evs_op V s o)).
  Proof.
    destruct o; cbn [evs_op]; try apply in_cls_nil.
    - destruct (N.eqb rv 0); unfold dels; induction (tx_of p (v_tx V s)); cbn; constructor; cbn; auto.
    - destruct (N.eqb rv 0); apply in_cls_nil.
  Qed.
  Lemma op_adds_cls s o : in_cls [1; 3] (adds (evs_op V s o)).
  Proof.
    destruct o; cbn [evs_op]; try apply in_cls_nil.
    - constructor; cbn; auto.
    - destruct (N.eqb rv 0); unfold adds; induction (tx_of p (v_tx V s)); cbn; try constructor; cbn; auto.
    - destruct (N.eqb rv 0); [constructor; cbn; auto|apply in_cls_nil].
  Qed.
  Lemma op_csrc s o : csrc (evs_op V s o) = [].
  Proof.
    destruct o; cbn [evs_op]; try reflexivity.
    - destruct (N.eqb rv 0); unfold csrc; induction (tx_of p (v_tx V s)); cbn; auto.
    - destruct (N.eqb rv 0); reflexivity.
  Qed.
  (* what PSendDone takes from the pipe is what the state says is in flight there *)
  Lemma op_dels_le s o x : cnt x (dels (evs_op V s o)) <= cnt x (omega V s).
  Proof.
    destruct o; cbn [evs_op]; try (cbn; lia).
    2: { destruct (N.eqb rv 0); cbn; lia. }
    assert (H : dels (evs_op V s (PSendDone p rv)) = map (fun m => (OPipe p, body m)) (tx_of p (v_tx V s))).
    { cbn [evs_op]. destruct (N.eqb rv 0); unfold dels; induction (tx_of p (v_tx V s)); cbn; try rewrite IHl; auto. }
    cbn [evs_op] in H. rewrite H. clear H. unfold omega. rewrite !cnt_app.
    assert (cnt x (map (fun m => (OPipe p, body m)) (tx_of p (v_tx V s))) <=
            cnt x (map (fun y => (OPipe (fst y), body (snd y))) (v_tx V s))); [|lia].
    unfold tx_of. induction (v_tx V s) as [|[q m] l IH]; cbn [filter map fst snd]; [lia|].
    destruct (N.eqb_spec q p); cbn [map fst snd]; rewrite ?cnt_cons; [subst q|];
      cbn [filter map fst snd] in IH; destruct (ok_dec _ x); lia.
  Qed.

  Lemma sends_dels_cls s o outs : in_cls [1] (dels (evs_sends V s o outs)).
  Proof.
    induction outs as [|x outs IH]; [apply in_cls_nil|]. cbn [evs_sends].
    destruct x; auto. destruct m; auto. destruct (send_key V s o a); auto.
    unfold dels. cbn [flat_map]. apply in_cls_app; auto.
    destruct (N.eqb rv 0); [|destruct (has_id a (v_detach V s o))]; constructor; cbn; auto.
  Qed.
  Lemma sends_adds_cls s o outs : in_cls [2; 3; 5] (adds (evs_sends V s o outs)).
  Proof.
    induction outs as [|x outs IH]; [apply in_cls_nil|]. cbn [evs_sends].
    destruct x; auto. destruct m; auto. destruct (send_key V s o a); auto.
    unfold adds. cbn [flat_map]. apply in_cls_app; auto.
    destruct (N.eqb rv 0); [|destruct (has_id a (v_detach V s o))]; constructor; cbn; auto.
  Qed.
  Lemma sends_csrc s o outs : csrc (evs_sends V s o outs) = [].
  Proof.
    induction outs as [|x outs IH]; [reflexivity|]. cbn [evs_sends].
    destruct x; auto. destruct m; auto. destruct (send_key V s o a); auto.
    unfold csrc. cbn [flat_map]. fold (csrc (evs_sends V s o outs)). rewrite IH.
    destruct (N.eqb rv 0); [|destruct (has_id a (v_detach V s o))]; reflexivity.
  Qed.

  Definition evs_mid (s : St) (o : pop) : list aev :=
    map (AClone OProto) (v_clones V s o) ++ map (AAlloc OProto) (v_dups V s o).
  Lemma mid_dels s o : dels (evs_mid s o) = [].
  Proof.
    unfold evs_mid, dels. rewrite flat_map_app.
    induction (v_clones V s o); cbn; auto. induction (v_dups V s o); cbn; auto.
  Qed.
  Lemma mid_adds_cls s o : in_cls [3] (adds (evs_mid s o)).
  Proof.
    unfold evs_mid, adds. rewrite flat_map_app. apply in_cls_app.
    - induction (v_clones V s o); cbn; constructor; cbn; auto.
    - induction (v_dups V s o); cbn; constructor; cbn; auto.
  Qed.
  Lemma mid_csrc s o : csrc (evs_mid s o) = map (fun k => (OProto, k)) (v_clones V s o).
  Proof.
    unfold evs_mid, csrc. rewrite flat_map_app.
    assert (flat_map (fun e => match e with AClone o0 k => [(o0, k)] | _ => [] end) (map (AAlloc OProto) (v_dups V s o)) = []).
    { induction (v_dups V s o); cbn; auto. }
    rewrite H, app_nil_r. induction (v_clones V s o); cbn; congruence.
  Qed.

  Lemma outs_dels_cls l : in_cls [3] (dels (evs_outs l)).
  Proof.
    induction l as [|x l IH]; [apply in_cls_nil|]. cbn [evs_outs].
    destruct x; auto; try (unfold dels; cbn [flat_map]; apply in_cls_app; auto; constructor; cbn; auto).
    destruct m; auto. destruct (N.eqb rv 0); auto.
    unfold dels; cbn [flat_map]; apply in_cls_app; auto; constructor; cbn; auto.
  Qed.
  Lemma outs_adds_cls l : in_cls [2; 4] (adds (evs_outs l)).
  Proof.
    induction l as [|x l IH]; [apply in_cls_nil|]. cbn [evs_outs].
    destruct x; auto.
    - destruct m; auto. destruct (N.eqb rv 0); auto.
      unfold adds; cbn [flat_map]; apply in_cls_app; auto; constructor; cbn; auto.
    - unfold adds; cbn [flat_map]; apply in_cls_app; auto; constructor; cbn; auto.
  Qed.
  Lemma outs_csrc l : csrc (evs_outs l) = [].
  Proof.
    induction l as [|x l IH]; [reflexivity|]. cbn [evs_outs].
    destruct x; auto. destruct m; auto. destruct (N.eqb rv 0); auto.
  Qed.
End Phases.

Section Main.
  Context {St : Type} (V : view St).

  Lemma omega_cls s : in_cls [1; 3; 4] (omega V s).
  Proof.
    unfold omega. repeat apply in_cls_app.
    - induction (v_held V s); cbn; constructor; cbn; auto.
    - induction (v_tx V s); cbn; constructor; cbn; auto.
    - induction (v_att V s); cbn; constructor; cbn; auto.
  Qed.
  Lemma lib_cnt L s x : linv V L s -> lib_owner (fst x) = true -> cnt x (refs (ls_led L)) = cnt x (omega V s).
  Proof. intros [_ Hm] Hx. rewrite <- Hm. unfold lib_refs. rewrite cnt_filter_lib, Hx. reflexivity. Qed.

  Lemma step_evs_split s o outs :
    step_evs V s o outs = evs_op V s o ++ evs_sends V s o outs ++ evs_mid V s o ++ evs_outs (outs ++ map Free (v_extra V s o outs)).
  Proof. unfold step_evs, evs_mid. now rewrite <- app_assoc. Qed.

  (* class bookkeeping: z x l cs = "x is not of a class in cs, so it does not occur in l" *)
  Ltac zero H := rewrite (cnt_zero_cls _ _ _ H) by (cbn; intuition lia).

  Theorem replay_step_ok L s o s' outs :
    linv V L s -> step_law V s o s' outs ->
    exists L', replay_step V L s o s' outs = Some L' /\ linv V L' s' /\
      forall x, cnt x (refs (ls_led L')) + cnt x (dels (step_evs V s o outs)) =
                cnt x (refs (ls_led (app_reuse L o))) + cnt x (adds (step_evs V s o outs)).
  Proof.
    intros Hinv [Hlaw Hcl].
    pose proof (app_reuse_inv V L s o Hinv) as Hinv0.
    unfold replay_step. rewrite step_evs_split.
    set (L0 := app_reuse L o) in *.
    set (E1 := evs_op V s o). set (E2 := evs_sends V s o outs). set (E3 := evs_mid V s o).
    set (E4 := evs_outs (outs ++ map Free (v_extra V s o outs))).
    (* the law, as counts, for library-side references *)
    assert (Hx : forall x, lib_owner (fst x) = true ->
               cnt x (omega V s) + (cnt x (adds E1) + cnt x (adds E2) + cnt x (adds E3) + cnt x (adds E4)) =
               cnt x (omega V s') + (cnt x (dels E1) + cnt x (dels E2) + cnt x (dels E3) + cnt x (dels E4))).
    { intros x Hl. specialize (Hlaw (ind x)). cbv zeta in Hlaw. rewrite <- !cnt_wsum in Hlaw.
      rewrite cnt_lib_adds, cnt_lib_dels, Hl, step_evs_split in Hlaw.
      fold E1 E2 E3 E4 in Hlaw. rewrite !adds_app, !dels_app, !cnt_app in Hlaw. lia. }
    pose proof (op_dels_cls V s o) as C1d. pose proof (op_adds_cls V s o) as C1a. fold E1 in C1d, C1a.
    pose proof (sends_dels_cls V s o outs) as C2d. pose proof (sends_adds_cls V s o outs) as C2a. fold E2 in C2d, C2a.
    pose proof (mid_dels V s o) as C3d. pose proof (mid_adds_cls V s o) as C3a. fold E3 in C3d, C3a.
    pose proof (outs_dels_cls (outs ++ map Free (v_extra V s o outs))) as C4d.
    pose proof (outs_adds_cls (outs ++ map Free (v_extra V s o outs))) as C4a. fold E4 in C4d, C4a.
    destruct Hinv0 as [Hg0 Hm0].
    assert (Hlib0 : forall x, lib_owner (fst x) = true -> cnt x (refs (ls_led L0)) = cnt x (omega V s)).
    { intros x Hl. apply lib_cnt; [split; assumption|exact Hl]. }
    (* phase 1: the operation itself *)
    destruct (do_aevs_phase E1 L0 Hg0) as [L1 [R1 [Hg1 Hc1]]].
    { intros x. destruct (lib_owner (fst x)) eqn:El.
      - rewrite Hlib0 by exact El. apply op_dels_le.
      - rewrite (cnt_zero_cls _ _ _ C1d); [lia|]. intros Hc.
        assert (lib_owner (fst x) = true) by (apply lib_cls; cbn in *; intuition lia). congruence. }
    { unfold E1. rewrite op_csrc. intros x []. }
    (* phase 2: completions of pending sends *)
    destruct (do_aevs_phase E2 L1 Hg1) as [L2 [R2 [Hg2 Hc2]]].
    { intros x. destruct (Nat.eq_dec (cls (fst x)) 1) as [Ec|Ec].
      - assert (El : lib_owner (fst x) = true) by (apply lib_cls; rewrite Ec; cbn; auto).
        specialize (Hx x El). specialize (Hc1 x). rewrite Hlib0 in Hc1 by exact El.
        rewrite (cnt_zero_cls _ _ _ C1d) in * by (rewrite Ec; cbn; intuition lia).
        rewrite (cnt_zero_cls _ _ _ C2a) in * by (rewrite Ec; cbn; intuition lia).
        rewrite (cnt_zero_cls _ _ _ C3a) in * by (rewrite Ec; cbn; intuition lia).
        rewrite (cnt_zero_cls _ _ _ C4a) in * by (rewrite Ec; cbn; intuition lia).
        rewrite (cnt_zero_cls _ _ _ C4d) in * by (rewrite Ec; cbn; intuition lia).
        rewrite C3d, cnt_nil in Hx. lia.
      - rewrite (cnt_zero_cls _ _ _ C2d); [lia|]. cbn. intuition lia. }
    { unfold E2. rewrite sends_csrc. intros x []. }
    (* phase 3: clones and duplicates *)
    destruct (do_aevs_phase E3 L2 Hg2) as [L3 [R3 [Hg3 Hc3]]].
    { intros x. rewrite C3d, cnt_nil. lia. }
    { intros x Hin. rewrite C3d, cnt_nil. unfold E3 in Hin. rewrite mid_csrc in Hin.
      apply in_map_iff in Hin. destruct Hin as [k [<- Hk]].
      specialize (Hcl k Hk). rewrite cnt_app, cnt_lib_adds, adds_app, cnt_app in Hcl. cbn [fst lib_owner] in Hcl.
      fold E1 E2 in Hcl.
      specialize (Hc1 (OProto, k)). specialize (Hc2 (OProto, k)). rewrite Hlib0 in Hc1 by reflexivity.
      rewrite (cnt_zero_cls _ _ _ C1d) in * by (cbn; intuition lia).
      rewrite (cnt_zero_cls _ _ _ C2d) in * by (cbn; intuition lia). lia. }
    (* phase 4: what leaves the protocol *)
    destruct (do_aevs_phase E4 L3 Hg3) as [L4 [R4 [Hg4 Hc4]]].
    { intros x. destruct (Nat.eq_dec (cls (fst x)) 3) as [Ec|Ec].
      - assert (El : lib_owner (fst x) = true) by (apply lib_cls; rewrite Ec; cbn; auto).
        specialize (Hx x El). specialize (Hc1 x). specialize (Hc2 x). specialize (Hc3 x). rewrite Hlib0 in Hc1 by exact El.
        rewrite (cnt_zero_cls _ _ _ C1d) in * by (rewrite Ec; cbn; intuition lia).
        rewrite (cnt_zero_cls _ _ _ C2d) in * by (rewrite Ec; cbn; intuition lia).
        rewrite (cnt_zero_cls _ _ _ C4a) in * by (rewrite Ec; cbn; intuition lia).
        rewrite C3d, cnt_nil in *. lia.
      - rewrite (cnt_zero_cls _ _ _ C4d); [lia|]. cbn. intuition lia. }
    { unfold E4. rewrite outs_csrc. intros x []. }
    (* the run as a whole, and the final comparison *)
    assert (Hrun : do_aevs L0 (E1 ++ E2 ++ E3 ++ E4) = Some L4).
    { rewrite do_aevs_app, R1, do_aevs_app, R2, do_aevs_app, R3. exact R4. }
    rewrite Hrun.
    assert (Hfin : mseq (lib_refs (ls_led L4)) (omega V s')).
    { intros x. unfold lib_refs. rewrite cnt_filter_lib. destruct (lib_owner (fst x)) eqn:El.
      - specialize (Hx x El). specialize (Hc1 x). specialize (Hc2 x). specialize (Hc3 x). specialize (Hc4 x).
        rewrite Hlib0 in Hc1 by exact El. lia.
      - symmetry. apply (cnt_zero_cls _ _ _ (omega_cls s')). intros Hc. apply lib_cls in Hc. congruence. }
    apply mset_eqb_spec in Hfin as Hb. rewrite Hb.
    exists L4. split; [reflexivity|]. split; [split; assumption|].
    intros x. rewrite !adds_app, !dels_app, !cnt_app.
    specialize (Hc1 x). specialize (Hc2 x). specialize (Hc3 x). specialize (Hc4 x). lia.
  Qed.
End Main.

(* ------------------------------------------------------------------ *)
(* 4. every history *)
Section Run.
  Context {St : Type} (V : view St) (step : St -> pop -> St * list pout)
          (Inv : St -> Prop) (ok : St -> pop -> Prop).

  (* the conservation law of a protocol: its invariant is kept and every step obeys the
     weighted equation of the ledger *)
  Definition proto_law : Prop :=
    forall s o s' outs, Inv s -> ok s o -> step s o = (s', outs) -> Inv s' /\ step_law V s o s' outs.

  Fixpoint ops_ok (s : St) (ops : list pop) : Prop :=
    match ops with [] => True | o :: r => ok s o /\ ops_ok (fst (step s o)) r end.
  Fixpoint run (s : St) (ops : list pop) : St :=
    match ops with [] => s | o :: r => run (fst (step s o)) r end.

  Theorem replay_run_ok : proto_law ->
    forall ops s L, Inv s -> linv V L s -> ops_ok s ops ->
    exists L', replay_run V step L s ops = Some (L', run s ops) /\ linv V L' (run s ops) /\ Inv (run s ops).
  Proof.
    intros Hlaw. induction ops as [|o ops IH]; intros s L Hi Hl Hok.
    - exists L. repeat split; auto; apply Hl.
    - cbn [replay_run run ops_ok] in *. destruct Hok as [Ho Hr].
      destruct (step s o) as [s' outs] eqn:E. cbn [fst] in *.
      destruct (Hlaw s o s' outs Hi Ho E) as [Hi' Hsl].
      destruct (replay_step_ok V L s o s' outs Hl Hsl) as [L1 [R1 [Hl1 _]]].
      rewrite R1. apply IH; auto.
  Qed.
End Run.
