(* Views: the per-protocol glue of the ownership ledger (Ledger/Ledger.v) -- for every
   protocol model, which messages of its state are references (protocol slot / pipe
   in flight / still on a queued user aio), the body a received message has after the
   receive callback's parse, the nni_msg_clone / nni_msg_dup calls of a step, the
   nni_msg_free calls of the C that the model does not output, and what the fini
   functions free.  Definitions only; each definition names the C it mirrors.

   Where the models' outputs are too coarse for the ledger (reported to main):
   * no model outputs its clones (pub0_sock_send, bus0_sock_send, surv0_ctx_send,
     xsurv0_sock_getq_cb: one nni_msg_clone per pipe that takes the message;
     req0_run_send_queue: one per transmission of a request that can be retried;
     sub0_recv_cb: one nni_msg_dup per taking context when there are several);
   * SurveyModel / XSurveyModel do not output the nni_msg_free of the caller's
     reference at the end of surv0_ctx_send / xsurv0_sock_getq_cb (PubModel and
     BusModel do): v_extra adds it;
   * no model has the sock_fini / pipe_fini / ctx_fini steps (nni_lmq_fini,
     nni_msgq_fini free what is still queued): v_fini lists it;
   * BusModel's refused send looks the same in both forms of bus0_sock_send
     (Complete a E_AGAIN None): whether the aio's message slot had been emptied
     before the refusal is v_detach (flag C03_BUS_START_BEFORE_DETACH). *)
From Coq Require Import List Arith NArith Bool ZArith.
From NngV Require Import Proto.Common Ledger.Ledger.
From NngV Require Proto.PushModel Proto.PullModel Proto.PubModel Proto.SubModel Proto.XsubModel
  Proto.PairModel Proto.PairGuard Proto.BusModel
  Proto.ReqRepBacktrace Proto.ReqModel Proto.RepModel Proto.XReqModel Proto.XRepModel
  Proto.SurveyBacktrace Proto.SurveyModel Proto.RespondModel Proto.XSurveyModel Proto.XRespondModel.
Import ListNotations.

Definition opt_list {A} (o : option A) : list A := match o with Some x => [x] | None => [] end.
Definition no_rx {St} : St -> pid -> pmsg -> key := fun _ _ m => body m.
Definition no_keys {St} : St -> pop -> list key := fun _ _ => [].
Definition no_extra {St} : St -> pop -> list pout -> list pmsg := fun _ _ _ => [].
Definition no_detach {St} : St -> pop -> list aioid := fun _ _ => [].
(* did this step complete the send of aio a successfully? *)
Definition sent_ok (a : aioid) (outs : list pout) : bool :=
  existsb (fun o => match o with Complete b rv None => N.eqb b a && N.eqb rv 0 | _ => false end) outs.

(* ---------------- PUSH (pipeline0/push.c) ---------------- *)
Module VPush.
  Import PushModel.
  Definition view : view push :=
    mkView (fun s => ps_wq s)                    (* s->wq *)
           (fun s => ps_sending s)               (* p->aio_send *)
           (fun s => ps_aq s)                    (* s->waq: the aio keeps its message until the pipe takes it *)
           no_rx no_keys no_keys no_extra no_detach
           (fun s => ps_wq s).                   (* push0_sock_fini: nni_lmq_fini(&s->wq) *)
End VPush.

(* ---------------- PULL (pipeline0/pull.c) ---------------- *)
Module VPull.
  Import PullModel.
  Definition view : view pull :=
    mkView (fun s => map snd (pl_pl s))          (* p->m of every pipe holding one *)
           (fun _ => []) (fun _ => [])
           no_rx no_keys no_keys no_extra no_detach
           (fun _ => []).                        (* pull0_pipe_fini frees p->m: the model does so at pipe_close *)
End VPull.

(* ---------------- PUB (pubsub0/pub.c) ---------------- *)
Module VPub.
  Import PubModel.
  Definition clones (s : pub) (o : pop) : list key :=
    match o with
    | PSend _ _ _ m => map (fun _ => body m) (filter (fun p => negb (pp_closed p)) (pb_pipes s))   (* nni_msg_clone per pipe on sock->pipes *)
    | _ => []
    end.
  Definition view : view pub :=
    mkView (fun s => flat_map pp_q (pb_pipes s))                                         (* every p->sendq *)
           (fun s => flat_map (fun p => map (fun m => (pp_id p, m)) (opt_list (pp_tx p))) (pb_pipes s))
           (fun _ => [])
           no_rx clones no_keys no_extra no_detach
           (fun s => flat_map pp_q (pb_pipes s)).                                        (* pub0_pipe_fini: nni_lmq_fini(&p->sendq) *)
End VPub.

(* ---------------- SUB (pubsub0/sub.c) ---------------- *)
Module VSub.
  Import SubModel.
  Definition dups (s : sub) (o : pop) : list key :=
    match o with
    | PRecvDone _ rv m =>
        if N.eqb rv 0 && (1 <? length (sb_ctxs s))
        then map (fun _ => body m) (filter (fun c => ctx_accepts c m) (sb_ctxs s))      (* num_contexts > 1: nni_msg_dup per taker *)
        else []
    | _ => []
    end.
  Definition view : view sub :=
    mkView (fun s => flat_map sc_lmq (sb_ctxs s))                                        (* every ctx->lmq *)
           (fun _ => []) (fun _ => [])
           no_rx no_keys dups no_extra no_detach
           (fun s => flat_map sc_lmq (sb_ctxs s)).                                       (* sub0_ctx_fini: nni_lmq_fini(&ctx->lmq) *)
End VSub.

(* ---------------- raw SUB (pubsub0/xsub.c + the socket's urq) ---------------- *)
Module VXsub.
  Import XsubModel.
  Definition view : view xsub :=
    mkView (fun s => xs_q s) (fun _ => []) (fun _ => [])
           no_rx no_keys no_keys no_extra no_detach
           (fun s => xs_q s).                                                            (* nni_msgq_fini(s_urq) *)
End VXsub.

(* ---------------- PAIR0 / PAIR1 (pair0/pair.c, pair1/pair.c) ---------------- *)
Module VPair.
  Import PairModel.
  Definition rx (k : pkind) (s : pair) (p : pid) (m : pmsg) : key :=
    match rx_decode k (pr_ttl s) m with RxOk m' => body m' | _ => body m end.            (* pair1: the hop word is trimmed off *)
  Definition view (k : pkind) : view pair :=
    mkView (fun s => pr_wmq s ++ pr_rmq s ++ opt_list (pr_rd s))                          (* wmq, rmq, the message parked in p->aio_recv *)
           (fun s => pr_sending s)
           (fun s => pr_waq s)
           (rx k) no_keys no_keys no_extra no_detach
           (fun s => pr_wmq s ++ pr_rmq s).                                              (* pairX_sock_fini: nni_lmq_fini of both *)
End VPair.

(* ---------------- BUS (bus0/bus.c) ---------------- *)
Module VBus.
  Import BusModel.
  Definition takes (raw : bool) (sender : N) (bp : bpipe) : bool :=
    match offer_kind raw sender bp with ODirect | OQueued => true | _ => false end.
  (* [fixed] as in BusModel (no nni_aio_start in bus0_sock_send); [keep] = C03_BUS_START_BEFORE_DETACH *)
  Definition clones (fixed : bool) (s : bus) (o : pop) : list key :=
    match o with
    | PSend _ _ nb m =>
        if negb fixed && nb then []
        else map (fun _ => body m)
                 (filter (takes (bs_raw s) (fst (bus_prep (bs_raw s) m))) (bs_pipes s))   (* nni_msg_clone per pipe that takes it *)
    | _ => []
    end.
  Definition detach (fixed keep : bool) (s : bus) (o : pop) : list aioid :=
    match o with
    | PSend _ a nb _ => if negb fixed && nb && negb keep then [a] else []                (* slot emptied, then nni_aio_start refuses *)
    | _ => []
    end.
  Definition view (fixed keep : bool) : view bus :=
    mkView (fun s => bs_rq s ++ flat_map bp_q (bs_pipes s))                               (* recv_msgs, every p->send_queue *)
           (fun s => bs_sending s)
           (fun _ => [])
           no_rx (clones fixed) no_keys no_extra (detach fixed keep)
           (fun s => bs_rq s ++ flat_map bp_q (bs_pipes s)).                             (* bus0_sock_fini / bus0_pipe_fini: nni_lmq_fini *)
End VBus.

(* ---------------- REQ (reqrep0/req.c) ---------------- *)
Module VReq.
  Import ReqRepBacktrace ReqModel.
  Definition ctx_held (c : rctx) : list pmsg :=
    (match cx_send c with
     | Some _ => []                                          (* still queued: the reference is the send aio's *)
     | None => if cx_owned c then opt_list (cx_req c) else []    (* req_msg, when the pointer carries a reference *)
     end) ++ opt_list (cx_rep c).                             (* rep_msg *)
  Definition ctx_att (c : rctx) : list (aioid * pmsg) :=
    match cx_send c, cx_req c with Some a, Some m => [(a, m)] | _, _ => [] end.
  Definition rx (s : req) (p : pid) (m : pmsg) : key :=
    match req_recv (pm_body m) with Some (_, m') => body m' | None => body m end.
  Definition view (fx : rfix) : view req :=
    mkView (fun s => flat_map (fun kc => ctx_held (snd kc)) (rq_ctxs s))
           (fun s => rq_sending s)
           (fun s => flat_map (fun kc => ctx_att (snd kc)) (rq_ctxs s))
           rx
           (fun s o => map body (snd (req_stepL fx s o)))     (* the clones req0_run_send_queue makes (third component of req_stepL) *)
           no_keys no_extra no_detach
           (fun _ => []).                                     (* req0_ctx_fini's frees are the PSockClose / PCtxClose steps *)
End VReq.

(* ---------------- REP (reqrep0/rep.c) ---------------- *)
Module VRep.
  Import ReqRepBacktrace ReqModel RepModel.
  Definition rx (s : rep) (p : pid) (m : pmsg) : key :=
    match rep_recv (rp_ttl s) (pm_body m) with BtDeliver m' => body m' | _ => body m end.
  Definition view : view rep :=
    mkView (fun s => map snd (rp_holding s))                  (* the parsed request parked in p->aio_recv *)
           (fun s => rp_sending s)
           (fun s => flat_map (fun kc => opt_list (rc_saio (snd kc))) (rp_ctxs s))   (* ctx->saio: the reply stays on the user's aio *)
           rx no_keys no_keys no_extra no_detach
           (fun _ => []).                                     (* rep0_pipe_fini frees a parked request: the model does so at pipe_close *)
End VRep.

(* ---------------- raw REQ (reqrep0/xreq.c + both upper queues) ---------------- *)
Module VXreq.
  Import ReqRepBacktrace ReqModel XReqModel.
  Definition rx (s : xreq) (p : pid) (m : pmsg) : key :=
    match xreq_recv (pm_body m) with BtDeliver m' => body m' | _ => body m end.
  Definition view : view xreq :=
    mkView (fun s => mq_q (xq_uwq s) ++ mq_q (xq_urq s) ++ map snd (mq_putq (xq_urq s)))   (* uwq, urq, messages on the pipes' aio_putq *)
           (fun s => xq_sending s)
           (fun s => mq_putq (xq_uwq s))                       (* user aios blocked in nni_msgq_aio_put *)
           rx no_keys no_keys no_extra no_detach
           (fun s => mq_q (xq_uwq s) ++ mq_q (xq_urq s)).      (* nni_msgq_fini of both *)
End VXreq.

(* ---------------- raw REP (reqrep0/xrep.c) ---------------- *)
Module VXrep.
  Import ReqRepBacktrace ReqModel XReqModel XRepModel.
  Definition rx (s : xrep) (p : pid) (m : pmsg) : key :=
    match xrep_recv p (xp_ttl s) (pm_body m) with BtDeliver m' => body m' | _ => body m end.
  Definition view : view xrep :=
    mkView (fun s => map snd (xp_sendq s) ++ mq_q (xp_urq s) ++ map snd (mq_putq (xp_urq s)))
           (fun s => xp_sending s)
           (fun _ => [])
           rx no_keys no_keys no_extra no_detach
           (fun s => map snd (xp_sendq s) ++ mq_q (xp_urq s)).  (* xrep0_pipe_fini: nni_msgq_fini(p->sendq); the socket's urq *)
End VXrep.

(* ---------------- SURVEYOR (survey0/survey.c) ---------------- *)
Module VSurv.
  Import SurveyBacktrace SurveyModel.
  Definition pipe_takes (x : spipe) : bool :=
    negb (sp_closed x) && (negb (sp_busy x) || (length (sp_q x) <? SURV_SEND_BUF)).
  Definition accepted (s : surv) (o : pop) : list pmsg :=
    match o with
    | PSend c _ _ m =>
        match kget (ckey c) (sv_ctxs s) with
        | Some cx =>
            let ctxs1 := kset (ckey c) (fst (ctx_abort cx E_CANCELED)) (sv_ctxs s) in
            let live := live_ids ctxs1 in
            match id_alloc (S (length live)) live (sv_cur s) with Some _ => [m] | None => [] end
        | None => []
        end
    | _ => []
    end.
  Definition clones (s : surv) (o : pop) : list key :=
    flat_map (fun m => map (fun _ => body m) (filter (fun px => pipe_takes (snd px)) (sv_pipes s))) (accepted s o).
  Definition rx (s : surv) (p : pid) (m : pmsg) : key :=
    match surv_recv (pm_body m) with Some (_, _, rest) => rest | None => body m end.
  Definition view : view surv :=
    mkView (fun s => flat_map (fun kc => sc_lmq (snd kc)) (sv_ctxs s) ++ flat_map (fun px => sp_q (snd px)) (sv_pipes s))
           (fun s => flat_map (fun px => map (fun m => (fst px, m)) (sp_held (snd px))) (sv_pipes s))
           (fun _ => [])
           rx clones no_keys
           (fun s o _ => accepted s o)                         (* surv0_ctx_send: nni_msg_free(msg) after the fan-out *)
           no_detach
           (fun s => flat_map (fun kc => sc_lmq (snd kc)) (sv_ctxs s) ++ flat_map (fun px => sp_q (snd px)) (sv_pipes s)).
End VSurv.

(* ---------------- RESPONDENT (survey0/respond.c) ---------------- *)
Module VResp.
  Import SurveyBacktrace SurveyModel RespondModel.
  Definition rx (s : resp) (p : pid) (m : pmsg) : key :=
    match resp_recv (rs_ttl s) (pm_body m) with BtDeliver _ b => b | _ => body m end.
  Definition view : view resp :=
    mkView (fun s => flat_map (fun px => rp_rmsg (snd px)) (rs_pipes s))                  (* the parsed survey parked in p->aio_recv *)
           (fun s => flat_map (fun px => map (fun m => (fst px, m)) (rp_held (snd px))) (rs_pipes s))
           (fun s => flat_map (fun kc => opt_list (rc_saio (snd kc))) (rs_ctxs s))
           rx no_keys no_keys no_extra no_detach
           (fun _ => []).
End VResp.

(* ---------------- raw SURVEYOR / raw RESPONDENT (survey0/xsurvey.c, xrespond.c) ---------------- *)
Module VXsurv.
  Import SurveyBacktrace SurveyModel XSurveyModel.
  Definition pipes_held (l : list (pid * xpipe)) : list pmsg := flat_map (fun px => xp_q (snd px)) l.
  Definition pipes_tx (l : list (pid * xpipe)) : list (pid * pmsg) :=
    flat_map (fun px => map (fun m => (fst px, m)) (xp_held (snd px))) l.
  Definition urq_held (u : urq) : list pmsg := uq_q u ++ map snd (uq_writers u).
  Definition accepted (fx : mq_fix) (o : pop) : list pmsg :=
    match o with PSend _ _ nb m => if nb && negb (mf_nb fx) then [] else [m] | _ => [] end.
  Definition clones (fx : mq_fix) (s : xsurv) (o : pop) : list key :=
    flat_map (fun m => map (fun _ => body m) (filter (fun px => negb (xp_closed (snd px))) (xs_pipes s))) (accepted fx o).
  Definition rx (s : xsurv) (p : pid) (m : pmsg) : key :=
    match xsurv_recv (pm_body m) with BtDeliver _ b => b | _ => body m end.
  Definition view (fx : mq_fix) : view xsurv :=
    mkView (fun s => pipes_held (xs_pipes s) ++ urq_held (xs_urq s))
           (fun s => pipes_tx (xs_pipes s))
           (fun _ => [])
           rx (clones fx) no_keys
           (fun _ o _ => accepted fx o)                        (* xsurv0_sock_getq_cb: nni_msg_free(msg) after the loop *)
           no_detach
           (fun s => pipes_held (xs_pipes s) ++ uq_q (xs_urq s)).
End VXsurv.

Module VXresp.
  Import SurveyBacktrace SurveyModel XSurveyModel XRespondModel.
  Definition rx (s : xresp) (p : pid) (m : pmsg) : key :=
    match xresp_recv p (xr_ttl s) (pm_body m) with BtDeliver _ b => b | _ => body m end.
  Definition view : view xresp :=
    mkView (fun s => VXsurv.pipes_held (xr_pipes s) ++ VXsurv.urq_held (xr_urq s))
           (fun s => VXsurv.pipes_tx (xr_pipes s))
           (fun _ => [])
           rx no_keys no_keys no_extra no_detach
           (fun s => VXsurv.pipes_held (xr_pipes s) ++ uq_q (xr_urq s)).
End VXresp.

(* ---------------- the views that do not depend on the source's variant flags ---------------- *)
Definition view_push := VPush.view.
Definition view_pull := VPull.view.
Definition view_pub := VPub.view.
Definition view_sub := VSub.view.
Definition view_xsub := VXsub.view.
Definition view_pair0 := VPair.view PairModel.K0.
Definition view_pair1 := VPair.view (PairModel.K1 false).
Definition view_pair1_raw := VPair.view (PairModel.K1 true).
Definition view_rep := VRep.view.
Definition view_xreq := VXreq.view.
Definition view_xrep := VXrep.view.
Definition view_surv := VSurv.view.
Definition view_resp := VResp.view.
Definition view_xresp := VXresp.view.
