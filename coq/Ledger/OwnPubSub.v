(* OwnPubSub: the ledger law of PUB, SUB and raw SUB
   (src/sp/protocol/pubsub0/pub.c, sub.c, xsub.c + the socket's upper read queue).

   PUB  (pub.c):  invariant PubInv and environment contract pub_op_ok of Proto/PubSubProofs3.v
                  (a pipe id is started once); the view clones the caller's message once per
                  pipe on sock->pipes, and pub0_sock_send frees the caller's reference.
   SUB  (sub.c):  invariant SInv and environment contract sub_op_ok of Proto/PubSubProofs.v
                  (a context id is opened once); with more than one context every taker gets
                  an nni_msg_dup and the original is freed, with one it gets the original.
   XSUB (xsub.c): no invariant and no contract needed. *)
From Coq Require Import List Arith NArith Bool Lia.
From NngV Require Import Proto.Common Proto.SubModel Proto.PubModel Proto.XsubModel
  Proto.PubSubProofs Proto.PubSubProofs3
  Ledger.Ledger Ledger.LedgerProofs Ledger.LawTac Ledger.Views.
Import ListNotations.

(* ------------------------------ shared helpers ------------------------------ *)
Lemma wsum_firstn_skipn {A} (G : A -> nat) n (l : list A) : wsum G l = wsum G (firstn n l) + wsum G (skipn n l).
Proof. rewrite <- (firstn_skipn n l) at 1. apply wsum_app. Qed.
Lemma wsum_const_map {A} (G : key -> nat) (k : key) (l : list A) :
  wsum G (map (fun _ => k) l) = length l * G k.
Proof. induction l as [|x l IH]; [reflexivity|]. cbn [map length]. rewrite wsum_cons, IH. lia. Qed.
Lemma wsum_map_same {A} (G : A -> nat) (f : A -> A) l : (forall x, G (f x) = G x) -> wsum G (map f l) = wsum G l.
Proof. intros E. rewrite wsum_map. apply wsum_ext. intros x _. apply E. Qed.
Lemma o_tx_Free_app F l r : o_tx F (map Free l ++ r) = o_tx F r.
Proof. now rewrite o_tx_app, o_tx_Free. Qed.

(* the completions of a step whose operation is not a send and whose view queues no user send *)
Ltac nosend V :=
  match goal with
  | |- context [s_take ?F V ?s ?o ?outs] =>
      let A := fresh "A" in let B := fresh "B" in
      destruct (s_none V F s o outs eq_refl ltac:(intros; discriminate)) as [A B]; rewrite A, B; clear A B
  end.

(* ================================================================== PUB *)
Definition Fp (F : owner * key -> nat) : pmsg -> nat := fun m => F (OProto, body m).
Ltac ufl := try unfold Fp in *; wnorm; lia.

(* what one pipe stands for: its send queue, and the message on its aio_send *)
Definition pW (F : owner * key -> nat) (p : ppipe) : nat :=
  wsum (Fp F) (pp_q p) + wsum (fun m => F (OPipe (pp_id p), body m)) (opt_list (pp_tx p)).

Definition ptx (l : list ppipe) : list (pid * pmsg) :=
  flat_map (fun p => map (fun m => (pp_id p, m)) (opt_list (pp_tx p))) l.

Lemma pub_w_omega F s : w_omega F view_pub s = wsum (pW F) (pb_pipes s).
Proof.
  unfold w_omega. cbn [view_pub VPub.view v_held v_tx v_att]. rewrite wsum_nil.
  induction (pb_pipes s) as [|p l IH]; [reflexivity|].
  cbn [flat_map]. rewrite !wsum_app, wsum_cons, wsum_map. cbn [fst snd]. unfold pW, Fp in *. lia.
Qed.

Lemma map_upd_notin id f l : ~ In id (map pp_id l) -> upd_pipe id f l = l.
Proof.
  unfold upd_pipe. induction l as [|y l IH]; cbn [map]; intros Hn; [reflexivity|].
  destruct (N.eqb_spec (pp_id y) id) as [E|E]; [exfalso; apply Hn; left; exact E|].
  f_equal. apply IH. intros Hi. apply Hn. right. exact Hi.
Qed.
Lemma wsum_upd_pipe (G : ppipe -> nat) id f l x :
  NoDup (map pp_id l) -> find_pipe id l = Some x ->
  wsum G (upd_pipe id f l) + G x = wsum G l + G (f x).
Proof.
  induction l as [|y l IH]; intros ND Fd; [discriminate|].
  cbn [map] in ND. inversion ND as [|? ? Hni ND']; subst.
  unfold find_pipe in Fd. cbn [find] in Fd. unfold upd_pipe. cbn [map]. fold (upd_pipe id f l).
  rewrite !wsum_cons. destruct (N.eqb_spec (pp_id y) id) as [E|E].
  - inversion Fd; subst y. rewrite map_upd_notin by (rewrite <- E; exact Hni). lia.
  - specialize (IH ND' Fd). lia.
Qed.
Lemma find_pipe_none id l : find_pipe id l = None -> ~ In id (map pp_id l).
Proof.
  unfold find_pipe. induction l as [|y l IH]; cbn [find map]; intros Fd; [intros []|].
  destruct (N.eqb_spec (pp_id y) id) as [E|E]; [discriminate|]. intros [Hi|Hi]; [contradiction|]. now apply IH.
Qed.
Lemma tx_of_ptx_notin id l : ~ In id (map pp_id l) -> tx_of id (ptx l) = [].
Proof.
  unfold tx_of. induction l as [|y l IH]; cbn [map]; intros Hn; [reflexivity|].
  unfold ptx. cbn [flat_map]. fold (ptx l). rewrite filter_app, map_app, IH by (intros Hi; apply Hn; right; exact Hi).
  rewrite app_nil_r. destruct (pp_tx y); cbn [opt_list map filter fst]; [|reflexivity].
  destruct (N.eqb_spec (pp_id y) id) as [E|E]; [exfalso; apply Hn; left; exact E|reflexivity].
Qed.
Lemma tx_of_ptx_find id l x : NoDup (map pp_id l) -> find_pipe id l = Some x -> tx_of id (ptx l) = opt_list (pp_tx x).
Proof.
  induction l as [|y l IH]; intros ND Fd; [discriminate|].
  cbn [map] in ND. inversion ND as [|? ? Hni ND']; subst.
  unfold find_pipe in Fd. cbn [find] in Fd.
  unfold ptx. cbn [flat_map]. fold (ptx l). unfold tx_of. rewrite filter_app, map_app. fold (tx_of id (ptx l)).
  destruct (N.eqb_spec (pp_id y) id) as [E|E].
  - inversion Fd; subst y. rewrite tx_of_ptx_notin by (rewrite <- E; exact Hni). rewrite app_nil_r.
    destruct (pp_tx x); cbn [opt_list map filter fst]; [|reflexivity]. rewrite E, N.eqb_refl. reflexivity.
  - rewrite (IH ND' Fd). destruct (pp_tx y); cbn [opt_list map filter fst]; [|reflexivity].
    destruct (N.eqb_spec (pp_id y) id); [contradiction|reflexivity].
Qed.
Lemma pub_tx_of_none s p : find_pipe p (pb_pipes s) = None -> tx_of p (v_tx view_pub s) = [].
Proof. intros Fd. change (v_tx view_pub s) with (ptx (pb_pipes s)). apply tx_of_ptx_notin, find_pipe_none, Fd. Qed.
Lemma pub_tx_of_some s p x : NoDup (map pp_id (pb_pipes s)) -> find_pipe p (pb_pipes s) = Some x ->
  tx_of p (v_tx view_pub s) = opt_list (pp_tx x).
Proof. intros ND Fd. change (v_tx view_pub s) with (ptx (pb_pipes s)). now apply tx_of_ptx_find. Qed.

(* the loop body of pub0_sock_send for one pipe: the clone it takes is queued, sent, or pushes the oldest out *)
Lemma pipe_send_sum F p m : pipe_ok p ->
  pW F p + (if pp_closed p then 0 else F (OProto, body m)) + o_tx F (snd (pipe_send p m))
  = pW F (fst (pipe_send p m)) + o_rel F (snd (pipe_send p m)).
Proof.
  intros (A & B & C & D). unfold pipe_send. destruct (pp_closed p) eqn:CL; [cbn; lia|].
  destruct (pp_busy p) eqn:BS.
  - destruct (pq_full p).
    + destruct (pp_q p) as [|old r] eqn:Q; cbn [fst snd o_tx o_rel]; unfold pW; simp_p; rewrite ?Q; unfold Fp; wnorm; lia.
    + cbn [fst snd o_tx o_rel]. unfold pW. simp_p. unfold Fp. wnorm. lia.
  - destruct (A eq_refl) as [Q T]. cbn [fst snd o_tx o_rel]. unfold pW. simp_p. rewrite Q, T. cbn [opt_list]. unfold Fp. wnorm. lia.
Qed.
Lemma pipe_send_quiet p m : no_send_done (snd (pipe_send p m)) = true.
Proof.
  unfold pipe_send. destruct (pp_closed p); [reflexivity|]. destruct (pp_busy p); [|reflexivity].
  destruct (pq_full p); [|reflexivity]. destruct (pp_q p); reflexivity.
Qed.
Lemma no_send_done_app a b : no_send_done a = true -> no_send_done b = true -> no_send_done (a ++ b) = true.
Proof.
  induction a as [|x a IH]; intros Ha Hb; [exact Hb|]. cbn [app no_send_done] in *.
  destruct x; auto. destruct m; auto.
Qed.
Lemma fanout_quiet l m : no_send_done (flat_map snd (map (fun p => pipe_send p m) l)) = true.
Proof.
  induction l as [|p l IH]; [reflexivity|]. cbn [map flat_map]. apply no_send_done_app; [apply pipe_send_quiet|exact IH].
Qed.
Lemma fanout_sum F l m : Forall pipe_ok l ->
  wsum (pW F) l
    + wsum (fun k => F (OProto, k)) (map (fun _ => body m) (filter (fun p => negb (pp_closed p)) l))
    + o_tx F (flat_map snd (map (fun p => pipe_send p m) l))
  = wsum (pW F) (map fst (map (fun p => pipe_send p m) l))
    + o_rel F (flat_map snd (map (fun p => pipe_send p m) l)).
Proof.
  induction l as [|p l IH]; intros Hf; [reflexivity|]. inversion Hf as [|? ? Hp Hl]; subst.
  specialize (IH Hl). pose proof (pipe_send_sum F p m Hp) as P.
  cbn [map flat_map filter]. rewrite o_tx_app, o_rel_app, !wsum_cons.
  destruct (pp_closed p); cbn [negb map]; rewrite ?wsum_cons; lia.
Qed.
(* pub0_sock_set_sendbuf: nni_lmq_resize of every open pipe's queue *)
Lemma resize_sum F n l :
  wsum (pW F) l
  = wsum (pW F) (map (fun p => if pp_closed p then p
                               else mkPpipe (pp_id p) false (pp_busy p) (firstn n (pp_q p)) n (pp_tx p)) l)
    + wsum (Fp F) (flat_map (fun p => if pp_closed p then [] else skipn n (pp_q p)) l).
Proof.
  induction l as [|p l IH]; [reflexivity|]. cbn [map flat_map]. rewrite wsum_app, !wsum_cons, IH.
  destruct (pp_closed p); [rewrite wsum_nil; lia|].
  unfold pW. simp_p. rewrite (wsum_firstn_skipn (Fp F) n (pp_q p)). lia.
Qed.

Ltac pub_view := cbn [view_pub VPub.view v_clones v_dups v_rx VPub.clones]; unfold no_rx, no_keys.

Lemma pub_law_sum s o s' outs : PubInv s -> pub_step s o = (s', outs) -> law_sum view_pub s o s' outs.
Proof.
  intros (I1 & I2 & I3) H F. cbv zeta.
  change (v_extra view_pub s o outs) with (@nil pmsg). cbn [map]. rewrite app_nil_r.
  change (v_dups view_pub s o) with (@nil key). rewrite app_nil_r.
  rewrite !pub_w_omega.
  destruct o as [k a nb m|k a nb|a rv|p peer|p|p rv|p rv m|k op|k|k| |now]; cbn [pub_step] in H.
  - (* PSend: one clone per pipe on sock->pipes, the caller's reference is freed *)
    inversion H; subst; clear H. simp_p. pub_view.
    destruct (s_quiet view_pub F s (PSend k a nb m) (flat_map snd (map (fun p => pipe_send p m) (pb_pipes s)))
                (fanout_quiet _ m)) as [A B].
    rewrite s_take_app, s_del_app, A, B. cbn [s_take s_del op_add op_del]. rewrite !send_key_self.
    change (E_OK =? 0)%N with true. cbn iota.
    rewrite o_tx_app, o_rel_app. cbn [o_tx o_rel].
    pose proof (fanout_sum F (pb_pipes s) m I1) as L. unfold Fp in *. ufl.
  - (* PRecv *)
    nosend view_pub. inversion H; subst. pub_view. cbn. wnorm. ufl.
  - nosend view_pub. inversion H; subst. pub_view. cbn. wnorm. ufl.
  - (* PPipeStart *)
    nosend view_pub. destruct (negb (peer =? PROTO_SUB)%N); inversion H; subst; pub_view; simp_p; cbn [op_add op_del o_tx o_rel]; wnorm.
    + ufl.
    + unfold pW. simp_p. cbn [opt_list]. wnorm. ufl.
  - (* PPipeClose *)
    nosend view_pub. cbn [op_add op_del]. pub_view. wnorm.
    destruct (find_pipe p (pb_pipes s)) as [x|] eqn:Fd; inversion H; subst; clear H; simp_p; wnorm; [|cbn; ufl].
    pose proof (wsum_upd_pipe (pW F) p (fun x => mkPpipe (pp_id x) true (pp_busy x) [] (pp_cap x) (pp_tx x)) _ x I2 Fd) as U.
    cbn beta in U. unfold pW in *. simp_p. unfold Fp in *. wnorm. ufl.
  - (* PSendDone *)
    nosend view_pub. cbn [op_add op_del]. pub_view. wnorm.
    destruct (find_pipe p (pb_pipes s)) as [x|] eqn:Fd.
    2: { rewrite (pub_tx_of_none s p Fd). inversion H; subst. destruct (rv =? 0)%N; cbn; wnorm; ufl. }
    rewrite (pub_tx_of_some s p x I2 Fd).
    pose proof (find_pipe_some _ _ _ Fd) as [Fin Fid].
    destruct (N.eqb_spec rv 0) as [->|Hrv]; cbn [negb] in H.
    + destruct (pp_closed x) eqn:CL.
      * inversion H; subst s' outs; clear H. simp_p.
        pose proof (wsum_upd_pipe (pW F) p (fun x => mkPpipe (pp_id x) true (pp_busy x) (pp_q x) (pp_cap x) None) _ x I2 Fd) as U.
        cbn beta in U. unfold pW in *. simp_p. cbn [opt_list o_tx o_rel] in *. wnorm. subst p. ufl.
      * destruct (pp_q x) as [|m r] eqn:Q; inversion H; subst s' outs; clear H; simp_p.
        -- pose proof (wsum_upd_pipe (pW F) p (fun x => mkPpipe (pp_id x) false false [] (pp_cap x) None) _ x I2 Fd) as U.
           cbn beta in U. unfold pW in *. simp_p. rewrite Q in U. cbn [opt_list o_tx o_rel] in *. wnorm. subst p. ufl.
        -- pose proof (wsum_upd_pipe (pW F) p (fun x => mkPpipe (pp_id x) false true r (pp_cap x) (Some m)) _ x I2 Fd) as U.
           cbn beta in U. unfold pW in *. simp_p. rewrite Q in U. cbn [opt_list o_tx o_rel] in *. unfold Fp in *. wnorm. subst p. ufl.
    + inversion H; subst s' outs; clear H. simp_p.
      pose proof (wsum_upd_pipe (pW F) p (fun x => mkPpipe (pp_id x) (pp_closed x) (pp_busy x) (pp_q x) (pp_cap x) None) _ x I2 Fd) as U.
      cbn beta in U. unfold pW in *. simp_p. subst p.
      destruct (pp_tx x) as [m|]; cbn [opt_list app o_tx o_rel] in *; wnorm; ufl.
  - (* PRecvDone: a publisher expects no data *)
    nosend view_pub. inversion H; subst; clear H. cbn [op_add op_del]. pub_view. wnorm.
    destruct (rv =? 0)%N; cbn [app o_tx o_rel]; ufl.
  - (* PSetOpt *)
    nosend view_pub. cbn [op_add op_del]. pub_view. wnorm.
    destruct k; [inversion H; subst; cbn; ufl|]. destruct op; try (inversion H; subst; cbn; ufl).
    + destruct (_ || _); inversion H; subst; clear H; simp_p; [cbn; ufl|].
      rewrite o_tx_app, o_rel_app, o_tx_Free, o_rel_Free. cbn [o_tx o_rel].
      pose proof (resize_sum F n (pb_pipes s)) as R. unfold Fp in *. ufl.
    + destruct (_ <? _)%N; inversion H; subst; cbn; ufl.
  - nosend view_pub. inversion H; subst. pub_view. cbn. wnorm. ufl.
  - nosend view_pub. inversion H; subst. pub_view. cbn. wnorm. ufl.
  - nosend view_pub. inversion H; subst. pub_view. cbn. wnorm. ufl.
  - nosend view_pub. inversion H; subst. pub_view. cbn. wnorm. ufl.
Qed.

Lemma pub_clones_held s o s' outs : pub_step s o = (s', outs) -> clones_held view_pub s o outs.
Proof.
  intros H. apply clones_held_intro. intros k Hk.
  destruct o as [c a nb m|c a nb|a rv|p peer|p|p rv|p rv m|c op|c|c| |now];
    cbn [view_pub VPub.view v_clones VPub.clones] in Hk; try (destruct Hk; fail).
  apply in_map_iff in Hk. destruct Hk as [p [<- _]].
  right. left. exists a. split; [|apply send_key_self].
  cbn [pub_step] in H. inversion H; subst. apply in_or_app. right. right. left. reflexivity.
Qed.

Theorem pub_proto_law : proto_law view_pub pub_step PubInv pub_op_ok.
Proof.
  intros s o s' outs HI Hok H. split; [exact (pub_step_inv s o s' outs HI Hok H)|]. split.
  - apply law_sum_eq, pub_law_sum; assumption.
  - eapply pub_clones_held; eassumption.
Qed.

Lemma pub_inv_init : PubInv pub_init.
Proof. exact pub_init_inv. Qed.

(* a history that satisfies the contract: two pipes start, three sends fan out (direct, queued),
   transport completions (success, then failure), a received message, a receive attempt,
   an option change, a pipe close, the socket close *)
Example pub_ok_nonvacuous :
  ops_ok pub_step pub_op_ok pub_init
    [PPipeStart 1 PROTO_SUB; PPipeStart 2 PROTO_SUB;
     PSend None 10 false (mkPmsg [] [1%N]); PSend None 11 true (mkPmsg [] [2%N]); PSend None 10 false (mkPmsg [] [3%N]);
     PSendDone 1 0; PSetOpt None (OSendBuf 1); PSendDone 1 0; PSendDone 2 E_CLOSED;
     PRecvDone 1 0 (mkPmsg [] [9%N]); PRecv None 12 false; PPipeClose 2; PPipeClose 1; PSockClose].
Proof. vm_compute. intuition discriminate. Qed.

(* ================================================================== SUB *)
(* what one context stands for: its receive buffer *)
Definition cW (F : owner * key -> nat) (c : sctx) : nat := wsum (Fp F) (sc_lmq c).

Lemma sub_w_omega F s : w_omega F view_sub s = wsum (cW F) (sb_ctxs s).
Proof.
  unfold w_omega. cbn [view_sub VSub.view v_held v_tx v_att]. rewrite !wsum_nil, wsum_flat_map.
  unfold cW, Fp. lia.
Qed.

Lemma upd_ctx_notin k f cs : ~ In k (map sc_id cs) -> upd_ctx k f cs = cs.
Proof.
  unfold upd_ctx. induction cs as [|y l IH]; cbn [map]; intros Hn; [reflexivity|].
  destruct (cid_eqb (sc_id y) k) eqn:E; [exfalso; apply Hn; left; now apply cid_eqb_eq|].
  f_equal. apply IH. intros Hi. apply Hn. right. exact Hi.
Qed.
Lemma wsum_upd_ctx (G : sctx -> nat) k f cs c :
  NoDup (map sc_id cs) -> find_ctx k cs = Some c ->
  wsum G (upd_ctx k f cs) + G c = wsum G cs + G (f c).
Proof.
  induction cs as [|y l IH]; intros ND Fd; [discriminate|].
  cbn [map] in ND. inversion ND as [|? ? Hni ND']; subst.
  unfold find_ctx in Fd. cbn [find] in Fd. unfold upd_ctx. cbn [map]. fold (upd_ctx k f l).
  rewrite !wsum_cons. destruct (cid_eqb (sc_id y) k) eqn:E.
  - inversion Fd; subst y. apply cid_eqb_eq in E. rewrite upd_ctx_notin by (rewrite <- E; exact Hni). lia.
  - specialize (IH ND' Fd). lia.
Qed.
Lemma filter_ctx_notin k cs : ~ In k (map sc_id cs) -> filter (fun c => negb (cid_eqb (sc_id c) k)) cs = cs.
Proof.
  induction cs as [|y l IH]; cbn [map filter]; intros Hn; [reflexivity|].
  destruct (cid_eqb (sc_id y) k) eqn:E; [exfalso; apply Hn; left; now apply cid_eqb_eq|].
  cbn [negb]. f_equal. apply IH. intros Hi. apply Hn. right. exact Hi.
Qed.
Lemma wsum_filter_ctx (G : sctx -> nat) k cs c :
  NoDup (map sc_id cs) -> find_ctx k cs = Some c ->
  wsum G cs = G c + wsum G (filter (fun c => negb (cid_eqb (sc_id c) k)) cs).
Proof.
  induction cs as [|y l IH]; intros ND Fd; [discriminate|].
  cbn [map] in ND. inversion ND as [|? ? Hni ND']; subst.
  unfold find_ctx in Fd. cbn [find filter] in *. destruct (cid_eqb (sc_id y) k) eqn:E; cbn [negb].
  - inversion Fd; subst y. apply cid_eqb_eq in E. rewrite filter_ctx_notin by (rewrite <- E; exact Hni).
    now rewrite wsum_cons.
  - rewrite !wsum_cons, (IH ND' Fd). lia.
Qed.

(* the loop body of sub0_recv_cb for one context *)
Lemma ctx_arrive_sum F c m :
  cW F c + (if ctx_accepts c m then F (OProto, body m) else 0)
  = cW F (ctx_after c m) + wsum (Fp F) (ctx_dropped c m) + o_rel F (ctx_compl c m).
Proof.
  unfold ctx_after, ctx_dropped, ctx_compl. destruct (ctx_accepts c m); [|cbn; wnorm; lia].
  destruct (sc_rq c) as [|a rest].
  - destruct (lmq_full c).
    + destruct (sc_lmq c) as [|old r] eqn:Q; unfold cW; simp_c; rewrite ?Q; cbn [o_rel]; unfold Fp; wnorm; lia.
    + unfold cW; simp_c; cbn [o_rel]; unfold Fp; wnorm; lia.
  - unfold cW. simp_c. cbn [o_rel]. change (E_OK =? 0)%N with true. cbn iota. wnorm. lia.
Qed.
Lemma ctx_compl_tx F c m : o_tx F (ctx_compl c m) = 0.
Proof. unfold ctx_compl. destruct (ctx_accepts c m); [|reflexivity]. destruct (sc_rq c); reflexivity. Qed.
Lemma compl_tx F cs m : o_tx F (flat_map (fun c => ctx_compl c m) cs) = 0.
Proof. induction cs as [|c l IH]; [reflexivity|]. cbn [flat_map]. now rewrite o_tx_app, ctx_compl_tx, IH. Qed.
Lemma arrive_sum F cs m :
  wsum (cW F) cs + naccept cs m * F (OProto, body m)
  = wsum (cW F) (map (fun c => ctx_after c m) cs)
    + wsum (Fp F) (flat_map (fun c => ctx_dropped c m) cs)
    + o_rel F (flat_map (fun c => ctx_compl c m) cs).
Proof.
  unfold naccept. induction cs as [|c l IH]; [reflexivity|].
  pose proof (ctx_arrive_sum F c m) as P.
  cbn [map flat_map filter]. rewrite o_rel_app, wsum_app, !wsum_cons.
  destruct (ctx_accepts c m); cbn [length]; lia.
Qed.

Ltac sub_view := cbn [view_sub VSub.view v_clones v_dups v_rx VSub.dups]; unfold no_rx, no_keys.
Ltac ucw := cbn beta in *; unfold cW in *; simp_c.

Lemma sub_law_sum fixed s o s' outs : SInv s -> sub_step fixed s o = (s', outs) -> law_sum view_sub s o s' outs.
Proof.
  intros (I1 & I2 & I3) H F. cbv zeta.
  change (v_extra view_sub s o outs) with (@nil pmsg). cbn [map]. rewrite app_nil_r.
  change (v_clones view_sub s o) with (@nil key). cbn [app].
  rewrite !sub_w_omega.
  destruct o as [k a nb m|k a nb|a rv|p peer|p|p rv|p rv m|k op|k|k| |now]; cbn [sub_step] in H.
  - (* PSend: not supported, the message stays the caller's *)
    inversion H; subst; clear H. sub_view. cbn [s_take s_del op_add op_del o_tx o_rel]. rewrite !send_key_self.
    change (E_NOTSUP =? 0)%N with false. cbn iota. wnorm. ufl.
  - (* PRecv *)
    nosend view_sub. cbn [op_add op_del]. sub_view. wnorm.
    destruct (find_ctx k (sb_ctxs s)) as [c|] eqn:Fd; [|inversion H; subst; cbn; ufl].
    destruct (sc_lmq c) as [|m rest] eqn:Q.
    + destruct nb; inversion H; subst; clear H; simp_s; cbn [o_tx o_rel]; [ufl|].
      pose proof (wsum_upd_ctx (cW F) k (fun c => set_rq c (sc_rq c ++ [a])) _ c I2 Fd) as U. ucw. ufl.
    + inversion H; subst; clear H; simp_s. cbn [o_tx o_rel]. change (E_OK =? 0)%N with true. cbn iota.
      pose proof (wsum_upd_ctx (cW F) k (fun c => set_lmq c rest) _ c I2 Fd) as U. ucw. rewrite Q in U. unfold Fp in *. wnorm. ufl.
  - (* PCancel *)
    nosend view_sub. cbn [op_add op_del]. sub_view. wnorm.
    destruct (existsb _ _); inversion H; subst; clear H; simp_s; cbn [o_tx o_rel]; [|ufl].
    rewrite (wsum_map_same (cW F)) by reflexivity. ufl.
  - (* PPipeStart *)
    nosend view_sub. sub_view. destruct (negb _); inversion H; subst; cbn; wnorm; ufl.
  - nosend view_sub. inversion H; subst. sub_view. cbn. wnorm. ufl.
  - nosend view_sub. inversion H; subst. sub_view. cbn. wnorm. destruct (rv =? 0)%N; ufl.
  - (* PRecvDone: sub0_recv_cb *)
    nosend view_sub. cbn [op_add op_del]. sub_view. unfold no_rx.
    destruct (N.eqb_spec rv 0) as [->|Hrv]; cbn [negb andb] in *.
    2: { inversion H; subst. cbn. wnorm. ufl. }
    inversion H; subst s' outs; clear H. simp_s.
    rewrite !o_tx_app, !o_rel_app, o_tx_Free, o_rel_Free, compl_tx. cbn [o_tx o_rel].
    pose proof (arrive_sum F (sb_ctxs s) m) as A.
    pose proof (filter_len_le (fun c => ctx_accepts c m) (sb_ctxs s)) as Hle. fold (naccept (sb_ctxs s) m) in Hle.
    destruct (1 <? length (sb_ctxs s)) eqn:L1; cbn [orb].
    + rewrite wsum_const_map. fold (naccept (sb_ctxs s) m). cbn [o_tx o_rel]. unfold Fp in *. wnorm. ufl.
    + apply Nat.ltb_ge in L1. destruct (Nat.eqb_spec (naccept (sb_ctxs s) m) 0) as [N0|N0].
      * rewrite N0 in A. cbn [o_tx o_rel]. unfold Fp in *. wnorm. ufl.
      * assert (N1 : naccept (sb_ctxs s) m = 1) by ufl. rewrite N1 in A. cbn [o_tx o_rel]. unfold Fp in *. wnorm. ufl.
  - (* PSetOpt *)
    nosend view_sub. cbn [op_add op_del]. sub_view. wnorm.
    destruct (find_ctx k (sb_ctxs s)) as [c|] eqn:Fd; [|inversion H; subst; cbn; ufl].
    destruct op.
    + destruct k; [|destruct (_ <? _)%N]; inversion H; subst; cbn; ufl.
    + destruct (_ || _); inversion H; subst; clear H; simp_s; [cbn; ufl|].
      rewrite o_tx_app, o_rel_app, o_tx_Free, o_rel_Free. cbn [o_tx o_rel].
      pose proof (wsum_upd_ctx (cW F) k (fun c => mkSctx (sc_id c) (sc_topics c) (firstn n (sc_lmq c)) n (sc_rq c) (sc_prefnew c)) _ c I2 Fd) as U.
      ucw. rewrite (wsum_firstn_skipn (Fp F) n (sc_lmq c)) in U. ufl.
    + inversion H; subst; cbn; ufl.
    + inversion H; subst; cbn; ufl.
    + inversion H; subst; cbn; ufl.
    + inversion H; subst; cbn; ufl.
    + inversion H; subst; clear H; simp_s. cbn [o_tx o_rel].
      pose proof (wsum_upd_ctx (cW F) k (fun c => mkSctx (sc_id c) (sc_topics c) (sc_lmq c) (sc_cap c) (sc_rq c) b) _ c I2 Fd) as U.
      ucw. ufl.
    + destruct (has_topic t (sc_topics c)); inversion H; subst; clear H; simp_s; cbn [o_tx o_rel]; [ufl|].
      pose proof (wsum_upd_ctx (cW F) k (fun c => set_topics c (sc_topics c ++ [t])) _ c I2 Fd) as U. ucw. ufl.
    + destruct (negb (has_topic t (sc_topics c))); inversion H; subst; clear H; simp_s; [cbn; ufl|].
      rewrite o_tx_app, o_rel_app, o_tx_Free, o_rel_Free. cbn [o_tx o_rel].
      pose proof (wsum_upd_ctx (cW F) k
                    (fun c0 => set_lmq (set_topics c0 (remove_topic t (sc_topics c)))
                                 (filter (fun m => sub0_matches (remove_topic t (sc_topics c)) (pm_body m)) (sc_lmq c)))
                    _ c I2 Fd) as U.
      ucw. rewrite (wsum_filter_split (Fp F) (fun m => sub0_matches (remove_topic t (sc_topics c)) (pm_body m)) (sc_lmq c)) in U.
      ufl.
  - (* PCtxOpen *)
    nosend view_sub. inversion H; subst; clear H. simp_s. sub_view. cbn [op_add op_del o_tx o_rel]. wnorm.
    ucw. ufl.
  - (* PCtxClose *)
    nosend view_sub. cbn [op_add op_del]. sub_view. wnorm.
    destruct (find_ctx (Some k) (sb_ctxs s)) as [c|] eqn:Fd; inversion H; subst; clear H; simp_s; [|cbn; ufl].
    rewrite o_tx_app, o_rel_app, o_tx_Free, o_rel_Free, o_tx_fail, o_rel_fail.
    rewrite (wsum_filter_ctx (cW F) (Some k) _ c I2 Fd). unfold cW at 1. ufl.
  - (* PSockClose *)
    nosend view_sub. cbn [op_add op_del]. sub_view. wnorm.
    destruct (find_ctx None (sb_ctxs s)) as [c|] eqn:Fd; inversion H; subst; clear H; simp_s; [|cbn; ufl].
    rewrite o_tx_app, o_rel_app, o_tx_Free, o_rel_Free, o_tx_fail, o_rel_fail.
    pose proof (wsum_upd_ctx (cW F) None (fun c => set_lmq (set_rq c []) []) _ c I2 Fd) as U. ucw. wnorm. ufl.
  - nosend view_sub. inversion H; subst. sub_view. cbn. wnorm. ufl.
Qed.

Theorem sub_proto_law : forall fixed, proto_law view_sub (sub_step fixed) SInv sub_op_ok.
Proof.
  intros fixed s o s' outs HI Hok H. split; [exact (sub_step_inv fixed s o s' outs HI Hok H)|]. split.
  - apply law_sum_eq. eapply sub_law_sum; eassumption.
  - apply clones_held_none. reflexivity.
Qed.

Lemma sub_inv_init : SInv sub_init.
Proof. exact sub_init_inv. Qed.

(* a history that satisfies the contract: subscriptions, a pipe, a waiting receiver served by an
   arrival, a second context (so arrivals are duplicated), buffered arrivals, receives, a refused
   send, option changes (resize, unsubscribe), a cancel, context close and socket close *)
Example sub_ok_nonvacuous : forall fixed,
  ops_ok (sub_step fixed) sub_op_ok sub_init
    [PSetOpt None (OSub [1%N]); PPipeStart 1 PROTO_PUB; PRecv None 10 false;
     PRecvDone 1 0 (mkPmsg [] [1%N; 2%N]); PCtxOpen 5; PSetOpt (Some 5%N) (OSub []);
     PRecvDone 1 0 (mkPmsg [] [1%N; 3%N]); PRecvDone 1 0 (mkPmsg [] [1%N; 4%N]); PRecvDone 1 0 (mkPmsg [] [7%N]);
     PRecv (Some 5%N) 11 true; PSend None 12 false (mkPmsg [] [8%N]);
     PSetOpt None (ORecvBuf 1); PSetOpt (Some 5%N) (OUnsub []); PRecv (Some 5%N) 13 false; PCancel 13 E_CANCELED;
     PCtxClose 5; PPipeClose 1; PSockClose].
Proof. intros []; vm_compute; intuition discriminate. Qed.

(* ================================================================== raw SUB *)
Lemma xsub_w_omega F s : w_omega F view_xsub s = wsum (Fp F) (xs_q s).
Proof. unfold w_omega. cbn [view_xsub VXsub.view v_held v_tx v_att]. rewrite !wsum_nil. unfold Fp. lia. Qed.

(* nni_msgq_run_getq: every message that leaves the queue is handed to a reader *)
Lemma run_getq_sum F : forall q rq q2 rq2 outs, run_getq q rq = (q2, rq2, outs) ->
  wsum (Fp F) q = wsum (Fp F) q2 + o_rel F outs /\ o_tx F outs = 0.
Proof.
  induction q as [|m q IH]; intros rq q2 rq2 outs H; cbn [run_getq] in H.
  - inversion H; subst. cbn. split; lia.
  - destruct rq as [|a rq]; [inversion H; subst; cbn; split; lia|].
    destruct (run_getq q rq) as [[q3 rq3] o3] eqn:E. inversion H; subst; clear H.
    destruct (IH _ _ _ _ E) as [A B]. cbn [o_tx o_rel]. change (E_OK =? 0)%N with true. cbn iota.
    rewrite wsum_cons. unfold Fp at 1. split; lia.
Qed.

Ltac xsub_view := cbn [view_xsub VXsub.view v_clones v_dups v_rx]; unfold no_rx, no_keys.

Lemma xsub_law_sum mf rf s o s' outs : xsub_step mf rf s o = (s', outs) -> law_sum view_xsub s o s' outs.
Proof.
  intros H F. cbv zeta.
  change (v_clones view_xsub s o ++ v_dups view_xsub s o) with (@nil key). rewrite wsum_nil.
  change (v_extra view_xsub s o outs) with (@nil pmsg). cbn [map]. rewrite app_nil_r.
  rewrite !xsub_w_omega.
  destruct o as [k a nb m|k a nb|a rv|p peer|p|p rv|p rv m|k op|k|k| |now]; cbn [xsub_step] in H.
  - (* PSend: not supported, the message stays the caller's *)
    inversion H; subst; clear H. cbn [s_take s_del op_add op_del o_tx o_rel]. rewrite !send_key_self.
    change (E_NOTSUP =? 0)%N with false. cbn iota. ufl.
  - (* PRecv: nni_msgq_aio_get *)
    nosend view_xsub. cbn [op_add op_del].
    destruct (nb && _); [inversion H; subst; cbn; ufl|].
    destruct (run_getq (xs_q s) (xs_rq s ++ [a])) as [[q2 rq2] o2] eqn:E. inversion H; subst; clear H. simp_x.
    destruct (run_getq_sum F _ _ _ _ _ E) as [A B]. ufl.
  - (* PCancel *)
    nosend view_xsub. cbn [op_add op_del]. destruct (has_id a (xs_rq s)); inversion H; subst; simp_x; cbn; ufl.
  - nosend view_xsub. cbn [op_add op_del]. destruct (negb _); inversion H; subst; cbn; ufl.
  - nosend view_xsub. inversion H; subst. cbn. ufl.
  - nosend view_xsub. inversion H; subst. cbn. wnorm. destruct (rv =? 0)%N; ufl.
  - (* PRecvDone: nni_msgq_tryput *)
    nosend view_xsub. cbn [op_add op_del]. xsub_view.
    destruct (N.eqb_spec rv 0) as [->|Hrv]; cbn [negb] in H; [|inversion H; subst; cbn; ufl].
    destruct (xs_closed s); [inversion H; subst; cbn; ufl|].
    destruct (xs_rq s) as [|a rest].
    + destruct (length (xs_q s) <? xs_cap s); inversion H; subst; clear H; simp_x; cbn [o_tx o_rel]; unfold Fp; wnorm; ufl.
    + inversion H; subst; clear H; simp_x. cbn [o_tx o_rel]. change (E_OK =? 0)%N with true. cbn iota. ufl.
  - (* PSetOpt *)
    nosend view_xsub. cbn [op_add op_del].
    destruct k; [inversion H; subst; cbn; ufl|]. destruct op; try (inversion H; subst; cbn; ufl).
    + destruct (_ <? _)%N; inversion H; subst; cbn; ufl.
    + (* nni_msgq_resize *)
      destruct (_ <? _)%N; [inversion H; subst; cbn; ufl|].
      pose proof (wsum_firstn_skipn (Fp F) (length (xs_q s) - (n + 1)) (xs_q s)) as S.
      destruct rf.
      * destruct (run_getq (skipn (length (xs_q s) - (n + 1)) (xs_q s)) (xs_rq s)) as [[q2 rq2] o2] eqn:E.
        inversion H; subst; clear H. simp_x. destruct (run_getq_sum F _ _ _ _ _ E) as [A B].
        rewrite !o_tx_app, !o_rel_app, o_tx_Free, o_rel_Free. cbn [o_tx o_rel]. unfold Fp in *. ufl.
      * inversion H; subst; clear H. simp_x.
        rewrite !o_tx_app, !o_rel_app, o_tx_Free, o_rel_Free. cbn [o_tx o_rel]. unfold Fp in *. ufl.
  - nosend view_xsub. inversion H; subst. cbn. ufl.
  - nosend view_xsub. inversion H; subst. cbn. ufl.
  - (* PSockClose: nni_msgq_close *)
    nosend view_xsub. inversion H; subst; clear H. simp_x. cbn [op_add op_del].
    rewrite !o_tx_app, !o_rel_app, o_tx_Free, o_rel_Free, o_tx_fail, o_rel_fail. unfold Fp. wnorm. ufl.
  - nosend view_xsub. inversion H; subst. cbn. ufl.
Qed.

Definition XsubInv (s : xsub) : Prop := True.
Definition xsub_op_ok (s : xsub) (o : pop) : Prop := True.

Theorem xsub_proto_law : forall mq_fixed rs_fixed,
  proto_law view_xsub (xsub_step mq_fixed rs_fixed) XsubInv xsub_op_ok.
Proof.
  intros mf rf s o s' outs _ _ H. split; [exact I|]. split.
  - apply law_sum_eq. eapply xsub_law_sum; eassumption.
  - apply clones_held_none. reflexivity.
Qed.

Lemma xsub_inv_init : XsubInv xsub_init.
Proof. exact I. Qed.

(* the contract is empty: every history satisfies it; one with a pipe, a waiting reader served,
   buffered and discarded arrivals, receives, a refused send, a resize, a cancel and the close *)
Example xsub_ok_nonvacuous : forall mq_fixed rs_fixed,
  ops_ok (xsub_step mq_fixed rs_fixed) xsub_op_ok xsub_init
    [PPipeStart 1 PROTO_PUB; PRecv None 10 false; PRecvDone 1 0 (mkPmsg [] [1%N]);
     PRecvDone 1 0 (mkPmsg [] [2%N]); PRecvDone 1 0 (mkPmsg [] [3%N]); PSetOpt None (ORecvBuf 4);
     PRecvDone 1 0 (mkPmsg [] [4%N]); PRecv None 11 true; PSend None 12 false (mkPmsg [] [5%N]);
     PSetOpt None (ORecvBuf 0); PRecv None 13 false; PRecv None 14 false; PCancel 14 E_CANCELED;
     PPipeClose 1; PSockClose].
Proof. intros mf rf. cbn [ops_ok]. unfold xsub_op_ok. tauto. Qed.

Print Assumptions pub_proto_law.
Print Assumptions sub_proto_law.
Print Assumptions xsub_proto_law.

(* ================================================================== Part 2: after close the protocol owns nothing *)
From Coq Require Import Permutation.
From NngV Require Import Ledger.LedgerThms.

(* ------------------------------ PUB ------------------------------ *)
(* the socket core's close sequence as pub.c sees it: every pipe the state knows gets its
   pipe_close (the pipe stays in pb_pipes, flagged closed, and keeps the message on its aio_send),
   the transport send still in flight on it fails (PSendDone p E_CLOSED), then the socket's close *)
Definition pub_close_script (s : pub) : list pop :=
  flat_map (fun p => PPipeClose (pp_id p)
                     :: match pp_tx p with Some _ => [PSendDone (pp_id p) E_CLOSED] | None => [] end)
           (pb_pipes s)
  ++ [PSockClose].

Definition pub_closing (o : pop) : Prop :=
  match o with PPipeClose _ | PSockClose => True | PSendDone _ rv => rv = E_CLOSED | _ => False end.
(* pipe i has a message on its aio_send *)
Definition txp (s : pub) (i : pid) : Prop := exists p, In p (pb_pipes s) /\ pp_id p = i /\ pp_tx p <> None.

Lemma pub_closing_ok ops : Forall pub_closing ops -> forall s, ops_ok pub_step pub_op_ok s ops.
Proof.
  induction 1 as [|o ops Ho _ IH]; intros s; cbn [ops_ok]; [exact I|]. split; [|apply IH].
  destruct o; cbn [pub_closing pub_op_ok] in *; try exact I; contradiction.
Qed.
Lemma in_upd_pipe id f l p' : In p' (upd_pipe id f l) ->
  exists p, In p l /\ ((pp_id p <> id /\ p' = p) \/ (pp_id p = id /\ p' = f p)).
Proof.
  unfold upd_pipe. intros H. apply in_map_iff in H as (p & E & Hin). exists p. split; [exact Hin|].
  destruct (N.eqb_spec (pp_id p) id); [right|left]; auto.
Qed.
(* a closing step puts no message on any aio_send, and the failing completion takes it off *)
Lemma pub_closing_step s o i : pub_closing o -> txp (fst (pub_step s o)) i -> txp s i /\ o <> PSendDone i E_CLOSED.
Proof.
  intros Hc (p' & Hin & Hid & Htx).
  destruct o as [k a nb m|k a nb|a rv|p peer|p|p rv|p rv m|k op|k|k| |now]; cbn [pub_closing] in Hc; try contradiction;
    cbn [pub_step] in Hin.
  - destruct (find_pipe p (pb_pipes s)); cbn [fst pb_pipes] in Hin.
    + apply in_upd_pipe in Hin as (q & Hq & [[_ ->]|[_ ->]]); simp_p; (split; [exists q; auto|discriminate]).
    + split; [exists p'; auto|discriminate].
  - subst rv. change (negb (E_CLOSED =? 0)%N) with true in Hin.
    destruct (find_pipe p (pb_pipes s)) eqn:Fd; cbn [fst pb_pipes] in Hin.
    + apply in_upd_pipe in Hin as (q & Hq & [[Hne ->]|[_ ->]]); simp_p.
      * split; [exists q; auto|]. intros E. inversion E. congruence.
      * exfalso. apply Htx. reflexivity.
    + split; [exists p'; auto|]. intros E. inversion E as [Ep].
      apply (find_pipe_none _ _ Fd). rewrite Ep, <- Hid. apply in_map, Hin.
  - cbn [fst] in Hin. split; [exists p'; auto|discriminate].
Qed.
Lemma pub_closing_run ops : Forall pub_closing ops -> forall s i,
  txp (run pub_step s ops) i -> txp s i /\ ~ In (PSendDone i E_CLOSED) ops.
Proof.
  induction 1 as [|o ops Ho _ IH]; intros s i H; cbn [run] in H; [split; [exact H|intros []]|].
  destruct (IH _ _ H) as [H1 H2]. destruct (pub_closing_step s o i Ho H1) as [H3 H4].
  split; [exact H3|]. intros [E|E]; [apply H4; exact E|exact (H2 E)].
Qed.
Lemma ptx_nil l : (forall p, In p l -> pp_tx p = None) -> ptx l = [].
Proof.
  induction l as [|p l IH]; intros H; [reflexivity|]. unfold ptx. cbn [flat_map]. fold (ptx l).
  rewrite (H p) by (left; reflexivity). rewrite IH by (intros q Hq; apply H; right; exact Hq). reflexivity.
Qed.
Lemma pub_script_closing s : Forall pub_closing (pub_close_script s).
Proof.
  apply Forall_forall. intros o Hin. unfold pub_close_script in Hin. apply in_app_or in Hin as [Hin|[<-|[]]]; [|exact I].
  apply in_flat_map in Hin as (p & _ & [<-|Hin]); [exact I|].
  destruct (pp_tx p); [destruct Hin as [<-|[]]; reflexivity|destruct Hin].
Qed.
Lemma pub_script_fails s i : txp s i -> In (PSendDone i E_CLOSED) (pub_close_script s).
Proof.
  intros (p & Hin & Hid & Htx). unfold pub_close_script. apply in_or_app. left. apply in_flat_map. exists p. split; [exact Hin|].
  right. destruct (pp_tx p); [left; now rewrite Hid|congruence].
Qed.

Theorem pub_close_drains : forall s, PubInv s ->
  ops_ok pub_step pub_op_ok s (pub_close_script s) /\ drained view_pub (run pub_step s (pub_close_script s)).
Proof.
  intros s _. split; [apply pub_closing_ok, pub_script_closing|].
  split; [|split; [reflexivity|apply Permutation_refl]].
  change (v_tx view_pub (run pub_step s (pub_close_script s))) with (ptx (pb_pipes (run pub_step s (pub_close_script s)))).
  apply ptx_nil. intros p Hp. destruct (pp_tx p) as [m|] eqn:T; [exfalso|reflexivity].
  assert (X : txp (run pub_step s (pub_close_script s)) (pp_id p)) by (exists p; rewrite T; repeat split; auto; discriminate).
  destruct (pub_closing_run _ (pub_script_closing s) s _ X) as [X1 X2]. apply X2, pub_script_fails, X1.
Qed.

(* ------------------------------ SUB ------------------------------ *)
(* sub.c's state records no pipe and no transport send; every context other than the socket's own
   is closed (PCtxClose), then the socket's close, which closes and finishes the master context *)
Definition sub_close_script (s : sub) : list pop :=
  flat_map (fun c => match sc_id c with Some k => [PCtxClose k] | None => [] end) (sb_ctxs s) ++ [PSockClose].

Definition sub_closing (o : pop) : Prop := match o with PCtxClose _ | PSockClose => True | _ => False end.
Lemma sub_closing_ok fixed ops : Forall sub_closing ops -> forall s, ops_ok (sub_step fixed) sub_op_ok s ops.
Proof.
  induction 1 as [|o ops Ho _ IH]; intros s; cbn [ops_ok]; [exact I|]. split; [|apply IH].
  destruct o; cbn [sub_closing sub_op_ok] in *; try exact I; contradiction.
Qed.
Lemma sub_script_closing s : Forall sub_closing (sub_close_script s).
Proof.
  apply Forall_forall. intros o Hin. unfold sub_close_script in Hin. apply in_app_or in Hin as [Hin|[<-|[]]]; [|exact I].
  apply in_flat_map in Hin as (c & _ & Hin). destruct (sc_id c); [destruct Hin as [<-|[]]; exact I|destruct Hin].
Qed.

Theorem sub_close_drains : forall fixed s, SInv s ->
  ops_ok (sub_step fixed) sub_op_ok s (sub_close_script s) /\
  drained view_sub (run (sub_step fixed) s (sub_close_script s)).
Proof.
  intros fixed s _. split; [apply sub_closing_ok, sub_script_closing|].
  split; [reflexivity|split; [reflexivity|apply Permutation_refl]].
Qed.

(* ------------------------------ raw SUB ------------------------------ *)
(* xsub.c's state records no pipe, no transport send and no context: the socket's close (nni_msgq_close) *)
Definition xsub_close_script (s : xsub) : list pop := [PSockClose].

Theorem xsub_close_drains : forall mq_fixed rs_fixed s, XsubInv s ->
  ops_ok (xsub_step mq_fixed rs_fixed) xsub_op_ok s (xsub_close_script s) /\
  drained view_xsub (run (xsub_step mq_fixed rs_fixed) s (xsub_close_script s)).
Proof.
  intros mf rf s _. split; [cbn [xsub_close_script ops_ok]; unfold xsub_op_ok; tauto|].
  split; [reflexivity|split; [reflexivity|apply Permutation_refl]].
Qed.

Print Assumptions pub_close_drains.
Print Assumptions sub_close_drains.
Print Assumptions xsub_close_drains.
