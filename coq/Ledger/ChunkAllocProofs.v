(* ChunkAllocProofs.v -- C03: for every history of message operations (with any choice of failing
   allocations) the allocator events of Ledger/ChunkAlloc.v are acceptable to the allocator's
   books: every id is allocated once, every free / hand-over names a live block WITH THE SIZE IT
   WAS ALLOCATED WITH, and the books always equal what the application's slots hold -- so they
   are empty once every message has been freed or sent.  This needs the source's order in
   nni_chunk_grow (free, then overwrite the cap field); with the cap field overwritten first
   the statement is false (witness at the end). *)
From Coq Require Import List Arith NArith Bool Lia Permutation.
From NngV Require Import Ledger.ChunkAlloc.
Import ListNotations.
Local Open Scope N_scope.

Definition sane (cf : ccfg) : Prop := cf_early1 cf = false /\ cf_early2 cf = false.

Definition idlt (nx : nat) (t : tab) : Prop := Forall (fun p => (fst p < nx)%nat) t.

Definition buf_ok (nx : nat) (bf : option (nat * N)) (cp : N) : Prop :=
  match bf with Some (b, a) => (b < nx)%nat /\ cp = a /\ a <> 0 | None => True end.
Definition chunk_ok (nx : nat) (c : chunk) : Prop := buf_ok nx (k_buf c) (k_cap c).
Definition slot_ok (nx : nat) (o : option msg) : Prop :=
  match o with Some m => (g_sb m < nx)%nat /\ chunk_ok nx (g_body m) | None => True end.
Definition st_ok (st : mstate) : Prop := Forall (slot_ok (s_next st)) (s_slots st).

Definition EFp (p : nat * N) : aev := EF (fst p) (snd p).
Definition EXp (p : nat * N) : aev := EX (fst p) (snd p).

(* ------------------------------------------------------------------ the books *)
Lemma take_in : forall b n t, In (b, n) t -> exists t', take b n t = Some t' /\ Permutation t ((b, n) :: t').
Proof.
  induction t as [|[b' n'] r IH]; simpl; intros H; [contradiction|].
  destruct (Nat.eqb b b' && (n =? n')) eqn:E.
  - apply andb_true_iff in E. destruct E as [E1 E2].
    apply Nat.eqb_eq in E1. apply N.eqb_eq in E2. subst. eexists; split; [reflexivity|apply Permutation_refl].
  - destruct H as [H|H].
    + inversion H; subst. rewrite Nat.eqb_refl, N.eqb_refl in E. discriminate.
    + destruct (IH H) as [t' [Ht Hp]]. rewrite Ht. eexists; split; [reflexivity|].
      eapply perm_trans; [apply perm_skip; exact Hp|apply perm_swap].
Qed.

Lemma take_sound : forall b n t t', take b n t = Some t' -> In (b, n) t.
Proof.
  induction t as [|[b' n'] r IH]; simpl; intros t' H; [discriminate|].
  destruct (Nat.eqb b b' && (n =? n')) eqn:E.
  - apply andb_true_iff in E. destruct E as [E1 E2].
    apply Nat.eqb_eq in E1. apply N.eqb_eq in E2. subst. now left.
  - destruct (take b n r) eqn:Et; [|discriminate]. right. eapply IH; reflexivity.
Qed.

Lemma has_id_fresh : forall nx t, idlt nx t -> has_id nx t = false.
Proof.
  unfold idlt, has_id. induction t as [|p r IH]; simpl; intros H; [reflexivity|].
  inversion H; subst. rewrite (IH H3), orb_false_r. apply Nat.eqb_neq. lia.
Qed.

Lemma idlt_perm : forall nx t t', Permutation t t' -> idlt nx t -> idlt nx t'.
Proof. unfold idlt. intros nx t t' P H. rewrite Forall_forall in *. intros x Hx. apply H. eapply Permutation_in; [apply Permutation_sym; exact P|exact Hx]. Qed.

Lemma idlt_mono : forall nx nx' t, (nx <= nx')%nat -> idlt nx t -> idlt nx' t.
Proof. unfold idlt. intros nx nx' t L H. rewrite Forall_forall in *. intros x Hx. specialize (H x Hx). lia. Qed.

Lemma idlt_app : forall nx a b, idlt nx (a ++ b) <-> idlt nx a /\ idlt nx b.
Proof. unfold idlt. intros. apply Forall_app. Qed.

Lemma treplay_app : forall e1 e2 t, treplay t (e1 ++ e2) = match treplay t e1 with Some t' => treplay t' e2 | None => None end.
Proof. induction e1 as [|e r IH]; simpl; intros; [reflexivity|]. destruct (tstep t e); [apply IH|reflexivity]. Qed.

(* an allocation with an unused id *)
Lemma replay_alloc : forall K nx n t X,
  (forall b m t, tstep t (K b m) = if has_id b t then None else Some ((b, m) :: t)) ->
  Permutation t X -> idlt nx t ->
  exists t', treplay t [K nx n] = Some t' /\ Permutation t' ((nx, n) :: X) /\ idlt (S nx) t'.
Proof.
  intros K nx n t X HK P I. simpl. rewrite HK, (has_id_fresh _ _ I).
  eexists; split; [reflexivity|]. split; [apply perm_skip; exact P|].
  constructor; [simpl; lia|]. eapply idlt_mono; [|exact I]. lia.
Qed.

(* frees / hand-overs of blocks that are in the books with exactly those sizes *)
Lemma replay_release : forall K (HK : forall b m t, tstep t (K b m) = take b m t) nx B t X,
  Permutation t (B ++ X) -> idlt nx t ->
  exists t', treplay t (map (fun p => K (fst p) (snd p)) B) = Some t' /\ Permutation t' X /\ idlt nx t'.
Proof.
  intros K HK nx. induction B as [|[b n] B IH]; simpl; intros t X P I.
  - eexists; split; [reflexivity|]. split; assumption.
  - rewrite HK.
    destruct (take_in b n t) as [t1 [Ht Hp]].
    { eapply Permutation_in; [apply Permutation_sym; exact P|now left]. }
    rewrite Ht.
    assert (P1 : Permutation t1 (B ++ X)).
    { eapply Permutation_cons_inv with (a := (b, n)). eapply perm_trans; [apply Permutation_sym; exact Hp|exact P]. }
    assert (I1 : idlt nx t1).
    { pose proof (idlt_perm _ _ _ Hp I) as H. inversion H; assumption. }
    apply IH; assumption.
Qed.

Lemma tstep_EF : forall b m t, tstep t (EF b m) = take b m t. Proof. reflexivity. Qed.
Lemma tstep_EX : forall b m t, tstep t (EX b m) = take b m t. Proof. reflexivity. Qed.
Lemma tstep_EA : forall b m t, tstep t (EA b m) = if has_id b t then None else Some ((b, m) :: t). Proof. reflexivity. Qed.
Lemma tstep_EI : forall b m t, tstep t (EI b m) = if has_id b t then None else Some ((b, m) :: t). Proof. reflexivity. Qed.

(* ------------------------------------------------------------------ chunk operations *)
Definition blk (bf : option (nat * N)) : tab := match bf with Some p => [p] | None => [] end.

Lemma cblocks_blk : forall c, cblocks c = blk (k_buf c).
Proof. intros c. unfold cblocks, blk. destruct (k_buf c) as [[b a]|]; reflexivity. Qed.

(* what a chunk operation may do: nothing to the buffer, or a new block and the old one freed
   with its own size *)
Definition cspec (nx : nat) (bf : option (nat * N)) (r : cres) : Prop :=
  match r with
  | COk c' evs nx' =>
      chunk_ok nx' c' /\
      ((evs = [] /\ k_buf c' = bf /\ nx' = nx) \/
       (exists asz, nx' = S nx /\ k_buf c' = Some (nx, asz) /\ evs = EA nx asz :: map EFp (blk bf)))
  | _ => True
  end.

Lemma free_buf_blk : forall nx c, chunk_ok nx c -> free_buf c (k_cap c) = map EFp (blk (k_buf c)).
Proof.
  unfold chunk_ok, buf_ok, free_buf, blk. intros nx c H. destruct (k_buf c) as [[b a]|]; [|reflexivity].
  destruct H as [_ [H _]]. rewrite H. reflexivity.
Qed.

Lemma grow_spec : forall cf nx fail c newsz hw, sane cf -> chunk_ok nx c -> cspec nx (k_buf c) (grow cf nx fail c newsz hw).
Proof.
  intros cf nx fail c newsz hw [S1 S2] Hc. unfold grow. rewrite S1, S2.
  set (nsz := N.max newsz (k_len c)).
  assert (NP : cspec nx (k_buf c)
    (if (if cf_null_ge cf then k_cap c <=? nsz + hw else k_cap c <? nsz + hw)
     then if (nsz + hw =? 0) || fail then CNomem
          else COk (mkChunk (Some (nx, nsz + hw)) (nsz + hw) (Some hw) (k_len c)) (EA nx (nsz + hw) :: free_buf c (k_cap c)) (S nx)
     else COk (mkChunk (k_buf c) (k_cap c) (Some hw) (k_len c)) [] nx)).
  { destruct (if cf_null_ge cf then k_cap c <=? nsz + hw else k_cap c <? nsz + hw).
    - destruct ((nsz + hw =? 0) || fail) eqn:E; [exact I|].
      apply orb_false_iff in E. destruct E as [E _]. apply N.eqb_neq in E.
      simpl. split.
      + unfold chunk_ok, buf_ok; simpl. repeat split; [lia|exact E].
      + right. eexists; repeat split. f_equal. eapply free_buf_blk; exact Hc.
    - simpl. split; [exact Hc|left; repeat split]. }
  destruct (k_ptr c) as [off|]; [|exact NP].
  destruct (off <? k_cap c); [|exact NP].
  destruct ((nsz + N.max hw off <=? k_cap c) && (N.max hw off <=? off)).
  - simpl. split; [exact Hc|left; repeat split].
  - set (asz := N.max nsz (k_cap c - off) + N.max hw off).
    destruct ((asz =? 0) || fail) eqn:E; [exact I|].
    apply orb_false_iff in E. destruct E as [E _]. apply N.eqb_neq in E.
    simpl. split.
    + unfold chunk_ok, buf_ok; simpl. repeat split; [lia|exact E].
    + right. eexists; repeat split. f_equal. eapply free_buf_blk; exact Hc.
Qed.

(* operations that keep buffer and cap field *)
Lemma cspec_keep : forall nx c c', chunk_ok nx c -> k_buf c' = k_buf c -> k_cap c' = k_cap c -> cspec nx (k_buf c) (COk c' [] nx).
Proof. intros nx c c' H E1 E2. simpl. split; [unfold chunk_ok; rewrite E1, E2; exact H|left; repeat split; exact E1]. Qed.

(* re-dressing the result of grow (pointer / length only) *)
Lemma cspec_dress : forall nx bf r (g : chunk -> chunk),
  (forall c, k_buf (g c) = k_buf c /\ k_cap (g c) = k_cap c) ->
  cspec nx bf r ->
  cspec nx bf (match r with COk c' evs nx' => COk (g c') evs nx' | r => r end).
Proof.
  intros nx bf r g Hg H. destruct r as [c' evs nx'| |]; simpl in *; try exact I.
  destruct (Hg c') as [G1 G2]. destruct H as [Hc H]. split.
  - unfold chunk_ok. rewrite G1, G2. exact Hc.
  - rewrite G1. exact H.
Qed.

Lemma cappend_spec : forall cf nx fail c n, sane cf -> chunk_ok nx c -> cspec nx (k_buf c) (cappend cf nx fail c n).
Proof.
  intros cf nx fail c n Hs Hc. unfold cappend. destruct (n =? 0).
  - apply cspec_keep; auto.
  - pose proof (grow_spec cf nx fail c (n + k_len c) 0 Hs Hc) as G.
    apply (cspec_dress nx (k_buf c) _ (fun c' => mkChunk (k_buf c') (k_cap c') (match k_ptr c' with None => Some 0 | p => p end) (k_len c' + n))) in G.
    + destruct (grow cf nx fail c (n + k_len c) 0); exact G.
    + intros; split; reflexivity.
Qed.

Lemma cinsert_spec : forall cf nx fail c n, sane cf -> chunk_ok nx c -> cspec nx (k_buf c) (cinsert cf nx fail c n).
Proof.
  intros cf nx fail c n Hs Hc. unfold cinsert.
  set (off := match k_ptr c with Some o => o | None => 0 end).
  set (c0 := mkChunk (k_buf c) (k_cap c) (Some off) (k_len c)).
  assert (GP : cspec nx (k_buf c)
     match grow cf nx fail c0 0 n with
     | COk c' evs nx' => COk (mkChunk (k_buf c') (k_cap c') (match k_ptr c' with Some o => Some (o - n) | None => None end) (k_len c' + n)) evs nx'
     | r => r end).
  { assert (H0 : chunk_ok nx c0) by exact Hc.
    pose proof (grow_spec cf nx fail c0 0 n Hs H0) as G. change (k_buf c0) with (k_buf c) in G.
    apply (cspec_dress nx (k_buf c) _ (fun c' => mkChunk (k_buf c') (k_cap c') (match k_ptr c' with Some o => Some (o - n) | None => None end) (k_len c' + n))) in G.
    - destruct (grow cf nx fail c0 0 n); exact G.
    - intros; split; reflexivity. }
  destruct (off <? k_cap c); [|exact GP].
  destruct (n <=? off); [apply cspec_keep; auto|].
  destruct (k_len c + n + cf_pad cf <=? k_cap c); [apply cspec_keep; auto|exact GP].
Qed.

Lemma ctrim_spec : forall nx c n, chunk_ok nx c -> cspec nx (k_buf c) (ctrim c n nx).
Proof. intros. unfold ctrim. destruct (k_len c <? n); [exact I|apply cspec_keep; auto]. Qed.
Lemma cchop_spec : forall nx c n, chunk_ok nx c -> cspec nx (k_buf c) (cchop c n nx).
Proof. intros. unfold cchop. destruct (k_len c <? n); [exact I|apply cspec_keep; auto]. Qed.

Lemma cfree_blk : forall nx c, chunk_ok nx c -> cfree c = map EFp (cblocks c).
Proof.
  intros nx c H. unfold cfree. rewrite cblocks_blk. destruct (k_cap c =? 0) eqn:E.
  - unfold chunk_ok, buf_ok in H. unfold blk. destruct (k_buf c) as [[b a]|]; [|reflexivity].
    apply N.eqb_eq in E. destruct H as [_ [H1 H2]]. congruence.
  - eapply free_buf_blk; exact H.
Qed.

Lemma give_blk : forall nx c, chunk_ok nx c -> give_buf c = map EXp (cblocks c).
Proof.
  unfold chunk_ok, buf_ok, give_buf, cblocks. intros nx c H. destruct (k_buf c) as [[b a]|]; [|reflexivity].
  destruct H as [_ [H _]]. rewrite H. reflexivity.
Qed.

(* the books follow a chunk operation: t = blocks of the chunk ++ X before, the same after *)
Lemma cspec_replay : forall nx c c' evs nx' t X,
  cspec nx (k_buf c) (COk c' evs nx') ->
  Permutation t (cblocks c ++ X) -> idlt nx t ->
  exists t', treplay t evs = Some t' /\ Permutation t' (cblocks c' ++ X) /\ idlt nx' t' /\ (nx <= nx')%nat /\ chunk_ok nx' c'.
Proof.
  intros nx c c' evs nx' t X [Hc [[E1 [E2 E3]]|[asz [E1 [E2 E3]]]]] P I.
  - subst. exists t. simpl. rewrite !cblocks_blk, E2 in *. repeat split; auto.
  - subst nx' evs.
    destruct (replay_alloc EA nx asz t (cblocks c ++ X) tstep_EA P I) as [t1 [R1 [P1 I1]]].
    change (EA nx asz :: map EFp (blk (k_buf c))) with ([EA nx asz] ++ map EFp (blk (k_buf c))).
    rewrite treplay_app, R1.
    assert (P1' : Permutation t1 (blk (k_buf c) ++ ((nx, asz) :: X))).
    { rewrite <- cblocks_blk. eapply perm_trans; [exact P1|]. apply Permutation_middle. }
    destruct (replay_release EF tstep_EF (S nx) (blk (k_buf c)) t1 _ P1' I1) as [t2 [R2 [P2 I2]]].
    exists t2. split; [exact R2|]. rewrite cblocks_blk, E2. simpl. repeat split; auto.
Qed.

(* ------------------------------------------------------------------ slots *)
Lemma owned_put : forall cf l k o v, nth_error l k = Some o ->
  Permutation (owned cf l) (oblocks cf o ++ owned cf (put k None l)) /\
  Permutation (owned cf (put k v l)) (oblocks cf v ++ owned cf (put k None l)).
Proof.
  intros cf. induction l as [|x r IH]; intros k o v H; destruct k; simpl in *; try discriminate.
  - inversion H; subst. split; apply Permutation_refl.
  - destruct (IH k o v H) as [P1 P2]. split.
    + eapply perm_trans; [apply Permutation_app_head; exact P1|].
      rewrite !app_assoc. apply Permutation_app_tail. apply Permutation_app_comm.
    + eapply perm_trans; [apply Permutation_app_head; exact P2|].
      rewrite !app_assoc. apply Permutation_app_tail. apply Permutation_app_comm.
Qed.

Lemma get_nth : forall k l m, get k l = Some m -> nth_error l k = Some (Some m).
Proof. unfold get. intros k l m H. destruct (nth_error l k) as [[x|]|]; congruence. Qed.

Lemma Forall_put : forall A (P : A -> Prop) l k v, Forall P l -> P v -> Forall P (put k v l).
Proof.
  induction l as [|x r IH]; intros k v H Hv; destruct k; simpl; auto; inversion H; subst; constructor; auto.
Qed.

Lemma buf_ok_mono : forall nx nx' bf cp, (nx <= nx')%nat -> buf_ok nx bf cp -> buf_ok nx' bf cp.
Proof. unfold buf_ok. intros nx nx' [[b a]|] cp L H; [|exact I]. destruct H as [H1 H2]. split; [lia|exact H2]. Qed.

Lemma slot_ok_mono : forall nx nx' o, (nx <= nx')%nat -> slot_ok nx o -> slot_ok nx' o.
Proof.
  unfold slot_ok, chunk_ok. intros nx nx' [m|] L H; [|exact I]. destruct H as [H1 H2].
  split; [lia|eapply buf_ok_mono; eauto].
Qed.

Lemma slots_mono : forall nx nx' l, (nx <= nx')%nat -> Forall (slot_ok nx) l -> Forall (slot_ok nx') l.
Proof. intros nx nx' l L H. rewrite Forall_forall in *. intros x Hx. eapply slot_ok_mono; eauto. Qed.

Lemma nth_slot_ok : forall nx l k o, Forall (slot_ok nx) l -> nth_error l k = Some o -> slot_ok nx o.
Proof. intros nx l k o H E. rewrite Forall_forall in H. apply H. eapply nth_error_In; eauto. Qed.

Lemma owned_idlt : forall cf nx l, Forall (slot_ok nx) l -> idlt nx (owned cf l).
Proof.
  intros cf nx. induction l as [|o r IH]; intros H; simpl; [constructor|].
  inversion H; subst. apply idlt_app. split; [|apply IH; assumption].
  destruct o as [m|]; simpl; [|constructor]. destruct H2 as [H2 H4].
  constructor; [exact H2|]. unfold chunk_ok, buf_ok, cblocks in *.
  destruct (k_buf (g_body m)) as [[b a]|]; constructor; [simpl; tauto|constructor].
Qed.

(* the invariant of a history *)
Definition books (cf : ccfg) (st : mstate) (t : tab) : Prop :=
  st_ok st /\ Permutation t (owned cf (s_slots st)).

Lemma books_idlt : forall cf st t, books cf st t -> idlt (s_next st) t.
Proof. intros cf st t [H P]. eapply idlt_perm; [apply Permutation_sym; exact P|]. apply owned_idlt. exact H. Qed.

Lemma body_op_ok : forall cf st k f t st' rv evs,
  (forall m nx, chunk_ok nx (g_body m) -> cspec nx (k_buf (g_body m)) (f m nx)) ->
  books cf st t -> body_op st k f = (st', rv, evs) ->
  exists t', treplay t evs = Some t' /\ books cf st' t'.
Proof.
  intros cf st k f t st' rv evs Hf B H. unfold body_op in H.
  destruct (get k (s_slots st)) as [m|] eqn:G; [|inversion H; subst; exists t; split; [reflexivity|exact B]].
  pose proof (get_nth _ _ _ G) as Hn. destruct B as [Hok P].
  pose proof (nth_slot_ok _ _ _ _ Hok Hn) as [Hsb Hc].
  specialize (Hf m (s_next st) Hc).
  destruct (f m (s_next st)) as [c' ev nx'| |] eqn:Ef;
    [|inversion H; subst; exists t; split; [reflexivity|split; assumption] ..].
  inversion H; subst; clear H.
  destruct (owned_put cf (s_slots st) k (Some m) (Some (mkMsg (g_sb m) (g_hlen m) c')) Hn) as [P1 P2].
  set (R := owned cf (put k None (s_slots st))) in *.
  assert (Pt : Permutation t (cblocks (g_body m) ++ ((g_sb m, cf_ssz cf) :: R))).
  { eapply perm_trans; [exact P|]. eapply perm_trans; [exact P1|]. simpl. apply Permutation_middle. }
  assert (It : idlt (s_next st) t).
  { eapply idlt_perm; [apply Permutation_sym; exact P|]. apply owned_idlt; exact Hok. }
  destruct (cspec_replay _ _ _ _ _ _ _ Hf Pt It) as [t' [Rp [Pp [Ip [Lp Cp]]]]].
  exists t'. split; [exact Rp|]. split.
  - unfold st_ok; simpl. apply Forall_put; [eapply slots_mono; eauto|]. simpl. split; [lia|exact Cp].
  - simpl. eapply perm_trans; [exact Pp|]. eapply perm_trans; [|apply Permutation_sym; exact P2].
    simpl. apply Permutation_sym, Permutation_middle.
Qed.

Lemma hdr_op_ok : forall cf st k f t st' rv evs,
  books cf st t -> hdr_op st k f = (st', rv, evs) ->
  exists t', treplay t evs = Some t' /\ books cf st' t'.
Proof.
  intros cf st k f t st' rv evs B H. unfold hdr_op in H.
  destruct (get k (s_slots st)) as [m|] eqn:G; [|inversion H; subst; exists t; split; [reflexivity|exact B]].
  pose proof (get_nth _ _ _ G) as Hn. destruct B as [Hok P].
  pose proof (nth_slot_ok _ _ _ _ Hok Hn) as Hs.
  destruct (f (g_hlen m)) as [h|]; inversion H; subst; clear H; exists t; (split; [reflexivity|]); [|split; assumption].
  destruct (owned_put cf (s_slots st) k (Some m) (Some (mkMsg (g_sb m) h (g_body m))) Hn) as [P1 P2].
  split.
  - unfold st_ok; simpl. apply Forall_put; [exact Hok|exact Hs].
  - simpl. eapply perm_trans; [exact P|]. eapply perm_trans; [exact P1|]. apply Permutation_sym. exact P2.
Qed.

(* writing a fresh message into an empty slot *)
Lemma fill_empty : forall cf l k v, nth_error l k = Some None ->
  Permutation (owned cf (put k v l)) (oblocks cf v ++ owned cf l).
Proof.
  intros cf l k v H. destruct (owned_put cf l k None v H) as [P1 P2]. simpl in P1.
  eapply perm_trans; [exact P2|]. apply Permutation_app_head. apply Permutation_sym. exact P1.
Qed.

Lemma release_slot : forall cf l k m, nth_error l k = Some (Some m) ->
  Permutation (owned cf l) (cblocks (g_body m) ++ [(g_sb m, cf_ssz cf)] ++ owned cf (put k None l)).
Proof.
  intros cf l k m H. destruct (owned_put cf l k (Some m) None H) as [P1 _].
  eapply perm_trans; [exact P1|]. simpl. apply Permutation_middle.
Qed.

Theorem mstep_books : forall cf st o f t st' rv evs,
  sane cf -> books cf st t -> mstep cf st o f = (st', rv, evs) ->
  exists t', treplay t evs = Some t' /\ books cf st' t'.
Proof.
  intros cf st o f t st' rv evs Hs B H.
  assert (KEEP : forall r, (st, r, @nil aev) = (st', rv, evs) -> exists t', treplay t evs = Some t' /\ books cf st' t').
  { intros r E. inversion E; subst. exists t. split; [reflexivity|exact B]. }
  pose proof (books_idlt _ _ _ B) as It.
  destruct o; simpl in H.
  - (* MAlloc *)
    destruct (nth_error (s_slots st) k) as [[x|]|] eqn:Hn; try (eapply KEEP; exact H).
    destruct (fails f 0); [eapply KEEP; exact H|].
    destruct B as [Hok P].
    set (nx := s_next st) in *.
    destruct (replay_alloc EA nx (cf_ssz cf) t _ tstep_EA P It) as [t1 [R1 [P1 I1]]].
    assert (C0 : chunk_ok (S nx) chunk0) by exact I.
    set (r := if big_aligned cf sz then grow cf (S nx) (fails f 1) chunk0 sz 0
              else grow cf (S nx) (fails f 1) chunk0 (sz + cf_tail cf) (cf_head cf)) in *.
    assert (Gs : cspec (S nx) (k_buf chunk0) r).
    { unfold r. destruct (big_aligned cf sz); apply grow_spec; assumption. }
    destruct r as [c ev nx2| |] eqn:Er.
    + assert (P1' : Permutation t1 (cblocks chunk0 ++ ((nx, cf_ssz cf) :: owned cf (s_slots st)))) by exact P1.
      destruct (cspec_replay _ _ _ _ _ _ _ Gs P1' I1) as [t2 [R2 [P2 [I2 [L2 C2]]]]].
      pose proof (cappend_spec cf nx2 false c sz Hs C2) as As.
      destruct (cappend cf nx2 false c sz) as [c' ev' nx3| |] eqn:Ea.
      * destruct (cspec_replay _ _ _ _ _ _ _ As P2 I2) as [t3 [R3 [P3 [I3 [L3 C3]]]]].
        inversion H; subst; clear H. exists t3. split.
        { change (EA nx (cf_ssz cf) :: ev ++ ev') with ([EA nx (cf_ssz cf)] ++ ev ++ ev').
          rewrite treplay_app, R1, treplay_app, R2. exact R3. }
        split.
        { unfold st_ok; simpl. apply Forall_put; [eapply slots_mono; [|exact Hok]; lia|]. simpl. split; [lia|exact C3]. }
        { simpl. eapply perm_trans; [exact P3|]. eapply perm_trans; [|apply Permutation_sym; apply fill_empty; exact Hn].
          simpl. apply Permutation_sym, Permutation_middle. }
      * (* not reached; the model releases everything *)
        inversion H; subst; clear H.
        rewrite (cfree_blk _ _ C2).
        destruct (replay_release EF tstep_EF nx2 (cblocks c) t2 _ P2 I2) as [t3 [R3 [P3 I3]]].
        assert (P3' : Permutation t3 ([(nx, cf_ssz cf)] ++ owned cf (s_slots st))) by exact P3.
        destruct (replay_release EF tstep_EF nx2 [(nx, cf_ssz cf)] t3 _ P3' I3) as [t4 [R4 [P4 I4]]].
        exists t4. split.
        { change (EA nx (cf_ssz cf) :: ev ++ map EFp (cblocks c) ++ [EF nx (cf_ssz cf)])
            with ([EA nx (cf_ssz cf)] ++ ev ++ map EFp (cblocks c) ++ [EF nx (cf_ssz cf)]).
          rewrite treplay_app, R1, treplay_app, R2, treplay_app. unfold EFp in *. rewrite R3. exact R4. }
        split; [unfold st_ok; simpl; eapply slots_mono; [|exact Hok]; lia|exact P4].
      * inversion H; subst; clear H.
        rewrite (cfree_blk _ _ C2).
        destruct (replay_release EF tstep_EF nx2 (cblocks c) t2 _ P2 I2) as [t3 [R3 [P3 I3]]].
        assert (P3' : Permutation t3 ([(nx, cf_ssz cf)] ++ owned cf (s_slots st))) by exact P3.
        destruct (replay_release EF tstep_EF nx2 [(nx, cf_ssz cf)] t3 _ P3' I3) as [t4 [R4 [P4 I4]]].
        exists t4. split.
        { change (EA nx (cf_ssz cf) :: ev ++ map EFp (cblocks c) ++ [EF nx (cf_ssz cf)])
            with ([EA nx (cf_ssz cf)] ++ ev ++ map EFp (cblocks c) ++ [EF nx (cf_ssz cf)]).
          rewrite treplay_app, R1, treplay_app, R2, treplay_app. unfold EFp in *. rewrite R3. exact R4. }
        split; [unfold st_ok; simpl; eapply slots_mono; [|exact Hok]; lia|exact P4].
    + inversion H; subst; clear H.
      assert (P1' : Permutation t1 ([(nx, cf_ssz cf)] ++ owned cf (s_slots st))) by exact P1.
      destruct (replay_release EF tstep_EF (S nx) [(nx, cf_ssz cf)] t1 _ P1' I1) as [t2 [R2 [P2 I2]]].
      exists t2. split.
      { change [EA nx (cf_ssz cf); EF nx (cf_ssz cf)] with ([EA nx (cf_ssz cf)] ++ [EF nx (cf_ssz cf)]).
        rewrite treplay_app, R1. exact R2. }
      split; [unfold st_ok; simpl; eapply slots_mono; [|exact Hok]; lia|exact P2].
    + inversion H; subst; clear H.
      assert (P1' : Permutation t1 ([(nx, cf_ssz cf)] ++ owned cf (s_slots st))) by exact P1.
      destruct (replay_release EF tstep_EF (S nx) [(nx, cf_ssz cf)] t1 _ P1' I1) as [t2 [R2 [P2 I2]]].
      exists t2. split.
      { change [EA nx (cf_ssz cf); EF nx (cf_ssz cf)] with ([EA nx (cf_ssz cf)] ++ [EF nx (cf_ssz cf)]).
        rewrite treplay_app, R1. exact R2. }
      split; [unfold st_ok; simpl; eapply slots_mono; [|exact Hok]; lia|exact P2].
  - eapply body_op_ok; [|exact B|exact H]. intros; apply cappend_spec; assumption.
  - eapply body_op_ok; [|exact B|exact H]. intros; apply cinsert_spec; assumption.
  - eapply body_op_ok; [|exact B|exact H]. intros; apply ctrim_spec; assumption.
  - eapply body_op_ok; [|exact B|exact H]. intros; apply cchop_spec; assumption.
  - eapply body_op_ok; [|exact B|exact H]. intros m nx Hc. simpl.
    destruct (k_len (g_body m) <? n); [apply cappend_spec; assumption|].
    pose proof (cchop_spec nx (g_body m) (k_len (g_body m) - n) Hc) as C.
    destruct (cchop (g_body m) (k_len (g_body m) - n) nx); try exact C. apply cspec_keep; auto.
  - eapply body_op_ok; [|exact B|exact H]. intros; apply grow_spec; assumption.
  - eapply body_op_ok; [|exact B|exact H]. intros; apply cspec_keep; auto.
  - eapply hdr_op_ok; eassumption.
  - eapply hdr_op_ok; eassumption.
  - eapply hdr_op_ok; eassumption.
  - eapply hdr_op_ok; eassumption.
  - eapply hdr_op_ok; eassumption.
  - (* MDup *)
    destruct (get k (s_slots st)) as [m|] eqn:G; [|eapply KEEP; exact H].
    destruct (nth_error (s_slots st) j) as [[x|]|] eqn:Hn; try (eapply KEEP; exact H).
    destruct (fails f 0); [eapply KEEP; exact H|].
    destruct B as [Hok P]. set (nx := s_next st) in *.
    pose proof (nth_slot_ok _ _ _ _ Hok (get_nth _ _ _ G)) as [Hsb Hc].
    destruct (replay_alloc EA nx (cf_ssz cf) t _ tstep_EA P It) as [t1 [R1 [P1 I1]]].
    unfold cdup in H. destruct ((k_cap (g_body m) =? 0) || fails f 1) eqn:E.
    + inversion H; subst; clear H.
      assert (P1' : Permutation t1 ([(nx, cf_ssz cf)] ++ owned cf (s_slots st))) by exact P1.
      destruct (replay_release EF tstep_EF (S nx) [(nx, cf_ssz cf)] t1 _ P1' I1) as [t2 [R2 [P2 I2]]].
      exists t2. split.
      { change [EA nx (cf_ssz cf); EF nx (cf_ssz cf)] with ([EA nx (cf_ssz cf)] ++ [EF nx (cf_ssz cf)]).
        rewrite treplay_app, R1. exact R2. }
      split; [unfold st_ok; simpl; eapply slots_mono; [|exact Hok]; lia|exact P2].
    + apply orb_false_iff in E. destruct E as [E _]. apply N.eqb_neq in E.
      inversion H; subst; clear H.
      destruct (replay_alloc EA (S nx) (k_cap (g_body m)) t1 _ tstep_EA P1 I1) as [t2 [R2 [P2 I2]]].
      exists t2. split.
      { change (EA nx (cf_ssz cf) :: [EA (S nx) (k_cap (g_body m))]) with ([EA nx (cf_ssz cf)] ++ [EA (S nx) (k_cap (g_body m))]).
        rewrite treplay_app, R1. exact R2. }
      split.
      { unfold st_ok; simpl. apply Forall_put; [eapply slots_mono; [|exact Hok]; lia|]. simpl. split; [lia|].
        unfold chunk_ok, buf_ok; simpl. repeat split; [lia|exact E]. }
      { simpl. eapply perm_trans; [exact P2|]. eapply perm_trans; [|apply Permutation_sym; apply fill_empty; exact Hn].
        simpl. apply perm_swap. }
  - (* MFree *)
    destruct (get k (s_slots st)) as [m|] eqn:G; [|eapply KEEP; exact H].
    inversion H; subst; clear H. destruct B as [Hok P].
    pose proof (get_nth _ _ _ G) as Hn.
    pose proof (nth_slot_ok _ _ _ _ Hok Hn) as [Hsb Hc].
    rewrite (cfree_blk _ _ Hc).
    assert (Pt : Permutation t (cblocks (g_body m) ++ [(g_sb m, cf_ssz cf)] ++ owned cf (put k None (s_slots st)))).
    { eapply perm_trans; [exact P|]. apply release_slot; exact Hn. }
    destruct (replay_release EF tstep_EF _ _ _ _ Pt It) as [t1 [R1 [P1 I1]]].
    destruct (replay_release EF tstep_EF _ [(g_sb m, cf_ssz cf)] _ _ P1 I1) as [t2 [R2 [P2 I2]]].
    exists t2. split; [rewrite treplay_app; unfold EFp in *; rewrite R1; exact R2|].
    split; [unfold st_ok; simpl; apply Forall_put; [exact Hok|exact I]|exact P2].
  - (* MGive *)
    destruct (get k (s_slots st)) as [m|] eqn:G; [|eapply KEEP; exact H].
    inversion H; subst; clear H. destruct B as [Hok P].
    pose proof (get_nth _ _ _ G) as Hn.
    pose proof (nth_slot_ok _ _ _ _ Hok Hn) as [Hsb Hc].
    rewrite (give_blk _ _ Hc).
    assert (Pt : Permutation t (cblocks (g_body m) ++ [(g_sb m, cf_ssz cf)] ++ owned cf (put k None (s_slots st)))).
    { eapply perm_trans; [exact P|]. apply release_slot; exact Hn. }
    destruct (replay_release EX tstep_EX _ _ _ _ Pt It) as [t1 [R1 [P1 I1]]].
    destruct (replay_release EX tstep_EX _ [(g_sb m, cf_ssz cf)] _ _ P1 I1) as [t2 [R2 [P2 I2]]].
    exists t2. split; [rewrite treplay_app; unfold EXp in *; rewrite R1; exact R2|].
    split; [unfold st_ok; simpl; apply Forall_put; [exact Hok|exact I]|exact P2].
  - (* MAdopt *)
    destruct (nth_error (s_slots st) k) as [[x|]|] eqn:Hn; try (eapply KEEP; exact H).
    destruct (asz =? 0) eqn:E; [eapply KEEP; exact H|]. apply N.eqb_neq in E.
    inversion H; subst; clear H. destruct B as [Hok P]. set (nx := s_next st) in *.
    destruct (replay_alloc EI nx (cf_ssz cf) t _ tstep_EI P It) as [t1 [R1 [P1 I1]]].
    destruct (replay_alloc EI (S nx) asz t1 _ tstep_EI P1 I1) as [t2 [R2 [P2 I2]]].
    exists t2. split.
    { change [EI nx (cf_ssz cf); EI (S nx) asz] with ([EI nx (cf_ssz cf)] ++ [EI (S nx) asz]).
      rewrite treplay_app, R1. exact R2. }
    split.
    { unfold st_ok; simpl. apply Forall_put; [eapply slots_mono; [|exact Hok]; lia|]. simpl. split; [lia|].
      unfold chunk_ok, buf_ok; simpl. repeat split; [lia|exact E]. }
    { simpl. eapply perm_trans; [exact P2|]. eapply perm_trans; [|apply Permutation_sym; apply fill_empty; exact Hn].
      simpl. apply perm_swap. }
Qed.

Theorem mrun_books : forall cf ops st t st' evs,
  sane cf -> books cf st t -> mrun cf st ops = (st', evs) ->
  exists t', treplay t evs = Some t' /\ books cf st' t'.
Proof.
  intros cf. induction ops as [|[o f] r IH]; simpl; intros st t st' evs Hs B H.
  - inversion H; subst. exists t. split; [reflexivity|exact B].
  - destruct (mstep cf st o f) as [[st1 rv] ev1] eqn:E1.
    destruct (mrun cf st1 r) as [st2 ev2] eqn:E2. inversion H; subst; clear H.
    destruct (mstep_books _ _ _ _ _ _ _ _ Hs B E1) as [t1 [R1 B1]].
    destruct (IH _ _ _ _ Hs B1 E2) as [t2 [R2 B2]].
    exists t2. split; [rewrite treplay_app, R1; exact R2|exact B2].
Qed.

Lemma books_init : forall cf n, books cf (ms_init n) [].
Proof.
  intros cf n. split.
  - unfold st_ok, ms_init; simpl. apply Forall_forall. intros x Hx. apply repeat_spec in Hx. subst. exact I.
  - unfold ms_init; simpl. induction n; simpl; [constructor|exact IHn].
Qed.

Definition all_empty (st : mstate) : Prop := Forall (fun o => o = None) (s_slots st).

Lemma owned_empty : forall cf l, Forall (fun o => o = None) l -> owned cf l = [].
Proof. intros cf. induction l as [|o r IH]; intros H; [reflexivity|]. inversion H; subst. simpl. apply IH. assumption. Qed.

(* ---- the statements used by Props/Properties_C03.v ---- *)

(* every event of every history is acceptable to the allocator's books (ids allocated once, every
   free names a live block with the size it was allocated with), and the books equal what the
   slots hold *)
Theorem chunk_events_sized : forall cf n ops st evs,
  sane cf -> mrun cf (ms_init n) ops = (st, evs) ->
  exists t, treplay [] evs = Some t /\ Permutation t (owned cf (s_slots st)).
Proof.
  intros cf n ops st evs Hs H.
  destruct (mrun_books cf ops _ _ _ _ Hs (books_init cf n) H) as [t [R [_ P]]]. exists t. split; assumption.
Qed.

(* ... and empty once every message has been freed (or taken by a send) *)
Theorem chunk_books_empty_after_free : forall cf n ops st evs,
  sane cf -> mrun cf (ms_init n) ops = (st, evs) -> all_empty st -> treplay [] evs = Some [].
Proof.
  intros cf n ops st evs Hs H E.
  destruct (chunk_events_sized cf n ops st evs Hs H) as [t [R P]].
  rewrite (owned_empty cf _ E) in P. apply Permutation_sym, Permutation_nil in P. subst. exact R.
Qed.

(* what "acceptable" means for a free: the books hold that id with exactly that size, and (ids being
   unique in the books) with no other size *)
Definition ids_unique (t : tab) : Prop := NoDup (map fst t).

Lemma has_id_in : forall b t, has_id b t = false -> ~ In b (map fst t).
Proof.
  unfold has_id. induction t as [|p r IH]; simpl; intros H; [tauto|].
  apply orb_false_iff in H. destruct H as [H1 H2]. apply Nat.eqb_neq in H1. intros [X|X]; [congruence|]. exact (IH H2 X).
Qed.

Lemma take_sub : forall b n t t', take b n t = Some t' -> forall x, In x (map fst t') -> In x (map fst t).
Proof.
  induction t as [|[b' n'] r IH]; simpl; intros t' H x Hx; [discriminate|].
  destruct (Nat.eqb b b' && (n =? n')).
  - inversion H; subst. now right.
  - destruct (take b n r) eqn:Et; [|discriminate]. inversion H; subst. simpl in Hx.
    destruct Hx as [Hx|Hx]; [now left|right; eapply IH; eauto].
Qed.

Lemma take_unique : forall b n t t', take b n t = Some t' -> ids_unique t -> ids_unique t'.
Proof.
  unfold ids_unique. induction t as [|[b' n'] r IH]; simpl; intros t' H U; [discriminate|].
  inversion U; subst.
  destruct (Nat.eqb b b' && (n =? n')).
  - inversion H; subst. assumption.
  - destruct (take b n r) eqn:Et; [|discriminate]. inversion H; subst. simpl. constructor.
    + intros X. apply H2. eapply take_sub; eauto.
    + eapply IH; eauto.
Qed.

Lemma tstep_unique : forall t e t', tstep t e = Some t' -> ids_unique t -> ids_unique t'.
Proof.
  intros t e t' H U. destruct e; simpl in H.
  1, 3: destruct (has_id b t) eqn:E; [discriminate|]; inversion H; subst; unfold ids_unique; simpl; constructor; [apply has_id_in; exact E|exact U].
  all: eapply take_unique; eauto.
Qed.

Theorem free_names_allocated_size : forall t b n t',
  ids_unique t -> tstep t (EF b n) = Some t' -> In (b, n) t /\ (forall n', In (b, n') t -> n' = n).
Proof.
  intros t b n t' U H. simpl in H. pose proof (take_sound _ _ _ _ H) as Hin. split; [exact Hin|].
  intros n' Hn'. unfold ids_unique in U. clear H t'.
  induction t as [|[b0 n0] r IH]; simpl in *; [contradiction|]. inversion U; subst.
  destruct Hin as [E|Hin]; destruct Hn' as [E'|Hn'].
  - congruence.
  - inversion E; subst. exfalso. apply H1. change b with (fst (b, n')). apply in_map. exact Hn'.
  - inversion E'; subst. exfalso. apply H1. change b with (fst (b, n)). apply in_map. exact Hin.
  - apply IH; assumption.
Qed.

(* ---- the variant with the cap field overwritten before the free: refuted ---- *)
Definition cfg_of (early1 : bool) : ccfg := mkCfg early1 false true 32 32 1024 8 64 248.

(* nng_msg_alloc(&m, 16); nng_msg_append(m, buf, 300): the block of 80 bytes is freed as 348 *)
Example grow_events_source_order :
  snd (mrun (cfg_of false) (ms_init 1) [(MAlloc 0 16, None); (MAppend 0 300, None); (MFree 0, None)])
  = [EA 0 248; EA 1 80; EA 2 348; EF 1 80; EF 2 348; EF 0 248].
Proof. reflexivity. Qed.

Example grow_events_cap_first :
  snd (mrun (cfg_of true) (ms_init 1) [(MAlloc 0 16, None); (MAppend 0 300, None); (MFree 0, None)])
  = [EA 0 248; EA 1 80; EA 2 348; EF 1 348; EF 2 348; EF 0 248].
Proof. reflexivity. Qed.

Theorem chunk_events_sized_refuted_cap_first :
  exists ops st evs, mrun (cfg_of true) (ms_init 1) ops = (st, evs) /\ treplay [] evs = None.
Proof.
  exists [(MAlloc 0 16, None); (MAppend 0 300, None)]. eexists. eexists. split; reflexivity.
Qed.

(* not vacuous: a history with many events whose books are non-empty at the end (slot 1 still holds
   a message: its struct and the 9000 byte body); the last append is refused (allocation fails) *)
Example chunk_books_nonvacuous :
  let '(st, evs) := mrun (cfg_of false) (ms_init 2)
     [(MAlloc 0 4, None); (MInsert 0 100, None); (MDup 0 1, None); (MReserve 1 4096, None);
      (MAlloc 0 1, None); (MFree 0, None); (MRealloc 1 9000, None); (MAppend 1 8, Some 0%nat)] in
  evs = [EA 0 248; EA 1 68; EA 2 136; EF 1 68; EA 3 248; EA 4 136; EA 5 4096; EF 4 136; EF 2 136;
         EF 0 248; EA 6 9000; EF 5 4096] /\
  treplay [] evs = Some [(6%nat, 9000); (3%nat, 248)] /\ mobs st 1 = Some (9000, 0, 9000, 9000, 0).
Proof. vm_compute. repeat split. Qed.
