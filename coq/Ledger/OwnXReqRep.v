(* OwnXReqRep: the ledger law of raw REQ and raw REP
   (src/sp/protocol/reqrep0/xreq.c, src/sp/protocol/reqrep0/xrep.c) together with the
   socket core's upper queues they use (src/core/msgqueue.c: nni_msgq_run_putq,
   nni_msgq_run_getq, nni_msgq_aio_put / _get, nni_msgq_resize, nni_msgq_close).

   Models: Proto/XReqModel.v (xreq_step, the generic msgq [mq G T]) and Proto/XRepModel.v
   (xrep_step).  Views: Ledger/Views.v (VXreq.view = view_xreq, VXrep.view = view_xrep). *)
From Coq Require Import List Arith NArith Bool Lia Permutation.
From NngV Require Import Proto.Common Proto.ReqRepBacktrace Proto.ReqModel Proto.XReqModel Proto.XRepModel
  Ledger.Ledger Ledger.LedgerProofs Ledger.LawTac Ledger.Views Ledger.LedgerThms.
Import ListNotations.

(* ------------------------------------------------------------------ *)
(* small helpers *)
Lemma has_aio_false_notin {A} a (l : list (aioid * A)) : has_aio a l = false -> ~ In a (map fst l).
Proof.
  unfold has_aio. intros H Hi. apply in_map_iff in Hi. destruct Hi as [[b m] [E Hi]]. cbn in E. subst b.
  assert (existsb (fun x => (fst x =? a)%N) l = true) by (apply existsb_exists; exists (a, m); split; [auto|apply N.eqb_refl]).
  congruence.
Qed.
Lemma in_rem_id a b l : In a (remove_id b l) -> In a l.
Proof. unfold remove_id. rewrite filter_In. tauto. Qed.
Lemma nodup_app_r {A} (a b : list A) : NoDup (a ++ b) -> NoDup b.
Proof. induction a; cbn; intros H; [exact H|]. inversion H; auto. Qed.
Lemma nodup_filter {A} (f : A -> bool) (g : A -> N) l : NoDup (map g l) -> NoDup (map g (filter f l)).
Proof.
  induction l as [|x l IH]; cbn; intros H; [constructor|]. inversion H; subst.
  destruct (f x); cbn; auto. constructor; auto.
  intros Hi. apply H2. apply in_map_iff in Hi. destruct Hi as [y [E Hy]]. apply filter_In in Hy.
  apply in_map_iff. exists y. tauto.
Qed.
Lemma in_filter_fst {A} (f : N * A -> bool) a (l : list (N * A)) : In a (map fst (filter f l)) -> In a (map fst l).
Proof.
  intros Hi. apply in_map_iff in Hi. destruct Hi as [y [E Hy]]. apply filter_In in Hy.
  apply in_map_iff. exists y. tauto.
Qed.
Lemma map_free_snd {A} (l : list (A * pmsg)) : map (fun x => Free (snd x)) l = map Free (map snd l).
Proof. now rewrite map_map. Qed.

(* completions of aios that carry no pending send do not concern the ledger *)
Lemma s_fail_none {St} (V : view St) F s o rv l :
  (forall a, In a l -> send_key V s o a = None) ->
  s_take F V s o (fail_aios rv l) = 0 /\ s_del F V s o (fail_aios rv l) = 0.
Proof.
  induction l as [|a l IH]; intros H; [split; reflexivity|]. cbn [fail_aios map s_take s_del].
  rewrite (H a (or_introl eq_refl)). apply IH. intros b Hb. apply H. right. exact Hb.
Qed.

(* ------------------------------------------------------------------ *)
(* the generic msgq: what the two runners leave of the waiter lists *)
Section MqShape.
  Context {G T : Type}.
  Lemma run_putq_shape f : forall (q q' : mq G T) ev, mq_run_putq G T f q = (q', ev) ->
    (exists l, mq_putq q = l ++ mq_putq q') /\ (exists l, mq_getq q = l ++ mq_getq q').
  Proof.
    induction f as [|f IH]; intros q q' ev H; cbn [mq_run_putq] in H.
    - inversion H; subst. split; exists []; reflexivity.
    - destruct (mq_putq q) as [|[t m] pr] eqn:EP; [inversion H; subst; rewrite EP; split; exists []; reflexivity|].
      destruct (mq_getq q) as [|g gr] eqn:EG.
      + destruct (length (mq_q q) <? mq_cap q).
        * destruct (mq_run_putq G T f _) as [q1 e1] eqn:R in H. inversion H; subst.
          destruct (IH _ _ _ R) as [[l1 H1] [l2 H2]]. cbn [mq_putq mq_getq] in H1, H2. split.
          -- exists ((t, m) :: l1). rewrite H1. reflexivity.
          -- exists l2. exact H2.
        * inversion H; subst. rewrite EP, EG. split; exists []; reflexivity.
      + destruct (mq_run_putq G T f _) as [q1 e1] eqn:R in H. inversion H; subst.
        destruct (IH _ _ _ R) as [[l1 H1] [l2 H2]]. cbn [mq_putq mq_getq] in H1, H2. split.
        * exists ((t, m) :: l1). rewrite H1. reflexivity.
        * exists (g :: l2). rewrite H2. reflexivity.
  Qed.
  Lemma run_getq_shape f : forall (q q' : mq G T) ev, mq_run_getq G T f q = (q', ev) ->
    (exists l, mq_putq q = l ++ mq_putq q') /\ (exists l, mq_getq q = l ++ mq_getq q').
  Proof.
    induction f as [|f IH]; intros q q' ev H; cbn [mq_run_getq] in H.
    - inversion H; subst. split; exists []; reflexivity.
    - destruct (mq_getq q) as [|g gr] eqn:EG; [inversion H; subst; rewrite EG; split; exists []; reflexivity|].
      destruct (mq_q q) as [|m rest] eqn:EQ.
      + destruct (mq_putq q) as [|[t m] pr] eqn:EP.
        * inversion H; subst. rewrite EP, EG. split; exists []; reflexivity.
        * destruct (mq_run_getq G T f _) as [q1 e1] eqn:R in H. inversion H; subst.
          destruct (IH _ _ _ R) as [[l1 H1] [l2 H2]]. cbn [mq_putq mq_getq] in H1, H2. split.
          -- exists ((t, m) :: l1). rewrite H1. reflexivity.
          -- exists (g :: l2). rewrite H2. reflexivity.
      + destruct (mq_run_getq G T f _) as [q1 e1] eqn:R in H. inversion H; subst.
        destruct (IH _ _ _ R) as [[l1 H1] [l2 H2]]. cbn [mq_putq mq_getq] in H1, H2. split.
        * exists l1. exact H1.
        * exists (g :: l2). rewrite H2. reflexivity.
  Qed.
  Lemma mq_rerun_shape (q q' : mq G T) ev : mq_rerun q = (q', ev) ->
    (exists l, mq_putq q = l ++ mq_putq q') /\ (exists l, mq_getq q = l ++ mq_getq q').
  Proof.
    unfold mq_rerun. intros H.
    destruct (mq_run_putq G T _ q) as [q1 e1] eqn:R1.
    destruct (mq_run_getq G T _ q1) as [q2 e2] eqn:R2. inversion H; subst.
    destruct (run_putq_shape _ _ _ _ R1) as [[a1 A1] [b1 B1]].
    destruct (run_getq_shape _ _ _ _ R2) as [[a2 A2] [b2 B2]]. split.
    - exists (a1 ++ a2). rewrite A1, A2, app_assoc. reflexivity.
    - exists (b1 ++ b2). rewrite B1, B2, app_assoc. reflexivity.
  Qed.
  Lemma mq_put_shape (q q' : mq G T) t m ev : mq_put q t m = (q', ev) ->
    (exists l, mq_putq q ++ [(t, m)] = l ++ mq_putq q') /\ (exists l, mq_getq q = l ++ mq_getq q').
  Proof. unfold mq_put. intros H. apply run_putq_shape in H. exact H. Qed.
  Lemma mq_get_shape b (q q' : mq G T) g ev : mq_get b q g = (q', ev) ->
    (exists l, mq_putq q = l ++ mq_putq q') /\ (exists l, mq_getq q ++ [g] = l ++ mq_getq q').
  Proof.
    unfold mq_get. intros H.
    destruct (mq_run_getq G T _ _) as [q1 e1] eqn:R1 in H.
    destruct (run_getq_shape _ _ _ _ R1) as [[a1 A1] [b1 B1]]. cbn [mq_putq mq_getq] in A1, B1.
    destruct b.
    - destruct (mq_run_putq G T _ q1) as [q2 e2] eqn:R2. inversion H; subst.
      destruct (run_putq_shape _ _ _ _ R2) as [[a2 A2] [b2 B2]]. split.
      + exists (a1 ++ a2). rewrite A1, A2, app_assoc. reflexivity.
      + exists (b1 ++ b2). rewrite B1, B2, app_assoc. reflexivity.
    - inversion H; subst. split; eauto.
  Qed.
End MqShape.

(* ------------------------------------------------------------------ *)
(* the upper write queue (getters = pipes, putters = user aios with their message):
   what its runners do to the references, in terms of the events they emit *)
Section UwqSums.
  Variable F : owner * key -> nat.
  Context {St : Type} (V : view St) (s : St) (o : pop).

  Lemma o_tx_uwq ev : o_tx F (flat_map uwq_out ev) = wsum (fun x => F (OPipe (fst x), body (snd x))) (uwq_sent ev).
  Proof.
    induction ev as [|e ev IH]; [reflexivity|]. destruct e; cbn [flat_map uwq_out app uwq_sent o_tx].
    - rewrite wsum_cons, IH. reflexivity.
    - exact IH.
  Qed.

  (* every blocked putter's aio still carries its message *)
  Definition keyed (l : list (aioid * pmsg)) : Prop :=
    forall t m, In (t, m) l -> send_key V s o t = Some (body m).

  Definition uwq_bal (q q' : mq pid aioid) (ev : list (mqev pid aioid)) : Prop :=
    wsum (fun m => F (OProto, body m)) (mq_q q) + wsum (fun x => F (OAio (fst x), body (snd x))) (mq_putq q)
      + s_take F V s o (flat_map uwq_out ev)
    = wsum (fun m => F (OProto, body m)) (mq_q q') + wsum (fun x => F (OAio (fst x), body (snd x))) (mq_putq q')
      + s_del F V s o (flat_map uwq_out ev) + o_rel F (flat_map uwq_out ev).

  Lemma uwq_bal_trans q1 q2 q3 e1 e2 : uwq_bal q1 q2 e1 -> uwq_bal q2 q3 e2 -> uwq_bal q1 q3 (e1 ++ e2).
  Proof. unfold uwq_bal. intros H1 H2. rewrite flat_map_app, s_take_app, s_del_app, o_rel_app. lia. Qed.

  Lemma uwq_run_putq_sum f : forall q q' ev,
    keyed (mq_putq q) -> mq_run_putq pid aioid f q = (q', ev) -> uwq_bal q q' ev.
  Proof.
    induction f as [|f IH]; intros q q' ev K H; cbn [mq_run_putq] in H.
    - inversion H; subst. unfold uwq_bal. cbn. lia.
    - destruct (mq_putq q) as [|[t m] pr] eqn:EP; [inversion H; subst; unfold uwq_bal; cbn; lia|].
      assert (Kt : send_key V s o t = Some (body m)) by (apply K; left; reflexivity).
      assert (Kr : keyed pr) by (intros t' m' Hi; apply K; right; exact Hi).
      destruct (mq_getq q) as [|g gr] eqn:EG.
      + destruct (length (mq_q q) <? mq_cap q).
        * destruct (mq_run_putq pid aioid f _) as [q1 e1] eqn:R in H. inversion H; subst.
          apply IH in R; [|exact Kr]. clear IH. rename R into IH. unfold uwq_bal in *. cbn [mq_q mq_putq] in IH. rewrite EP.
          cbn [flat_map uwq_out app s_take s_del o_rel]. rewrite Kt. change (E_OK =? 0)%N with true. cbn iota.
          wnorm. cbn [fst snd] in *. lia.
        * inversion H; subst. unfold uwq_bal. cbn. lia.
      + destruct (mq_run_putq pid aioid f _) as [q1 e1] eqn:R in H. inversion H; subst.
        apply IH in R; [|exact Kr]. clear IH. rename R into IH. unfold uwq_bal in *. cbn [mq_q mq_putq] in IH. rewrite EP.
        cbn [flat_map uwq_out app s_take s_del o_rel]. rewrite Kt. change (E_OK =? 0)%N with true. cbn iota.
        wnorm. cbn [fst snd] in *. lia.
  Qed.

  Lemma uwq_run_getq_sum f : forall q q' ev,
    keyed (mq_putq q) -> mq_run_getq pid aioid f q = (q', ev) -> uwq_bal q q' ev.
  Proof.
    induction f as [|f IH]; intros q q' ev K H; cbn [mq_run_getq] in H.
    - inversion H; subst. unfold uwq_bal. cbn. lia.
    - destruct (mq_getq q) as [|g gr] eqn:EG; [inversion H; subst; unfold uwq_bal; cbn; lia|].
      destruct (mq_q q) as [|m rest] eqn:EQ.
      + destruct (mq_putq q) as [|[t m] pr] eqn:EP; [inversion H; subst; unfold uwq_bal; cbn; lia|].
        assert (Kt : send_key V s o t = Some (body m)) by (apply K; left; reflexivity).
        assert (Kr : keyed pr) by (intros t' m' Hi; apply K; right; exact Hi).
        destruct (mq_run_getq pid aioid f _) as [q1 e1] eqn:R in H. inversion H; subst.
        apply IH in R; [|exact Kr]. clear IH. rename R into IH. unfold uwq_bal in *. cbn [mq_q mq_putq] in IH. rewrite EP, EQ.
        cbn [flat_map uwq_out app s_take s_del o_rel]. rewrite Kt. change (E_OK =? 0)%N with true. cbn iota.
        wnorm. cbn [fst snd] in *. lia.
      + destruct (mq_run_getq pid aioid f _) as [q1 e1] eqn:R in H. inversion H; subst.
        apply IH in R; [|exact K]. clear IH. rename R into IH. unfold uwq_bal in *. cbn [mq_q mq_putq] in IH. rewrite EQ.
        cbn [flat_map uwq_out app s_take s_del o_rel].
        wnorm. cbn [fst snd] in *. lia.
  Qed.

  Lemma keyed_suffix l l' : keyed (l ++ l') -> keyed l'.
  Proof. intros K t m Hi. apply K. apply in_or_app. right. exact Hi. Qed.

  Lemma uwq_get_sum b q q' p ev : keyed (mq_putq q) -> mq_get b q p = (q', ev) -> uwq_bal q q' ev.
  Proof.
    unfold mq_get. intros K H.
    destruct (mq_run_getq pid aioid _ _) as [q1 e1] eqn:R1 in H.
    assert (B1 : uwq_bal q q1 e1).
    { pose proof R1 as B. apply uwq_run_getq_sum in B; [|exact K]. unfold uwq_bal in *. cbn [mq_q mq_putq] in B. exact B. }
    destruct b.
    - destruct (mq_run_putq pid aioid _ q1) as [q2 e2] eqn:R2. inversion H; subst.
      destruct (run_getq_shape _ _ _ _ R1) as [[a1 A1] _]. cbn [mq_putq] in A1.
      eapply uwq_bal_trans; [exact B1|]. eapply uwq_run_putq_sum; [|exact R2].
      rewrite A1 in K. eapply keyed_suffix. exact K.
    - inversion H; subst. exact B1.
  Qed.

  Lemma uwq_rerun_sum q q' ev : keyed (mq_putq q) -> mq_rerun q = (q', ev) -> uwq_bal q q' ev.
  Proof.
    unfold mq_rerun. intros K H.
    destruct (mq_run_putq pid aioid _ q) as [q1 e1] eqn:R1.
    destruct (mq_run_getq pid aioid _ q1) as [q2 e2] eqn:R2. inversion H; subst.
    destruct (run_putq_shape _ _ _ _ R1) as [[a1 A1] _].
    eapply uwq_bal_trans; [eapply uwq_run_putq_sum; [exact K|exact R1]|].
    eapply uwq_run_getq_sum; [|exact R2]. rewrite A1 in K. eapply keyed_suffix. exact K.
  Qed.
End UwqSums.

(* ------------------------------------------------------------------ *)
(* the upper read queue (getters = user aios, putters = pipes with their message) *)
Section UrqSums.
  Variable F : owner * key -> nat.

  Lemma urq_quiet ev : no_send_done (map urq_out ev) = true.
  Proof. induction ev as [|e ev IH]; [reflexivity|]. destruct e; cbn; exact IH. Qed.
  Lemma o_tx_urq ev : o_tx F (map urq_out ev) = 0.
  Proof. induction ev as [|e ev IH]; [reflexivity|]. destruct e; cbn; exact IH. Qed.

  Definition urq_bal (q q' : urq) (ev : list (mqev aioid pid)) : Prop :=
    wsum (fun m => F (OProto, body m)) (mq_q q) + wsum (fun x => F (OProto, body (snd x))) (mq_putq q)
    = wsum (fun m => F (OProto, body m)) (mq_q q') + wsum (fun x => F (OProto, body (snd x))) (mq_putq q')
      + o_rel F (map urq_out ev).

  Lemma urq_bal_trans q1 q2 q3 e1 e2 : urq_bal q1 q2 e1 -> urq_bal q2 q3 e2 -> urq_bal q1 q3 (e1 ++ e2).
  Proof. unfold urq_bal. intros H1 H2. rewrite map_app, o_rel_app. lia. Qed.

  Lemma urq_run_putq_sum f : forall q q' ev, mq_run_putq aioid pid f q = (q', ev) -> urq_bal q q' ev.
  Proof.
    induction f as [|f IH]; intros q q' ev H; cbn [mq_run_putq] in H.
    - inversion H; subst. unfold urq_bal. cbn. lia.
    - destruct (mq_putq q) as [|[t m] pr] eqn:EP; [inversion H; subst; unfold urq_bal; cbn; lia|].
      destruct (mq_getq q) as [|g gr] eqn:EG.
      + destruct (length (mq_q q) <? mq_cap q).
        * destruct (mq_run_putq aioid pid f _) as [q1 e1] eqn:R in H. inversion H; subst.
          specialize (IH _ _ _ R). unfold urq_bal in *. cbn [mq_q mq_putq] in IH. rewrite EP.
          cbn [map urq_out o_rel]. wnorm. cbn [fst snd] in *. lia.
        * inversion H; subst. unfold urq_bal. cbn. lia.
      + destruct (mq_run_putq aioid pid f _) as [q1 e1] eqn:R in H. inversion H; subst.
        specialize (IH _ _ _ R). unfold urq_bal in *. cbn [mq_q mq_putq] in IH. rewrite EP.
        cbn [map urq_out o_rel]. change (E_OK =? 0)%N with true. cbn iota. wnorm. cbn [fst snd] in *. lia.
  Qed.
  Lemma urq_run_getq_sum f : forall q q' ev, mq_run_getq aioid pid f q = (q', ev) -> urq_bal q q' ev.
  Proof.
    induction f as [|f IH]; intros q q' ev H; cbn [mq_run_getq] in H.
    - inversion H; subst. unfold urq_bal. cbn. lia.
    - destruct (mq_getq q) as [|g gr] eqn:EG; [inversion H; subst; unfold urq_bal; cbn; lia|].
      destruct (mq_q q) as [|m rest] eqn:EQ.
      + destruct (mq_putq q) as [|[t m] pr] eqn:EP; [inversion H; subst; unfold urq_bal; cbn; lia|].
        destruct (mq_run_getq aioid pid f _) as [q1 e1] eqn:R in H. inversion H; subst.
        specialize (IH _ _ _ R). unfold urq_bal in *. cbn [mq_q mq_putq] in IH. rewrite EP, EQ.
        cbn [map urq_out o_rel]. change (E_OK =? 0)%N with true. cbn iota. wnorm. cbn [fst snd] in *. lia.
      + destruct (mq_run_getq aioid pid f _) as [q1 e1] eqn:R in H. inversion H; subst.
        specialize (IH _ _ _ R). unfold urq_bal in *. cbn [mq_q mq_putq] in IH. rewrite EQ.
        cbn [map urq_out o_rel]. change (E_OK =? 0)%N with true. cbn iota. wnorm. cbn [fst snd] in *. lia.
  Qed.

  Lemma urq_put_sum (q q' : urq) p m ev : mq_put q p m = (q', ev) ->
    wsum (fun m => F (OProto, body m)) (mq_q q) + wsum (fun x => F (OProto, body (snd x))) (mq_putq q) + F (OProto, body m)
    = wsum (fun m => F (OProto, body m)) (mq_q q') + wsum (fun x => F (OProto, body (snd x))) (mq_putq q')
      + o_rel F (map urq_out ev).
  Proof.
    unfold mq_put. intros H. apply urq_run_putq_sum in H. unfold urq_bal in H. cbn [mq_q mq_putq] in H.
    rewrite wsum_app, wsum_cons, wsum_nil in H. cbn [fst snd] in H. lia.
  Qed.
  Lemma urq_get_sum b (q q' : urq) a ev : mq_get b q a = (q', ev) -> urq_bal q q' ev.
  Proof.
    unfold mq_get. intros H.
    destruct (mq_run_getq aioid pid _ _) as [q1 e1] eqn:R1 in H.
    assert (B1 : urq_bal q q1 e1).
    { pose proof R1 as B. apply urq_run_getq_sum in B. unfold urq_bal in *. cbn [mq_q mq_putq] in B. exact B. }
    destruct b.
    - destruct (mq_run_putq aioid pid _ q1) as [q2 e2] eqn:R2. inversion H; subst.
      eapply urq_bal_trans; [exact B1|]. eapply urq_run_putq_sum. exact R2.
    - inversion H; subst. exact B1.
  Qed.
  Lemma urq_rerun_sum (q q' : urq) ev : mq_rerun q = (q', ev) -> urq_bal q q' ev.
  Proof.
    unfold mq_rerun. intros H.
    destruct (mq_run_putq aioid pid _ q) as [q1 e1] eqn:R1.
    destruct (mq_run_getq aioid pid _ q1) as [q2 e2] eqn:R2. inversion H; subst.
    eapply urq_bal_trans; [eapply urq_run_putq_sum; exact R1|eapply urq_run_getq_sum; exact R2].
  Qed.
  (* nni_msgq_resize: what is dropped is freed *)
  Lemma resize_sum {G T} (q q' : mq G T) n fr : mq_resize q n = (q', fr) ->
    wsum (fun m => F (OProto, body m)) (mq_q q)
    = wsum (fun m => F (OProto, body m)) (mq_q q') + wsum (fun m => F (OProto, body m)) fr
    /\ mq_putq q' = mq_putq q /\ mq_getq q' = mq_getq q.
  Proof.
    unfold mq_resize. intros H. inversion H; subst. cbn [mq_q mq_putq mq_getq]. split; [|split; reflexivity].
    rewrite <- (firstn_skipn (length (mq_q q) - (n + 1)) (mq_q q)) at 1. rewrite wsum_app. lia.
  Qed.
End UrqSums.

(* ================================ raw REQ ================================ *)
(* Invariant: the user aios blocked in nni_msgq_aio_put on the upper write queue are
   pairwise distinct, and none of them is at the same time blocked in nni_msgq_aio_get
   on the upper read queue. *)
Definition xreq_inv (s : xreq) : Prop :=
  NoDup (map fst (mq_putq (xq_uwq s))) /\
  (forall a, In a (mq_getq (xq_urq s)) -> ~ In a (map fst (mq_putq (xq_uwq s)))).

(* Environment contract: a user aio is submitted once at a time (not while it is still
   pending in a queued send; a send not while it is pending in a receive either); an
   abort carries an error. *)
Definition xreq_ok (s : xreq) (o : pop) : Prop :=
  match o with
  | PSend _ a _ _ => ~ In a (map fst (mq_putq (xq_uwq s))) /\ ~ In a (mq_getq (xq_urq s))
  | PRecv _ a _ => ~ In a (map fst (mq_putq (xq_uwq s)))
  | PCancel _ rv => rv <> 0%N
  | _ => True
  end.

Lemma xreq_inv_init : xreq_inv xreq_init.
Proof. split; [constructor|intros a []]. Qed.

Ltac xreq_view := unfold w_omega; cbn [view_xreq VXreq.view v_held v_tx v_att v_rx];
                  cbn [xq_uwq xq_urq xq_sending].

Lemma keyed_att s o :
  NoDup (map fst (mq_putq (xq_uwq s))) -> (forall c a nb m, o <> PSend c a nb m) ->
  keyed view_xreq s o (mq_putq (xq_uwq s)).
Proof.
  intros Hn Ho t m Hi. rewrite (send_key_other view_xreq s o t Ho).
  cbn [view_xreq VXreq.view v_att]. apply att_key_in; assumption.
Qed.
Lemma keyed_send s c a nb m :
  NoDup (map fst (mq_putq (xq_uwq s))) -> ~ In a (map fst (mq_putq (xq_uwq s))) ->
  keyed view_xreq s (PSend c a nb m) (mq_putq (xq_uwq s) ++ [(a, m)]).
Proof.
  intros Hn Ha t m' Hi. apply in_app_or in Hi. destruct Hi as [Hi|[E|[]]].
  - unfold send_key. destruct (N.eqb_spec a t) as [->|_].
    + exfalso. apply Ha. apply in_map_iff. exists (t, m'). auto.
    + cbn [view_xreq VXreq.view v_att]. apply att_key_in; assumption.
  - inversion E; subst. apply send_key_self.
Qed.

Lemma xreq_law_sum mf s o s' outs :
  xreq_inv s -> xreq_ok s o -> xreq_step mf s o = (s', outs) -> law_sum view_xreq s o s' outs.
Proof.
  intros [I1 I2] Hok H F. cbv zeta.
  change (v_extra view_xreq s o outs) with (@nil pmsg).
  change (v_clones view_xreq s o ++ v_dups view_xreq s o) with (@nil key).
  cbn [map]. rewrite app_nil_r, wsum_nil.
  destruct o as [c a nb m|c a nb|a rv|p peer|p|p rv|p rv m|c op|c|c| |now]; cbn [xreq_ok op_add op_del] in *;
    cbn [xreq_step] in H.
  - (* PSend *)
    destruct Hok as [Ha Hg].
    destruct (nb_refused mf nb (mq_put_waits (xq_uwq s))).
    + inversion H; subst; clear H. cbn [s_take s_del o_tx o_rel]. rewrite send_key_self.
      change (E_AGAIN =? 0)%N with false. cbn iota. lia.
    + destruct (mq_put (xq_uwq s) a m) as [q ev] eqn:R. inversion H; subst; clear H.
      unfold mq_put in R.
      apply (uwq_run_putq_sum F view_xreq s (PSend c a nb m)) in R; [|apply keyed_send; assumption].
      unfold uwq_bal in R. cbn [mq_q mq_putq] in R. xreq_view. rewrite o_tx_uwq. wnorm. cbn [fst snd] in *. lia.
  - (* PRecv *)
    destruct (nb_refused mf nb (mq_get_waits (xq_urq s))).
    + inversion H; subst; clear H. cbn [s_take s_del o_tx o_rel].
      rewrite send_key_other by (intros; discriminate). cbn [view_xreq VXreq.view v_att].
      rewrite (att_key_notin _ _ Hok). lia.
    + destruct (mq_get (mf_getput mf) (xq_urq s) a) as [q ev] eqn:R. inversion H; subst; clear H.
      apply (urq_get_sum F) in R. unfold urq_bal in R.
      destruct (s_quiet view_xreq F s (PRecv c a nb) (map urq_out ev) (urq_quiet ev)) as [A B].
      rewrite A, B, o_tx_urq. xreq_view. wnorm. lia.
  - (* PCancel *)
    destruct (has_aio a (mq_putq (xq_uwq s))) eqn:E.
    + inversion H; subst; clear H. destruct (has_aio_in _ _ E) as [m Hm]. xreq_view.
      cbn [s_take s_del o_tx o_rel mq_q mq_putq]. rewrite send_key_other by (intros; discriminate).
      cbn [view_xreq VXreq.view v_att]. rewrite (att_key_in a m _ I1 Hm).
      destruct (N.eqb_spec rv 0); [contradiction|].
      rewrite (wsum_remove_aio (fun x => F (OAio (fst x), body (snd x))) a _ m I1 Hm). cbn [fst snd]. lia.
    + destruct (has_id a (mq_getq (xq_urq s))); inversion H; subst; clear H.
      * xreq_view. cbn [s_take s_del o_tx o_rel mq_q mq_putq]. rewrite send_key_other by (intros; discriminate).
        cbn [view_xreq VXreq.view v_att]. rewrite (att_key_notin _ _ (has_aio_false_notin _ _ E)). lia.
      * cbn. lia.
  - (* PPipeStart *)
    destruct (negb (peer =? PROTO_REP)%N).
    + inversion H; subst. cbn. lia.
    + destruct (mq_get (mf_getput mf) (xq_uwq s) p) as [q ev] eqn:R. inversion H; subst; clear H.
      apply (uwq_get_sum F view_xreq s (PPipeStart p peer)) in R; [|apply keyed_att; [assumption|intros; discriminate]].
      unfold uwq_bal in R. xreq_view. wnorm. rewrite o_tx_uwq. cbn [s_take s_del o_tx o_rel]. wnorm. lia.
  - (* PPipeClose *)
    unfold urq_pipe_close in H. inversion H; subst; clear H. xreq_view. cbn [mq_q mq_putq].
    rewrite map_free_snd.
    destruct (s_quiet view_xreq F s (PPipeClose p)
                (map Free (map snd (filter (fun x => (fst x =? p)%N) (mq_putq (xq_urq s)))))) as [A B].
    { induction (map snd (filter (fun x => (fst x =? p)%N) (mq_putq (xq_urq s)))); cbn; auto. }
    rewrite A, B. wnorm.
    pose proof (wsum_filter_key (fun x => F (OProto, body (snd x))) p (mq_putq (xq_urq s))). lia.
  - (* PSendDone *)
    cbn [view_xreq VXreq.view v_tx].
    rewrite wsum_tx_of, (wsum_tx_of' (fun k => F (OProto, k))).
    pose proof (wsum_filter_key (fun x => F (OPipe (fst x), body (snd x))) p (xq_sending s)) as P.
    destruct (N.eqb_spec rv 0) as [->|Hrv]; cbn [negb] in H.
    + destruct (mq_get (mf_getput mf) (xq_uwq s) p) as [q ev] eqn:R. inversion H; subst; clear H.
      apply (uwq_get_sum F view_xreq s (PSendDone p 0)) in R; [|apply keyed_att; [assumption|intros; discriminate]].
      unfold uwq_bal in R. xreq_view. wnorm. rewrite o_tx_uwq. lia.
    + inversion H; subst; clear H. xreq_view.
      destruct (s_quiet view_xreq F s (PSendDone p rv)
                  (map Free (map snd (filter (fun x => (fst x =? p)%N) (xq_sending s))) ++ [ClosePipe p])) as [A B].
      { induction (map snd (filter (fun x => (fst x =? p)%N) (xq_sending s))); cbn; auto. }
      rewrite A, B. wnorm. cbn [o_tx o_rel]. lia.
  - (* PRecvDone *)
    cbn [view_xreq VXreq.view v_rx]. unfold VXreq.rx.
    destruct (N.eqb_spec rv 0) as [->|Hrv]; cbn [negb] in H.
    + destruct (xreq_recv (pm_body m)) as [m'| |] eqn:ER.
      * destruct (mq_put (xq_urq s) p m') as [q ev] eqn:R. inversion H; subst; clear H.
        apply (urq_put_sum F) in R.
        destruct (s_quiet view_xreq F s (PRecvDone p 0 m) (map urq_out ev) (urq_quiet ev)) as [A B].
        rewrite A, B, o_tx_urq. xreq_view. wnorm. lia.
      * inversion H; subst. cbn. lia.
      * inversion H; subst. cbn. lia.
    + inversion H; subst. cbn. lia.
  - (* PSetOpt *)
    destruct c as [c|]; [inversion H; subst; cbn; lia|].
    destruct op; try (inversion H; subst; cbn; lia).
    + (* OSendBuf *)
      destruct (8192 <? N.of_nat n)%N; [inversion H; subst; cbn; lia|].
      destruct (mq_resize (xq_uwq s) n) as [q fr] eqn:RS.
      destruct (resize_sum F _ _ _ _ RS) as [S1 [S2 S3]].
      assert (K : keyed view_xreq s (PSetOpt None (OSendBuf n)) (mq_putq q)).
      { rewrite S2. apply keyed_att; [assumption|intros; discriminate]. }
      assert (B : exists q' ev, (if mf_resize mf then mq_rerun q else (q, [])) = (q', ev) /\
                    uwq_bal F view_xreq s (PSetOpt None (OSendBuf n)) q q' ev).
      { destruct (mf_resize mf).
        - destruct (mq_rerun q) as [q' ev] eqn:RR. exists q', ev. split; [reflexivity|].
          eapply uwq_rerun_sum; [exact K|exact RR].
        - exists q, []. split; [reflexivity|]. unfold uwq_bal. cbn. lia. }
      destruct B as [q' [ev [E B]]]. rewrite E in H. inversion H; subst; clear H.
      unfold uwq_bal in B. rewrite S2 in B. xreq_view.
      destruct (s_quiet view_xreq F s (PSetOpt None (OSendBuf n)) (map Free fr)) as [A1 A2].
      { clear. induction fr; cbn; auto. }
      wnorm. rewrite o_tx_uwq. cbn [s_take s_del o_tx o_rel]. lia.
    + (* ORecvBuf *)
      destruct (8192 <? N.of_nat n)%N; [inversion H; subst; cbn; lia|].
      destruct (mq_resize (xq_urq s) n) as [q fr] eqn:RS.
      destruct (resize_sum F _ _ _ _ RS) as [S1 [S2 S3]].
      assert (B : exists q' ev, (if mf_resize mf then mq_rerun q else (q, [])) = (q', ev) /\ urq_bal F q q' ev).
      { destruct (mf_resize mf).
        - destruct (mq_rerun q) as [q' ev] eqn:RR. exists q', ev. split; [reflexivity|].
          eapply urq_rerun_sum. exact RR.
        - exists q, []. split; [reflexivity|]. unfold urq_bal. cbn. lia. }
      destruct B as [q' [ev [E B]]]. rewrite E in H. inversion H; subst; clear H.
      unfold urq_bal in B. rewrite S2 in B. xreq_view.
      destruct (s_quiet view_xreq F s (PSetOpt None (ORecvBuf n)) (map urq_out ev) (urq_quiet ev)) as [A B'].
      wnorm. rewrite A, B', o_tx_urq. cbn [s_take s_del o_tx o_rel]. lia.
    + (* OMaxTtl *)
      destruct ((n <? BT_TTL_MIN) || (BT_TTL_MAX <? n)); inversion H; subst; [cbn; lia|]. xreq_view. cbn. lia.
  - inversion H; subst. cbn. lia.
  - inversion H; subst. cbn. lia.
  - (* PSockClose *)
    unfold urq_close in H. inversion H; subst; clear H. xreq_view. cbn [mq_q mq_putq].
    rewrite map_free_snd.
    destruct (s_fail_all view_xreq F s PSockClose E_CLOSED I1 ltac:(intros; discriminate) ltac:(discriminate)) as [A B].
    cbn [view_xreq VXreq.view v_att] in A, B.
    destruct (s_fail_none view_xreq F s PSockClose E_CLOSED (mq_getq (xq_urq s))) as [C D].
    { intros a Ha. rewrite send_key_other by (intros; discriminate). cbn [view_xreq VXreq.view v_att].
      apply att_key_notin. apply I2. exact Ha. }
    wnorm. rewrite A, B, C, D. lia.
  - inversion H; subst. cbn. lia.
Qed.

(* the invariant only ever loses waiters from the front of the two lists *)
Lemma xinv_sub (pq pq' : list (aioid * pmsg)) (gq gq' : list aioid) :
  NoDup (map fst pq) -> (forall a, In a gq -> ~ In a (map fst pq)) ->
  (exists l, pq = l ++ pq') -> (exists l, gq = l ++ gq') ->
  NoDup (map fst pq') /\ (forall a, In a gq' -> ~ In a (map fst pq')).
Proof.
  intros Hn Hd [l1 ->] [l2 ->]. rewrite map_app in *. split.
  - eapply nodup_app_r. exact Hn.
  - intros a Ha Hi. apply (Hd a); apply in_or_app; right; assumption.
Qed.
Lemma suffix_refl {A} (l : list A) : exists l0, l = l0 ++ l.
Proof. exists []. reflexivity. Qed.

Lemma xreq_inv_step mf s o s' outs :
  xreq_inv s -> xreq_ok s o -> xreq_step mf s o = (s', outs) -> xreq_inv s'.
Proof.
  intros [I1 I2] Hok H. unfold xreq_inv.
  destruct o as [c a nb m|c a nb|a rv|p peer|p|p rv|p rv m|c op|c|c| |now]; cbn [xreq_ok] in *;
    cbn [xreq_step] in H.
  - destruct Hok as [Ha Hg].
    destruct (nb_refused mf nb (mq_put_waits (xq_uwq s))); [inversion H; subst; split; assumption|].
    destruct (mq_put (xq_uwq s) a m) as [q ev] eqn:R. inversion H; subst; clear H. cbn [xq_uwq xq_urq].
    destruct (mq_put_shape _ _ _ _ _ R) as [S1 _].
    apply (xinv_sub (mq_putq (xq_uwq s) ++ [(a, m)]) _ (mq_getq (xq_urq s)) _); [| |exact S1|apply suffix_refl].
    + rewrite map_app. cbn [map fst]. apply nodup_snoc; assumption.
    + intros b Hb Hi. rewrite map_app in Hi. apply in_app_or in Hi. destruct Hi as [Hi|[E|[]]].
      * exact (I2 b Hb Hi).
      * cbn in E. subst. exact (Hg Hb).
  - destruct (nb_refused mf nb (mq_get_waits (xq_urq s))); [inversion H; subst; split; assumption|].
    destruct (mq_get (mf_getput mf) (xq_urq s) a) as [q ev] eqn:R. inversion H; subst; clear H. cbn [xq_uwq xq_urq].
    destruct (mq_get_shape _ _ _ _ _ R) as [_ S2].
    apply (xinv_sub (mq_putq (xq_uwq s)) _ (mq_getq (xq_urq s) ++ [a]) _); [exact I1| |apply suffix_refl|exact S2].
    intros b Hb. apply in_app_or in Hb. destruct Hb as [Hb|[E|[]]]; [exact (I2 b Hb)|subst; exact Hok].
  - destruct (has_aio a (mq_putq (xq_uwq s))).
    + inversion H; subst; clear H. cbn [xq_uwq xq_urq mq_putq]. unfold remove_aio. split.
      * apply nodup_filter. exact I1.
      * intros b Hb Hi. apply in_filter_fst in Hi. exact (I2 b Hb Hi).
    + destruct (has_id a (mq_getq (xq_urq s))); inversion H; subst; clear H; [|split; assumption].
      cbn [xq_uwq xq_urq mq_getq]. split; [exact I1|]. intros b Hb. apply in_rem_id in Hb. exact (I2 b Hb).
  - destruct (negb (peer =? PROTO_REP)%N); [inversion H; subst; split; assumption|].
    destruct (mq_get (mf_getput mf) (xq_uwq s) p) as [q ev] eqn:R. inversion H; subst; clear H. cbn [xq_uwq xq_urq].
    destruct (mq_get_shape _ _ _ _ _ R) as [S1 _].
    apply (xinv_sub (mq_putq (xq_uwq s)) _ (mq_getq (xq_urq s)) _); [exact I1|exact I2|exact S1|apply suffix_refl].
  - unfold urq_pipe_close in H. inversion H; subst; clear H. cbn [xq_uwq xq_urq mq_putq mq_getq]. split; assumption.
  - destruct (negb (rv =? 0)%N); [inversion H; subst; split; assumption|].
    destruct (mq_get (mf_getput mf) (xq_uwq s) p) as [q ev] eqn:R. inversion H; subst; clear H. cbn [xq_uwq xq_urq].
    destruct (mq_get_shape _ _ _ _ _ R) as [S1 _].
    apply (xinv_sub (mq_putq (xq_uwq s)) _ (mq_getq (xq_urq s)) _); [exact I1|exact I2|exact S1|apply suffix_refl].
  - destruct (negb (rv =? 0)%N); [inversion H; subst; split; assumption|].
    destruct (xreq_recv (pm_body m)) as [m'| |]; try (inversion H; subst; split; assumption).
    destruct (mq_put (xq_urq s) p m') as [q ev] eqn:R. inversion H; subst; clear H. cbn [xq_uwq xq_urq].
    destruct (mq_put_shape _ _ _ _ _ R) as [_ S2].
    apply (xinv_sub (mq_putq (xq_uwq s)) _ (mq_getq (xq_urq s)) _); [exact I1|exact I2|apply suffix_refl|exact S2].
  - destruct c as [c|]; [inversion H; subst; split; assumption|].
    destruct op; try (inversion H; subst; split; assumption).
    + destruct (8192 <? N.of_nat n)%N; [inversion H; subst; split; assumption|].
      destruct (mq_resize (xq_uwq s) n) as [q fr] eqn:RS.
      destruct (resize_sum (fun _ => 0) _ _ _ _ RS) as [_ [S2 S3]].
      assert (B : exists q' ev, (if mf_resize mf then mq_rerun q else (q, [])) = (q', ev) /\
                    exists l, mq_putq q = l ++ mq_putq q').
      { destruct (mf_resize mf).
        - destruct (mq_rerun q) as [q' ev] eqn:RR. exists q', ev. split; [reflexivity|].
          apply (mq_rerun_shape _ _ _ RR).
        - exists q, []. split; [reflexivity|apply suffix_refl]. }
      destruct B as [q' [ev [E B]]]. rewrite E in H. inversion H; subst; clear H. cbn [xq_uwq xq_urq].
      rewrite S2 in B.
      apply (xinv_sub (mq_putq (xq_uwq s)) _ (mq_getq (xq_urq s)) _); [exact I1|exact I2|exact B|apply suffix_refl].
    + destruct (8192 <? N.of_nat n)%N; [inversion H; subst; split; assumption|].
      destruct (mq_resize (xq_urq s) n) as [q fr] eqn:RS.
      destruct (resize_sum (fun _ => 0) _ _ _ _ RS) as [_ [S2 S3]].
      assert (B : exists q' ev, (if mf_resize mf then mq_rerun q else (q, [])) = (q', ev) /\
                    exists l, mq_getq q = l ++ mq_getq q').
      { destruct (mf_resize mf).
        - destruct (mq_rerun q) as [q' ev] eqn:RR. exists q', ev. split; [reflexivity|].
          apply (mq_rerun_shape _ _ _ RR).
        - exists q, []. split; [reflexivity|apply suffix_refl]. }
      destruct B as [q' [ev [E B]]]. rewrite E in H. inversion H; subst; clear H. cbn [xq_uwq xq_urq].
      rewrite S3 in B.
      apply (xinv_sub (mq_putq (xq_uwq s)) _ (mq_getq (xq_urq s)) _); [exact I1|exact I2|apply suffix_refl|exact B].
    + destruct ((n <? BT_TTL_MIN) || (BT_TTL_MAX <? n)); inversion H; subst; split; assumption.
  - inversion H; subst; split; assumption.
  - inversion H; subst; split; assumption.
  - unfold urq_close in H. inversion H; subst; clear H. cbn [xq_uwq xq_urq mq_putq mq_getq map]. split; [constructor|intros a []].
  - inversion H; subst; split; assumption.
Qed.

Theorem xreq_proto_law : forall mf, proto_law view_xreq (xreq_step mf) xreq_inv xreq_ok.
Proof.
  intros mf s o s' outs HI Hok H. split.
  - eapply xreq_inv_step; eassumption.
  - split; [apply law_sum_eq; eapply xreq_law_sum; eassumption|apply clones_held_none; reflexivity].
Qed.

(* ================================ raw REP ================================ *)
(* The view of raw REP has no queued user sends (v_att = []: xrep0_sock_send hands the
   message to xrep0_sock_getq_cb at once), so no completion of a user aio concerns a
   pending send and the law needs neither an invariant nor a contract. *)
Definition xrep_inv (s : xrep) : Prop := True.
Definition xrep_ok (s : xrep) (o : pop) : Prop := True.

Lemma xrep_inv_init : xrep_inv xrep_init.
Proof. exact I. Qed.

Ltac xrep_view := unfold w_omega; cbn [view_xrep VXrep.view v_held v_tx v_att v_rx];
                  unfold xp_set_urq; cbn [xp_sendq xp_urq xp_sending].

Lemma first_msg_sum (G : pid * pmsg -> nat) p l m :
  first_msg p l = Some m -> wsum G l = G (p, m) + wsum G (del_first p l).
Proof.
  induction l as [|[q m'] l IH]; cbn [first_msg del_first]; intros H; [discriminate|].
  destruct (N.eqb_spec q p) as [->|_].
  - inversion H; subst. rewrite wsum_cons. reflexivity.
  - rewrite !wsum_cons, (IH H). lia.
Qed.

Lemma xrep_send_body m p m' : xrep_send m = Some (p, m') -> body m' = body m.
Proof. unfold xrep_send. destruct (length (pm_hdr m) <? 4); intros H; inversion H; subst. reflexivity. Qed.

(* xrep0_sock_getq_cb: the message taken from the application is sent, queued for its pipe, or freed *)
Lemma xrep_route_sum F s m s1 outs : xrep_route s m = (s1, outs) ->
  w_omega F view_xrep s + F (OProto, body m) + o_tx F outs = w_omega F view_xrep s1 + o_rel F outs
  /\ no_send_done outs = true.
Proof.
  unfold xrep_route. intros H. destruct (xrep_send m) as [[p m']|] eqn:E.
  - apply xrep_send_body in E. rewrite <- E.
    destruct (negb (has_id p (xp_pipes s))); [inversion H; subst; cbn; split; [lia|reflexivity]|].
    destruct (has_id p (xp_idle s)).
    + inversion H; subst; clear H. xrep_view. cbn [o_tx o_rel no_send_done]. wnorm. cbn [fst snd]. split; [lia|reflexivity].
    + destruct (pipe_qlen s p <? XREP_PIPE_SENDQ_CAP); inversion H; subst; clear H.
      * xrep_view. cbn [o_tx o_rel no_send_done]. wnorm. cbn [fst snd]. split; [lia|reflexivity].
      * cbn. split; [lia|reflexivity].
  - inversion H; subst. cbn. split; [lia|reflexivity].
Qed.

Lemma s_none_xrep F s o outs :
  (forall c a nb m, o <> PSend c a nb m) -> s_take F view_xrep s o outs = 0 /\ s_del F view_xrep s o outs = 0.
Proof. intros Ho. apply s_none; [reflexivity|exact Ho]. Qed.

Lemma xrep_law_sum mf s o s' outs : xrep_step mf s o = (s', outs) -> law_sum view_xrep s o s' outs.
Proof.
  intros H F. cbv zeta.
  change (v_extra view_xrep s o outs) with (@nil pmsg).
  change (v_clones view_xrep s o ++ v_dups view_xrep s o) with (@nil key).
  cbn [map]. rewrite app_nil_r, wsum_nil.
  destruct o as [c a nb m|c a nb|a rv|p peer|p|p rv|p rv m|c op|c|c| |now]; cbn [op_add op_del];
    cbn [xrep_step] in H;
    try (match goal with |- context [s_take _ _ _ ?o _] =>
           destruct (s_none_xrep F s o outs ltac:(intros; discriminate)) as [A B]; rewrite A, B; clear A B end).
  - (* PSend *)
    destruct (nb_refused mf nb false).
    + inversion H; subst; clear H. cbn [s_take s_del o_tx o_rel]. rewrite send_key_self.
      change (E_AGAIN =? 0)%N with false. cbn iota. lia.
    + destruct (xrep_route s m) as [s1 o1] eqn:R. inversion H; subst; clear H.
      destruct (xrep_route_sum F _ _ _ _ R) as [L Q].
      destruct (s_quiet view_xrep F s (PSend c a nb m) o1 Q) as [A B].
      cbn [s_take s_del o_tx o_rel]. rewrite send_key_self, A, B. change (E_OK =? 0)%N with true. cbn iota. lia.
  - (* PRecv *)
    destruct (nb_refused mf nb (mq_get_waits (xp_urq s))).
    + inversion H; subst; clear H. cbn [o_tx o_rel]. lia.
    + destruct (mq_get (mf_getput mf) (xp_urq s) a) as [q ev] eqn:R. inversion H; subst; clear H.
      apply (urq_get_sum F) in R. unfold urq_bal in R. rewrite o_tx_urq. xrep_view. wnorm. lia.
  - (* PCancel *)
    destruct (has_id a (mq_getq (xp_urq s))); inversion H; subst; clear H; xrep_view; cbn [mq_q mq_putq o_tx o_rel]; lia.
  - (* PPipeStart *)
    destruct (negb (peer =? PROTO_REQ)%N); inversion H; subst; clear H; xrep_view; cbn [o_tx o_rel]; lia.
  - (* PPipeClose *)
    unfold urq_pipe_close in H. inversion H; subst; clear H. xrep_view. cbn [mq_q mq_putq].
    rewrite !map_free_snd. wnorm.
    pose proof (wsum_filter_key (fun x => F (OProto, body (snd x))) p (mq_putq (xp_urq s))).
    pose proof (wsum_filter_key (fun x => F (OProto, body (snd x))) p (xp_sendq s)). lia.
  - (* PSendDone *)
    cbn [view_xrep VXrep.view v_tx].
    rewrite wsum_tx_of, (wsum_tx_of' (fun k => F (OProto, k))).
    pose proof (wsum_filter_key (fun x => F (OPipe (fst x), body (snd x))) p (xp_sending s)) as P.
    destruct (N.eqb_spec rv 0) as [->|Hrv]; cbn [negb] in H.
    + destruct (first_msg p (xp_sendq s)) as [m|] eqn:E; inversion H; subst; clear H; xrep_view.
      * pose proof (first_msg_sum (fun x => F (OProto, body (snd x))) p _ m E) as Q.
        cbn [o_tx o_rel]. wnorm. cbn [fst snd] in *. lia.
      * cbn [o_tx o_rel]. wnorm. lia.
    + inversion H; subst; clear H. xrep_view. wnorm. cbn [o_tx o_rel]. lia.
  - (* PRecvDone *)
    cbn [view_xrep VXrep.view v_rx]. unfold VXrep.rx.
    destruct (N.eqb_spec rv 0) as [->|Hrv]; cbn [negb] in H.
    + destruct (xrep_recv p (xp_ttl s) (pm_body m)) as [m'| |] eqn:ER.
      * destruct (mq_put (xp_urq s) p m') as [q ev] eqn:R. inversion H; subst; clear H.
        apply (urq_put_sum F) in R. rewrite o_tx_urq. xrep_view. wnorm. lia.
      * inversion H; subst. cbn. lia.
      * inversion H; subst. cbn. lia.
    + inversion H; subst. cbn. lia.
  - (* PSetOpt *)
    destruct c as [c|]; [inversion H; subst; cbn; lia|].
    destruct op; try (inversion H; subst; cbn; lia).
    + destruct (8192 <? N.of_nat n)%N; inversion H; subst; cbn; lia.
    + destruct (8192 <? N.of_nat n)%N; [inversion H; subst; cbn; lia|].
      destruct (mq_resize (xp_urq s) n) as [q fr] eqn:RS.
      destruct (resize_sum F _ _ _ _ RS) as [S1 [S2 S3]].
      assert (B : exists q' ev, (if mf_resize mf then mq_rerun q else (q, [])) = (q', ev) /\ urq_bal F q q' ev).
      { destruct (mf_resize mf).
        - destruct (mq_rerun q) as [q' ev] eqn:RR. exists q', ev. split; [reflexivity|].
          eapply urq_rerun_sum. exact RR.
        - exists q, []. split; [reflexivity|]. unfold urq_bal. cbn. lia. }
      destruct B as [q' [ev [E B]]]. rewrite E in H. inversion H; subst; clear H.
      unfold urq_bal in B. rewrite S2 in B. xrep_view.
      wnorm. rewrite o_tx_urq. cbn [o_tx o_rel]. lia.
    + destruct ((n <? BT_TTL_MIN) || (BT_TTL_MAX <? n)); inversion H; subst; [cbn; lia|]. xrep_view. cbn. lia.
  - inversion H; subst. cbn. lia.
  - inversion H; subst. cbn. lia.
  - (* PSockClose *)
    unfold urq_close in H. inversion H; subst; clear H. xrep_view. cbn [mq_q mq_putq].
    rewrite map_free_snd. wnorm. lia.
  - inversion H; subst. cbn. lia.
Qed.

Theorem xrep_proto_law : forall mf, proto_law view_xrep (xrep_step mf) xrep_inv xrep_ok.
Proof.
  intros mf s o s' outs _ _ H. split; [exact I|]. split.
  - apply law_sum_eq. eapply xrep_law_sum. exact H.
  - apply clones_held_none. reflexivity.
Qed.

(* ---------------- the contracts are satisfiable: concrete histories ---------------- *)
Ltac ok_fin :=
  vm_compute; repeat (match goal with |- _ /\ _ => split end);
  try exact I; try (let Hc := fresh in intro Hc; repeat (destruct Hc as [Hc|Hc]); try discriminate; contradiction).

Definition mf_none : mqfix := mkMqfix false false false.
Definition mf_all : mqfix := mkMqfix true true true.
Definition xw_req : pmsg := mkPmsg (be32 2147483649) [5%N].
Definition xw_rep : pmsg := mkPmsg [] (be32 2147483649 ++ [9%N]).

(* a blocking send that waits, a pipe that takes it, the transport's completion, a reply
   coming up, a receive that gets it, a buffer resize, a second (non-blocking) send, a
   receive that waits and is aborted, pipe close, socket close *)
Definition xreq_hist : list pop :=
  [PSend None 1%N false xw_req; PPipeStart 7%N PROTO_REP; PSendDone 7%N 0%N;
   PRecvDone 7%N 0%N xw_rep; PRecv None 2%N false; PSetOpt None (OSendBuf 2);
   PSend None 1%N true xw_req; PSend None 3%N false xw_req; PRecv None 2%N false; PCancel 2%N E_CANCELED;
   PSendDone 7%N 0%N; PPipeClose 7%N; PSockClose].
Example xreq_ok_nonvacuous :
  ops_ok (xreq_step mf_none) xreq_ok xreq_init xreq_hist /\ ops_ok (xreq_step mf_all) xreq_ok xreq_init xreq_hist.
Proof. split; ok_fin. Qed.
(* and the ledger, replayed along it, never fails *)
Example xreq_replay_runs :
  replay_run view_xreq (xreq_step mf_none) ls_init xreq_init xreq_hist <> None /\
  replay_run view_xreq (xreq_step mf_all) ls_init xreq_init xreq_hist <> None.
Proof. split; vm_compute; discriminate. Qed.

(* a request coming up, a receive that gets it, the reply routed to its pipe (sent at once),
   a second reply queued behind it, the transport's completions, a resize, closes *)
Definition xw_wire : pmsg := mkPmsg [] (be32 2147483649 ++ [9%N]).
Definition xw_reply : pmsg := mkPmsg (be32 7 ++ be32 2147483649) [6%N].
Definition xrep_hist : list pop :=
  [PPipeStart 7%N PROTO_REQ; PRecvDone 7%N 0%N xw_wire; PRecv None 2%N false;
   PSend None 1%N false xw_reply; PSend None 1%N true xw_reply; PSendDone 7%N 0%N; PSendDone 7%N 0%N;
   PSetOpt None (ORecvBuf 4); PRecv None 2%N false; PCancel 2%N E_CANCELED; PPipeClose 7%N; PSockClose].
Example xrep_ok_nonvacuous :
  ops_ok (xrep_step mf_none) xrep_ok xrep_init xrep_hist /\ ops_ok (xrep_step mf_all) xrep_ok xrep_init xrep_hist.
Proof. split; ok_fin. Qed.
Example xrep_replay_runs :
  replay_run view_xrep (xrep_step mf_none) ls_init xrep_init xrep_hist <> None /\
  replay_run view_xrep (xrep_step mf_all) ls_init xrep_init xrep_hist <> None.
Proof. split; vm_compute; discriminate. Qed.

Print Assumptions xreq_proto_law.
Print Assumptions xrep_proto_law.

(* ====================================================================== *)
(* Part 2: after the close sequence the protocol owns nothing that its fini functions
   do not free *)
Lemma run_app {St} (step : St -> pop -> St * list pout) a : forall s b,
  run step s (a ++ b) = run step (run step s a) b.
Proof. induction a as [|o a IH]; intros s b; [reflexivity|]. cbn [app run]. apply IH. Qed.
Lemma ops_ok_all {St} (step : St -> pop -> St * list pout) (ok : St -> pop -> Prop) ops :
  (forall o, In o ops -> forall s, ok s o) -> forall s, ops_ok step ok s ops.
Proof.
  induction ops as [|o r IH]; intros H s; [exact I|]. cbn [ops_ok]. split.
  - apply H. left. reflexivity.
  - apply IH. intros o' Hi. apply H. right. exact Hi.
Qed.

(* ---------------- raw REQ ---------------- *)
(* the pipes the state knows: idle on the upper write queue, with a send in flight, blocked
   in a put on the upper read queue *)
Definition xreq_pipes (s : xreq) : list pid :=
  mq_getq (xq_uwq s) ++ map fst (xq_sending s) ++ map fst (mq_putq (xq_urq s)).
(* the socket core's close sequence as the protocol sees it: every pipe the state knows gets its
   pipe_close, every transport send still in flight fails (PSendDone p E_CLOSED, one per message
   in flight), then the socket's own close (raw mode has no contexts) *)
Definition xreq_close_script (s : xreq) : list pop :=
  map PPipeClose (xreq_pipes s) ++ map (fun x => PSendDone (fst x) E_CLOSED) (xq_sending s) ++ [PSockClose].

Lemma xreq_run_pclose mf l : forall s, xq_sending (run (xreq_step mf) s (map PPipeClose l)) = xq_sending s.
Proof.
  induction l as [|p l IH]; intros s; [reflexivity|]. cbn [map run]. rewrite IH.
  cbn [xreq_step]. unfold urq_pipe_close. reflexivity.
Qed.
Lemma xreq_run_sdfail mf l : forall s, (forall x, In x (xq_sending s) -> In (fst x) l) ->
  xq_sending (run (xreq_step mf) s (map (fun p => PSendDone p E_CLOSED) l)) = [].
Proof.
  induction l as [|p l IH]; intros s H.
  - cbn [map run]. destruct (xq_sending s) as [|x r]; [reflexivity|]. destruct (H x (or_introl eq_refl)).
  - cbn [map run]. apply IH. cbn [xreq_step]. change (negb (E_CLOSED =? 0)%N) with true. cbn [fst xq_sending].
    intros x Hx. apply filter_In in Hx. destruct Hx as [Hx Hn].
    destruct (H x Hx) as [E|Hi]; [|exact Hi]. subst p. rewrite N.eqb_refl in Hn. discriminate.
Qed.

Theorem xreq_close_drains : forall mf s, xreq_inv s ->
  ops_ok (xreq_step mf) xreq_ok s (xreq_close_script s) /\
  drained view_xreq (run (xreq_step mf) s (xreq_close_script s)).
Proof.
  intros mf s _. split.
  - apply ops_ok_all. intros o Ho t. unfold xreq_close_script in Ho.
    apply in_app_or in Ho. destruct Ho as [Ho|Ho]; [|apply in_app_or in Ho; destruct Ho as [Ho|[<-|[]]]].
    + apply in_map_iff in Ho. destruct Ho as [p [<- _]]. exact I.
    + apply in_map_iff in Ho. destruct Ho as [x [<- _]]. exact I.
    + exact I.
  - unfold xreq_close_script. rewrite !run_app.
    set (s1 := run (xreq_step mf) s (map PPipeClose (xreq_pipes s))).
    assert (E1 : xq_sending s1 = xq_sending s) by apply xreq_run_pclose.
    rewrite <- E1, <- (map_map fst (fun p => PSendDone p E_CLOSED)).
    set (s2 := run (xreq_step mf) s1 _).
    assert (E2 : xq_sending s2 = []).
    { apply xreq_run_sdfail. intros x Hx. apply in_map. exact Hx. }
    cbn [run xreq_step]. unfold urq_close. cbn [fst].
    unfold drained. cbn [view_xreq VXreq.view v_tx v_att v_held v_fini xq_uwq xq_urq xq_sending mq_q mq_putq map app].
    split; [exact E2|]. split; [reflexivity|constructor].
Qed.

(* ---------------- raw REP ---------------- *)
(* the pipes the state knows: the id map, the owners of queued replies, of sends in flight, of
   blocked puts on the upper read queue *)
Definition xrep_pipes (s : xrep) : list pid :=
  xp_pipes s ++ map fst (xp_sendq s) ++ map fst (xp_sending s) ++ map fst (mq_putq (xp_urq s)).
Definition xrep_close_script (s : xrep) : list pop :=
  map PPipeClose (xrep_pipes s) ++ map (fun x => PSendDone (fst x) E_CLOSED) (xp_sending s) ++ [PSockClose].

Lemma xrep_run_pclose mf l : forall s, xp_sending (run (xrep_step mf) s (map PPipeClose l)) = xp_sending s.
Proof.
  induction l as [|p l IH]; intros s; [reflexivity|]. cbn [map run]. rewrite IH.
  cbn [xrep_step]. unfold urq_pipe_close. reflexivity.
Qed.
Lemma xrep_run_pclose_sendq mf l : forall s, (forall x, In x (xp_sendq s) -> In (fst x) l) ->
  xp_sendq (run (xrep_step mf) s (map PPipeClose l)) = [].
Proof.
  induction l as [|p l IH]; intros s H.
  - cbn [map run]. destruct (xp_sendq s) as [|x r]; [reflexivity|]. destruct (H x (or_introl eq_refl)).
  - cbn [map run]. apply IH. cbn [xrep_step]. unfold urq_pipe_close. cbn [fst xp_sendq].
    intros x Hx. apply filter_In in Hx. destruct Hx as [Hx Hn].
    destruct (H x Hx) as [E|Hi]; [|exact Hi]. subst p. rewrite N.eqb_refl in Hn. discriminate.
Qed.
Lemma xrep_sdfail_step mf s p :
  fst (xrep_step mf s (PSendDone p E_CLOSED))
  = mkXrep (xp_pipes s) (xp_idle s) (xp_sendq s) (filter (fun x => negb (fst x =? p)%N) (xp_sending s))
           (xp_urq s) (xp_ttl s) (xp_closed s).
Proof. cbn [xrep_step]. change (negb (E_CLOSED =? 0)%N) with true. reflexivity. Qed.
Lemma xrep_run_sdfail mf l : forall s, (forall x, In x (xp_sending s) -> In (fst x) l) ->
  xp_sending (run (xrep_step mf) s (map (fun p => PSendDone p E_CLOSED) l)) = [].
Proof.
  induction l as [|p l IH]; intros s H.
  - cbn [map run]. destruct (xp_sending s) as [|x r]; [reflexivity|]. destruct (H x (or_introl eq_refl)).
  - cbn [map run]. apply IH. rewrite xrep_sdfail_step. cbn [xp_sending].
    intros x Hx. apply filter_In in Hx. destruct Hx as [Hx Hn].
    destruct (H x Hx) as [E|Hi]; [|exact Hi]. subst p. rewrite N.eqb_refl in Hn. discriminate.
Qed.
Lemma xrep_run_sdfail_sendq mf l : forall s,
  xp_sendq (run (xrep_step mf) s (map (fun p => PSendDone p E_CLOSED) l)) = xp_sendq s.
Proof.
  induction l as [|p l IH]; intros s; [reflexivity|]. cbn [map run]. rewrite IH, xrep_sdfail_step. reflexivity.
Qed.

Theorem xrep_close_drains : forall mf s, xrep_inv s ->
  ops_ok (xrep_step mf) xrep_ok s (xrep_close_script s) /\
  drained view_xrep (run (xrep_step mf) s (xrep_close_script s)).
Proof.
  intros mf s _. split.
  - apply ops_ok_all. intros o _ t. exact I.
  - unfold xrep_close_script. rewrite !run_app.
    set (s1 := run (xrep_step mf) s (map PPipeClose (xrep_pipes s))).
    assert (E1 : xp_sending s1 = xp_sending s) by apply xrep_run_pclose.
    rewrite <- E1, <- (map_map fst (fun p => PSendDone p E_CLOSED)).
    set (s2 := run (xrep_step mf) s1 _).
    assert (E2 : xp_sending s2 = []).
    { apply xrep_run_sdfail. intros x Hx. apply in_map. exact Hx. }
    cbn [run xrep_step]. unfold urq_close. cbn [fst].
    unfold drained. cbn [view_xrep VXrep.view v_tx v_att v_held v_fini xp_sendq xp_urq xp_sending mq_q mq_putq map].
    split; [exact E2|]. split; [reflexivity|]. rewrite !app_nil_r. apply Permutation_refl.
Qed.
(* moreover the per-pipe send queues are empty by then (every pipe owning a queued reply got its
   pipe_close): nothing at all is left in a protocol slot, v_fini lists nothing *)
Theorem xrep_close_empties : forall mf s,
  v_held view_xrep (run (xrep_step mf) s (xrep_close_script s)) = [] /\
  v_fini view_xrep (run (xrep_step mf) s (xrep_close_script s)) = [].
Proof.
  intros mf s. unfold xrep_close_script. rewrite !run_app.
  set (s1 := run (xrep_step mf) s (map PPipeClose (xrep_pipes s))).
  assert (Q1 : xp_sendq s1 = []).
  { apply xrep_run_pclose_sendq. intros x Hx. unfold xrep_pipes. apply in_or_app. right. apply in_or_app. left.
    apply in_map. exact Hx. }
  rewrite <- (map_map fst (fun p => PSendDone p E_CLOSED)).
  set (s2 := run (xrep_step mf) s1 _).
  assert (Q2 : xp_sendq s2 = []) by (unfold s2; rewrite xrep_run_sdfail_sendq; exact Q1).
  cbn [run xrep_step]. unfold urq_close. cbn [fst].
  cbn [view_xrep VXrep.view v_held v_fini xp_sendq xp_urq mq_q mq_putq map]. rewrite Q2. split; reflexivity.
Qed.

Print Assumptions xreq_close_drains.
Print Assumptions xrep_close_drains.
Print Assumptions xrep_close_empties.
