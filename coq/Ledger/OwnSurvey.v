(* OwnSurvey: the ledger law (property C03) of
     cooked SURVEYOR   src/sp/protocol/survey0/survey.c    (Proto/SurveyModel.v,   view VSurv.view)
     raw SURVEYOR      src/sp/protocol/survey0/xsurvey.c   (Proto/XSurveyModel.v,  view VXsurv.view fx)
     raw RESPONDENT    src/sp/protocol/survey0/xrespond.c  (Proto/XRespondModel.v, view VXresp.view)
   For each: an invariant of the model's state (keys of the keyed lists unique; a pipe record
   that is not busy has nothing attached to its aio_send, so that a TranSend goes only to an
   idle pipe), the environment's contract, the sum lemmas of the model's loops, the law,
   and a history on which the contract holds. *)
From Coq Require Import List Arith NArith Bool ZArith Lia.
From NngV Require Import Proto.Common Proto.SurveyBacktrace Proto.SurveyModel Proto.XSurveyModel
  Proto.XRespondModel Proto.SurveyProofs
  Ledger.Ledger Ledger.LedgerProofs Ledger.LawTac Ledger.Views.
Import ListNotations.

(* ------------------------------------------------------------------ *)
(* helpers: keyed lists, per-record sums *)
Notation qs F l := (wsum (fun m => F (OProto, body m)) l).
Notation ts F p l := (wsum (fun m => F (OPipe p, body m)) l).

Section Keyed.
  Context {A : Type}.
  Implicit Types (l : list (N * A)) (G : N * A -> nat).

  Lemma wsum_kset_some G k y l x :
    kget k l = Some x -> wsum G l + G (k, y) = G (k, x) + wsum G (kset k y l).
  Proof.
    induction l as [|[k' v] l IH]; cbn [kget kset]; [discriminate|].
    destruct (N.eqb_spec k' k); intros H.
    - inversion H; subst. rewrite !wsum_cons. lia.
    - rewrite !wsum_cons. specialize (IH H). lia.
  Qed.
  Lemma wsum_kset_none G k y l : kget k l = None -> wsum G (kset k y l) = wsum G l + G (k, y).
  Proof.
    induction l as [|[k' v] l IH]; cbn [kget kset]; intros H.
    - rewrite wsum_cons, !wsum_nil. lia.
    - destruct (N.eqb_spec k' k); [discriminate|]. rewrite !wsum_cons, (IH H). lia.
  Qed.
  Lemma wsum_kdel G k l x : NoDup (map fst l) -> kget k l = Some x -> wsum G l = G (k, x) + wsum G (kdel k l).
  Proof.
    unfold kdel. induction l as [|[k' v] l IH]; cbn [kget map fst filter]; intros Hn H; [discriminate|].
    inversion Hn; subst. destruct (N.eqb_spec k' k).
    - inversion H; subst. cbn [negb]. rewrite wsum_cons, (filter_keep_notin' k l H2). reflexivity.
    - cbn [negb]. rewrite !wsum_cons, (IH H3 H). lia.
  Qed.
  Lemma wsum_snoc {B} (G : B -> nat) (l : list B) z : wsum G (l ++ [z]) = wsum G l + G z.
  Proof. rewrite wsum_app, wsum_cons, wsum_nil. lia. Qed.
  Lemma forall_kset (P : N * A -> Prop) k y l : Forall P l -> P (k, y) -> Forall P (kset k y l).
  Proof.
    intros H Hy. induction l as [|[k' v] l IH]; cbn [kset]; [constructor; auto|].
    inversion H; subst. destruct (N.eqb k' k); constructor; auto.
  Qed.

  (* the references a keyed list of pipe records stands for *)
  Definition QH (q : A -> list pmsg) (F : owner * key -> nat) l : nat := wsum (fun px => qs F (q (snd px))) l.
  Definition TH (h : A -> list pmsg) (F : owner * key -> nat) l : nat := wsum (fun px => ts F (fst px) (h (snd px))) l.
  Definition ptx (h : A -> list pmsg) l : list (N * pmsg) := flat_map (fun px => map (fun m => (fst px, m)) (h (snd px))) l.

  Lemma QH_kset q F k y l x : kget k l = Some x -> QH q F l + qs F (q y) = qs F (q x) + QH q F (kset k y l).
  Proof. intros H. exact (wsum_kset_some (fun px => qs F (q (snd px))) k y l x H). Qed.
  Lemma TH_kset h F k y l x : kget k l = Some x -> TH h F l + ts F k (h y) = ts F k (h x) + TH h F (kset k y l).
  Proof. intros H. exact (wsum_kset_some (fun px => ts F (fst px) (h (snd px))) k y l x H). Qed.
  Lemma QH_kset_none q F k y l : kget k l = None -> QH q F (kset k y l) = QH q F l + qs F (q y).
  Proof. intros H. exact (wsum_kset_none (fun px => qs F (q (snd px))) k y l H). Qed.
  Lemma QH_kdel q F k l x : NoDup (map fst l) -> kget k l = Some x -> QH q F l = qs F (q x) + QH q F (kdel k l).
  Proof. intros Hn H. exact (wsum_kdel (fun px => qs F (q (snd px))) k l x Hn H). Qed.
  Lemma QH_snoc q F l k y : QH q F (l ++ [(k, y)]) = QH q F l + qs F (q y).
  Proof. unfold QH. now rewrite wsum_snoc. Qed.
  Lemma TH_snoc h F l k y : TH h F (l ++ [(k, y)]) = TH h F l + ts F k (h y).
  Proof. unfold TH. now rewrite wsum_snoc. Qed.
  Lemma QH_cons q F l k y : QH q F ((k, y) :: l) = qs F (q y) + QH q F l.
  Proof. reflexivity. Qed.
  Lemma TH_cons h F l k y : TH h F ((k, y) :: l) = ts F k (h y) + TH h F l.
  Proof. reflexivity. Qed.
  Lemma QH_nil q F : QH q F [] = 0. Proof. reflexivity. Qed.
  Lemma TH_nil h F : TH h F [] = 0. Proof. reflexivity. Qed.

  Lemma wsum_held q F l : qs F (flat_map (fun px => q (snd px)) l) = QH q F l.
  Proof. now rewrite wsum_flat_map. Qed.
  Lemma wsum_ptx h F l : wsum (fun x => F (OPipe (fst x), body (snd x))) (ptx h l) = TH h F l.
  Proof. unfold ptx, TH. rewrite wsum_flat_map. apply wsum_ext. intros x _. now rewrite wsum_map. Qed.

  (* what is in flight on pipe p *)
  Lemma tx_of_app p (a b : list (N * pmsg)) : tx_of p (a ++ b) = tx_of p a ++ tx_of p b.
  Proof. unfold tx_of. now rewrite filter_app, map_app. Qed.
  Lemma tx_of_tag p k (ms : list pmsg) : tx_of p (map (fun m => (k, m)) ms) = if N.eqb k p then ms else [].
  Proof.
    unfold tx_of. induction ms as [|m ms IH]; cbn [map filter fst]; [destruct (N.eqb k p); reflexivity|].
    destruct (N.eqb k p); cbn [map snd]; [now rewrite IH|exact IH].
  Qed.
  Lemma tx_of_ptx_notin h p l : ~ In p (map fst l) -> tx_of p (ptx h l) = [].
  Proof.
    induction l as [|[k v] l IH]; cbn [ptx flat_map map fst snd]; intros H; [reflexivity|].
    fold (ptx h l). rewrite tx_of_app, tx_of_tag, IH by (intros Hi; apply H; right; exact Hi).
    destruct (N.eqb_spec k p); [exfalso; apply H; left; auto|reflexivity].
  Qed.
  Lemma tx_of_ptx_none h p l : kget p l = None -> tx_of p (ptx h l) = [].
  Proof. intros H. apply tx_of_ptx_notin. now apply kget_none_notin. Qed.
  Lemma tx_of_ptx_some h p l x : NoDup (map fst l) -> kget p l = Some x -> tx_of p (ptx h l) = h x.
  Proof.
    induction l as [|[k v] l IH]; cbn [kget ptx flat_map map fst snd]; intros Hn H; [discriminate|].
    fold (ptx h l). inversion Hn; subst. rewrite tx_of_app, tx_of_tag. destruct (N.eqb_spec k p).
    - inversion H; subst. rewrite tx_of_ptx_notin by assumption. apply app_nil_r.
    - now rewrite IH.
  Qed.
End Keyed.

(* a step that is not a user send, in a view without queued user sends, clones, dups and
   extra frees: the law is the plain balance of the state's references *)
Lemma law_sum_quiet {St} (V : view St) s o s' outs :
  v_att V s = [] -> (forall c a nb m, o <> PSend c a nb m) ->
  v_clones V s o = [] -> v_dups V s o = [] -> v_extra V s o outs = [] ->
  (forall F, w_omega F V s + op_add F V s o + o_tx F outs = w_omega F V s' + op_del F V s o + o_rel F outs) ->
  law_sum V s o s' outs.
Proof.
  intros Ha Ho Hc Hd He H F. cbv zeta. rewrite Hc, Hd, He. cbn [map app]. rewrite app_nil_r, wsum_nil.
  destruct (s_none V F s o outs Ha Ho) as [A B]. rewrite A, B. specialize (H F). lia.
Qed.

(* completions of other aios than the one being submitted (no queued user sends) *)
Lemma s_fail_other {St} (V : view St) F s c a nb m rv l :
  v_att V s = [] -> ~ In a l ->
  s_take F V s (PSend c a nb m) (fail_aios rv l) = 0 /\ s_del F V s (PSend c a nb m) (fail_aios rv l) = 0.
Proof.
  intros Ha Hn. induction l as [|b l IH]; [split; reflexivity|].
  destruct IH as [I1 I2]; [intros Hi; apply Hn; right; exact Hi|].
  cbn [fail_aios map s_take s_del]. fold (fail_aios rv l).
  assert (K : send_key V s (PSend c a nb m) b = None).
  { unfold send_key. rewrite Ha. destruct (N.eqb_spec a b); [exfalso; apply Hn; left; auto|reflexivity]. }
  rewrite K. auto.
Qed.

Ltac done := wnorm; cbn [o_tx o_rel]; wnorm; cbn [o_tx o_rel]; wnorm; unfold body in *; cbn [pm_body pm_hdr fst snd] in *; try lia.

(* ================================================================== *)
(* cooked SURVEYOR *)
Definition sp_ok (x : spipe) : Prop := sp_busy x = false -> sp_held x = [].
Definition SLInv (s : surv) : Prop :=
  NoDup (map fst (sv_ctxs s)) /\ NoDup (map fst (sv_pipes s)) /\ Forall (fun px => sp_ok (snd px)) (sv_pipes s).

(* the environment: an aio is submitted once at a time (a send is not posted on an aio that
   waits in a receive queue), a pipe id is started once, a context id is opened once *)
Definition surv_ok (s : surv) (o : pop) : Prop :=
  match o with
  | PSend _ a _ _ => existsb (fun kc => has_id a (sc_rq (snd kc))) (sv_ctxs s) = false
  | PPipeStart p _ => has_id p (map fst (sv_pipes s)) = false
  | PCtxOpen c => kget (ckey (Some c)) (sv_ctxs s) = None
  | _ => True
  end.

Lemma surv_inv_init : SLInv surv_init.
Proof.
  split; [|split]; cbn.
  - constructor; [tauto|constructor].
  - constructor.
  - constructor.
Qed.

Lemma surv_omega F s :
  w_omega F view_surv s = QH sc_lmq F (sv_ctxs s) + QH sp_q F (sv_pipes s) + TH sp_held F (sv_pipes s).
Proof.
  unfold w_omega. cbn [view_surv VSurv.view v_held v_tx v_att].
  rewrite wsum_app, wsum_nil, !wsum_held.
  change (flat_map (fun px => map (fun m => (fst px, m)) (sp_held (snd px))) (sv_pipes s)) with (ptx sp_held (sv_pipes s)).
  rewrite wsum_ptx. lia.
Qed.

Lemma fanout_sum F m : forall l l' o,
  Forall (fun px => sp_ok (snd px)) l -> fanout m l = (l', o) ->
  (QH sp_q F l + TH sp_held F l
     + wsum (fun _ : pid * spipe => F (OProto, body m)) (filter (fun px => VSurv.pipe_takes (snd px)) l) + o_tx F o
   = QH sp_q F l' + TH sp_held F l' + o_rel F o)
  /\ no_send_done o = true /\ map fst l' = map fst l /\ Forall (fun px => sp_ok (snd px)) l'.
Proof.
  induction l as [|[p x] l IH]; intros l' o Hf H; cbn [fanout] in H.
  - inversion H; subst. repeat split; auto.
  - inversion Hf as [|? ? Hx Hl]; subst. cbn [snd] in Hx.
    destruct (fanout m l) as [r' o'] eqn:E. destruct (IH r' o' Hl eq_refl) as (S1 & S2 & S3 & S4).
    cbn [filter snd]. unfold VSurv.pipe_takes at 1.
    destruct (sp_closed x) eqn:C; cbn [negb andb] in *.
    { inversion H; subst. rewrite !QH_cons, !TH_cons. cbn [map fst].
      split; [lia|]. split; [auto|]. split; [congruence|]. constructor; auto. }
    destruct (sp_busy x) eqn:B; cbn [negb orb] in *.
    + destruct (length (sp_q x) <? SURV_SEND_BUF) eqn:L.
      * inversion H; subst. rewrite !QH_cons, !TH_cons. cbn [map fst sp_q sp_held]. wnorm.
        split; [lia|]. split; [auto|]. split; [congruence|]. constructor; auto. intros X; discriminate X.
      * inversion H; subst. rewrite !QH_cons, !TH_cons. cbn [map fst].
        split; [lia|]. split; [auto|]. split; [congruence|]. constructor; auto.
    + inversion H; subst. rewrite !QH_cons, !TH_cons. cbn [map fst sp_q sp_held o_tx o_rel no_send_done]. wnorm.
      rewrite (Hx B). wnorm.
      split; [lia|]. split; [auto|]. split; [congruence|]. constructor; auto. intros X; discriminate X.
Qed.

Lemma cancel_ctxs_sum F a rv : forall l l' o, cancel_ctxs a rv l = (l', o) ->
  QH sc_lmq F l' = QH sc_lmq F l /\ o_tx F o = 0 /\ o_rel F o = 0.
Proof.
  induction l as [|[k c] l IH]; intros l' o H; cbn [cancel_ctxs] in H.
  - inversion H; subst. auto.
  - destruct (has_id a (sc_rq c)).
    + inversion H; subst. rewrite !QH_cons. cbn [sc_lmq o_tx o_rel]. auto.
    + destruct (cancel_ctxs a rv l) as [r' o'] eqn:E. destruct (IH r' o' eq_refl) as (S1 & S2 & S3).
      inversion H; subst. rewrite !QH_cons. auto.
Qed.
Lemma expire_ctxs_sum F now : forall l l' o, expire_ctxs now l = (l', o) ->
  QH sc_lmq F l' = QH sc_lmq F l /\ o_tx F o = 0 /\ o_rel F o = 0.
Proof.
  induction l as [|[k c] l IH]; intros l' o H; cbn [expire_ctxs] in H.
  - inversion H; subst. auto.
  - destruct (expire_ctxs now l) as [r' o'] eqn:E. destruct (IH r' o' eq_refl) as (S1 & S2 & S3).
    destruct (sc_rq c) eqn:R.
    + inversion H; subst. rewrite !QH_cons. auto.
    + destruct (sc_expire c <? Z.of_N now)%Z; inversion H; subst; rewrite !QH_cons; cbn [sc_lmq o_tx o_rel]; wnorm; repeat split; lia.
Qed.

Lemma surv_accepted_send s c a nb m cx :
  kget (ckey c) (sv_ctxs s) = Some cx ->
  VSurv.accepted s (PSend c a nb m) =
  let ctxs1 := kset (ckey c) (mkSctx 0 [] [] (sc_stime cx) (sc_expire cx)) (sv_ctxs s) in
  match id_alloc (S (length (live_ids ctxs1))) (live_ids ctxs1) (sv_cur s) with Some _ => [m] | None => [] end.
Proof. intros H. unfold VSurv.accepted. rewrite H. reflexivity. Qed.

Lemma in_ctx_idle a (l : list (N * sctx)) k cx :
  existsb (fun kc => has_id a (sc_rq (snd kc))) l = false -> kget k l = Some cx -> ~ In a (sc_rq cx).
Proof.
  intros H K Hi. apply kget_in in K.
  assert (X : existsb (fun kc => has_id a (sc_rq (snd kc))) l = true).
  { apply existsb_exists. exists (k, cx). split; auto. apply has_id_in. exact Hi. }
  congruence.
Qed.

Ltac sview := rewrite !surv_omega; cbn [sv_ctxs sv_pipes set_ctxs set_pipes set_readable set_cur].
Ltac sview_clones Hacc :=
  cbn [v_extra v_clones v_dups view_surv VSurv.view]; unfold VSurv.clones, no_keys; rewrite Hacc; cbn [flat_map map app].

Lemma surv_law_sum nbfix s o s' outs :
  SLInv s -> surv_ok s o -> surv_step nbfix s o = (s', outs) -> law_sum view_surv s o s' outs.
Proof.
  intros (I1 & I2 & I3) Hok H.
  destruct o as [c a nb m|c a nb|a rv|p peer|p|p rv|p rv m|c op|c|c| |now].
  2-12: apply law_sum_quiet; [reflexivity|intros; discriminate|reflexivity|reflexivity|reflexivity|intros F].
  - (* PSend *)
    cbn [surv_ok] in Hok. cbn [surv_step ctx_abort] in H. intros F. cbv zeta.
    destruct (kget (ckey c) (sv_ctxs s)) as [cx|] eqn:KC.
    2:{ injection H as <- <-.
        assert (Hacc : VSurv.accepted s (PSend c a nb m) = []) by (unfold VSurv.accepted; rewrite KC; reflexivity).
        sview_clones Hacc. cbn [op_add op_del s_take s_del o_tx o_rel]. rewrite send_key_self.
        change (E_CLOSED =? 0)%N with false. cbn iota. done. }
    pose proof (surv_accepted_send s c a nb m cx KC) as Hacc. cbv zeta in Hacc.
    pose proof (in_ctx_idle a _ _ _ Hok KC) as Hna.
    destruct (s_fail_other view_surv F s c a nb m E_CANCELED (sc_rq cx) eq_refl Hna) as [A1 B1].
    pose proof (QH_kset sc_lmq F (ckey c) (mkSctx 0 [] [] (sc_stime cx) (sc_expire cx)) (sv_ctxs s) cx KC) as K1.
    cbn [sc_lmq] in K1.
    set (ctxs1 := kset (ckey c) (mkSctx 0 [] [] (sc_stime cx) (sc_expire cx)) (sv_ctxs s)) in *.
    destruct (id_alloc (S (length (live_ids ctxs1))) (live_ids ctxs1) (sv_cur s)) as [[id cur']|] eqn:IA.
    + destruct (fanout (mkPmsg (be32 id) (pm_body m)) (sv_pipes s)) as [pipes' tx] eqn:FO.
      injection H as <- <-.
      destruct (fanout_sum F _ _ _ _ I3 FO) as (S1 & S2 & S3 & S4).
      change (body (mkPmsg (be32 id) (pm_body m))) with (body m) in S1.
      destruct (s_quiet view_surv F s (PSend c a nb m) tx S2) as [A2 B2].
      pose proof (QH_kset sc_lmq F (ckey c)
                    (mkSctx id [] [] (sc_stime cx) (Z.of_N (sv_now s) + sc_stime cx)) ctxs1 _ (kget_kset_eq _ _ _)) as K2.
      cbn [sc_lmq] in K2.
      sview_clones Hacc. sview. cbn [op_add op_del]. wnorm. rewrite A1, B1, A2, B2.
      cbn [s_take s_del o_tx o_rel]. rewrite send_key_self. change (E_OK =? 0)%N with true. cbn iota. done.
    + injection H as <- <-. sview_clones Hacc. sview. cbn [op_add op_del]. wnorm. rewrite A1, B1.
      cbn [s_take s_del o_tx o_rel]. rewrite send_key_self. change (E_NOMEM =? 0)%N with false. cbn iota. done.
  - (* PRecv *)
    cbn [surv_step] in H. cbn [op_add op_del].
    destruct (kget (ckey c) (sv_ctxs s)) as [cx|] eqn:KC; [|injection H as <- <-; cbn [o_tx o_rel]; lia].
    destruct (N.eqb (sc_survey cx) 0 || (sc_expire cx <=? Z.of_N (sv_now s))%Z); [injection H as <- <-; cbn [o_tx o_rel]; lia|].
    destruct (sc_lmq cx) as [|m r] eqn:L.
    + destruct (nb && nbfix); [injection H as <- <-; cbn [o_tx o_rel]; lia|].
      injection H as <- <-.
      pose proof (QH_kset sc_lmq F (ckey c) (mkSctx (sc_survey cx) [] (sc_rq cx ++ [a]) (sc_stime cx) (sc_expire cx)) _ _ KC) as K1.
      cbn [sc_lmq] in K1. rewrite L in K1. sview. cbn [o_tx o_rel]. done.
    + injection H as <- <-.
      pose proof (QH_kset sc_lmq F (ckey c) (mkSctx (sc_survey cx) r (sc_rq cx) (sc_stime cx) (sc_expire cx)) _ _ KC) as K1.
      cbn [sc_lmq] in K1. rewrite L in K1.
      destruct (isnil r && N.eqb (ckey c) 0); sview; cbn [o_tx o_rel]; change (E_OK =? 0)%N with true; cbn iota; done.
  - (* PCancel *)
    cbn [surv_step] in H. cbn [op_add op_del].
    destruct (cancel_ctxs a rv (sv_ctxs s)) as [cs o] eqn:E. injection H as <- <-.
    destruct (cancel_ctxs_sum F _ _ _ _ _ E) as (S1 & S2 & S3). sview. lia.
  - (* PPipeStart *)
    cbn [surv_step] in H. cbn [op_add op_del].
    destruct (negb (peer =? PROTO_RESPONDENT)%N); injection H as <- <-; [cbn [o_tx o_rel]; lia|].
    sview. rewrite QH_snoc, TH_snoc. cbn [sp_q sp_held o_tx o_rel]. done.
  - (* PPipeClose *)
    cbn [surv_step] in H. cbn [op_add op_del].
    destruct (kget p (sv_pipes s)) as [x|] eqn:KP; injection H as <- <-; [|cbn [o_tx o_rel]; lia].
    pose proof (QH_kset sp_q F p (mkSpipe [] (sp_busy x) (sp_held x) true) _ _ KP) as K1.
    pose proof (TH_kset sp_held F p (mkSpipe [] (sp_busy x) (sp_held x) true) _ _ KP) as K2.
    cbn [sp_q sp_held] in K1, K2. sview. done.
  - (* PSendDone *)
    cbn [surv_step] in H. cbn [op_add op_del v_tx view_surv VSurv.view].
    change (flat_map (fun px => map (fun m => (fst px, m)) (sp_held (snd px))) (sv_pipes s)) with (ptx sp_held (sv_pipes s)).
    destruct (kget p (sv_pipes s)) as [x|] eqn:KP.
    2:{ injection H as <- <-. rewrite (tx_of_ptx_none sp_held p _ KP). destruct (rv =? 0)%N; cbn [o_tx o_rel]; done. }
    rewrite (tx_of_ptx_some sp_held p _ x I2 KP).
    destruct (N.eqb_spec rv 0) as [->|Hrv]; cbn [negb] in H.
    + destruct (sp_closed x).
      * injection H as <- <-.
        pose proof (QH_kset sp_q F p (mkSpipe (sp_q x) (sp_busy x) [] true) _ _ KP) as K1.
        pose proof (TH_kset sp_held F p (mkSpipe (sp_q x) (sp_busy x) [] true) _ _ KP) as K2.
        cbn [sp_q sp_held] in K1, K2. sview. cbn [o_tx o_rel]. done.
      * destruct (sp_q x) as [|m r] eqn:Q; injection H as <- <-.
        -- pose proof (QH_kset sp_q F p (mkSpipe [] false [] false) _ _ KP) as K1.
           pose proof (TH_kset sp_held F p (mkSpipe [] false [] false) _ _ KP) as K2.
           cbn [sp_q sp_held] in K1, K2. rewrite Q in K1. sview. cbn [o_tx o_rel]. done.
        -- pose proof (QH_kset sp_q F p (mkSpipe r true [m] false) _ _ KP) as K1.
           pose proof (TH_kset sp_held F p (mkSpipe r true [m] false) _ _ KP) as K2.
           cbn [sp_q sp_held] in K1, K2. rewrite Q in K1. sview. cbn [o_tx o_rel]. done.
    + injection H as <- <-.
      pose proof (QH_kset sp_q F p (mkSpipe (sp_q x) (sp_busy x) [] (sp_closed x)) _ _ KP) as K1.
      pose proof (TH_kset sp_held F p (mkSpipe (sp_q x) (sp_busy x) [] (sp_closed x)) _ _ KP) as K2.
      cbn [sp_q sp_held] in K1, K2. sview. cbn [o_tx o_rel]. done.
  - (* PRecvDone *)
    cbn [surv_step] in H. cbn [op_add op_del v_rx view_surv VSurv.view]. unfold VSurv.rx.
    destruct (N.eqb_spec rv 0) as [->|Hrv]; cbn [negb] in H; [|injection H as <- <-; cbn [o_tx o_rel]; lia].
    destruct (surv_recv (pm_body m)) as [[[id hdr] rest]|] eqn:SR; [|injection H as <- <-; cbn [o_tx o_rel]; done].
    destruct (find_owner id (sv_ctxs s)) as [[k c]|] eqn:FO; [|injection H as <- <-; cbn [o_tx o_rel]; done].
    assert (KC : kget k (sv_ctxs s) = Some c) by (apply in_kget; [exact I1|]; apply (find_owner_some _ _ _ _ FO)).
    destruct (SURV_RECV_BUF <=? length (sc_lmq c)); [injection H as <- <-; cbn [o_tx o_rel]; done|].
    destruct (sc_rq c) as [|a r] eqn:R; injection H as <- <-.
    + pose proof (QH_kset sc_lmq F k (mkSctx (sc_survey c) (sc_lmq c ++ [mkPmsg (pm_hdr m ++ hdr) rest]) [] (sc_stime c) (sc_expire c)) _ _ KC) as K1.
      cbn [sc_lmq] in K1. destruct (N.eqb k 0); sview; cbn [o_tx o_rel]; done.
    + pose proof (QH_kset sc_lmq F k (mkSctx (sc_survey c) (sc_lmq c) r (sc_stime c) (sc_expire c)) _ _ KC) as K1.
      cbn [sc_lmq] in K1. sview. cbn [o_tx o_rel]. change (E_OK =? 0)%N with true. cbn iota. done.
  - (* PSetOpt *)
    cbn [op_add op_del].
    destruct op; destruct c; cbn [surv_step] in H;
      repeat match type of H with
             | context [if ?b then _ else _] => destruct b
             end;
      try (injection H as <- <-; cbn [o_tx o_rel]; sview; lia).
    all: destruct (kget _ (sv_ctxs s)) as [cx|] eqn:KC; injection H as <- <-; cbn [o_tx o_rel]; [|lia].
    all: match goal with |- context [kset ?k ?y _] => pose proof (QH_kset sc_lmq F k y _ _ KC) as K1 end;
      cbn [sc_lmq] in K1; sview; lia.
  - (* PCtxOpen *)
    cbn [surv_step] in H. cbn [op_add op_del surv_ok] in *. injection H as <- <-. sview.
    rewrite (QH_kset_none sc_lmq F _ _ _ Hok). cbn [ctx_init sc_lmq o_tx o_rel]. done.
  - (* PCtxClose *)
    cbn [surv_step ctx_abort] in H. cbn [op_add op_del].
    destruct (kget (ckey (Some c)) (sv_ctxs s)) as [cx|] eqn:KC; injection H as <- <-; [|cbn [o_tx o_rel]; lia].
    pose proof (QH_kdel sc_lmq F _ _ _ I1 KC) as K1. cbn [ckey] in *. sview. done.
  - (* PSockClose *)
    cbn [surv_step ctx_abort] in H. cbn [op_add op_del].
    destruct (kget 0%N (sv_ctxs s)) as [cx|] eqn:KC; injection H as <- <-; [|cbn [o_tx o_rel]; lia].
    pose proof (QH_kset sc_lmq F 0%N (mkSctx 0 [] [] (sc_stime cx) (sc_expire cx)) _ _ KC) as K1.
    cbn [sc_lmq] in K1. sview. done.
  - (* PTick *)
    cbn [surv_step] in H. cbn [op_add op_del].
    destruct (expire_ctxs now (sv_ctxs s)) as [cs o] eqn:E. injection H as <- <-.
    destruct (expire_ctxs_sum F _ _ _ _ E) as (S1 & S2 & S3). sview. lia.
Qed.

Ltac split_step H :=
  repeat match type of H with
         | context [match ?b with _ => _ end] => destruct b eqn:?
         end;
  injection H as <- <-.
Ltac sinv := unfold SLInv; cbn [sv_ctxs sv_pipes set_ctxs set_pipes set_readable]; split; [|split];
             try assumption; try (repeat apply nodup_kset; assumption); try (apply nodup_kdel; assumption).

Lemma surv_linv_step nbfix s o s' outs : SLInv s -> surv_ok s o -> surv_step nbfix s o = (s', outs) -> SLInv s'.
Proof.
  intros (I1 & I2 & I3) Hok H.
  destruct o as [c a nb m|c a nb|a rv|p peer|p|p rv|p rv m|c op|c|c| |now]; cbn [surv_step ctx_abort] in H.
  - (* PSend *)
    destruct (kget (ckey c) (sv_ctxs s)) as [cx|] eqn:KC; [|injection H as <- <-; sinv].
    destruct (id_alloc _ _ _) as [[id cur']|]; [|injection H as <- <-; sinv].
    destruct (fanout _ (sv_pipes s)) as [pipes' tx] eqn:FO. injection H as <- <-.
    destruct (fanout_sum (fun _ => 0) _ _ _ _ I3 FO) as (_ & _ & S3 & S4).
    sinv. now rewrite S3.
  - split_step H; sinv.
  - destruct (cancel_ctxs a rv (sv_ctxs s)) as [cs o] eqn:E. injection H as <- <-.
    pose proof (cancel_ctxs_keys a rv (sv_ctxs s)) as K. rewrite E in K. cbn [fst] in K. sinv. now rewrite K.
  - (* PPipeStart *)
    cbn [surv_ok] in Hok. destruct (negb (peer =? PROTO_RESPONDENT)%N); injection H as <- <-; sinv.
    + rewrite map_app. cbn [map fst]. apply nodup_snoc; [assumption|]. intros Hi. apply has_id_in in Hi. congruence.
    + apply Forall_app. split; [assumption|]. constructor; [|constructor]. intros _. reflexivity.
  - (* PPipeClose *)
    destruct (kget p (sv_pipes s)) as [x|] eqn:KP; injection H as <- <-; sinv.
    apply forall_kset; [assumption|]. cbn [snd]. unfold sp_ok. cbn [sp_busy sp_held].
    rewrite Forall_forall in I3. exact (I3 _ (kget_in _ _ _ KP)).
  - (* PSendDone *)
    destruct (kget p (sv_pipes s)) as [x|] eqn:KP; [|injection H as <- <-; sinv].
    split_step H; sinv; (apply forall_kset; [assumption|]); cbn [snd]; unfold sp_ok; cbn [sp_busy sp_held]; auto; discriminate.
  - split_step H; sinv.
  - destruct op; destruct c; cbn [surv_step] in H; split_step H; sinv.
  - injection H as <- <-. sinv.
  - split_step H; sinv.
  - split_step H; sinv.
  - destruct (expire_ctxs now (sv_ctxs s)) as [cs o] eqn:E. injection H as <- <-.
    pose proof (expire_ctxs_keys now (sv_ctxs s)) as K. rewrite E in K. cbn [fst] in K.
    unfold SLInv. cbn [sv_ctxs sv_pipes]. rewrite K. auto.
Qed.

Lemma surv_accepted_out nbfix s o s' outs m0 :
  In m0 (VSurv.accepted s o) -> surv_step nbfix s o = (s', outs) ->
  exists c a nb, o = PSend c a nb m0 /\ In (Complete a E_OK None) outs.
Proof.
  intros Hi H. destruct o as [c a nb m| | | | | | | | | | | ]; try destruct Hi.
  cbn [surv_step ctx_abort] in H.
  destruct (kget (ckey c) (sv_ctxs s)) as [cx|] eqn:KC; [|unfold VSurv.accepted in Hi; rewrite KC in Hi; destruct Hi].
  rewrite (surv_accepted_send s c a nb m cx KC) in Hi. cbv zeta in Hi.
  destruct (id_alloc _ _ _) as [[id cur']|]; [|destruct Hi].
  destruct Hi as [<-|[]]. destruct (fanout _ (sv_pipes s)) as [pipes' tx]. injection H as <- <-.
  exists c, a, nb. split; [reflexivity|]. apply in_or_app. right. apply in_or_app. right. left. reflexivity.
Qed.

Theorem surv_proto_law : forall nbfix, proto_law view_surv (surv_step nbfix) SLInv surv_ok.
Proof.
  intros nbfix s o s' outs HI Hok H. split; [exact (surv_linv_step nbfix s o s' outs HI Hok H)|]. split.
  - apply law_sum_eq. exact (surv_law_sum nbfix s o s' outs HI Hok H).
  - apply clones_held_intro. intros k Hk. right. left.
    cbn [v_clones view_surv VSurv.view] in Hk. unfold VSurv.clones in Hk.
    apply in_flat_map in Hk. destruct Hk as [m0 [Hm Hk]].
    apply in_map_iff in Hk. destruct Hk as [px [<- _]].
    destruct (surv_accepted_out nbfix s o s' outs m0 Hm H) as (c & a & nb & -> & Hin).
    exists a. split; [exact Hin|apply send_key_self].
Qed.

(* a history on which the environment's contract holds: pipe start, survey, transport
   completion, response delivered, receive, option change, context open, tick, pipe close, close *)
Example surv_ok_nonvacuous :
  ops_ok (surv_step false) surv_ok surv_init
    [PPipeStart 1 PROTO_RESPONDENT; PSend None 1 false (mkPmsg [] [7%N]); PSendDone 1 0;
     PRecvDone 1 0 (mkPmsg [] [128; 0; 0; 1; 9]%N); PRecv None 2 false;
     PSetOpt None (OSurveyTime 500); PCtxOpen 5; PSend (Some 5%N) 3 false (mkPmsg [] [8%N]);
     PTick 10; PPipeClose 1; PSockClose].
Proof. vm_compute. repeat split. Qed.

(* ================================================================== *)
(* raw SURVEYOR and raw RESPONDENT: the upper read queue and the pipe records they share *)
Definition xp_ok (x : xpipe) : Prop := xp_busy x = false -> xp_held x = [].
Definition pipes_inv (l : list (pid * xpipe)) : Prop := NoDup (map fst l) /\ Forall (fun px => xp_ok (snd px)) l.

(* the references the upper read queue stands for: queued messages and those of the blocked writers *)
Definition US (F : owner * key -> nat) (u : urq) : nat :=
  qs F (uq_q u) + wsum (fun x : pid * pmsg => F (OProto, body (snd x))) (uq_writers u).

Lemma raw_omega F pipes u :
  qs F (VXsurv.pipes_held pipes ++ VXsurv.urq_held u)
  + wsum (fun x => F (OPipe (fst x), body (snd x))) (VXsurv.pipes_tx pipes)
  = QH xp_q F pipes + US F u + TH xp_held F pipes.
Proof.
  unfold VXsurv.pipes_held, VXsurv.urq_held, US. rewrite !wsum_app, wsum_map, wsum_held.
  change (VXsurv.pipes_tx pipes) with (ptx xp_held pipes). rewrite wsum_ptx. lia.
Qed.

Ltac inj H := injection H as <- <-.

Lemma run_putq_sum F : forall fuel u u' o, run_putq fuel u = (u', o) -> US F u = US F u' + o_rel F o /\ o_tx F o = 0.
Proof.
  induction fuel as [|f IH]; intros u u' o H; cbn [run_putq] in H; [inj H; cbn [o_tx o_rel]; lia|].
  destruct (uq_writers u) as [|[p m] ws] eqn:W; [inj H; cbn [o_tx o_rel]; lia|].
  destruct (uq_readers u) as [|a rs] eqn:R.
  - destruct (length (uq_q u) <? uq_cap u); [|inj H; cbn [o_tx o_rel]; lia].
    destruct (run_putq f _) as [u1 o1] eqn:E. destruct (IH _ _ _ E) as [S1 S2]. inj H.
    unfold US in *. cbn [uq_q uq_writers] in S1. rewrite W. cbn [o_tx o_rel]. done.
  - destruct (run_putq f _) as [u1 o1] eqn:E. destruct (IH _ _ _ E) as [S1 S2]. inj H.
    unfold US in *. cbn [uq_q uq_writers] in S1. rewrite W. cbn [o_tx o_rel]. change (E_OK =? 0)%N with true. cbn iota. done.
Qed.
Lemma run_getq_sum F : forall fuel u u' o, run_getq fuel u = (u', o) -> US F u = US F u' + o_rel F o /\ o_tx F o = 0.
Proof.
  induction fuel as [|f IH]; intros u u' o H; cbn [run_getq] in H; [inj H; cbn [o_tx o_rel]; lia|].
  destruct (uq_readers u) as [|a rs] eqn:R; [inj H; cbn [o_tx o_rel]; lia|].
  destruct (uq_q u) as [|m q'] eqn:Q.
  - destruct (uq_writers u) as [|[p m] ws] eqn:W; [inj H; cbn [o_tx o_rel]; lia|].
    destruct (run_getq f _) as [u1 o1] eqn:E. destruct (IH _ _ _ E) as [S1 S2]. inj H.
    unfold US in *. cbn [uq_q uq_writers] in S1. rewrite W, Q. cbn [o_tx o_rel]. change (E_OK =? 0)%N with true. cbn iota. done.
  - destruct (run_getq f _) as [u1 o1] eqn:E. destruct (IH _ _ _ E) as [S1 S2]. inj H.
    unfold US in *. cbn [uq_q uq_writers] in S1. rewrite Q. cbn [o_tx o_rel]. change (E_OK =? 0)%N with true. cbn iota. done.
Qed.
Lemma urq_put_sum F u p m u' o : urq_put u p m = (u', o) -> US F u + F (OProto, body m) = US F u' + o_rel F o /\ o_tx F o = 0.
Proof.
  unfold urq_put. intros H. destruct (run_putq_sum F _ _ _ _ H) as [S1 S2]. split; [|exact S2].
  unfold US in *. cbn [uq_q uq_writers] in S1. done.
Qed.
Lemma urq_get_sum F u a u' o : urq_get u a = (u', o) -> US F u = US F u' + o_rel F o /\ o_tx F o = 0.
Proof. unfold urq_get. intros H. exact (run_getq_sum F _ _ _ _ H). Qed.
Lemma urq_get_fx_sum F fx u a u' o : urq_get_fx fx u a = (u', o) -> US F u = US F u' + o_rel F o /\ o_tx F o = 0.
Proof.
  unfold urq_get_fx. destruct (urq_get u a) as [u1 o1] eqn:E. destruct (urq_get_sum F _ _ _ _ E) as [S1 S2].
  destruct (mf_getput fx); intros H.
  - destruct (run_putq _ u1) as [u2 o2] eqn:E2. destruct (run_putq_sum F _ _ _ _ E2) as [P1 P2]. inj H. done.
  - inj H. auto.
Qed.
Lemma urq_user_recv_sum F fx u a nb u' o : urq_user_recv fx u a nb = (u', o) -> US F u = US F u' + o_rel F o /\ o_tx F o = 0.
Proof.
  unfold urq_user_recv. destruct (nb && (negb (mf_nb fx) || urq_get_waits u)); intros H.
  - inj H. cbn [o_tx o_rel]. lia.
  - exact (urq_get_fx_sum F _ _ _ _ _ H).
Qed.
Lemma urq_cancel_sum F u a rv u' o : urq_cancel u a rv = (u', o) -> US F u = US F u' + o_rel F o /\ o_tx F o = 0.
Proof. unfold urq_cancel. destruct (has_id a (uq_readers u)); intros H; inj H; unfold US; cbn [uq_q uq_writers o_tx o_rel]; lia. Qed.
Lemma urq_drop_writer_sum F u p u' o : urq_drop_writer u p = (u', o) -> US F u = US F u' + o_rel F o /\ o_tx F o = 0.
Proof.
  unfold urq_drop_writer. intros H. inj H. unfold US. cbn [uq_q uq_writers].
  pose proof (wsum_filter_key (fun x : N * pmsg => F (OProto, body (snd x))) p (uq_writers u)) as K.
  rewrite o_tx_Free, o_rel_Free, wsum_map. lia.
Qed.
Lemma urq_close_sum F u u' o : urq_close u = (u', o) -> US F u = US F u' + o_rel F o /\ o_tx F o = 0.
Proof. unfold urq_close. intros H. inj H. unfold US. cbn [uq_q uq_writers]. done. Qed.
Lemma urq_resize_sum F fx u n u' o : urq_resize fx u n = (u', o) -> US F u = US F u' + o_rel F o /\ o_tx F o = 0.
Proof.
  unfold urq_resize. intros H.
  set (ex := length (uq_q u) - (n + 1)) in *.
  assert (S0 : US F u = US F (mkUrq (skipn ex (uq_q u)) n (uq_readers u) (uq_writers u)) + qs F (firstn ex (uq_q u))).
  { unfold US. cbn [uq_q uq_writers]. rewrite <- (firstn_skipn ex (uq_q u)) at 1. wnorm. lia. }
  destruct (mf_resize fx).
  - destruct (run_putq _ _) as [u2 o2] eqn:E2. destruct (run_getq _ u2) as [u3 o3] eqn:E3. inj H.
    destruct (run_putq_sum F _ _ _ _ E2) as [P1 P2]. destruct (run_getq_sum F _ _ _ _ E3) as [G1 G2]. done.
  - inj H. done.
Qed.
Lemma raw_setopt_sum F fx ttl u uw c op t u' w o :
  raw_setopt fx ttl u uw c op = (t, u', w, o) -> US F u = US F u' + o_rel F o /\ o_tx F o = 0.
Proof.
  unfold raw_setopt. intros H.
  destruct c; destruct op;
    repeat match type of H with context [if ?b then _ else _] => destruct b end;
    try (injection H as <- <- <- <-; cbn [o_tx o_rel]; lia).
  destruct (urq_resize fx u n) as [u1 o1] eqn:E. destruct (urq_resize_sum F _ _ _ _ _ E) as [S1 S2].
  injection H as <- <- <- <-. done.
Qed.

(* nni_msgq_tryput on a pipe's send queue: the offered reference goes to the pipe, into the queue, or is freed *)
Lemma xpipe_tryput_sum F cap p x m x' o :
  xp_ok x -> xpipe_tryput cap p x m = (x', o) ->
  (qs F (xp_q x) + ts F p (xp_held x) + F (OProto, body m) + o_tx F o
   = qs F (xp_q x') + ts F p (xp_held x') + o_rel F o)
  /\ no_send_done o = true /\ xp_ok x'.
Proof.
  unfold xpipe_tryput, xp_ok. intros Hx H.
  destruct (xp_closed x); [inj H; cbn [o_tx o_rel no_send_done]; repeat split; auto; lia|].
  destruct (xp_busy x) eqn:B; cbn [negb] in H.
  - destruct (length (xp_q x) <? cap); inj H; cbn [o_tx o_rel no_send_done xp_q xp_held xp_busy]; wnorm;
      (split; [lia|split; [reflexivity|]]). all: first [exact Hx|intros X; congruence].
  - inj H. cbn [o_tx o_rel no_send_done xp_q xp_held xp_busy]. rewrite (Hx eq_refl). wnorm.
    split; [lia|split; [reflexivity|]]. intros X; discriminate X.
Qed.
(* send_cb *)
Lemma xpipe_sent_sum F p x rv x' o :
  xpipe_sent p x rv = (x', o) ->
  (qs F (xp_q x) + (if N.eqb rv 0 then 0 else qs F (xp_held x)) + o_tx F o
   = qs F (xp_q x') + ts F p (xp_held x') + o_rel F o)
  /\ xp_ok x'.
Proof.
  unfold xpipe_sent, xp_ok. intros H. destruct (N.eqb rv 0); cbn [negb] in H.
  - destruct (xp_closed x); [inj H; cbn [o_tx o_rel xp_q xp_held xp_busy]; wnorm; split; [lia|auto]|].
    destruct (xp_q x) as [|m r]; inj H; cbn [o_tx o_rel xp_q xp_held xp_busy]; wnorm; (split; [lia|auto]).
    intros X; discriminate X.
  - inj H. cbn [xp_q xp_held xp_busy]. done. split; [lia|auto].
Qed.

(* xsurv0_sock_getq_cb *)
Lemma xfanout_sum F m : forall l l' o,
  Forall (fun px => xp_ok (snd px)) l -> xfanout m l = (l', o) ->
  (QH xp_q F l + TH xp_held F l
     + wsum (fun _ : pid * xpipe => F (OProto, body m)) (filter (fun px => negb (xp_closed (snd px))) l) + o_tx F o
   = QH xp_q F l' + TH xp_held F l' + o_rel F o)
  /\ no_send_done o = true /\ map fst l' = map fst l /\ Forall (fun px => xp_ok (snd px)) l'.
Proof.
  induction l as [|[p x] l IH]; intros l' o Hf H; cbn [xfanout] in H.
  - inj H. repeat split; auto.
  - inversion Hf as [|? ? Hx Hl]; subst. cbn [snd] in Hx.
    destruct (xfanout m l) as [r' o'] eqn:E. destruct (IH r' o' Hl eq_refl) as (S1 & S2 & S3 & S4).
    cbn [filter snd].
    destruct (xp_closed x) eqn:C; cbn [negb].
    + inj H. rewrite !QH_cons, !TH_cons. cbn [map fst].
      split; [lia|]. split; [auto|]. split; [congruence|]. constructor; auto.
    + destruct (xpipe_tryput XSURV_SENDQ p x m) as [x' o1] eqn:T. inj H.
      destruct (xpipe_tryput_sum F _ _ _ _ _ _ Hx T) as (T1 & T2 & T3).
      rewrite !QH_cons, !TH_cons. cbn [map fst]. wnorm.
      split; [lia|]. split.
      { clear - T2 S2. induction o1 as [|y o1 IHo]; [exact S2|]. cbn [app no_send_done] in *.
        destruct y; auto. destruct m; [auto|discriminate]. }
      split; [congruence|]. constructor; auto.
Qed.

(* ================================================================== *)
(* raw SURVEYOR *)
Definition XSInv (s : xsurv) : Prop := pipes_inv (xs_pipes s).
(* the environment: a pipe id is started once *)
Definition raw_ok (pipes : list (pid * xpipe)) (o : pop) : Prop :=
  match o with PPipeStart p _ => has_id p (map fst pipes) = false | _ => True end.
Definition xsurv_ok (s : xsurv) (o : pop) : Prop := raw_ok (xs_pipes s) o.

Lemma xsurv_inv_init : XSInv xsurv_init.
Proof. split; cbn; constructor. Qed.

Lemma xsurv_omega fx F s :
  w_omega F (VXsurv.view fx) s = QH xp_q F (xs_pipes s) + US F (xs_urq s) + TH xp_held F (xs_pipes s).
Proof.
  unfold w_omega. cbn [VXsurv.view v_held v_tx v_att]. rewrite wsum_nil.
  pose proof (raw_omega F (xs_pipes s) (xs_urq s)). lia.
Qed.

Lemma pipes_inv_kset l p y : pipes_inv l -> xp_ok y -> pipes_inv (kset p y l).
Proof. intros [H1 H2] Hy. split; [now apply nodup_kset|]. apply forall_kset; auto. Qed.
Lemma pipes_inv_start l p : pipes_inv l -> has_id p (map fst l) = false -> pipes_inv (l ++ [(p, xpipe_init)]).
Proof.
  intros [H1 H2] Hp. split.
  - rewrite map_app. cbn [map fst]. apply nodup_snoc; [assumption|]. intros Hi. apply has_id_in in Hi. congruence.
  - apply Forall_app. split; [assumption|]. constructor; [|constructor]. intros _. reflexivity.
Qed.
Lemma pipes_inv_get l p x : pipes_inv l -> kget p l = Some x -> xp_ok x.
Proof. intros [_ H2] K. rewrite Forall_forall in H2. exact (H2 _ (kget_in _ _ _ K)). Qed.

Ltac xview fx := rewrite !(xsurv_omega fx); cbn [xs_pipes xs_urq].

Lemma xsurv_law_sum fx s o s' outs :
  XSInv s -> xsurv_ok s o -> xsurv_step fx s o = (s', outs) -> law_sum (VXsurv.view fx) s o s' outs.
Proof.
  intros [I1 I2] Hok H.
  destruct o as [c a nb m|c a nb|a rv|p peer|p|p rv|p rv m|c op|c|c| |now].
  2-12: apply law_sum_quiet; [reflexivity|intros; discriminate|reflexivity|reflexivity|reflexivity|intros F].
  - (* PSend *)
    cbn [xsurv_step] in H. intros F. cbv zeta.
    cbn [v_extra v_clones v_dups VXsurv.view]. unfold VXsurv.clones, VXsurv.accepted, no_keys.
    destruct (nb && negb (mf_nb fx)).
    + inj H. cbn [flat_map map app op_add op_del s_take s_del]. rewrite send_key_self.
      change (E_AGAIN =? 0)%N with false. cbn iota. done.
    + destruct (xfanout m (xs_pipes s)) as [ps o1] eqn:X. inj H.
      destruct (xfanout_sum F _ _ _ _ I2 X) as (S1 & S2 & S3 & S4).
      destruct (s_quiet (VXsurv.view fx) F s (PSend c a nb m) o1 S2) as [A B].
      cbn [flat_map map app]. xview fx. cbn [op_add op_del s_take s_del]. rewrite send_key_self.
      change (E_OK =? 0)%N with true. cbn iota. rewrite A, B. done.
  - (* PRecv *)
    cbn [xsurv_step] in H. cbn [op_add op_del].
    destruct (urq_user_recv fx (xs_urq s) a nb) as [u' o1] eqn:E. inj H.
    destruct (urq_user_recv_sum F _ _ _ _ _ _ E) as [S1 S2]. xview fx. lia.
  - (* PCancel *)
    cbn [xsurv_step] in H. cbn [op_add op_del].
    destruct (urq_cancel (xs_urq s) a rv) as [u' o1] eqn:E. inj H.
    destruct (urq_cancel_sum F _ _ _ _ _ E) as [S1 S2]. xview fx. lia.
  - (* PPipeStart *)
    cbn [xsurv_step] in H. cbn [op_add op_del].
    destruct (negb (peer =? PROTO_RESPONDENT)%N); inj H; [cbn [o_tx o_rel]; lia|].
    xview fx. rewrite QH_snoc, TH_snoc. cbn [xpipe_init xp_q xp_held]. done.
  - (* PPipeClose *)
    cbn [xsurv_step] in H. cbn [op_add op_del].
    destruct (kget p (xs_pipes s)) as [x|] eqn:KP; [|inj H; cbn [o_tx o_rel]; lia].
    destruct (urq_drop_writer (xs_urq s) p) as [u' o1] eqn:E. inj H.
    destruct (urq_drop_writer_sum F _ _ _ _ E) as [S1 S2].
    pose proof (QH_kset xp_q F p (mkXpipe [] (xp_busy x) (xp_held x) true) _ _ KP) as K1.
    pose proof (TH_kset xp_held F p (mkXpipe [] (xp_busy x) (xp_held x) true) _ _ KP) as K2.
    cbn [xp_q xp_held] in K1, K2. xview fx. done.
  - (* PSendDone *)
    cbn [xsurv_step] in H. cbn [op_add op_del v_tx VXsurv.view].
    change (VXsurv.pipes_tx (xs_pipes s)) with (ptx xp_held (xs_pipes s)).
    destruct (kget p (xs_pipes s)) as [x|] eqn:KP.
    2:{ inj H. rewrite (tx_of_ptx_none xp_held p _ KP). destruct (rv =? 0)%N; done. }
    rewrite (tx_of_ptx_some xp_held p _ x I1 KP).
    destruct (xpipe_sent p x rv) as [x' o1] eqn:E. inj H.
    destruct (xpipe_sent_sum F _ _ _ _ _ E) as [S1 S2].
    pose proof (QH_kset xp_q F p x' _ _ KP) as K1. pose proof (TH_kset xp_held F p x' _ _ KP) as K2.
    xview fx. destruct (rv =? 0)%N; done.
  - (* PRecvDone *)
    cbn [xsurv_step] in H. cbn [op_add op_del v_rx VXsurv.view]. unfold VXsurv.rx.
    destruct (N.eqb_spec rv 0) as [->|Hrv]; cbn [negb] in H; [|inj H; cbn [o_tx o_rel]; lia].
    destruct (xsurv_recv (pm_body m)) as [hdr bd| |] eqn:SR; try (inj H; done).
    destruct (kget p (xs_pipes s)) as [x|] eqn:KP; [|inj H; done].
    destruct (xp_closed x); [inj H; done|].
    destruct (urq_put (xs_urq s) p _) as [u' o1] eqn:E. inj H.
    destruct (urq_put_sum F _ _ _ _ _ E) as [S1 S2]. xview fx. done.
  - (* PSetOpt *)
    cbn [xsurv_step] in H. cbn [op_add op_del].
    destruct (raw_setopt fx (xs_ttl s) (xs_urq s) (xs_uwcap s) c op) as [[[t u] w] o1] eqn:E. inj H.
    destruct (raw_setopt_sum F _ _ _ _ _ _ _ _ _ _ E) as [S1 S2]. xview fx. lia.
  - cbn [xsurv_step] in H. inj H. cbn [op_add op_del o_tx o_rel]. lia.
  - cbn [xsurv_step] in H. inj H. cbn [op_add op_del o_tx o_rel]. lia.
  - (* PSockClose *)
    cbn [xsurv_step] in H. cbn [op_add op_del].
    destruct (urq_close (xs_urq s)) as [u' o1] eqn:E. inj H.
    destruct (urq_close_sum F _ _ _ E) as [S1 S2]. xview fx. lia.
  - cbn [xsurv_step] in H. inj H. cbn [op_add op_del o_tx o_rel]. lia.
Qed.

Lemma xsurv_inv_step fx s o s' outs : XSInv s -> xsurv_ok s o -> xsurv_step fx s o = (s', outs) -> XSInv s'.
Proof.
  unfold XSInv. intros HI Hok H.
  destruct o as [c a nb m|c a nb|a rv|p peer|p|p rv|p rv m|c op|c|c| |now]; cbn [xsurv_step] in H.
  - destruct (nb && negb (mf_nb fx)); [inj H; exact HI|].
    destruct (xfanout m (xs_pipes s)) as [ps o1] eqn:X. inj H. destruct HI as [I1 I2].
    destruct (xfanout_sum (fun _ => 0) _ _ _ _ I2 X) as (_ & _ & S3 & S4). split; cbn [xs_pipes]; [now rewrite S3|exact S4].
  - destruct (urq_user_recv _ _ _ _). inj H. exact HI.
  - destruct (urq_cancel _ _ _). inj H. exact HI.
  - destruct (negb (peer =? PROTO_RESPONDENT)%N); inj H; [exact HI|]. apply pipes_inv_start; assumption.
  - destruct (kget p (xs_pipes s)) as [x|] eqn:KP; [|inj H; exact HI].
    destruct (urq_drop_writer _ _). inj H. cbn [xs_pipes]. apply pipes_inv_kset; [exact HI|].
    pose proof (pipes_inv_get _ _ _ HI KP) as Hx. unfold xp_ok in *. cbn [xp_busy xp_held]. exact Hx.
  - destruct (kget p (xs_pipes s)) as [x|] eqn:KP; [|inj H; exact HI].
    destruct (xpipe_sent p x rv) as [x' o1] eqn:E. inj H. cbn [xs_pipes].
    apply pipes_inv_kset; [exact HI|]. exact (proj2 (xpipe_sent_sum (fun _ => 0) _ _ _ _ _ E)).
  - split_step H; exact HI.
  - destruct (raw_setopt _ _ _ _ _ _) as [[[t u] w] o1]. inj H. exact HI.
  - inj H. exact HI.
  - inj H. exact HI.
  - destruct (urq_close _). inj H. exact HI.
  - inj H. exact HI.
Qed.

Theorem xsurv_proto_law : forall fx, proto_law (VXsurv.view fx) (xsurv_step fx) XSInv xsurv_ok.
Proof.
  intros fx s o s' outs HI Hok H. split; [exact (xsurv_inv_step fx s o s' outs HI Hok H)|]. split.
  - apply law_sum_eq. exact (xsurv_law_sum fx s o s' outs HI Hok H).
  - apply clones_held_intro. intros k Hk. right. left.
    cbn [v_clones VXsurv.view] in Hk. unfold VXsurv.clones in Hk.
    apply in_flat_map in Hk. destruct Hk as [m0 [Hm Hk]].
    apply in_map_iff in Hk. destruct Hk as [px [<- _]].
    destruct o as [c a nb m| | | | | | | | | | | ]; try destruct Hm.
    cbn [VXsurv.accepted] in Hm. cbn [xsurv_step] in H.
    destruct (nb && negb (mf_nb fx)); [destruct Hm|]. destruct Hm as [<-|[]].
    destruct (xfanout m (xs_pipes s)) as [ps o1]. inj H.
    exists a. split; [left; reflexivity|apply send_key_self].
Qed.

(* survey sent to two pipes, transport completion, a response queued and received, a blocked
   receive served by the next response, receive buffer resized, pipe close, socket close *)
Example xsurv_ok_nonvacuous :
  ops_ok (xsurv_step mqfix_none) xsurv_ok xsurv_init
    [PPipeStart 1 PROTO_RESPONDENT; PPipeStart 2 PROTO_RESPONDENT;
     PSend None 1 false (mkPmsg [128; 0; 0; 1]%N [7%N]); PSendDone 1 0; PSendDone 2 0;
     PRecvDone 1 0 (mkPmsg [] [128; 0; 0; 1; 9]%N); PRecv None 2 false; PRecv None 3 false;
     PRecvDone 2 0 (mkPmsg [] [128; 0; 0; 1; 10]%N);
     PSetOpt None (ORecvBuf 4); PCancel 4 20; PPipeClose 1; PSockClose].
Proof. vm_compute. repeat split. Qed.

(* ================================================================== *)
(* raw RESPONDENT *)
Definition XRInv (s : xresp) : Prop := pipes_inv (xr_pipes s).
Definition xresp_ok (s : xresp) (o : pop) : Prop := raw_ok (xr_pipes s) o.

Lemma xresp_inv_init : XRInv xresp_init.
Proof. split; cbn; constructor. Qed.

Lemma xresp_omega F s :
  w_omega F view_xresp s = QH xp_q F (xr_pipes s) + US F (xr_urq s) + TH xp_held F (xr_pipes s).
Proof.
  unfold w_omega. cbn [view_xresp VXresp.view v_held v_tx v_att]. rewrite wsum_nil.
  pose proof (raw_omega F (xr_pipes s) (xr_urq s)). lia.
Qed.

Ltac rview := rewrite !xresp_omega; cbn [xr_pipes xr_urq].

Lemma xresp_law_sum fx s o s' outs :
  XRInv s -> xresp_ok s o -> xresp_step fx s o = (s', outs) -> law_sum view_xresp s o s' outs.
Proof.
  intros HI Hok H. pose proof HI as [I1 I2].
  destruct o as [c a nb m|c a nb|a rv|p peer|p|p rv|p rv m|c op|c|c| |now].
  2-12: apply law_sum_quiet; [reflexivity|intros; discriminate|reflexivity|reflexivity|reflexivity|intros F].
  - (* PSend *)
    cbn [xresp_step] in H. intros F. cbv zeta.
    change (v_extra view_xresp s (PSend c a nb m) outs) with (@nil pmsg).
    change (v_clones view_xresp s (PSend c a nb m) ++ v_dups view_xresp s (PSend c a nb m)) with (@nil key).
    cbn [map]. rewrite app_nil_r, wsum_nil. cbn [op_add op_del].
    destruct (nb && negb (mf_nb fx)).
    { inj H. cbn [s_take s_del]. rewrite send_key_self. change (E_AGAIN =? 0)%N with false. cbn iota. done. }
    destruct (xresp_send (pm_hdr m)) as [[id hdr']|].
    2:{ inj H. cbn [s_take s_del]. rewrite send_key_self. change (E_OK =? 0)%N with true. cbn iota. done. }
    destruct (kget id (xr_pipes s)) as [x|] eqn:KP.
    2:{ inj H. cbn [s_take s_del]. rewrite send_key_self. change (E_OK =? 0)%N with true. cbn iota. done. }
    destruct (xp_closed x).
    { inj H. cbn [s_take s_del]. rewrite send_key_self. change (E_OK =? 0)%N with true. cbn iota. done. }
    destruct (xpipe_tryput XRESP_SENDQ id x _) as [x' o1] eqn:T. inj H.
    destruct (xpipe_tryput_sum F _ _ _ _ _ _ (pipes_inv_get _ _ _ HI KP) T) as (T1 & T2 & T3).
    destruct (s_quiet view_xresp F s (PSend c a nb m) o1 T2) as [A B].
    pose proof (QH_kset xp_q F id x' _ _ KP) as K1. pose proof (TH_kset xp_held F id x' _ _ KP) as K2.
    rview. cbn [s_take s_del]. rewrite send_key_self. change (E_OK =? 0)%N with true. cbn iota. rewrite A, B. done.
  - (* PRecv *)
    cbn [xresp_step] in H. cbn [op_add op_del].
    destruct (urq_user_recv fx (xr_urq s) a nb) as [u' o1] eqn:E. inj H.
    destruct (urq_user_recv_sum F _ _ _ _ _ _ E) as [S1 S2]. rview. lia.
  - (* PCancel *)
    cbn [xresp_step] in H. cbn [op_add op_del].
    destruct (urq_cancel (xr_urq s) a rv) as [u' o1] eqn:E. inj H.
    destruct (urq_cancel_sum F _ _ _ _ _ E) as [S1 S2]. rview. lia.
  - (* PPipeStart *)
    cbn [xresp_step] in H. cbn [op_add op_del].
    destruct (negb (peer =? PROTO_SURVEYOR)%N); inj H; [cbn [o_tx o_rel]; lia|].
    rview. rewrite QH_snoc, TH_snoc. cbn [xpipe_init xp_q xp_held]. done.
  - (* PPipeClose *)
    cbn [xresp_step] in H. cbn [op_add op_del].
    destruct (kget p (xr_pipes s)) as [x|] eqn:KP; [|inj H; cbn [o_tx o_rel]; lia].
    destruct (urq_drop_writer (xr_urq s) p) as [u' o1] eqn:E. inj H.
    destruct (urq_drop_writer_sum F _ _ _ _ E) as [S1 S2].
    pose proof (QH_kset xp_q F p (mkXpipe [] (xp_busy x) (xp_held x) true) _ _ KP) as K1.
    pose proof (TH_kset xp_held F p (mkXpipe [] (xp_busy x) (xp_held x) true) _ _ KP) as K2.
    cbn [xp_q xp_held] in K1, K2. rview. done.
  - (* PSendDone *)
    cbn [xresp_step] in H. cbn [op_add op_del v_tx view_xresp VXresp.view].
    change (VXsurv.pipes_tx (xr_pipes s)) with (ptx xp_held (xr_pipes s)).
    destruct (kget p (xr_pipes s)) as [x|] eqn:KP.
    2:{ inj H. rewrite (tx_of_ptx_none xp_held p _ KP). destruct (rv =? 0)%N; done. }
    rewrite (tx_of_ptx_some xp_held p _ x I1 KP).
    destruct (xpipe_sent p x rv) as [x' o1] eqn:E. inj H.
    destruct (xpipe_sent_sum F _ _ _ _ _ E) as [S1 S2].
    pose proof (QH_kset xp_q F p x' _ _ KP) as K1. pose proof (TH_kset xp_held F p x' _ _ KP) as K2.
    rview. destruct (rv =? 0)%N; done.
  - (* PRecvDone *)
    cbn [xresp_step] in H. cbn [op_add op_del v_rx view_xresp VXresp.view]. unfold VXresp.rx.
    destruct (N.eqb_spec rv 0) as [->|Hrv]; cbn [negb] in H; [|inj H; cbn [o_tx o_rel]; lia].
    destruct (xresp_recv p (xr_ttl s) (pm_body m)) as [hdr bd| |] eqn:SR; try (inj H; done).
    destruct (kget p (xr_pipes s)) as [x|] eqn:KP; [|inj H; done].
    destruct (xp_closed x); [inj H; done|].
    destruct (urq_put (xr_urq s) p _) as [u' o1] eqn:E. inj H.
    destruct (urq_put_sum F _ _ _ _ _ E) as [S1 S2]. rview. done.
  - (* PSetOpt *)
    cbn [xresp_step] in H. cbn [op_add op_del].
    destruct (raw_setopt fx (xr_ttl s) (xr_urq s) (xr_uwcap s) c op) as [[[t u] w] o1] eqn:E. inj H.
    destruct (raw_setopt_sum F _ _ _ _ _ _ _ _ _ _ E) as [S1 S2]. rview. lia.
  - cbn [xresp_step] in H. inj H. cbn [op_add op_del o_tx o_rel]. lia.
  - cbn [xresp_step] in H. inj H. cbn [op_add op_del o_tx o_rel]. lia.
  - (* PSockClose *)
    cbn [xresp_step] in H. cbn [op_add op_del].
    destruct (urq_close (xr_urq s)) as [u' o1] eqn:E. inj H.
    destruct (urq_close_sum F _ _ _ E) as [S1 S2]. rview. lia.
  - cbn [xresp_step] in H. inj H. cbn [op_add op_del o_tx o_rel]. lia.
Qed.

Lemma xresp_inv_step fx s o s' outs : XRInv s -> xresp_ok s o -> xresp_step fx s o = (s', outs) -> XRInv s'.
Proof.
  unfold XRInv. intros HI Hok H.
  destruct o as [c a nb m|c a nb|a rv|p peer|p|p rv|p rv m|c op|c|c| |now]; cbn [xresp_step] in H.
  - destruct (nb && negb (mf_nb fx)); [inj H; exact HI|].
    destruct (xresp_send (pm_hdr m)) as [[id hdr']|]; [|inj H; exact HI].
    destruct (kget id (xr_pipes s)) as [x|] eqn:KP; [|inj H; exact HI].
    destruct (xp_closed x); [inj H; exact HI|].
    destruct (xpipe_tryput XRESP_SENDQ id x _) as [x' o1] eqn:T. inj H. cbn [xr_pipes].
    apply pipes_inv_kset; [exact HI|].
    exact (proj2 (proj2 (xpipe_tryput_sum (fun _ => 0) _ _ _ _ _ _ (pipes_inv_get _ _ _ HI KP) T))).
  - destruct (urq_user_recv _ _ _ _). inj H. exact HI.
  - destruct (urq_cancel _ _ _). inj H. exact HI.
  - destruct (negb (peer =? PROTO_SURVEYOR)%N); inj H; [exact HI|]. apply pipes_inv_start; assumption.
  - destruct (kget p (xr_pipes s)) as [x|] eqn:KP; [|inj H; exact HI].
    destruct (urq_drop_writer _ _). inj H. cbn [xr_pipes]. apply pipes_inv_kset; [exact HI|].
    pose proof (pipes_inv_get _ _ _ HI KP) as Hx. unfold xp_ok in *. cbn [xp_busy xp_held]. exact Hx.
  - destruct (kget p (xr_pipes s)) as [x|] eqn:KP; [|inj H; exact HI].
    destruct (xpipe_sent p x rv) as [x' o1] eqn:E. inj H. cbn [xr_pipes].
    apply pipes_inv_kset; [exact HI|]. exact (proj2 (xpipe_sent_sum (fun _ => 0) _ _ _ _ _ E)).
  - split_step H; exact HI.
  - destruct (raw_setopt _ _ _ _ _ _) as [[[t u] w] o1]. inj H. exact HI.
  - inj H. exact HI.
  - inj H. exact HI.
  - destruct (urq_close _). inj H. exact HI.
  - inj H. exact HI.
Qed.

Theorem xresp_proto_law : forall fx, proto_law view_xresp (xresp_step fx) XRInv xresp_ok.
Proof.
  intros fx s o s' outs HI Hok H. split; [exact (xresp_inv_step fx s o s' outs HI Hok H)|]. split.
  - apply law_sum_eq. exact (xresp_law_sum fx s o s' outs HI Hok H).
  - apply clones_held_none. reflexivity.
Qed.

(* a survey arrives (ttl word, id word, body), is received, the reply is routed back by the
   pipe id in its header; a reply for an unknown pipe is discarded; a second survey waits in
   the queue; buffer resize, cancel, pipe close, socket close *)
Example xresp_ok_nonvacuous :
  ops_ok (xresp_step mqfix_none) xresp_ok xresp_init
    [PPipeStart 1 PROTO_SURVEYOR; PRecv None 1 false;
     PRecvDone 1 0 (mkPmsg [] [128; 0; 0; 1; 9]%N);
     PSend None 2 false (mkPmsg [0; 0; 0; 1; 128; 0; 0; 1]%N [5%N]); PSendDone 1 0;
     PSend None 3 false (mkPmsg [0; 0; 0; 9; 128; 0; 0; 1]%N [6%N]);
     PRecvDone 1 0 (mkPmsg [] [128; 0; 0; 2; 10]%N);
     PSetOpt None (ORecvBuf 4); PCancel 4 20; PPipeClose 1; PSockClose].
Proof. vm_compute. repeat split. Qed.

Print Assumptions surv_proto_law.
Print Assumptions xsurv_proto_law.
Print Assumptions xresp_proto_law.

(* ================================================================== *)
(* Part 2: after the close sequence the protocol owns nothing but queue contents
   that its fini functions free (Ledger/LedgerThms.v: drained) *)
From Coq Require Import Permutation.
From NngV Require Import Ledger.LedgerThms.

(* the operations of a close sequence *)
Definition closing (o : pop) : bool :=
  match o with PPipeClose _ | PSendDone _ _ | PCtxClose _ | PSockClose => true | _ => false end.

Section CloseGeneric.
  Context {St : Type} (step : St -> pop -> St * list pout).

  Lemma run_app a : forall b s, run step s (a ++ b) = run step (run step s a) b.
  Proof. induction a as [|o a IH]; intros b s; cbn [app run]; [reflexivity|apply IH]. Qed.
  Lemma ops_ok_closing (ok : St -> pop -> Prop) :
    (forall s o, closing o = true -> ok s o) -> forall ops s, forallb closing ops = true -> ops_ok step ok s ops.
  Proof.
    intros Hok. induction ops as [|o ops IH]; intros s H; cbn [ops_ok forallb] in *; [exact I|].
    apply andb_true_iff in H. destruct H as [H1 H2]. split; [apply Hok, H1|apply IH, H2].
  Qed.
  (* a projection of the state that a set of operations does not touch *)
  Lemma run_keeps {B} (f : St -> B) (P : pop -> Prop) :
    (forall s o, P o -> f (fst (step s o)) = f s) -> forall ops s, Forall P ops -> f (run step s ops) = f s.
  Proof.
    intros HP. induction ops as [|o ops IH]; intros s H; cbn [run]; [reflexivity|].
    inversion H; subst. rewrite IH by assumption. apply HP. assumption.
  Qed.

  (* per pipe record the state knows: pipe_close, then the failing completion of the send in flight *)
  Context {A : Type} (pipes : St -> list (N * A)) (held : A -> list pmsg) (cl dn : A -> A).
  Definition pipe_script (l : list (N * A)) : list pop :=
    flat_map (fun px => PPipeClose (fst px) :: if isnil (held (snd px)) then [] else [PSendDone (fst px) E_CLOSED]) l.
  Hypothesis Hcl : forall s p x, kget p (pipes s) = Some x -> pipes (fst (step s (PPipeClose p))) = kset p (cl x) (pipes s).
  Hypothesis Hdn : forall s p x, kget p (pipes s) = Some x -> pipes (fst (step s (PSendDone p E_CLOSED))) = kset p (dn x) (pipes s).
  Hypothesis held_cl : forall x, held (cl x) = held x.
  Hypothesis held_dn : forall x, held (dn x) = [].

  Lemma closing_pipe_script l : forallb closing (pipe_script l) = true.
  Proof.
    induction l as [|[p x] l IH]; [reflexivity|]. cbn [pipe_script flat_map fst snd]. fold (pipe_script l).
    destruct (isnil (held x)); cbn [app forallb closing andb]; exact IH.
  Qed.

  Lemma kget_app_notin p (a b : list (N * A)) : ~ In p (map fst a) -> kget p (a ++ b) = kget p b.
  Proof.
    induction a as [|[k v] a IH]; cbn [app kget map fst]; intros H; [reflexivity|].
    destruct (N.eqb_spec k p); [exfalso; apply H; left; assumption|]. apply IH. intros Hi. apply H. right. exact Hi.
  Qed.
  Lemma kset_app_notin p y (a b : list (N * A)) : ~ In p (map fst a) -> kset p y (a ++ b) = a ++ kset p y b.
  Proof.
    induction a as [|[k v] a IH]; cbn [app kset map fst]; intros H; [reflexivity|].
    destruct (N.eqb_spec k p); [exfalso; apply H; left; assumption|]. f_equal. apply IH. intros Hi. apply H. right. exact Hi.
  Qed.

  Lemma pipe_script_run : forall todo done s,
    pipes s = done ++ todo -> NoDup (map fst (done ++ todo)) -> Forall (fun px => held (snd px) = []) done ->
    Forall (fun px => held (snd px) = []) (pipes (run step s (pipe_script todo))).
  Proof.
    induction todo as [|[p x] todo IH]; intros done s E ND FD.
    - cbn [pipe_script flat_map run]. rewrite E, app_nil_r. exact FD.
    - cbn [pipe_script flat_map fst snd]. fold (pipe_script todo).
      assert (Hp : ~ In p (map fst done)).
      { rewrite map_app in ND. cbn [map fst] in ND. apply NoDup_remove_2 in ND. intros Hi. apply ND. apply in_or_app. left. exact Hi. }
      assert (K0 : kget p (pipes s) = Some x).
      { rewrite E, (kget_app_notin p done _ Hp). cbn [kget]. now rewrite N.eqb_refl. }
      assert (E1 : pipes (fst (step s (PPipeClose p))) = (done ++ [(p, cl x)]) ++ todo).
      { rewrite (Hcl s p x K0), E, (kset_app_notin p _ done _ Hp). cbn [kset]. rewrite N.eqb_refl, <- app_assoc. reflexivity. }
      assert (NDk : forall y, NoDup (map fst ((done ++ [(p, y)]) ++ todo))).
      { intros y. rewrite <- app_assoc. cbn [app]. rewrite map_app in *. exact ND. }
      destruct (held x) as [|m0 r0] eqn:Hx; cbn [isnil app run].
      + apply (IH (done ++ [(p, cl x)]) _ E1 (NDk _)).
        apply Forall_app. split; [exact FD|]. constructor; [|constructor]. cbn [snd]. now rewrite held_cl.
      + set (s1 := fst (step s (PPipeClose p))) in *.
        assert (K1 : kget p (pipes s1) = Some (cl x)).
        { rewrite E1, <- app_assoc, (kget_app_notin p done _ Hp). cbn [app kget]. now rewrite N.eqb_refl. }
        assert (E2 : pipes (fst (step s1 (PSendDone p E_CLOSED))) = (done ++ [(p, dn (cl x))]) ++ todo).
        { rewrite (Hdn s1 p _ K1), E1, <- !app_assoc, (kset_app_notin p _ done _ Hp). cbn [app kset]. now rewrite N.eqb_refl. }
        apply (IH (done ++ [(p, dn (cl x))]) _ E2 (NDk _)).
        apply Forall_app. split; [exact FD|]. constructor; [|constructor]. cbn [snd]. apply held_dn.
  Qed.
End CloseGeneric.

Lemma ptx_all_empty {A} (h : A -> list pmsg) (l : list (N * A)) :
  Forall (fun px => h (snd px) = []) l -> ptx h l = [].
Proof.
  induction 1 as [|px l Hx _ IH]; [reflexivity|]. cbn [ptx flat_map]. fold (ptx h l). now rewrite Hx, IH.
Qed.

(* ---------------- cooked SURVEYOR ---------------- *)
(* the socket core's close sequence as the protocol sees it: every pipe the state knows gets its
   pipe_close, every transport send still in flight fails (PSendDone p E_CLOSED), every open context
   is closed (context c has key c + 1; key 0 is the socket's own), then the socket's own close *)
Definition surv_ctx_script (l : list (N * sctx)) : list pop :=
  map (fun kc => PCtxClose (fst kc - 1)) (filter (fun kc => negb (N.eqb (fst kc) 0)) l).
Definition surv_close_script (s : surv) : list pop :=
  pipe_script sp_held (sv_pipes s) ++ surv_ctx_script (sv_ctxs s) ++ [PSockClose].

Theorem surv_close_drains : forall nbfix s, SLInv s ->
  ops_ok (surv_step nbfix) surv_ok s (surv_close_script s) /\
  drained view_surv (run (surv_step nbfix) s (surv_close_script s)).
Proof.
  intros nbfix s (I1 & I2 & I3). split.
  - apply ops_ok_closing; [intros s0 o; destruct o; cbn; intros; try exact I; discriminate|].
    unfold surv_close_script. rewrite !forallb_app, closing_pipe_script. cbn [andb forallb closing].
    rewrite andb_true_r. unfold surv_ctx_script. induction (filter _ (sv_ctxs s)); cbn; auto.
  - unfold surv_close_script. rewrite run_app.
    set (s1 := run (surv_step nbfix) s (pipe_script sp_held (sv_pipes s))).
    assert (F1 : Forall (fun px => sp_held (snd px) = []) (sv_pipes s1)).
    { apply (pipe_script_run (surv_step nbfix) sv_pipes sp_held
               (fun x => mkSpipe [] (sp_busy x) (sp_held x) true)
               (fun x => mkSpipe (sp_q x) (sp_busy x) [] (sp_closed x))) with (done := []).
      - intros s0 p x K. cbn [surv_step]. rewrite K. reflexivity.
      - intros s0 p x K. cbn [surv_step]. rewrite K. reflexivity.
      - reflexivity.
      - reflexivity.
      - reflexivity.
      - exact I2.
      - constructor. }
    assert (E2 : sv_pipes (run (surv_step nbfix) s1 (surv_ctx_script (sv_ctxs s) ++ [PSockClose])) = sv_pipes s1).
    { apply (run_keeps (surv_step nbfix) sv_pipes (fun o => (exists c, o = PCtxClose c) \/ o = PSockClose)).
      - intros s0 o [[c ->]| ->]; cbn [surv_step ctx_abort].
        + destruct (kget (ckey (Some c)) (sv_ctxs s0)); reflexivity.
        + destruct (kget 0%N (sv_ctxs s0)); reflexivity.
      - apply Forall_app. split; [|constructor; [right; reflexivity|constructor]].
        unfold surv_ctx_script. apply Forall_forall. intros o Hi. apply in_map_iff in Hi. destruct Hi as [kc [<- _]]. left. eauto. }
    split; [|split].
    + cbn [v_tx view_surv VSurv.view]. rewrite E2. exact (ptx_all_empty sp_held _ F1).
    + reflexivity.
    + apply Permutation_refl.
Qed.

(* ---------------- raw SURVEYOR / raw RESPONDENT (no contexts) ---------------- *)
Definition xsurv_close_script (s : xsurv) : list pop := pipe_script xp_held (xs_pipes s) ++ [PSockClose].
Definition xresp_close_script (s : xresp) : list pop := pipe_script xp_held (xr_pipes s) ++ [PSockClose].

Lemma raw_ok_closing pipes o : closing o = true -> raw_ok pipes o.
Proof. destruct o; cbn; intros; try exact I; discriminate. Qed.
Lemma closing_raw_script (l : list (N * xpipe)) : forallb closing (pipe_script xp_held l ++ [PSockClose]) = true.
Proof. rewrite forallb_app, closing_pipe_script. reflexivity. Qed.

Theorem xsurv_close_drains : forall fx s, XSInv s ->
  ops_ok (xsurv_step fx) xsurv_ok s (xsurv_close_script s) /\
  drained (VXsurv.view fx) (run (xsurv_step fx) s (xsurv_close_script s)).
Proof.
  intros fx s [I1 I2]. split.
  - apply ops_ok_closing; [intros s0 o; apply raw_ok_closing|apply closing_raw_script].
  - unfold xsurv_close_script. rewrite run_app.
    set (s1 := run (xsurv_step fx) s (pipe_script xp_held (xs_pipes s))).
    assert (F1 : Forall (fun px => xp_held (snd px) = []) (xs_pipes s1)).
    { apply (pipe_script_run (xsurv_step fx) xs_pipes xp_held
               (fun x => mkXpipe [] (xp_busy x) (xp_held x) true)
               (fun x => mkXpipe (xp_q x) (xp_busy x) [] (xp_closed x))) with (done := []).
      - intros s0 p x K. cbn [xsurv_step]. rewrite K. destruct (urq_drop_writer (xs_urq s0) p). reflexivity.
      - intros s0 p x K. cbn [xsurv_step]. rewrite K. reflexivity.
      - reflexivity.
      - reflexivity.
      - reflexivity.
      - exact I1.
      - constructor. }
    cbn [run xsurv_step urq_close fst]. unfold drained.
    cbn [v_tx v_att v_held v_fini VXsurv.view xs_pipes xs_urq]. split; [|split].
    + exact (ptx_all_empty xp_held _ F1).
    + reflexivity.
    + unfold VXsurv.urq_held. cbn [uq_q uq_writers map app]. rewrite !app_nil_r. apply Permutation_refl.
Qed.

Theorem xresp_close_drains : forall fx s, XRInv s ->
  ops_ok (xresp_step fx) xresp_ok s (xresp_close_script s) /\
  drained view_xresp (run (xresp_step fx) s (xresp_close_script s)).
Proof.
  intros fx s [I1 I2]. split.
  - apply ops_ok_closing; [intros s0 o; apply raw_ok_closing|apply closing_raw_script].
  - unfold xresp_close_script. rewrite run_app.
    set (s1 := run (xresp_step fx) s (pipe_script xp_held (xr_pipes s))).
    assert (F1 : Forall (fun px => xp_held (snd px) = []) (xr_pipes s1)).
    { apply (pipe_script_run (xresp_step fx) xr_pipes xp_held
               (fun x => mkXpipe [] (xp_busy x) (xp_held x) true)
               (fun x => mkXpipe (xp_q x) (xp_busy x) [] (xp_closed x))) with (done := []).
      - intros s0 p x K. cbn [xresp_step]. rewrite K. destruct (urq_drop_writer (xr_urq s0) p). reflexivity.
      - intros s0 p x K. cbn [xresp_step]. rewrite K. reflexivity.
      - reflexivity.
      - reflexivity.
      - reflexivity.
      - exact I1.
      - constructor. }
    cbn [run xresp_step urq_close fst]. unfold drained.
    cbn [v_tx v_att v_held v_fini view_xresp VXresp.view xr_pipes xr_urq]. split; [|split].
    + exact (ptx_all_empty xp_held _ F1).
    + reflexivity.
    + unfold VXsurv.urq_held. cbn [uq_q uq_writers map app]. rewrite !app_nil_r. apply Permutation_refl.
Qed.

Print Assumptions surv_close_drains.
Print Assumptions xsurv_close_drains.
Print Assumptions xresp_close_drains.
