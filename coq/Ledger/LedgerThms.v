(* LedgerThms: what the law of a protocol gives, for every history (generic, proved once):
   - the ledger stays balanced and equal to the state's ownership view (ledger_balanced_run);
   - per step: a failed send leaves its message attached to the aio, the caller's (OBack a);
     a successful send hands the reference to the library (OAio a -> OProto); a successful
     receive hands exactly one protocol reference to the caller (OProto -> OBack a); a send
     whose aio slot was emptied before the refusal loses the message (OLost) -- the BUS
     defect of the pinned tree;
   - over a whole history every library-side reference that came in went out exactly once
     or is still held (lib_balance_run);
   - once the state is drained (nothing in flight, no queued send, only queue contents that
     the fini functions free), the fini frees leave the library with nothing (fini_clears). *)
From Coq Require Import List Arith NArith Bool Lia Permutation.
From NngV Require Import Proto.Common Ledger.Ledger Ledger.LedgerProofs Ledger.LawTac.
Import ListNotations.

Section Thms.
  Context {St : Type} (V : view St) (step : St -> pop -> St * list pout)
          (Inv : St -> Prop) (ok : St -> pop -> Prop).
  Hypothesis Hlaw : proto_law V step Inv ok.

  (* ---------- every history ---------- *)
  Theorem ledger_balanced_run : forall ops s L, Inv s -> linv V L s -> ops_ok step ok s ops ->
    exists L', replay_run V step L s ops = Some (L', run step s ops) /\
      balanced (ls_led L') /\ mseq (lib_refs (ls_led L')) (omega V (run step s ops)) /\
      lib_ref_count (ls_led L') = length (omega V (run step s ops)).
  Proof.
    intros ops s L Hi Hl Hok. destruct (replay_run_ok V step Inv ok Hlaw ops s L Hi Hl Hok) as [L' [R [[[Hb _] Hm] _]]].
    exists L'. split; [exact R|]. split; [exact Hb|]. split; [exact Hm|]. unfold lib_ref_count. apply mseq_length, Hm.
  Qed.

  Lemma linv_init s : omega V s = [] -> linv V ls_init s.
  Proof.
    intros H. split.
    - split; [split; [constructor|constructor]|intros e []].
    - rewrite H. apply mseq_refl.
  Qed.

  (* ---------- one step ---------- *)
  Lemma dels_no_back x E s o outs : E = step_evs V s o outs -> ~ In (cls (fst x)) [1; 3; 4] -> cnt x (dels E) = 0.
  Proof.
    intros -> Hc. rewrite (step_evs_split V), !dels_app, !cnt_app.
    rewrite (cnt_zero_cls _ _ _ (op_dels_cls V s o)) by (cbn in *; intuition lia).
    rewrite (cnt_zero_cls _ _ _ (sends_dels_cls V s o outs)) by (cbn in *; intuition lia).
    rewrite (mid_dels V s o), cnt_nil.
    rewrite (cnt_zero_cls _ _ _ (outs_dels_cls _)) by (cbn in *; intuition lia). reflexivity.
  Qed.

  Lemma in_adds_pos x e E : In e E -> In x (aev_add e) -> 0 < cnt x (adds E).
  Proof.
    intros He Hx. apply cnt_pos_in. unfold adds. apply in_flat_map. exists e. split; auto.
  Qed.

  Lemma sends_event s o outs a rv k :
    In (Complete a rv None) outs -> send_key V s o a = Some k ->
    In (if N.eqb rv 0 then AMove (OAio a) k OProto
        else if has_id a (v_detach V s o) then AMove (OAio a) k OLost else AMove (OAio a) k (OBack a))
       (evs_sends V s o outs).
  Proof.
    intros Hin Hk. induction outs as [|x r IH]; [destruct Hin|]. cbn [evs_sends]. destruct Hin as [->|Hin].
    - rewrite Hk. left. reflexivity.
    - destruct x; auto. destruct m; auto. destruct (send_key V s o a0); auto. right. auto.
  Qed.
  Lemma outs_event outs a m : In (Complete a E_OK (Some m)) outs -> In (AMove OProto (body m) (OBack a)) (evs_outs outs).
  Proof.
    intros Hin. induction outs as [|x r IH]; [destruct Hin|]. cbn [evs_outs]. destruct Hin as [->|Hin].
    - change (E_OK =? 0)%N with true. left. reflexivity.
    - destruct x; auto; try (right; auto). destruct m0; auto. destruct (N.eqb rv 0); auto. right. auto.
  Qed.

  (* a failed send: the message is still attached to the aio, and it is the caller's *)
  Theorem failed_send_keeps_message : forall L s o s' outs a rv k,
    Inv s -> ok s o -> linv V L s -> step s o = (s', outs) ->
    In (Complete a rv None) outs -> rv <> 0%N -> send_key V s o a = Some k -> has_id a (v_detach V s o) = false ->
    exists L', replay_step V L s o s' outs = Some L' /\ linv V L' s' /\
      In (OBack a, k) (refs (ls_led L')).
  Proof.
    intros L s o s' outs a rv k Hi Ho Hl Hs Hin Hrv Hk Hd.
    destruct (Hlaw s o s' outs Hi Ho Hs) as [_ Hsl].
    destruct (replay_step_ok V L s o s' outs Hl Hsl) as [L' [R [Hl' Hc]]].
    exists L'. split; [exact R|]. split; [exact Hl'|].
    apply cnt_pos_in. specialize (Hc (OBack a, k)).
    rewrite (dels_no_back _ _ s o outs eq_refl) in Hc by (cbn; intuition lia).
    assert (0 < cnt (OBack a, k) (adds (step_evs V s o outs))); [|lia].
    pose proof (sends_event s o outs a rv k Hin Hk) as He.
    destruct (N.eqb_spec rv 0); [contradiction|]. rewrite Hd in He.
    assert (HeE : In (AMove (OAio a) k (OBack a)) (step_evs V s o outs)).
    { unfold step_evs. apply in_or_app. right. apply in_or_app. left. exact He. }
    apply (in_adds_pos _ _ _ HeE). left. reflexivity.
  Qed.

  (* ... unless the C emptied the aio's message slot before refusing: then nobody owns it *)
  Theorem detached_send_loses_message : forall L s o s' outs a rv k,
    Inv s -> ok s o -> linv V L s -> step s o = (s', outs) ->
    In (Complete a rv None) outs -> rv <> 0%N -> send_key V s o a = Some k -> has_id a (v_detach V s o) = true ->
    exists L', replay_step V L s o s' outs = Some L' /\ In (OLost, k) (refs (ls_led L')).
  Proof.
    intros L s o s' outs a rv k Hi Ho Hl Hs Hin Hrv Hk Hd.
    destruct (Hlaw s o s' outs Hi Ho Hs) as [_ Hsl].
    destruct (replay_step_ok V L s o s' outs Hl Hsl) as [L' [R [Hl' Hc]]].
    exists L'. split; [exact R|].
    apply cnt_pos_in. specialize (Hc (OLost, k)).
    rewrite (dels_no_back _ _ s o outs eq_refl) in Hc by (cbn; intuition lia).
    assert (0 < cnt (OLost, k) (adds (step_evs V s o outs))); [|lia].
    pose proof (sends_event s o outs a rv k Hin Hk) as He.
    destruct (N.eqb_spec rv 0); [contradiction|]. rewrite Hd in He.
    assert (HeE : In (AMove (OAio a) k OLost) (step_evs V s o outs)).
    { unfold step_evs. apply in_or_app. right. apply in_or_app. left. exact He. }
    apply (in_adds_pos _ _ _ HeE). left. reflexivity.
  Qed.

  (* a successful send: the reference attached to the aio becomes the library's *)
  Theorem successful_send_transfers : forall s o outs a k,
    In (Complete a E_OK None) outs -> send_key V s o a = Some k ->
    In (AMove (OAio a) k OProto) (step_evs V s o outs).
  Proof.
    intros s o outs a k Hin Hk. pose proof (sends_event s o outs a E_OK k Hin Hk) as He.
    change (E_OK =? 0)%N with true in He. unfold step_evs. apply in_or_app. right. apply in_or_app. left. exact He.
  Qed.

  (* a successful receive: one protocol reference becomes the caller's, attached to the aio *)
  Theorem successful_recv_transfers : forall L s o s' outs a m,
    Inv s -> ok s o -> linv V L s -> step s o = (s', outs) ->
    In (Complete a E_OK (Some m)) outs ->
    exists L', replay_step V L s o s' outs = Some L' /\ linv V L' s' /\
      In (AMove OProto (body m) (OBack a)) (step_evs V s o outs) /\ In (OBack a, body m) (refs (ls_led L')).
  Proof.
    intros L s o s' outs a m Hi Ho Hl Hs Hin.
    destruct (Hlaw s o s' outs Hi Ho Hs) as [_ Hsl].
    destruct (replay_step_ok V L s o s' outs Hl Hsl) as [L' [R [Hl' Hc]]].
    exists L'. split; [exact R|]. split; [exact Hl'|].
    assert (He : In (AMove OProto (body m) (OBack a)) (step_evs V s o outs)).
    { unfold step_evs. apply in_or_app. right. apply in_or_app. right. apply in_or_app. right. apply in_or_app. right.
      apply outs_event. apply in_or_app. left. exact Hin. }
    split; [exact He|].
    apply cnt_pos_in. specialize (Hc (OBack a, body m)).
    rewrite (dels_no_back _ _ s o outs eq_refl) in Hc by (cbn; intuition lia).
    assert (0 < cnt (OBack a, body m) (adds (step_evs V s o outs))); [|lia].
    apply (in_adds_pos _ _ _ He). left. reflexivity.
  Qed.

  (* ---------- whole histories: in = out + still held, per (owner, body) ---------- *)
  Fixpoint hist_evs (s : St) (ops : list pop) : list aev :=
    match ops with
    | [] => []
    | o :: r => let (s', outs) := step s o in step_evs V s o outs ++ hist_evs s' r
    end.

  Theorem lib_balance_run : forall ops s, Inv s -> ops_ok step ok s ops ->
    forall x, lib_owner (fst x) = true ->
      cnt x (omega V (run step s ops)) + cnt x (dels (hist_evs s ops)) = cnt x (omega V s) + cnt x (adds (hist_evs s ops)).
  Proof.
    induction ops as [|o ops IH]; intros s Hi Hok x Hx; [cbn; lia|].
    cbn [run ops_ok hist_evs] in *. destruct Hok as [Ho Hr]. destruct (step s o) as [s' outs] eqn:E. cbn [fst] in *.
    destruct (Hlaw s o s' outs Hi Ho E) as [Hi' [Hle _]].
    specialize (IH s' Hi' Hr x Hx). rewrite adds_app, dels_app, !cnt_app.
    specialize (Hle (ind x)). cbv zeta in Hle. rewrite <- !cnt_wsum, cnt_lib_adds, cnt_lib_dels, Hx in Hle. lia.
  Qed.
End Thms.

(* ---------- after the close: the fini functions free what is left ---------- *)
Definition drained {St} (V : view St) (s : St) : Prop :=
  v_tx V s = [] /\ v_att V s = [] /\ Permutation (v_held V s) (v_fini V s).

Lemma fini_dels_l (l : list pmsg) : dels (map (fun m => ADel OProto (body m)) l) = map (fun m => (OProto, body m)) l.
Proof. unfold dels. induction l as [|m l IH]; [reflexivity|]. cbn [map flat_map aev_del app]. f_equal. exact IH. Qed.
Lemma fini_adds_l (l : list pmsg) : adds (map (fun m => ADel OProto (body m)) l) = [].
Proof. unfold adds. induction l; cbn; auto. Qed.
Lemma fini_csrc_l (l : list pmsg) : csrc (map (fun m => ADel OProto (body m)) l) = [].
Proof. unfold csrc. induction l; cbn; auto. Qed.

Theorem fini_clears {St} (V : view St) L s : linv V L s -> drained V s ->
  exists L', do_aevs L (fini_evs V s) = Some L' /\ balanced (ls_led L') /\ lib_refs (ls_led L') = [].
Proof.
  intros [Hg Hm] (Ht & Ha & Hp).
  assert (Hom : forall x, cnt x (omega V s) = cnt x (map (fun m => (OProto, body m)) (v_fini V s))).
  { intros x. unfold omega. rewrite Ht, Ha, !cnt_app. cbn [map]. rewrite !cnt_nil.
    assert (Permutation (map (fun m => (OProto, body m)) (v_held V s)) (map (fun m => (OProto, body m)) (v_fini V s))) by (apply Permutation_map, Hp).
    unfold cnt. rewrite (Permutation_count_occ ok_dec) in H. rewrite H. lia. }
  assert (Hd : dels (fini_evs V s) = map (fun m => (OProto, body m)) (v_fini V s)) by apply fini_dels_l.
  assert (Ha0 : adds (fini_evs V s) = []) by apply fini_adds_l.
  assert (Hc0 : csrc (fini_evs V s) = []) by apply fini_csrc_l.
  destruct (do_aevs_phase (fini_evs V s) L Hg) as [L' [R [[Hb _] Hc]]].
  - intros x. rewrite Hd, <- Hom. destruct (lib_owner (fst x)) eqn:El.
    + rewrite <- Hm. unfold lib_refs. rewrite cnt_filter_lib, El. lia.
    + rewrite (cnt_zero_cls _ _ _ (omega_cls V s)); [lia|]. intros Hc. apply lib_cls in Hc. congruence.
  - rewrite Hc0. intros x [].
  - exists L'. split; [exact R|]. split; [exact Hb|].
    destruct (lib_refs (ls_led L')) as [|y l] eqn:E; [reflexivity|]. exfalso.
    assert (Hy : 0 < cnt y (lib_refs (ls_led L'))) by (rewrite E, cnt_cons; destruct (ok_dec y y); [lia|congruence]).
    unfold lib_refs in Hy. rewrite cnt_filter_lib in Hy. destruct (lib_owner (fst y)) eqn:El; [|lia].
    specialize (Hc y). rewrite Ha0, Hd, cnt_nil in Hc.
    assert (cnt y (refs (ls_led L)) = cnt y (omega V s)) by (rewrite <- Hm; unfold lib_refs; rewrite cnt_filter_lib, El; reflexivity).
    rewrite <- Hom in Hc. lia.
Qed.

(* close, then fini: from ANY state the protocol can be in, the close sequence followed by the
   fini frees leaves the library without a single message reference (no leak), the ledger
   balanced all the way *)
Section Close.
  Context {St : Type} (V : view St) (step : St -> pop -> St * list pout)
          (Inv : St -> Prop) (ok : St -> pop -> Prop) (script : St -> list pop).
  Hypothesis Hlaw : proto_law V step Inv ok.
  Hypothesis Hdrain : forall s, Inv s -> ops_ok step ok s (script s) /\ drained V (run step s (script s)).

  Theorem no_leak_after_close : forall s L, Inv s -> linv V L s ->
    exists L1 L2, replay_run V step L s (script s) = Some (L1, run step s (script s)) /\
      do_aevs L1 (fini_evs V (run step s (script s))) = Some L2 /\
      balanced (ls_led L2) /\ lib_refs (ls_led L2) = [].
  Proof.
    intros s L Hi Hl. destruct (Hdrain s Hi) as [Hok Hd].
    destruct (replay_run_ok V step Inv ok Hlaw (script s) s L Hi Hl Hok) as [L1 [R [Hl1 _]]].
    destruct (fini_clears V L1 _ Hl1 Hd) as [L2 [F [Hb He]]].
    exists L1, L2. split; [exact R|]. split; [exact F|]. split; assumption.
  Qed.

  (* ... in particular after any history from the initial state *)
  Theorem no_leak_after_history_and_close : forall init ops, Inv init -> omega V init = [] -> ops_ok step ok init ops ->
    let s := run step init ops in
    exists L0 L1 L2, replay_run V step ls_init init ops = Some (L0, s) /\
      replay_run V step L0 s (script s) = Some (L1, run step s (script s)) /\
      do_aevs L1 (fini_evs V (run step s (script s))) = Some L2 /\
      balanced (ls_led L2) /\ lib_refs (ls_led L2) = [].
  Proof.
    intros init ops Hi Ho Hok s.
    destruct (replay_run_ok V step Inv ok Hlaw ops init ls_init Hi (linv_init V init Ho) Hok) as [L0 [R0 [Hl0 Hi0]]].
    destruct (no_leak_after_close (run step init ops) L0 Hi0 Hl0) as [L1 [L2 [R1 [F [Hb He]]]]].
    exists L0, L1, L2. split; [exact R0|]. split; [exact R1|]. split; [exact F|]. split; assumption.
  Qed.
End Close.
