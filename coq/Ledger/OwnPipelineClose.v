(* OwnPipelineClose: after the close sequence PUSH and PULL own nothing but what their
   fini functions free (pipeline0/push.c push0_sock_fini: nni_lmq_fini(&s->wq); pull.c: nothing). *)
From Coq Require Import List Arith NArith Bool Lia Permutation.
From NngV Require Import Proto.Common Proto.PushModel Proto.PullModel Proto.PushProofs
  Ledger.Ledger Ledger.LedgerProofs Ledger.LawTac Ledger.Views Ledger.OwnPipeline Ledger.LedgerThms Ledger.OwnPairBus.
From NngV Require Proto.PushGuard Proto.PushSubmit.
Import ListNotations.

(* ------------------------------ PUSH ------------------------------ *)
Definition push_close_script (s : push) : list pop :=
  map PPipeClose (ps_pl s) ++ map (fun p => PSendDone p E_CLOSED) (map fst (ps_sending s)) ++ [PSockClose].

Lemma push_inv_step_r fr s o : PInv s -> push_ok s o -> PInv (fst (push_step_r fr s o)).
Proof.
  intros Hi [Ho _]. destruct (push_step_r fr s o) as [s' outs] eqn:E. exact (proj1 (PushSubmit.push_step_r_law fr s o s' outs Hi Ho E)).
Qed.

Theorem push_close_drains_r fr : forall s, PInv s ->
  ops_ok (push_step_r fr) push_ok s (push_close_script s) /\ drained view_push (run (push_step_r fr) s (push_close_script s)).
Proof.
  intros s Hi. unfold push_close_script.
  (* the pipe closes touch neither the buffer, the waiters nor the sends in flight *)
  destruct (run_frame (push_step_r fr) PInv push_ok (push_inv_step_r fr) (fun s => (ps_sending s, ps_wq s, ps_aq s)) (map PPipeClose (ps_pl s))) with (s := s) as (A1 & I1 & F1); [|exact Hi|].
  { intros s0 o Hin Hi0. apply in_map_iff in Hin. destruct Hin as [p [<- _]]. split; [split; exact I|].
    cbn [push_step_r push_step]. destruct (has_id p (ps_pl s0)); reflexivity. }
  set (s1 := run (push_step_r fr) s (map PPipeClose (ps_pl s))) in *.
  inversion F1 as [[Fs Fw Fa]]. clear F1.
  (* every send in flight fails *)
  destruct (run_fail_all (push_step_r fr) PInv push_ok (push_inv_step_r fr) (fun s => (ps_wq s, ps_aq s)) ps_sending E_CLOSED) with (s := s1) as (A2 & I2 & F2 & S2).
  { intros s0 p _ Hin. split; [exact Hin|exact I]. }
  { intros s0 p. reflexivity. }
  { intros s0 p. reflexivity. }
  { destruct I1 as (_ & _ & Hn & _). exact Hn. }
  { exact I1. }
  set (s2 := run (push_step_r fr) s1 (map (fun p => PSendDone p E_CLOSED) (map fst (ps_sending s1)))) in *.
  inversion F2 as [[Fw2 Fa2]]. clear F2.
  unfold s2 in *. clear s2. rewrite Fs in *.
  set (s2 := run (push_step_r fr) s1 (map (fun p => PSendDone p E_CLOSED) (map fst (ps_sending s)))) in *.
  split.
  - apply (ops_ok_app (push_step_r fr) push_ok); [exact A1|]. fold s1.
    apply (ops_ok_app (push_step_r fr) push_ok); [exact A2|]. fold s2. cbn [ops_ok]. split; [split; exact I|exact I].
  - rewrite !(run_app (push_step_r fr)). fold s1. fold s2. cbn [run push_step_r push_step fst].
    unfold drained. cbn [view_push VPush.view v_tx v_att v_held v_fini ps_sending ps_aq ps_wq].
    split; [exact S2|]. split; [reflexivity|apply Permutation_refl].
Qed.

(* the pinned text of push0_set_send_buf_len (push_step = push_step_r false on every operation) *)
Lemma push_inv_step s o : PInv s -> push_ok s o -> PInv (fst (push_step s o)).
Proof. rewrite <- PushGuard.push_step_r_false. apply push_inv_step_r. Qed.

(* ------------------------------ PULL ------------------------------ *)
Definition pull_close_script (s : pull) : list pop := map PPipeClose (map fst (pl_pl s)) ++ [PSockClose].

Lemma pull_close_pipes l : forall s, incl (map fst (pl_pl s)) l ->
  pl_pl (run pull_step s (map PPipeClose l)) = [].
Proof.
  induction l as [|p l IH]; intros s Hl; cbn [map run].
  - destruct (pl_pl s) as [|x r]; [reflexivity|]. exfalso. apply (Hl (fst x)). left. reflexivity.
  - apply IH. cbn [pull_step fst pl_pl]. intros q Hq. apply in_map_iff in Hq. destruct Hq as [x [<- Hx]].
    apply filter_In in Hx. destruct Hx as [Hx Hne].
    destruct (Hl (fst x) (in_map fst _ _ Hx)) as [E|E]; [subst p; rewrite N.eqb_refl in Hne; discriminate|exact E].
Qed.

Theorem pull_close_drains : forall s,
  ops_ok pull_step (fun _ _ => True) s (pull_close_script s) /\ drained view_pull (run pull_step s (pull_close_script s)).
Proof.
  intros s. split.
  - unfold pull_close_script. generalize (map PPipeClose (map fst (pl_pl s)) ++ [PSockClose]). intros l. revert s.
    induction l as [|o l IH]; intros s; cbn [ops_ok]; [exact I|]. split; [exact I|apply IH].
  - unfold pull_close_script. rewrite (run_app pull_step). cbn [run pull_step fst].
    unfold drained. cbn [view_pull VPull.view v_tx v_att v_held v_fini pl_pl].
    rewrite (pull_close_pipes (map fst (pl_pl s)) s (incl_refl _)). split; [reflexivity|]. split; [reflexivity|apply Permutation_refl].
Qed.

Print Assumptions push_close_drains_r.
Print Assumptions pull_close_drains.
