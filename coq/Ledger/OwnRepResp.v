(* OwnRepResp: the ledger law of cooked REP and cooked RESPONDENT
   (src/sp/protocol/reqrep0/rep.c, src/sp/protocol/survey0/respond.c).

   Both protocols have the same architecture: a parsed request / survey is parked in the
   pipe (v_held); a reply whose pipe is busy stays on the user's aio, recorded in the
   context (ctx->saio, v_att); one message per pipe is in flight (v_tx).
   The law is proved for the sources that refuse a second send of a context whose
   previous reply is still queued (RepModel.pf_saio / RespondModel.rf_sbusy = true, the
   current source): without that repair the queued reply is overwritten, the reference
   is lost and the law is false. *)
From Coq Require Import List Arith NArith Bool Lia Permutation.
From NngV Require Import Proto.Common Ledger.Ledger Ledger.LedgerProofs Ledger.LawTac Ledger.Views.
From NngV Require Proto.ReqRepBacktrace Proto.ReqModel Proto.RepModel Proto.ReqRepProofs
  Proto.SurveyBacktrace Proto.SurveyModel Proto.RespondModel Proto.SurveyProofs.
Import ListNotations.

(* ------------------------------------------------------------------ *)
(* contexts as a keyed list: the queued sends (saio) and pending receives (raio) *)
Lemma nodup_mid_swap {A} (X P Q : list A) : NoDup (P ++ X ++ Q) <-> NoDup (X ++ P ++ Q).
Proof.
  split; apply Permutation_NoDup; [|apply Permutation_sym]; apply Permutation_app_swap_app.
Qed.
Lemma nodup_mid_drop {A} (X P Q : list A) : NoDup (P ++ X ++ Q) -> NoDup (P ++ Q).
Proof.
  rewrite nodup_mid_swap. induction X as [|x X IH]; cbn; auto. intros H. inversion H; auto.
Qed.
Lemma filter_mid_key {A} (k : N) (l1 : list (N * A)) c l2 :
  NoDup (map fst (l1 ++ (k, c) :: l2)) ->
  filter (fun x => negb (N.eqb (fst x) k)) (l1 ++ (k, c) :: l2) = l1 ++ l2.
Proof.
  intros H. rewrite map_app in H. cbn [map fst] in H.
  pose proof (NoDup_remove_2 _ _ _ H) as Hn. rewrite in_app_iff in Hn.
  rewrite filter_app. cbn [filter fst]. rewrite N.eqb_refl. cbn [negb].
  rewrite !filter_keep_notin' by tauto. reflexivity.
Qed.

Section Ctxs.
  Context {A : Type} (sa : A -> option (aioid * pmsg)) (ra : A -> option aioid).

  Definition attl (l : list (N * A)) : list (aioid * pmsg) := flat_map (fun kc => opt_list (sa (snd kc))) l.
  Definition aids (l : list (N * A)) : list aioid := map fst (attl l).

  Lemma attl_app a b : attl (a ++ b) = attl a ++ attl b.
  Proof. apply flat_map_app. Qed.
  Lemma attl_mid l1 k c l2 : attl (l1 ++ (k, c) :: l2) = attl l1 ++ opt_list (sa c) ++ attl l2.
  Proof. rewrite attl_app. reflexivity. Qed.
  Lemma aids_mid l1 k c l2 : aids (l1 ++ (k, c) :: l2) = aids l1 ++ map fst (opt_list (sa c)) ++ aids l2.
  Proof. unfold aids. now rewrite attl_mid, !map_app. Qed.
  Lemma in_attl a m l : In (a, m) (attl l) <-> exists k c, In (k, c) l /\ sa c = Some (a, m).
  Proof.
    unfold attl. rewrite in_flat_map. split.
    - intros [[k c] [Hi Ho]]. cbn [snd] in Ho. destruct (sa c) as [x|] eqn:E; cbn in Ho; [|tauto].
      destruct Ho as [->|[]]. eauto.
    - intros [k [c [Hi E]]]. exists (k, c). split; auto. cbn [snd]. rewrite E. left. reflexivity.
  Qed.

  (* keys unique; an aio queued as a send at most once; no aio both a queued send and a pending receive *)
  Definition CInv (l : list (N * A)) : Prop :=
    NoDup (map fst l) /\ NoDup (aids l) /\ (forall k c a, In (k, c) l -> ra c = Some a -> ~ In a (aids l)).

  Lemma cinv_att_key l k c a m : CInv l -> In (k, c) l -> sa c = Some (a, m) -> att_key a (attl l) = Some (body m).
  Proof. intros (_ & N & _) Hi E. apply att_key_in; [exact N|]. apply in_attl. eauto. Qed.

  (* replacing the record of one context *)
  Lemma cinv_set l1 k c c' l2 :
    CInv (l1 ++ (k, c) :: l2) ->
    (sa c' = sa c \/ sa c' = None \/
     (exists a m, sa c' = Some (a, m) /\ sa c = None /\ ~ In a (aids (l1 ++ (k, c) :: l2)) /\
                  (forall k0 c0, In (k0, c0) (l1 ++ (k, c) :: l2) -> ra c0 <> Some a))) ->
    (ra c' = ra c \/ ra c' = None \/
     (exists a, ra c' = Some a /\ ~ In a (aids (l1 ++ (k, c) :: l2)) /\ sa c' = sa c)) ->
    CInv (l1 ++ (k, c') :: l2).
  Proof.
    intros (K & N & R) HS HR.
    assert (Hin : forall k0 c0, In (k0, c0) (l1 ++ (k, c') :: l2) ->
                    (k0 = k /\ c0 = c') \/ In (k0, c0) (l1 ++ (k, c) :: l2)).
    { intros k0 c0. rewrite !in_app_iff. cbn [In]. intros [H|[H|H]]; auto. inversion H; auto. }
    (* the new ids: the old ones, or the freshly queued send *)
    assert (Hsub : forall x, In x (aids (l1 ++ (k, c') :: l2)) ->
                     In x (aids (l1 ++ (k, c) :: l2)) \/
                     (exists m, sa c' = Some (x, m) /\ sa c = None /\ ~ In x (aids (l1 ++ (k, c) :: l2)) /\
                                (forall k0 c0, In (k0, c0) (l1 ++ (k, c) :: l2) -> ra c0 <> Some x))).
    { intros x Hx. rewrite (aids_mid l1 k c' l2), !in_app_iff in Hx.
      assert (Ho : forall y, In y (aids l1) \/ In y (aids l2) -> In y (aids (l1 ++ (k, c) :: l2))).
      { intros y Hy. rewrite aids_mid, !in_app_iff. tauto. }
      destruct Hx as [H|[H|H]]; auto.
      destruct HS as [E|[E|[a [m [E [E0 [Hn Hr]]]]]]].
      - rewrite E in H. left. rewrite aids_mid, !in_app_iff. auto.
      - rewrite E in H. destruct H.
      - rewrite E in H. cbn in H. destruct H as [<-|[]]. right. exists m. auto. }
    split; [|split].
    - rewrite map_app in *. exact K.
    - rewrite aids_mid in *. destruct HS as [E|[E|[a [m [E [E0 [Hn Hr]]]]]]].
      + rewrite E. exact N.
      + rewrite E. cbn [opt_list map app]. eapply nodup_mid_drop. exact N.
      + rewrite E. rewrite E0 in N, Hn. cbn [opt_list map app] in *.
        apply (nodup_mid_swap [a]). cbn [app]. constructor; assumption.
    - intros k0 c0 a Hi Ha Hx. apply Hin in Hi. apply Hsub in Hx.
      assert (Hold : forall a0, ra c0 = Some a0 -> (k0 = k /\ c0 = c') \/ In (k0, c0) (l1 ++ (k, c) :: l2) -> True) by auto.
      destruct Hi as [[-> ->]|Hi].
      + destruct HR as [E|[E|[a1 [E [Hn E1]]]]].
        * rewrite E in Ha. assert (Hk : In (k, c) (l1 ++ (k, c) :: l2)) by (apply in_or_app; right; left; reflexivity).
          destruct Hx as [Hx|[m [_ [_ [_ Hr]]]]]; [exact (R k c a Hk Ha Hx)|exact (Hr k c Hk Ha)].
        * congruence.
        * assert (a1 = a) by congruence. subst a1.
          destruct Hx as [Hx|[m [E2 [E3 _]]]]; [tauto|congruence].
      + destruct Hx as [Hx|[m [_ [_ [_ Hr]]]]]; [exact (R k0 c0 a Hi Ha Hx)|exact (Hr k0 c0 Hi Ha)].
  Qed.

  Lemma cinv_del l1 k c l2 : CInv (l1 ++ (k, c) :: l2) -> CInv (l1 ++ l2).
  Proof.
    intros (K & N & R). split; [|split].
    - rewrite map_app in *. cbn [map fst] in K. eapply NoDup_remove_1; eauto.
    - rewrite aids_mid in N. unfold aids in *. rewrite attl_app, map_app. eapply nodup_mid_drop; eauto.
    - intros k0 c0 a Hi Ha Hx. apply (R k0 c0 a); auto.
      + apply in_app_or in Hi. apply in_or_app. destruct Hi; [left|right; right]; auto.
      + rewrite aids_mid, !in_app_iff. unfold aids in Hx. rewrite attl_app, map_app, in_app_iff in Hx. tauto.
  Qed.

  Lemma cinv_snoc l k c : CInv l -> ~ In k (map fst l) -> sa c = None -> ra c = None -> CInv (l ++ [(k, c)]).
  Proof.
    intros (K & N & R) Hk Es Er.
    assert (E : aids (l ++ [(k, c)]) = aids l).
    { unfold aids. rewrite attl_app. unfold attl at 2. cbn [flat_map snd]. rewrite Es. cbn. now rewrite !app_nil_r. }
    split; [|split].
    - rewrite map_app. cbn. apply nodup_snoc; auto.
    - now rewrite E.
    - intros k0 c0 a Hi Ha. rewrite E. apply in_app_or in Hi. destruct Hi as [Hi|[Hi|[]]]; [eauto|].
      inversion Hi; subst. congruence.
  Qed.

  Lemma wsum_attl_mid (G : aioid * pmsg -> nat) l1 k c l2 :
    wsum G (attl (l1 ++ (k, c) :: l2)) = wsum G (attl l1) + wsum G (opt_list (sa c)) + wsum G (attl l2).
  Proof. rewrite attl_mid, !wsum_app. lia. Qed.
End Ctxs.

(* ================================ REP ================================ *)
Section RepSec.
  Import ReqRepBacktrace ReqModel RepModel ReqRepProofs.

  Lemma lookup_split {A} k (l : list (N * A)) c : lookup k l = Some c ->
    exists l1 l2, l = l1 ++ (k, c) :: l2 /\ forall c0 c', assoc_set k c' (l1 ++ (k, c0) :: l2) = l1 ++ (k, c') :: l2.
  Proof.
    induction l as [|[k0 v] l IH]; cbn; [discriminate|]. destruct (N.eqb_spec k0 k) as [->|Hk].
    - intros E. inversion E; subst. exists [], l. split; [reflexivity|]. intros c0 c'. cbn. now rewrite N.eqb_refl.
    - intros E. destruct (IH E) as [l1 [l2 [-> Hs]]]. exists ((k0, v) :: l1), l2. split; [reflexivity|].
      intros c0 c'. cbn. destruct (N.eqb_spec k0 k); [contradiction|]. now rewrite Hs.
  Qed.
  Lemma in_lookup {A} k (c : A) l : NoDup (map fst l) -> In (k, c) l -> lookup k l = Some c.
  Proof.
    induction l as [|[k0 v] l IH]; cbn; intros Hn Hi; [destruct Hi|]. inversion Hn; subst.
    destruct Hi as [E|Hi].
    - inversion E; subst. now rewrite N.eqb_refl.
    - destruct (N.eqb_spec k0 k); [subst; exfalso; apply H1; apply in_map_iff; exists (k, c); auto|]. auto.
  Qed.
  Lemma in_fst_filter {B} (f : N * B -> bool) q l : In q (map fst (filter f l)) -> In q (map fst l).
  Proof. rewrite !in_map_iff. intros [x [E Hi]]. apply filter_In in Hi. exists x. tauto. Qed.
  Lemma in_fst_del {B} p q (l : list (N * B)) : In q (map fst (assoc_del p l)) -> q <> p /\ In q (map fst l).
  Proof.
    unfold assoc_del. rewrite !in_map_iff. intros [x [E Hi]]. apply filter_In in Hi. destruct Hi as [Hi Hb].
    split; [|exists x; tauto]. subst q. destruct (N.eqb_spec (fst x) p); [discriminate|auto].
  Qed.
  Lemma find_pctx_some f l k c : find_pctx f l = Some (k, c) -> f c = true /\ In (k, c) l.
  Proof.
    induction l as [|[k0 c0] l IH]; cbn; [discriminate|]. destruct (f c0) eqn:E.
    - intros H. inversion H; subst. auto.
    - intros H. destruct (IH H). auto.
  Qed.
  Lemma find_saio_none a l : find_pctx (saio_is a) l = None -> ~ In a (aids rc_saio l).
  Proof.
    induction l as [|[k0 c0] l IH]; cbn; [tauto|]. destruct (saio_is a c0) eqn:E; [discriminate|].
    intros H. unfold aids, attl. cbn [flat_map snd]. fold (attl rc_saio l). rewrite map_app, in_app_iff.
    intros [Hi|Hi]; [|exact (IH H Hi)]. unfold saio_is in E. destruct (rc_saio c0) as [[b m]|]; cbn in Hi; [|tauto].
    destruct Hi as [<-|[]]. now rewrite N.eqb_refl in E.
  Qed.

  (* the invariant: contexts well keyed (CInv), and a pipe with a send in flight is busy
     (so a direct send goes to a pipe with nothing in flight) *)
  Definition RInv (s : rep) : Prop :=
    CInv rc_saio rc_raio (rp_ctxs s) /\ (forall p, In p (map fst (rp_sending s)) -> In p (rp_busy s)).
  (* the environment: an aio is submitted once at a time; cancel with an error; a context id is opened once *)
  Definition rep_ok (s : rep) (o : pop) : Prop :=
    match o with
    | PSend _ a _ _ => ~ In a (aids rc_saio (rp_ctxs s)) /\ (forall k c, In (k, c) (rp_ctxs s) -> rc_raio c <> Some a)
    | PRecv _ a _ => ~ In a (aids rc_saio (rp_ctxs s))
    | PCancel _ rv => rv <> 0%N
    | PCtxOpen k => ~ In (k + 1)%N (map fst (rp_ctxs s))
    | _ => True
    end.

  Lemma rep_inv_init : RInv rep_init.
  Proof.
    split; [split; [|split]|]; cbn.
    - constructor; [tauto|constructor].
    - constructor.
    - tauto.
    - tauto.
  Qed.

  Lemma w_rep F s : w_omega F view_rep s =
    wsum (fun m => F (OProto, body m)) (map snd (rp_holding s))
    + wsum (fun x => F (OPipe (fst x), body (snd x))) (rp_sending s)
    + wsum (fun x => F (OAio (fst x), body (snd x))) (attl rc_saio (rp_ctxs s)).
  Proof. reflexivity. Qed.
  Lemma skey_rep s o a : (forall c a' nb m, o <> PSend c a' nb m) ->
    send_key view_rep s o a = att_key a (attl rc_saio (rp_ctxs s)).
  Proof. intros H. now rewrite send_key_other. Qed.

  (* rep0_pipe_close's loop over the pipe's send queue: each queued reply is taken and freed *)
  Lemma close_sendq_spec F s0 o (Ho : forall c a' nb m, o <> PSend c a' nb m) ks : forall s1 s2 outs,
    close_sendq s1 ks = (s2, outs) ->
    CInv rc_saio rc_raio (rp_ctxs s1) ->
    (forall a m, In (a, m) (attl rc_saio (rp_ctxs s1)) -> att_key a (attl rc_saio (rp_ctxs s0)) = Some (body m)) ->
    rp_holding s2 = rp_holding s1 /\ rp_sending s2 = rp_sending s1 /\ rp_busy s2 = rp_busy s1 /\
    CInv rc_saio rc_raio (rp_ctxs s2) /\
    wsum (fun x => F (OAio (fst x), body (snd x))) (attl rc_saio (rp_ctxs s1)) + s_take F view_rep s0 o outs + o_tx F outs
    = wsum (fun x => F (OAio (fst x), body (snd x))) (attl rc_saio (rp_ctxs s2)) + s_del F view_rep s0 o outs + o_rel F outs.
  Proof.
    induction ks as [|k r IH]; intros s1 s2 outs H HC HK; cbn [close_sendq] in H.
    - inversion H; subst. cbn. split; [|split; [|split; [|split]]]; auto.
    - unfold rp_get in H. destruct (lookup k (rp_ctxs s1)) as [c|] eqn:EL; [|eauto].
      destruct (rc_saio c) as [[a m]|] eqn:ES; [|eauto].
      destruct (close_sendq (rp_put s1 k (mkPctx (rc_pipe c) (rc_bt c) None (rc_raio c))) r) as [s3 o3] eqn:EC.
      inversion H; subst; clear H.
      destruct (lookup_split _ _ _ EL) as [l1 [l2 [E1 E2]]].
      assert (E3 : rp_ctxs (rp_put s1 k (mkPctx (rc_pipe c) (rc_bt c) None (rc_raio c)))
                   = l1 ++ (k, mkPctx (rc_pipe c) (rc_bt c) None (rc_raio c)) :: l2).
      { unfold rp_put. cbn [rp_ctxs rp_set_ctxs]. rewrite E1. apply E2. }
      destruct (IH _ _ _ EC) as (H1 & H2 & H3 & H4 & H5).
      + rewrite E3. rewrite E1 in HC. eapply cinv_set; [exact HC|cbn; auto|cbn; auto].
      + intros a0 m0 Hi. apply HK. rewrite E3 in Hi. rewrite E1. rewrite attl_mid in *.
        cbn [rc_saio opt_list app] in Hi. rewrite !in_app_iff in *. tauto.
      + split; [|split; [|split; [|split]]]; auto. rewrite E3 in H5. rewrite E1.
        cbn [s_take s_del o_tx o_rel]. rewrite (skey_rep s0 o a Ho).
        rewrite (HK a m) by (rewrite E1, attl_mid, ES; rewrite !in_app_iff; right; left; left; reflexivity).
        change (E_OK =? 0)%N with true. cbv iota.
        rewrite !wsum_attl_mid in *. cbn [rc_saio] in H5. rewrite ES. cbn [opt_list] in *.
        rewrite ?wsum_cons, ?wsum_nil in *. cbn [fst snd]. lia.
  Qed.

  (* rep0_ctx_close: the queued send and the pending receive are aborted *)
  Lemma rep_ctx_close_spec s k cx s1 o1 :
    CInv rc_saio rc_raio (rp_ctxs s) -> lookup k (rp_ctxs s) = Some cx -> rep_ctx_close s k cx = (s1, o1) ->
    exists l1 l2, rp_ctxs s = l1 ++ (k, cx) :: l2 /\
      rp_ctxs s1 = l1 ++ (k, mkPctx (rc_pipe cx) (rc_bt cx) None None) :: l2 /\
      rp_holding s1 = rp_holding s /\ rp_sending s1 = rp_sending s /\ rp_busy s1 = rp_busy s /\
      forall F o, (forall c a' nb m, o <> PSend c a' nb m) ->
        wsum (fun x => F (OAio (fst x), body (snd x))) (attl rc_saio (rp_ctxs s)) + s_take F view_rep s o o1 + o_tx F o1
        = wsum (fun x => F (OAio (fst x), body (snd x))) (attl rc_saio (rp_ctxs s1)) + s_del F view_rep s o o1 + o_rel F o1.
  Proof.
    intros HC EL H. destruct (lookup_split _ _ _ EL) as [l1 [l2 [E1 E2]]]. exists l1, l2.
    pose proof (lookup_in _ _ _ EL) as Hin. destruct HC as (K & N & R).
    unfold rep_ctx_close in H.
    destruct (rc_saio cx) as [[sa m0]|] eqn:ES; destruct (rc_raio cx) as [ra|] eqn:ER; inversion H; subst; clear H;
      cbn [rp_ctxs rp_holding rp_sending rp_busy rp_set_sendq rp_set_recvq rp_put rp_set_ctxs];
      (split; [exact E1|]); (split; [rewrite E1; apply E2|]); (split; [reflexivity|]); (split; [reflexivity|]);
      (split; [reflexivity|]); intros F o Ho; cbn [app s_take s_del o_tx o_rel]; rewrite ?(skey_rep s o _ Ho);
      rewrite ?(cinv_att_key rc_saio rc_raio _ _ _ _ _ (conj K (conj N R)) Hin ES);
      rewrite ?(att_key_notin _ _ (R _ _ _ Hin ER));
      change (E_CLOSED =? 0)%N with false; cbv iota;
      rewrite E1, !E2, !wsum_attl_mid; cbn [rc_saio]; rewrite ES; cbn [opt_list]; wnorm; cbn [fst snd]; lia.
  Qed.

  Ltac rproj := cbn [rp_ctxs rp_pipes rp_busy rp_pclosed rp_holding rp_recvq rp_sendq rp_sending rp_readable
                     rp_writable rp_ttl rp_set_ctxs rp_set_pipes rp_set_holding rp_set_recvq rp_set_sendq
                     rp_set_sending rp_set_readable rp_set_writable rp_set_ttl rp_put] in *.
  Ltac ifrep := repeat match goal with
    | |- context [if ?b then ?x else ?y] => match type of x with rep => destruct b end
    end.
  Ltac law1 := cbv zeta;
    match goal with |- context [v_extra view_rep ?s ?o ?outs] => change (v_extra view_rep s o outs) with (@nil pmsg) end;
    match goal with |- context [v_clones view_rep ?s ?o ++ v_dups view_rep ?s ?o] =>
      change (v_clones view_rep s o ++ v_dups view_rep s o) with (@nil key) end;
    cbn [map]; rewrite app_nil_r, wsum_nil, !w_rep.
  Ltac law0 := intros F; law1.
  Ltac lawfin := rproj; cbn [op_add op_del s_take s_del o_tx o_rel]; rewrite ?send_key_self;
    wnorm; unfold body; cbn [fst snd rep_send rep_deliver pm_body pm_hdr N.eqb E_OK E_STATE E_AGAIN E_CLOSED]; try lia.

  Lemma rep_step_main pf s o s' outs :
    pf_saio pf = true -> RInv s -> rep_ok s o -> rep_step pf s o = (s', outs) ->
    RInv s' /\ law_sum view_rep s o s' outs.
  Proof.
    intros Hpf HI Hok H. pose proof HI as [HC HB]. pose proof HC as (K & N & R).
    destruct o as [c a nb m|c a nb|a rv|p peer|p|p rv|p rv m|c op|c|c| |now]; cbn [rep_step rep_ok] in *.
    - (* PSend *)
      unfold rp_get in H. destruct (lookup (ckey c) (rp_ctxs s)) as [cx|] eqn:EL.
      2:{ inversion H; subst. split; [exact HI|]. law0. lawfin. }
      destruct (lookup_split _ _ _ EL) as [l1 [l2 [E1 E2]]].
      unfold rep_ctx_send in H. rewrite Hpf in H. cbn [andb] in H.
      destruct (rc_saio cx) as [sx|] eqn:ES.
      { inversion H; subst. split; [exact HI|]. law0. lawfin. }
      assert (HC' : CInv rc_saio rc_raio (l1 ++ (ckey c, cx) :: l2)) by (rewrite <- E1; exact HC).
      repeat match type of H with context [if ?b then ?x else ?y] => match type of x with rep => destruct b end end.
      all: rproj.
      all: assert (GEN : forall s'' outs'' c',
                 (s', outs) = (s'', outs'') -> rp_ctxs s'' = l1 ++ (ckey c, c') :: l2 ->
                 rp_holding s'' = rp_holding s -> rp_sending s'' = rp_sending s -> rp_busy s'' = rp_busy s ->
                 rc_saio c' = None -> rc_raio c' = rc_raio cx ->
                 (outs'' = [Complete a E_STATE None] \/ outs'' = [Complete a E_AGAIN None] \/
                  exists m', outs'' = [Complete a E_OK None; Free m'] /\ pm_body m' = pm_body m) ->
                 RInv s' /\ law_sum view_rep s (PSend c a nb m) s' outs).
      all: try (intros s'' outs'' c' Hs Ec Eh Es Eb Esa Era Ho; inversion Hs; subst s' outs; clear Hs; split;
                [split; [rewrite Ec; eapply cinv_set; [exact HC'|rewrite Esa; auto|rewrite Era; auto]
                        |rewrite Es, Eb; exact HB]
                |law0; rewrite Ec, Eh, Es, E1, !wsum_attl_mid, Esa, ES;
                 destruct Ho as [->|[->|[m' [-> Em]]]]; lawfin; rewrite ?Em; lia]).
      all: destruct (rc_bt cx) as [|b0 bt] eqn:EB; cbn [is_nil] in H;
           [eapply GEN; [symmetry; exact H|rproj; rewrite E1, !E2; reflexivity|(reflexivity || exact ES)..|auto]|].
      all: destruct (has_id (rc_pipe cx) (rp_pipes s)); cbn [negb] in H;
           [|eapply GEN; [symmetry; exact H|rproj; rewrite E1, !E2; reflexivity|(reflexivity || exact ES)..|right; right; eexists; split; reflexivity]].
      all: destruct (has_id (rc_pipe cx) (rp_busy s)) eqn:EBusy; cbn [negb] in H.
      all: try (destruct nb; [destruct (pf_nbsend pf);
                 (eapply GEN; [symmetry; exact H|rproj; rewrite E1, !E2; reflexivity|(reflexivity || exact ES)..|auto])|]).
      all: injection H as Hs' Ho'; subst s' outs; clear GEN; rewrite E1 in Hok; destruct Hok as [Hok1 Hok2].
      all: try (apply has_id_false in EBusy;
                assert (EP : ~ In (rc_pipe cx) (map fst (rp_sending s))) by (intros Hx; apply EBusy, HB, Hx)).
      all: (split; [split; rproj|]).
      all: try (rewrite E1, !E2; eapply cinv_set; [exact HC'|cbn [rc_saio rc_raio]; rewrite ?ES; auto|cbn [rc_saio rc_raio]; auto]).
      all: try (intros q; cbn [map fst]; rewrite in_app_iff; intros [<-|Hq];
                [right; left; reflexivity|left; apply HB; eapply in_fst_filter; exact Hq]).
      all: try exact HB.
      all: try (right; right; eexists; eexists; split; [reflexivity|]; split; [reflexivity|]; split; assumption).
      all: law0; lawfin; rewrite E1, !E2, !wsum_attl_mid; cbn [rc_saio]; rewrite ES; cbn [opt_list];
           try (unfold assoc_del; rewrite (filter_keep_notin' _ _ EP)); wnorm; cbn [fst snd pm_body rep_send rep_deliver]; try lia.
    - (* PRecv *)
      assert (KN : forall rv, law_sum view_rep s (PRecv c a nb) s [Complete a rv None]).
      { intros rv. law0. cbn [op_add op_del s_take s_del o_tx o_rel]. rewrite skey_rep by (intros; discriminate).
        rewrite (att_key_notin _ _ Hok). lia. }
      unfold rp_get in H. destruct (lookup (ckey c) (rp_ctxs s)) as [cx|] eqn:EL.
      2:{ inversion H; subst. split; [exact HI|apply KN]. }
      destruct (lookup_split _ _ _ EL) as [l1 [l2 [E1 E2]]].
      assert (HC' : CInv rc_saio rc_raio (l1 ++ (ckey c, cx) :: l2)) by (rewrite <- E1; exact HC).
      unfold rep_ctx_recv in H. destruct (rp_holding s) as [|[p m] rest] eqn:EH.
      + destruct nb; [inversion H; subst; split; [exact HI|apply KN]|].
        destruct (rc_raio cx) eqn:ER; [inversion H; subst; split; [exact HI|apply KN]|].
        inversion H; subst; clear H. split.
        * split; rproj; [|exact HB]. rewrite E1, !E2. eapply cinv_set; [exact HC'|cbn; auto|].
          right; right. exists a. rewrite <- E1. cbn. auto.
        * law0. lawfin. rewrite EH, E1, !E2, !wsum_attl_mid. cbn [rc_saio]. lia.
      + unfold rep_take in H.
        repeat match type of H with context [if ?b then ?x else ?y] => match type of x with rep => destruct b end end.
        all: inversion H; subst; clear H; (split; [split; rproj; [|exact HB]|]).
        all: try (rewrite E1, !E2; eapply cinv_set; [exact HC'|cbn; auto|cbn; auto]).
        all: law0; lawfin; rewrite EH, E1, !E2, !wsum_attl_mid; cbn [rc_saio map]; wnorm; cbn [fst snd]; lia.
    - (* PCancel *)
      destruct (find_pctx (saio_is a) (rp_ctxs s)) as [[k cx]|] eqn:EF.
      + destruct (find_pctx_some _ _ _ _ EF) as [Hf Hin]. pose proof (in_lookup _ _ _ K Hin) as EL.
        destruct (lookup_split _ _ _ EL) as [l1 [l2 [E1 E2]]].
        assert (HC' : CInv rc_saio rc_raio (l1 ++ (k, cx) :: l2)) by (rewrite <- E1; exact HC).
        unfold saio_is in Hf. destruct (rc_saio cx) as [[a' m0]|] eqn:ES; [|discriminate].
        apply N.eqb_eq in Hf. subst a'.
        inversion H; subst; clear H. split.
        * split; rproj; [|exact HB]. rewrite E1, !E2. eapply cinv_set; [exact HC'|cbn; auto|cbn; auto].
        * law0. cbn [op_add op_del s_take s_del o_tx o_rel]. rewrite skey_rep by (intros; discriminate).
          rewrite (cinv_att_key _ _ _ _ _ _ _ HC Hin ES). destruct (N.eqb_spec rv 0); [contradiction|].
          lawfin. rewrite E1, !E2, !wsum_attl_mid. cbn [rc_saio]. rewrite ES. cbn [opt_list]. wnorm. cbn [fst snd]. lia.
      + pose proof (find_saio_none _ _ EF) as Hn.
        destruct (find_pctx (fun c => opt_is a (rc_raio c)) (rp_ctxs s)) as [[k cx]|] eqn:EF2.
        2:{ inversion H; subst. split; [exact HI|]. law0. lawfin. }
        destruct (find_pctx_some _ _ _ _ EF2) as [Hf Hin]. pose proof (in_lookup _ _ _ K Hin) as EL.
        destruct (lookup_split _ _ _ EL) as [l1 [l2 [E1 E2]]].
        assert (HC' : CInv rc_saio rc_raio (l1 ++ (k, cx) :: l2)) by (rewrite <- E1; exact HC).
        inversion H; subst; clear H. split.
        * split; rproj; [|exact HB]. rewrite E1, !E2. eapply cinv_set; [exact HC'|cbn; auto|cbn; auto].
        * law0. cbn [op_add op_del s_take s_del o_tx o_rel]. rewrite skey_rep by (intros; discriminate).
          rewrite (att_key_notin _ _ Hn). lawfin. rewrite E1, !E2, !wsum_attl_mid. cbn [rc_saio]. lia.
    - (* PPipeStart *)
      destruct (negb (peer =? PROTO_REQ)%N); inversion H; subst; clear H; (split; [exact HI|law0; lawfin]).
    - (* PPipeClose *)
      cbv zeta in H.
      repeat match type of H with context [if ?b then ?x else ?y] => match type of x with rep => destruct b end end.
      all: match type of H with context [close_sendq ?x ?ks] => destruct (close_sendq x ks) as [s2 o2] eqn:EC end.
      all: repeat match type of H with context [if ?b then ?x else ?y] => match type of x with rep => destruct b end end.
      all: assert (HK : forall a m, In (a, m) (attl rc_saio (rp_ctxs s)) -> att_key a (attl rc_saio (rp_ctxs s)) = Some (body m))
             by (intros a0 m0 Hi; apply att_key_in; [exact N|exact Hi]).
      all: pose proof (fun F => close_sendq_spec F s (PPipeClose p) ltac:(intros; discriminate) _ _ _ _ EC HC HK) as SP.
      all: destruct (SP (fun _ => 0)) as (S1 & S2 & S3 & S4 & _); rproj.
      all: inversion H; subst; clear H; (split; [split; rproj; [exact S4|rewrite S2, S3; exact HB]|]).
      all: law0; destruct (SP F) as (_ & _ & _ & _ & S5); rproj; lawfin; rewrite S1, S2;
           pose proof (wsum_filter_key (fun x => F (OProto, body (snd x))) p (rp_holding s)) as P; unfold assoc_del;
           unfold body in S5, P; lia.
    - (* PSendDone *)
      cbv zeta in H.
      assert (BD : forall q, In q (map fst (assoc_del p (rp_sending s))) -> In q (remove_id p (rp_busy s))).
      { intros q Hq. apply in_fst_del in Hq. apply in_remove_id. split; [apply HB|]; tauto. }
      assert (LW : forall F, w_omega F view_rep s + op_add F view_rep s (PSendDone p rv)
                   = w_omega F view_rep (rp_set_sending s (assoc_del p (rp_sending s))) + op_del F view_rep s (PSendDone p rv)
                     + (if (rv =? 0)%N then 0 else wsum (fun m => F (OProto, body m)) (map snd (filter (fun x => (fst x =? p)%N) (rp_sending s))))).
      { intros F. rewrite !w_rep. rproj. cbn [op_add op_del view_rep VRep.view v_tx].
        rewrite wsum_tx_of. unfold tx_of.
        pose proof (wsum_filter_key (fun x => F (OPipe (fst x), body (snd x))) p (rp_sending s)) as P. unfold assoc_del.
        destruct (rv =? 0)%N; lia. }
      destruct (N.eqb_spec rv 0) as [->|Hrv]; cbn [negb] in H.
      2:{ inversion H; subst; clear H. split.
          - split; rproj; [exact HC|]. intros q Hq. apply HB. eapply in_fst_filter. exact Hq.
          - intros F. specialize (LW F). cbv zeta.
            change (v_extra view_rep s (PSendDone p rv) (map Free (map snd (filter (fun x => (fst x =? p)%N) (rp_sending s))) ++ [ClosePipe p])) with (@nil pmsg).
            change (v_clones view_rep s (PSendDone p rv) ++ v_dups view_rep s (PSendDone p rv)) with (@nil key).
            cbn [map]. rewrite app_nil_r, wsum_nil. wnorm. cbn [s_take s_del o_tx o_rel]. lia. }
      change (0 =? 0)%N with true in LW. cbv iota in LW. rproj.
      destruct (first_on p (rp_sendq s)) as [k|] eqn:EFO.
      2:{ repeat match type of H with context [if ?b then ?x else ?y] => match type of x with rep => destruct b end end.
          all: inversion H; subst; clear H; (split; [split; rproj; [exact HC|exact BD]|]).
          all: intros F; specialize (LW F); revert LW; law1; lawfin. }
      unfold rp_get in H. rproj. destruct (lookup k (rp_ctxs s)) as [cx|] eqn:EL.
      2:{ inversion H; subst; clear H; (split; [split; rproj; [exact HC|exact BD]|]).
          intros F; specialize (LW F); revert LW; law1; lawfin. }
      destruct (rc_saio cx) as [[a m]|] eqn:ES.
      2:{ inversion H; subst; clear H; (split; [split; rproj; [exact HC|exact BD]|]).
          intros F; specialize (LW F); revert LW; law1; lawfin. }
      destruct (lookup_split _ _ _ EL) as [l1 [l2 [E1 E2]]].
      assert (HC' : CInv rc_saio rc_raio (l1 ++ (k, cx) :: l2)) by (rewrite <- E1; exact HC).
      inversion H; subst; clear H. split.
      + split; rproj.
        * rewrite E1, !E2. eapply cinv_set; [exact HC'|cbn; auto|cbn; auto].
        * intros q. cbn [map fst]. rewrite in_app_iff. intros [<-|Hq]; [right; left; reflexivity|left; auto].
      + intros F; specialize (LW F); revert LW; law1. cbn [op_add op_del s_take s_del o_tx o_rel].
        rewrite skey_rep by (intros; discriminate).
        rewrite (cinv_att_key _ _ _ _ _ _ _ HC (lookup_in _ _ _ EL) ES).
        lawfin. rewrite E1, !E2, !wsum_attl_mid. cbn [rc_saio]. rewrite ES. cbn [opt_list]. wnorm. cbn [fst snd]. lia.
    - (* PRecvDone *)
      destruct (N.eqb_spec rv 0) as [->|Hrv]; cbn [negb] in H.
      2:{ inversion H; subst; clear H. split; [exact HI|]. law0. cbn [op_add]. destruct (N.eqb_spec rv 0); [contradiction|]. lawfin. }
      assert (RX : forall F, op_add F view_rep s (PRecvDone p 0 m)
                   = F (OProto, match rep_recv (rp_ttl s) (pm_body m) with BtDeliver m' => body m' | _ => body m end)) by reflexivity.
      destruct (rep_recv (rp_ttl s) (pm_body m)) as [m'| |] eqn:ER.
      2,3: inversion H; subst; clear H; (split; [exact HI|]); law0; rewrite RX; lawfin.
      destruct (has_id p (rp_pclosed s)).
      { inversion H; subst; clear H; (split; [exact HI|]); law0; rewrite RX; lawfin. }
      destruct (rp_recvq s) as [|k rest].
      { inversion H; subst; clear H; (split; [split; rproj; [exact HC|exact HB]|]); law0; rewrite RX; lawfin. }
      unfold rp_get in H. destruct (lookup k (rp_ctxs s)) as [cx|] eqn:EL.
      2:{ inversion H; subst; clear H; (split; [split; rproj; [exact HC|exact HB]|]); law0; rewrite RX; lawfin. }
      destruct (rc_raio cx) as [ra|] eqn:ERA.
      2:{ inversion H; subst; clear H; (split; [split; rproj; [exact HC|exact HB]|]); law0; rewrite RX; lawfin. }
      destruct (lookup_split _ _ _ EL) as [l1 [l2 [E1 E2]]].
      assert (HC' : CInv rc_saio rc_raio (l1 ++ (k, cx) :: l2)) by (rewrite <- E1; exact HC).
      unfold rep_take in H.
      repeat match type of H with context [if ?b then ?x else ?y] => match type of x with rep => destruct b end end.
      all: inversion H; subst; clear H; (split; [split; rproj; [|exact HB]|]).
      all: try (rewrite E1, !E2; eapply cinv_set; [exact HC'|cbn; auto|cbn; auto]).
      all: law0; rewrite RX; lawfin; rewrite E1, !E2, !wsum_attl_mid; cbn [rc_saio]; lia.
    - (* PSetOpt *)
      destruct c; [inversion H; subst; split; [exact HI|law0; lawfin]|].
      destruct op; try (inversion H; subst; split; [exact HI|law0; lawfin]).
      all: match type of H with (if ?b then _ else _) = _ => destruct b end;
           inversion H; subst; (split; [exact HI|law0; lawfin]).
    - (* PCtxOpen *)
      inversion H; subst; clear H. split.
      + split; rproj; [|exact HB]. apply cinv_snoc; auto.
      + law0. lawfin. rewrite attl_app. wnorm. cbn. wnorm. lia.
    - (* PCtxClose *)
      unfold rp_get in H. destruct (lookup (c + 1)%N (rp_ctxs s)) as [cx|] eqn:EL.
      2:{ inversion H; subst. split; [exact HI|law0; lawfin]. }
      destruct (rep_ctx_close s (c + 1)%N cx) as [s1 o1] eqn:ECL.
      destruct (rep_ctx_close_spec _ _ _ _ _ HC EL ECL) as (l1 & l2 & E1 & E3 & E4 & E5 & E6 & E7).
      assert (HC1 : CInv rc_saio rc_raio (rp_ctxs s1)).
      { rewrite E3. rewrite E1 in HC. eapply cinv_set; [exact HC|cbn; auto|cbn; auto]. }
      assert (ED : assoc_del (c + 1)%N (rp_ctxs s1) = l1 ++ l2).
      { rewrite E3. unfold assoc_del. apply filter_mid_key. rewrite <- E3. apply HC1. }
      inversion H; subst; clear H. split.
      + split; rproj; [|rewrite E5, E6; exact HB]. rewrite ED. rewrite E3 in HC1. eapply cinv_del; exact HC1.
      + law0. specialize (E7 F (PCtxClose c) ltac:(intros; discriminate)). lawfin. rewrite E4, E5, ED.
        rewrite E3, wsum_attl_mid in E7. cbn [rc_saio opt_list] in E7. rewrite attl_app. unfold body in E7. wnorm. lia.
    - (* PSockClose *)
      unfold rp_get in H. destruct (lookup 0%N (rp_ctxs s)) as [cx|] eqn:EL.
      2:{ inversion H; subst. split; [exact HI|law0; lawfin]. }
      destruct (rep_ctx_close_spec _ _ _ _ _ HC EL H) as (l1 & l2 & E1 & E3 & E4 & E5 & E6 & E7). split.
      + split; [|rewrite E5, E6; exact HB]. rewrite E3. rewrite E1 in HC. eapply cinv_set; [exact HC|cbn; auto|cbn; auto].
      + law0. specialize (E7 F PSockClose ltac:(intros; discriminate)). lawfin. rewrite E4, E5. unfold body in E7. lia.
    - (* PTick *)
      inversion H; subst. split; [exact HI|law0; lawfin].
  Qed.









End RepSec.
