(* OwnRepResp: the ledger law of cooked REP and cooked RESPONDENT
   (src/sp/protocol/reqrep0/rep.c, src/sp/protocol/survey0/respond.c).

   Both protocols have the same architecture: a parsed request / survey is parked in the
   pipe (v_held); a reply whose pipe is busy stays on the user's aio, recorded in the
   context (ctx->saio, v_att); one message per pipe is in flight (v_tx).
   The law is proved for the sources that refuse a second send of a context whose
   previous reply is still queued (RepModel.pf_saio / RespondModel.rf_sbusy = true, the
   current source): without that repair the queued reply is overwritten, the reference
   is lost and the law is false. *)
From Coq Require Import List Arith NArith Bool Lia Permutation.
From NngV Require Import Proto.Common Ledger.Ledger Ledger.LedgerProofs Ledger.LawTac Ledger.Views.
From NngV Require Proto.ReqRepBacktrace Proto.ReqModel Proto.RepModel Proto.ReqRepProofs
  Proto.SurveyBacktrace Proto.SurveyModel Proto.RespondModel Proto.SurveyProofs.
Import ListNotations.

(* ------------------------------------------------------------------ *)
(* contexts as a keyed list: the queued sends (saio) and pending receives (raio) *)
Lemma nodup_mid_swap {A} (X P Q : list A) : NoDup (P ++ X ++ Q) <-> NoDup (X ++ P ++ Q).
Proof.
  split; apply Permutation_NoDup; [|apply Permutation_sym]; apply Permutation_app_swap_app.
Qed.
Lemma nodup_mid_drop {A} (X P Q : list A) : NoDup (P ++ X ++ Q) -> NoDup (P ++ Q).
Proof.
  rewrite nodup_mid_swap. induction X as [|x X IH]; cbn; auto. intros H. inversion H; auto.
Qed.
Lemma filter_mid_key {A} (k : N) (l1 : list (N * A)) c l2 :
  NoDup (map fst (l1 ++ (k, c) :: l2)) ->
  filter (fun x => negb (N.eqb (fst x) k)) (l1 ++ (k, c) :: l2) = l1 ++ l2.
Proof.
  intros H. rewrite map_app in H. cbn [map fst] in H.
  pose proof (NoDup_remove_2 _ _ _ H) as Hn. rewrite in_app_iff in Hn.
  rewrite filter_app. cbn [filter fst]. rewrite N.eqb_refl. cbn [negb].
  rewrite !filter_keep_notin' by tauto. reflexivity.
Qed.

Section Ctxs.
  Context {A : Type} (sa : A -> option (aioid * pmsg)) (ra : A -> option aioid).

  Definition attl (l : list (N * A)) : list (aioid * pmsg) := flat_map (fun kc => opt_list (sa (snd kc))) l.
  Definition aids (l : list (N * A)) : list aioid := map fst (attl l).

  Lemma attl_app a b : attl (a ++ b) = attl a ++ attl b.
  Proof. apply flat_map_app. Qed.
  Lemma attl_mid l1 k c l2 : attl (l1 ++ (k, c) :: l2) = attl l1 ++ opt_list (sa c) ++ attl l2.
  Proof. rewrite attl_app. reflexivity. Qed.
  Lemma aids_mid l1 k c l2 : aids (l1 ++ (k, c) :: l2) = aids l1 ++ map fst (opt_list (sa c)) ++ aids l2.
  Proof. unfold aids. now rewrite attl_mid, !map_app. Qed.
  Lemma in_attl a m l : In (a, m) (attl l) <-> exists k c, In (k, c) l /\ sa c = Some (a, m).
  Proof.
    unfold attl. rewrite in_flat_map. split.
    - intros [[k c] [Hi Ho]]. cbn [snd] in Ho. destruct (sa c) as [x|] eqn:E; cbn in Ho; [|tauto].
      destruct Ho as [->|[]]. eauto.
    - intros [k [c [Hi E]]]. exists (k, c). split; auto. cbn [snd]. rewrite E. left. reflexivity.
  Qed.

  (* keys unique; an aio queued as a send at most once; no aio both a queued send and a pending receive *)
  Definition CInv (l : list (N * A)) : Prop :=
    NoDup (map fst l) /\ NoDup (aids l) /\ (forall k c a, In (k, c) l -> ra c = Some a -> ~ In a (aids l)).

  Lemma cinv_att_key l k c a m : CInv l -> In (k, c) l -> sa c = Some (a, m) -> att_key a (attl l) = Some (body m).
  Proof. intros (_ & N & _) Hi E. apply att_key_in; [exact N|]. apply in_attl. eauto. Qed.

  (* replacing the record of one context *)
  Lemma cinv_set l1 k c c' l2 :
    CInv (l1 ++ (k, c) :: l2) ->
    (sa c' = sa c \/ sa c' = None \/
     (exists a m, sa c' = Some (a, m) /\ sa c = None /\ ~ In a (aids (l1 ++ (k, c) :: l2)) /\
                  (forall k0 c0, In (k0, c0) (l1 ++ (k, c) :: l2) -> ra c0 <> Some a))) ->
    (ra c' = ra c \/ ra c' = None \/
     (exists a, ra c' = Some a /\ ~ In a (aids (l1 ++ (k, c) :: l2)) /\ sa c' = sa c)) ->
    CInv (l1 ++ (k, c') :: l2).
  Proof.
    intros (K & N & R) HS HR.
    assert (Hin : forall k0 c0, In (k0, c0) (l1 ++ (k, c') :: l2) ->
                    (k0 = k /\ c0 = c') \/ In (k0, c0) (l1 ++ (k, c) :: l2)).
    { intros k0 c0. rewrite !in_app_iff. cbn [In]. intros [H|[H|H]]; auto. inversion H; auto. }
    (* the new ids: the old ones, or the freshly queued send *)
    assert (Hsub : forall x, In x (aids (l1 ++ (k, c') :: l2)) ->
                     In x (aids (l1 ++ (k, c) :: l2)) \/
                     (exists m, sa c' = Some (x, m) /\ sa c = None /\ ~ In x (aids (l1 ++ (k, c) :: l2)) /\
                                (forall k0 c0, In (k0, c0) (l1 ++ (k, c) :: l2) -> ra c0 <> Some x))).
    { intros x. rewrite !aids_mid, !in_app_iff. intros [H|[H|H]]; auto.
      destruct HS as [E|[E|[a [m [E [E0 [Hn Hr]]]]]]].
      - rewrite E in H. auto.
      - rewrite E in H. destruct H.
      - rewrite E in H. cbn in H. destruct H as [<-|[]]. right. exists m. rewrite !aids_mid, !in_app_iff in Hn. auto. }
    split; [|split].
    - rewrite map_app in *. exact K.
    - rewrite aids_mid in *. destruct HS as [E|[E|[a [m [E [E0 [Hn Hr]]]]]]].
      + rewrite E. exact N.
      + rewrite E. cbn [opt_list map app]. eapply nodup_mid_drop. exact N.
      + rewrite E. rewrite E0 in N, Hn. cbn [opt_list map app] in *.
        apply (nodup_mid_swap [a]). cbn [app]. constructor; assumption.
    - intros k0 c0 a Hi Ha Hx. apply Hin in Hi. apply Hsub in Hx.
      assert (Hold : forall a0, ra c0 = Some a0 -> (k0 = k /\ c0 = c') \/ In (k0, c0) (l1 ++ (k, c) :: l2) -> True) by auto.
      destruct Hi as [[-> ->]|Hi].
      + destruct HR as [E|[E|[a1 [E [Hn E1]]]]].
        * rewrite E in Ha. assert (Hk : In (k, c) (l1 ++ (k, c) :: l2)) by (apply in_or_app; right; left; reflexivity).
          destruct Hx as [Hx|[m [_ [_ [_ Hr]]]]]; [exact (R k c a Hk Ha Hx)|exact (Hr k c Hk Ha)].
        * congruence.
        * assert (a1 = a) by congruence. subst a1.
          destruct Hx as [Hx|[m [E2 [E3 _]]]]; [tauto|congruence].
      + destruct Hx as [Hx|[m [_ [_ [_ Hr]]]]]; [exact (R k0 c0 a Hi Ha Hx)|exact (Hr k0 c0 Hi Ha)].
  Qed.

  Lemma cinv_del l1 k c l2 : CInv (l1 ++ (k, c) :: l2) -> CInv (l1 ++ l2).
  Proof.
    intros (K & N & R). split; [|split].
    - rewrite map_app in *. cbn [map fst] in K. eapply NoDup_remove_1; eauto.
    - rewrite aids_mid in N. unfold aids in *. rewrite attl_app, map_app. eapply nodup_mid_drop; eauto.
    - intros k0 c0 a Hi Ha Hx. apply (R k0 c0 a); auto.
      + apply in_app_or in Hi. apply in_or_app. destruct Hi; [left|right; right]; auto.
      + rewrite aids_mid, !in_app_iff. unfold aids in Hx. rewrite attl_app, map_app, in_app_iff in Hx. tauto.
  Qed.

  Lemma cinv_snoc l k c : CInv l -> ~ In k (map fst l) -> sa c = None -> ra c = None -> CInv (l ++ [(k, c)]).
  Proof.
    intros (K & N & R) Hk Es Er.
    assert (E : aids (l ++ [(k, c)]) = aids l).
    { unfold aids. rewrite attl_app. unfold attl at 2. cbn [flat_map snd]. rewrite Es. cbn. now rewrite !app_nil_r. }
    split; [|split].
    - rewrite map_app. cbn. apply nodup_snoc; auto.
    - now rewrite E.
    - intros k0 c0 a Hi Ha. rewrite E. apply in_app_or in Hi. destruct Hi as [Hi|[Hi|[]]]; [eauto|].
      inversion Hi; subst. congruence.
  Qed.

  Lemma wsum_attl_mid (G : aioid * pmsg -> nat) l1 k c l2 :
    wsum G (attl (l1 ++ (k, c) :: l2)) = wsum G (attl l1) + wsum G (opt_list (sa c)) + wsum G (attl l2).
  Proof. rewrite attl_mid, !wsum_app. lia. Qed.
End Ctxs.
