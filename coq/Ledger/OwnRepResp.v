(* OwnRepResp: the ledger law of cooked REP and cooked RESPONDENT
   (src/sp/protocol/reqrep0/rep.c, src/sp/protocol/survey0/respond.c).

   Both protocols have the same architecture: a parsed request / survey is parked in the
   pipe (v_held); a reply whose pipe is busy stays on the user's aio, recorded in the
   context (ctx->saio, v_att); one message per pipe is in flight (v_tx).
   The law is proved for the sources that refuse a second send of a context whose
   previous reply is still queued (RepModel.pf_saio / RespondModel.rf_sbusy = true, the
   current source): without that repair the queued reply is overwritten, the reference
   is lost and the law is false. *)
From Coq Require Import List Arith NArith Bool Lia Permutation.
From NngV Require Import Proto.Common Ledger.Ledger Ledger.LedgerProofs Ledger.LawTac Ledger.Views.
From NngV Require Proto.ReqRepBacktrace Proto.ReqModel Proto.RepModel Proto.ReqRepProofs Proto.RepProofs
  Proto.SurveyBacktrace Proto.SurveyModel Proto.RespondModel Proto.SurveyProofs.
Import ListNotations.

(* ------------------------------------------------------------------ *)
(* contexts as a keyed list: the queued sends (saio) and pending receives (raio) *)
Lemma nodup_mid_swap {A} (X P Q : list A) : NoDup (P ++ X ++ Q) <-> NoDup (X ++ P ++ Q).
Proof.
  split; apply Permutation_NoDup; [|apply Permutation_sym]; apply Permutation_app_swap_app.
Qed.
Lemma nodup_mid_drop {A} (X P Q : list A) : NoDup (P ++ X ++ Q) -> NoDup (P ++ Q).
Proof.
  rewrite nodup_mid_swap. induction X as [|x X IH]; cbn; auto. intros H. inversion H; auto.
Qed.
Lemma filter_mid_key {A} (k : N) (l1 : list (N * A)) c l2 :
  NoDup (map fst (l1 ++ (k, c) :: l2)) ->
  filter (fun x => negb (N.eqb (fst x) k)) (l1 ++ (k, c) :: l2) = l1 ++ l2.
Proof.
  intros H. rewrite map_app in H. cbn [map fst] in H.
  pose proof (NoDup_remove_2 _ _ _ H) as Hn. rewrite in_app_iff in Hn.
  rewrite filter_app. cbn [filter fst]. rewrite N.eqb_refl. cbn [negb].
  rewrite !filter_keep_notin' by tauto. reflexivity.
Qed.

Section Ctxs.
  Context {A : Type} (sa : A -> option (aioid * pmsg)) (ra : A -> option aioid).

  Definition attl (l : list (N * A)) : list (aioid * pmsg) := flat_map (fun kc => opt_list (sa (snd kc))) l.
  Definition aids (l : list (N * A)) : list aioid := map fst (attl l).

  Lemma attl_app a b : attl (a ++ b) = attl a ++ attl b.
  Proof. apply flat_map_app. Qed.
  Lemma attl_mid l1 k c l2 : attl (l1 ++ (k, c) :: l2) = attl l1 ++ opt_list (sa c) ++ attl l2.
  Proof. rewrite attl_app. reflexivity. Qed.
  Lemma aids_mid l1 k c l2 : aids (l1 ++ (k, c) :: l2) = aids l1 ++ map fst (opt_list (sa c)) ++ aids l2.
  Proof. unfold aids. now rewrite attl_mid, !map_app. Qed.
  Lemma in_attl a m l : In (a, m) (attl l) <-> exists k c, In (k, c) l /\ sa c = Some (a, m).
  Proof.
    unfold attl. rewrite in_flat_map. split.
    - intros [[k c] [Hi Ho]]. cbn [snd] in Ho. destruct (sa c) as [x|] eqn:E; cbn in Ho; [|tauto].
      destruct Ho as [->|[]]. eauto.
    - intros [k [c [Hi E]]]. exists (k, c). split; auto. cbn [snd]. rewrite E. left. reflexivity.
  Qed.

  (* keys unique; an aio queued as a send at most once; no aio both a queued send and a pending receive *)
  Definition CInv (l : list (N * A)) : Prop :=
    NoDup (map fst l) /\ NoDup (aids l) /\ (forall k c a, In (k, c) l -> ra c = Some a -> ~ In a (aids l)).

  Lemma cinv_att_key l k c a m : CInv l -> In (k, c) l -> sa c = Some (a, m) -> att_key a (attl l) = Some (body m).
  Proof. intros (_ & N & _) Hi E. apply att_key_in; [exact N|]. apply in_attl. eauto. Qed.

  (* replacing the record of one context *)
  Lemma cinv_set l1 k c c' l2 :
    CInv (l1 ++ (k, c) :: l2) ->
    (sa c' = sa c \/ sa c' = None \/
     (exists a m, sa c' = Some (a, m) /\ sa c = None /\ ~ In a (aids (l1 ++ (k, c) :: l2)) /\
                  (forall k0 c0, In (k0, c0) (l1 ++ (k, c) :: l2) -> ra c0 <> Some a))) ->
    (ra c' = ra c \/ ra c' = None \/
     (exists a, ra c' = Some a /\ ~ In a (aids (l1 ++ (k, c) :: l2)) /\ sa c' = sa c)) ->
    CInv (l1 ++ (k, c') :: l2).
  Proof.
    intros (K & N & R) HS HR.
    assert (Hin : forall k0 c0, In (k0, c0) (l1 ++ (k, c') :: l2) ->
                    (k0 = k /\ c0 = c') \/ In (k0, c0) (l1 ++ (k, c) :: l2)).
    { intros k0 c0. rewrite !in_app_iff. cbn [In]. intros [H|[H|H]]; auto. inversion H; auto. }
    (* the new ids: the old ones, or the freshly queued send *)
    assert (Hsub : forall x, In x (aids (l1 ++ (k, c') :: l2)) ->
                     In x (aids (l1 ++ (k, c) :: l2)) \/
                     (exists m, sa c' = Some (x, m) /\ sa c = None /\ ~ In x (aids (l1 ++ (k, c) :: l2)) /\
                                (forall k0 c0, In (k0, c0) (l1 ++ (k, c) :: l2) -> ra c0 <> Some x))).
    { intros x Hx. rewrite (aids_mid l1 k c' l2), !in_app_iff in Hx.
      assert (Ho : forall y, In y (aids l1) \/ In y (aids l2) -> In y (aids (l1 ++ (k, c) :: l2))).
      { intros y Hy. rewrite aids_mid, !in_app_iff. tauto. }
      destruct Hx as [H|[H|H]]; auto.
      destruct HS as [E|[E|[a [m [E [E0 [Hn Hr]]]]]]].
      - rewrite E in H. left. rewrite aids_mid, !in_app_iff. auto.
      - rewrite E in H. destruct H.
      - rewrite E in H. cbn in H. destruct H as [<-|[]]. right. exists m. auto. }
    split; [|split].
    - rewrite map_app in *. exact K.
    - rewrite aids_mid in *. destruct HS as [E|[E|[a [m [E [E0 [Hn Hr]]]]]]].
      + rewrite E. exact N.
      + rewrite E. cbn [opt_list map app]. eapply nodup_mid_drop. exact N.
      + rewrite E. rewrite E0 in N, Hn. cbn [opt_list map app] in *.
        apply (nodup_mid_swap [a]). cbn [app]. constructor; assumption.
    - intros k0 c0 a Hi Ha Hx. apply Hin in Hi. apply Hsub in Hx.
      assert (Hold : forall a0, ra c0 = Some a0 -> (k0 = k /\ c0 = c') \/ In (k0, c0) (l1 ++ (k, c) :: l2) -> True) by auto.
      destruct Hi as [[-> ->]|Hi].
      + destruct HR as [E|[E|[a1 [E [Hn E1]]]]].
        * rewrite E in Ha. assert (Hk : In (k, c) (l1 ++ (k, c) :: l2)) by (apply in_or_app; right; left; reflexivity).
          destruct Hx as [Hx|[m [_ [_ [_ Hr]]]]]; [exact (R k c a Hk Ha Hx)|exact (Hr k c Hk Ha)].
        * congruence.
        * assert (a1 = a) by congruence. subst a1.
          destruct Hx as [Hx|[m [E2 [E3 _]]]]; [tauto|congruence].
      + destruct Hx as [Hx|[m [_ [_ [_ Hr]]]]]; [exact (R k0 c0 a Hi Ha Hx)|exact (Hr k0 c0 Hi Ha)].
  Qed.

  Lemma cinv_del l1 k c l2 : CInv (l1 ++ (k, c) :: l2) -> CInv (l1 ++ l2).
  Proof.
    intros (K & N & R). split; [|split].
    - rewrite map_app in *. cbn [map fst] in K. eapply NoDup_remove_1; eauto.
    - rewrite aids_mid in N. unfold aids in *. rewrite attl_app, map_app. eapply nodup_mid_drop; eauto.
    - intros k0 c0 a Hi Ha Hx. apply (R k0 c0 a); auto.
      + apply in_app_or in Hi. apply in_or_app. destruct Hi; [left|right; right]; auto.
      + rewrite aids_mid, !in_app_iff. unfold aids in Hx. rewrite attl_app, map_app, in_app_iff in Hx. tauto.
  Qed.

  Lemma cinv_snoc l k c : CInv l -> ~ In k (map fst l) -> sa c = None -> ra c = None -> CInv (l ++ [(k, c)]).
  Proof.
    intros (K & N & R) Hk Es Er.
    assert (E : aids (l ++ [(k, c)]) = aids l).
    { unfold aids. rewrite attl_app. unfold attl at 2. cbn [flat_map snd]. rewrite Es. cbn. now rewrite !app_nil_r. }
    split; [|split].
    - rewrite map_app. cbn. apply nodup_snoc; auto.
    - now rewrite E.
    - intros k0 c0 a Hi Ha. rewrite E. apply in_app_or in Hi. destruct Hi as [Hi|[Hi|[]]]; [eauto|].
      inversion Hi; subst. congruence.
  Qed.

  Lemma wsum_attl_mid (G : aioid * pmsg -> nat) l1 k c l2 :
    wsum G (attl (l1 ++ (k, c) :: l2)) = wsum G (attl l1) + wsum G (opt_list (sa c)) + wsum G (attl l2).
  Proof. rewrite attl_mid, !wsum_app. lia. Qed.
End Ctxs.

(* ================================ REP ================================ *)
Section RepSec.
  Import ReqRepBacktrace ReqModel RepModel ReqRepProofs.

  Lemma lookup_split {A} k (l : list (N * A)) c : lookup k l = Some c ->
    exists l1 l2, l = l1 ++ (k, c) :: l2 /\ forall c0 c', assoc_set k c' (l1 ++ (k, c0) :: l2) = l1 ++ (k, c') :: l2.
  Proof.
    induction l as [|[k0 v] l IH]; cbn; [discriminate|]. destruct (N.eqb_spec k0 k) as [->|Hk].
    - intros E. inversion E; subst. exists [], l. split; [reflexivity|]. intros c0 c'. cbn. now rewrite N.eqb_refl.
    - intros E. destruct (IH E) as [l1 [l2 [-> Hs]]]. exists ((k0, v) :: l1), l2. split; [reflexivity|].
      intros c0 c'. cbn. destruct (N.eqb_spec k0 k); [contradiction|]. now rewrite Hs.
  Qed.
  Lemma in_lookup {A} k (c : A) l : NoDup (map fst l) -> In (k, c) l -> lookup k l = Some c.
  Proof.
    induction l as [|[k0 v] l IH]; cbn; intros Hn Hi; [destruct Hi|]. inversion Hn; subst.
    destruct Hi as [E|Hi].
    - inversion E; subst. now rewrite N.eqb_refl.
    - destruct (N.eqb_spec k0 k); [subst; exfalso; apply H1; apply in_map_iff; exists (k, c); auto|]. auto.
  Qed.
  Lemma in_fst_filter {B} (f : N * B -> bool) q l : In q (map fst (filter f l)) -> In q (map fst l).
  Proof. rewrite !in_map_iff. intros [x [E Hi]]. apply filter_In in Hi. exists x. tauto. Qed.
  Lemma in_fst_del {B} p q (l : list (N * B)) : In q (map fst (assoc_del p l)) -> q <> p /\ In q (map fst l).
  Proof.
    unfold assoc_del. rewrite !in_map_iff. intros [x [E Hi]]. apply filter_In in Hi. destruct Hi as [Hi Hb].
    split; [|exists x; tauto]. subst q. destruct (N.eqb_spec (fst x) p); [discriminate|auto].
  Qed.
  Lemma find_pctx_some f l k c : find_pctx f l = Some (k, c) -> f c = true /\ In (k, c) l.
  Proof.
    induction l as [|[k0 c0] l IH]; cbn; [discriminate|]. destruct (f c0) eqn:E.
    - intros H. inversion H; subst. auto.
    - intros H. destruct (IH H). auto.
  Qed.
  Lemma find_saio_none a l : find_pctx (saio_is a) l = None -> ~ In a (aids rc_saio l).
  Proof.
    induction l as [|[k0 c0] l IH]; cbn; [tauto|]. destruct (saio_is a c0) eqn:E; [discriminate|].
    intros H. unfold aids, attl. cbn [flat_map snd]. fold (attl rc_saio l). rewrite map_app, in_app_iff.
    intros [Hi|Hi]; [|exact (IH H Hi)]. unfold saio_is in E. destruct (rc_saio c0) as [[b m]|]; cbn in Hi; [|tauto].
    destruct Hi as [<-|[]]. now rewrite N.eqb_refl in E.
  Qed.

  (* the invariant: contexts well keyed (CInv), and a pipe with a send in flight is busy
     (so a direct send goes to a pipe with nothing in flight) *)
  Definition RInv (s : rep) : Prop :=
    CInv rc_saio rc_raio (rp_ctxs s) /\ (forall p, In p (map fst (rp_sending s)) -> In p (rp_busy s)).
  (* the environment: an aio is submitted once at a time; cancel with an error; a context id is opened once *)
  Definition rep_ok (s : rep) (o : pop) : Prop :=
    match o with
    | PSend _ a _ _ => ~ In a (aids rc_saio (rp_ctxs s)) /\ (forall k c, In (k, c) (rp_ctxs s) -> rc_raio c <> Some a)
    | PRecv _ a _ => ~ In a (aids rc_saio (rp_ctxs s))
    | PCancel _ rv => rv <> 0%N
    | PCtxOpen k => ~ In (k + 1)%N (map fst (rp_ctxs s))
    | _ => True
    end.

  Lemma rep_inv_init : RInv rep_init.
  Proof.
    split; [split; [|split]|]; cbn.
    - constructor; [tauto|constructor].
    - constructor.
    - tauto.
    - tauto.
  Qed.

  Lemma w_rep F s : w_omega F view_rep s =
    wsum (fun m => F (OProto, body m)) (map snd (rp_holding s))
    + wsum (fun x => F (OPipe (fst x), body (snd x))) (rp_sending s)
    + wsum (fun x => F (OAio (fst x), body (snd x))) (attl rc_saio (rp_ctxs s)).
  Proof. reflexivity. Qed.
  Lemma skey_rep s o a : (forall c a' nb m, o <> PSend c a' nb m) ->
    send_key view_rep s o a = att_key a (attl rc_saio (rp_ctxs s)).
  Proof. intros H. now rewrite send_key_other. Qed.

  (* rep0_pipe_close's loop over the pipe's send queue: each queued reply is taken and freed *)
  Lemma close_sendq_spec F s0 o (Ho : forall c a' nb m, o <> PSend c a' nb m) ks : forall s1 s2 outs,
    close_sendq s1 ks = (s2, outs) ->
    CInv rc_saio rc_raio (rp_ctxs s1) ->
    (forall a m, In (a, m) (attl rc_saio (rp_ctxs s1)) -> att_key a (attl rc_saio (rp_ctxs s0)) = Some (body m)) ->
    rp_holding s2 = rp_holding s1 /\ rp_sending s2 = rp_sending s1 /\ rp_busy s2 = rp_busy s1 /\
    CInv rc_saio rc_raio (rp_ctxs s2) /\
    wsum (fun x => F (OAio (fst x), body (snd x))) (attl rc_saio (rp_ctxs s1)) + s_take F view_rep s0 o outs + o_tx F outs
    = wsum (fun x => F (OAio (fst x), body (snd x))) (attl rc_saio (rp_ctxs s2)) + s_del F view_rep s0 o outs + o_rel F outs.
  Proof.
    induction ks as [|k r IH]; intros s1 s2 outs H HC HK; cbn [close_sendq] in H.
    - inversion H; subst. cbn. split; [|split; [|split; [|split]]]; auto.
    - unfold rp_get in H. destruct (lookup k (rp_ctxs s1)) as [c|] eqn:EL; [|eauto].
      destruct (rc_saio c) as [[a m]|] eqn:ES; [|eauto].
      destruct (close_sendq (rp_put s1 k (mkPctx (rc_pipe c) (rc_bt c) None (rc_raio c))) r) as [s3 o3] eqn:EC.
      inversion H; subst; clear H.
      destruct (lookup_split _ _ _ EL) as [l1 [l2 [E1 E2]]].
      assert (E3 : rp_ctxs (rp_put s1 k (mkPctx (rc_pipe c) (rc_bt c) None (rc_raio c)))
                   = l1 ++ (k, mkPctx (rc_pipe c) (rc_bt c) None (rc_raio c)) :: l2).
      { unfold rp_put. cbn [rp_ctxs rp_set_ctxs]. rewrite E1. apply E2. }
      destruct (IH _ _ _ EC) as (H1 & H2 & H3 & H4 & H5).
      + rewrite E3. rewrite E1 in HC. eapply cinv_set; [exact HC|cbn; auto|cbn; auto].
      + intros a0 m0 Hi. apply HK. rewrite E3 in Hi. rewrite E1. rewrite attl_mid in *.
        cbn [rc_saio opt_list app] in Hi. rewrite !in_app_iff in *. tauto.
      + split; [|split; [|split; [|split]]]; auto. rewrite E3 in H5. rewrite E1.
        cbn [s_take s_del o_tx o_rel]. rewrite (skey_rep s0 o a Ho).
        rewrite (HK a m) by (rewrite E1, attl_mid, ES; rewrite !in_app_iff; right; left; left; reflexivity).
        change (E_OK =? 0)%N with true. cbv iota.
        rewrite !wsum_attl_mid in *. cbn [rc_saio] in H5. rewrite ES. cbn [opt_list] in *.
        rewrite ?wsum_cons, ?wsum_nil in *. cbn [fst snd]. lia.
  Qed.

  (* rep0_ctx_close: the queued send and the pending receive are aborted *)
  Lemma rep_ctx_close_spec s k cx s1 o1 :
    CInv rc_saio rc_raio (rp_ctxs s) -> lookup k (rp_ctxs s) = Some cx -> rep_ctx_close s k cx = (s1, o1) ->
    exists l1 l2, rp_ctxs s = l1 ++ (k, cx) :: l2 /\
      rp_ctxs s1 = l1 ++ (k, mkPctx (rc_pipe cx) (rc_bt cx) None None) :: l2 /\
      rp_holding s1 = rp_holding s /\ rp_sending s1 = rp_sending s /\ rp_busy s1 = rp_busy s /\
      forall F o, (forall c a' nb m, o <> PSend c a' nb m) ->
        wsum (fun x => F (OAio (fst x), body (snd x))) (attl rc_saio (rp_ctxs s)) + s_take F view_rep s o o1 + o_tx F o1
        = wsum (fun x => F (OAio (fst x), body (snd x))) (attl rc_saio (rp_ctxs s1)) + s_del F view_rep s o o1 + o_rel F o1.
  Proof.
    intros HC EL H. destruct (lookup_split _ _ _ EL) as [l1 [l2 [E1 E2]]]. exists l1, l2.
    pose proof (lookup_in _ _ _ EL) as Hin. destruct HC as (K & N & R).
    unfold rep_ctx_close in H.
    destruct (rc_saio cx) as [[sa m0]|] eqn:ES; destruct (rc_raio cx) as [ra|] eqn:ER; inversion H; subst; clear H;
      cbn [rp_ctxs rp_holding rp_sending rp_busy rp_set_sendq rp_set_recvq rp_put rp_set_ctxs];
      (split; [exact E1|]); (split; [rewrite E1; apply E2|]); (split; [reflexivity|]); (split; [reflexivity|]);
      (split; [reflexivity|]); intros F o Ho; cbn [app s_take s_del o_tx o_rel]; rewrite ?(skey_rep s o _ Ho);
      rewrite ?(cinv_att_key rc_saio rc_raio _ _ _ _ _ (conj K (conj N R)) Hin ES);
      rewrite ?(att_key_notin _ _ (R _ _ _ Hin ER));
      change (E_CLOSED =? 0)%N with false; cbv iota;
      rewrite E1, !E2, !wsum_attl_mid; cbn [rc_saio]; rewrite ES; cbn [opt_list]; wnorm; cbn [fst snd]; lia.
  Qed.

  Ltac rproj := cbn [rp_ctxs rp_pipes rp_busy rp_pclosed rp_holding rp_recvq rp_sendq rp_sending rp_readable
                     rp_writable rp_ttl rp_set_ctxs rp_set_pipes rp_set_holding rp_set_recvq rp_set_sendq
                     rp_set_sending rp_set_readable rp_set_writable rp_set_ttl rp_put] in *.
  Ltac ifrep := repeat match goal with
    | |- context [if ?b then ?x else ?y] => match type of x with rep => destruct b end
    end.
  Ltac law1 := cbv zeta;
    match goal with |- context [v_extra view_rep ?s ?o ?outs] => change (v_extra view_rep s o outs) with (@nil pmsg) end;
    match goal with |- context [v_clones view_rep ?s ?o ++ v_dups view_rep ?s ?o] =>
      change (v_clones view_rep s o ++ v_dups view_rep s o) with (@nil key) end;
    cbn [map]; rewrite app_nil_r, wsum_nil, !w_rep.
  Ltac law0 := intros F; law1.
  Ltac lawfin := rproj; cbn [op_add op_del s_take s_del o_tx o_rel]; rewrite ?send_key_self;
    wnorm; unfold body; cbn [fst snd rep_send rep_deliver pm_body pm_hdr N.eqb E_OK E_STATE E_AGAIN E_CLOSED]; try lia.

  Lemma rep_step_main pf s o s' outs :
    pf_saio pf = true -> RInv s -> rep_ok s o -> rep_step pf s o = (s', outs) ->
    RInv s' /\ law_sum view_rep s o s' outs.
  Proof.
    intros Hpf HI Hok H. pose proof HI as [HC HB]. pose proof HC as (K & N & R).
    destruct o as [c a nb m|c a nb|a rv|p peer|p|p rv|p rv m|c op|c|c| |now]; cbn [rep_step rep_ok] in *.
    - (* PSend *)
      unfold rp_get in H. destruct (lookup (ckey c) (rp_ctxs s)) as [cx|] eqn:EL.
      2:{ inversion H; subst. split; [exact HI|]. law0. lawfin. }
      destruct (lookup_split _ _ _ EL) as [l1 [l2 [E1 E2]]].
      unfold rep_ctx_send in H. rewrite Hpf in H. cbn [andb] in H.
      destruct (rc_saio cx) as [sx|] eqn:ES.
      { inversion H; subst. split; [exact HI|]. law0. lawfin. }
      assert (HC' : CInv rc_saio rc_raio (l1 ++ (ckey c, cx) :: l2)) by (rewrite <- E1; exact HC).
      repeat match type of H with context [if ?b then ?x else ?y] => match type of x with rep => destruct b end end.
      all: rproj.
      all: assert (GEN : forall s'' outs'' c',
                 (s', outs) = (s'', outs'') -> rp_ctxs s'' = l1 ++ (ckey c, c') :: l2 ->
                 rp_holding s'' = rp_holding s -> rp_sending s'' = rp_sending s -> rp_busy s'' = rp_busy s ->
                 rc_saio c' = None -> rc_raio c' = rc_raio cx ->
                 (outs'' = [Complete a E_STATE None] \/ outs'' = [Complete a E_AGAIN None] \/
                  exists m', outs'' = [Complete a E_OK None; Free m'] /\ pm_body m' = pm_body m) ->
                 RInv s' /\ law_sum view_rep s (PSend c a nb m) s' outs).
      all: try (intros s'' outs'' c' Hs Ec Eh Es Eb Esa Era Ho; inversion Hs; subst s' outs; clear Hs; split;
                [split; [rewrite Ec; eapply cinv_set; [exact HC'|rewrite Esa; auto|rewrite Era; auto]
                        |rewrite Es, Eb; exact HB]
                |law0; rewrite Ec, Eh, Es, E1, !wsum_attl_mid, Esa, ES;
                 destruct Ho as [->|[->|[m' [-> Em]]]]; lawfin; rewrite ?Em; lia]).
      all: destruct (rc_bt cx) as [|b0 bt] eqn:EB; cbn [is_nil] in H;
           [eapply GEN; [symmetry; exact H|rproj; rewrite E1, !E2; reflexivity|(reflexivity || exact ES)..|auto]|].
      all: destruct (has_id (rc_pipe cx) (rp_pipes s)); cbn [negb] in H;
           [|eapply GEN; [symmetry; exact H|rproj; rewrite E1, !E2; reflexivity|(reflexivity || exact ES)..|right; right; eexists; split; reflexivity]].
      all: destruct (has_id (rc_pipe cx) (rp_busy s)) eqn:EBusy; cbn [negb] in H.
      all: try (destruct nb; [destruct (pf_nbsend pf);
                 (eapply GEN; [symmetry; exact H|rproj; rewrite E1, !E2; reflexivity|(reflexivity || exact ES)..|auto])|]).
      all: injection H as Hs' Ho'; subst s' outs; clear GEN; rewrite E1 in Hok; destruct Hok as [Hok1 Hok2].
      all: try (apply has_id_false in EBusy;
                assert (EP : ~ In (rc_pipe cx) (map fst (rp_sending s))) by (intros Hx; apply EBusy, HB, Hx)).
      all: (split; [split; rproj|]).
      all: try (rewrite E1, !E2; eapply cinv_set; [exact HC'|cbn [rc_saio rc_raio]; rewrite ?ES; auto|cbn [rc_saio rc_raio]; auto]).
      all: try (intros q; cbn [map fst]; rewrite in_app_iff; intros [<-|Hq];
                [right; left; reflexivity|left; apply HB; eapply in_fst_filter; exact Hq]).
      all: try exact HB.
      all: try (right; right; eexists; eexists; split; [reflexivity|]; split; [reflexivity|]; split; assumption).
      all: law0; lawfin; rewrite E1, !E2, !wsum_attl_mid; cbn [rc_saio]; rewrite ES; cbn [opt_list];
           try (unfold assoc_del; rewrite (filter_keep_notin' _ _ EP)); wnorm; cbn [fst snd pm_body rep_send rep_deliver]; try lia.
    - (* PRecv *)
      assert (KN : forall rv, law_sum view_rep s (PRecv c a nb) s [Complete a rv None]).
      { intros rv. law0. cbn [op_add op_del s_take s_del o_tx o_rel]. rewrite skey_rep by (intros; discriminate).
        rewrite (att_key_notin _ _ Hok). lia. }
      unfold rp_get in H. destruct (lookup (ckey c) (rp_ctxs s)) as [cx|] eqn:EL.
      2:{ inversion H; subst. split; [exact HI|apply KN]. }
      destruct (lookup_split _ _ _ EL) as [l1 [l2 [E1 E2]]].
      assert (HC' : CInv rc_saio rc_raio (l1 ++ (ckey c, cx) :: l2)) by (rewrite <- E1; exact HC).
      unfold rep_ctx_recv in H. destruct (rp_holding s) as [|[p m] rest] eqn:EH.
      + destruct nb; [inversion H; subst; split; [exact HI|apply KN]|].
        destruct (rc_raio cx) eqn:ER; [inversion H; subst; split; [exact HI|apply KN]|].
        inversion H; subst; clear H. split.
        * split; rproj; [|exact HB]. rewrite E1, !E2. eapply cinv_set; [exact HC'|cbn; auto|].
          right; right. exists a. rewrite <- E1. cbn. auto.
        * law0. lawfin. rewrite EH, E1, !E2, !wsum_attl_mid. cbn [rc_saio]. lia.
      + unfold rep_take in H.
        repeat match type of H with context [if ?b then ?x else ?y] => match type of x with rep => destruct b end end.
        all: inversion H; subst; clear H; (split; [split; rproj; [|exact HB]|]).
        all: try (rewrite E1, !E2; eapply cinv_set; [exact HC'|cbn; auto|cbn; auto]).
        all: law0; lawfin; rewrite EH, E1, !E2, !wsum_attl_mid; cbn [rc_saio map]; wnorm; cbn [fst snd]; lia.
    - (* PCancel *)
      destruct (find_pctx (saio_is a) (rp_ctxs s)) as [[k cx]|] eqn:EF.
      + destruct (find_pctx_some _ _ _ _ EF) as [Hf Hin]. pose proof (in_lookup _ _ _ K Hin) as EL.
        destruct (lookup_split _ _ _ EL) as [l1 [l2 [E1 E2]]].
        assert (HC' : CInv rc_saio rc_raio (l1 ++ (k, cx) :: l2)) by (rewrite <- E1; exact HC).
        unfold saio_is in Hf. destruct (rc_saio cx) as [[a' m0]|] eqn:ES; [|discriminate].
        apply N.eqb_eq in Hf. subst a'.
        inversion H; subst; clear H. split.
        * split; rproj; [|exact HB]. rewrite E1, !E2. eapply cinv_set; [exact HC'|cbn; auto|cbn; auto].
        * law0. cbn [op_add op_del s_take s_del o_tx o_rel]. rewrite skey_rep by (intros; discriminate).
          rewrite (cinv_att_key _ _ _ _ _ _ _ HC Hin ES). destruct (N.eqb_spec rv 0); [contradiction|].
          lawfin. rewrite E1, !E2, !wsum_attl_mid. cbn [rc_saio]. rewrite ES. cbn [opt_list]. wnorm. cbn [fst snd]. lia.
      + pose proof (find_saio_none _ _ EF) as Hn.
        destruct (find_pctx (fun c => opt_is a (rc_raio c)) (rp_ctxs s)) as [[k cx]|] eqn:EF2.
        2:{ inversion H; subst. split; [exact HI|]. law0. lawfin. }
        destruct (find_pctx_some _ _ _ _ EF2) as [Hf Hin]. pose proof (in_lookup _ _ _ K Hin) as EL.
        destruct (lookup_split _ _ _ EL) as [l1 [l2 [E1 E2]]].
        assert (HC' : CInv rc_saio rc_raio (l1 ++ (k, cx) :: l2)) by (rewrite <- E1; exact HC).
        inversion H; subst; clear H. split.
        * split; rproj; [|exact HB]. rewrite E1, !E2. eapply cinv_set; [exact HC'|cbn; auto|cbn; auto].
        * law0. cbn [op_add op_del s_take s_del o_tx o_rel]. rewrite skey_rep by (intros; discriminate).
          rewrite (att_key_notin _ _ Hn). lawfin. rewrite E1, !E2, !wsum_attl_mid. cbn [rc_saio]. lia.
    - (* PPipeStart *)
      destruct (negb (peer =? PROTO_REQ)%N); inversion H; subst; clear H; (split; [exact HI|law0; lawfin]).
    - (* PPipeClose *)
      cbv zeta in H.
      repeat match type of H with context [if ?b then ?x else ?y] => match type of x with rep => destruct b end end.
      all: match type of H with context [close_sendq ?x ?ks] => destruct (close_sendq x ks) as [s2 o2] eqn:EC end.
      all: repeat match type of H with context [if ?b then ?x else ?y] => match type of x with rep => destruct b end end.
      all: assert (HK : forall a m, In (a, m) (attl rc_saio (rp_ctxs s)) -> att_key a (attl rc_saio (rp_ctxs s)) = Some (body m))
             by (intros a0 m0 Hi; apply att_key_in; [exact N|exact Hi]).
      all: pose proof (fun F => close_sendq_spec F s (PPipeClose p) ltac:(intros; discriminate) _ _ _ _ EC HC HK) as SP.
      all: destruct (SP (fun _ => 0)) as (S1 & S2 & S3 & S4 & _); rproj.
      all: inversion H; subst; clear H; (split; [split; rproj; [exact S4|rewrite S2, S3; exact HB]|]).
      all: law0; destruct (SP F) as (_ & _ & _ & _ & S5); rproj; lawfin; rewrite S1, S2;
           pose proof (wsum_filter_key (fun x => F (OProto, body (snd x))) p (rp_holding s)) as P; unfold assoc_del;
           unfold body in S5, P; lia.
    - (* PSendDone *)
      cbv zeta in H.
      assert (BD : forall q, In q (map fst (assoc_del p (rp_sending s))) -> In q (remove_id p (rp_busy s))).
      { intros q Hq. apply in_fst_del in Hq. apply in_remove_id. split; [apply HB|]; tauto. }
      assert (LW : forall F, w_omega F view_rep s + op_add F view_rep s (PSendDone p rv)
                   = w_omega F view_rep (rp_set_sending s (assoc_del p (rp_sending s))) + op_del F view_rep s (PSendDone p rv)
                     + (if (rv =? 0)%N then 0 else wsum (fun m => F (OProto, body m)) (map snd (filter (fun x => (fst x =? p)%N) (rp_sending s))))).
      { intros F. rewrite !w_rep. rproj. cbn [op_add op_del view_rep VRep.view v_tx].
        rewrite wsum_tx_of. unfold tx_of.
        pose proof (wsum_filter_key (fun x => F (OPipe (fst x), body (snd x))) p (rp_sending s)) as P. unfold assoc_del.
        destruct (rv =? 0)%N; lia. }
      destruct (N.eqb_spec rv 0) as [->|Hrv]; cbn [negb] in H.
      2:{ inversion H; subst; clear H. split.
          - split; rproj; [exact HC|]. intros q Hq. apply HB. eapply in_fst_filter. exact Hq.
          - intros F. specialize (LW F). cbv zeta.
            change (v_extra view_rep s (PSendDone p rv) (map Free (map snd (filter (fun x => (fst x =? p)%N) (rp_sending s))) ++ [ClosePipe p])) with (@nil pmsg).
            change (v_clones view_rep s (PSendDone p rv) ++ v_dups view_rep s (PSendDone p rv)) with (@nil key).
            cbn [map]. rewrite app_nil_r, wsum_nil. wnorm. cbn [s_take s_del o_tx o_rel]. lia. }
      change (0 =? 0)%N with true in LW. cbv iota in LW. rproj.
      destruct (first_on p (rp_sendq s)) as [k|] eqn:EFO.
      2:{ repeat match type of H with context [if ?b then ?x else ?y] => match type of x with rep => destruct b end end.
          all: inversion H; subst; clear H; (split; [split; rproj; [exact HC|exact BD]|]).
          all: intros F; specialize (LW F); revert LW; law1; lawfin. }
      unfold rp_get in H. rproj. destruct (lookup k (rp_ctxs s)) as [cx|] eqn:EL.
      2:{ inversion H; subst; clear H; (split; [split; rproj; [exact HC|exact BD]|]).
          intros F; specialize (LW F); revert LW; law1; lawfin. }
      destruct (rc_saio cx) as [[a m]|] eqn:ES.
      2:{ inversion H; subst; clear H; (split; [split; rproj; [exact HC|exact BD]|]).
          intros F; specialize (LW F); revert LW; law1; lawfin. }
      destruct (lookup_split _ _ _ EL) as [l1 [l2 [E1 E2]]].
      assert (HC' : CInv rc_saio rc_raio (l1 ++ (k, cx) :: l2)) by (rewrite <- E1; exact HC).
      inversion H; subst; clear H. split.
      + split; rproj.
        * rewrite E1, !E2. eapply cinv_set; [exact HC'|cbn; auto|cbn; auto].
        * intros q. cbn [map fst]. rewrite in_app_iff. intros [<-|Hq]; [right; left; reflexivity|left; auto].
      + intros F; specialize (LW F); revert LW; law1. cbn [op_add op_del s_take s_del o_tx o_rel].
        rewrite skey_rep by (intros; discriminate).
        rewrite (cinv_att_key _ _ _ _ _ _ _ HC (lookup_in _ _ _ EL) ES).
        lawfin. rewrite E1, !E2, !wsum_attl_mid. cbn [rc_saio]. rewrite ES. cbn [opt_list]. wnorm. cbn [fst snd]. lia.
    - (* PRecvDone *)
      destruct (N.eqb_spec rv 0) as [->|Hrv]; cbn [negb] in H.
      2:{ inversion H; subst; clear H. split; [exact HI|]. law0. cbn [op_add]. destruct (N.eqb_spec rv 0); [contradiction|]. lawfin. }
      assert (RX : forall F, op_add F view_rep s (PRecvDone p 0 m)
                   = F (OProto, match rep_recv (rp_ttl s) (pm_body m) with BtDeliver m' => body m' | _ => body m end)) by reflexivity.
      destruct (rep_recv (rp_ttl s) (pm_body m)) as [m'| |] eqn:ER.
      2,3: inversion H; subst; clear H; (split; [exact HI|]); law0; rewrite RX; lawfin.
      destruct (has_id p (rp_pclosed s)).
      { inversion H; subst; clear H; (split; [exact HI|]); law0; rewrite RX; lawfin. }
      destruct (rp_recvq s) as [|k rest].
      { inversion H; subst; clear H; (split; [split; rproj; [exact HC|exact HB]|]); law0; rewrite RX; lawfin. }
      unfold rp_get in H. destruct (lookup k (rp_ctxs s)) as [cx|] eqn:EL.
      2:{ inversion H; subst; clear H; (split; [split; rproj; [exact HC|exact HB]|]); law0; rewrite RX; lawfin. }
      destruct (rc_raio cx) as [ra|] eqn:ERA.
      2:{ inversion H; subst; clear H; (split; [split; rproj; [exact HC|exact HB]|]); law0; rewrite RX; lawfin. }
      destruct (lookup_split _ _ _ EL) as [l1 [l2 [E1 E2]]].
      assert (HC' : CInv rc_saio rc_raio (l1 ++ (k, cx) :: l2)) by (rewrite <- E1; exact HC).
      unfold rep_take in H.
      repeat match type of H with context [if ?b then ?x else ?y] => match type of x with rep => destruct b end end.
      all: inversion H; subst; clear H; (split; [split; rproj; [|exact HB]|]).
      all: try (rewrite E1, !E2; eapply cinv_set; [exact HC'|cbn; auto|cbn; auto]).
      all: law0; rewrite RX; lawfin; rewrite E1, !E2, !wsum_attl_mid; cbn [rc_saio]; lia.
    - (* PSetOpt *)
      destruct c; [inversion H; subst; split; [exact HI|law0; lawfin]|].
      destruct op; try (inversion H; subst; split; [exact HI|law0; lawfin]).
      all: match type of H with (if ?b then _ else _) = _ => destruct b end;
           inversion H; subst; (split; [exact HI|law0; lawfin]).
    - (* PCtxOpen *)
      inversion H; subst; clear H. split.
      + split; rproj; [|exact HB]. apply cinv_snoc; auto.
      + law0. lawfin. rewrite attl_app. wnorm. cbn. wnorm. lia.
    - (* PCtxClose *)
      unfold rp_get in H. destruct (lookup (c + 1)%N (rp_ctxs s)) as [cx|] eqn:EL.
      2:{ inversion H; subst. split; [exact HI|law0; lawfin]. }
      destruct (rep_ctx_close s (c + 1)%N cx) as [s1 o1] eqn:ECL.
      destruct (rep_ctx_close_spec _ _ _ _ _ HC EL ECL) as (l1 & l2 & E1 & E3 & E4 & E5 & E6 & E7).
      assert (HC1 : CInv rc_saio rc_raio (rp_ctxs s1)).
      { rewrite E3. rewrite E1 in HC. eapply cinv_set; [exact HC|cbn; auto|cbn; auto]. }
      assert (ED : assoc_del (c + 1)%N (rp_ctxs s1) = l1 ++ l2).
      { rewrite E3. unfold assoc_del. apply filter_mid_key. rewrite <- E3. apply HC1. }
      inversion H; subst; clear H. split.
      + split; rproj; [|rewrite E5, E6; exact HB]. rewrite ED. rewrite E3 in HC1. eapply cinv_del; exact HC1.
      + law0. specialize (E7 F (PCtxClose c) ltac:(intros; discriminate)). lawfin. rewrite E4, E5, ED.
        rewrite E3, wsum_attl_mid in E7. cbn [rc_saio opt_list] in E7. rewrite attl_app. unfold body in E7. wnorm. lia.
    - (* PSockClose *)
      unfold rp_get in H. destruct (lookup 0%N (rp_ctxs s)) as [cx|] eqn:EL.
      2:{ inversion H; subst. split; [exact HI|law0; lawfin]. }
      destruct (rep_ctx_close_spec _ _ _ _ _ HC EL H) as (l1 & l2 & E1 & E3 & E4 & E5 & E6 & E7). split.
      + split; [|rewrite E5, E6; exact HB]. rewrite E3. rewrite E1 in HC. eapply cinv_set; [exact HC|cbn; auto|cbn; auto].
      + law0. specialize (E7 F PSockClose ltac:(intros; discriminate)). lawfin. rewrite E4, E5. unfold body in E7. lia.
    - (* PTick *)
      inversion H; subst. split; [exact HI|law0; lawfin].
  Qed.










  Theorem rep_proto_law : forall pf, pf_saio pf = true -> proto_law view_rep (rep_step pf) RInv rep_ok.
  Proof.
    intros pf Hpf s o s' outs HI Hok H. destruct (rep_step_main pf s o s' outs Hpf HI Hok H) as [A B].
    split; [exact A|]. split; [apply law_sum_eq, B|apply clones_held_none; reflexivity].
  Qed.

  (* a history the contract allows: a request arrives and is received, the reply goes out at once
     (pipe idle); a second request is received and its reply is queued behind the busy pipe; the
     transport completion sends the queued reply; option change, a context, a cancelled receive,
     pipe close, socket close *)
  Definition rep_hist : list pop :=
    [PPipeStart 1%N PROTO_REQ;
     PRecvDone 1%N 0%N (mkPmsg [] [128; 0; 0; 1; 7]%N);
     PRecv None 10%N false;
     PSend None 11%N false (mkPmsg [] [42%N]);
     PRecvDone 1%N 0%N (mkPmsg [] [128; 0; 0; 2; 8]%N);
     PRecv None 12%N false;
     PSend None 13%N false (mkPmsg [] [43%N]);
     PSendDone 1%N 0%N;
     PSetOpt None (OMaxTtl 5);
     PCtxOpen 0%N;
     PRecv (Some 0%N) 14%N false;
     PCancel 14%N E_CANCELED;
     PRecvDone 1%N 0%N (mkPmsg [] [128; 0; 0; 3; 9]%N);
     PRecv None 15%N false;
     PSend None 16%N false (mkPmsg [] [44%N]);
     PPipeClose 1%N;
     PSockClose].
  Definition pf_all : pfix := RepProofs.pf_repaired.
  Example rep_ok_nonvacuous :
    ops_ok (rep_step pf_all) rep_ok rep_init rep_hist /\
    snd (rep_step pf_all (run (rep_step pf_all) rep_init (firstn 3 rep_hist)) (nth 3 rep_hist PSockClose))
      = [TranSend 1%N (mkPmsg [128; 0; 0; 1]%N [42%N]); Complete 11%N E_OK None] /\
    snd (rep_step pf_all (run (rep_step pf_all) rep_init (firstn 6 rep_hist)) (nth 6 rep_hist PSockClose)) = [] /\
    snd (rep_step pf_all (run (rep_step pf_all) rep_init (firstn 7 rep_hist)) (nth 7 rep_hist PSockClose))
      = [TranSend 1%N (mkPmsg [128; 0; 0; 2]%N [43%N]); Complete 13%N E_OK None] /\
    snd (rep_step pf_all (run (rep_step pf_all) rep_init (firstn 15 rep_hist)) (nth 15 rep_hist PSockClose))
      = [Complete 16%N E_OK None; Free (mkPmsg [128; 0; 0; 3]%N [44%N])].
  Proof.
    split; [|vm_compute; repeat split].
    vm_compute.
    repeat match goal with |- _ /\ _ => split end; try exact I; try discriminate.
    all: try (intros HH; intuition discriminate).
    all: intros k c HH; repeat (destruct HH as [HH|HH]; [inversion HH; subst; discriminate|]); destruct HH.
  Qed.
End RepSec.

(* ============================== RESPONDENT ============================== *)
Section RespSec.
  Import SurveyBacktrace SurveyModel RespondModel.

  Lemma kget_split {A} k (l : list (N * A)) c : kget k l = Some c ->
    exists l1 l2, l = l1 ++ (k, c) :: l2 /\ forall c0 c', kset k c' (l1 ++ (k, c0) :: l2) = l1 ++ (k, c') :: l2.
  Proof.
    induction l as [|[k0 v] l IH]; cbn; [discriminate|]. destruct (N.eqb_spec k0 k) as [->|Hk].
    - intros E. inversion E; subst. exists [], l. split; [reflexivity|]. intros c0 c'. cbn. now rewrite N.eqb_refl.
    - intros E. destruct (IH E) as [l1 [l2 [-> Hs]]]. exists ((k0, v) :: l1), l2. split; [reflexivity|].
      intros c0 c'. cbn. destruct (N.eqb_spec k0 k); [contradiction|]. now rewrite Hs.
  Qed.
  Lemma kset_absent {A} k (v : A) l : ~ In k (map fst l) -> kset k v l = l ++ [(k, v)].
  Proof.
    induction l as [|[k0 v0] l IH]; cbn; intros H; [reflexivity|].
    destruct (N.eqb_spec k0 k); [exfalso; apply H; auto|]. rewrite IH; tauto.
  Qed.
  Lemma in_kget' {A} k (c : A) l : NoDup (map fst l) -> In (k, c) l -> kget k l = Some c.
  Proof.
    induction l as [|[k0 v] l IH]; cbn; intros Hn Hi; [destruct Hi|]. inversion Hn; subst.
    destruct Hi as [E|Hi].
    - inversion E; subst. now rewrite N.eqb_refl.
    - destruct (N.eqb_spec k0 k); [subst; exfalso; apply H1; apply in_map_iff; exists (k, c); auto|]. auto.
  Qed.
  Lemma kget_in' {A} k (c : A) l : kget k l = Some c -> In (k, c) l.
  Proof.
    induction l as [|[k0 v] l IH]; cbn; [discriminate|]. destruct (N.eqb_spec k0 k) as [->|]; intros E.
    - inversion E; auto.
    - auto.
  Qed.
  Lemma kget_none_notin' {A} k (l : list (N * A)) : kget k l = None -> ~ In k (map fst l).
  Proof.
    induction l as [|[k0 v] l IH]; cbn; [tauto|]. destruct (N.eqb_spec k0 k); [discriminate|]. intros E [H|H]; [auto|exact (IH E H)].
  Qed.

  (* the pipes: parked surveys and messages in flight *)
  Definition pheld (l : list (pid * rpipe)) : list pmsg := flat_map (fun px => rp_rmsg (snd px)) l.
  Definition ptx (l : list (pid * rpipe)) : list (pid * pmsg) :=
    flat_map (fun px => map (fun m => (fst px, m)) (rp_held (snd px))) l.
  Lemma pheld_app a b : pheld (a ++ b) = pheld a ++ pheld b. Proof. apply flat_map_app. Qed.
  Lemma ptx_app a b : ptx (a ++ b) = ptx a ++ ptx b. Proof. apply flat_map_app. Qed.
  Lemma pheld_mid l1 p x l2 : pheld (l1 ++ (p, x) :: l2) = pheld l1 ++ rp_rmsg x ++ pheld l2.
  Proof. rewrite pheld_app. reflexivity. Qed.
  Lemma ptx_mid l1 p x l2 : ptx (l1 ++ (p, x) :: l2) = ptx l1 ++ map (fun m => (p, m)) (rp_held x) ++ ptx l2.
  Proof. rewrite ptx_app. reflexivity. Qed.
  Lemma tx_of_app p a b : tx_of p (a ++ b) = tx_of p a ++ tx_of p b.
  Proof. unfold tx_of. now rewrite filter_app, map_app. Qed.
  Lemma tx_of_self p h : tx_of p (map (fun m => (p, m)) h) = h.
  Proof. unfold tx_of. induction h as [|m h IH]; cbn; [reflexivity|]. rewrite N.eqb_refl. cbn. now rewrite IH. Qed.
  Lemma tx_of_ptx_notin p l : ~ In p (map fst l) -> tx_of p (ptx l) = [].
  Proof.
    induction l as [|[q x] l IH]; cbn [map fst]; intros H; [reflexivity|].
    change (ptx ((q, x) :: l)) with (map (fun m => (q, m)) (rp_held x) ++ ptx l).
    rewrite tx_of_app, IH by (intros Hx; apply H; right; exact Hx). rewrite app_nil_r.
    unfold tx_of. induction (rp_held x) as [|m h IHh]; cbn; [reflexivity|].
    destruct (N.eqb_spec q p); [exfalso; apply H; left; auto|]. exact IHh.
  Qed.
  Lemma tx_of_ptx_mid p l1 x l2 : NoDup (map fst (l1 ++ (p, x) :: l2)) -> tx_of p (ptx (l1 ++ (p, x) :: l2)) = rp_held x.
  Proof.
    intros H. rewrite map_app in H. cbn [map fst] in H. pose proof (NoDup_remove_2 _ _ _ H) as Hn. rewrite in_app_iff in Hn.
    rewrite ptx_mid, !tx_of_app, tx_of_self, !tx_of_ptx_notin by tauto. now rewrite app_nil_r.
  Qed.

  Definition pgood (x : rpipe) : Prop := (rp_busy x = false -> rp_held x = []) /\ length (rp_rmsg x) <= 1.
  Definition PInv (l : list (pid * rpipe)) : Prop := NoDup (map fst l) /\ forall p x, In (p, x) l -> pgood x.
  Lemma pinv_set l1 p x x' l2 : PInv (l1 ++ (p, x) :: l2) -> pgood x' -> PInv (l1 ++ (p, x') :: l2).
  Proof.
    intros [K G] Hx. split; [rewrite map_app in *; exact K|].
    intros q y Hi. apply in_app_or in Hi. destruct Hi as [Hi|[Hi|Hi]].
    - apply (G q y). apply in_or_app; auto.
    - inversion Hi; subst. exact Hx.
    - apply (G q y). apply in_or_app; right; right; auto.
  Qed.
  Lemma pinv_snoc l p x : PInv l -> ~ In p (map fst l) -> pgood x -> PInv (l ++ [(p, x)]).
  Proof.
    intros [K G] Hp Hx. split; [rewrite map_app; cbn; apply nodup_snoc; auto|].
    intros q y Hi. apply in_app_or in Hi. destruct Hi as [Hi|[Hi|[]]]; [eauto|inversion Hi; subst; exact Hx].
  Qed.
  Lemma unqueue_keys k l : map fst (unqueue_ctx k l) = map fst l.
  Proof. unfold unqueue_ctx. rewrite map_map. reflexivity. Qed.
  Lemma unqueue_pheld k l : pheld (unqueue_ctx k l) = pheld l.
  Proof. unfold pheld, unqueue_ctx. induction l as [|[q x] l IH]; [reflexivity|]. cbn [map flat_map fst snd rp_rmsg]. now rewrite IH. Qed.
  Lemma unqueue_ptx k l : ptx (unqueue_ctx k l) = ptx l.
  Proof. unfold ptx, unqueue_ctx. induction l as [|[q x] l IH]; [reflexivity|]. cbn [map flat_map fst snd rp_held]. now rewrite IH. Qed.
  Lemma pinv_unqueue k l : PInv l -> PInv (unqueue_ctx k l).
  Proof.
    intros [K G]. split; [now rewrite unqueue_keys|]. intros p x Hi. unfold unqueue_ctx in Hi.
    apply in_map_iff in Hi. destruct Hi as [[q y] [E Hi]]. inversion E; subst. exact (G _ _ Hi).
  Qed.

  Lemma find_saio_none' a l : find_saio a l = None -> ~ In a (aids rc_saio l).
  Proof.
    intros H Hi. unfold aids in Hi. apply in_map_iff in Hi. destruct Hi as [[a' m] [E Hi]]. cbn in E. subst a'.
    apply (in_attl rc_saio rc_raio) in Hi. destruct Hi as [k [c [Hi Es]]].
    pose proof (find_none _ _ H _ Hi) as Hf. cbn in Hf. rewrite Es, N.eqb_refl in Hf. discriminate.
  Qed.
  Definition SInv (s : resp) : Prop := CInv rc_saio rc_raio (rs_ctxs s) /\ PInv (rs_pipes s).
  (* the environment: an aio is submitted once at a time; cancel with an error; a context id is opened
     once; a pipe id is started once; the transport completes a receive only when one is posted on the
     pipe -- the model posts the next one (TranRecv p) exactly when it hands the parked survey on, so
     "a receive is posted on p" is "p parks no survey" *)
  Definition resp_ok (s : resp) (o : pop) : Prop :=
    match o with
    | PSend _ a _ _ => ~ In a (aids rc_saio (rs_ctxs s)) /\ (forall k c, In (k, c) (rs_ctxs s) -> rc_raio c <> Some a)
    | PRecv _ a _ => ~ In a (aids rc_saio (rs_ctxs s))
    | PCancel _ rv => rv <> 0%N
    | PCtxOpen c => ~ In (c + 1)%N (map fst (rs_ctxs s))
    | PPipeStart p _ => ~ In p (map fst (rs_pipes s))
    | PRecvDone p _ _ => match kget p (rs_pipes s) with Some x => rp_rmsg x = [] | None => True end
    | _ => True
    end.

  Lemma resp_inv_init : SInv resp_init.
  Proof.
    split; [split; [|split]|split]; cbn.
    - constructor; [tauto|constructor].
    - constructor.
    - tauto.
    - constructor.
    - tauto.
  Qed.

  Lemma w_resp F s : w_omega F view_resp s =
    wsum (fun m => F (OProto, body m)) (pheld (rs_pipes s))
    + wsum (fun x => F (OPipe (fst x), body (snd x))) (ptx (rs_pipes s))
    + wsum (fun x => F (OAio (fst x), body (snd x))) (attl rc_saio (rs_ctxs s)).
  Proof. reflexivity. Qed.
  Lemma skey_resp s o a : (forall c a' nb m, o <> PSend c a' nb m) ->
    send_key view_resp s o a = att_key a (attl rc_saio (rs_ctxs s)).
  Proof. intros H. now rewrite send_key_other. Qed.
  Lemma wsum_pheld_mid (G : pmsg -> nat) l1 p x l2 :
    wsum G (pheld (l1 ++ (p, x) :: l2)) = wsum G (pheld l1) + wsum G (rp_rmsg x) + wsum G (pheld l2).
  Proof. rewrite pheld_mid, !wsum_app. lia. Qed.
  Lemma wsum_ptx_mid (G : pid * pmsg -> nat) l1 p x l2 :
    wsum G (ptx (l1 ++ (p, x) :: l2)) = wsum G (ptx l1) + wsum (fun m => G (p, m)) (rp_held x) + wsum G (ptx l2).
  Proof. rewrite ptx_mid, !wsum_app, wsum_map. lia. Qed.

  (* resp0_pipe_close's loop over the pipe's send queue *)
  Lemma flush_sendq_spec F s0 o (Ho : forall c a' nb m, o <> PSend c a' nb m) ks : forall cs cs' outs,
    flush_sendq ks cs = (cs', outs) ->
    CInv rc_saio rc_raio cs ->
    (forall a m, In (a, m) (attl rc_saio cs) -> att_key a (attl rc_saio (rs_ctxs s0)) = Some (body m)) ->
    CInv rc_saio rc_raio cs' /\
    wsum (fun x => F (OAio (fst x), body (snd x))) (attl rc_saio cs) + s_take F view_resp s0 o outs + o_tx F outs
    = wsum (fun x => F (OAio (fst x), body (snd x))) (attl rc_saio cs') + s_del F view_resp s0 o outs + o_rel F outs.
  Proof.
    induction ks as [|k r IH]; intros cs cs' outs H HC HK; cbn [flush_sendq] in H.
    - inversion H; subst. cbn. split; auto.
    - destruct (kget k cs) as [c|] eqn:EL; [|eauto].
      destruct (rc_saio c) as [[a m]|] eqn:ES; [|eauto].
      destruct (flush_sendq r (kset k (mkRctx (rc_pipe c) (rc_bt c) None (rc_raio c)) cs)) as [cs3 o3] eqn:EC.
      inversion H; subst; clear H.
      destruct (kget_split _ _ _ EL) as [l1 [l2 [E1 E2]]]. subst cs. rewrite E2 in EC.
      destruct (IH _ _ _ EC) as (H4 & H5).
      + eapply cinv_set; [exact HC|cbn; auto|cbn; auto].
      + intros a0 m0 Hi. apply HK. rewrite attl_mid in *.
        cbn [rc_saio opt_list app] in Hi. rewrite !in_app_iff in *. tauto.
      + split; auto.
        cbn [s_take s_del o_tx o_rel]. rewrite (skey_resp s0 o a Ho).
        rewrite (HK a m) by (rewrite attl_mid, ES; rewrite !in_app_iff; right; left; left; reflexivity).
        change (E_OK =? 0)%N with true. cbv iota.
        rewrite !wsum_attl_mid in *. cbn [rc_saio] in H5. rewrite ES. cbn [opt_list] in *.
        rewrite ?wsum_cons, ?wsum_nil in *. cbn [fst snd]. lia.
  Qed.

  (* resp0_ctx_close *)
  Lemma rctx_close_spec s k cx s1 o1 :
    CInv rc_saio rc_raio (rs_ctxs s) -> kget k (rs_ctxs s) = Some cx -> rctx_close s k cx = (s1, o1) ->
    exists l1 l2, rs_ctxs s = l1 ++ (k, cx) :: l2 /\
      rs_ctxs s1 = l1 ++ (k, mkRctx (rc_pipe cx) (rc_bt cx) None None) :: l2 /\
      (rs_pipes s1 = rs_pipes s \/ rs_pipes s1 = unqueue_ctx k (rs_pipes s)) /\
      forall F o, (forall c a' nb m, o <> PSend c a' nb m) ->
        wsum (fun x => F (OAio (fst x), body (snd x))) (attl rc_saio (rs_ctxs s)) + s_take F view_resp s o o1 + o_tx F o1
        = wsum (fun x => F (OAio (fst x), body (snd x))) (attl rc_saio (rs_ctxs s1)) + s_del F view_resp s o o1 + o_rel F o1.
  Proof.
    intros HC EL H. destruct (kget_split _ _ _ EL) as [l1 [l2 [E1 E2]]]. exists l1, l2.
    pose proof (kget_in' _ _ _ EL) as Hin. destruct HC as (K & N & R).
    unfold rctx_close in H.
    destruct (rc_saio cx) as [[sa m0]|] eqn:ES; destruct (rc_raio cx) as [ra|] eqn:ER; inversion H; subst; clear H;
      cbn [rs_ctxs rs_pipes rset_ctxs rset_pipes rset_recvq];
      (split; [exact E1|]); (split; [rewrite E1; apply E2|]); (split; [auto|]);
      intros F o Ho; cbn [app s_take s_del o_tx o_rel]; rewrite ?(skey_resp s o _ Ho);
      rewrite ?(cinv_att_key rc_saio rc_raio _ _ _ _ _ (conj K (conj N R)) Hin ES);
      rewrite ?(att_key_notin _ _ (R _ _ _ Hin ER));
      change (E_CLOSED =? 0)%N with false; cbv iota;
      rewrite E1, !E2, !wsum_attl_mid; cbn [rc_saio]; rewrite ES; cbn [opt_list]; wnorm; cbn [fst snd]; lia.
  Qed.

  Ltac rsproj := cbn [rs_ctxs rs_pipes rs_recvpipes rs_recvq rs_ttl rs_readable rs_writable
                      rset_ctxs rset_pipes rset_w rset_r rset_recvpipes rset_recvq] in *.
  Ltac ifresp H := repeat match type of H with context [if ?b then ?x else ?y] => match type of x with resp => destruct b end end.
  Ltac slaw1 := cbv zeta;
    match goal with |- context [v_extra view_resp ?s ?o ?outs] => change (v_extra view_resp s o outs) with (@nil pmsg) end;
    match goal with |- context [v_clones view_resp ?s ?o ++ v_dups view_resp ?s ?o] =>
      change (v_clones view_resp s o ++ v_dups view_resp s o) with (@nil key) end;
    cbn [map]; rewrite app_nil_r, wsum_nil, !w_resp.
  Ltac slaw0 := intros F; slaw1.
  Ltac slawfin := rsproj; cbn [op_add op_del s_take s_del o_tx o_rel]; rewrite ?send_key_self;
    wnorm; unfold body; cbn [fst snd pm_body pm_hdr N.eqb E_OK E_STATE E_AGAIN E_CLOSED rp_held rp_rmsg rc_saio opt_list]; 
    wnorm; cbn [fst snd pm_body]; try lia.

  Lemma resp_step_main fx s o s' outs :
    rf_sbusy fx = true -> SInv s -> resp_ok s o -> resp_step fx s o = (s', outs) ->
    SInv s' /\ law_sum view_resp s o s' outs.
  Proof.
    intros Hfx HI Hok H. pose proof HI as [HC HP]. pose proof HC as (K & N & R). pose proof HP as [KP GP].
    destruct o as [c a nb m|c a nb|a rv|p peer|p|p rv|p rv m|c op|c|c| |now]; cbn [resp_step resp_ok] in *.
    - (* PSend *)
      cbv zeta in H. destruct (kget (ckey c) (rs_ctxs s)) as [cx|] eqn:EL.
      2:{ inversion H; subst. split; [exact HI|]. slaw0. slawfin. }
      destruct (kget_split _ _ _ EL) as [l1 [l2 [E1 E2]]].
      assert (HC' : CInv rc_saio rc_raio (l1 ++ (ckey c, cx) :: l2)) by (rewrite <- E1; exact HC).
      rewrite Hfx in H. cbn [andb] in H.
      assert (GEN : forall s'' outs'' c',
                 (s', outs) = (s'', outs'') -> (rs_ctxs s'' = l1 ++ (ckey c, c') :: l2 /\ rc_saio c' = rc_saio cx /\ rc_raio c' = rc_raio cx \/ rs_ctxs s'' = rs_ctxs s) ->
                 rs_pipes s'' = rs_pipes s ->
                 (outs'' = [Complete a E_STATE None] \/ outs'' = [Complete a E_AGAIN None] \/
                  exists m', outs'' = [Complete a E_OK None; Free m'] /\ pm_body m' = pm_body m) ->
                 SInv s' /\ law_sum view_resp s (PSend c a nb m) s' outs).
      { intros s'' outs'' c' Hs Ec Ep Ho. inversion Hs; subst s' outs; clear Hs. split.
        - split; [|rewrite Ep; exact HP]. destruct Ec as [(Ec & Esa & Era)|Ec]; rewrite Ec; [|exact HC].
          eapply cinv_set; [exact HC'|auto|auto].
        - slaw0. rewrite Ep. destruct Ec as [(Ec & Esa & Era)|Ec]; rewrite Ec; rewrite ?E1, ?wsum_attl_mid, ?Esa;
          destruct Ho as [->|[->|[m' [-> Em]]]]; slawfin; rewrite ?Em; lia. }
      ifresp H. all: rsproj.
      all: match type of H with (if ?b then _ else _) = _ => destruct b end;
           [eapply (GEN _ _ cx); [symmetry; exact H|right; reflexivity|reflexivity|auto]|].
      all: destruct (rc_bt cx) as [|b0 bt] eqn:EB; [eapply (GEN _ _ cx); [symmetry; exact H|right; reflexivity|reflexivity|auto]|].
      all: destruct (rc_saio cx) as [sx|] eqn:ES; [eapply (GEN _ _ cx); [symmetry; exact H|right; reflexivity|reflexivity|auto]|].
      all: match type of H with (if ?b then _ else _) = _ => destruct b end;
           [eapply (GEN _ _ cx); [symmetry; exact H|right; reflexivity|reflexivity|auto]|].
      all: destruct (live_pipe (rc_pipe cx) (rs_pipes s)) as [x|] eqn:LP;
           [|eapply GEN; [symmetry; exact H|left; rsproj; rewrite E1, !E2; auto|reflexivity|right; right; eexists; split; reflexivity]].
      all: clear GEN; unfold live_pipe in LP; destruct (kget (rc_pipe cx) (rs_pipes s)) as [x0|] eqn:EP; [|discriminate];
           destruct (rp_closed x0) eqn:ECL; [discriminate|]; injection LP as ->;
           destruct (kget_split _ _ _ EP) as [q1 [q2 [P1 P2]]];
           assert (HP' : PInv (q1 ++ (rc_pipe cx, x) :: q2)) by (rewrite <- P1; exact HP);
           pose proof (GP _ _ (kget_in' _ _ _ EP)) as [GX1 GX2];
           rewrite E1 in Hok; destruct Hok as [Hok1 Hok2].
      all: destruct (rp_busy x) eqn:EBU; cbn [negb] in H; injection H as <- <-; rsproj.
      all: (split; [split; rsproj; [rewrite E1, !E2; eapply cinv_set; [exact HC'|cbn [rc_saio rc_raio]; rewrite ?ES; auto|cbn [rc_saio rc_raio]; auto]
                                   |rewrite P1, !P2; eapply pinv_set; [exact HP'|split; cbn; auto; discriminate]]|]).
      all: try (right; right; eexists; eexists; split; [reflexivity|]; split; [reflexivity|]; split; assumption).
      all: slaw0; slawfin; rewrite E1, !E2, P1, !P2, !wsum_attl_mid, !wsum_pheld_mid, !wsum_ptx_mid;
           cbn [rc_saio rp_held rp_rmsg]; rewrite ?ES, ?(GX1 eq_refl); cbn [opt_list]; wnorm; cbn [fst snd pm_body]; try lia.
    - (* PRecv *)
      assert (KN : forall s'' rv, rs_ctxs s'' = rs_ctxs s -> rs_pipes s'' = rs_pipes s ->
                   SInv s'' /\ law_sum view_resp s (PRecv c a nb) s'' [Complete a rv None]).
      { intros s'' rv Ec Ep. split; [split; [rewrite Ec; exact HC|rewrite Ep; exact HP]|].
        slaw0. rewrite Ec, Ep. cbn [op_add op_del s_take s_del o_tx o_rel]. rewrite skey_resp by (intros; discriminate).
        rewrite (att_key_notin _ _ Hok). lia. }
      cbv zeta in H. destruct (kget (ckey c) (rs_ctxs s)) as [cx|] eqn:EL.
      2:{ inversion H; subst. apply KN; reflexivity. }
      destruct (kget_split _ _ _ EL) as [l1 [l2 [E1 E2]]].
      assert (HC' : CInv rc_saio rc_raio (l1 ++ (ckey c, cx) :: l2)) by (rewrite <- E1; exact HC).
      destruct (rs_recvpipes s) as [|p rest] eqn:ERP.
      + destruct nb; [inversion H; subst; apply KN; reflexivity|].
        destruct (rc_raio cx) eqn:ER; [inversion H; subst; apply KN; reflexivity|].
        inversion H; subst; clear H. split.
        * split; rsproj; [|exact HP]. rewrite E1, !E2. eapply cinv_set; [exact HC'|cbn; auto|].
          right; right. exists a. rewrite <- E1. cbn. auto.
        * slaw0. slawfin. rewrite E1, !E2, !wsum_attl_mid. cbn [rc_saio]. lia.
      + destruct (kget p (rs_pipes s)) as [x|] eqn:EP; [|inversion H; subst; apply KN; reflexivity].
        destruct (rp_rmsg x) as [|msg tl] eqn:ERM; [inversion H; subst; apply KN; reflexivity|].
        destruct (kget_split _ _ _ EP) as [q1 [q2 [P1 P2]]].
        assert (HP' : PInv (q1 ++ (p, x) :: q2)) by (rewrite <- P1; exact HP).
        pose proof (GP _ _ (kget_in' _ _ _ EP)) as [GX1 GX2]. rewrite ERM in GX2.
        assert (tl = []) by (destruct tl; [reflexivity|cbn in GX2; lia]). subst tl.
        inversion H; subst; clear H. split.
        * split; rsproj.
          -- rewrite E1, !E2. eapply cinv_set; [exact HC'|cbn; auto|cbn; auto].
          -- rewrite P1, !P2. eapply pinv_set; [exact HP'|split; cbn; auto; lia].
        * slaw0. slawfin. rewrite E1, !E2, P1, !P2, !wsum_attl_mid, !wsum_pheld_mid, !wsum_ptx_mid.
          cbn [rc_saio rp_held rp_rmsg]. rewrite ERM. wnorm. lia.
    - (* PCancel *)
      destruct (find_saio a (rs_ctxs s)) as [[k cx]|] eqn:EF.
      + unfold find_saio in EF. apply find_some in EF. destruct EF as [Hin Hf]. cbn [snd] in Hf.
        pose proof (in_kget' _ _ _ K Hin) as EL.
        destruct (kget_split _ _ _ EL) as [l1 [l2 [E1 E2]]].
        assert (HC' : CInv rc_saio rc_raio (l1 ++ (k, cx) :: l2)) by (rewrite <- E1; exact HC).
        destruct (rc_saio cx) as [[a' m0]|] eqn:ES; [|discriminate].
        apply N.eqb_eq in Hf. subst a'.
        inversion H; subst; clear H. split.
        * split; rsproj; [|apply pinv_unqueue; exact HP]. rewrite E1, !E2. eapply cinv_set; [exact HC'|cbn; auto|cbn; auto].
        * slaw0. cbn [op_add op_del s_take s_del o_tx o_rel]. rewrite skey_resp by (intros; discriminate).
          rewrite (cinv_att_key _ _ _ _ _ _ _ HC Hin ES). destruct (N.eqb_spec rv 0); [contradiction|].
          slawfin. rewrite unqueue_pheld, unqueue_ptx, E1, !E2, !wsum_attl_mid. cbn [rc_saio]. rewrite ES. cbn [opt_list]. wnorm. cbn [fst snd]. lia.
      + pose proof (find_saio_none' _ _ EF) as Hn.
        destruct (find_raio a (rs_ctxs s)) as [[k cx]|] eqn:EF2.
        2:{ inversion H; subst. split; [exact HI|]. slaw0. slawfin. }
        unfold find_raio in EF2. apply find_some in EF2. destruct EF2 as [Hin Hf].
        pose proof (in_kget' _ _ _ K Hin) as EL.
        destruct (kget_split _ _ _ EL) as [l1 [l2 [E1 E2]]].
        assert (HC' : CInv rc_saio rc_raio (l1 ++ (k, cx) :: l2)) by (rewrite <- E1; exact HC).
        inversion H; subst; clear H. split.
        * split; rsproj; [|exact HP]. rewrite E1, !E2. eapply cinv_set; [exact HC'|cbn; auto|cbn; auto].
        * slaw0. cbn [op_add op_del s_take s_del o_tx o_rel]. rewrite skey_resp by (intros; discriminate).
          rewrite (att_key_notin _ _ Hn). slawfin. rewrite E1, !E2, !wsum_attl_mid. cbn [rc_saio]. lia.
    - (* PPipeStart *)
      destruct (negb (peer =? PROTO_SURVEYOR)%N); inversion H; subst; clear H; [split; [exact HI|slaw0; slawfin]|].
      split.
      + split; rsproj; [exact HC|]. apply pinv_snoc; auto. split; cbn; auto.
      + slaw0. slawfin. rewrite pheld_app, ptx_app. wnorm. cbn. wnorm. lia.
    - (* PPipeClose *)
      destruct (kget p (rs_pipes s)) as [x|] eqn:EP; [|inversion H; subst; split; [exact HI|slaw0; slawfin]].
      destruct (flush_sendq (rp_sendq x) (rs_ctxs s)) as [cs' o1] eqn:EFL.
      destruct (kget_split _ _ _ EP) as [q1 [q2 [P1 P2]]].
      assert (HP' : PInv (q1 ++ (p, x) :: q2)) by (rewrite <- P1; exact HP).
      pose proof (GP _ _ (kget_in' _ _ _ EP)) as [GX1 GX2].
      assert (HK : forall a m, In (a, m) (attl rc_saio (rs_ctxs s)) -> att_key a (attl rc_saio (rs_ctxs s)) = Some (body m))
        by (intros a0 m0 Hi; apply att_key_in; [exact N|exact Hi]).
      pose proof (fun F => flush_sendq_spec F s (PPipeClose p) ltac:(intros; discriminate) _ _ _ _ EFL HC HK) as SP.
      inversion H; subst; clear H. split.
      + split; rsproj; [apply (SP (fun _ => 0))|]. rewrite P1, !P2. eapply pinv_set; [exact HP'|split; cbn; auto].
      + slaw0. destruct (SP F) as [_ S5]. slawfin. rewrite P1, !P2, !wsum_pheld_mid, !wsum_ptx_mid.
        cbn [rp_held rp_rmsg]. unfold body in S5. wnorm. lia.
    - (* PSendDone *)
      assert (OPS : forall F,
                op_add F view_resp s (PSendDone p rv)
                = (if (rv =? 0)%N then 0 else wsum (fun m => F (OProto, body m)) (tx_of p (ptx (rs_pipes s)))) /\
                op_del F view_resp s (PSendDone p rv) = wsum (fun m => F (OPipe p, body m)) (tx_of p (ptx (rs_pipes s))))
        by (intros; split; reflexivity).
      destruct (kget p (rs_pipes s)) as [x|] eqn:EP.
      2:{ inversion H; subst. split; [exact HI|]. slaw0. destruct (OPS F) as [-> ->].
          rewrite (tx_of_ptx_notin _ _ (kget_none_notin' _ _ EP)). destruct (rv =? 0)%N; slawfin. }
      destruct (kget_split _ _ _ EP) as [q1 [q2 [P1 P2]]].
      assert (HP' : PInv (q1 ++ (p, x) :: q2)) by (rewrite <- P1; exact HP).
      assert (TXO : tx_of p (ptx (rs_pipes s)) = rp_held x) by (rewrite P1; apply tx_of_ptx_mid; rewrite <- P1; exact KP).
      rewrite TXO in OPS.
      destruct (N.eqb_spec rv 0) as [->|Hrv]; cbn [negb] in H.
      2:{ inversion H; subst; clear H. split.
          - split; rsproj; [exact HC|]. rewrite P1, !P2. eapply pinv_set; [exact HP'|].
            split; cbn; auto. apply (GP _ _ (kget_in' _ _ _ EP)).
          - slaw0. destruct (OPS F) as [-> ->]. destruct (N.eqb_spec rv 0); [contradiction|].
            slawfin. rewrite P1, !P2, !wsum_pheld_mid, !wsum_ptx_mid. cbn [rp_held rp_rmsg]. wnorm. cbn [o_tx o_rel s_take s_del fst snd]. lia. }
      change (0 =? 0)%N with true in OPS. cbv iota in OPS.
      pose proof (GP _ _ (kget_in' _ _ _ EP)) as [GX1 GX2].
      assert (FIN : forall s'' x', (s', outs) = (s'', []) -> rs_ctxs s'' = rs_ctxs s -> rs_pipes s'' = q1 ++ (p, x') :: q2 ->
                    rp_held x' = [] -> rp_rmsg x' = rp_rmsg x -> SInv s' /\ law_sum view_resp s (PSendDone p 0) s' outs).
      { intros s'' x' Hs Ec Ep Eh Er. inversion Hs; subst s' outs; clear Hs. split.
        - split; [rewrite Ec; exact HC|]. rewrite Ep. eapply pinv_set; [exact HP'|]. split; [auto|rewrite Er; exact GX2].
        - slaw0. destruct (OPS F) as [-> ->]. rewrite Ec, Ep, P1, !wsum_pheld_mid, !wsum_ptx_mid, Eh, Er. slawfin. }
      destruct (rp_sendq x) as [|k rest] eqn:ESQ.
      { ifresp H. all: eapply FIN; [symmetry; exact H|reflexivity|rsproj; rewrite P1, !P2; reflexivity|reflexivity|reflexivity]. }
      destruct (kget k (rs_ctxs s)) as [cx|] eqn:EL;
        [|eapply FIN; [symmetry; exact H|reflexivity|rsproj; rewrite P1, !P2; reflexivity|reflexivity|reflexivity]].
      destruct (rc_saio cx) as [[a m]|] eqn:ES;
        [|eapply FIN; [symmetry; exact H|reflexivity|rsproj; rewrite P1, !P2; reflexivity|reflexivity|reflexivity]].
      clear FIN. destruct (kget_split _ _ _ EL) as [l1 [l2 [E1 E2]]].
      assert (HC' : CInv rc_saio rc_raio (l1 ++ (k, cx) :: l2)) by (rewrite <- E1; exact HC).
      inversion H; subst; clear H. split.
      + split; rsproj.
        * rewrite E1, !E2. eapply cinv_set; [exact HC'|cbn; auto|cbn; auto].
        * rewrite P1, !P2. eapply pinv_set; [exact HP'|split; cbn; auto; discriminate].
      + slaw0. destruct (OPS F) as [-> ->]. cbn [s_take s_del o_tx o_rel].
        rewrite skey_resp by (intros; discriminate).
        rewrite (cinv_att_key _ _ _ _ _ _ _ HC (kget_in' _ _ _ EL) ES).
        slawfin. rewrite E1, !E2, P1, !P2, !wsum_attl_mid, !wsum_pheld_mid, !wsum_ptx_mid.
        cbn [rc_saio rp_held rp_rmsg]. rewrite ES. cbn [opt_list]. wnorm. cbn [fst snd]. lia.
    - (* PRecvDone *)
      destruct (N.eqb_spec rv 0) as [->|Hrv]; cbn [negb] in H.
      2:{ inversion H; subst; clear H. split; [exact HI|]. slaw0. cbn [op_add]. destruct (N.eqb_spec rv 0); [contradiction|]. slawfin. }
      assert (RX : forall F, op_add F view_resp s (PRecvDone p 0 m)
                   = F (@pair owner key OProto (match resp_recv (rs_ttl s) (pm_body m) with BtDeliver _ b => b | _ => body m end))) by reflexivity.
      destruct (resp_recv (rs_ttl s) (pm_body m)) as [hdr bdy| |] eqn:ER.
      2,3: inversion H; subst; clear H; (split; [exact HI|]); slaw0; rewrite RX; slawfin.
      cbv zeta in H.
      destruct (live_pipe p (rs_pipes s)) as [x|] eqn:LP.
      2:{ inversion H; subst; clear H; (split; [exact HI|]); slaw0; rewrite RX; slawfin. }
      unfold live_pipe in LP. destruct (kget p (rs_pipes s)) as [x0|] eqn:EP; [|discriminate].
      destruct (rp_closed x0) eqn:ECL; [discriminate|]. injection LP as ->.
      destruct (kget_split _ _ _ EP) as [q1 [q2 [P1 P2]]].
      assert (HP' : PInv (q1 ++ (p, x) :: q2)) by (rewrite <- P1; exact HP).
      pose proof (GP _ _ (kget_in' _ _ _ EP)) as [GX1 GX2].
      destruct (rs_recvq s) as [|k rest].
      { inversion H; subst; clear H. split.
        - split; rsproj; [exact HC|]. rewrite P1, !P2. eapply pinv_set; [exact HP'|split; cbn; auto].
        - slaw0; rewrite RX; slawfin. rewrite P1, !P2, !wsum_pheld_mid, !wsum_ptx_mid. cbn [rp_held rp_rmsg]. rewrite Hok. wnorm. cbn [pm_body]. lia. }
      destruct (kget k (rs_ctxs s)) as [cx|] eqn:EL.
      2:{ inversion H; subst; clear H; (split; [split; rsproj; [exact HC|exact HP]|]); slaw0; rewrite RX; slawfin. }
      destruct (rc_raio cx) as [ra|] eqn:ERA.
      2:{ inversion H; subst; clear H; (split; [split; rsproj; [exact HC|exact HP]|]); slaw0; rewrite RX; slawfin. }
      destruct (kget_split _ _ _ EL) as [l1 [l2 [E1 E2]]].
      assert (HC' : CInv rc_saio rc_raio (l1 ++ (k, cx) :: l2)) by (rewrite <- E1; exact HC).
      inversion H; subst; clear H. split.
      + split; rsproj; [|exact HP]. rewrite E1, !E2. eapply cinv_set; [exact HC'|cbn; auto|cbn; auto].
      + slaw0; rewrite RX; slawfin; rewrite E1, !E2, !wsum_attl_mid; cbn [rc_saio]; lia.
    - (* PSetOpt *)
      destruct c; [inversion H; subst; split; [exact HI|slaw0; slawfin]|].
      destruct op; try (inversion H; subst; split; [exact HI|slaw0; slawfin]).
      all: match type of H with (if ?b then _ else _) = _ => destruct b end;
           inversion H; subst; (split; [exact HI|slaw0; slawfin]).
    - (* PCtxOpen *)
      inversion H; subst; clear H. cbn [ckey] in *. rewrite (kset_absent _ _ _ Hok). split.
      + split; rsproj; [|exact HP]. apply cinv_snoc; auto.
      + slaw0. slawfin. rewrite attl_app. wnorm. cbn. wnorm. lia.
    - (* PCtxClose *)
      cbn [ckey] in H. destruct (kget (c + 1)%N (rs_ctxs s)) as [cx|] eqn:EL.
      2:{ inversion H; subst. split; [exact HI|slaw0; slawfin]. }
      destruct (rctx_close s (c + 1)%N cx) as [s1 o1] eqn:ECL.
      destruct (rctx_close_spec _ _ _ _ _ HC EL ECL) as (l1 & l2 & E1 & E3 & E4 & E7).
      assert (HC1 : CInv rc_saio rc_raio (rs_ctxs s1)).
      { rewrite E3. rewrite E1 in HC. eapply cinv_set; [exact HC|cbn; auto|cbn; auto]. }
      assert (ED : kdel (c + 1)%N (rs_ctxs s1) = l1 ++ l2).
      { rewrite E3. unfold kdel. apply filter_mid_key. rewrite <- E3. apply HC1. }
      assert (HP1 : PInv (rs_pipes s1) /\ pheld (rs_pipes s1) = pheld (rs_pipes s) /\ ptx (rs_pipes s1) = ptx (rs_pipes s)).
      { destruct E4 as [-> | ->]; [auto|]. split; [apply pinv_unqueue; exact HP|]. split; [apply unqueue_pheld|apply unqueue_ptx]. }
      destruct HP1 as (HP1 & EH & ET).
      inversion H; subst; clear H. split.
      + split; rsproj; [|exact HP1]. rewrite ED. rewrite E3 in HC1. eapply cinv_del; exact HC1.
      + slaw0. specialize (E7 F (PCtxClose c) ltac:(intros; discriminate)). slawfin. rewrite EH, ET, ED.
        rewrite E3, wsum_attl_mid in E7. cbn [rc_saio opt_list] in E7. rewrite attl_app. unfold body in E7. wnorm. lia.
    - (* PSockClose *)
      destruct (kget 0%N (rs_ctxs s)) as [cx|] eqn:EL.
      2:{ inversion H; subst. split; [exact HI|slaw0; slawfin]. }
      destruct (rctx_close_spec _ _ _ _ _ HC EL H) as (l1 & l2 & E1 & E3 & E4 & E7).
      assert (HP1 : PInv (rs_pipes s') /\ pheld (rs_pipes s') = pheld (rs_pipes s) /\ ptx (rs_pipes s') = ptx (rs_pipes s)).
      { destruct E4 as [-> | ->]; [auto|]. split; [apply pinv_unqueue; exact HP|]. split; [apply unqueue_pheld|apply unqueue_ptx]. }
      destruct HP1 as (HP1 & EH & ET). split.
      + split; [|exact HP1]. rewrite E3. rewrite E1 in HC. eapply cinv_set; [exact HC|cbn; auto|cbn; auto].
      + slaw0. specialize (E7 F PSockClose ltac:(intros; discriminate)). slawfin. rewrite EH, ET. unfold body in E7. lia.
    - (* PTick *)
      inversion H; subst. split; [exact HI|slaw0; slawfin].
  Qed.

  Theorem resp_proto_law : forall fx, rf_sbusy fx = true -> proto_law view_resp (resp_step fx) SInv resp_ok.
  Proof.
    intros fx Hfx s o s' outs HI Hok H. destruct (resp_step_main fx s o s' outs Hfx HI Hok H) as [A B].
    split; [exact A|]. split; [apply law_sum_eq, B|apply clones_held_none; reflexivity].
  Qed.

  (* a history the contract allows: a survey arrives and is received, the response goes out at once
     (pipe idle); a second survey is received and its response is queued behind the busy pipe; the
     transport completion sends the queued response; option change, a context, a cancelled receive;
     a third response queued, flushed by the pipe close; socket close *)
  Definition resp_hist : list pop :=
    [PPipeStart 1%N PROTO_SURVEYOR;
     PRecvDone 1%N 0%N (mkPmsg [] [128; 0; 0; 1; 7]%N);
     PRecv None 10%N false;
     PSend None 11%N false (mkPmsg [] [42%N]);
     PRecvDone 1%N 0%N (mkPmsg [] [128; 0; 0; 2; 8]%N);
     PRecv None 12%N false;
     PSend None 13%N false (mkPmsg [] [43%N]);
     PSendDone 1%N 0%N;
     PSetOpt None (OMaxTtl 5);
     PCtxOpen 0%N;
     PRecv (Some 0%N) 14%N false;
     PCancel 14%N E_CANCELED;
     PRecvDone 1%N 0%N (mkPmsg [] [128; 0; 0; 3; 9]%N);
     PRecv None 15%N false;
     PSend None 16%N false (mkPmsg [] [44%N]);
     PPipeClose 1%N;
     PSockClose].
  Example resp_ok_nonvacuous :
    ops_ok (resp_step rfix_all) resp_ok resp_init resp_hist /\
    snd (resp_step rfix_all (run (resp_step rfix_all) resp_init (firstn 3 resp_hist)) (nth 3 resp_hist PSockClose))
      = [TranSend 1%N (mkPmsg [128; 0; 0; 1]%N [42%N]); Complete 11%N E_OK None] /\
    snd (resp_step rfix_all (run (resp_step rfix_all) resp_init (firstn 6 resp_hist)) (nth 6 resp_hist PSockClose)) = [] /\
    snd (resp_step rfix_all (run (resp_step rfix_all) resp_init (firstn 7 resp_hist)) (nth 7 resp_hist PSockClose))
      = [TranSend 1%N (mkPmsg [128; 0; 0; 2]%N [43%N]); Complete 13%N E_OK None] /\
    snd (resp_step rfix_all (run (resp_step rfix_all) resp_init (firstn 15 resp_hist)) (nth 15 resp_hist PSockClose))
      = [Complete 16%N E_OK None; Free (mkPmsg [128; 0; 0; 3]%N [44%N])].
  Proof.
    split; [|vm_compute; repeat split].
    vm_compute.
    repeat match goal with |- _ /\ _ => split end; try exact I; try reflexivity; try discriminate.
    all: try (intros HH; intuition discriminate).
    all: intros k c HH; repeat (destruct HH as [HH|HH]; [inversion HH; subst; discriminate|]); destruct HH.
  Qed.
End RespSec.

Print Assumptions rep_proto_law.
Print Assumptions resp_proto_law.

(* ====================================================================== *)
(* Part 2: after the close sequence REP and RESPONDENT own nothing (their fini functions
   free nothing: v_fini = []; rep0_pipe_close / resp0_pipe_close free the parked request /
   survey and complete the replies queued on the pipe) *)
From NngV Require Import Ledger.LedgerThms.

(* the operations of a close sequence *)
Definition rclosing (o : pop) : bool :=
  match o with
  | PPipeClose _ | PCtxClose _ | PSockClose => true
  | PSendDone _ rv => N.eqb rv E_CLOSED
  | _ => false
  end.

Section RunGen.
  Context {St : Type} (step : St -> pop -> St * list pout).
  Lemma run_app_rr a : forall b s, run step s (a ++ b) = run step (run step s a) b.
  Proof. induction a as [|o a IH]; intros b s; cbn [app run]; [reflexivity|apply IH]. Qed.
  Lemma ops_ok_rclosing (ok : St -> pop -> Prop) :
    (forall s o, rclosing o = true -> ok s o) -> forall ops s, forallb rclosing ops = true -> ops_ok step ok s ops.
  Proof.
    intros Hok. induction ops as [|o ops IH]; intros s H; cbn [ops_ok forallb] in *; [exact I|].
    apply andb_true_iff in H. destruct H as [H1 H2]. split; [apply Hok, H1|apply IH, H2].
  Qed.
End RunGen.
Lemma forallb_map_true {A} (f : A -> pop) (l : list A) : (forall x, rclosing (f x) = true) -> forallb rclosing (map f l) = true.
Proof. intros H. induction l; cbn; [reflexivity|]. now rewrite H, IHl. Qed.

Section RepClose.
  Import ReqRepBacktrace ReqModel RepModel ReqRepProofs.

  Ltac rproj := cbn [rp_ctxs rp_pipes rp_busy rp_pclosed rp_holding rp_recvq rp_sendq rp_sending rp_readable
                     rp_writable rp_ttl rp_set_ctxs rp_set_pipes rp_set_holding rp_set_recvq rp_set_sendq
                     rp_set_sending rp_set_readable rp_set_writable rp_set_ttl rp_put] in *.
  Ltac ifrepg := repeat match goal with
    | |- context [if ?b then ?x else ?y] => match type of x with rep => destruct b end
    end.

  (* the contexts that still have a queued reply *)
  Definition has_saio (kc : N * pctx) : bool := match rc_saio (snd kc) with Some _ => true | None => false end.
  Definition sal (l : list (N * pctx)) : list (N * pctx) := filter has_saio l.
  Lemma attl_sal_nil l : sal l = [] -> attl rc_saio l = [].
  Proof.
    induction l as [|[k c] l IH]; [reflexivity|]. unfold sal, attl. cbn [filter flat_map snd]. unfold has_saio at 1. cbn [snd].
    destruct (rc_saio c); [discriminate|]. intros H. cbn [opt_list app]. apply IH, H.
  Qed.
  Lemma in_assoc_set_weak {A} k (v : A) l x : In x (assoc_set k v l) -> x = (k, v) \/ In x l.
  Proof.
    induction l as [|[k0 v0] l IH]; cbn [assoc_set In]; [intros [H|[]]; auto|]. destruct (N.eqb k0 k); cbn [In].
    - intros [H|H]; auto.
    - intros [H|H]; [auto|]. destruct (IH H); auto.
  Qed.
  Lemma sal_set k c0 l kc : rc_saio c0 = None -> In kc (sal (assoc_set k c0 l)) -> In kc (sal l).
  Proof.
    intros E H. unfold sal in *. apply filter_In in H. destruct H as [H P]. apply filter_In.
    apply in_assoc_set_weak in H. destruct H as [->|H]; [|auto]. unfold has_saio in P. cbn in P. rewrite E in P. discriminate.
  Qed.

  Lemma close_sendq_frame ks : forall s1 s2 outs, close_sendq s1 ks = (s2, outs) ->
    rp_holding s2 = rp_holding s1 /\ rp_sending s2 = rp_sending s1 /\
    (forall kc, In kc (sal (rp_ctxs s2)) -> In kc (sal (rp_ctxs s1))).
  Proof.
    induction ks as [|k r IH]; intros s1 s2 outs H; cbn [close_sendq] in H.
    - inversion H; subst. auto.
    - unfold rp_get in H. destruct (lookup k (rp_ctxs s1)) as [c|]; [|eauto].
      destruct (rc_saio c) as [[a m]|]; [|eauto].
      destruct (close_sendq (rp_put s1 k (mkPctx (rc_pipe c) (rc_bt c) None (rc_raio c))) r) as [s3 o3] eqn:EC.
      inversion H; subst; clear H. destruct (IH _ _ _ EC) as (A & B & C). rproj.
      split; [exact A|]. split; [exact B|]. intros kc Hk. apply C in Hk. eapply sal_set; [|exact Hk]. reflexivity.
  Qed.

  Lemma rep_ok_closing s o : rclosing o = true -> rep_ok s o.
  Proof. destruct o; cbn; intros; try exact I; discriminate. Qed.

  (* one step of a close sequence: the invariant stays, nothing is added, the target is emptied *)
  Lemma rep_close_step pf s o : pf_saio pf = true -> RInv s -> rclosing o = true ->
    let s' := fst (rep_step pf s o) in
    RInv s' /\
    (forall x, In x (rp_holding s') -> In x (rp_holding s) /\ forall p, o = PPipeClose p -> fst x <> p) /\
    (forall x, In x (rp_sending s') -> In x (rp_sending s) /\ forall p, o = PSendDone p E_CLOSED -> fst x <> p) /\
    (forall kc, In kc (sal (rp_ctxs s')) -> In kc (sal (rp_ctxs s)) /\
                (forall c, o = PCtxClose c -> fst kc <> (c + 1)%N) /\ (o = PSockClose -> fst kc <> 0%N)).
  Proof.
    intros Hpf HI Hcl s'. split.
    { subst s'. destruct (rep_step pf s o) as [s1 o1] eqn:E.
      exact (proj1 (rep_step_main pf s o s1 o1 Hpf HI (rep_ok_closing s o Hcl) E)). }
    destruct HI as [HC HB]. pose proof HC as (K & N & R).
    destruct o as [c a nb m|c a nb|a rv|p peer|p|p rv|p rv m|c op|c|c| |now]; try discriminate Hcl; subst s'.
    - (* PPipeClose *)
      cbn [rep_step]. cbv zeta. ifrepg.
      all: match goal with |- context [close_sendq ?x ?ks] => destruct (close_sendq x ks) as [s2 o2] eqn:EC end.
      all: ifrepg; cbn [fst]; rproj.
      all: destruct (close_sendq_frame _ _ _ _ EC) as (A & B & C); rproj; rewrite A, B.
      all: split; [intros x Hx; unfold assoc_del in Hx; apply filter_In in Hx; destruct Hx as [Hx Hp]; split; [exact Hx|];
                   intros p0 E; inversion E; subst p0; destruct (N.eqb_spec (fst x) p); [discriminate|assumption]|].
      all: split; [intros x Hx; split; [exact Hx|intros; discriminate]|].
      all: intros kc Hk; split; [apply C, Hk|split; intros; discriminate].
    - (* PSendDone p E_CLOSED *)
      cbn [rclosing] in Hcl. apply N.eqb_eq in Hcl. subst rv. cbn [rep_step]. cbv zeta.
      change (negb (E_CLOSED =? 0)%N) with true. cbv iota. cbn [fst]. rproj.
      split; [intros x Hx; split; [exact Hx|intros; discriminate]|].
      split; [|intros kc Hk; split; [exact Hk|split; intros; discriminate]].
      intros x Hx. unfold assoc_del in Hx. apply filter_In in Hx. destruct Hx as [Hx Hp]. split; [exact Hx|].
      intros p0 E. inversion E; subst p0. destruct (N.eqb_spec (fst x) p); [discriminate|assumption].
    - (* PCtxClose *)
      cbn [rep_step]. unfold rp_get. destruct (lookup (c + 1)%N (rp_ctxs s)) as [cx|] eqn:EL.
      2:{ cbn [fst]. split; [intros x Hx; split; [exact Hx|intros; discriminate]|].
          split; [intros x Hx; split; [exact Hx|intros; discriminate]|].
          intros kc Hk. split; [exact Hk|]. split; [|intros; discriminate].
          intros c0 E. inversion E; subst c0. intros E2. apply (lookup_none_notin _ _ EL). rewrite <- E2.
          apply in_map. unfold sal in Hk. apply filter_In in Hk. apply Hk. }
      destruct (rep_ctx_close s (c + 1)%N cx) as [s1 o1] eqn:ECL.
      destruct (rep_ctx_close_spec _ _ _ _ _ HC EL ECL) as (l1 & l2 & E1 & E3 & E4 & E5 & E6 & _).
      cbn [fst]. rproj. rewrite E4, E5.
      split; [intros x Hx; split; [exact Hx|intros; discriminate]|].
      split; [intros x Hx; split; [exact Hx|intros; discriminate]|].
      intros kc Hk. unfold sal in Hk. apply filter_In in Hk. destruct Hk as [Hk P].
      unfold assoc_del in Hk. apply filter_In in Hk. destruct Hk as [Hk Hne]. rewrite E3 in Hk.
      assert (Hkey : fst kc <> (c + 1)%N) by (destruct (N.eqb_spec (fst kc) (c + 1)); [discriminate|assumption]).
      split; [|split; [intros c0 E; inversion E; subst c0; exact Hkey|intros; discriminate]].
      unfold sal. apply filter_In. split; [|exact P]. rewrite E1. apply in_app_or in Hk. apply in_or_app.
      destruct Hk as [Hk|[Hk|Hk]]; [left; exact Hk| |right; right; exact Hk]. subst kc. cbn in Hkey. congruence.
    - (* PSockClose *)
      cbn [rep_step]. unfold rp_get. destruct (lookup 0%N (rp_ctxs s)) as [cx|] eqn:EL.
      2:{ cbn [fst]. split; [intros x Hx; split; [exact Hx|intros; discriminate]|].
          split; [intros x Hx; split; [exact Hx|intros; discriminate]|].
          intros kc Hk. split; [exact Hk|]. split; [intros; discriminate|].
          intros _ E2. apply (lookup_none_notin _ _ EL). rewrite <- E2.
          apply in_map. unfold sal in Hk. apply filter_In in Hk. apply Hk. }
      destruct (rep_ctx_close s 0%N cx) as [s1 o1] eqn:ECL.
      destruct (rep_ctx_close_spec _ _ _ _ _ HC EL ECL) as (l1 & l2 & E1 & E3 & E4 & E5 & E6 & _).
      cbn [fst]. rewrite E4, E5.
      split; [intros x Hx; split; [exact Hx|intros; discriminate]|].
      split; [intros x Hx; split; [exact Hx|intros; discriminate]|].
      intros kc Hk. unfold sal in Hk. apply filter_In in Hk. destruct Hk as [Hk P]. rewrite E3 in Hk.
      rewrite E1 in K. rewrite map_app in K. cbn [map fst] in K. pose proof (NoDup_remove_2 _ _ _ K) as Hn.
      assert (Hin : In kc l1 \/ In kc l2).
      { apply in_app_or in Hk. destruct Hk as [Hk|[Hk|Hk]]; auto. subst kc. discriminate P. }
      split; [|split; [intros; discriminate|]].
      + unfold sal. apply filter_In. split; [|exact P]. rewrite E1. apply in_or_app. destruct Hin; [left|right; right]; assumption.
      + intros _ E2. apply Hn. rewrite <- E2. apply in_or_app. destruct Hin as [H|H]; [left|right]; apply in_map; exact H.
  Qed.

  Lemma rep_close_run pf (Hpf : pf_saio pf = true) l : forallb rclosing l = true -> forall s, RInv s ->
    RInv (run (rep_step pf) s l) /\
    (forall x, In x (rp_holding (run (rep_step pf) s l)) -> In x (rp_holding s) /\ ~ In (PPipeClose (fst x)) l) /\
    (forall x, In x (rp_sending (run (rep_step pf) s l)) -> In x (rp_sending s) /\ ~ In (PSendDone (fst x) E_CLOSED) l) /\
    (forall kc, In kc (sal (rp_ctxs (run (rep_step pf) s l))) -> In kc (sal (rp_ctxs s)) /\
                (forall c, In (PCtxClose c) l -> fst kc <> (c + 1)%N) /\ (In PSockClose l -> fst kc <> 0%N)).
  Proof.
    induction l as [|o l IH]; intros Hl s HI; cbn [run forallb] in *.
    - split; [exact HI|]. split; [|split]; intros x Hx; (split; [exact Hx|]); try (intros []). split; [intros c []|intros []].
    - apply andb_true_iff in Hl. destruct Hl as [Ho Hl].
      destruct (rep_close_step pf s o Hpf HI Ho) as (I1 & H1 & S1 & C1).
      destruct (IH Hl _ I1) as (I2 & H2 & S2 & C2).
      split; [exact I2|]. split; [|split].
      + intros x Hx. destruct (H2 x Hx) as [A B]. destruct (H1 x A) as [A1 B1]. split; [exact A1|].
        intros [E|E]; [exact (B1 _ E eq_refl)|exact (B E)].
      + intros x Hx. destruct (S2 x Hx) as [A B]. destruct (S1 x A) as [A1 B1]. split; [exact A1|].
        intros [E|E]; [exact (B1 _ E eq_refl)|exact (B E)].
      + intros kc Hk. destruct (C2 kc Hk) as (A & B & D). destruct (C1 kc A) as (A1 & B1 & D1). split; [exact A1|]. split.
        * intros c [E|E]; [exact (B1 _ E)|exact (B _ E)].
        * intros [E|E]; [exact (D1 E)|exact (D E)].
  Qed.

  (* the socket core's close sequence as rep0 sees it: every pipe the state knows (the id map, the pipes
     parking a request, with a send in flight, with queued replies) gets its pipe_close; every transport
     send still in flight fails (NNG_ECLOSED); every context other than the socket's own (context c has
     key c + 1) is closed; then the socket's own close, which closes the socket's context (key 0) *)
  Definition rep_close_script (s : rep) : list pop :=
    map PPipeClose (rp_pipes s ++ map fst (rp_holding s) ++ map fst (rp_sending s) ++ map fst (rp_sendq s))
    ++ map (fun p => PSendDone p E_CLOSED) (map fst (rp_sending s))
    ++ map (fun kc => PCtxClose (fst kc - 1)) (filter (fun kc => negb (N.eqb (fst kc) 0)) (rp_ctxs s))
    ++ [PSockClose].

  Lemma rep_script_closing s : forallb rclosing (rep_close_script s) = true.
  Proof.
    unfold rep_close_script. rewrite !forallb_app.
    rewrite !forallb_map_true by (intros; reflexivity). reflexivity.
  Qed.

  Theorem rep_close_drains : forall pf s, pf_saio pf = true -> RInv s ->
    ops_ok (rep_step pf) rep_ok s (rep_close_script s) /\ drained view_rep (run (rep_step pf) s (rep_close_script s)).
  Proof.
    intros pf s Hpf HI. split.
    - apply ops_ok_rclosing; [apply rep_ok_closing|apply rep_script_closing].
    - destruct (rep_close_run pf Hpf _ (rep_script_closing s) s HI) as (_ & H & S & C).
      set (s' := run (rep_step pf) s (rep_close_script s)) in *.
      assert (EH : rp_holding s' = []).
      { destruct (rp_holding s') as [|x r]; [reflexivity|]. exfalso. destruct (H x (or_introl eq_refl)) as [A B]. apply B.
        unfold rep_close_script. apply in_or_app. left. apply in_map. apply in_or_app. right. apply in_or_app. left.
        apply in_map. exact A. }
      assert (ES : rp_sending s' = []).
      { destruct (rp_sending s') as [|x r]; [reflexivity|]. exfalso. destruct (S x (or_introl eq_refl)) as [A B]. apply B.
        unfold rep_close_script. apply in_or_app. right. apply in_or_app. left.
        apply (in_map (fun p => PSendDone p E_CLOSED)). apply in_map. exact A. }
      assert (EC : sal (rp_ctxs s') = []).
      { destruct (sal (rp_ctxs s')) as [|kc r]; [reflexivity|]. exfalso. destruct (C kc (or_introl eq_refl)) as (A & B & D).
        destruct (N.eqb_spec (fst kc) 0) as [E0|E0].
        - apply D; [|exact E0]. unfold rep_close_script. apply in_or_app. right. apply in_or_app. right. apply in_or_app. right. left. reflexivity.
        - apply (B (fst kc - 1)%N); [|lia]. unfold rep_close_script. apply in_or_app. right. apply in_or_app. right. apply in_or_app. left.
          apply (in_map (fun kc => PCtxClose (fst kc - 1))). apply filter_In. unfold sal in A. apply filter_In in A.
          split; [apply A|]. destruct (N.eqb_spec (fst kc) 0); [contradiction|reflexivity]. }
      unfold drained. cbn [view_rep VRep.view v_tx v_att v_held v_fini]. rewrite EH, ES.
      split; [reflexivity|]. split; [apply attl_sal_nil, EC|apply Permutation_refl].
  Qed.

  (* the pinned form of rep0_ctx_send (no NNG_ESTATE while ctx->saio is pending): the second queued
     reply overwrites ctx->saio; the first reply's reference is gone from the state and the ledger
     check fails at that step *)
  Definition pf_bad : pfix := mkPfix true true false true.
  Definition rep_bad_hist : list pop :=
    [PPipeStart 1%N PROTO_REQ;
     PRecvDone 1%N 0%N (mkPmsg [] [128; 0; 0; 1; 7]%N);
     PRecv None 10%N false;
     PSend None 11%N false (mkPmsg [] [42%N]);
     PRecvDone 1%N 0%N (mkPmsg [] [128; 0; 0; 2; 8]%N);
     PRecv None 12%N false;
     PSend None 13%N false (mkPmsg [] [43%N]);
     PRecvDone 1%N 0%N (mkPmsg [] [128; 0; 0; 3; 9]%N);
     PRecv None 14%N false;
     PSend None 15%N false (mkPmsg [] [44%N])].
  Theorem rep_law_refuted_pinned_saio : exists ops, replay_run view_rep (rep_step pf_bad) ls_init rep_init ops = None.
  Proof. exists rep_bad_hist. vm_compute. reflexivity. Qed.
  (* ... while the history up to the last send replays, and with the repair all of it does *)
  Lemma rep_bad_hist_prefix_ok :
    (exists r, replay_run view_rep (rep_step pf_bad) ls_init rep_init (removelast rep_bad_hist) = Some r) /\
    (exists r, replay_run view_rep (rep_step pf_all) ls_init rep_init rep_bad_hist = Some r).
  Proof. split; vm_compute; eexists; reflexivity. Qed.
End RepClose.

Section RespClose.
  Import SurveyBacktrace SurveyModel RespondModel.

  Ltac rsproj := cbn [rs_ctxs rs_pipes rs_recvpipes rs_recvq rs_ttl rs_readable rs_writable
                      rset_ctxs rset_pipes rset_w rset_r rset_recvpipes rset_recvq] in *.

  Definition has_saio' (kc : N * rctx) : bool := match rc_saio (snd kc) with Some _ => true | None => false end.
  Definition sal' (l : list (N * rctx)) : list (N * rctx) := filter has_saio' l.
  Lemma attl_sal_nil' l : sal' l = [] -> attl rc_saio l = [].
  Proof.
    induction l as [|[k c] l IH]; [reflexivity|]. unfold sal', attl. cbn [filter flat_map snd]. unfold has_saio' at 1. cbn [snd].
    destruct (rc_saio c); [discriminate|]. intros H. cbn [opt_list app]. apply IH, H.
  Qed.
  Lemma in_kset_weak' {A} k (v : A) l x : In x (kset k v l) -> x = (k, v) \/ In x l.
  Proof.
    induction l as [|[k0 v0] l IH]; cbn [kset In]; [intros [H|[]]; auto|]. destruct (N.eqb k0 k); cbn [In].
    - intros [H|H]; auto.
    - intros [H|H]; [auto|]. destruct (IH H); auto.
  Qed.
  Lemma sal_set' k c0 l kc : rc_saio c0 = None -> In kc (sal' (kset k c0 l)) -> In kc (sal' l).
  Proof.
    intros E H. unfold sal' in *. apply filter_In in H. destruct H as [H P]. apply filter_In.
    apply in_kset_weak' in H. destruct H as [->|H]; [|auto]. unfold has_saio' in P. cbn in P. rewrite E in P. discriminate.
  Qed.
  Lemma flush_sendq_frame ks : forall cs cs' outs, flush_sendq ks cs = (cs', outs) ->
    forall kc, In kc (sal' cs') -> In kc (sal' cs).
  Proof.
    induction ks as [|k r IH]; intros cs cs' outs H; cbn [flush_sendq] in H.
    - inversion H; subst. auto.
    - destruct (kget k cs) as [c|]; [|eauto].
      destruct (rc_saio c) as [[a m]|]; [|eauto].
      destruct (flush_sendq r (kset k (mkRctx (rc_pipe c) (rc_bt c) None (rc_raio c)) cs)) as [cs3 o3] eqn:EC.
      inversion H; subst; clear H. intros kc Hk. apply (IH _ _ _ EC) in Hk. eapply sal_set'; [|exact Hk]. reflexivity.
  Qed.

  Lemma resp_ok_closing s o : rclosing o = true -> resp_ok s o.
  Proof. destruct o; cbn; intros; try exact I; discriminate. Qed.

  (* what a closing step does to the pipe records: nothing is added; the closed pipe parks nothing,
     the pipe whose send failed has nothing in flight *)
  Definition pstep (o : pop) (l l' : list (pid * rpipe)) : Prop :=
    forall p x, In (p, x) l' -> exists x0, In (p, x0) l /\
      (rp_rmsg x = rp_rmsg x0 \/ rp_rmsg x = []) /\ (rp_held x = rp_held x0 \/ rp_held x = []) /\
      (o = PPipeClose p -> rp_rmsg x = []) /\ (o = PSendDone p E_CLOSED -> rp_held x = []).
  Lemma pstep_other o l : (forall p, o <> PPipeClose p) -> (forall p, o <> PSendDone p E_CLOSED) -> pstep o l l.
  Proof. intros H1 H2 p x Hi. exists x. split; [exact Hi|]. split; [auto|]. split; [auto|]. split; intros E; [destruct (H1 _ E)|destruct (H2 _ E)]. Qed.
  Lemma pstep_unqueue o k l : (forall p, o <> PPipeClose p) -> (forall p, o <> PSendDone p E_CLOSED) -> pstep o l (unqueue_ctx k l).
  Proof.
    intros H1 H2 p x Hi. unfold unqueue_ctx in Hi. apply in_map_iff in Hi. destruct Hi as [[q y] [E Hi]]. inversion E; subst.
    exists y. split; [exact Hi|]. cbn. split; [auto|]. split; [auto|]. split; intros E0; [destruct (H1 _ E0)|destruct (H2 _ E0)].
  Qed.
  Lemma pstep_none o p l : kget p l = None ->
    (forall q, o = PPipeClose q -> q = p) -> (forall q, o = PSendDone q E_CLOSED -> q = p) -> pstep o l l.
  Proof.
    intros Hn H1 H2 q x Hi. exists x. split; [exact Hi|]. split; [auto|]. split; [auto|].
    assert (q <> p) by (intros ->; apply (kget_none_notin' _ _ Hn); apply in_map_iff; exists (p, x); auto).
    split; intros E; exfalso; [apply H, (H1 _ E)|apply H, (H2 _ E)].
  Qed.
  Lemma pstep_set o p q1 x x' q2 : NoDup (map fst (q1 ++ (p, x) :: q2)) ->
    (forall q, o = PPipeClose q -> q = p) -> (forall q, o = PSendDone q E_CLOSED -> q = p) ->
    (rp_rmsg x' = rp_rmsg x \/ rp_rmsg x' = []) -> (rp_held x' = rp_held x \/ rp_held x' = []) ->
    (o = PPipeClose p -> rp_rmsg x' = []) -> (o = PSendDone p E_CLOSED -> rp_held x' = []) ->
    pstep o (q1 ++ (p, x) :: q2) (q1 ++ (p, x') :: q2).
  Proof.
    intros ND H1 H2 A B C D q y Hi. rewrite map_app in ND. cbn [map fst] in ND. pose proof (NoDup_remove_2 _ _ _ ND) as Hn.
    rewrite in_app_iff in Hn.
    apply in_app_or in Hi. destruct Hi as [Hi|[Hi|Hi]].
    - exists y. split; [apply in_or_app; left; exact Hi|]. split; [auto|]. split; [auto|].
      assert (q <> p) by (intros ->; apply Hn; left; apply in_map_iff; exists (p, y); auto).
      split; intros E; exfalso; [apply H, (H1 _ E)|apply H, (H2 _ E)].
    - inversion Hi; subst. exists x. split; [apply in_or_app; right; left; reflexivity|]. auto.
    - exists y. split; [apply in_or_app; right; right; exact Hi|]. split; [auto|]. split; [auto|].
      assert (q <> p) by (intros ->; apply Hn; right; apply in_map_iff; exists (p, y); auto).
      split; intros E; exfalso; [apply H, (H1 _ E)|apply H, (H2 _ E)].
  Qed.

  Lemma resp_close_step fx s o : rf_sbusy fx = true -> SInv s -> rclosing o = true ->
    let s' := fst (resp_step fx s o) in
    SInv s' /\ pstep o (rs_pipes s) (rs_pipes s') /\
    (forall kc, In kc (sal' (rs_ctxs s')) -> In kc (sal' (rs_ctxs s)) /\
                (forall c, o = PCtxClose c -> fst kc <> (c + 1)%N) /\ (o = PSockClose -> fst kc <> 0%N)).
  Proof.
    intros Hfx HI Hcl s'. split.
    { subst s'. destruct (resp_step fx s o) as [s1 o1] eqn:E.
      exact (proj1 (resp_step_main fx s o s1 o1 Hfx HI (resp_ok_closing s o Hcl) E)). }
    destruct HI as [HC [KP GP]]. pose proof HC as (K & N & R).
    destruct o as [c a nb m|c a nb|a rv|p peer|p|p rv|p rv m|c op|c|c| |now]; try discriminate Hcl; subst s'.
    - (* PPipeClose *)
      cbn [resp_step]. destruct (kget p (rs_pipes s)) as [x|] eqn:EP.
      2:{ cbn [fst]. split; [apply (pstep_none _ p); [exact EP|intros q E; inversion E; auto|intros; discriminate]|].
          intros kc Hk. split; [exact Hk|split; intros; discriminate]. }
      destruct (flush_sendq (rp_sendq x) (rs_ctxs s)) as [cs' o1] eqn:EFL. cbn [fst rs_pipes rs_ctxs].
      destruct (kget_split _ _ _ EP) as [q1 [q2 [P1 P2]]]. rewrite P1, P2. split.
      + apply pstep_set; [rewrite <- P1; exact KP|intros q E; inversion E; auto|intros; discriminate|cbn; auto..].
        intros; discriminate.
      + intros kc Hk. split; [exact (flush_sendq_frame _ _ _ _ EFL kc Hk)|split; intros; discriminate].
    - (* PSendDone p E_CLOSED *)
      cbn [rclosing] in Hcl. apply N.eqb_eq in Hcl. subst rv. cbn [resp_step].
      destruct (kget p (rs_pipes s)) as [x|] eqn:EP.
      2:{ cbn [fst]. split; [apply (pstep_none _ p); [exact EP|intros; discriminate|intros q E; inversion E; auto]|].
          intros kc Hk. split; [exact Hk|split; intros; discriminate]. }
      change (negb (E_CLOSED =? 0)%N) with true. cbv iota. cbn [fst]. rsproj.
      destruct (kget_split _ _ _ EP) as [q1 [q2 [P1 P2]]]. rewrite P1, P2. split.
      + apply pstep_set; [rewrite <- P1; exact KP|intros; discriminate|intros q E; inversion E; auto|cbn; auto..].
        intros; discriminate.
      + intros kc Hk. split; [exact Hk|split; intros; discriminate].
    - (* PCtxClose *)
      cbn [resp_step ckey]. destruct (kget (c + 1)%N (rs_ctxs s)) as [cx|] eqn:EL.
      2:{ cbn [fst]. split; [apply pstep_other; intros; discriminate|].
          intros kc Hk. split; [exact Hk|]. split; [|intros; discriminate].
          intros c0 E. inversion E; subst c0. intros E2. apply (kget_none_notin' _ _ EL). rewrite <- E2.
          apply in_map. unfold sal' in Hk. apply filter_In in Hk. apply Hk. }
      destruct (rctx_close s (c + 1)%N cx) as [s1 o1] eqn:ECL.
      destruct (rctx_close_spec _ _ _ _ _ HC EL ECL) as (l1 & l2 & E1 & E3 & E4 & _).
      cbn [fst]. rsproj. split.
      + destruct E4 as [-> | ->]; [apply pstep_other|apply pstep_unqueue]; intros; discriminate.
      + intros kc Hk. unfold sal' in Hk. apply filter_In in Hk. destruct Hk as [Hk P].
        unfold kdel in Hk. apply filter_In in Hk. destruct Hk as [Hk Hne]. rewrite E3 in Hk.
        assert (Hkey : fst kc <> (c + 1)%N) by (destruct (N.eqb_spec (fst kc) (c + 1)); [discriminate|assumption]).
        split; [|split; [intros c0 E; inversion E; subst c0; exact Hkey|intros; discriminate]].
        unfold sal'. apply filter_In. split; [|exact P]. rewrite E1. apply in_app_or in Hk. apply in_or_app.
        destruct Hk as [Hk|[Hk|Hk]]; [left; exact Hk| |right; right; exact Hk]. subst kc. cbn in Hkey. congruence.
    - (* PSockClose *)
      cbn [resp_step]. destruct (kget 0%N (rs_ctxs s)) as [cx|] eqn:EL.
      2:{ cbn [fst]. split; [apply pstep_other; intros; discriminate|].
          intros kc Hk. split; [exact Hk|]. split; [intros; discriminate|].
          intros _ E2. apply (kget_none_notin' _ _ EL). rewrite <- E2.
          apply in_map. unfold sal' in Hk. apply filter_In in Hk. apply Hk. }
      destruct (rctx_close s 0%N cx) as [s1 o1] eqn:ECL.
      destruct (rctx_close_spec _ _ _ _ _ HC EL ECL) as (l1 & l2 & E1 & E3 & E4 & _).
      cbn [fst]. split.
      + destruct E4 as [-> | ->]; [apply pstep_other|apply pstep_unqueue]; intros; discriminate.
      + intros kc Hk. unfold sal' in Hk. apply filter_In in Hk. destruct Hk as [Hk P]. rewrite E3 in Hk.
        rewrite E1 in K. rewrite map_app in K. cbn [map fst] in K. pose proof (NoDup_remove_2 _ _ _ K) as Hn.
        assert (Hin : In kc l1 \/ In kc l2).
        { apply in_app_or in Hk. destruct Hk as [Hk|[Hk|Hk]]; auto. subst kc. discriminate P. }
        split; [|split; [intros; discriminate|]].
        * unfold sal'. apply filter_In. split; [|exact P]. rewrite E1. apply in_or_app. destruct Hin; [left|right; right]; assumption.
        * intros _ E2. apply Hn. rewrite <- E2. apply in_or_app. destruct Hin as [H|H]; [left|right]; apply in_map; exact H.
  Qed.

  Lemma resp_close_run fx (Hfx : rf_sbusy fx = true) l : forallb rclosing l = true -> forall s, SInv s ->
    SInv (run (resp_step fx) s l) /\
    (forall p x, In (p, x) (rs_pipes (run (resp_step fx) s l)) -> exists x0, In (p, x0) (rs_pipes s) /\
       (rp_rmsg x = rp_rmsg x0 \/ rp_rmsg x = []) /\ (rp_held x = rp_held x0 \/ rp_held x = []) /\
       (In (PPipeClose p) l -> rp_rmsg x = []) /\ (In (PSendDone p E_CLOSED) l -> rp_held x = [])) /\
    (forall kc, In kc (sal' (rs_ctxs (run (resp_step fx) s l))) -> In kc (sal' (rs_ctxs s)) /\
                (forall c, In (PCtxClose c) l -> fst kc <> (c + 1)%N) /\ (In PSockClose l -> fst kc <> 0%N)).
  Proof.
    induction l as [|o l IH]; intros Hl s HI; cbn [run forallb] in *.
    - split; [exact HI|]. split.
      + intros p x Hx. exists x. split; [exact Hx|]. split; [auto|]. split; [auto|]. split; intros [].
      + intros kc Hk. split; [exact Hk|]. split; [intros c []|intros []].
    - apply andb_true_iff in Hl. destruct Hl as [Ho Hl].
      destruct (resp_close_step fx s o Hfx HI Ho) as (I1 & P1 & C1).
      destruct (IH Hl _ I1) as (I2 & P2 & C2).
      split; [exact I2|]. split.
      + intros p x Hx. destruct (P2 p x Hx) as (x1 & A1 & B1 & D1 & F1 & G1).
        destruct (P1 p x1 A1) as (x0 & A0 & B0 & D0 & F0 & G0).
        exists x0. split; [exact A0|]. split; [|split; [|split]].
        * destruct B1 as [B1|B1]; [rewrite B1; exact B0|auto].
        * destruct D1 as [D1|D1]; [rewrite D1; exact D0|auto].
        * intros [E|E]; [|exact (F1 E)]. destruct B1 as [B1|B1]; [rewrite B1; apply F0; exact E|exact B1].
        * intros [E|E]; [|exact (G1 E)]. destruct D1 as [D1|D1]; [rewrite D1; apply G0; exact E|exact D1].
      + intros kc Hk. destruct (C2 kc Hk) as (A & B & D). destruct (C1 kc A) as (A1 & B1 & D1). split; [exact A1|]. split.
        * intros c [E|E]; [exact (B1 _ E)|exact (B _ E)].
        * intros [E|E]; [exact (D1 E)|exact (D E)].
  Qed.

  (* the socket core's close sequence as resp0 sees it: every pipe the state knows gets its pipe_close
     and, if it has a message in flight, the failing completion of that send (NNG_ECLOSED); every
     context other than the socket's own (context c has key c + 1) is closed; then the socket's own
     close, which closes the socket's context (key 0) *)
  Definition resp_close_script (s : resp) : list pop :=
    flat_map (fun px => PPipeClose (fst px) :: if isnil (rp_held (snd px)) then [] else [PSendDone (fst px) E_CLOSED]) (rs_pipes s)
    ++ map (fun kc => PCtxClose (fst kc - 1)) (filter (fun kc => negb (N.eqb (fst kc) 0)) (rs_ctxs s))
    ++ [PSockClose].

  Lemma resp_script_closing s : forallb rclosing (resp_close_script s) = true.
  Proof.
    unfold resp_close_script. rewrite !forallb_app.
    rewrite forallb_map_true by (intros; reflexivity). cbn [forallb rclosing andb]. rewrite andb_true_r.
    induction (rs_pipes s) as [|[p x] l IH]; [reflexivity|]. cbn [flat_map fst snd].
    destruct (isnil (rp_held x)); cbn [app forallb rclosing andb]; [exact IH|]. change (E_CLOSED =? E_CLOSED)%N with true. exact IH.
  Qed.
  Lemma pheld_all_nil l : (forall p x, In (p, x) l -> rp_rmsg x = []) -> pheld l = [].
  Proof.
    induction l as [|[p x] l IH]; intros H; [reflexivity|]. unfold pheld. cbn [flat_map snd]. fold (pheld l).
    rewrite (H p x (or_introl eq_refl)), IH; [reflexivity|]. intros q y Hi. apply (H q y). right. exact Hi.
  Qed.
  Lemma ptx_all_nil l : (forall p x, In (p, x) l -> rp_held x = []) -> ptx l = [].
  Proof.
    induction l as [|[p x] l IH]; intros H; [reflexivity|]. unfold ptx. cbn [flat_map snd]. fold (ptx l).
    rewrite (H p x (or_introl eq_refl)), IH; [reflexivity|]. intros q y Hi. apply (H q y). right. exact Hi.
  Qed.

  Theorem resp_close_drains : forall fx s, rf_sbusy fx = true -> SInv s ->
    ops_ok (resp_step fx) resp_ok s (resp_close_script s) /\ drained view_resp (run (resp_step fx) s (resp_close_script s)).
  Proof.
    intros fx s Hfx HI. split.
    - apply ops_ok_rclosing; [apply resp_ok_closing|apply resp_script_closing].
    - destruct (resp_close_run fx Hfx _ (resp_script_closing s) s HI) as (_ & P & C).
      set (s' := run (resp_step fx) s (resp_close_script s)) in *.
      assert (INP : forall p x0, In (p, x0) (rs_pipes s) ->
                In (PPipeClose p) (resp_close_script s) /\ (rp_held x0 <> [] -> In (PSendDone p E_CLOSED) (resp_close_script s))).
      { intros p x0 Hi. unfold resp_close_script. split.
        - apply in_or_app. left. apply in_flat_map. exists (p, x0). split; [exact Hi|]. left. reflexivity.
        - intros Hne. apply in_or_app. left. apply in_flat_map. exists (p, x0). split; [exact Hi|]. cbn [fst snd].
          destruct (rp_held x0); [congruence|]. right. left. reflexivity. }
      assert (EH : pheld (rs_pipes s') = []).
      { apply pheld_all_nil. intros p x Hi. destruct (P p x Hi) as (x0 & A & _ & _ & F & _). apply F, (INP p x0 A). }
      assert (ES : ptx (rs_pipes s') = []).
      { apply ptx_all_nil. intros p x Hi. destruct (P p x Hi) as (x0 & A & _ & D & _ & G).
        destruct (rp_held x0) as [|m0 r0] eqn:E0; [destruct D; assumption|].
        apply G, (INP p x0 A). rewrite E0. discriminate. }
      assert (EC : sal' (rs_ctxs s') = []).
      { destruct (sal' (rs_ctxs s')) as [|kc r]; [reflexivity|]. exfalso. destruct (C kc (or_introl eq_refl)) as (A & B & D).
        destruct (N.eqb_spec (fst kc) 0) as [E0|E0].
        - apply D; [|exact E0]. unfold resp_close_script. apply in_or_app. right. apply in_or_app. right. left. reflexivity.
        - apply (B (fst kc - 1)%N); [|lia]. unfold resp_close_script. apply in_or_app. right. apply in_or_app. left.
          apply (in_map (fun kc => PCtxClose (fst kc - 1))). apply filter_In. unfold sal' in A. apply filter_In in A.
          split; [apply A|]. destruct (N.eqb_spec (fst kc) 0); [contradiction|reflexivity]. }
      unfold drained. cbn [view_resp VResp.view v_tx v_att v_held v_fini].
      change (flat_map (fun px => rp_rmsg (snd px)) (rs_pipes s')) with (pheld (rs_pipes s')).
      change (flat_map (fun px => map (fun m => (fst px, m)) (rp_held (snd px))) (rs_pipes s')) with (ptx (rs_pipes s')).
      rewrite EH, ES. split; [reflexivity|]. split; [apply attl_sal_nil', EC|apply Permutation_refl].
  Qed.

  (* the pinned form of resp0_ctx_send (no NNG_ESTATE while ctx->saio is queued): the second queued
     response overwrites ctx->saio (and enters the context twice in the pipe's list); the first
     response's reference is gone from the state and the ledger check fails at that step *)
  Definition rf_bad : resp_fix := mkRfix true true true false true true.
  Definition resp_bad_hist : list pop :=
    [PPipeStart 1%N PROTO_SURVEYOR;
     PRecvDone 1%N 0%N (mkPmsg [] [128; 0; 0; 1; 7]%N);
     PRecv None 10%N false;
     PSend None 11%N false (mkPmsg [] [42%N]);
     PRecvDone 1%N 0%N (mkPmsg [] [128; 0; 0; 2; 8]%N);
     PRecv None 12%N false;
     PSend None 13%N false (mkPmsg [] [43%N]);
     PRecvDone 1%N 0%N (mkPmsg [] [128; 0; 0; 3; 9]%N);
     PRecv None 14%N false;
     PSend None 15%N false (mkPmsg [] [44%N])].
  Theorem resp_law_refuted_pinned_sbusy : exists ops, replay_run view_resp (resp_step rf_bad) ls_init resp_init ops = None.
  Proof. exists resp_bad_hist. vm_compute. reflexivity. Qed.
  Lemma resp_bad_hist_prefix_ok :
    (exists r, replay_run view_resp (resp_step rf_bad) ls_init resp_init (removelast resp_bad_hist) = Some r) /\
    (exists r, replay_run view_resp (resp_step rfix_all) ls_init resp_init resp_bad_hist = Some r).
  Proof. split; vm_compute; eexists; reflexivity. Qed.
End RespClose.

Print Assumptions rep_close_drains.
Print Assumptions resp_close_drains.
Print Assumptions rep_law_refuted_pinned_saio.
Print Assumptions resp_law_refuted_pinned_sbusy.
