(* SizedFree: every free names the size of the allocation -- the models of the components
   that free sized blocks (src/core/lmq.c, msgqueue.c, idhash.c, message.c).

   What the models can say.  Three of the four models identify the size field of the C
   with the length of the modelled buffer (MsgModel: ch_cap c := length (ch_buf c);
   MsgqModel: mq_alloc q := length (mq_cells q); IdMapModel: id_cap m := length
   (id_entries m)): there "nni_free(buf, field x sizeof)" names the allocation's size BY
   CONSTRUCTION of the model, and the statement below is definitional; that the C keeps
   its separate field equal to the allocation is checked on the code by the accounting
   allocator (harness/wb_ledger.c: every free is compared with the recorded size).
   LmqModel keeps the field lmq_alloc separately from the ring (q_alloc / q_cells): there
   the statement is an invariant of every history, proved here:
     nni_lmq_resize:  nni_free(lmq->lmq_msgs, lmq->lmq_alloc x sizeof(pointer))
     the ring was allocated with nni_alloc(alloc x sizeof(pointer)), lmq_alloc = alloc;
     lmq_alloc = 0 means the inline two-cell buffer, which is never freed. *)
From Coq Require Import List Arith Lia NArith Bool.
From NngV Require Import Base.Ring Queue.LmqModel Queue.MsgqModel Msg.MsgModel IdMap.IdMapModel.
Import ListNotations.

(* the size nni_lmq_resize / nni_lmq_fini hand to nni_free, in cells, and the size of the ring they free *)
Definition lmq_free_cells (q : lmq) : nat := q_alloc q.
Definition lmq_sized (q : lmq) : Prop :=
  (q_alloc q = 0 /\ length (q_cells q) = 2) \/ (q_alloc q <> 0 /\ lmq_free_cells q = length (q_cells q)).

Lemma lmq_put_sized q x rv q' : lmq_sized q -> lmq_put q x = Some (rv, q') -> lmq_sized q'.
Proof.
  unfold lmq_put. intros H E. destruct (q_cap q <=? q_len q); [inversion E; subst; exact H|].
  unfold wr in E. destruct (q_put q <? length (q_cells q)); [|discriminate]. inversion E; subst.
  unfold lmq_sized, lmq_free_cells in *. cbn [q_alloc q_cells]. rewrite upd_length. exact H.
Qed.
Lemma lmq_get_sized q rv m q' : lmq_sized q -> lmq_get q = Some (rv, m, q') -> lmq_sized q'.
Proof.
  unfold lmq_get. intros H E. destruct (q_len q =? 0); [inversion E; subst; exact H|].
  destruct (rd (q_cells q) (q_get q)); [|discriminate]. inversion E; subst. exact H.
Qed.
Lemma lmq_get_n_sized k : forall q l q', lmq_sized q -> lmq_get_n q k = Some (l, q') -> lmq_sized q' /\ length l <= k.
Proof.
  induction k as [|k IH]; intros q l q' H E; cbn [lmq_get_n] in E.
  - inversion E; subst. split; [exact H|cbn; lia].
  - destruct (lmq_get q) as [[[rv [m|]] q1]|] eqn:G; [| |discriminate].
    + destruct (lmq_get_n q1 k) as [[l2 q2]|] eqn:G2; [|discriminate]. inversion E; subst.
      destruct (IH q1 l2 q' (lmq_get_sized _ _ _ _ H G) G2) as [A B]. split; [exact A|cbn; lia].
    + inversion E; subst. split; [eapply lmq_get_sized; eauto|cbn; lia].
Qed.
Lemma pow2ge_ge fuel : forall a cap, cap <= a + fuel -> 0 < a -> cap <= pow2ge fuel a cap /\ 0 < pow2ge fuel a cap.
Proof.
  induction fuel as [|f IH]; intros a cap H Ha; cbn [pow2ge]; [lia|].
  destruct (a <? cap) eqn:E; [apply IH; apply Nat.ltb_lt in E; lia|apply Nat.ltb_ge in E; lia].
Qed.

Lemma lmq_resize_sized fixed q cap fail rv q' fr :
  lmq_sized q -> lmq_resize fixed q cap fail = Some (rv, q', fr) -> lmq_sized q'.
Proof.
  unfold lmq_resize. intros H E. destruct fail; [inversion E; subst; exact H|].
  destruct (lmq_get_n q cap) as [[taken q1]|] eqn:G; [|discriminate].
  destruct (lmq_flush q1) as [[freed q2]|]; [|discriminate]. inversion E; subst.
  destruct (lmq_get_n_sized cap q taken q1 H G) as [_ Hl].
  destruct (pow2ge_ge cap 2 cap ltac:(lia) ltac:(lia)) as [Hge Hpos].
  right. unfold lmq_free_cells. cbn [q_alloc q_cells]. split; [lia|].
  rewrite app_length, repeat_length. lia.
Qed.

Theorem lmq_sized_free_matches_alloc : forall fixed ops q outs q',
  lmq_sized q -> lmq_run fixed q ops = Some (outs, q') -> lmq_sized q'.
Proof.
  intros fixed ops. induction ops as [|o ops IH]; intros q outs q' H E; cbn [lmq_run] in E.
  - inversion E; subst. exact H.
  - destruct (lmq_step fixed q o) as [[out q1]|] eqn:S; [|discriminate].
    destruct (lmq_run fixed q1 ops) as [[outs2 q2]|] eqn:R; [|discriminate]. inversion E; subst.
    eapply IH; [|exact R]. destruct o; cbn [lmq_step] in S.
    + destruct (lmq_put q x) as [[rv qq]|] eqn:P; [|discriminate]. inversion S; subst. eapply lmq_put_sized; eauto.
    + destruct (lmq_get q) as [[[rv m] qq]|] eqn:P; [|discriminate]. inversion S; subst. eapply lmq_get_sized; eauto.
    + destruct (lmq_flush q) as [[l qq]|] eqn:P; [|discriminate]. inversion S; subst.
      unfold lmq_flush in P. eapply lmq_get_n_sized; eauto.
    + destruct (lmq_resize fixed q cap fail) as [[[rv qq] l]|] eqn:P; [|discriminate]. inversion S; subst.
      eapply lmq_resize_sized; eauto.
Qed.
Theorem lmq_init_sized : forall fixed cap fail q, lmq_init fixed cap fail = Some q -> lmq_sized q.
Proof.
  intros fixed cap fail q E. unfold lmq_init in E.
  assert (H0 : lmq_sized (mkLmq 2 0 1 0 0 0 [0%N; 0%N])) by (left; split; reflexivity).
  destruct (2 <? cap).
  - destruct (lmq_resize fixed _ cap fail) as [[[rv qq] l]|] eqn:P; [|discriminate]. inversion E; subst.
    eapply lmq_resize_sized; eauto.
  - inversion E; subst. left. split; reflexivity.
Qed.

(* the other three models: the size field IS the length of the modelled buffer *)
Theorem msgq_free_size_is_alloc_size : forall q, mq_alloc q = length (mq_cells q).
Proof. reflexivity. Qed.
Theorem idmap_free_size_is_alloc_size : forall m, id_cap m = length (id_entries m).
Proof. reflexivity. Qed.
Theorem chunk_free_size_is_alloc_size : forall c, ch_cap c = length (ch_buf c).
Proof. reflexivity. Qed.
