(* OwnReq: the ledger law (property C03, Ledger/LedgerProofs.proto_law) of cooked REQ,
     src/sp/protocol/reqrep0/req.c   (Proto/ReqModel.req_step fx, view VReq.view fx).

   The law is stated for the repaired clone policy (fx_clone fx = true: req0_run_send_queue,
   req0_ctx_reset, req0_recv_cb and req0_pipe_close read the per-request snapshot of the resend
   time); the other three variant flags (fx_cancel, fx_stash, fx_rdclr) stay universally
   quantified.  With the pinned policy (fx_clone fx = false) the law is false:
   req_law_refuted_pinned replays a witness history of Proto/ReqProofs.v into the ledger.

   Contents: keyed-list sums (lookup / assoc_set / assoc_del); the weight of a context; the
   invariant ReqInv (keys of contexts unique; user aio ids unique across contexts; a queued send
   has its request and owns it; after transmission the context keeps a reference exactly when
   the request can be retried; the send queue has no duplicates and names live contexts that
   own their request; the retry queue names live contexts with retry enabled; a context on a
   pipe's list has no queued send; the ready pipes are distinct and have nothing in flight);
   the environment's contract req_ok; sum lemmas for req0_ctx_reset, req0_run_send_queue,
   req0_pipe_close's loop, req0_retry_cb's scan; the law; a history on which the contract
   holds. *)
From Coq Require Import List Arith NArith Bool ZArith Lia.
From NngV Require Import Proto.Common Proto.ReqRepBacktrace Proto.ReqModel Proto.ReqRepProofs
  Ledger.Ledger Ledger.LedgerProofs Ledger.LawTac Ledger.Views.
From NngV Require Proto.ReqProofs.
Import ListNotations.

Notation qs F l := (wsum (fun m => F (OProto, body m)) l).

(* ------------------------------------------------------------------ *)
(* keyed lists *)
Section Keyed.
  Context {A : Type}.
  Implicit Types (l : list (N * A)) (G : N * A -> nat).

  Lemma wsum_aset G k y l x : lookup k l = Some x -> wsum G l + G (k, y) = G (k, x) + wsum G (assoc_set k y l).
  Proof.
    induction l as [|[k' v] l IH]; cbn [lookup assoc_set]; [discriminate|].
    destruct (N.eqb_spec k' k); intros H.
    - inversion H; subst. rewrite !wsum_cons. lia.
    - rewrite !wsum_cons. specialize (IH H). lia.
  Qed.
  Lemma wsum_adel G k l x : NoDup (map fst l) -> lookup k l = Some x -> wsum G l = G (k, x) + wsum G (assoc_del k l).
  Proof.
    unfold assoc_del. induction l as [|[k' v] l IH]; cbn [lookup map fst filter]; intros Hn H; [discriminate|].
    inversion Hn; subst. destruct (N.eqb_spec k' k).
    - inversion H; subst. cbn [negb]. rewrite wsum_cons, (filter_keep_notin' k l H2). reflexivity.
    - cbn [negb]. rewrite !wsum_cons, (IH H3 H). lia.
  Qed.
  Lemma wsum_snoc {B} (G : B -> nat) (l : list B) z : wsum G (l ++ [z]) = wsum G l + G z.
  Proof. rewrite wsum_app, wsum_cons, wsum_nil. lia. Qed.
  Lemma wsum_plus {B} (f g : B -> nat) (l : list B) : wsum (fun x => f x + g x) l = wsum f l + wsum g l.
  Proof. induction l as [|x l IH]; [reflexivity|]. rewrite !wsum_cons, IH. lia. Qed.

  Lemma map_fst_aset k y l x : lookup k l = Some x -> map fst (assoc_set k y l) = map fst l.
  Proof.
    induction l as [|[k' v] l IH]; cbn [lookup assoc_set]; [discriminate|].
    destruct (N.eqb_spec k' k); intros H; cbn [map fst]; [congruence|]. now rewrite IH.
  Qed.
  Lemma lookup_aset_cases k y l k1 z :
    lookup k1 (assoc_set k y l) = Some z -> (k1 = k /\ z = y) \/ (k1 <> k /\ lookup k1 l = Some z).
  Proof.
    intros H. destruct (N.eq_dec k1 k) as [->|Hn].
    - rewrite lookup_assoc_set_same in H. inversion H. auto.
    - rewrite lookup_assoc_set_other in H by exact Hn. auto.
  Qed.
  Lemma lookup_snoc k v l k1 :
    lookup k1 (l ++ [(k, v)]) = match lookup k1 l with Some x => Some x | None => if N.eqb k k1 then Some v else None end.
  Proof.
    destruct (lookup k1 l) eqn:E.
    - now apply lookup_app_some.
    - rewrite lookup_app_none by exact E. reflexivity.
  Qed.
  Lemma in_lookup k v l : NoDup (map fst l) -> In (k, v) l -> lookup k l = Some v.
  Proof.
    induction l as [|[k' v'] l IH]; cbn [map fst lookup]; intros Hn Hi; [destruct Hi|]. inversion Hn; subst.
    destruct Hi as [E|Hi].
    - inversion E; subst. now rewrite N.eqb_refl.
    - destruct (N.eqb_spec k' k); [|auto]. subst. exfalso. apply H1. apply in_map_iff. exists (k, v). auto.
  Qed.
  Lemma nodup_adel k l : NoDup (map fst l) -> NoDup (map fst (assoc_del k l)).
  Proof.
    unfold assoc_del. induction l as [|[k' v] l IH]; cbn [map fst filter]; intros Hn; [constructor|].
    inversion Hn; subst. destruct (negb (k' =? k)%N); [|auto]. cbn [map fst]. constructor; [|auto].
    intros Hi. apply H1. apply in_map_iff in Hi. destruct Hi as [x [E Hx]]. apply filter_In in Hx.
    apply in_map_iff. exists x. tauto.
  Qed.
End Keyed.

Lemma nodup_remove_id k l : NoDup l -> NoDup (remove_id k l).
Proof. apply NoDup_filter. Qed.
Lemma notin_remove_id k l : ~ In k (remove_id k l).
Proof. intros H. apply in_remove_id in H. tauto. Qed.
Lemma in_plist_del p k k0 l : In (p, k) (plist_del k0 l) <-> In (p, k) l /\ k <> k0.
Proof.
  unfold plist_del. rewrite filter_In. cbn [snd]. split; intros [H1 H2]; split; auto.
  - apply negb_true_iff, N.eqb_neq in H2. auto.
  - apply negb_true_iff, N.eqb_neq. auto.
Qed.
Lemma first_on_in p l k : first_on p l = Some k -> In (p, k) l.
Proof.
  induction l as [|[q k'] l IH]; cbn [first_on]; [discriminate|].
  destruct (N.eqb_spec q p); intros H; [inversion H; subst; left; reflexivity|right; auto].
Qed.
Lemma find_ctx_in f l k c : find_ctx f l = Some (k, c) -> In (k, c) l /\ f c = true.
Proof.
  induction l as [|[k' c'] l IH]; cbn [find_ctx]; [discriminate|].
  destruct (f c') eqn:E; intros H.
  - inversion H; subst. split; [left; reflexivity|exact E].
  - destruct (IH H). split; [right|]; assumption.
Qed.
Lemma opt_is_true a o : opt_is a o = true <-> o = Some a.
Proof.
  unfold opt_is. destruct o as [b|]; [|split; discriminate].
  destruct (N.eqb_spec a b); split; intros H; congruence.
Qed.
Lemma in_fst_filter {B} (f : N * B -> bool) (l : list (N * B)) p : In p (map fst (filter f l)) -> In p (map fst l).
Proof. intros H. apply in_map_iff in H. destruct H as [x [E Hx]]. apply filter_In in Hx. apply in_map_iff. exists x. tauto. Qed.

(* ------------------------------------------------------------------ *)
Section Req.
  Variable fx : rfix.
  Hypothesis Hfx : fx_clone fx = true.
  Notation V := (VReq.view fx).

  Lemma retry_on_eq c : retry_on fx c = (0 <? cx_sretry c)%Z.
  Proof. unfold retry_on, eff_retry. now rewrite Hfx. Qed.

  (* ---------------- weights ---------------- *)
  Definition CW (F : owner * key -> nat) (c : rctx) : nat :=
    qs F (VReq.ctx_held c) + wsum (fun x => F (OAio (fst x), body (snd x))) (VReq.ctx_att c).
  Definition TXW (F : owner * key -> nat) (l : list (pid * pmsg)) : nat :=
    wsum (fun x => F (OPipe (fst x), body (snd x))) l.
  Definition CSW (F : owner * key -> nat) (cs : list (N * rctx)) : nat := wsum (fun kc => CW F (snd kc)) cs.
  Definition SW (F : owner * key -> nat) (s : req) : nat := CSW F (rq_ctxs s) + TXW F (rq_sending s).

  Lemma req_omega F s : w_omega F V s = SW F s.
  Proof.
    unfold w_omega, SW, CSW, TXW, CW. cbn [VReq.view v_held v_tx v_att].
    rewrite !wsum_flat_map, wsum_plus. lia.
  Qed.

  Definition req_w (F : owner * key -> nat) (c : rctx) : nat :=
    match cx_send c, cx_req c with
    | Some a, Some m => F (OAio a, body m)
    | None, Some m => if cx_owned c then F (OProto, body m) else 0
    | _, _ => 0
    end.
  Definition rep_w (F : owner * key -> nat) (c : rctx) : nat :=
    match cx_rep c with Some m => F (OProto, body m) | None => 0 end.
  Lemma CW_eq F c : CW F c = req_w F c + rep_w F c.
  Proof.
    unfold CW, req_w, rep_w, VReq.ctx_held, VReq.ctx_att, opt_list.
    destruct (cx_send c), (cx_req c), (cx_owned c), (cx_rep c); wnorm; cbn [fst snd]; lia.
  Qed.

  Lemma CSW_put F k c c' cs : lookup k cs = Some c -> CSW F (assoc_set k c' cs) + CW F c = CSW F cs + CW F c'.
  Proof. intros H. pose proof (wsum_aset (fun kc => CW F (snd kc)) k c' cs c H). cbn [snd] in *. unfold CSW. lia. Qed.
  Lemma CSW_del F k c cs : NoDup (map fst cs) -> lookup k cs = Some c -> CSW F cs = CW F c + CSW F (assoc_del k cs).
  Proof. intros Hn H. exact (wsum_adel (fun kc => CW F (snd kc)) k cs c Hn H). Qed.
  Lemma CSW_add F k c cs : CSW F (cs ++ [(k, c)]) = CSW F cs + CW F c.
  Proof. unfold CSW. now rewrite wsum_snoc. Qed.

  (* ---------------- the invariant ---------------- *)
  (* a context: a queued send has its request and the context owns it; once transmitted the
     pointer carries a reference exactly when the request can be retried *)
  Definition CI (c : rctx) : Prop :=
    (forall a, cx_send c = Some a -> cx_req c <> None /\ cx_owned c = true) /\
    (cx_send c = None -> cx_req c <> None -> cx_owned c = retry_on fx c).
  (* ... and is consistent with the queues that name it *)
  Definition cok (sq rq : list N) (pl : list (pid * N)) (k : N) (c : rctx) : Prop :=
    CI c /\
    (In k sq -> cx_req c <> None -> cx_owned c = true) /\
    (In k rq -> retry_on fx c = true) /\
    (forall p, In (p, k) pl -> cx_send c = None).
  (* user aio ids: a send aio belongs to one context; no aio is pending both as a receive and as a send *)
  Definition aio_ok (cs : list (N * rctx)) : Prop :=
    (forall k k' c c' a, lookup k cs = Some c -> lookup k' cs = Some c' ->
       cx_send c = Some a -> cx_send c' = Some a -> k = k') /\
    (forall k k' c c' a, lookup k cs = Some c -> lookup k' cs = Some c' ->
       cx_recv c = Some a -> cx_send c' = Some a -> False).
  Definition live (cs : list (N * rctx)) (ks : list N) : Prop := forall k, In k ks -> lookup k cs <> None.

  Definition InvC (cs : list (N * rctx)) (sq rq : list N) (pl : list (pid * N)) (rd : list pid) (sn : list (pid * pmsg)) : Prop :=
    NoDup (map fst cs) /\ aio_ok cs /\ (forall k c, lookup k cs = Some c -> cok sq rq pl k c) /\
    NoDup sq /\ live cs sq /\ live cs rq /\ live cs (map snd pl) /\
    NoDup rd /\ (forall p, In p rd -> ~ In p (map fst sn)).
  Definition ReqInv (s : req) : Prop :=
    InvC (rq_ctxs s) (rq_sendq s) (rq_retryq s) (rq_plist s) (rq_ready s) (rq_sending s).

  Definition fresh (a : aioid) (cs : list (N * rctx)) : Prop :=
    forall k c, lookup k cs = Some c -> cx_send c <> Some a /\ cx_recv c <> Some a.

  (* queues change: every name on the new queues was there before, or names a suitable context *)
  Lemma inv_q cs sq rq pl rd sn sq' rq' pl' :
    InvC cs sq rq pl rd sn -> NoDup sq' ->
    (forall k, In k sq' -> In k sq \/ exists c, lookup k cs = Some c /\ (cx_req c <> None -> cx_owned c = true)) ->
    (forall k, In k rq' -> In k rq \/ exists c, lookup k cs = Some c /\ retry_on fx c = true) ->
    (forall p k, In (p, k) pl' -> In (p, k) pl \/ exists c, lookup k cs = Some c /\ cx_send c = None) ->
    InvC cs sq' rq' pl' rd sn.
  Proof.
    intros (I1 & I2 & I3 & I4 & I5 & I6 & I7 & I8 & I9) Hn Hs Hr Hp.
    split; [exact I1|]. split; [exact I2|]. split.
    { intros k c Hk. destruct (I3 k c Hk) as (C1 & C2 & C3 & C4). split; [exact C1|]. split; [|split].
      - intros Hi. destruct (Hs k Hi) as [Ho|[c0 [E0 P0]]]; [auto|]. rewrite Hk in E0. inversion E0; subst. exact P0.
      - intros Hi. destruct (Hr k Hi) as [Ho|[c0 [E0 P0]]]; [auto|]. rewrite Hk in E0. inversion E0; subst. exact P0.
      - intros p Hi. destruct (Hp p k Hi) as [Ho|[c0 [E0 P0]]]; [eauto|]. rewrite Hk in E0. inversion E0; subst. exact P0. }
    split; [exact Hn|]. split; [|split; [|split]].
    - intros k Hi. destruct (Hs k Hi) as [Ho|[c0 [E0 _]]]; [auto|congruence].
    - intros k Hi. destruct (Hr k Hi) as [Ho|[c0 [E0 _]]]; [auto|congruence].
    - intros k Hi. apply in_map_iff in Hi. destruct Hi as [[p k'] [E Hi]]. cbn [snd] in E. subst k'.
      destruct (Hp p k Hi) as [Ho|[c0 [E0 _]]]; [|congruence]. apply I7. apply in_map_iff. exists (p, k). auto.
    - split; assumption.
  Qed.
  (* queues only lose names *)
  Lemma inv_shrink cs sq rq pl rd sn sq' rq' pl' :
    InvC cs sq rq pl rd sn -> NoDup sq' -> incl sq' sq -> incl rq' rq -> incl pl' pl -> InvC cs sq' rq' pl' rd sn.
  Proof. intros HI Hn H1 H2 H3. eapply inv_q; [exact HI|exact Hn| | | ]; intros; left; auto. Qed.
  Lemma inv_rs cs sq rq pl rd sn rd' sn' :
    InvC cs sq rq pl rd sn -> NoDup rd' -> (forall p, In p rd' -> ~ In p (map fst sn')) -> InvC cs sq rq pl rd' sn'.
  Proof. intros (I1 & I2 & I3 & I4 & I5 & I6 & I7 & I8 & I9) H1 H2. repeat (split; [assumption|]). assumption. Qed.

  (* a context is rewritten *)
  Lemma inv_put cs sq rq pl rd sn k c c' :
    InvC cs sq rq pl rd sn -> lookup k cs = Some c -> cok sq rq pl k c' ->
    (forall a, cx_send c' = Some a -> cx_send c = Some a \/ (fresh a cs /\ cx_recv c' <> Some a)) ->
    (forall a, cx_recv c' = Some a -> cx_recv c = Some a \/ (fresh a cs /\ cx_send c' <> Some a)) ->
    InvC (assoc_set k c' cs) sq rq pl rd sn.
  Proof.
    intros (I1 & [A1 A2] & I3 & I4 & I5 & I6 & I7 & I8 & I9) Hk Hc Hs Hr.
    assert (L : forall ks, live cs ks -> live (assoc_set k c' cs) ks).
    { intros ks H k1 Hi. destruct (N.eq_dec k1 k) as [->|Hn].
      - rewrite lookup_assoc_set_same. discriminate.
      - rewrite lookup_assoc_set_other by exact Hn. auto. }
    split; [rewrite (map_fst_aset k c' cs c Hk); exact I1|]. split; [split|].
    - intros k1 k2 c1 c2 a H1 H2 S1 S2.
      destruct (lookup_aset_cases _ _ _ _ _ H1) as [[-> ->]|[N1 L1]];
        destruct (lookup_aset_cases _ _ _ _ _ H2) as [[-> ->]|[N2 L2]]; auto.
      + destruct (Hs a S1) as [S|[Fr _]]; [exact (A1 _ _ _ _ _ Hk L2 S S2)|]. destruct (Fr _ _ L2). congruence.
      + destruct (Hs a S2) as [S|[Fr _]]; [exact (A1 _ _ _ _ _ L1 Hk S1 S)|]. destruct (Fr _ _ L1). congruence.
      + exact (A1 _ _ _ _ _ L1 L2 S1 S2).
    - intros k1 k2 c1 c2 a H1 H2 R1 S2.
      destruct (lookup_aset_cases _ _ _ _ _ H1) as [[-> ->]|[N1 L1]];
        destruct (lookup_aset_cases _ _ _ _ _ H2) as [[-> ->]|[N2 L2]].
      + destruct (Hr a R1) as [R|[_ X]]; [|congruence]. destruct (Hs a S2) as [S|[_ X]]; [|congruence].
        exact (A2 _ _ _ _ _ Hk Hk R S).
      + destruct (Hr a R1) as [R|[Fr _]]; [exact (A2 _ _ _ _ _ Hk L2 R S2)|]. destruct (Fr _ _ L2). congruence.
      + destruct (Hs a S2) as [S|[Fr _]]; [exact (A2 _ _ _ _ _ L1 Hk R1 S)|]. destruct (Fr _ _ L1). congruence.
      + exact (A2 _ _ _ _ _ L1 L2 R1 S2).
    - split.
      { intros k1 c1 H1. destruct (lookup_aset_cases _ _ _ _ _ H1) as [[-> ->]|[N1 L1]]; auto. }
      repeat (split; auto).
  Qed.
  (* the same context value semantically: only fields the invariant does not read change *)
  Lemma cok_ext sq rq pl k c c' :
    cx_send c' = cx_send c -> cx_req c' = cx_req c -> cx_owned c' = cx_owned c -> cx_sretry c' = cx_sretry c ->
    cok sq rq pl k c -> cok sq rq pl k c'.
  Proof.
    intros E1 E2 E3 E4 ([C1 C2] & C3 & C4 & C5). unfold cok, CI. rewrite !retry_on_eq in *. rewrite E1, E2, E3, E4.
    split; [split; [exact C1|exact C2]|]. split; [exact C3|]. split; [exact C4|exact C5].
  Qed.

  (* a context is removed (its name is on no queue) *)
  Lemma inv_del cs sq rq pl rd sn k :
    InvC cs sq rq pl rd sn -> ~ In k sq -> ~ In k rq -> ~ In k (map snd pl) ->
    InvC (assoc_del k cs) sq rq pl rd sn.
  Proof.
    intros (I1 & [A1 A2] & I3 & I4 & I5 & I6 & I7 & I8 & I9) N1 N2 N3.
    assert (L : forall ks, ~ In k ks -> live cs ks -> live (assoc_del k cs) ks).
    { intros ks Hn H k1 Hi. rewrite lookup_assoc_del_other by (intros ->; auto). auto. }
    split; [apply nodup_adel; exact I1|]. split; [split|].
    - intros k1 k2 c1 c2 a H1 H2. apply lookup_assoc_del_some in H1, H2. destruct H1, H2. eapply A1; eauto.
    - intros k1 k2 c1 c2 a H1 H2. apply lookup_assoc_del_some in H1, H2. destruct H1, H2. eapply A2; eauto.
    - split.
      { intros k1 c1 H1. apply lookup_assoc_del_some in H1. destruct H1. auto. }
      repeat (split; auto).
  Qed.
  (* a new, idle context is appended *)
  Lemma inv_add cs sq rq pl rd sn k c0 :
    InvC cs sq rq pl rd sn -> lookup k cs = None ->
    cx_send c0 = None -> cx_recv c0 = None -> cx_req c0 = None ->
    InvC (cs ++ [(k, c0)]) sq rq pl rd sn.
  Proof.
    intros (I1 & [A1 A2] & I3 & I4 & I5 & I6 & I7 & I8 & I9) Hk S0 R0 Q0.
    assert (X : forall k1 c1, lookup k1 (cs ++ [(k, c0)]) = Some c1 -> lookup k1 cs = Some c1 \/ (k1 = k /\ c1 = c0)).
    { intros k1 c1. rewrite lookup_snoc. destruct (lookup k1 cs); [auto|].
      destruct (N.eqb_spec k k1); [|discriminate]. intros E. inversion E. auto. }
    assert (L : forall ks, live cs ks -> live (cs ++ [(k, c0)]) ks).
    { intros ks H k1 Hi. rewrite lookup_snoc. specialize (H k1 Hi). destruct (lookup k1 cs); congruence. }
    split.
    { rewrite map_app. cbn [map fst]. apply nodup_snoc; [exact I1|]. now apply lookup_none_notin. }
    split; [split|].
    - intros k1 k2 c1 c2 a H1 H2 S1 S2.
      destruct (X _ _ H1) as [L1|[-> ->]]; [|congruence]. destruct (X _ _ H2) as [L2|[-> ->]]; [|congruence].
      exact (A1 _ _ _ _ _ L1 L2 S1 S2).
    - intros k1 k2 c1 c2 a H1 H2 R1 S2.
      destruct (X _ _ H1) as [L1|[-> ->]]; [|congruence]. destruct (X _ _ H2) as [L2|[-> ->]]; [|congruence].
      exact (A2 _ _ _ _ _ L1 L2 R1 S2).
    - split.
      { intros k1 c1 H1. destruct (X _ _ H1) as [L1|[-> ->]]; [auto|].
        split; [split; [intros a E; congruence|intros _ E; congruence]|].
        split; [intros Hi; exfalso; exact (I5 k Hi Hk)|]. split; [intros Hi; exfalso; exact (I6 k Hi Hk)|].
        intros p Hi. exact S0. }
      repeat (split; auto).
  Qed.

  (* ---------------- the environment's contract ---------------- *)
  (* an aio is submitted once at a time (not while it is pending as a send or a receive of some
     context); a cancellation carries an error; a pipe id is started once (it is neither ready nor
     has a send in flight); a send completion belongs to a send in flight; a context id is opened once *)
  Definition pending (a : aioid) (cs : list (N * rctx)) : bool :=
    existsb (fun kc => opt_is a (cx_send (snd kc)) || opt_is a (cx_recv (snd kc))) cs.
  Definition req_ok (s : req) (o : pop) : Prop :=
    match o with
    | PSend _ a _ _ | PRecv _ a _ => pending a (rq_ctxs s) = false
    | PCancel _ rv => rv <> 0%N
    | PPipeStart p _ => ~ In p (rq_ready s) /\ ~ In p (map fst (rq_sending s))
    | PSendDone p _ => In p (map fst (rq_sending s))
    | PCtxOpen c => ctx_get s (c + 1)%N = None
    | _ => True
    end.

  Lemma pending_fresh a cs : pending a cs = false -> fresh a cs.
  Proof.
    intros H k c Hk. apply lookup_in in Hk.
    assert (X : opt_is a (cx_send c) || opt_is a (cx_recv c) = false).
    { destruct (opt_is a (cx_send c) || opt_is a (cx_recv c)) eqn:E; [|reflexivity].
      assert (pending a cs = true) by (apply existsb_exists; exists (k, c); auto). congruence. }
    apply orb_false_iff in X. destruct X as [X1 X2].
    split; intros E; [rewrite (proj2 (opt_is_true a _) E) in X1|rewrite (proj2 (opt_is_true a _) E) in X2]; discriminate.
  Qed.

  (* ---------------- the key of a pending send aio ---------------- *)
  Notation atts cs := (flat_map (fun kc : N * rctx => VReq.ctx_att (snd kc)) cs).
  Lemma att_key_app a (l1 l2 : list (aioid * pmsg)) :
    att_key a (l1 ++ l2) = match att_key a l1 with Some x => Some x | None => att_key a l2 end.
  Proof. induction l1 as [|[b m] l1 IH]; cbn [app att_key]; [reflexivity|]. destruct (N.eqb b a); auto. Qed.
  Lemma att_key_some cs a k0 : att_key a (atts cs) = Some k0 ->
    exists k c m, In (k, c) cs /\ cx_send c = Some a /\ cx_req c = Some m /\ k0 = body m.
  Proof.
    induction cs as [|[k c] cs IH]; cbn [flat_map snd]; [discriminate|]. rewrite att_key_app.
    destruct (att_key a (VReq.ctx_att c)) eqn:E.
    - intros X. inversion X; subst. unfold VReq.ctx_att in E.
      destruct (cx_send c) as [b|] eqn:E1; [|discriminate]. destruct (cx_req c) as [m|] eqn:E2; [|discriminate].
      cbn [att_key] in E. destruct (N.eqb_spec b a); [|discriminate]. inversion E; subst.
      exists k, c, m. repeat split; auto. left. reflexivity.
    - intros X. destruct (IH X) as (k1 & c1 & m1 & Hi & R). exists k1, c1, m1. split; [right; exact Hi|exact R].
  Qed.
  Lemma att_key_none cs a k c m : att_key a (atts cs) = None -> In (k, c) cs -> cx_send c = Some a -> cx_req c = Some m -> False.
  Proof.
    induction cs as [|[k1 c1] cs IH]; cbn [flat_map snd]; intros H Hi S R; [destruct Hi|]. rewrite att_key_app in H.
    destruct (att_key a (VReq.ctx_att c1)) eqn:E; [discriminate|]. destruct Hi as [X|Hi]; [|eauto].
    inversion X; subst. unfold VReq.ctx_att in E. rewrite S, R in E. cbn [att_key] in E. rewrite N.eqb_refl in E. discriminate.
  Qed.
  Lemma att_key_ctx cs k c a m :
    NoDup (map fst cs) -> aio_ok cs -> lookup k cs = Some c -> cx_send c = Some a -> cx_req c = Some m ->
    att_key a (atts cs) = Some (body m).
  Proof.
    intros Hn [A1 _] Hk S R. destruct (att_key a (atts cs)) as [k0|] eqn:E.
    - destruct (att_key_some _ _ _ E) as (k1 & c1 & m1 & Hi & S1 & R1 & ->).
      apply (in_lookup _ _ _ Hn) in Hi. assert (k1 = k) by (eapply A1; eauto). subst k1.
      rewrite Hk in Hi. inversion Hi; subst. congruence.
    - exfalso. exact (att_key_none cs a k c m E (lookup_in _ _ _ Hk) S R).
  Qed.
  Lemma att_key_idle cs a : NoDup (map fst cs) -> (forall k c, lookup k cs = Some c -> cx_send c <> Some a) -> att_key a (atts cs) = None.
  Proof.
    intros Hn H. destruct (att_key a (atts cs)) as [k0|] eqn:E; [|reflexivity].
    destruct (att_key_some _ _ _ E) as (k1 & c1 & m1 & Hi & S1 & _). apply (in_lookup _ _ _ Hn) in Hi.
    exfalso. exact (H _ _ Hi S1).
  Qed.

  (* ---------------- what links an intermediate state of a step to its first state ---------------- *)
  (* a message that may be cloned: the first state holds it, or it was taken from a send aio that
     this step completes *)
  Definition good (s0 : req) (o : pop) (acc : list pout) (m : pmsg) : Prop :=
    In (body m) (map body (v_held V s0)) \/
    exists a, In (Complete a E_OK None) acc /\ send_key V s0 o a = Some (body m).
  Definition rel (s0 : req) (o : pop) (acc : list pout) (cs : list (N * rctx)) : Prop :=
    (forall k c m, lookup k cs = Some c -> cx_req c = Some m -> cx_owned c = true ->
       match cx_send c with Some a => send_key V s0 o a = Some (body m) | None => good s0 o acc m end) /\
    (forall k c ra, lookup k cs = Some c -> cx_recv c = Some ra -> send_key V s0 o ra = None).

  Lemma rel_put s0 o acc cs k c' :
    rel s0 o acc cs ->
    (forall m, cx_req c' = Some m -> cx_owned c' = true ->
       match cx_send c' with Some a => send_key V s0 o a = Some (body m) | None => good s0 o acc m end) ->
    (forall ra, cx_recv c' = Some ra -> send_key V s0 o ra = None) ->
    rel s0 o acc (assoc_set k c' cs).
  Proof.
    intros [R1 R2] H1 H2. split.
    - intros k1 c1 m Hk. destruct (lookup_aset_cases _ _ _ _ _ Hk) as [[-> ->]|[_ L]]; [apply H1|eapply R1; eauto].
    - intros k1 c1 ra Hk. destruct (lookup_aset_cases _ _ _ _ _ Hk) as [[-> ->]|[_ L]]; [apply H2|eapply R2; eauto].
  Qed.

  Lemma rel_init s o acc : ReqInv s -> req_ok s o -> rel s o acc (rq_ctxs s).
  Proof.
    intros (I1 & I2 & I3 & _) Hok.
    assert (Hne : forall c0 a0 nb m0 k c, o = PSend c0 a0 nb m0 -> lookup k (rq_ctxs s) = Some c ->
                    cx_send c <> Some a0 /\ cx_recv c <> Some a0).
    { intros c0 a0 nb m0 k c -> Hk. cbn [req_ok] in Hok. exact (pending_fresh _ _ Hok k c Hk). }
    split.
    - intros k c m Hk R O. destruct (cx_send c) as [a|] eqn:S.
      + assert (K : att_key a (v_att V s) = Some (body m)) by (cbn [v_att VReq.view]; eapply att_key_ctx; eauto).
        unfold send_key. destruct o; try exact K.
        destruct (N.eqb_spec a0 a); [|exact K]. subst. destruct (Hne _ _ _ _ _ _ eq_refl Hk). congruence.
      + left. apply in_map. cbn [v_held VReq.view]. apply in_flat_map. exists (k, c). split; [now apply lookup_in|].
        cbn [snd]. unfold VReq.ctx_held. rewrite S, O, R. left. reflexivity.
    - intros k c ra Hk R.
      assert (K : att_key ra (v_att V s) = None).
      { cbn [v_att VReq.view]. apply att_key_idle; [exact I1|]. intros k1 c1 H1 S1. destruct I2 as [_ A2]. exact (A2 _ _ _ _ _ Hk H1 R S1). }
      unfold send_key. destruct o; try exact K.
      destruct (N.eqb_spec a ra); [|exact K]. subst. destruct (Hne _ _ _ _ _ _ eq_refl Hk). congruence.
  Qed.

  (* ---------------- small pieces of output ---------------- *)
  Lemma arm_quiet F s o d :
    s_take F V s o (arm_out d) = 0 /\ s_del F V s o (arm_out d) = 0 /\ o_tx F (arm_out d) = 0 /\ o_rel F (arm_out d) = 0.
  Proof. destruct d; repeat split; reflexivity. Qed.

  (* ---------------- req0_ctx_reset ---------------- *)
  Definition reset_msgs (c : rctx) : list pmsg :=
    (match cx_req c with Some m => if retry_on fx c then [m] else [] | None => [] end) ++ opt_list (cx_rep c).
  Definition reset_ctx (c : rctx) : rctx :=
    mkRctx 0 (cx_recv c) (cx_send c) None None (cx_retry c) (cx_sretry c) (cx_rtime c) false false.
  Lemma ctx_reset_spec s k c :
    exists s2, ctx_reset fx s k c = (s2, reset_ctx c, map Free (reset_msgs c)) /\
      rq_ctxs s2 = rq_ctxs s /\ rq_sendq s2 = remove_id k (rq_sendq s) /\ rq_retryq s2 = remove_id k (rq_retryq s) /\
      rq_plist s2 = plist_del k (rq_plist s) /\ rq_ready s2 = rq_ready s /\ rq_sending s2 = rq_sending s.
  Proof.
    unfold ctx_reset. cbv zeta.
    match goal with |- exists s2, (?S, _, _) = _ /\ _ => exists S end.
    split.
    - f_equal. unfold reset_msgs, opt_list. destruct (cx_req c); [destruct (retry_on fx c)|]; destruct (cx_rep c); reflexivity.
    - destruct (cx_rid c =? 0)%N;
        match goal with |- context [if ?b then set_readable _ false else _] => destruct b end; cbn; repeat split; reflexivity.
  Qed.
  (* what it frees is what the context held (no send queued) *)
  Lemma reset_msgs_w F c : cx_send c = None -> CI c -> qs F (reset_msgs c) = CW F c.
  Proof.
    intros S [_ C2]. rewrite CW_eq. unfold reset_msgs, req_w, rep_w, opt_list. rewrite S.
    destruct (cx_req c) as [m|] eqn:R.
    - rewrite (C2 S) by discriminate. destruct (retry_on fx c), (cx_rep c); wnorm; lia.
    - destruct (cx_rep c); wnorm; lia.
  Qed.

  (* ---------------- req0_run_send_queue ---------------- *)
  Definition sent_ctx (c : rctx) : rctx :=
    mkRctx (cx_rid c) (cx_recv c) None (cx_req c) (cx_rep c) (cx_retry c) (cx_sretry c) (cx_rtime c) (cx_creset c)
           (if retry_on fx c then cx_owned c else false).

  Lemma run_sendq_ok s0 o acc : forall f s s' outs cl,
    ReqInv s -> rel s0 o acc (rq_ctxs s) -> incl outs acc -> run_sendq fx f s = (s', outs, cl) ->
    ReqInv s' /\ rel s0 o acc (rq_ctxs s') /\
    (forall F, SW F s + qs F cl + s_take F V s0 o outs + o_tx F outs = SW F s' + s_del F V s0 o outs + o_rel F outs) /\
    (forall m, In m cl -> good s0 o acc m).
  Proof.
    assert (T : forall s : req, ReqInv s -> rel s0 o acc (rq_ctxs s) ->
      ReqInv s /\ rel s0 o acc (rq_ctxs s) /\
      (forall F, SW F s + qs F [] + s_take F V s0 o [] + o_tx F [] = SW F s + s_del F V s0 o [] + o_rel F []) /\
      (forall m, In m (@nil pmsg) -> good s0 o acc m)).
    { intros s HI HR. split; [exact HI|]. split; [exact HR|]. split; [intros F; cbn [s_take s_del o_tx o_rel]; wnorm; lia|intros m []]. }
    induction f as [|f IH]; intros s s' outs cl HI HR Hacc H; cbn [run_sendq] in H.
    { inversion H; subst. now apply T. }
    destruct (rq_sendq s) as [|k sq] eqn:ES. { inversion H; subst. now apply T. }
    destruct (rq_ready s) as [|p rd] eqn:ER. { inversion H; subst. now apply T. }
    pose proof HI as HI0. unfold ReqInv in HI0. rewrite ES, ER in HI0.
    destruct HI0 as (I1 & I2 & I3 & I4 & I5 & I6 & I7 & I8 & I9).
    inversion I4 as [|? ? Hk_sq Hn_sq]; subst. inversion I8 as [|? ? Hp_rd Hn_rd]; subst.
    assert (HIsq : ReqInv (set_sendq s sq)).
    { unfold ReqInv. cbn [rq_ctxs rq_sendq rq_retryq rq_plist rq_ready rq_sending set_sendq]. rewrite ER.
      eapply inv_shrink; [unfold ReqInv in HI; rewrite ES, ER in HI; exact HI|exact Hn_sq|apply incl_tl, incl_refl|apply incl_refl|apply incl_refl]. }
    unfold ctx_get in H. destruct (lookup k (rq_ctxs s)) as [c|] eqn:EG.
    2:{ exfalso. apply (I5 k); [left; reflexivity|exact EG]. }
    destruct (cx_req c) as [m|] eqn:EM.
    2:{ exact (IH _ _ _ _ HIsq HR Hacc H). }
    cbv zeta in H.
    match type of H with context [run_sendq fx f ?X] => set (s6 := X) in * end.
    destruct (run_sendq fx f s6) as [[s7 o7] cl7] eqn:E7. inversion H; subst s' outs cl; clear H.
    assert (P1 : rq_ctxs s6 = assoc_set k (sent_ctx c) (rq_ctxs s)) by (subst s6; unfold sent_ctx; rewrite EM; destruct (retry_on fx c); destruct (is_nil rd); reflexivity).
    assert (P2 : rq_sendq s6 = sq) by (subst s6; unfold sent_ctx; destruct (retry_on fx c); destruct (is_nil rd); reflexivity).
    assert (P3 : rq_retryq s6 = if retry_on fx c then remove_id k (rq_retryq s) ++ [k] else rq_retryq s)
      by (subst s6; unfold sent_ctx; destruct (retry_on fx c); destruct (is_nil rd); reflexivity).
    assert (P4 : rq_plist s6 = plist_del k (rq_plist s) ++ [(p, k)]) by (subst s6; unfold sent_ctx; destruct (retry_on fx c); destruct (is_nil rd); reflexivity).
    assert (P5 : rq_ready s6 = rd) by (subst s6; unfold sent_ctx; destruct (retry_on fx c); destruct (is_nil rd); reflexivity).
    assert (P6 : rq_sending s6 = (p, m) :: assoc_del p (rq_sending s)) by (subst s6; unfold sent_ctx; destruct (retry_on fx c); destruct (is_nil rd); reflexivity).
    clearbody s6.
    destruct (I3 k c EG) as ([C1 C2] & C3 & C4 & C5).
    assert (Hown : cx_owned c = true) by (apply C3; [left; reflexivity|congruence]).
    assert (Hp : ~ In p (map fst (rq_sending s))) by (apply I9; left; reflexivity).
    assert (Hgood : retry_on fx c = true -> good s0 o acc m).
    { intros _. destruct HR as [R1 _]. specialize (R1 k c m EG EM Hown). destruct (cx_send c) as [a|] eqn:S; [|exact R1].
      right. exists a. split; [|exact R1]. apply Hacc. apply in_or_app. left. left. reflexivity. }
    assert (Hlk : lookup k (assoc_set k (sent_ctx c) (rq_ctxs s)) = Some (sent_ctx c)) by apply lookup_assoc_set_same.
    assert (HI6 : ReqInv s6).
    { unfold ReqInv. rewrite P1, P2, P3, P4, P5, P6.
      eapply inv_rs; [eapply inv_q; [eapply inv_put; [exact (HIsq)|exact EG| | |]| | | |]| |].
      - (* the rewritten context against the queues without k at the head *)
        cbn [rq_sendq rq_retryq rq_plist set_sendq]. split; [split|split; [|split]].
        + intros a E. discriminate E.
        + intros _ _. cbn [cx_owned sent_ctx]. change (retry_on fx (sent_ctx c)) with (retry_on fx c).
          rewrite Hown. destruct (retry_on fx c); reflexivity.
        + intros Hi. contradiction.
        + intros Hi. change (retry_on fx (sent_ctx c)) with (retry_on fx c). exact (C4 Hi).
        + intros q Hi. reflexivity.
      - intros a E. discriminate E.
      - intros a E. left. exact E.
      - exact Hn_sq.
      - intros k1 Hi. left. exact Hi.
      - intros k1 Hi. cbn [rq_retryq set_sendq]. destruct (retry_on fx c) eqn:RT; [|left; exact Hi].
        apply in_app_or in Hi. destruct Hi as [Hi|[<-|[]]]; [left; apply in_remove_id in Hi; tauto|].
        right. exists (sent_ctx c). split; [exact Hlk|exact RT].
      - intros q k1 Hi. cbn [rq_plist set_sendq]. apply in_app_or in Hi. destruct Hi as [Hi|[E|[]]].
        + left. apply in_plist_del in Hi. tauto.
        + inversion E; subst. right. exists (sent_ctx c). split; [exact Hlk|reflexivity].
      - exact Hn_rd.
      - intros q Hq. cbn [map fst]. intros [E|Hi]; [subst; contradiction|].
        apply in_fst_filter in Hi. revert Hi. apply I9. right. exact Hq. }
    assert (HR6 : rel s0 o acc (rq_ctxs s6)).
    { rewrite P1. apply rel_put; [exact HR| |].
      - intros m1 E O. cbn [cx_send cx_req cx_owned sent_ctx] in *. rewrite EM in E. inversion E; subst m1.
        destruct (retry_on fx c); [auto|discriminate].
      - intros ra E. cbn [cx_recv sent_ctx] in E. destruct HR as [_ R2]. eapply R2; eauto. }
    assert (Hacc7 : incl o7 acc).
    { intros x Hx. apply Hacc. apply in_or_app. right. right. exact Hx. }
    destruct (IH _ _ _ _ HI6 HR6 Hacc7 E7) as (J1 & J2 & J3 & J4).
    split; [exact J1|]. split; [exact J2|]. split.
    - intros F. specialize (J3 F). unfold SW in *. rewrite P1, P6 in J3.
      pose proof (CSW_put F k c (sent_ctx c) (rq_ctxs s) EG) as K1.
      unfold TXW in *. rewrite wsum_cons in J3. cbn [fst snd] in J3.
      unfold assoc_del in J3. rewrite (filter_keep_notin' p _ Hp) in J3.
      rewrite !CW_eq in K1. unfold req_w, rep_w in K1. cbn [cx_send cx_req cx_rep cx_owned sent_ctx] in K1. rewrite EM, Hown in K1.
      destruct (cx_send c) as [a|] eqn:S.
      + assert (K : send_key V s0 o a = Some (body m)).
        { destruct HR as [R1 _]. specialize (R1 k c m EG EM Hown). now rewrite S in R1. }
        wnorm. cbn [s_take s_del o_tx o_rel]. rewrite K. change (E_OK =? 0)%N with true. cbn iota.
        destruct (retry_on fx c); wnorm; lia.
      + wnorm. cbn [s_take s_del o_tx o_rel app]. destruct (retry_on fx c); wnorm; lia.
    - intros m1 Hi. apply in_app_or in Hi. destruct Hi as [Hi|Hi]; [|auto].
      destruct (retry_on fx c); [|destruct Hi]. destruct Hi as [<-|[]]. auto.
  Qed.

  Lemma run_send_queue_ok s0 o acc s s' outs cl :
    ReqInv s -> rel s0 o acc (rq_ctxs s) -> incl outs acc -> run_send_queue fx s = (s', outs, cl) ->
    ReqInv s' /\ rel s0 o acc (rq_ctxs s') /\
    (forall F, SW F s + qs F cl + s_take F V s0 o outs + o_tx F outs = SW F s' + s_del F V s0 o outs + o_rel F outs) /\
    (forall m, In m cl -> good s0 o acc m).
  Proof. unfold run_send_queue. apply run_sendq_ok. Qed.

  (* ---------------- segments of a step ---------------- *)
  (* from state s the step goes on to s', emitting outs and making the clones cl: the invariant and
     the link to the first state are kept, the references balance, the clones have a holder *)
  Definition seg (s0 : req) (o : pop) (acc : list pout) (s : req) (outs : list pout) (cl : list pmsg) (s' : req) : Prop :=
    ReqInv s' /\ rel s0 o acc (rq_ctxs s') /\
    (forall F, SW F s + qs F cl + s_take F V s0 o outs + o_tx F outs = SW F s' + s_del F V s0 o outs + o_rel F outs) /\
    (forall m, In m cl -> good s0 o acc m).
  Lemma seg_refl s0 o acc s : ReqInv s -> rel s0 o acc (rq_ctxs s) -> seg s0 o acc s [] [] s.
  Proof. intros HI HR. split; [exact HI|]. split; [exact HR|]. split; [intros F; cbn [s_take s_del o_tx o_rel]; wnorm; lia|intros m []]. Qed.
  Lemma seg_trans s0 o acc s o1 cl1 s1 o2 cl2 s2 :
    seg s0 o acc s o1 cl1 s1 -> seg s0 o acc s1 o2 cl2 s2 -> seg s0 o acc s (o1 ++ o2) (cl1 ++ cl2) s2.
  Proof.
    intros (_ & _ & A3 & A4) (B1 & B2 & B3 & B4). split; [exact B1|]. split; [exact B2|]. split.
    - intros F. specialize (A3 F). specialize (B3 F). wnorm. lia.
    - intros m Hi. apply in_app_or in Hi. destruct Hi; auto.
  Qed.
  Lemma run_send_queue_seg s0 o acc s s' outs cl :
    ReqInv s -> rel s0 o acc (rq_ctxs s) -> incl outs acc -> run_send_queue fx s = (s', outs, cl) -> seg s0 o acc s outs cl s'.
  Proof. apply run_send_queue_ok. Qed.

  Lemma incl_remove_id k l : incl (remove_id k l) l.
  Proof. intros x Hx. apply in_remove_id in Hx. tauto. Qed.
  Lemma incl_plist_del k l : incl (plist_del k l) l.
  Proof. intros [p x] Hx. apply in_plist_del in Hx. tauto. Qed.
  Lemma notin_plist_del k l : ~ In k (map snd (plist_del k l)).
  Proof. intros Hi. apply in_map_iff in Hi. destruct Hi as [[p x] [E Hi]]. cbn [snd] in E. subst x. apply in_plist_del in Hi. tauto. Qed.

  (* a context gives up its request and its queued send, and its name leaves the queues *)
  Lemma inv_reset cs sq rq pl rd sn k c c2 sq' rq' pl' :
    InvC cs sq rq pl rd sn -> lookup k cs = Some c ->
    NoDup sq' -> incl sq' sq -> incl rq' rq -> incl pl' pl -> ~ In k sq' -> ~ In k rq' -> ~ In k (map snd pl') ->
    cx_send c2 = None -> cx_req c2 = None -> (forall a, cx_recv c2 = Some a -> cx_recv c = Some a) ->
    InvC (assoc_set k c2 cs) sq' rq' pl' rd sn.
  Proof.
    intros HI Hk Hn H1 H2 H3 N1 N2 N3 S2 R2 Rv.
    eapply inv_put; [eapply inv_shrink; eassumption|exact Hk| | |].
    - split; [split|split; [|split]].
      + intros a E. congruence.
      + intros _ X. congruence.
      + intros Hi. contradiction.
      + intros Hi. contradiction.
      + intros p Hi. exact S2.
    - intros a E. congruence.
    - intros a E. left. auto.
  Qed.
  Lemma CW_ext F c c' :
    cx_send c' = cx_send c -> cx_req c' = cx_req c -> cx_owned c' = cx_owned c -> cx_rep c' = cx_rep c -> CW F c' = CW F c.
  Proof. intros E1 E2 E3 E4. rewrite !CW_eq. unfold req_w, rep_w. now rewrite E1, E2, E3, E4. Qed.
  Lemma CW_idle F c : cx_send c = None -> cx_req c = None -> cx_rep c = None -> CW F c = 0.
  Proof. intros E1 E2 E3. rewrite CW_eq. unfold req_w, rep_w. now rewrite E1, E2, E3. Qed.
  Lemma CI_ext c c' :
    cx_send c' = cx_send c -> cx_req c' = cx_req c -> cx_owned c' = cx_owned c -> cx_sretry c' = cx_sretry c -> CI c -> CI c'.
  Proof. intros E1 E2 E3 E4 [C1 C2]. unfold CI. rewrite !retry_on_eq in *. rewrite E1, E2, E3, E4. split; assumption. Qed.

  (* ---------------- req0_pipe_close: the walk over the pipe's list ---------------- *)
  Lemma pcl_ok s0 o acc p : forall f s s' outs cl,
    ReqInv s -> rel s0 o acc (rq_ctxs s) -> incl outs acc -> pipe_close_loop fx f s p = (s', outs, cl) ->
    seg s0 o acc s outs cl s'.
  Proof.
    induction f as [|f IH]; intros s s' outs cl HI HR Hacc H; cbn [pipe_close_loop] in H.
    { inversion H; subst. now apply seg_refl. }
    destruct (first_on p (rq_plist s)) as [k|] eqn:EF; [|inversion H; subst; now apply seg_refl].
    set (sa := set_plist s (plist_del k (rq_plist s))) in *.
    assert (HIa : ReqInv sa).
    { unfold ReqInv, sa. cbn [rq_ctxs rq_sendq rq_retryq rq_plist rq_ready rq_sending set_plist].
      eapply inv_shrink; [exact HI|exact (proj1 (proj2 (proj2 (proj2 HI))))|apply incl_refl|apply incl_refl|apply incl_plist_del]. }
    assert (EGa : ctx_get sa k = lookup k (rq_ctxs s)) by reflexivity. rewrite EGa in H. clear EGa.
    destruct (lookup k (rq_ctxs s)) as [c|] eqn:EG; [|exact (IH _ _ _ _ HIa HR Hacc H)].
    pose proof HI as (I1 & I2 & I3 & I4 & I5 & I6 & I7 & I8 & I9).
    destruct (I3 k c EG) as (CIc & C3 & C4 & C5).
    assert (ES : cx_send c = None) by (apply (C5 p), first_on_in, EF).
    (* what one turn of the loop does *)
    assert (Turn : forall s1 o1 cl1 rest, incl o1 acc -> seg s0 o acc s o1 cl1 s1 ->
              (let '(s2, o2, cl2) := pipe_close_loop fx f s1 p in (s2, o1 ++ o2, cl1 ++ cl2)) = (s', outs, cl) ->
              incl outs acc -> rest = tt -> seg s0 o acc s outs cl s').
    { intros s1 o1 cl1 rest Ho1 S1 H1 Hacc1 _.
      destruct (pipe_close_loop fx f s1 p) as [[s2 o2] cl2] eqn:E2. inversion H1; subst s' outs cl.
      eapply seg_trans; [exact S1|]. destruct S1 as (J1 & J2 & _). apply (IH _ _ _ _ J1 J2); [|exact E2].
      intros x Hx. apply Hacc1. apply in_or_app. right. exact Hx. }
    destruct (retry_on fx c) eqn:RT; cbn [negb] in H.
    - (* the request can be retried: back to the send queue *)
      destruct (cx_req c) as [m|] eqn:EM.
      2:{ apply (Turn sa [] [] tt); [intros x []| |exact H|exact Hacc|reflexivity].
          split; [exact HIa|]. split; [exact HR|]. split; [intros F; cbn [s_take s_del o_tx o_rel]; wnorm; change (SW F sa) with (SW F s); lia|intros x []]. }
      set (c' := mkRctx (cx_rid c) (cx_recv c) (cx_send c) (Some m) (cx_rep c) (cx_retry c) (cx_sretry c)
                        (after (rq_now sa) (eff_retry fx c)) (cx_creset c) (cx_owned c)) in *.
      assert (Hown : cx_owned c = true).
      { destruct CIc as [_ C2]. rewrite (C2 ES) by congruence. exact RT. }
      assert (HIb : ReqInv (ctx_put sa k c')).
      { unfold ReqInv, ctx_put. cbn [rq_ctxs rq_sendq rq_retryq rq_plist rq_ready rq_sending set_ctxs].
        eapply inv_put; [exact HIa|exact EG| | |].
        - eapply cok_ext; [| | | |eapply (proj1 (proj2 (proj2 HIa))); exact EG]; try reflexivity. cbn [cx_req c']. congruence.
        - intros a E. left. exact E.
        - intros a E. left. exact E. }
      assert (HRb : rel s0 o acc (rq_ctxs (ctx_put sa k c'))).
      { unfold ctx_put. cbn [rq_ctxs set_ctxs]. destruct HR as [R1 R2]. apply rel_put; [split; assumption| |].
        - intros m1 E O. cbn [cx_req cx_owned cx_send c'] in *. apply (R1 k c m1 EG); congruence.
        - intros ra E. exact (R2 k c ra EG E). }
      assert (Hsum : forall F, SW F (ctx_put sa k c') = SW F s).
      { intros F. unfold SW, ctx_put. cbn [rq_ctxs rq_sending set_ctxs sa set_plist].
        pose proof (CSW_put F k c c' (rq_ctxs s) EG) as K.
        rewrite (CW_ext F c c') in K by (try reflexivity; cbn [cx_req c']; congruence). lia. }
      destruct (has_id k (rq_sendq (ctx_put sa k c'))) eqn:EH.
      + apply (Turn (ctx_put sa k c') [] [] tt); [intros x []| |exact H|exact Hacc|reflexivity].
        split; [exact HIb|]. split; [exact HRb|]. split; [|intros x []].
        intros F. rewrite Hsum. cbn [s_take s_del o_tx o_rel]. wnorm. lia.
      + match type of H with context [run_send_queue fx ?X] => set (sb := X) in * end.
        destruct (run_send_queue fx sb) as [[s1 o1] cl1] eqn:E1.
        assert (Ho1 : incl o1 acc).
        { destruct (pipe_close_loop fx f s1 p) as [[s2 o2] cl2]. inversion H; subst outs.
          intros x Hx. apply Hacc. apply in_or_app. left. exact Hx. }
        apply (Turn s1 o1 cl1 tt); [exact Ho1| |exact H|exact Hacc|reflexivity].
        assert (HIc : ReqInv sb).
        { unfold ReqInv, sb. cbn [rq_ctxs rq_sendq rq_retryq rq_plist rq_ready rq_sending set_sendq].
          eapply inv_q; [exact HIb| | | |].
          - apply nodup_snoc; [exact (proj1 (proj2 (proj2 (proj2 HIb))))|]. apply has_id_false. exact EH.
          - intros k1 Hi. apply in_app_or in Hi. destruct Hi as [Hi|[<-|[]]]; [left; exact Hi|].
            right. exists c'. split; [unfold ctx_put; cbn [rq_ctxs set_ctxs]; apply lookup_assoc_set_same|]. intros _. exact Hown.
          - intros k1 Hi. left. exact Hi.
          - intros q k1 Hi. left. exact Hi. }
        destruct (run_send_queue_seg s0 o acc sb s1 o1 cl1 HIc HRb Ho1 E1) as (J1 & J2 & J3 & J4).
        split; [exact J1|]. split; [exact J2|]. split; [|exact J4].
        intros F. rewrite <- (J3 F). change (SW F sb) with (SW F (ctx_put sa k c')). rewrite Hsum. reflexivity.
    - (* no retry: the context is reset; a pending receive fails with NNG_ECONNRESET *)
      assert (Hq1 : NoDup (remove_id k (rq_sendq s))) by (apply nodup_remove_id; exact I4).
      destruct (cx_recv c) as [ra|] eqn:ERv.
      + match type of H with context [ctx_reset fx sa k ?C] =>
          set (cr := C) in *; destruct (ctx_reset_spec sa k cr) as (s2 & E & Q1 & Q2 & Q3 & Q4 & Q5 & Q6); rewrite E in H end.
        cbv beta iota zeta in H.
        match type of H with context [pipe_close_loop fx f ?X p] => set (s1 := X) in * end.
        apply (Turn s1 (Complete ra E_CONNRESET None :: map Free (reset_msgs cr)) [] tt); [|  |exact H|exact Hacc|reflexivity].
        { destruct (pipe_close_loop fx f s1 p) as [[s3 o3] cl3]. inversion H; subst outs.
          intros x Hx. apply Hacc. apply (in_or_app (Complete ra E_CONNRESET None :: map Free (reset_msgs cr)) o3 x). left. exact Hx. }
        split; [|split; [|split; [|intros x []]]].
        * unfold ReqInv, s1, ctx_put. cbn [rq_ctxs rq_sendq rq_retryq rq_plist rq_ready rq_sending set_ctxs].
          rewrite Q1, Q2, Q3, Q4, Q5, Q6. unfold sa. cbn [rq_ctxs rq_sendq rq_retryq rq_plist rq_ready rq_sending set_plist].
          eapply inv_reset; [exact HI|exact EG|exact Hq1|apply incl_remove_id|apply incl_remove_id| | | | | | |].
          -- eapply incl_tran; apply incl_plist_del.
          -- apply notin_remove_id.
          -- apply notin_remove_id.
          -- apply notin_plist_del.
          -- exact ES.
          -- reflexivity.
          -- intros a X. discriminate X.
        * unfold s1, ctx_put. cbn [rq_ctxs set_ctxs]. rewrite Q1. apply rel_put; [exact HR| |].
          -- intros m1 X. discriminate X.
          -- intros a X. discriminate X.
        * intros F. unfold SW, s1, ctx_put. cbn [rq_ctxs rq_sending set_ctxs]. rewrite Q1, Q6.
          unfold sa. cbn [rq_ctxs rq_sending set_plist].
          pose proof (CSW_put F k c (reset_ctx cr) (rq_ctxs s) EG) as K.
          rewrite (CW_idle F (reset_ctx cr)) in K by (try reflexivity; exact ES).
          assert (K2 : qs F (reset_msgs cr) = CW F c).
          { rewrite <- (CW_ext F c cr) by reflexivity. apply reset_msgs_w; [exact ES|].
            apply (CI_ext c cr); try reflexivity. exact CIc. }
          assert (K3 : send_key V s0 o ra = None) by (destruct HR as [_ R2]; exact (R2 k c ra EG ERv)).
          cbn [s_take s_del o_tx o_rel]. rewrite K3. wnorm. lia.
      + match type of H with context [ctx_reset fx sa k ?C] =>
          destruct (ctx_reset_spec sa k C) as (s2 & E & Q1 & Q2 & Q3 & Q4 & Q5 & Q6); rewrite E in H end.
        cbv beta iota zeta in H.
        match type of H with context [pipe_close_loop fx f ?X p] => set (s1 := X) in * end.
        apply (Turn s1 (map Free (reset_msgs c)) [] tt); [|  |exact H|exact Hacc|reflexivity].
        { destruct (pipe_close_loop fx f s1 p) as [[s3 o3] cl3]. inversion H; subst outs.
          intros x Hx. apply Hacc. apply in_or_app. left. exact Hx. }
        split; [|split; [|split; [|intros x []]]].
        * unfold ReqInv, s1, ctx_put. cbn [rq_ctxs rq_sendq rq_retryq rq_plist rq_ready rq_sending set_ctxs].
          rewrite Q1, Q2, Q3, Q4, Q5, Q6. unfold sa. cbn [rq_ctxs rq_sendq rq_retryq rq_plist rq_ready rq_sending set_plist].
          eapply inv_reset; [exact HI|exact EG|exact Hq1|apply incl_remove_id|apply incl_remove_id| | | | | | |].
          -- eapply incl_tran; apply incl_plist_del.
          -- apply notin_remove_id.
          -- apply notin_remove_id.
          -- apply notin_plist_del.
          -- exact ES.
          -- reflexivity.
          -- cbn [cx_recv reset_ctx]. intros a X. congruence.
        * unfold s1, ctx_put. cbn [rq_ctxs set_ctxs]. rewrite Q1. apply rel_put; [exact HR| |].
          -- intros m1 X. discriminate X.
          -- cbn [cx_recv reset_ctx]. intros a X. congruence.
        * intros F. unfold SW, s1, ctx_put. cbn [rq_ctxs rq_sending set_ctxs]. rewrite Q1, Q6.
          unfold sa. cbn [rq_ctxs rq_sending set_plist].
          match goal with |- context [assoc_set k ?C (rq_ctxs s)] => set (c2 := C) end.
          pose proof (CSW_put F k c c2 (rq_ctxs s) EG) as K.
          rewrite (CW_idle F c2) in K by (try reflexivity; exact ES).
          pose proof (reset_msgs_w F c ES CIc) as K2.
          wnorm. lia.
  Qed.

  (* ---------------- one step ---------------- *)
  Definition step_ok (s : req) (o : pop) (s' : req) (outs : list pout) (cl : list pmsg) : Prop :=
    ReqInv s' /\
    (forall F, SW F s + op_add F V s o + qs F cl + s_take F V s o outs + o_tx F outs
               = SW F s' + op_del F V s o + s_del F V s o outs + o_rel F outs) /\
    (forall m, In m cl -> good s o outs m).

  Lemma rc_quiet0 F s o (r : option aioid) rv :
    (forall ra, r = Some ra -> send_key V s o ra = None) ->
    let l := match r with Some ra => [Complete ra rv None] | None => [] end in
    s_take F V s o l = 0 /\ s_del F V s o l = 0 /\ o_tx F l = 0 /\ o_rel F l = 0.
  Proof. intros H. destruct r as [ra|]; cbn; [|auto]. rewrite (H ra eq_refl). auto. Qed.

  (* a request still waiting for a pipe goes back to its aio (supersede / cancel / close) *)
  Lemma unq_core s0 s o acc k c rv c1a c1b :
    ReqInv s -> rel s0 o acc (rq_ctxs s) -> lookup k (rq_ctxs s) = Some c -> rv <> 0%N ->
    cx_send c1a = None -> cx_req c1a = None -> cx_rep c1a = cx_rep c ->
    (cx_send c = None -> cx_send c1b = None) -> cx_req c1b = cx_req c -> cx_owned c1b = cx_owned c ->
    cx_rep c1b = cx_rep c -> cx_sretry c1b = cx_sretry c ->
    match cx_send c with
    | Some sa => CI c1a /\ forall F, s_take F V s0 o [Complete sa rv None] = 0 /\
                                      s_del F V s0 o [Complete sa rv None] + CW F c1a = CW F c
    | None => CI c1b /\ forall F, CW F c1b = CW F c
    end.
  Proof.
    intros HI [R1 _] EG Hrv A1 A2 A3 B1 B2 B3 B4 B5.
    destruct HI as (_ & _ & I3 & _). destruct (I3 k c EG) as ([C1 C2] & _).
    destruct (cx_send c) as [sa|] eqn:ES.
    - destruct (C1 sa eq_refl) as [Hq Ho]. destruct (cx_req c) as [m0|] eqn:EM; [|congruence].
      specialize (R1 k c m0 EG EM Ho). rewrite ES in R1. split.
      + split; [intros a X; congruence|intros _ X; congruence].
      + intros F. cbn [s_take s_del]. rewrite R1. destruct (N.eqb_spec rv 0); [contradiction|].
        rewrite !CW_eq. unfold req_w, rep_w. rewrite A1, A2, A3, ES, EM. split; lia.
    - split.
      + split; [intros a X; rewrite (B1 eq_refl) in X; discriminate|].
        intros _ X. rewrite B3, !retry_on_eq, B5. rewrite <- retry_on_eq. apply C2; [reflexivity|congruence].
      + intros F. rewrite !CW_eq. unfold req_w, rep_w. rewrite (B1 eq_refl), B2, B3, B4, ES. reflexivity.
  Qed.
  Lemma unq_facts s0 s o acc k c rv c1a c1b s1 c1 o2 :
    ReqInv s -> rel s0 o acc (rq_ctxs s) -> lookup k (rq_ctxs s) = Some c -> rv <> 0%N ->
    cx_send c1a = None -> cx_req c1a = None -> cx_rep c1a = cx_rep c ->
    (cx_send c = None -> cx_send c1b = None) -> cx_req c1b = cx_req c -> cx_owned c1b = cx_owned c ->
    cx_rep c1b = cx_rep c -> cx_sretry c1b = cx_sretry c ->
    (s1, c1, o2) = match cx_send c with
                   | Some sa => (set_sendq s (remove_id k (rq_sendq s)), c1a, [Complete sa rv None])
                   | None => (s, c1b, [])
                   end ->
    rq_ctxs s1 = rq_ctxs s /\ NoDup (rq_sendq s1) /\ incl (rq_sendq s1) (rq_sendq s) /\
    rq_retryq s1 = rq_retryq s /\ rq_plist s1 = rq_plist s /\ rq_ready s1 = rq_ready s /\ rq_sending s1 = rq_sending s /\
    cx_send c1 = None /\ CI c1 /\ (c1 = c1a \/ c1 = c1b) /\
    (forall F, s_take F V s0 o o2 = 0 /\ o_tx F o2 = 0 /\ o_rel F o2 = 0 /\ s_del F V s0 o o2 + CW F c1 = CW F c).
  Proof.
    intros HI HR EG Hrv A1 A2 A3 B1 B2 B3 B4 B5 EX.
    pose proof (unq_core s0 s o acc k c rv c1a c1b HI HR EG Hrv A1 A2 A3 B1 B2 B3 B4 B5) as K.
    pose proof (proj1 (proj2 (proj2 (proj2 HI)))) as I4.
    destruct (cx_send c) as [sa|] eqn:ES; inversion EX; subst s1 c1 o2; destruct K as [K1 K2].
    - cbn [rq_ctxs rq_sendq rq_retryq rq_plist rq_ready rq_sending set_sendq].
      do 10 (split; [first [reflexivity|apply nodup_remove_id; exact I4|apply incl_remove_id|exact A1|exact K1|left; reflexivity]|]).
      intros F. destruct (K2 F) as [K3 K4]. repeat split; auto.
    - do 10 (split; [first [reflexivity|exact I4|apply incl_refl|exact (B1 eq_refl)|exact K1|right; reflexivity]|]).
      intros F. cbn [s_take s_del o_tx o_rel]. repeat split; auto. apply K2.
  Qed.

  Ltac in_tail := let x := fresh "x" in let Hx := fresh "Hx" in
    intros x Hx; repeat (apply in_or_app; right); exact Hx.

  (* ---------------- PSend ---------------- *)
  Lemma ok_send s c0 a nb m s' outs cl :
    ReqInv s -> req_ok s (PSend c0 a nb m) -> req_stepL fx s (PSend c0 a nb m) = (s', outs, cl) ->
    step_ok s (PSend c0 a nb m) s' outs cl.
  Proof.
    intros HI Hok H. pose proof (rel_init s _ outs HI Hok) as HR. cbn [req_ok] in Hok. apply pending_fresh in Hok.
    cbn [req_stepL] in H. set (k := ckey c0) in *.
    assert (Fail : forall rv s1, rv <> 0%N -> s1 = s -> step_ok s (PSend c0 a nb m) s1 [Complete a rv None] []).
    { intros rv s1 Hrv ->. split; [exact HI|]. split; [|intros x []]. intros F. cbn [op_add op_del s_take s_del o_tx o_rel].
      rewrite send_key_self. destruct (N.eqb_spec rv 0); [contradiction|]. wnorm. lia. }
    unfold ctx_get in H. destruct (lookup k (rq_ctxs s)) as [c|] eqn:EG; [|inversion H; subst; apply Fail; [discriminate|reflexivity]].
    unfold req_ctx_send in H. destruct (rq_closed s); [inversion H; subst; apply Fail; [discriminate|reflexivity]|].
    clear Fail. cbv zeta in H.
    match type of H with (match ?X with _ => _ end) = _ => remember X as XX eqn:EX; destruct XX as [[s1 c1] o2] end.
    eapply unq_facts in EX; [|exact HI|exact HR|exact EG|discriminate|try reflexivity; auto..].
    destruct EX as (F1 & F2 & F3 & F4 & F5 & F6 & F7 & F8 & F9 & F10 & F11).
    assert (Rc1 : cx_recv c1 = None) by (destruct F10 as [->| ->]; reflexivity).
    assert (Sr1 : cx_sretry c1 = cx_sretry c) by (destruct F10 as [->| ->]; reflexivity).
    destruct (ctx_reset_spec s1 k c1) as (s2 & E & Q1 & Q2 & Q3 & Q4 & Q5 & Q6). rewrite E in H. cbv beta iota in H.
    pose proof HI as (I1 & I2 & I3 & I4 & I5 & I6 & I7 & I8 & I9).
    assert (Hrc : forall ra, cx_recv c = Some ra -> send_key V s (PSend c0 a nb m) ra = None).
    { intros ra X. destruct HR as [_ R2]. exact (R2 k c ra EG X). }
    (* the queues once the old request is gone *)
    assert (HIq : InvC (rq_ctxs s) (rq_sendq s2) (rq_retryq s2) (rq_plist s2) (rq_ready s) (rq_sending s)).
    { rewrite Q2, Q3, Q4, F4, F5. eapply inv_shrink; [exact HI|apply nodup_remove_id; exact F2| | |].
      - eapply incl_tran; [apply incl_remove_id|exact F3].
      - apply incl_remove_id.
      - apply incl_plist_del. }
    assert (Nq : ~ In k (rq_sendq s2) /\ ~ In k (rq_retryq s2) /\ ~ In k (map snd (rq_plist s2))).
    { rewrite Q2, Q3, Q4. split; [apply notin_remove_id|split; [apply notin_remove_id|apply notin_plist_del]]. }
    destruct Nq as (N1 & N2 & N3).
    assert (Hhead : forall F tail,
              s_take F V s (PSend c0 a nb m) ((match cx_recv c with Some ra => [Complete ra E_CANCELED None] | None => [] end)
                              ++ o2 ++ map Free (reset_msgs c1) ++ tail) = s_take F V s (PSend c0 a nb m) tail /\
              s_del F V s (PSend c0 a nb m) ((match cx_recv c with Some ra => [Complete ra E_CANCELED None] | None => [] end)
                              ++ o2 ++ map Free (reset_msgs c1) ++ tail) + CW F c1 = CW F c + s_del F V s (PSend c0 a nb m) tail /\
              o_tx F ((match cx_recv c with Some ra => [Complete ra E_CANCELED None] | None => [] end)
                              ++ o2 ++ map Free (reset_msgs c1) ++ tail) = o_tx F tail /\
              o_rel F ((match cx_recv c with Some ra => [Complete ra E_CANCELED None] | None => [] end)
                              ++ o2 ++ map Free (reset_msgs c1) ++ tail) = CW F c1 + o_rel F tail).
    { intros F tail. destruct (rc_quiet0 F s (PSend c0 a nb m) (cx_recv c) E_CANCELED Hrc) as (A1 & A2 & A3 & A4). cbv zeta in A1, A2, A3, A4.
      destruct (F11 F) as (D1 & D2 & D3 & D4). pose proof (reset_msgs_w F c1 F8 F9) as D5.
      wnorm. rewrite A1, A2, A3, A4, D1, D2, D3, D5. repeat split; lia. }
    (* the send is refused after the old request has been dropped *)
    assert (Refuse : forall s'' c2' rv, rv <> 0%N ->
              rq_ctxs s'' = assoc_set k c2' (rq_ctxs s2) -> rq_sendq s'' = rq_sendq s2 -> rq_retryq s'' = rq_retryq s2 ->
              rq_plist s'' = rq_plist s2 -> rq_ready s'' = rq_ready s2 -> rq_sending s'' = rq_sending s2 ->
              cx_send c2' = None -> cx_req c2' = None -> cx_rep c2' = None -> cx_recv c2' = None ->
              step_ok s (PSend c0 a nb m) s'' ((match cx_recv c with Some ra => [Complete ra E_CANCELED None] | None => [] end)
                               ++ o2 ++ map Free (reset_msgs c1) ++ [Complete a rv None]) []).
    { intros s'' c2' rv Hrv P1 P2 P3 P4 P5 P6 S2 R2 Rp2 Rv2. split; [|split; [|intros x []]].
      - unfold ReqInv. rewrite P1, P2, P3, P4, P5, P6, Q1, Q5, Q6, F1, F6, F7.
        eapply inv_put; [exact HIq|exact EG| | |].
        + split; [split; [intros b X; congruence|intros _ X; congruence]|].
          split; [intros X; contradiction|]. split; [intros X; contradiction|]. intros q X. exact S2.
        + intros b X. congruence.
        + intros b X. congruence.
      - intros F. destruct (Hhead F [Complete a rv None]) as (T1 & T2 & T3 & T4). rewrite T1, T3, T4.
        unfold SW. rewrite P1, P6, Q1, Q6, F1, F7.
        pose proof (CSW_put F k c c2' (rq_ctxs s) EG) as K. rewrite (CW_idle F c2' S2 R2 Rp2) in K.
        cbn [op_add op_del s_take s_del o_tx o_rel] in *. rewrite send_key_self in *.
        destruct (N.eqb_spec rv 0); [contradiction|]. wnorm. lia. }
    destruct (REQ_ID_MAX - REQ_ID_MIN <? N.of_nat (length (rq_ids s2)))%N.
    { inversion H; subst s' outs cl. eapply Refuse; [discriminate|reflexivity|reflexivity|reflexivity|reflexivity|reflexivity|reflexivity|..]; cbn [cx_send cx_req cx_rep cx_recv reset_ctx]; first [reflexivity|assumption]. }
    destruct (id_alloc (S (length (rq_ids s2))) (rq_ids s2) (rq_cursor s2)) as [[id cur']|].
    2:{ inversion H; subst s' outs cl. eapply Refuse; [discriminate|reflexivity|reflexivity|reflexivity|reflexivity|reflexivity|reflexivity|..]; cbn [cx_send cx_req cx_rep cx_recv reset_ctx]; first [reflexivity|assumption]. }
    destruct (is_nil (rq_ready s2) && nb).
    { inversion H; subst s' outs cl. eapply Refuse; [discriminate|reflexivity|reflexivity|reflexivity|reflexivity|reflexivity|reflexivity|..]; cbn [cx_send cx_req cx_rep cx_recv reset_ctx]; first [reflexivity|assumption]. }
    clear Refuse.
    (* accepted *)
    set (c3 := mkRctx id None (Some a) (Some (req_send id m)) None (cx_retry (reset_ctx c1)) (cx_retry (reset_ctx c1))
                      (if (0 <? cx_retry (reset_ctx c1))%Z then after (rq_now s2) (cx_retry (reset_ctx c1)) else cx_rtime (reset_ctx c1))
                      false true) in *.
    assert (Accept : forall s6 o4 s7 o5 cl5,
              rq_ctxs s6 = assoc_set k c3 (rq_ctxs s2) -> rq_sendq s6 = rq_sendq s2 ++ [k] ->
              rq_retryq s6 = (if (0 <? cx_retry (reset_ctx c1))%Z then rq_retryq s2 ++ [k] else rq_retryq s2) ->
              rq_plist s6 = rq_plist s2 -> rq_ready s6 = rq_ready s2 -> rq_sending s6 = rq_sending s2 ->
              (forall F, s_take F V s (PSend c0 a nb m) o4 = 0 /\ s_del F V s (PSend c0 a nb m) o4 = 0 /\ o_tx F o4 = 0 /\ o_rel F o4 = 0) ->
              run_send_queue fx s6 = (s7, o5, cl5) ->
              outs = (match cx_recv c with Some ra => [Complete ra E_CANCELED None] | None => [] end)
                       ++ o2 ++ map Free (reset_msgs c1) ++ o4 ++ o5 ->
              step_ok s (PSend c0 a nb m) s7 outs cl5).
    { intros s6 o4 s7 o5 cl5 P1 P2 P3 P4 P5 P6 Hq4 E5 Eouts.
      assert (Hlk : lookup k (assoc_set k c3 (rq_ctxs s)) = Some c3) by apply lookup_assoc_set_same.
      assert (HI6 : ReqInv s6).
      { unfold ReqInv. rewrite P1, P2, P3, P4, P5, P6, Q1, Q5, Q6, F1, F6, F7.
        eapply inv_q; [eapply inv_put; [exact HIq|exact EG| | |]| | | |].
        - split; [split; [intros b X; split; [discriminate|reflexivity]|intros X; discriminate X]|].
          split; [intros X; contradiction|]. split; [intros X; contradiction|]. intros q X. exfalso. apply N3.
          apply in_map_iff. exists (q, k). auto.
        - intros b X. right. inversion X; subst b. split; [exact Hok|discriminate].
        - intros b X. discriminate X.
        - apply nodup_snoc; [rewrite Q2; apply nodup_remove_id; exact F2|exact N1].
        - intros k1 Hi. apply in_app_or in Hi. destruct Hi as [Hi|[<-|[]]]; [left; exact Hi|].
          right. exists c3. split; [exact Hlk|reflexivity].
        - intros k1 Hi. destruct (0 <? cx_retry (reset_ctx c1))%Z eqn:RT; [|left; exact Hi].
          apply in_app_or in Hi. destruct Hi as [Hi|[<-|[]]]; [left; exact Hi|].
          right. exists c3. split; [exact Hlk|]. rewrite retry_on_eq. exact RT.
        - intros q k1 Hi. left. exact Hi. }
      assert (HR6 : rel s (PSend c0 a nb m) outs (rq_ctxs s6)).
      { rewrite P1, Q1, F1. apply rel_put; [exact HR| |].
        - intros m1 X _. cbn [cx_req cx_send c3] in *. inversion X; subst m1. change (body (req_send id m)) with (body m). apply send_key_self.
        - intros ra X. discriminate X. }
      assert (Hacc5 : incl o5 outs) by (rewrite Eouts; in_tail).
      destruct (run_send_queue_seg s (PSend c0 a nb m) outs s6 s7 o5 cl5 HI6 HR6 Hacc5 E5) as (J1 & J2 & J3 & J4).
      split; [exact J1|]. split; [|exact J4].
      intros F. specialize (J3 F). rewrite Eouts. destruct (Hhead F (o4 ++ o5)) as (T1 & T2 & T3 & T4). rewrite T1, T3, T4.
      destruct (Hq4 F) as (U1 & U2 & U3 & U4). wnorm. rewrite ?U1, ?U2, ?U3, ?U4 in *.
      unfold SW in *. rewrite P1, P6, Q1, Q6, F1, F7 in J3.
      pose proof (CSW_put F k c c3 (rq_ctxs s) EG) as K.
      assert (K3 : CW F c3 = F (OAio a, body m)) by (rewrite CW_eq; unfold c3, req_w, rep_w; cbn [cx_send cx_req cx_rep]; change (body (req_send id m)) with (body m); lia). rewrite K3 in K.
      cbn [op_add op_del]. lia. }
    destruct (0 <? cx_retry (reset_ctx c1))%Z eqn:RT; cbn [andb] in H.
    - match type of H with context [rq_active ?S] => destruct (rq_active S) end; cbn [negb] in H; cbv beta iota in H;
        match type of H with context [run_send_queue fx ?X] => destruct (run_send_queue fx X) as [[s7 o5] cl5] eqn:E5 end;
        injection H as E1 E2 E3; subst s' cl.
      + eapply (Accept _ []); [| | | | | | |exact E5|]; try reflexivity; [|symmetry; exact E2].
        intros F. cbn. auto.
      + eapply Accept; [| | | | | | |exact E5|]; try reflexivity; [|symmetry; exact E2].
        intros F. apply arm_quiet.
    - cbv beta iota in H.
      match type of H with context [run_send_queue fx ?X] => destruct (run_send_queue fx X) as [[s7 o5] cl5] eqn:E5 end.
      injection H as E1 E2 E3; subst s' cl.
      eapply (Accept _ []); [| | | | | | |exact E5|]; try reflexivity; [|symmetry; exact E2].
      intros F. cbn. auto.
  Qed.

  Lemma sk_fresh s o a :
    ReqInv s -> fresh a (rq_ctxs s) -> (forall c0 nb m0, o <> PSend c0 a nb m0) -> send_key V s o a = None.
  Proof.
    intros (I1 & _) Hf Ho.
    assert (K : att_key a (v_att V s) = None).
    { cbn [v_att VReq.view]. apply att_key_idle; [exact I1|]. intros k c Hk. exact (proj1 (Hf k c Hk)). }
    unfold send_key. destruct o; try exact K. destruct (N.eqb_spec a0 a); [|exact K]. subst. exfalso. eapply Ho. reflexivity.
  Qed.
  Lemma notin_adel {B} p (l : list (N * B)) : ~ In p (map fst (assoc_del p l)).
  Proof.
    intros Hi. apply in_map_iff in Hi. destruct Hi as [[q x] [E Hi]]. cbn [fst] in E. subst q.
    apply filter_In in Hi. destruct Hi as [_ Hi]. cbn [fst] in Hi. rewrite N.eqb_refl in Hi. discriminate.
  Qed.

  (* a context is rewritten in fields the invariant does not read (plus its receive aio, its reply) *)
  Lemma put_same s s'' k c c' :
    ReqInv s -> lookup k (rq_ctxs s) = Some c ->
    cx_send c' = cx_send c -> cx_req c' = cx_req c -> cx_owned c' = cx_owned c -> cx_sretry c' = cx_sretry c ->
    (forall a, cx_recv c' = Some a -> cx_recv c = Some a \/ (fresh a (rq_ctxs s) /\ cx_send c' <> Some a)) ->
    rq_ctxs s'' = assoc_set k c' (rq_ctxs s) -> rq_sendq s'' = rq_sendq s -> rq_retryq s'' = rq_retryq s ->
    rq_plist s'' = rq_plist s -> rq_ready s'' = rq_ready s -> rq_sending s'' = rq_sending s ->
    ReqInv s'' /\ (forall F, SW F s'' + rep_w F c = SW F s + rep_w F c').
  Proof.
    intros HI EG E1 E2 E3 E4 Hr P1 P2 P3 P4 P5 P6. split.
    - unfold ReqInv. rewrite P1, P2, P3, P4, P5, P6. eapply inv_put; [exact HI|exact EG| | |exact Hr].
      + eapply cok_ext; [exact E1|exact E2|exact E3|exact E4|]. exact (proj1 (proj2 (proj2 HI)) k c EG).
      + intros a X. left. congruence.
    - intros F. unfold SW. rewrite P1, P6. pose proof (CSW_put F k c c' (rq_ctxs s) EG) as K.
      rewrite !CW_eq in K. unfold req_w in K. rewrite E1, E2, E3 in K. lia.
  Qed.

  (* ---------------- PRecv ---------------- *)
  Lemma ok_recv s c0 a nb s' outs cl :
    ReqInv s -> req_ok s (PRecv c0 a nb) -> req_stepL fx s (PRecv c0 a nb) = (s', outs, cl) ->
    step_ok s (PRecv c0 a nb) s' outs cl.
  Proof.
    intros HI Hok H. cbn [req_ok] in Hok. apply pending_fresh in Hok.
    assert (K : send_key V s (PRecv c0 a nb) a = None) by (apply sk_fresh; [exact HI|exact Hok|intros; discriminate]).
    cbn [req_stepL] in H. set (k := ckey c0) in *. unfold ctx_get in H.
    assert (Quiet : forall rv, step_ok s (PRecv c0 a nb) s [Complete a rv None] []).
    { intros rv. split; [exact HI|split; [|intros x []]]. intros F. cbn [op_add op_del s_take s_del o_tx o_rel]. rewrite K. wnorm. lia. }
    destruct (lookup k (rq_ctxs s)) as [c|] eqn:EG; [|inversion H; subst; apply Quiet].
    destruct (req_ctx_recv s k c a nb) as [s1 o1] eqn:E. inversion H; subst s1 o1 cl. clear H.
    unfold req_ctx_recv in E.
    match type of E with (if ?b then _ else _) = _ => destruct b end.
    - destruct (cx_creset c); [|inversion E; subst; apply Quiet]. inversion E; subst s' outs; clear E.
      match goal with |- step_ok _ _ (ctx_put s k ?C) _ _ => set (c' := C) end.
      destruct (put_same s (ctx_put s k c') k c c' HI EG) as [J1 J2]; try reflexivity.
      { intros b X. left. exact X. }
      split; [exact J1|split; [|intros x []]]. intros F. specialize (J2 F).
      cbn [op_add op_del s_take s_del o_tx o_rel]. rewrite K. wnorm. change (rep_w F c') with (rep_w F c) in J2. lia.
    - destruct (cx_rep c) as [mr|] eqn:ER.
      + inversion E; subst s' outs; clear E.
        match goal with |- context [ctx_put s k ?C] => set (c' := C) end.
        destruct (put_same s (ctx_put s k c') k c c' HI EG) as [J1 J2]; try reflexivity.
        { intros b X. discriminate X. }
        split; [|split; [|intros x []]].
        * destruct (k =? 0)%N; exact J1.
        * intros F. specialize (J2 F). unfold rep_w in J2. rewrite ER in J2. cbn [cx_rep c'] in J2.
          assert (X : SW F (if (k =? 0)%N then set_readable (ctx_put s k c') false else ctx_put s k c') = SW F (ctx_put s k c'))
            by (destruct (k =? 0)%N; reflexivity).
          rewrite X. cbn [op_add op_del s_take s_del o_tx o_rel]. change (E_OK =? 0)%N with true. cbn iota. wnorm. lia.
      + destruct nb; [inversion E; subst; apply Quiet|]. inversion E; subst s' outs; clear E.
        match goal with |- step_ok _ _ (ctx_put s k ?C) _ _ => set (c' := C) end.
        destruct (put_same s (ctx_put s k c') k c c' HI EG) as [J1 J2]; try reflexivity.
        { intros b X. right. inversion X; subst b. split; [exact Hok|]. exact (proj1 (Hok k c EG)). }
        split; [exact J1|split; [|intros x []]]. intros F. specialize (J2 F).
        cbn [op_add op_del s_take s_del o_tx o_rel]. wnorm. unfold rep_w in J2. cbn [cx_rep c'] in J2. rewrite ER in J2. lia.
  Qed.

  (* ---------------- PSetOpt, PCtxOpen ---------------- *)
  Lemma ok_setopt s c0 op s' outs cl :
    ReqInv s -> req_stepL fx s (PSetOpt c0 op) = (s', outs, cl) -> step_ok s (PSetOpt c0 op) s' outs cl.
  Proof.
    intros HI H.
    assert (Same : forall s1 rv, rq_ctxs s1 = rq_ctxs s -> rq_sendq s1 = rq_sendq s -> rq_retryq s1 = rq_retryq s ->
              rq_plist s1 = rq_plist s -> rq_ready s1 = rq_ready s -> rq_sending s1 = rq_sending s ->
              step_ok s (PSetOpt c0 op) s1 [OptRv rv] []).
    { intros s1 rv P1 P2 P3 P4 P5 P6. split; [|split; [|intros x []]].
      - unfold ReqInv. rewrite P1, P2, P3, P4, P5, P6. exact HI.
      - intros F. unfold SW. rewrite P1, P6. cbn [op_add op_del s_take s_del o_tx o_rel]. wnorm. lia. }
    destruct op; destruct c0 as [k0|]; cbn [req_stepL] in H;
      repeat match type of H with (if ?b then _ else _) = _ => destruct b end;
      try (inversion H; subst s' outs cl; apply Same; reflexivity).
    all: unfold ctx_get in H; destruct (lookup _ (rq_ctxs s)) as [c|] eqn:EG; [|inversion H; subst s' outs cl; apply Same; reflexivity].
    all: inversion H; subst s' outs cl; clear H.
    all: match goal with |- context [ctx_put _ ?K ?C] => set (c' := C); set (k := K) in * end.
    all: destruct (put_same s (ctx_put s k c') k c c' HI EG) as [J1 J2]; try reflexivity; try (intros b X; left; exact X).
    all: split; [exact J1|split; [|intros x []]]; intros F; specialize (J2 F).
    all: cbn [op_add op_del s_take s_del o_tx o_rel]; wnorm; change (rep_w F c') with (rep_w F c) in J2.
    - lia.
    - change (SW F (set_retry (ctx_put s k c') ms)) with (SW F (ctx_put s k c')). lia.
  Qed.

  Lemma ok_ctxopen s k0 s' outs cl :
    ReqInv s -> req_ok s (PCtxOpen k0) -> req_stepL fx s (PCtxOpen k0) = (s', outs, cl) -> step_ok s (PCtxOpen k0) s' outs cl.
  Proof.
    intros HI Hok H. cbn [req_stepL] in H. inversion H; subst; clear H. cbn [req_ok] in Hok. unfold ctx_get in Hok.
    split; [|split; [|intros m []]].
    - unfold ReqInv. cbn [rq_ctxs rq_sendq rq_retryq rq_plist rq_ready rq_sending set_ctxs]. apply inv_add; [exact HI|exact Hok|reflexivity..].
    - intros F. unfold SW. cbn [rq_ctxs rq_sending set_ctxs op_add op_del s_take s_del o_tx o_rel].
      rewrite CSW_add. rewrite CW_idle by reflexivity. wnorm. lia.
  Qed.

  (* ---------------- req0_ctx_fini (PCtxClose, PSockClose) ---------------- *)
  Lemma fini_ok s0 s o acc k c s2 c2 outs :
    ReqInv s -> rel s0 o acc (rq_ctxs s) -> lookup k (rq_ctxs s) = Some c -> req_ctx_fini fx s k c = (s2, c2, outs) ->
    rq_ctxs s2 = rq_ctxs s /\ rq_sendq s2 = remove_id k (rq_sendq s) /\ rq_retryq s2 = remove_id k (rq_retryq s) /\
    rq_plist s2 = plist_del k (rq_plist s) /\ rq_ready s2 = rq_ready s /\ rq_sending s2 = rq_sending s /\
    cx_send c2 = None /\ cx_req c2 = None /\ cx_rep c2 = None /\ cx_recv c2 = None /\
    (forall F, s_take F V s0 o outs = 0 /\ o_tx F outs = 0 /\ s_del F V s0 o outs + o_rel F outs = CW F c).
  Proof.
    intros HI HR EG H. unfold req_ctx_fini in H. cbv zeta in H.
    assert (Hrc : forall ra, cx_recv c = Some ra -> send_key V s0 o ra = None).
    { intros ra X. destruct HR as [_ R2]. exact (R2 k c ra EG X). }
    pose proof (unq_core s0 s o acc k c E_CLOSED
                  (mkRctx (cx_rid c) None None None (cx_rep c) (cx_retry c) (cx_sretry c) (cx_rtime c) (cx_creset c) false)
                  (mkRctx (cx_rid c) None None (cx_req c) (cx_rep c) (cx_retry c) (cx_sretry c) (cx_rtime c) (cx_creset c) (cx_owned c))
                  HI HR EG) as K.
    specialize (K ltac:(discriminate) eq_refl eq_refl eq_refl (fun _ => eq_refl) eq_refl eq_refl eq_refl eq_refl).
    destruct (cx_send c) as [sa|] eqn:ES; destruct K as [K1 K2];
      match type of H with context [ctx_reset fx s k ?C] =>
        set (c1 := C) in *; destruct (ctx_reset_spec s k c1) as (s2' & E & Q1 & Q2 & Q3 & Q4 & Q5 & Q6); rewrite E in H end;
      inversion H; subst s2' c2 outs; clear H;
      (do 6 (split; [assumption|])); (do 4 (split; [reflexivity|]));
      intros F; destruct (rc_quiet0 F s0 o (cx_recv c) E_CLOSED Hrc) as (A1 & A2 & A3 & A4); cbv zeta in A1, A2, A3, A4;
      pose proof (reset_msgs_w F c1 eq_refl K1) as D5; wnorm; rewrite A1, A2, A3, A4.
    - change (Complete sa E_CLOSED None :: map Free (reset_msgs c1)) with ([Complete sa E_CLOSED None] ++ map Free (reset_msgs c1)).
      wnorm. destruct (K2 F) as [K3 K4]. rewrite K3. cbn [o_tx o_rel]. repeat split; lia.
    - specialize (K2 F). cbn [s_take s_del o_tx o_rel]. repeat split; lia.
  Qed.

  Lemma ok_ctxclose s k0 s' outs cl :
    ReqInv s -> req_stepL fx s (PCtxClose k0) = (s', outs, cl) -> step_ok s (PCtxClose k0) s' outs cl.
  Proof.
    intros HI H. pose proof (rel_init s (PCtxClose k0) outs HI I) as HR.
    cbn [req_stepL] in H. set (k := (k0 + 1)%N) in *. unfold ctx_get in H.
    destruct (lookup k (rq_ctxs s)) as [c|] eqn:EG.
    2:{ inversion H; subst. split; [exact HI|split; [|intros x []]]. intros F. cbn [op_add op_del s_take s_del o_tx o_rel]. wnorm. lia. }
    destruct (req_ctx_fini fx s k c) as [[s2 c2] o2] eqn:E. inversion H; subst s' outs cl. clear H.
    destruct (fini_ok s s _ _ k c s2 c2 o2 HI HR EG E) as (Q1 & Q2 & Q3 & Q4 & Q5 & Q6 & _ & _ & _ & _ & QF).
    pose proof HI as (I1 & _ & _ & I4 & _).
    split; [|split; [|intros x []]].
    - unfold ReqInv. cbn [rq_ctxs rq_sendq rq_retryq rq_plist rq_ready rq_sending set_ctxs]. rewrite Q1, Q2, Q3, Q4, Q5, Q6.
      apply inv_del; [|apply notin_remove_id|apply notin_remove_id|apply notin_plist_del].
      eapply inv_shrink; [exact HI|apply nodup_remove_id; exact I4|apply incl_remove_id|apply incl_remove_id|apply incl_plist_del].
    - intros F. destruct (QF F) as (T1 & T2 & T3). unfold SW. cbn [rq_ctxs rq_sending set_ctxs]. rewrite Q1, Q6.
      pose proof (CSW_del F k c (rq_ctxs s) I1 EG) as K. cbn [op_add op_del]. wnorm. lia.
  Qed.

  Lemma ok_sockclose s s' outs cl :
    ReqInv s -> req_stepL fx s PSockClose = (s', outs, cl) -> step_ok s PSockClose s' outs cl.
  Proof.
    intros HI H. pose proof (rel_init s PSockClose outs HI I) as HR.
    cbn [req_stepL] in H. set (sc := set_closed s true) in *.
    assert (HIc : ReqInv sc) by exact HI.
    assert (EGc : ctx_get sc 0%N = lookup 0%N (rq_ctxs s)) by reflexivity. rewrite EGc in H.
    destruct (lookup 0%N (rq_ctxs s)) as [c|] eqn:EG.
    2:{ inversion H; subst. split; [exact HI|split; [|intros x []]]. intros F.
        change (SW F sc) with (SW F s). cbn [op_add op_del s_take s_del o_tx o_rel]. wnorm. lia. }
    destruct (req_ctx_fini fx sc 0%N c) as [[s2 c2] o2] eqn:E. inversion H; subst s' outs cl. clear H.
    destruct (fini_ok s sc _ _ 0%N c s2 c2 o2 HIc HR EG E) as (Q1 & Q2 & Q3 & Q4 & Q5 & Q6 & S2 & R2 & Rp2 & Rv2 & QF).
    pose proof HI as (I1 & _ & _ & I4 & _).
    split; [|split; [|intros x []]].
    - unfold ReqInv, ctx_put. cbn [rq_ctxs rq_sendq rq_retryq rq_plist rq_ready rq_sending set_ctxs]. rewrite Q1, Q2, Q3, Q4, Q5, Q6.
      unfold sc. cbn [rq_ctxs rq_sendq rq_retryq rq_plist rq_ready rq_sending set_closed].
      eapply inv_reset; [exact HI|exact EG|apply nodup_remove_id; exact I4|apply incl_remove_id|apply incl_remove_id|apply incl_plist_del
                        |apply notin_remove_id|apply notin_remove_id|apply notin_plist_del|exact S2|exact R2|].
      intros b X. congruence.
    - intros F. destruct (QF F) as (T1 & T2 & T3). unfold SW, ctx_put. cbn [rq_ctxs rq_sending set_ctxs]. rewrite Q1, Q6.
      unfold sc. cbn [rq_ctxs rq_sending set_closed].
      pose proof (CSW_put F 0%N c c2 (rq_ctxs s) EG) as K. rewrite (CW_idle F c2 S2 R2 Rp2) in K.
      cbn [op_add op_del]. wnorm. lia.
  Qed.

  (* ---------------- PCancel ---------------- *)
  Lemma ok_cancel s a rv s' outs cl :
    ReqInv s -> req_ok s (PCancel a rv) -> req_stepL fx s (PCancel a rv) = (s', outs, cl) -> step_ok s (PCancel a rv) s' outs cl.
  Proof.
    intros HI Hok H. pose proof (rel_init s (PCancel a rv) outs HI Hok) as HR. cbn [req_ok] in Hok.
    pose proof HI as (I1 & I2 & I3 & I4 & I5 & I6 & I7 & I8 & I9).
    cbn [req_stepL] in H.
    destruct (find_ctx (fun c => opt_is a (cx_recv c)) (rq_ctxs s)) as [[k c]|] eqn:EFr.
    - (* a pending receive *)
      apply find_ctx_in in EFr. destruct EFr as [Hin Hrv]. apply opt_is_true in Hrv. apply (in_lookup _ _ _ I1) in Hin. rename Hin into EG.
      destruct (req_cancel_recv fx s k c a rv) as [s1' o1'] eqn:E. inversion H; subst s1' o1' cl. clear H.
      unfold req_cancel_recv in E.
      match type of E with (match ?X with _ => _ end) = _ => remember X as XX eqn:EX; destruct XX as [[s1 c1] o2] end.
      eapply (unq_facts s) in EX; [|exact HI|exact HR|exact EG|discriminate|try reflexivity; auto..].
      destruct EX as (F1 & F2 & F3 & F4 & F5 & F6 & F7 & F8 & F9 & F10 & F11).
      match type of E with context [ctx_reset fx s1 k ?C] =>
        set (c1' := C) in *; destruct (ctx_reset_spec s1 k c1') as (s2 & E2 & Q1 & Q2 & Q3 & Q4 & Q5 & Q6); rewrite E2 in E end.
      inversion E; subst s' outs; clear E.
      assert (Ka : send_key V s (PCancel a rv) a = None) by (destruct HR as [_ R2]; exact (R2 k c a EG Hrv)).
      split; [|split; [|intros x []]].
      + unfold ReqInv, ctx_put. cbn [rq_ctxs rq_sendq rq_retryq rq_plist rq_ready rq_sending set_ctxs].
        rewrite Q1, Q2, Q3, Q4, Q5, Q6, F1, F4, F5, F6, F7.
        eapply inv_reset; [exact HI|exact EG|apply nodup_remove_id; exact F2| |apply incl_remove_id|apply incl_plist_del
                          |apply notin_remove_id|apply notin_remove_id|apply notin_plist_del|exact F8|reflexivity|].
        * eapply incl_tran; [apply incl_remove_id|exact F3].
        * intros b X. discriminate X.
      + intros F. destruct (F11 F) as (D1 & D2 & D3 & D4).
        assert (D5 : qs F (reset_msgs c1') = CW F c1).
        { rewrite <- (CW_ext F c1 c1') by reflexivity. apply reset_msgs_w; [exact F8|]. apply (CI_ext c1 c1'); try reflexivity. exact F9. }
        unfold SW, ctx_put. cbn [rq_ctxs rq_sending set_ctxs]. rewrite Q1, Q6, F1, F7.
        pose proof (CSW_put F k c (reset_ctx c1') (rq_ctxs s) EG) as K.
        rewrite (CW_idle F (reset_ctx c1')) in K by (try reflexivity; exact F8).
        wnorm. cbn [op_add op_del s_take s_del o_tx o_rel]. rewrite Ka, D1, D2, D3. lia.
    - destruct (find_ctx (fun c => opt_is a (cx_send c)) (rq_ctxs s)) as [[k c]|] eqn:EFs.
      2:{ inversion H; subst. split; [exact HI|split; [|intros x []]]. intros F. cbn [op_add op_del s_take s_del o_tx o_rel]. wnorm. lia. }
      (* a queued send *)
      apply find_ctx_in in EFs. destruct EFs as [Hin Hsd]. apply opt_is_true in Hsd. apply (in_lookup _ _ _ I1) in Hin. rename Hin into EG.
      destruct (req_cancel_send fx s k c a rv) as [s1' o1'] eqn:E. inversion H; subst s1' o1' cl. clear H.
      unfold req_cancel_send in E.
      destruct (I3 k c EG) as ([C1 C2] & _). destruct (C1 a Hsd) as [Hq Ho]. destruct (cx_req c) as [m0|] eqn:EM; [|congruence].
      assert (Ka : send_key V s (PCancel a rv) a = Some (body m0)).
      { destruct HR as [R1 _]. specialize (R1 k c m0 EG EM Ho). now rewrite Hsd in R1. }
      assert (Hrc : forall ra, cx_recv c = Some ra -> send_key V s (PCancel a rv) ra = None).
      { intros ra X. destruct HR as [_ R2]. exact (R2 k c ra EG X). }
      assert (Fin : forall recv' o0, (recv' = None \/ recv' = cx_recv c) ->
                (forall F, s_take F V s (PCancel a rv) o0 = 0 /\ s_del F V s (PCancel a rv) o0 = 0 /\ o_tx F o0 = 0 /\ o_rel F o0 = 0) ->
                (let c1 := mkRctx (cx_rid c) recv' None None (cx_rep c) (cx_retry c) (cx_sretry c) (cx_rtime c) (cx_creset c) false in
                 let '(s2, c2, o2) := ctx_reset fx s k c1 in (ctx_put s2 k c2, o0 ++ o2 ++ [Complete a rv None])) = (s', outs) ->
                step_ok s (PCancel a rv) s' outs []).
      { intros recv' o0 Hrv' Hq0 E'. cbv zeta in E'.
        match type of E' with context [ctx_reset fx s k ?C] =>
          set (c1 := C) in *; destruct (ctx_reset_spec s k c1) as (s2 & E2 & Q1 & Q2 & Q3 & Q4 & Q5 & Q6); rewrite E2 in E' end.
        inversion E'; subst s' outs; clear E'.
        split; [|split; [|intros x []]].
        - unfold ReqInv, ctx_put. cbn [rq_ctxs rq_sendq rq_retryq rq_plist rq_ready rq_sending set_ctxs].
          rewrite Q1, Q2, Q3, Q4, Q5, Q6.
          eapply inv_reset; [exact HI|exact EG|apply nodup_remove_id; exact I4|apply incl_remove_id|apply incl_remove_id|apply incl_plist_del
                            |apply notin_remove_id|apply notin_remove_id|apply notin_plist_del|reflexivity|reflexivity|].
          cbn [cx_recv reset_ctx c1]. intros b X. destruct Hrv' as [->| ->]; [discriminate|exact X].
        - intros F. destruct (Hq0 F) as (U1 & U2 & U3 & U4).
          unfold SW, ctx_put. cbn [rq_ctxs rq_sending set_ctxs]. rewrite Q1, Q6.
          pose proof (CSW_put F k c (reset_ctx c1) (rq_ctxs s) EG) as K.
          rewrite (CW_idle F (reset_ctx c1)) in K by reflexivity.
          rewrite CW_eq in K. unfold req_w in K. rewrite Hsd, EM in K.
          assert (D5 : qs F (reset_msgs c1) = rep_w F c).
          { unfold reset_msgs, rep_w, opt_list. cbn [cx_req cx_rep c1]. destruct (cx_rep c); wnorm; lia. }
          wnorm. cbn [op_add op_del s_take s_del o_tx o_rel]. rewrite Ka, U1, U2, U3, U4.
          destruct (N.eqb_spec rv 0); [contradiction|]. lia. }
      destruct (fx_cancel fx).
      + eapply (Fin None); [left; reflexivity| |exact E]. intros F. apply rc_quiet0. exact Hrc.
      + eapply (Fin (cx_recv c) []); [right; reflexivity| |exact E]. intros F. cbn. auto.
  Qed.

  (* from a segment that starts in the first state of a step without add / del of the operation itself *)
  Lemma step_of_seg s o s' outs cl :
    (forall F, op_add F V s o = 0) -> (forall F, op_del F V s o = 0) ->
    seg s o outs s outs cl s' -> step_ok s o s' outs cl.
  Proof.
    intros Ha Hd (J1 & _ & J3 & J4). split; [exact J1|split; [|exact J4]].
    intros F. rewrite Ha, Hd. specialize (J3 F). lia.
  Qed.

  (* ---------------- PPipeStart ---------------- *)
  Lemma ok_pipestart s p peer s' outs cl :
    ReqInv s -> req_ok s (PPipeStart p peer) -> req_stepL fx s (PPipeStart p peer) = (s', outs, cl) ->
    step_ok s (PPipeStart p peer) s' outs cl.
  Proof.
    intros HI Hok H. pose proof (rel_init s (PPipeStart p peer) outs HI Hok) as HR. cbn [req_ok] in Hok. destruct Hok as [Hp1 Hp2].
    cbn [req_stepL] in H. destruct (negb (peer =? PROTO_REP)%N).
    { inversion H; subst. split; [exact HI|split; [|intros x []]]. intros F. cbn [op_add op_del s_take s_del o_tx o_rel]. wnorm. lia. }
    match type of H with context [run_send_queue fx ?X] => set (s1 := X) in * end.
    destruct (run_send_queue fx s1) as [[s2 o2] cl2] eqn:E. injection H as E1 E2 E3. subst s' cl.
    pose proof HI as (I1 & I2 & I3 & I4 & I5 & I6 & I7 & I8 & I9).
    assert (HI1 : ReqInv s1).
    { unfold ReqInv, s1. cbn [rq_ctxs rq_sendq rq_retryq rq_plist rq_ready rq_sending set_writable set_pipes].
      eapply inv_rs; [exact HI|apply nodup_snoc; assumption|].
      intros q Hq. apply in_app_or in Hq. destruct Hq as [Hq|[<-|[]]]; auto. }
    assert (Hacc : incl o2 outs) by (rewrite <- E2; intros x Hx; apply in_or_app; left; exact Hx).
    destruct (run_send_queue_seg s _ outs s1 s2 o2 cl2 HI1 HR Hacc E) as (J1 & J2 & J3 & J4).
    apply step_of_seg; [reflexivity|reflexivity|]. split; [exact J1|split; [exact J2|split; [|exact J4]]].
    intros F. specialize (J3 F). rewrite <- E2. change (SW F s1) with (SW F s) in J3. wnorm. cbn [s_take s_del o_tx o_rel]. lia.
  Qed.

  (* ---------------- PPipeClose ---------------- *)
  Lemma ok_pipeclose s p s' outs cl :
    ReqInv s -> req_stepL fx s (PPipeClose p) = (s', outs, cl) -> step_ok s (PPipeClose p) s' outs cl.
  Proof.
    intros HI H. pose proof (rel_init s (PPipeClose p) outs HI I) as HR.
    cbn [req_stepL] in H. cbv zeta in H.
    match type of H with pipe_close_loop fx _ ?X p = _ => set (s2 := X) in * end.
    pose proof HI as (I1 & I2 & I3 & I4 & I5 & I6 & I7 & I8 & I9).
    assert (HI2 : ReqInv s2).
    { assert (X : InvC (rq_ctxs s) (rq_sendq s) (rq_retryq s) (rq_plist s) (remove_id p (rq_ready s)) (rq_sending s)).
      { eapply inv_rs; [exact HI|apply nodup_remove_id; exact I8|]. intros q Hq. apply in_remove_id in Hq. apply I9. tauto. }
      unfold ReqInv, s2. match goal with |- context [if ?b then _ else _] => destruct b end; exact X. }
    assert (HR2 : rel s (PPipeClose p) outs (rq_ctxs s2)).
    { unfold s2. match goal with |- context [if ?b then _ else _] => destruct b end; exact HR. }
    assert (HS2 : forall F, SW F s2 = SW F s).
    { intros F. unfold s2. match goal with |- context [if ?b then _ else _] => destruct b end; reflexivity. }
    destruct (pcl_ok s (PPipeClose p) outs p _ s2 s' outs cl HI2 HR2 (incl_refl _) H) as (J1 & J2 & J3 & J4).
    apply step_of_seg; [reflexivity|reflexivity|]. split; [exact J1|split; [exact J2|split; [|exact J4]]].
    intros F. rewrite <- (J3 F), HS2. reflexivity.
  Qed.

  (* ---------------- PSendDone ---------------- *)
  Lemma ok_senddone s p rv s' outs cl :
    ReqInv s -> req_ok s (PSendDone p rv) -> req_stepL fx s (PSendDone p rv) = (s', outs, cl) ->
    step_ok s (PSendDone p rv) s' outs cl.
  Proof.
    intros HI Hok H. pose proof (rel_init s (PSendDone p rv) outs HI Hok) as HR. cbn [req_ok] in Hok.
    pose proof HI as (I1 & I2 & I3 & I4 & I5 & I6 & I7 & I8 & I9).
    cbn [req_stepL] in H. cbv zeta in H.
    set (s0 := set_sending s (assoc_del p (rq_sending s))) in *.
    assert (HI0 : ReqInv s0).
    { unfold ReqInv, s0. cbn [rq_ctxs rq_sendq rq_retryq rq_plist rq_ready rq_sending set_sending].
      eapply inv_rs; [exact HI|exact I8|]. intros q Hq Hi. apply in_fst_filter in Hi. exact (I9 q Hq Hi). }
    assert (HT : forall F, TXW F (rq_sending s) = wsum (fun m => F (OPipe p, body m)) (tx_of p (rq_sending s)) + TXW F (assoc_del p (rq_sending s))).
    { intros F. unfold TXW. rewrite wsum_tx_of. exact (wsum_filter_key (fun x => F (OPipe (fst x), body (snd x))) p (rq_sending s)). }
    assert (HS0 : forall F, SW F s = SW F s0 + wsum (fun m => F (OPipe p, body m)) (tx_of p (rq_sending s))).
    { intros F. unfold SW, s0. cbn [rq_ctxs rq_sending set_sending]. rewrite (HT F). lia. }
    destruct (N.eqb_spec rv 0) as [->|Hrv]; cbn [negb] in H.
    - (* the transport took the message *)
      match type of H with (if ?b then _ else _) = _ => destruct b end.
      { inversion H; subst s' outs cl. split; [exact HI0|split; [|intros x []]]. intros F. rewrite (HS0 F).
        cbn [op_add op_del s_take s_del o_tx o_rel v_tx VReq.view]. change (0 =? 0)%N with true. cbn iota. wnorm. lia. }
      match type of H with run_send_queue fx ?X = _ => set (s2 := X) in * end.
      assert (Hpr : ~ In p (rq_ready s)) by (intros X; exact (I9 p X Hok)).
      assert (X : InvC (rq_ctxs s) (rq_sendq s) (rq_retryq s) (rq_plist s) (rq_ready s ++ [p]) (assoc_del p (rq_sending s))).
      { eapply inv_rs; [exact HI|apply nodup_snoc; assumption|]. intros q Hq. apply in_app_or in Hq. destruct Hq as [Hq|[<-|[]]].
        - intros Hi. apply in_fst_filter in Hi. exact (I9 q Hq Hi).
        - apply notin_adel. }
      assert (HI2 : ReqInv s2).
      { unfold ReqInv, s2. match goal with |- context [if ?b then _ else _] => destruct b end; exact X. }
      assert (HR2 : rel s (PSendDone p 0) outs (rq_ctxs s2)).
      { unfold s2. match goal with |- context [if ?b then _ else _] => destruct b end; exact HR. }
      assert (HS2 : forall F, SW F s2 = SW F s0).
      { intros F. unfold s2. match goal with |- context [if ?b then _ else _] => destruct b end; reflexivity. }
      destruct (run_send_queue_seg s _ outs s2 s' outs cl HI2 HR2 (incl_refl _) H) as (J1 & J2 & J3 & J4).
      split; [exact J1|split; [|exact J4]]. intros F. specialize (J3 F). rewrite HS2 in J3. rewrite (HS0 F).
      cbn [op_add op_del v_tx VReq.view]. change (0 =? 0)%N with true. cbn iota. lia.
    - (* the transport failed: the message is ours again, and freed *)
      inversion H; subst s' outs cl. split; [exact HI0|split; [|intros x []]]. intros F. rewrite (HS0 F).
      cbn [op_add op_del v_tx VReq.view]. destruct (N.eqb_spec rv 0); [contradiction|].
      change (map snd (filter (fun x => (fst x =? p)%N) (rq_sending s))) with (tx_of p (rq_sending s)).
      wnorm. cbn [s_take s_del o_tx o_rel]. lia.
  Qed.

  (* ---------------- PRecvDone ---------------- *)
  Lemma ok_recvdone s p rv m s' outs cl :
    ReqInv s -> req_stepL fx s (PRecvDone p rv m) = (s', outs, cl) -> step_ok s (PRecvDone p rv m) s' outs cl.
  Proof.
    intros HI H. pose proof (rel_init s (PRecvDone p rv m) outs HI I) as HR.
    pose proof HI as (I1 & I2 & I3 & I4 & I5 & I6 & I7 & I8 & I9).
    cbn [req_stepL] in H.
    destruct (N.eqb_spec rv 0) as [->|Hrv]; cbn [negb] in H.
    2:{ inversion H; subst. split; [exact HI|split; [|intros x []]]. intros F. cbn [op_add op_del s_take s_del o_tx o_rel].
        destruct (N.eqb_spec rv 0); [contradiction|]. wnorm. lia. }
    assert (Drop : forall m' l, VReq.rx s p m = body m' -> l = [TranRecv p; Free m'] \/ l = [Free m'; ClosePipe p] ->
              step_ok s (PRecvDone p 0 m) s l []).
    { intros m' l Hx Hl. split; [exact HI|split; [|intros x []]]. intros F. cbn [op_add op_del v_rx VReq.view].
      change (0 =? 0)%N with true. cbn iota. rewrite Hx. destruct Hl as [->| ->]; cbn [s_take s_del o_tx o_rel]; wnorm; lia. }
    unfold VReq.rx in Drop.
    destruct (req_recv (pm_body m)) as [[id m']|] eqn:ERX; [|inversion H; subst; apply (Drop m); auto].
    destruct (lookup id (rq_ids s)) as [k|]; [|inversion H; subst; apply (Drop m'); auto].
    unfold ctx_get in H. destruct (lookup k (rq_ctxs s)) as [c|] eqn:EG; [|inversion H; subst; apply (Drop m'); auto].
    destruct (cx_send c) as [sa|] eqn:ES; cbn [orb] in H; [inversion H; subst; apply (Drop m'); auto|].
    destruct (cx_rep c) as [mr|] eqn:ERp; [inversion H; subst; apply (Drop m'); auto|].
    clear Drop. cbv zeta in H.
    destruct (I3 k c EG) as ([C1 C2] & C3 & C4 & C5).
    (* the matched context gives up its request and takes the reply *)
    assert (Match : forall s'' c' o1 tail,
              cx_send c' = None -> cx_req c' = None -> cx_recv c' = None -> cx_sretry c' = cx_sretry c ->
              rq_ctxs s'' = assoc_set k c' (rq_ctxs s) -> NoDup (rq_sendq s'') -> incl (rq_sendq s'') (rq_sendq s) ->
              incl (rq_retryq s'') (rq_retryq s) -> incl (rq_plist s'') (rq_plist s) ->
              rq_ready s'' = rq_ready s -> rq_sending s'' = rq_sending s ->
              o1 = match cx_req c with Some r => if retry_on fx c then [Free r] else [] | None => [] end ->
              (tail = [] /\ cx_rep c' = Some m') \/ (exists ra, tail = [Complete ra E_OK (Some m')] /\ cx_rep c' = None) ->
              step_ok s (PRecvDone p 0 m) s'' (TranRecv p :: o1 ++ tail) []).
    { intros s'' c' o1 tail S' R' Rv' Sr' P1 P2 P3 P4 P5 P6 P7 Ho1 Htail. split; [|split; [|intros x []]].
      - unfold ReqInv. rewrite P1, P6, P7. eapply inv_put; [eapply inv_shrink; [exact HI|exact P2|exact P3|exact P4|exact P5]|exact EG| | |].
        + split; [split; [intros b X; congruence|intros _ X; congruence]|].
          split; [intros _ X; congruence|]. split; [|intros q _; exact S'].
          intros Hi. rewrite retry_on_eq, Sr', <- retry_on_eq. apply C4, P4, Hi.
        + intros b X. congruence.
        + intros b X. congruence.
      - intros F. unfold SW. rewrite P1, P7. pose proof (CSW_put F k c c' (rq_ctxs s) EG) as K.
        rewrite !CW_eq in K. unfold req_w, rep_w in K. rewrite S', R', ES, ERp in K.
        assert (Ko : o_rel F o1 = (match cx_req c with Some r => if cx_owned c then F (OProto, body r) else 0 | None => 0 end)
                     /\ o_tx F o1 = 0 /\ s_take F V s (PRecvDone p 0 m) o1 = 0 /\ s_del F V s (PRecvDone p 0 m) o1 = 0).
        { subst o1. destruct (cx_req c) as [r|] eqn:EM; [|cbn; auto]. rewrite (C2 ES) by discriminate.
          destruct (retry_on fx c); cbn; auto. }
        destruct Ko as (K1 & K2 & K3 & K4).
        cbn [op_add op_del v_rx VReq.view]. unfold VReq.rx. rewrite ERX. change (0 =? 0)%N with true. cbn iota.
        change (TranRecv p :: o1 ++ tail) with ([TranRecv p] ++ o1 ++ tail). wnorm. rewrite K1, K2, K3, K4.
        destruct Htail as [[-> Hr]|[ra [-> Hr]]]; rewrite Hr in K; cbn [s_take s_del o_tx o_rel]; change (E_OK =? 0)%N with true; cbn iota; lia. }
    assert (Hq1 : forall l : list N, NoDup l -> NoDup (remove_id k l)) by (intros l; apply nodup_remove_id).
    assert (T1 : forall l : list N, incl (remove_id k l) l) by (intros l; apply incl_remove_id).
    assert (T2 : forall l : list (pid * N), incl (plist_del k l) l) by (intros l; apply incl_plist_del).
    assert (T3 : NoDup (remove_id k (rq_sendq s))) by (apply nodup_remove_id; exact I4).
    destruct (fx_stash fx); destruct (cx_recv c) as [ra|] eqn:ERv; inversion H; subst s' outs cl; clear H.
    - eapply Match; [| | | |reflexivity|..]; try reflexivity;
        cbn [rq_sendq rq_retryq rq_plist set_ids set_sendq set_plist set_retryq ctx_put set_ctxs];
        first [exact T3|apply T1|apply T2|apply incl_refl|right; exists ra; split; reflexivity].
    - match goal with |- step_ok _ _ _ ?L _ => replace L with (L ++ []) by apply app_nil_r end; rewrite <- app_comm_cons.
      eapply Match; [| | | |destruct (k =? 0)%N; reflexivity|..]; try reflexivity;
        try (destruct (k =? 0)%N; try reflexivity;
             cbn [rq_sendq rq_retryq rq_plist set_ids set_sendq set_plist set_retryq ctx_put set_ctxs set_readable];
             first [exact T3|apply T1|apply T2|apply incl_refl]).
      left; split; reflexivity.
    - eapply Match; [| | | |reflexivity|..]; try reflexivity;
        cbn [rq_sendq rq_retryq rq_plist set_ids set_sendq set_plist set_retryq ctx_put set_ctxs];
        first [exact T3|apply T1|apply T2|apply incl_refl|right; exists ra; split; reflexivity].
    - match goal with |- step_ok _ _ _ ?L _ => replace L with (L ++ []) by apply app_nil_r end; rewrite <- app_comm_cons.
      eapply Match; [| | | |destruct (k =? 0)%N; reflexivity|..]; try reflexivity;
        try (destruct (k =? 0)%N; try reflexivity;
             cbn [rq_sendq rq_retryq rq_plist set_ids set_sendq set_plist set_retryq ctx_put set_ctxs set_readable];
             first [exact T3|apply T1|apply T2|apply incl_refl]).
      left; split; reflexivity.
  Qed.

  (* ---------------- PTick: req0_retry_cb ---------------- *)
  (* the scan moves no message: it only names contexts of the retry queue that hold a request *)
  Lemma retry_scan_ok s now ks : forall sq sq' b,
    retry_scan s now ks sq = (sq', b) -> NoDup sq ->
    NoDup sq' /\ forall k, In k sq' -> In k sq \/ (In k ks /\ exists c, ctx_get s k = Some c /\ cx_req c <> None).
  Proof.
    induction ks as [|k0 ks IH]; intros sq sq' b H Hn; cbn [retry_scan] in H.
    - inversion H; subst. split; [exact Hn|]. intros k Hi. left. exact Hi.
    - assert (Skip : retry_scan s now ks sq = (sq', b) ->
                NoDup sq' /\ forall k, In k sq' -> In k sq \/ (In k (k0 :: ks) /\ exists c, ctx_get s k = Some c /\ cx_req c <> None)).
      { intros H1. destruct (IH _ _ _ H1 Hn) as [J1 J2]. split; [exact J1|]. intros k Hi.
        destruct (J2 k Hi) as [X|[X Y]]; [left; exact X|right; split; [right; exact X|exact Y]]. }
      destruct (ctx_get s k0) as [c0|] eqn:EG; [|exact (Skip H)].
      destruct ((now <? cx_rtime c0)%N || match cx_req c0 with None => true | Some _ => false end) eqn:EB; [exact (Skip H)|].
      clear Skip. apply orb_false_iff in EB. destruct EB as [_ EB].
      assert (Hq : cx_req c0 <> None) by (destruct (cx_req c0); [discriminate|discriminate EB]).
      destruct (retry_scan s now ks (if has_id k0 sq then sq else sq ++ [k0])) as [sq1 b1] eqn:E1. inversion H; subst sq' b.
      assert (Hn1 : NoDup (if has_id k0 sq then sq else sq ++ [k0])).
      { destruct (has_id k0 sq) eqn:EH; [exact Hn|]. apply nodup_snoc; [exact Hn|]. now apply has_id_false. }
      destruct (IH _ _ _ E1 Hn1) as [J1 J2]. split; [exact J1|]. intros k Hi.
      destruct (J2 k Hi) as [X|[X Y]]; [|right; split; [right; exact X|exact Y]].
      destruct (has_id k0 sq); [left; exact X|]. apply in_app_or in X. destruct X as [X|[<-|[]]]; [left; exact X|].
      right. split; [left; reflexivity|]. exists c0. split; [exact EG|exact Hq].
  Qed.

  Lemma ok_tick s now s' outs cl :
    ReqInv s -> req_stepL fx s (PTick now) = (s', outs, cl) -> step_ok s (PTick now) s' outs cl.
  Proof.
    intros HI H. pose proof (rel_init s (PTick now) outs HI I) as HR.
    pose proof HI as (I1 & I2 & I3 & I4 & I5 & I6 & I7 & I8 & I9).
    cbn [req_stepL] in H. cbv zeta in H. set (s0 := set_now s now) in *.
    assert (Idle : step_ok s (PTick now) s0 [] []).
    { split; [exact HI|split; [|intros x []]]. intros F. change (SW F s0) with (SW F s). cbn [op_add op_del s_take s_del o_tx o_rel]. wnorm. lia. }
    destruct (rq_closed s0 || negb (rq_active s0)); [inversion H; subst; exact Idle|].
    destruct (rq_tickdl s0) as [d|]; [|inversion H; subst; exact Idle].
    destruct (negb (d <? now)%N); [inversion H; subst; exact Idle|]. clear Idle.
    destruct (retry_scan s0 now (rq_retryq s0) (rq_sendq s0)) as [sq resched] eqn:ESc.
    destruct (retry_scan_ok s0 now _ _ _ _ ESc I4) as [Hn Hsq].
    (* the state with the rescanned send queue (and the timer re-armed or stopped) *)
    assert (HIx : InvC (rq_ctxs s) sq (rq_retryq s) (rq_plist s) (rq_ready s) (rq_sending s)).
    { eapply inv_q; [exact HI|exact Hn| | |].
      - intros k Hi. destruct (Hsq k Hi) as [X|[X [c [EG Hq]]]]; [left; exact X|]. right. exists c. split; [exact EG|]. intros _.
        destruct (I3 k c EG) as ([C1 C2] & _ & C4 & _). destruct (cx_send c) as [a|] eqn:ES; [exact (proj2 (C1 a eq_refl))|].
        rewrite (C2 eq_refl Hq). exact (C4 X).
      - intros k Hi. left. exact Hi.
      - intros q k Hi. left. exact Hi. }
    assert (Fin : forall s2 o1, rq_ctxs s2 = rq_ctxs s -> rq_sendq s2 = sq -> rq_retryq s2 = rq_retryq s -> rq_plist s2 = rq_plist s ->
              rq_ready s2 = rq_ready s -> rq_sending s2 = rq_sending s ->
              (forall F, s_take F V s (PTick now) o1 = 0 /\ s_del F V s (PTick now) o1 = 0 /\ o_tx F o1 = 0 /\ o_rel F o1 = 0) ->
              (if resched then let '(s3, o2, cl) := run_send_queue fx s2 in (s3, o1 ++ o2, cl) else (s2, o1, [])) = (s', outs, cl) ->
              step_ok s (PTick now) s' outs cl).
    { intros s2 o1 P1 P2 P3 P4 P5 P6 Hq1 H2.
      assert (HI2 : ReqInv s2) by (unfold ReqInv; rewrite P1, P2, P3, P4, P5, P6; exact HIx).
      assert (HS2 : forall F, SW F s2 = SW F s) by (intros F; unfold SW; now rewrite P1, P6).
      destruct resched.
      - destruct (run_send_queue fx s2) as [[s3 o2] cl3] eqn:E3. injection H2 as E1 E2 E4. subst s' cl.
        assert (HR2 : rel s (PTick now) outs (rq_ctxs s2)) by (rewrite P1; exact HR).
        assert (Hacc : incl o2 outs) by (rewrite <- E2; intros x Hx; apply in_or_app; right; exact Hx).
        destruct (run_send_queue_seg s _ outs s2 s3 o2 cl3 HI2 HR2 Hacc E3) as (J1 & J2 & J3 & J4).
        split; [exact J1|split; [|exact J4]]. intros F. specialize (J3 F). rewrite HS2 in J3. destruct (Hq1 F) as (U1 & U2 & U3 & U4).
        rewrite <- E2. cbn [op_add op_del]. wnorm. rewrite U1, U2, U3, U4. lia.
      - inversion H2; subst s' outs cl. split; [exact HI2|split; [|intros x []]]. intros F. rewrite HS2. destruct (Hq1 F) as (U1 & U2 & U3 & U4).
        cbn [op_add op_del]. wnorm. rewrite U1, U2, U3, U4. lia. }
    match type of H with context [is_nil ?L] => destruct (is_nil L) end; cbv beta iota in H.
    - eapply (Fin _ []); [..|exact H]; try reflexivity. intros F. cbn. auto.
    - eapply Fin; [..|exact H]; try reflexivity. intros F. apply arm_quiet.
  Qed.

  (* ---------------- every operation ---------------- *)
  Lemma req_stepL_ok s o s' outs cl :
    ReqInv s -> req_ok s o -> req_stepL fx s o = (s', outs, cl) -> step_ok s o s' outs cl.
  Proof.
    intros HI Hok H. destruct o as [c a nb m|c a nb|a rv|p peer|p|p rv|p rv m|c op|c|c| |now].
    - exact (ok_send _ _ _ _ _ _ _ _ HI Hok H).
    - exact (ok_recv _ _ _ _ _ _ _ HI Hok H).
    - exact (ok_cancel _ _ _ _ _ _ HI Hok H).
    - exact (ok_pipestart _ _ _ _ _ _ HI Hok H).
    - exact (ok_pipeclose _ _ _ _ _ HI H).
    - exact (ok_senddone _ _ _ _ _ _ HI Hok H).
    - exact (ok_recvdone _ _ _ _ _ _ _ HI H).
    - exact (ok_setopt _ _ _ _ _ _ HI H).
    - exact (ok_ctxopen _ _ _ _ _ HI Hok H).
    - exact (ok_ctxclose _ _ _ _ _ HI H).
    - exact (ok_sockclose _ _ _ _ HI H).
    - exact (ok_tick _ _ _ _ _ HI H).
  Qed.

  Theorem req_proto_law_fx : proto_law V (req_step fx) ReqInv req_ok.
  Proof.
    intros s o s' outs HI Hok H. unfold req_step in H. destruct (req_stepL fx s o) as [[s1 o1] cl] eqn:E.
    inversion H; subst s1 o1; clear H. destruct (req_stepL_ok s o s' outs cl HI Hok E) as (A & B & C).
    split; [exact A|]. split.
    - apply law_sum_eq. intros F. cbv zeta. cbn [v_extra v_clones v_dups VReq.view]. unfold no_extra, no_keys. rewrite E.
      cbn [snd map]. rewrite !app_nil_r, wsum_map, !req_omega. specialize (B F). lia.
    - apply clones_held_intro. intros k Hk. cbn [v_clones VReq.view] in Hk. rewrite E in Hk. cbn [snd] in Hk.
      apply in_map_iff in Hk. destruct Hk as [m [<- Hm]]. destruct (C m Hm) as [X|X]; [left; exact X|right; left; exact X].
  Qed.
End Req.

(* ------------------------------------------------------------------ *)
(* the law of cooked REQ, for the repaired clone policy and every value of the other variant flags *)
Theorem req_proto_law : forall fx, fx_clone fx = true ->
  proto_law (VReq.view fx) (ReqModel.req_step fx) (ReqInv fx) req_ok.
Proof. intros fx Hfx. exact (req_proto_law_fx fx Hfx). Qed.

Lemma req_inv_init : forall fx, ReqInv fx req_init.
Proof.
  intros fx. unfold ReqInv, req_init, InvC. cbn [rq_ctxs rq_sendq rq_retryq rq_plist rq_ready rq_sending].
  assert (X : forall k c, lookup k [(0%N, ctx_init REQ_RESEND_DEFAULT)] = Some c -> c = ctx_init REQ_RESEND_DEFAULT).
  { intros k c H. cbn [lookup] in H. destruct (0 =? k)%N; [inversion H; reflexivity|discriminate]. }
  split; [cbn; constructor; [tauto|constructor]|]. split; [split|].
  - intros k k' c c' a H1 H2 S1. apply X in H1. subst c. discriminate S1.
  - intros k k' c c' a H1 H2 R1. apply X in H1. subst c. discriminate R1.
  - split.
    { intros k c H. apply X in H. subst c. split; [split; [intros a E; discriminate E|intros _ E; exfalso; apply E; reflexivity]|].
      split; [intros []|]. split; [intros []|]. intros p []. }
    split; [constructor|]. split; [intros k []|]. split; [intros k []|]. split; [intros k []|]. split; [constructor|intros p []].
Qed.

(* hence: on every history that respects the contract the ledger replay of the repaired REQ never fails *)
Theorem req_replay_never_fails : forall fx, fx_clone fx = true -> forall ops,
  ops_ok (req_step fx) req_ok req_init ops ->
  replay_run (VReq.view fx) (req_step fx) ls_init req_init ops <> None.
Proof.
  intros fx Hfx ops Hok.
  assert (L0 : linv (VReq.view fx) ls_init req_init).
  { split; [split; [split; constructor|intros e []]|]. apply mseq_refl. }
  destruct (replay_run_ok _ _ _ _ (req_proto_law fx Hfx) ops req_init ls_init (req_inv_init fx) L0 Hok) as [L' [E _]].
  rewrite E. discriminate.
Qed.

(* with the pinned clone policy (clone / free / requeue decisions read the current resend time)
   the law is false: the ledger rejects the run of ReqProofs.w_uaf (a request handed over
   un-cloned is freed again when its reply arrives) *)
Theorem req_law_refuted_pinned :
  exists ops, replay_run (VReq.view ReqProofs.fx_pinned) (req_step ReqProofs.fx_pinned) ls_init req_init ops = None.
Proof. exists ReqProofs.w_uaf. vm_compute. reflexivity. Qed.

(* a history on which the environment's contract holds: send before a pipe exists, pipe start,
   transport completion, reply arrives, receive, resend-time change, second request, a second pipe,
   loss of the first pipe with requeue, transport completion, tick, contexts, cancel, close *)
Definition req_hist : list pop :=
  [PSend None 1 false (mkPmsg [] [7%N]); PPipeStart 1 PROTO_REP; PSendDone 1 0;
   PRecvDone 1 0 (mkPmsg [] (be32 (REQ_ID_MIN + 1) ++ [9%N])); PRecv None 2 false;
   PSetOpt None (OResendTime 100); PSend None 3 false (mkPmsg [] [8%N]); PSendDone 1 0;
   PPipeStart 2 PROTO_REP; PPipeClose 1; PSendDone 2 0; PTick 5000; PSendDone 2 0;
   PCtxOpen 0; PSend (Some 0%N) 4 false (mkPmsg [] [10%N]); PRecv (Some 0%N) 5 false; PCancel 5 E_CANCELED;
   PCtxClose 0; PSockClose]%N.
Example req_ok_nonvacuous : forall fx, ops_ok (req_step fx) req_ok req_init req_hist.
Proof.
  intros [[] [] [] []]; vm_compute; repeat match goal with |- _ /\ _ => split end;
    first [reflexivity|exact I|left; reflexivity|(intros [X|[]]; discriminate X)|discriminate|intros []].
Qed.
Example req_replay_runs :
  replay_run (VReq.view ReqProofs.fx_repaired) (req_step ReqProofs.fx_repaired) ls_init req_init req_hist <> None.
Proof. vm_compute. discriminate. Qed.

Print Assumptions req_proto_law.
Print Assumptions req_inv_init.
Print Assumptions req_replay_never_fails.
Print Assumptions req_law_refuted_pinned.
Print Assumptions req_ok_nonvacuous.

(* ================================================================== *)
(* Part 2: after close the protocol owns nothing.
   The close sequence, computed from the state, in the order
     1. PCtxClose for every context other than the socket's own (key k <> 0 is context k - 1),
     2. PSockClose (req0_sock_close, then req0_ctx_fini of the master context),
     3. the failing transport completion PSendDone p E_CLOSED for every pipe with an entry in rq_sending,
     4. PPipeClose for every pipe the state knows (rq_ready, rq_busy, the keys of rq_sending).
   Contexts go first: req0_ctx_fini resets every context, so that req0_pipe_close finds nothing it
   could put back on the send queue (a requeue could transmit on another pipe that is still ready and
   create a new entry of rq_sending behind a script computed from the first state). *)
From Coq Require Import Permutation.
From NngV Require Import Ledger.LedgerThms.

Definition req_close_script (s : req) : list pop :=
  map (fun k => PCtxClose (N.pred k)) (filter (fun k => negb (N.eqb k 0)) (map fst (rq_ctxs s)))
  ++ [PSockClose]
  ++ map (fun p => PSendDone p E_CLOSED) (nodup N.eq_dec (map fst (rq_sending s)))
  ++ map PPipeClose (rq_ready s ++ rq_busy s ++ nodup N.eq_dec (map fst (rq_sending s))).

Section RunApp.
  Context {St : Type} (step : St -> pop -> St * list pout) (ok : St -> pop -> Prop).
  Lemma run_app s a b : run step s (a ++ b) = run step (run step s a) b.
  Proof. revert s; induction a as [|o a IH]; intros s; cbn [app run]; [reflexivity|apply IH]. Qed.
  Lemma ops_ok_app s a b : ops_ok step ok s a -> ops_ok step ok (run step s a) b -> ops_ok step ok s (a ++ b).
  Proof. revert s; induction a as [|o a IH]; intros s; cbn [app run ops_ok]; [auto|]. intros [H1 H2] H3. split; auto. Qed.
End RunApp.

(* a context that holds nothing; a state whose contexts hold nothing and that has nothing in flight *)
Definition idle (c : rctx) : Prop := cx_send c = None /\ cx_req c = None /\ cx_rep c = None.
Definition Idle (s : req) : Prop := (forall k c, In (k, c) (rq_ctxs s) -> idle c) /\ rq_sending s = [].

Lemma idle_drained fx s : Idle s -> drained (VReq.view fx) s.
Proof.
  intros [Hc Hs]. unfold drained. cbn [v_tx v_att v_held v_fini VReq.view]. split; [exact Hs|].
  assert (X : forall l : list (N * rctx), (forall k c, In (k, c) l -> idle c) ->
            flat_map (fun kc => VReq.ctx_att (snd kc)) l = [] /\ flat_map (fun kc => VReq.ctx_held (snd kc)) l = []).
  { induction l as [|[k c] l IH]; intros H; [split; reflexivity|]. cbn [flat_map snd].
    destruct (H k c (or_introl eq_refl)) as (E1 & E2 & E3). destruct IH as [I1 I2]; [intros k1 c1 Hi; apply (H k1 c1); right; exact Hi|].
    rewrite I1, I2. unfold VReq.ctx_att, VReq.ctx_held. rewrite E1, E2, E3. split; [reflexivity|]. destruct (cx_owned c); reflexivity. }
  destruct (X _ Hc) as [X1 X2]. rewrite X1, X2. split; [reflexivity|apply perm_nil].
Qed.

Lemma fini_core fx s k c s2 c2 o :
  req_ctx_fini fx s k c = (s2, c2, o) -> rq_ctxs s2 = rq_ctxs s /\ rq_sending s2 = rq_sending s /\ idle c2.
Proof.
  unfold req_ctx_fini. cbv zeta.
  destruct (cx_send c);
    match goal with |- context [ctx_reset fx s k ?C] =>
      destruct (ctx_reset_spec fx s k C) as (s2' & E & Q1 & _ & _ & _ & _ & Q6); rewrite E end;
    intros H; inversion H; subst; repeat split; assumption.
Qed.

Lemma step_ctxclose fx s k : k <> 0%N ->
  rq_sending (fst (req_step fx s (PCtxClose (N.pred k)))) = rq_sending s /\
  (NoDup (map fst (rq_ctxs s)) -> NoDup (map fst (rq_ctxs (fst (req_step fx s (PCtxClose (N.pred k))))))) /\
  (forall k1 c1, In (k1, c1) (rq_ctxs (fst (req_step fx s (PCtxClose (N.pred k))))) -> In (k1, c1) (rq_ctxs s) /\ k1 <> k).
Proof.
  intros Hk. unfold req_step. cbn [req_stepL]. rewrite N.add_1_r, (N.succ_pred k Hk). unfold ctx_get.
  destruct (lookup k (rq_ctxs s)) as [c|] eqn:EG.
  - destruct (req_ctx_fini fx s k c) as [[s1 c2] o] eqn:E. destruct (fini_core _ _ _ _ _ _ _ E) as (Q1 & Q6 & _).
    cbn [fst rq_sending rq_ctxs set_ctxs]. rewrite Q1, Q6. split; [reflexivity|]. split; [apply nodup_adel|].
    intros k1 c1 Hi. unfold assoc_del in Hi. apply filter_In in Hi. cbn [fst] in Hi. destruct Hi as [Hi Hn].
    split; [exact Hi|]. apply negb_true_iff, N.eqb_neq in Hn. exact Hn.
  - cbn [fst]. split; [reflexivity|]. split; [auto|]. intros k1 c1 Hi. split; [exact Hi|]. intros ->.
    apply lookup_none_notin in EG. apply EG. apply in_map_iff. exists (k, c1). auto.
Qed.

Lemma close_ctxs fx : forall ks s, (forall k, In k ks -> k <> 0%N) ->
  ops_ok (req_step fx) req_ok s (map (fun k => PCtxClose (N.pred k)) ks) /\
  rq_sending (run (req_step fx) s (map (fun k => PCtxClose (N.pred k)) ks)) = rq_sending s /\
  (NoDup (map fst (rq_ctxs s)) -> NoDup (map fst (rq_ctxs (run (req_step fx) s (map (fun k => PCtxClose (N.pred k)) ks))))) /\
  (forall k1 c1, In (k1, c1) (rq_ctxs (run (req_step fx) s (map (fun k => PCtxClose (N.pred k)) ks))) ->
     In (k1, c1) (rq_ctxs s) /\ ~ In k1 ks).
Proof.
  induction ks as [|k ks IH]; intros s Hks; cbn [map run ops_ok].
  - split; [exact I|]. split; [reflexivity|]. split; [auto|]. intros k1 c1 Hi. split; [exact Hi|intros []].
  - destruct (step_ctxclose fx s k (Hks k (or_introl eq_refl))) as (A1 & A2 & A3).
    destruct (IH (fst (req_step fx s (PCtxClose (N.pred k)))) (fun k0 H => Hks k0 (or_intror H))) as (B1 & B2 & B3 & B4).
    split; [split; [exact I|exact B1]|]. split; [rewrite B2; exact A1|]. split; [auto|].
    intros k1 c1 Hi. destruct (B4 k1 c1 Hi) as [Hi1 Hn1]. destruct (A3 k1 c1 Hi1) as [Hi2 Hn2].
    split; [exact Hi2|]. intros [X|X]; [congruence|contradiction].
Qed.

Lemma step_sockclose fx s :
  NoDup (map fst (rq_ctxs s)) -> (forall k c, In (k, c) (rq_ctxs s) -> k = 0%N) ->
  rq_sending (fst (req_step fx s PSockClose)) = rq_sending s /\
  (forall k c, In (k, c) (rq_ctxs (fst (req_step fx s PSockClose))) -> idle c).
Proof.
  intros Hn Hz. unfold req_step. cbn [req_stepL].
  change (ctx_get (set_closed s true) 0%N) with (lookup 0%N (rq_ctxs s)).
  destruct (rq_ctxs s) as [|[k c] [|[k' c'] r]] eqn:EC.
  - cbn [lookup fst rq_sending rq_ctxs set_closed]. rewrite EC. split; [reflexivity|intros k c []].
  - assert (k = 0%N) by (apply (Hz k c); left; reflexivity). subst k. cbn [lookup N.eqb].
    destruct (req_ctx_fini fx (set_closed s true) 0%N c) as [[s2 c2] o] eqn:E.
    destruct (fini_core _ _ _ _ _ _ _ E) as (Q1 & Q6 & Q7).
    cbn [fst ctx_put rq_sending rq_ctxs set_ctxs]. rewrite Q1, Q6. cbn [rq_sending rq_ctxs set_closed]. rewrite EC.
    split; [reflexivity|]. cbn [assoc_set N.eqb]. intros k1 c1 [X|[]]. inversion X; subst. exact Q7.
  - exfalso. assert (k = 0%N) by (apply (Hz k c); left; reflexivity).
    assert (k' = 0%N) by (apply (Hz k' c'); right; left; reflexivity). subst. cbn [map fst] in Hn.
    inversion Hn as [|? ? X _]. apply X. left. reflexivity.
Qed.

Lemma step_senddone_closed fx s p :
  fst (req_step fx s (PSendDone p E_CLOSED)) = set_sending s (assoc_del p (rq_sending s)).
Proof. reflexivity. Qed.

Lemma fail_sends fx : forall ps s, NoDup ps -> (forall p, In p ps -> In p (map fst (rq_sending s))) ->
  ops_ok (req_step fx) req_ok s (map (fun p => PSendDone p E_CLOSED) ps) /\
  rq_ctxs (run (req_step fx) s (map (fun p => PSendDone p E_CLOSED) ps)) = rq_ctxs s /\
  (forall x, In x (rq_sending (run (req_step fx) s (map (fun p => PSendDone p E_CLOSED) ps))) ->
     In x (rq_sending s) /\ ~ In (fst x) ps).
Proof.
  induction ps as [|p ps IH]; intros s Hn Hin; cbn [map run ops_ok].
  - split; [exact I|]. split; [reflexivity|]. intros x Hx. split; [exact Hx|intros []].
  - inversion Hn as [|? ? Hp Hn']; subst. rewrite step_senddone_closed.
    destruct (IH (set_sending s (assoc_del p (rq_sending s))) Hn') as (B1 & B2 & B3).
    { intros q Hq. cbn [rq_sending set_sending]. specialize (Hin q (or_intror Hq)).
      apply in_map_iff in Hin. destruct Hin as [[q' m] [E Hi]]. cbn [fst] in E. subst q'.
      apply in_map_iff. exists (q, m). split; [reflexivity|]. apply filter_In. split; [exact Hi|].
      cbn [fst]. apply negb_true_iff, N.eqb_neq. intros ->. contradiction. }
    split; [split; [exact (Hin p (or_introl eq_refl))|exact B1]|]. split; [exact B2|].
    intros x Hx. destruct (B3 x Hx) as [Hi Hnp]. cbn [rq_sending set_sending] in Hi. apply filter_In in Hi. destruct Hi as [Hi Hne].
    split; [exact Hi|]. intros [X|X]; [|contradiction]. apply negb_true_iff, N.eqb_neq in Hne. congruence.
Qed.

(* req0_pipe_close on a state whose contexts hold nothing: nothing to requeue, nothing to free *)
Lemma in_aset_cases {A} k (y : A) l x : In x (assoc_set k y l) -> x = (k, y) \/ In x l.
Proof.
  induction l as [|[k' v] l IH]; cbn [assoc_set]; [intros [<-|[]]; auto|].
  destruct (N.eqb k' k); intros [<-|H]; auto.
  - right. right. exact H.
  - right. left. reflexivity.
  - destruct (IH H); auto. right. right. assumption.
Qed.
Lemma idle_put s k c : Idle s -> idle c -> Idle (ctx_put s k c).
Proof.
  intros [H1 H2] Hc. split; [|exact H2]. unfold ctx_put. cbn [rq_ctxs set_ctxs]. intros k1 c1 Hi.
  destruct (in_aset_cases _ _ _ _ Hi) as [X|X]; [inversion X; subst; exact Hc|eauto].
Qed.
Lemma pcl_idle fx p : forall f s s' o cl, Idle s -> pipe_close_loop fx f s p = (s', o, cl) -> Idle s'.
Proof.
  induction f as [|f IH]; intros s s' o cl HI H; cbn [pipe_close_loop] in H; [inversion H; subst; exact HI|].
  destruct (first_on p (rq_plist s)) as [k|]; [|inversion H; subst; exact HI].
  set (sa := set_plist s (plist_del k (rq_plist s))) in *.
  assert (HIa : Idle sa) by exact HI.
  unfold ctx_get in H. destruct (lookup k (rq_ctxs sa)) as [c|] eqn:EG; [|exact (IH _ _ _ _ HIa H)].
  assert (Hc : idle c) by (apply (proj1 HIa k c); now apply lookup_in). destruct Hc as (E1 & E2 & E3).
  assert (Hreset : forall C s2, rq_ctxs s2 = rq_ctxs sa -> rq_sending s2 = rq_sending sa -> cx_send C = None -> Idle (ctx_put s2 k (reset_ctx C))).
  { intros C s2 Q1 Q6 S. apply idle_put; [|repeat split; exact S].
    destruct HIa as [A1 A2]. split; [rewrite Q1; exact A1|rewrite Q6; exact A2]. }
  destruct (retry_on fx c); cbn [negb] in H.
  - rewrite E2 in H. destruct (pipe_close_loop fx f sa p) as [[s2 o2] cl2] eqn:E. inversion H; subst. exact (IH _ _ _ _ HIa E).
  - destruct (cx_recv c) as [ra|];
      match type of H with context [ctx_reset fx sa k ?C] =>
        destruct (ctx_reset_spec fx sa k C) as (s2 & E & Q1 & _ & _ & _ & _ & Q6); rewrite E in H end;
      cbv beta iota zeta in H;
      match type of H with context [pipe_close_loop fx f ?X p] =>
        destruct (pipe_close_loop fx f X p) as [[s3 o3] cl3] eqn:EL; assert (HIx : Idle X) end.
    + apply Hreset; [exact Q1|exact Q6|exact E1].
    + inversion H; subst. exact (IH _ _ _ _ HIx EL).
    + apply idle_put; [|repeat split; cbn; exact E1].
      destruct HIa as [A1 A2]. split; [rewrite Q1; exact A1|rewrite Q6; exact A2].
    + inversion H; subst. exact (IH _ _ _ _ HIx EL).
Qed.
Lemma step_pipeclose_idle fx s p : Idle s -> Idle (fst (req_step fx s (PPipeClose p))).
Proof.
  intros HI. unfold req_step. cbn [req_stepL]. cbv zeta.
  match goal with |- context [pipe_close_loop fx ?F ?X p] => destruct (pipe_close_loop fx F X p) as [[s2 o2] cl2] eqn:E; assert (HIx : Idle X) end.
  { match goal with |- context [if ?b then _ else _] => destruct b end; exact HI. }
  cbn [fst]. exact (pcl_idle fx p _ _ _ _ _ HIx E).
Qed.
Lemma close_pipes fx : forall ps s, Idle s ->
  ops_ok (req_step fx) req_ok s (map PPipeClose ps) /\ Idle (run (req_step fx) s (map PPipeClose ps)).
Proof.
  induction ps as [|p ps IH]; intros s HI; cbn [map run ops_ok]; [split; [exact I|exact HI]|].
  destruct (IH _ (step_pipeclose_idle fx s p HI)) as [B1 B2]. split; [split; [exact I|exact B1]|exact B2].
Qed.

Theorem req_close_drains : forall fx s, fx_clone fx = true -> ReqInv fx s ->
  ops_ok (req_step fx) req_ok s (req_close_script s) /\
  drained (VReq.view fx) (run (req_step fx) s (req_close_script s)).
Proof.
  intros fx s _ HI. pose proof (proj1 HI) as I1. unfold req_close_script.
  set (ks := filter (fun k => negb (k =? 0)%N) (map fst (rq_ctxs s))).
  set (ps := nodup N.eq_dec (map fst (rq_sending s))).
  (* 1. the contexts *)
  destruct (close_ctxs fx ks s) as (A1 & A2 & A3 & A4).
  { intros k Hk. apply filter_In in Hk. destruct Hk as [_ Hk]. apply negb_true_iff, N.eqb_neq in Hk. exact Hk. }
  set (s1 := run (req_step fx) s (map (fun k => PCtxClose (N.pred k)) ks)) in *.
  (* 2. the socket *)
  destruct (step_sockclose fx s1 (A3 I1)) as (B1 & B2).
  { intros k c Hi. destruct (A4 k c Hi) as [Hi0 Hn]. destruct (N.eq_dec k 0) as [E|E]; [exact E|]. exfalso. apply Hn.
    apply filter_In. split; [apply in_map_iff; exists (k, c); auto|]. apply negb_true_iff, N.eqb_neq. exact E. }
  set (s2 := fst (req_step fx s1 PSockClose)) in *.
  assert (Es2 : run (req_step fx) s1 [PSockClose] = s2) by reflexivity.
  assert (Sn2 : rq_sending s2 = rq_sending s) by (rewrite B1; exact A2).
  (* 3. the sends in flight fail *)
  destruct (fail_sends fx ps s2) as (C1 & C2 & C3).
  { apply NoDup_nodup. }
  { intros p Hp. rewrite Sn2. apply nodup_In in Hp. exact Hp. }
  set (s3 := run (req_step fx) s2 (map (fun p => PSendDone p E_CLOSED) ps)) in *.
  assert (HI3 : Idle s3).
  { split; [rewrite C2; exact B2|]. destruct (rq_sending s3) as [|x l] eqn:E; [reflexivity|]. exfalso.
    destruct (C3 x (or_introl eq_refl)) as [Hi Hn]. apply Hn. apply nodup_In. rewrite Sn2 in Hi. apply in_map. exact Hi. }
  (* 4. the pipes *)
  destruct (close_pipes fx (rq_ready s ++ rq_busy s ++ ps) s3 HI3) as [D1 D2].
  split.
  - apply ops_ok_app; [exact A1|]. fold s1. apply (ops_ok_app _ _ s1 [PSockClose]); [split; exact I|]. rewrite Es2.
    apply ops_ok_app; [exact C1|]. exact D1.
  - rewrite run_app. fold s1. rewrite (run_app _ s1 [PSockClose]), Es2, run_app. apply idle_drained. exact D2.
Qed.

Print Assumptions req_close_drains.
