(* C03Lemmas: the per-protocol instances of the generic ledger theorems (LedgerThms), from
   the initial state of every model, in the form Props/Properties_C03.v states them. *)
From Coq Require Import List Arith NArith Bool Lia Permutation.
From NngV Require Import Proto.Common Ledger.Ledger Ledger.LedgerProofs Ledger.LawTac Ledger.Views Ledger.LedgerThms.
From NngV Require Proto.PushModel Proto.PullModel Proto.PubModel Proto.SubModel Proto.XsubModel Proto.PairModel
  Proto.PairGuard Proto.BusModel Proto.XReqModel Proto.XRepModel Proto.SurveyModel Proto.XSurveyModel Proto.XRespondModel
  Proto.PushProofs Proto.PubSubProofs Proto.PubSubProofs3 Proto.BusProofs
  Proto.RepModel Proto.RespondModel Proto.ReqModel Proto.ReqProofs
  Ledger.OwnReq Ledger.OwnPipeline Ledger.OwnPipelineClose Ledger.OwnPubSub Ledger.OwnPairBus Ledger.OwnSurvey Ledger.OwnXReqRep Ledger.OwnRepResp.
Import ListNotations.

(* what "the ledger of protocol P is balanced over every history, and nothing leaks after close" says *)
Definition ledger_ok {St} (V : view St) (step : St -> pop -> St * list pout) (init : St)
           (ok : St -> pop -> Prop) (script : St -> list pop) : Prop :=
  forall ops, ops_ok step ok init ops ->
    let s := run step init ops in
    exists L0 L1 L2,
      (* the replay of the history never fails; the ledger is balanced and equals the state's view *)
      replay_run V step ls_init init ops = Some (L0, s) /\
      balanced (ls_led L0) /\ mseq (lib_refs (ls_led L0)) (omega V s) /\
      (* the close sequence is allowed by the contract and replays; the fini frees then leave nothing *)
      ops_ok step ok s (script s) /\
      replay_run V step L0 s (script s) = Some (L1, run step s (script s)) /\
      do_aevs L1 (fini_evs V (run step s (script s))) = Some L2 /\
      balanced (ls_led L2) /\ lib_refs (ls_led L2) = [].

Lemma ledger_ok_intro {St} (V : view St) step init Inv ok script :
  proto_law V step Inv ok -> Inv init -> omega V init = [] ->
  (forall s, Inv s -> ops_ok step ok s (script s) /\ drained V (run step s (script s))) ->
  ledger_ok V step init ok script.
Proof.
  intros Hlaw Hi Ho Hd ops Hok s.
  destruct (replay_run_ok V step Inv ok Hlaw ops init ls_init Hi (linv_init V init Ho) Hok) as [L0 [R0 [Hl0 Hi0]]].
  destruct (no_leak_after_close V step Inv ok script Hlaw Hd (run step init ops) L0 Hi0 Hl0) as [L1 [L2 [R1 [F [Hb He]]]]].
  exists L0, L1, L2. split; [exact R0|]. split; [apply Hl0|]. split; [apply Hl0|].
  split; [apply Hd; exact Hi0|]. split; [exact R1|]. split; [exact F|]. split; assumption.
Qed.

Lemma pull_ledger_ok : ledger_ok view_pull PullModel.pull_step PullModel.pull_init (fun _ _ => True) OwnPipelineClose.pull_close_script.
Proof.
  apply (ledger_ok_intro _ _ _ (fun _ => True)); [exact OwnPipeline.pull_proto_law|exact I|reflexivity|].
  intros s _. apply OwnPipelineClose.pull_close_drains.
Qed.
(* either text of push0_set_send_buf_len (fr: blocked senders move into a resized buffer -- Gen/Consts.v
   C06_PUSH_RESIZE_ADMITS_FIXED; ViewsCur.push_step_cur is the instance the model driver runs) *)
Lemma push_ledger_ok : forall fr, ledger_ok view_push (PushModel.push_step_r fr) PushModel.push_init OwnPipeline.push_ok OwnPipelineClose.push_close_script.
Proof.
  intros fr. apply (ledger_ok_intro _ _ _ PushProofs.PInv); [exact (OwnPipeline.push_proto_law_r fr)|exact (proj1 PushProofs.push_init_inv)|reflexivity|exact (OwnPipelineClose.push_close_drains_r fr)].
Qed.
Lemma pub_ledger_ok : ledger_ok view_pub PubModel.pub_step PubModel.pub_init PubSubProofs3.pub_op_ok OwnPubSub.pub_close_script.
Proof.
  apply (ledger_ok_intro _ _ _ PubSubProofs3.PubInv); [exact OwnPubSub.pub_proto_law|exact OwnPubSub.pub_inv_init|reflexivity|exact OwnPubSub.pub_close_drains].
Qed.
Lemma sub_ledger_ok : forall fixed, ledger_ok view_sub (SubModel.sub_step fixed) SubModel.sub_init PubSubProofs.sub_op_ok OwnPubSub.sub_close_script.
Proof.
  intros fixed. apply (ledger_ok_intro _ _ _ PubSubProofs.SInv); [apply OwnPubSub.sub_proto_law|exact OwnPubSub.sub_inv_init|reflexivity|apply OwnPubSub.sub_close_drains].
Qed.
Lemma xsub_ledger_ok : forall a b, ledger_ok view_xsub (XsubModel.xsub_step a b) XsubModel.xsub_init OwnPubSub.xsub_op_ok OwnPubSub.xsub_close_script.
Proof.
  intros a b. apply (ledger_ok_intro _ _ _ OwnPubSub.XsubInv); [apply OwnPubSub.xsub_proto_law|exact OwnPubSub.xsub_inv_init|reflexivity|apply OwnPubSub.xsub_close_drains].
Qed.
Lemma pair_ledger_ok : forall k fx fr fs, ledger_ok (VPair.view k) (PairGuard.pair_step_g k fx fr fs) PairModel.pair_init OwnPairBus.pair_ok OwnPairBus.pair_close_script.
Proof.
  intros k fx fr fs. apply (ledger_ok_intro _ _ _ OwnPairBus.pair_inv); [apply OwnPairBus.pair_proto_law|exact OwnPairBus.pair_inv_init|reflexivity|apply OwnPairBus.pair_close_drains].
Qed.
Lemma bus_ledger_ok : forall fixed keep raw, ledger_ok (VBus.view fixed keep) (BusModel.bus_step fixed) (BusModel.bus_init raw) BusProofs.op_ok OwnPairBus.bus_close_script.
Proof.
  intros fixed keep raw. apply (ledger_ok_intro _ _ _ BusProofs.BInv); [apply OwnPairBus.bus_proto_law|apply OwnPairBus.bus_inv_init|reflexivity|apply OwnPairBus.bus_close_drains].
Qed.
Lemma surv_ledger_ok : forall nbfix, ledger_ok view_surv (SurveyModel.surv_step nbfix) SurveyModel.surv_init OwnSurvey.surv_ok OwnSurvey.surv_close_script.
Proof.
  intros nbfix. apply (ledger_ok_intro _ _ _ OwnSurvey.SLInv); [apply OwnSurvey.surv_proto_law|exact OwnSurvey.surv_inv_init|reflexivity|apply OwnSurvey.surv_close_drains].
Qed.
Lemma xsurv_ledger_ok : forall fx, ledger_ok (VXsurv.view fx) (XSurveyModel.xsurv_step fx) XSurveyModel.xsurv_init OwnSurvey.xsurv_ok OwnSurvey.xsurv_close_script.
Proof.
  intros fx. apply (ledger_ok_intro _ _ _ OwnSurvey.XSInv); [apply OwnSurvey.xsurv_proto_law|exact OwnSurvey.xsurv_inv_init|reflexivity|apply OwnSurvey.xsurv_close_drains].
Qed.
Lemma xresp_ledger_ok : forall fx, ledger_ok view_xresp (XRespondModel.xresp_step fx) XRespondModel.xresp_init OwnSurvey.xresp_ok OwnSurvey.xresp_close_script.
Proof.
  intros fx. apply (ledger_ok_intro _ _ _ OwnSurvey.XRInv); [apply OwnSurvey.xresp_proto_law|exact OwnSurvey.xresp_inv_init|reflexivity|apply OwnSurvey.xresp_close_drains].
Qed.
Lemma xreq_ledger_ok : forall mf, ledger_ok view_xreq (XReqModel.xreq_step mf) XReqModel.xreq_init OwnXReqRep.xreq_ok OwnXReqRep.xreq_close_script.
Proof.
  intros mf. apply (ledger_ok_intro _ _ _ OwnXReqRep.xreq_inv); [apply OwnXReqRep.xreq_proto_law|exact OwnXReqRep.xreq_inv_init|reflexivity|apply OwnXReqRep.xreq_close_drains].
Qed.
Lemma xrep_ledger_ok : forall mf, ledger_ok view_xrep (XRepModel.xrep_step mf) XRepModel.xrep_init OwnXReqRep.xrep_ok OwnXReqRep.xrep_close_script.
Proof.
  intros mf. apply (ledger_ok_intro _ _ _ OwnXReqRep.xrep_inv); [apply OwnXReqRep.xrep_proto_law|exact OwnXReqRep.xrep_inv_init|reflexivity|apply OwnXReqRep.xrep_close_drains].
Qed.

Lemma rep_ledger_ok : forall pf, RepModel.pf_saio pf = true ->
  ledger_ok view_rep (RepModel.rep_step pf) RepModel.rep_init OwnRepResp.rep_ok OwnRepResp.rep_close_script.
Proof.
  intros pf Hf. apply (ledger_ok_intro _ _ _ OwnRepResp.RInv); [apply OwnRepResp.rep_proto_law; exact Hf|exact OwnRepResp.rep_inv_init|reflexivity|].
  intros s Hs. apply OwnRepResp.rep_close_drains; assumption.
Qed.
Lemma resp_ledger_ok : forall fx, RespondModel.rf_sbusy fx = true ->
  ledger_ok view_resp (RespondModel.resp_step fx) RespondModel.resp_init OwnRepResp.resp_ok OwnRepResp.resp_close_script.
Proof.
  intros fx Hf. apply (ledger_ok_intro _ _ _ OwnRepResp.SInv); [apply OwnRepResp.resp_proto_law; exact Hf|exact OwnRepResp.resp_inv_init|reflexivity|].
  intros s Hs. apply OwnRepResp.resp_close_drains; assumption.
Qed.

Lemma req_ledger_ok : forall fx, ReqModel.fx_clone fx = true ->
  ledger_ok (VReq.view fx) (ReqModel.req_step fx) ReqModel.req_init OwnReq.req_ok OwnReq.req_close_script.
Proof.
  intros fx Hf. apply (ledger_ok_intro _ _ _ (OwnReq.ReqInv fx)); [apply OwnReq.req_proto_law; exact Hf|apply OwnReq.req_inv_init|reflexivity|].
  intros s Hs. apply OwnReq.req_close_drains; assumption.
Qed.

(* ---------- BUS: does a refused send keep its message? ---------- *)
(* the pinned order of bus0_sock_send (slot emptied, then nni_aio_start refuses): the message is nobody's *)
Definition w_bus_msg : pmsg := mkPmsg [] [170; 1]%N.
Definition w_bus_ops : list pop := [PPipeStart 1%N BusModel.PROTO_BUS; PSend None 7%N true w_bus_msg].
Lemma bus_failed_send_detaches_refuted_w :
  match replay_run (VBus.view false false) (BusModel.bus_step false) ls_init (BusModel.bus_init false) w_bus_ops with
  | Some (L, s) =>
      snd (BusModel.bus_step false (fst (BusModel.bus_step false (BusModel.bus_init false) (PPipeStart 1%N BusModel.PROTO_BUS))) (PSend None 7%N true w_bus_msg))
        = [Complete 7%N E_AGAIN None] /\
      back_of (ls_led L) 7%N = [] /\ lost_count (ls_led L) = 1 /\ lib_ref_count (ls_led L) = 0
  | None => False
  end.
Proof. vm_compute. repeat split; reflexivity. Qed.
(* the repaired order (nni_aio_start first): every refused or failed BUS send keeps its message on the aio *)
Lemma bus_failed_send_keeps : forall fixed L s o s' outs a rv k,
  BusProofs.BInv s -> BusProofs.op_ok s o -> linv (VBus.view fixed true) L s -> BusModel.bus_step fixed s o = (s', outs) ->
  In (Complete a rv None) outs -> rv <> 0%N -> send_key (VBus.view fixed true) s o a = Some k ->
  exists L', replay_step (VBus.view fixed true) L s o s' outs = Some L' /\ linv (VBus.view fixed true) L' s' /\
    In (OBack a, k) (refs (ls_led L')).
Proof.
  intros fixed L s o s' outs a rv k Hi Ho Hl Hs Hin Hrv Hk.
  apply (failed_send_keeps_message (VBus.view fixed true) (BusModel.bus_step fixed) BusProofs.BInv BusProofs.op_ok
           (OwnPairBus.bus_proto_law fixed true) L s o s' outs a rv k Hi Ho Hl Hs Hin Hrv Hk).
  cbn [v_detach VBus.view]. unfold VBus.detach. destruct o; try reflexivity.
  rewrite Bool.andb_false_r. reflexivity.
Qed.

(* a history on which the ledger does something: PUB with two subscribers, a queued copy, a drop *)
Definition w_pub_ops : list pop :=
  [PPipeStart 1%N SubModel.PROTO_SUB; PPipeStart 2%N SubModel.PROTO_SUB;
   PSend None 0%N false (mkPmsg [] [1; 2]%N); PSend None 1%N false (mkPmsg [] [3; 4]%N);
   PSendDone 1%N 0%N; PSendDone 2%N E_CONNSHUT; PSetOpt None (OSendBuf 1)].
Lemma ledger_nonvacuous_w :
  ops_ok PubModel.pub_step PubSubProofs3.pub_op_ok PubModel.pub_init w_pub_ops /\
  match replay_run view_pub PubModel.pub_step ls_init PubModel.pub_init w_pub_ops with
  | Some (L, s) => lib_ref_count (ls_led L) = 2 /\ lib_obj_count (ls_led L) = 1 /\ forallb entry_okb (ls_led L) = true
  | None => False
  end.
Proof. split; [vm_compute; repeat split; intros H; repeat (destruct H as [H|H]; try discriminate); exact H|vm_compute; repeat split; reflexivity]. Qed.
