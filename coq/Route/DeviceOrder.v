(* DeviceOrder: how many forwarding paths a device runs (device_init, src/core/device.c) and what
   that means for the order of the messages it forwards.

   device_init: s1 / s2 NULL -> reflector (s1 = s2); if s1 cannot receive the two are swapped;
   then   num_paths = 2, reduced to 1 when s2 cannot receive OR (one_for_reflector) s1 == s2.
   Each path is one forwarder  recv(src) ; send(dst) ; recv(src) ; ...  (RouteModel.device_cb).
   one_for_reflector follows the source (Gen/Consts.C13_DEVICE_REFLECTOR_ONE_PATH: the test
   `|| (s1 == s2)` is present in device_init).

   Forwarders that read from the SAME socket race: the socket hands its received messages out in
   arrival order (one FIFO: the upper read queue / the protocol's receive queue), but between a
   forwarder's receive completing and its send being issued (the callback runs on a task thread)
   another forwarder may take and send the next message.  `fwd_run k` is that interleaving
   semantics for k forwarders on one source socket: any schedule of Take i / Put i steps. *)
From Coq Require Import List Arith Bool Lia.
From NngV Require Import Proto.Common.
Import ListNotations.

(* rcv1 / rcv2: NNI_PROTO_FLAG_RCV of the two sockets as passed; same: s1 == s2 (after the NULL rule) *)
Definition device_paths (one_for_reflector rcv1 rcv2 same : bool) : nat :=
  let rcv2' := if rcv1 then rcv2 else rcv1 in        (* after the swap s2 is the old s1 *)
  if negb rcv2' || (same && one_for_reflector) then 1 else 2.
(* path i reads from: false = (swapped) s1, true = (swapped) s2; with same they are one socket.
   The largest number of forwarders reading from one socket: *)
Definition device_readers (one_for_reflector rcv1 rcv2 same : bool) : nat :=
  if same then device_paths one_for_reflector rcv1 rcv2 same else 1.

Inductive fstep := FTake (i : nat) | FPut (i : nat).
Record fstate := mkFS { fs_q : list pmsg; fs_hold : list (nat * pmsg); fs_out : list pmsg }.

Fixpoint holds (i : nat) (l : list (nat * pmsg)) : option pmsg :=
  match l with [] => None | (j, m) :: r => if Nat.eqb j i then Some m else holds i r end.
Fixpoint unhold (i : nat) (l : list (nat * pmsg)) : list (nat * pmsg) :=
  match l with [] => [] | (j, m) :: r => if Nat.eqb j i then r else (j, m) :: unhold i r end.

Definition fwd_step (k : nat) (s : fstate) (e : fstep) : fstate :=
  match e with
  | FTake i =>
      if (i <? k) then
        match holds i (fs_hold s), fs_q s with
        | None, m :: r => mkFS r (fs_hold s ++ [(i, m)]) (fs_out s)     (* receive completes: the message sits in the path's aio *)
        | _, _ => s
        end
      else s
  | FPut i =>
      match holds i (fs_hold s) with
      | Some m => mkFS (fs_q s) (unhold i (fs_hold s)) (fs_out s ++ [m]) (* nni_sock_send(dst): handed to the destination socket *)
      | None => s
      end
  end.
Definition fwd_run (k : nat) (input : list pmsg) (sched : list fstep) : fstate :=
  fold_left (fwd_step k) sched (mkFS input [] []).

(* ------------------------------------------------------------------ one forwarder: order kept *)
Definition inv1 (input : list pmsg) (s : fstate) : Prop :=
  (fs_hold s = [] /\ fs_out s ++ fs_q s = input) \/
  (exists m, fs_hold s = [(0, m)] /\ fs_out s ++ m :: fs_q s = input).

Lemma inv1_step input s e : inv1 input s -> inv1 input (fwd_step 1 s e).
Proof.
  unfold inv1. intros [[H E]|(m & H & E)]; destruct e as [i|i]; cbn [fwd_step]; rewrite H.
  - destruct (i <? 1) eqn:Ei; [|left; auto]. cbn [holds]. destruct (fs_q s) as [|x r] eqn:Q; [left; split; auto; rewrite Q; auto|].
    apply Nat.ltb_lt in Ei. assert (i = 0) by lia. subst i. right. exists x. cbn [fs_hold fs_out fs_q app]. auto.
  - cbn [holds]. left. auto.
  - destruct (i <? 1) eqn:Ei; [|right; eauto]. apply Nat.ltb_lt in Ei. assert (i = 0) by lia. subst i.
    cbn [holds Nat.eqb]. right. eauto.
  - cbn [holds]. destruct (Nat.eqb 0 i) eqn:Ei.
    + left. cbn [fs_hold fs_out fs_q unhold]. rewrite Ei. split; [reflexivity|]. rewrite <- app_assoc. exact E.
    + cbn [holds]. right. eauto.
Qed.
Lemma inv1_run input : forall sched s, inv1 input s -> inv1 input (fold_left (fwd_step 1) sched s).
Proof. induction sched as [|e r IH]; intros s H; cbn [fold_left]; auto using inv1_step. Qed.

(* whatever the schedule, what one forwarder has sent is an initial segment of what arrived, in order *)
Theorem one_forwarder_keeps_order input sched :
  exists rest, input = fs_out (fwd_run 1 input sched) ++ rest.
Proof.
  assert (I : inv1 input (fwd_run 1 input sched)) by (apply inv1_run; unfold inv1; left; auto).
  destruct I as [[_ E]|(m & _ & E)]; eexists; symmetry; exact E.
Qed.
(* hence per source (any predicate on messages: the origin pipe in the header, the sender's tag in the
   body): the forwarded messages of that source are an initial segment of its arrivals, in order *)
Lemma filter_prefix {A} (f : A -> bool) a rest : filter f (a ++ rest) = filter f a ++ filter f rest.
Proof. apply filter_app. Qed.
Theorem one_forwarder_keeps_order_per_source input sched (f : pmsg -> bool) :
  exists rest, filter f input = filter f (fs_out (fwd_run 1 input sched)) ++ rest.
Proof.
  destruct (one_forwarder_keeps_order input sched) as [rest E]. exists (filter f rest).
  rewrite E at 1. apply filter_app.
Qed.
(* and a fair schedule forwards everything: Take 0 ; Put 0 repeated *)
Fixpoint drain (n : nat) : list fstep := match n with 0 => [] | S k => FTake 0 :: FPut 0 :: drain k end.
Lemma drain_run : forall input out, fold_left (fwd_step 1) (drain (length input)) (mkFS input [] out) = mkFS [] [] (out ++ input).
Proof.
  induction input as [|m r IH]; intros out; cbn [length drain fold_left]; [now rewrite app_nil_r|].
  cbn. rewrite IH. rewrite <- app_assoc. reflexivity.
Qed.
Theorem one_forwarder_forwards_all input : fs_out (fwd_run 1 input (drain (length input))) = input.
Proof. unfold fwd_run. rewrite drain_run. reflexivity. Qed.

(* ------------------------------------------------------------------ two forwarders on one socket *)
Definition two_forwarder_witness : list fstep := [FTake 0; FTake 1; FPut 1; FPut 0].
Theorem two_forwarders_reorder m0 m1 :
  fs_out (fwd_run 2 [m0; m1] two_forwarder_witness) = [m1; m0].
Proof. reflexivity. Qed.

(* ------------------------------------------------------------------ the shape of device_init *)
Theorem device_paths_spec one rcv1 rcv2 same :
  device_paths one rcv1 rcv2 same =
    if negb (rcv1 && rcv2) then 1                 (* one-way protocols: a single forwarder *)
    else if same && one then 1                    (* reflector *)
    else 2.                                       (* two-way: one forwarder per direction *)
Proof. destruct one, rcv1, rcv2, same; reflexivity. Qed.
Theorem device_one_reader_per_socket rcv1 rcv2 same : device_readers true rcv1 rcv2 same = 1.
Proof. destruct rcv1, rcv2, same; reflexivity. Qed.
Theorem device_reflector_two_readers_without_rule : device_readers false true true true = 2.
Proof. reflexivity. Qed.
