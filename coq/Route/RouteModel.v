(* RouteModel: nng_device (src/core/device.c) over raw sockets, as the composition of the
   header transformers the raw protocols apply when they receive and send.  Definitions only.

   Nothing is re-modelled here: the transformers are the functions of
     Proto/ReqRepBacktrace.v  (rep.c, xrep.c, xreq.c, req.c),
     Proto/SurveyBacktrace.v  (respond.c, xrespond.c, xsurvey.c, survey.c),
     Proto/PairModel.v        (pair1/pair.c: rx_decode, norm_send, bump),
     Proto/BusModel.v         (bus0/bus.c raw: enc32 on receive, bus_prep on send),
   which the protocol models of C04/C07/C08/C09 use in their receive / send steps and whose
   correspondence with the C is checked there and again by checks/c13.py.

   device.c: each path of a device is   recv(src) -> send(dst) -> recv(src) -> ...  and between
   the two calls the message stays in the path's aio untouched ("Leave the message where it
   is").  So what a device does to a message that arrives on the wire at its socket A is:
       A's raw receive (wire -> header, body)  ;  B's raw send (header, body -> pipe, wire).

   Conventions: a wire message is the byte list a transport carries (header bytes followed by
   body bytes; every SP transport hands a received message to the protocol with an EMPTY
   nni_msg header and everything in the body).  Words are 4 bytes, big endian.  Pipe ids are
   allocated by core/pipe.c in [1, 0x7fffffff] (high bit clear); request / survey ids by
   req.c / survey.c in [0x80000000, 0xffffffff] (high bit set). *)
From Coq Require Import List Arith NArith Bool.
From NngV Require Import Proto.Common.
From NngV Require Proto.ReqRepBacktrace Proto.SurveyBacktrace Proto.PairModel Proto.BusModel.
Import ListNotations.

Definition RT_HEADER_MAX : nat := 64.      (* NNI_MAX_HEADER_SIZE = (NNI_MAX_MAX_TTL + 1) * sizeof(uint32_t) *)
Definition RT_TTL_MIN : nat := 1.          (* nni_copyin_int(&ttl, .., 1, NNI_MAX_MAX_TTL, ..) in every set_max_ttl *)
Definition RT_TTL_MAX : nat := 15.         (* NNI_MAX_MAX_TTL *)
Definition W32 : N := 4294967296.          (* 2^32 *)
Definition HI32 : N := 2147483648.         (* 2^31: first value with the high bit set *)
Definition PIPE_ID_MIN : N := 1.           (* core/pipe.c: NNI_ID_MAP_INITIALIZER(1, 0x7fffffff, ..) *)
Definition PIPE_ID_MAX : N := 2147483647.
Definition REQ_ID_MIN : N := 2147483648.   (* req.c / survey.c: nni_id_map_init(.., 0x80000000u, 0xffffffffu, ..) *)
Definition REQ_ID_MAX : N := 4294967295.

Definition be32 := ReqRepBacktrace.be32.
Definition wire_of := ReqRepBacktrace.wire_of.     (* header ++ body *)

(* ------------------------------------------------------------------ results *)
Inductive rres :=
| RDeliver (m : pmsg)      (* passed up (raw: to the upper read queue; cooked: to a context / parked) *)
| RDrop                    (* freed, the connection is kept, the next receive is posted *)
| RClose.                  (* freed, the sender is disconnected *)

Definition of_rr (r : ReqRepBacktrace.bt_result) : rres :=
  match r with
  | ReqRepBacktrace.BtDeliver m => RDeliver m
  | ReqRepBacktrace.BtDrop => RDrop
  | ReqRepBacktrace.BtClose => RClose
  end.
Definition of_sv (r : SurveyBacktrace.bt_result) : rres :=
  match r with
  | SurveyBacktrace.BtDeliver h b => RDeliver (mkPmsg h b)
  | SurveyBacktrace.BtDrop => RDrop
  | SurveyBacktrace.BtClose => RClose
  end.

(* ------------------------------------------------------------------ the two routed families *)
Record famops := mkFam {
  f_end : N -> bool;                             (* (body[0] & 0x80) != 0 on the first byte of a word *)
  f_front_recv : N -> nat -> list N -> rres;     (* raw REP / raw RESPONDENT pipe_recv_cb: pipe id, ttl, wire *)
  f_cooked_recv : nat -> list N -> rres;         (* REP / RESPONDENT pipe_recv_cb: ttl, wire *)
  f_back_recv : list N -> rres;                  (* raw REQ / raw SURVEYOR recv_cb: wire *)
  f_front_send : pmsg -> option (N * pmsg);      (* raw REP / raw RESPONDENT sock_getq_cb: pop the pipe id; None = freed *)
  f_orig_recv : list N -> option (N * list N)    (* REQ / SURVEYOR recv_cb: (id, body); None = disconnect *)
}.

Definition reqrep_ops : famops :=
  mkFam (fun b => (128 <=? b)%N)
        (fun p ttl w => of_rr (ReqRepBacktrace.xrep_recv p ttl w))
        (fun ttl w => of_rr (ReqRepBacktrace.rep_recv ttl w))
        (fun w => of_rr (ReqRepBacktrace.xreq_recv w))
        ReqRepBacktrace.xrep_send
        (fun w => match ReqRepBacktrace.req_recv w with Some (id, m) => Some (id, pm_body m) | None => None end).

Definition survey_ops : famops :=
  mkFam SurveyBacktrace.is_end
        (fun p ttl w => of_sv (SurveyBacktrace.xresp_recv p ttl w))
        (fun ttl w => of_sv (SurveyBacktrace.resp_recv ttl w))
        (fun w => of_sv (SurveyBacktrace.xsurv_recv w))
        (fun m => match SurveyBacktrace.xresp_send (pm_hdr m) with
                  | Some (p, h) => Some (p, mkPmsg h (pm_body m)) | None => None end)
        (fun w => match SurveyBacktrace.surv_recv w with Some (id, _, b) => Some (id, b) | None => None end).

(* the raw back socket's send (xreq0 / xsurv0 sock_send -> uwq -> pipe): the message goes out as it
   is, header first (to one ready pipe for REQ, to every pipe for SURVEYOR).
   the cooked REP / RESPONDENT send: the saved backtrace becomes the header. *)
Definition back_send (m : pmsg) : list N := wire_of m.
Definition cooked_reply (bt body : list N) : list N := wire_of (mkPmsg bt body).
(* the cooked REQ / SURVEYOR send: header := the fresh id *)
Definition orig_send (id : N) (body : list N) : list N := wire_of (mkPmsg (be32 id) body).

(* ------------------------------------------------------------------ the header guard of message.c
   nni_msg_header_append_u32 panics ("impossible header over-run") when
   m_header_len + 4 >= sizeof(m_header_buf); the raw receive callbacks call it on the message
   the transport delivered, whose header has h0 bytes (0 for every transport).  None = panic. *)
Definition append_u32_ok (h0 : list N) : bool := length h0 + 4 <? RT_HEADER_MAX.
Definition xrep_recv_h (h0 : list N) (p : N) (ttl : nat) (wire : list N) : option rres :=
  if append_u32_ok h0 then Some (of_rr (ReqRepBacktrace.bt_loop ttl (h0 ++ be32 p) wire)) else None.
Definition xresp_recv_h (h0 : list N) (p : N) (ttl : nat) (wire : list N) : option rres :=
  if append_u32_ok h0 then Some (of_sv (SurveyBacktrace.bt_move ttl (h0 ++ be32 p) wire)) else None.

(* ------------------------------------------------------------------ device.c, one path *)
Inductive dstate := DInit | DRecv | DSend | DFini.
Record dpath := mkDP { dp_st : dstate; dp_msg : option pmsg }.   (* state; the message sitting in the path's aio *)
Inductive dout :=
| DoGot (m : pmsg)        (* ghost: a receive completed successfully with this message *)
| DoSend (m : pmsg)       (* nni_sock_send(p->dst, &p->aio) with this message in the aio *)
| DoRecv                  (* nni_sock_recv(p->src, &p->aio) *)
| DoFree (m : pmsg)       (* nni_msg_free *)
| DoStop (rv : N).        (* state = FINI; d->rv set if it was 0; the other path aborted; last one out finishes the user aio *)

(* device_start for the path *)
Definition device_start : dpath * list dout := (mkDP DRecv None, [DoRecv]).

(* device_cb: rv = nni_aio_result(&p->aio); got = the message attached to the aio by the receive that
   completed (a receive that completed and was then aborted has rv <> 0 AND a message attached: the
   abort replaces the result); drv = d->rv when the callback takes device_mtx.
   dfx follows the source (Gen/Consts.v, C13_DEVICE_FREES_ATTACHED, fix f044c32): true = on a failing
   path whatever message is attached to the aio is freed; false (the tree as first pinned) = it was
   freed only in the SEND state, so a message received just before the abort was leaked. *)
Definition device_cb (dfx : bool) (p : dpath) (drv rv : N) (got : option pmsg) : dpath * list dout :=
  let ok := N.eqb rv 0 in
  (* the message the callback finds / looks at in the aio *)
  let cur := match dp_st p with
             | DRecv => if ok || dfx then got else None
             | DSend => if ok then None else dp_msg p      (* a successful send consumed it *)
             | _ => None
             end in
  let ghost := match dp_st p, got with DRecv, Some m => [DoGot m] | _, _ => [] end in
  let rv1 := if ok then drv else rv in
  if negb (N.eqb rv1 0) then
    (mkDP DFini None, ghost ++ match cur with Some m => [DoFree m] | None => [] end ++ [DoStop rv1])
  else
    match dp_st p with
    | DRecv => match cur with
               | Some m => (mkDP DSend (Some m), ghost ++ [DoSend m])     (* "Leave the message where it is." *)
               | None => (mkDP DSend None, [])                            (* a successful receive always carries a message *)
               end
    | DSend => (mkDP DRecv None, [DoRecv])                                (* sent: the aio's slot is cleared *)
    | DInit | DFini => (p, [])
    end.

(* a callback event of the path: (d->rv seen, result, message of a successful receive) *)
Definition dev_ev := (N * N * option pmsg)%type.
Fixpoint device_run (dfx : bool) (p : dpath) (evs : list dev_ev) : dpath * list dout :=
  match evs with
  | [] => (p, [])
  | (drv, rv, got) :: r =>
      let '(p1, o1) := device_cb dfx p drv rv got in
      let '(p2, o2) := device_run dfx p1 r in (p2, o1 ++ o2)
  end.

(* what the device hands to the destination socket for a message received from the source socket *)
Definition device_pass (m : pmsg) : pmsg :=
  match snd (device_cb true (mkDP DRecv None) 0 0 (Some m)) with
  | [DoGot _; DoSend m'] => m'
  | _ => m
  end.

(* ------------------------------------------------------------------ one device, one direction *)
Inductive fwd :=
| FwdSend (w : list N)     (* forwarded: this goes on the wire on the far side *)
| FwdDrop                  (* discarded by the receiving socket, sender stays connected *)
| FwdClose                 (* discarded, sender disconnected *)
| FwdStop.                 (* the destination socket refused the message: the device stops (pair1 NNG_EPROTO) *)

Record hop := mkHop { h_pid : N; h_ttl : nat }.   (* the pipe the device's front socket receives on; that socket's ttl *)

(* request / survey direction: front = raw REP / RESPONDENT, back = raw REQ / SURVEYOR *)
Definition dev_request (F : famops) (h : hop) (w : list N) : fwd :=
  match f_front_recv F (h_pid h) (h_ttl h) w with
  | RDeliver m => FwdSend (back_send (device_pass m))
  | RDrop => FwdDrop
  | RClose => FwdClose
  end.

(* reply / response direction: back socket receives, front socket pops the pipe id.
   Some (p, w): w is sent on pipe p (if it still exists); None: nothing is sent *)
Definition dev_reply (F : famops) (w : list N) : option (N * list N) :=
  match f_back_recv F w with
  | RDeliver m =>
      match f_front_send F (device_pass m) with
      | Some (p, m') => Some (p, wire_of m')
      | None => None
      end
  | _ => None
  end.

(* ------------------------------------------------------------------ chains *)
Inductive cres :=
| CArrive (w : list N)     (* reaches the far end's transport *)
| CDropAt (i : nat)        (* discarded by the receiving socket of device i (1-based) *)
| CCloseAt (i : nat).      (* rejected as garbage by device i *)

(* hops in travel order; the second component lists what each device crossed put on the wire *)
Fixpoint chain_req (F : famops) (i : nat) (hops : list hop) (w : list N) : cres * list (list N) :=
  match hops with
  | [] => (CArrive w, [])
  | h :: r =>
      match dev_request F h w with
      | FwdSend w' => let '(c, tr) := chain_req F (S i) r w' in (c, w' :: tr)
      | FwdDrop => (CDropAt i, [])
      | FwdClose | FwdStop => (CCloseAt i, [])
      end
  end.

(* the reply through n devices (nearest to the replier first): final wire, and the pipe each
   device chose *)
Fixpoint chain_rep (F : famops) (n : nat) (w : list N) : option (list N) * list N :=
  match n with
  | 0 => (Some w, [])
  | S n' =>
      match dev_reply F w with
      | Some (p, w') => let '(c, ps) := chain_rep F n' w' in (c, p :: ps)
      | None => (None, [])
      end
  end.

Inductive rtres :=
| RtLostAt (i : nat) (forwards : nat)            (* request discarded by device i after `forwards` forwards *)
| RtLostAtReplier (forwards : nat)               (* request discarded by the replier / respondent *)
| RtGarbage (i : nat)                            (* somebody was disconnected as "speaking garbage" *)
| RtReplyLost (routes : list N)                  (* the reply did not make it back *)
| RtDone (req_body : list N) (bt : list N) (routes : list N) (id : N) (rep_body : list N).
                                                 (* what the replier got; the saved backtrace; the pipe chosen by each
                                                    device on the way back; what the requester's socket receives *)

(* requester with id, through hops, replier with ttl tr answering rbody *)
Definition roundtrip (F : famops) (hops : list hop) (tr : nat) (id : N) (body rbody : list N) : rtres :=
  match chain_req F 1 hops (orig_send id body) with
  | (CDropAt i, tr') => RtLostAt i (length tr')
  | (CCloseAt i, _) => RtGarbage i
  | (CArrive w, tr') =>
      match f_cooked_recv F tr w with
      | RDrop => RtLostAtReplier (length tr')
      | RClose => RtGarbage (S (length hops))
      | RDeliver m =>
          match chain_rep F (length hops) (cooked_reply (pm_hdr m) rbody) with
          | (None, ps) => RtReplyLost ps
          | (Some wf, ps) =>
              match f_orig_recv F wf with
              | Some (id', b') => RtDone (pm_body m) (pm_hdr m) ps id' b'
              | None => RtGarbage 0
              end
          end
      end
  end.

(* the first hop whose ttl is exceeded: a request that has crossed i-1 devices carries i words *)
Fixpoint first_fail (i : nat) (hops : list hop) : option nat :=
  match hops with
  | [] => None
  | h :: r => if h_ttl h <? i then Some i else first_fail (S i) r
  end.

(* ------------------------------------------------------------------ PAIRv1 *)
Definition K1raw : PairModel.pkind := PairModel.K1 true.
Definition K1cooked : PairModel.pkind := PairModel.K1 false.

(* what a pair1 socket (cooked or raw: same code) makes of a wire message *)
Definition pair1_recv (ttl : nat) (w : list N) : rres :=
  match PairModel.rx_decode K1raw ttl (mkPmsg [] w) with
  | PairModel.RxOk m => RDeliver m
  | PairModel.RxDrop => RDrop
  | PairModel.RxBad => RClose
  end.
(* raw / cooked sock_send + pipe_send: None = NNG_EPROTO *)
Definition pair1_send (raw : bool) (m : pmsg) : option (list N) :=
  match PairModel.norm_send (PairModel.K1 raw) m with
  | Some m' => Some (wire_of (PairModel.wire_form (PairModel.K1 raw) m'))
  | None => None
  end.
(* a device between two raw pair1 sockets (or a reflector on one) *)
Definition pair1_dev (ttl : nat) (w : list N) : fwd :=
  match pair1_recv ttl w with
  | RDeliver m => match pair1_send true (device_pass m) with Some w' => FwdSend w' | None => FwdStop end
  | RDrop => FwdDrop
  | RClose => FwdClose
  end.
Fixpoint pair1_chain (i : nat) (ttls : list nat) (w : list N) : cres * list (list N) :=
  match ttls with
  | [] => (CArrive w, [])
  | t :: r =>
      match pair1_dev t w with
      | FwdSend w' => let '(c, tr) := pair1_chain (S i) r w' in (c, w' :: tr)
      | FwdDrop => (CDropAt i, [])
      | FwdClose | FwdStop => (CCloseAt i, [])
      end
  end.

(* ------------------------------------------------------------------ BUS raw *)
(* receive on pipe p: the pipe id is appended to the (empty) header; the device passes the message on;
   the raw send trims that word and skips the pipe with that id.  Result: (pipe to skip, wire). *)
Definition bus_dev (p : N) (w : list N) : N * list N :=
  let m := mkPmsg ([] ++ BusModel.enc32 p) w in
  let '(sender, m') := BusModel.bus_prep true (device_pass m) in
  (sender, wire_of m').

(* ------------------------------------------------------------------ arbitrary topologies
   A topology is a graph of forwarders: a message that arrives at node v (on pipe p) and is
   forwarded appears on every out-edge of v -- an over-approximation of the real fan-out (REQ
   picks one pipe, SURVEYOR and BUS all, PAIR has one).  Cycles are allowed: `edges` is any
   function. *)
Section Flood.
  Variable node : Type.
  Variable forward : node -> N -> list N -> option (list N).   (* node, arrival pipe, wire -> forwarded wire *)
  Variable edges : node -> list (node * N).                    (* where the far side is connected: (node, its pipe) *)

  Definition arrival := (node * N * list N)%type.
  Definition flood_step (live : list arrival) : list arrival :=
    flat_map (fun a : arrival =>
                let '(v, p, w) := a in
                match forward v p w with
                | Some w' => map (fun e : node * N => (fst e, snd e, w')) (edges v)
                | None => []
                end) live.
  Fixpoint flood (g : nat) (live : list arrival) : list arrival :=
    match g with 0 => live | S g' => flood g' (flood_step live) end.
  (* number of forwards performed in g generations *)
  Fixpoint flood_forwards (g : nat) (live : list arrival) : nat :=
    match g with
    | 0 => 0
    | S g' => length (filter (fun a : arrival => let '(v, p, w) := a in
                                 match forward v p w with Some _ => true | None => false end) live)
              + flood_forwards g' (flood_step live)
    end.
End Flood.

Definition fam_forward (F : famops) (ttl : nat -> nat) (v : nat) (p : N) (w : list N) : option (list N) :=
  match dev_request F (mkHop p (ttl v)) w with FwdSend w' => Some w' | _ => None end.
Definition pair1_forward (ttl : nat -> nat) (v : nat) (p : N) (w : list N) : option (list N) :=
  match pair1_dev (ttl v) w with FwdSend w' => Some w' | _ => None end.
Definition bus_forward (v : nat) (p : N) (w : list N) : option (list N) := Some (snd (bus_dev p w)).
