(* RouteProofs: devices, chains, loops -- lemmas behind Props/Properties_C13.v.
   Everything about REQ/REP and SURVEYOR/RESPONDENT is proved once, for any family F that
   satisfies RouteWords.famlaws (both do: reqrep_laws, survey_laws). *)
From Coq Require Import List Arith NArith Bool Lia.
From NngV Require Import Proto.Common Route.RouteModel Route.RouteWords.
From NngV Require Proto.ReqRepBacktrace Proto.SurveyBacktrace Proto.PairModel Proto.BusModel.
Import ListNotations.

(* ====================================================================== device.c *)
Lemma device_pass_id m : device_pass m = m.
Proof. reflexivity. Qed.

Definition gots (o : list dout) : list pmsg := flat_map (fun x => match x with DoGot m => [m] | _ => [] end) o.
Definition sents (o : list dout) : list pmsg := flat_map (fun x => match x with DoSend m => [m] | _ => [] end) o.
Definition frees (o : list dout) : list pmsg := flat_map (fun x => match x with DoFree m => [m] | _ => [] end) o.

Lemma gots_app a b : gots (a ++ b) = gots a ++ gots b. Proof. apply flat_map_app. Qed.
Lemma sents_app a b : sents (a ++ b) = sents a ++ sents b. Proof. apply flat_map_app. Qed.
Lemma frees_app a b : frees (a ++ b) = frees a ++ frees b. Proof. apply flat_map_app. Qed.

(* one callback: the shapes of its output *)
Lemma device_cb_shapes p drv rv got :
  let o := snd (device_cb true p drv rv got) in
  let p' := fst (device_cb true p drv rv got) in
  (exists m, o = [DoGot m; DoSend m] /\ dp_st p = DRecv /\ got = Some m /\ p' = mkDP DSend (Some m)) \/
  (exists m e, o = [DoGot m; DoFree m; DoStop e] /\ dp_st p = DRecv /\ got = Some m /\ dp_st p' = DFini) \/
  (gots o = [] /\ sents o = [] /\ (dp_st p = DFini -> dp_st p' = DFini) /\
   (forall m, In m (frees o) -> dp_st p = DSend /\ dp_msg p = Some m /\ dp_st p' = DFini)).
Proof.
  destruct p as [st msg]. unfold device_cb. cbn [dp_st dp_msg].
  destruct st, (N.eqb rv 0) eqn:Erv, (N.eqb drv 0) eqn:Ed, got as [g|], msg as [q|];
    cbn [negb orb fst snd app dp_st dp_msg]; rewrite ?Erv, ?Ed;
    cbn [negb orb fst snd app dp_st dp_msg gots sents frees flat_map];
    first [ left; eexists; repeat split; reflexivity
          | right; left; do 2 eexists; repeat split; reflexivity
          | right; right; split; [reflexivity|split; [reflexivity|split;
              [intros; first [reflexivity|congruence]
              |intros m Hm; cbn in Hm; first [contradiction|destruct Hm as [<-|[]]; repeat split; reflexivity]]]] ].
Qed.

(* once finished a path stays finished and neither receives nor sends nor frees *)
Lemma device_fini_quiet : forall evs p o p', dp_st p = DFini -> device_run true p evs = (p', o) ->
  gots o = [] /\ sents o = [] /\ frees o = [].
Proof.
  induction evs as [|[[drv rv] got] r IH]; intros p o p' Hp H; cbn [device_run] in H.
  - inversion H; subst. auto.
  - destruct (device_cb true p drv rv got) as [p1 o1] eqn:E1. destruct (device_run true p1 r) as [p2 o2] eqn:E2.
    injection H as <- <-. pose proof (device_cb_shapes p drv rv got) as S. rewrite E1 in S. cbn [fst snd] in S.
    destruct S as [(m & _ & St & _)|[(m & e & _ & St & _)|(G & Sn & Fi & Fr)]]; try congruence.
    specialize (IH p1 o2 p2 (Fi Hp) E2). destruct IH as (A & B & C).
    rewrite gots_app, sents_app, frees_app, G, Sn, A, B, C. repeat split; auto.
    destruct (frees o1) as [|x l] eqn:Ef; [reflexivity|]. destruct (Fr x (or_introl eq_refl)) as (X & _). congruence.
Qed.

(* every message a path accepts from the source socket is handed to the destination socket,
   the same message (header and body), in order; the only exception is the last accepted one
   when the device is being shut down, and that one is freed *)
Lemma device_forwards : forall evs p p' o, device_run true p evs = (p', o) ->
  exists rest, gots o = sents o ++ rest /\ (rest = [] \/ exists m, rest = [m] /\ In m (frees o)).
Proof.
  induction evs as [|[[drv rv] got] r IH]; intros p p' o H; cbn [device_run] in H.
  - inversion H; subst. exists []. auto.
  - destruct (device_cb true p drv rv got) as [p1 o1] eqn:E1. destruct (device_run true p1 r) as [p2 o2] eqn:E2.
    injection H as <- <-. pose proof (device_cb_shapes p drv rv got) as S. rewrite E1 in S. cbn [fst snd] in S.
    destruct S as [(m & Eo & _)|[(m & e & Eo & _ & _ & Fi)|(G & Sn & _)]].
    + destruct (IH _ _ _ E2) as (rest & A & B). exists rest. subst o1.
      rewrite gots_app, sents_app, frees_app. cbn [gots sents frees flat_map app]. rewrite A. split; [reflexivity|].
      destruct B as [B|(x & B & C)]; [auto|]. right. exists x. auto.
    + destruct (device_fini_quiet _ _ _ _ Fi E2) as (A & B & C). exists [m]. subst o1.
      rewrite gots_app, sents_app, frees_app, A, B, C. cbn [gots sents frees flat_map app]. split; [reflexivity|].
      right. exists m. cbn. auto.
    + destruct (IH _ _ _ E2) as (rest & A & B). exists rest.
      rewrite gots_app, sents_app, frees_app, G, Sn, A. split; [reflexivity|].
      destruct B as [B|(x & B & C)]; [auto|]. right. exists x. split; [exact B|]. apply in_or_app. auto.
Qed.

(* the pinned form (before fix f044c32): a receive that completed and was then aborted leaves its
   message attached; the callback sees the error in the RECV state and frees nothing *)
Lemma device_pinned_leak m :
  let o := snd (device_run false (fst device_start) [(0%N, 20%N, Some m)]) in
  gots o = [m] /\ sents o = [] /\ frees o = [].
Proof. cbn. auto. Qed.

(* ====================================================================== one device *)
Section Family.
Variable F : famops.
Hypothesis L : famlaws F.

Definition pid_ok (p : N) : Prop := (p < HI32)%N.
Definition id_ok (id : N) : Prop := (REQ_ID_MIN <= id <= REQ_ID_MAX)%N.
Definition hop_ok (h : hop) : Prop := pid_ok (h_pid h) /\ h_ttl h <= RT_TTL_MAX.

Lemma pid_lt p : pid_ok p -> (p < W32)%N.
Proof. unfold pid_ok, HI32, W32. lia. Qed.
Lemma pid_nonend p : pid_ok p -> nonend F (word_be p).
Proof.
  intros H. unfold nonend. rewrite (law_end F L) by (apply pid_lt; exact H).
  unfold pid_ok in H. apply N.leb_gt. exact H.
Qed.
Lemma pids_nonend ps : Forall pid_ok ps -> Forall (nonend F) (map word_be ps).
Proof. induction 1; constructor; auto using pid_nonend. Qed.
Lemma id_isend id : id_ok id -> isend F (word_be id) /\ (id < W32)%N.
Proof.
  unfold id_ok, REQ_ID_MIN, REQ_ID_MAX. intros H. assert (I : (id < W32)%N) by (unfold W32; lia). split; [|exact I].
  unfold isend. rewrite (law_end F L) by exact I. apply N.leb_le. unfold HI32. lia.
Qed.

(* the body is never touched, in either direction, whatever the wire looks like *)
Lemma dev_request_any h w w' : dev_request F h w = FwdSend w' -> w' = be32 (h_pid h) ++ w.
Proof.
  unfold dev_request. destruct (f_front_recv F (h_pid h) (h_ttl h) w) eqn:E; try discriminate.
  intros H. inversion H; subst. rewrite device_pass_id. unfold back_send.
  apply (law_front_any F L) in E. tauto.
Qed.
Lemma dev_reply_any w p w' : dev_reply F w = Some (p, w') ->
  exists a b c d, w = [a; b; c; d] ++ w'.
Proof.
  unfold dev_reply. destruct (f_back_recv F w) eqn:E; try discriminate.
  rewrite device_pass_id. destruct (f_front_send F m) as [[q m']|] eqn:S; try discriminate.
  intros H. inversion H; subst. apply (law_back_any F L) in E. destruct E as (E & _).
  apply (law_send_any F L) in S. destruct S as (a & b & c & d & S1 & S2). exists a, b, c, d.
  rewrite <- E. unfold wire_of, ReqRepBacktrace.wire_of. rewrite S1, S2, <- app_assoc. reflexivity.
Qed.

(* a well-formed request that has crossed `length acc` devices (their pipes: acc, latest first) *)
Lemma dev_request_wf h acc id body : hop_ok h -> Forall pid_ok acc -> id_ok id ->
  dev_request F h (flatp acc ++ be32 id ++ body) =
    if length acc <? h_ttl h then FwdSend (flatp (h_pid h :: acc) ++ be32 id ++ body) else FwdDrop.
Proof.
  intros [Hp Ht] Ha Hid. destruct (id_isend id Hid) as [Ie _]. unfold dev_request.
  unfold flatp at 1. rewrite be32_wb.
  rewrite (law_front F L (map word_be acc) (word_be id) body (h_pid h) (h_ttl h) (pids_nonend acc Ha) Ie Ht).
  rewrite map_length. destruct (length acc <? h_ttl h); [|reflexivity].
  rewrite device_pass_id. unfold back_send, wire_of, ReqRepBacktrace.wire_of. cbn [pm_hdr pm_body].
  rewrite flatp_cons, <- !app_assoc. reflexivity.
Qed.

Lemma dev_reply_wf p ps id body : pid_ok p -> Forall pid_ok ps -> id_ok id -> length ps < 15 ->
  dev_reply F (flatp (p :: ps) ++ be32 id ++ body) = Some (p, flatp ps ++ be32 id ++ body).
Proof.
  intros Hp Hps Hid Hl. destruct (id_isend id Hid) as [Ie _]. unfold dev_reply.
  unfold flatp at 1. rewrite be32_wb.
  rewrite (law_back F L (map word_be (p :: ps)) (word_be id) body (pids_nonend _ (Forall_cons _ Hp Hps)) Ie)
    by (rewrite map_length; cbn [length]; lia).
  rewrite device_pass_id. fold (flatp (p :: ps)). rewrite flatp_cons, <- app_assoc.
  rewrite (law_send F L) by (apply pid_lt; exact Hp).
  unfold wire_of, ReqRepBacktrace.wire_of. cbn [pm_hdr pm_body]. rewrite <- app_assoc. reflexivity.
Qed.

(* ====================================================================== chains *)
(* what each device crossed puts on the wire: one more pipe id in front each time *)
Fixpoint trace_spec (acc pids : list N) (tail : list N) : list (list N) :=
  match pids with
  | [] => []
  | p :: r => (flatp (p :: acc) ++ tail) :: trace_spec (p :: acc) r tail
  end.
Definition crossed (i : nat) (hops : list hop) : nat :=
  match first_fail i hops with None => length hops | Some k => k - i end.

Lemma trace_spec_length acc pids tail : length (trace_spec acc pids tail) = length pids.
Proof. revert acc. induction pids as [|p r IH]; intros acc; cbn; auto. Qed.

Lemma first_fail_ge : forall hops i k, first_fail i hops = Some k -> i <= k < i + length hops.
Proof.
  induction hops as [|h r IH]; intros i k H; cbn [first_fail] in H; [discriminate|].
  destruct (h_ttl h <? i); [inversion H; cbn [length]; lia|]. apply IH in H. cbn [length]. lia.
Qed.

Lemma chain_req_wf : forall hops acc i id body,
  Forall hop_ok hops -> Forall pid_ok acc -> id_ok id -> i = S (length acc) ->
  chain_req F i hops (flatp acc ++ be32 id ++ body) =
    (match first_fail i hops with
     | None => CArrive (flatp (rev (map h_pid hops) ++ acc) ++ be32 id ++ body)
     | Some k => CDropAt k
     end,
     trace_spec acc (map h_pid (firstn (crossed i hops) hops)) (be32 id ++ body)).
Proof.
  induction hops as [|h r IH]; intros acc i id body Hh Ha Hid Hi.
  - reflexivity.
  - inversion Hh as [|x l Hh1 Hh2]; subst x l. cbn [chain_req]. rewrite dev_request_wf by assumption.
    unfold crossed. cbn [first_fail]. subst i.
    destruct (length acc <? h_ttl h) eqn:E.
    + assert (E' : (h_ttl h <? S (length acc)) = false) by (apply Nat.ltb_ge; apply Nat.ltb_lt in E; lia).
      rewrite E'.
      rewrite (IH (h_pid h :: acc) (S (S (length acc))) id body Hh2 (Forall_cons _ (proj1 Hh1) Ha) Hid eq_refl).
      unfold crossed. destruct (first_fail (S (S (length acc))) r) as [k|] eqn:Ef.
      * apply first_fail_ge in Ef as G. replace (k - S (length acc)) with (S (k - S (S (length acc)))) by lia.
        cbn [firstn map trace_spec]. reflexivity.
      * cbn [length firstn map trace_spec rev]. rewrite <- app_assoc. reflexivity.
    + assert (E' : (h_ttl h <? S (length acc)) = true) by (apply Nat.ltb_lt; apply Nat.ltb_ge in E; lia).
      rewrite E'. rewrite Nat.sub_diag. reflexivity.
Qed.

Lemma chain_rep_wf : forall ps id body, Forall pid_ok ps -> id_ok id -> length ps <= 15 ->
  chain_rep F (length ps) (flatp ps ++ be32 id ++ body) = (Some (be32 id ++ body), ps).
Proof.
  induction ps as [|p ps IH]; intros id body Hp Hid Hl; [reflexivity|].
  inversion Hp as [|x l H1 H2]; subst. cbn [length chain_rep]. cbn [length] in Hl.
  rewrite dev_reply_wf by (auto; lia). rewrite IH by (auto; lia). reflexivity.
Qed.

(* the replier / respondent at the end of the chain *)
Lemma replier_wf ps id body tr : Forall pid_ok ps -> id_ok id -> tr <= RT_TTL_MAX ->
  f_cooked_recv F tr (flatp ps ++ be32 id ++ body) =
    if length ps <? tr then RDeliver (mkPmsg (flatp ps ++ be32 id) body) else RDrop.
Proof.
  intros Hp Hid Ht. destruct (id_isend id Hid) as [Ie _]. unfold flatp. rewrite be32_wb.
  rewrite (law_cooked F L (map word_be ps) (word_be id) body tr (pids_nonend ps Hp) Ie Ht).
  rewrite map_length. reflexivity.
Qed.

Lemma first_fail_none : forall hops i, first_fail i hops = None <-> (forall j h, nth_error hops j = Some h -> i + j <= h_ttl h).
Proof.
  induction hops as [|h r IH]; intros i; cbn [first_fail].
  - split; auto. intros _ j h H. destruct j; discriminate.
  - destruct (h_ttl h <? i) eqn:E.
    + split; [discriminate|]. intros H. specialize (H 0 h eq_refl). apply Nat.ltb_lt in E. lia.
    + apply Nat.ltb_ge in E. rewrite IH. split.
      * intros H j x Hj. destruct j; cbn in Hj; [inversion Hj; subst; lia|]. apply H in Hj. lia.
      * intros H j x Hj. specialize (H (S j) x Hj). lia.
Qed.
Lemma first_fail_some : forall hops i k, first_fail i hops = Some k ->
  exists h, nth_error hops (k - i) = Some h /\ h_ttl h < k /\
            forall j x, j < k - i -> nth_error hops j = Some x -> i + j <= h_ttl x.
Proof.
  induction hops as [|h r IH]; intros i k H; cbn [first_fail] in H; [discriminate|].
  destruct (h_ttl h <? i) eqn:E.
  - inversion H; subst. rewrite Nat.sub_diag. exists h. apply Nat.ltb_lt in E. repeat split; auto. intros j x Hj. lia.
  - apply Nat.ltb_ge in E. pose proof (first_fail_ge _ _ _ H) as G. destruct (IH _ _ H) as (x & A & B & C).
    exists x. replace (k - i) with (S (k - S i)) by lia. cbn [nth_error]. repeat split; auto.
    intros j y Hj Hy. destruct j; cbn in Hy; [inversion Hy; subst; lia|]. specialize (C j y ltac:(lia) Hy). lia.
Qed.

Lemma orig_send_eq id body : orig_send id body = flatp [] ++ be32 id ++ body.
Proof. reflexivity. Qed.

(* the whole round trip *)
Lemma roundtrip_wf hops tr id body rbody :
  Forall hop_ok hops -> tr <= RT_TTL_MAX -> id_ok id ->
  roundtrip F hops tr id body rbody =
    match first_fail 1 hops with
    | Some k => RtLostAt k (k - 1)
    | None =>
        if length hops <? tr
        then RtDone body (flatp (rev (map h_pid hops)) ++ be32 id) (rev (map h_pid hops)) id rbody
        else RtLostAtReplier (length hops)
    end.
Proof.
  intros Hh Ht Hid. unfold roundtrip. rewrite orig_send_eq.
  rewrite (chain_req_wf hops [] 1 id body Hh (Forall_nil _) Hid eq_refl).
  assert (Hps : Forall pid_ok (rev (map h_pid hops))).
  { apply Forall_rev. apply Forall_map. eapply Forall_impl; [|exact Hh]. intros a [A _]. exact A. }
  destruct (first_fail 1 hops) as [k|] eqn:Ef.
  - rewrite trace_spec_length, map_length. unfold crossed. rewrite Ef.
    apply first_fail_ge in Ef. rewrite firstn_length. f_equal. lia.
  - rewrite app_nil_r. rewrite replier_wf by assumption.
    rewrite rev_length, map_length.
    destruct (length hops <? tr) eqn:E.
    + cbn [pm_hdr pm_body]. unfold cooked_reply, wire_of, ReqRepBacktrace.wire_of. cbn [pm_hdr pm_body].
      rewrite <- app_assoc.
      replace (length hops) with (length (rev (map h_pid hops))) at 1 by (rewrite rev_length, map_length; reflexivity).
      rewrite chain_rep_wf; auto.
      * destruct (id_isend id Hid) as [_ I]. rewrite (law_orig F L) by exact I. reflexivity.
      * rewrite rev_length, map_length. apply Nat.ltb_lt in E. unfold RT_TTL_MAX in Ht. lia.
    + rewrite trace_spec_length, map_length. unfold crossed. rewrite Ef. rewrite firstn_all. reflexivity.
Qed.

End Family.

(* ====================================================================== loops, generically *)
Section FloodBound.
  Variable node : Type.
  Variable forward : node -> N -> list N -> option (list N).
  Variable edges : node -> list (node * N).
  Variable edge_ok : N -> Prop.
  Variable lead : nat -> list N -> Prop.      (* "has crossed at least g forwarders" *)
  Variable T : nat.
  Hypothesis fwd_lead : forall v p w w' g, edge_ok p -> lead g w -> forward v p w = Some w' -> g < T /\ lead (S g) w'.
  Hypothesis edges_ok : forall v u p, In (u, p) (edges v) -> edge_ok p.

  Definition live_inv (g : nat) (live : list (node * N * list N)) : Prop :=
    forall v p w, In (v, p, w) live -> edge_ok p /\ lead g w.

  Lemma flood_step_inv g live : live_inv g live -> live_inv (S g) (flood_step node forward edges live).
  Proof.
    intros I v p w H. unfold flood_step in H. apply in_flat_map in H. destruct H as ([[v0 p0] w0] & Hin & H).
    destruct (forward v0 p0 w0) as [w'|] eqn:E; [|destruct H].
    apply in_map_iff in H. destruct H as ([u q] & Eq & Hq). cbn [fst snd] in Eq. inversion Eq; subst.
    destruct (I _ _ _ Hin) as [A B]. split; [eapply edges_ok; eauto|]. eapply fwd_lead; eauto.
  Qed.
  Lemma flood_step_dead g live : live_inv g live -> T <= g -> flood_step node forward edges live = [].
  Proof.
    intros I Hg. unfold flood_step. induction live as [|[[v p] w] r IH]; [reflexivity|]. cbn [flat_map].
    destruct (forward v p w) as [w'|] eqn:E.
    - destruct (I v p w (or_introl eq_refl)) as [A B]. destruct (fwd_lead _ _ _ _ _ A B E). lia.
    - cbn [app]. apply IH. intros v' p' w' H. apply (I v' p' w'). right. exact H.
  Qed.
  Lemma flood_nil g : flood node forward edges g [] = [].
  Proof. induction g; cbn; auto. Qed.
  Lemma flood_forwards_nil g : flood_forwards node forward edges g [] = 0.
  Proof. induction g; cbn; auto. Qed.

  Lemma flood_dies_from : forall k g live, live_inv g live -> T <= g + k -> flood node forward edges (S k) live = [].
  Proof.
    induction k as [|k IH]; intros g live I Hg.
    - cbn [flood]. eapply flood_step_dead; eauto. lia.
    - change (flood node forward edges (S (S k)) live) with (flood node forward edges (S k) (flood_step node forward edges live)).
      apply (IH (S g)); [apply flood_step_inv; exact I|lia].
  Qed.

  (* nothing is alive after T + 1 generations, whatever the graph; no forward happens after generation T *)
  Theorem flood_dies live : live_inv 0 live -> flood node forward edges (S T) live = [].
  Proof. intros I. apply (flood_dies_from T 0 live I). lia. Qed.

  Lemma flood_forwards_stable_from : forall k g live, live_inv g live -> T <= g ->
    flood_forwards node forward edges k live = 0.
  Proof.
    induction k as [|k IH]; intros g live I Hg; [reflexivity|]. cbn [flood_forwards].
    rewrite (flood_step_dead g live I Hg), flood_forwards_nil.
    match goal with |- length (filter ?f live) + _ = 0 => assert (Z : filter f live = []) end.
    { induction live as [|[[v p] w] r IHl]; [reflexivity|]. cbn [filter].
      destruct (forward v p w) as [w'|] eqn:E.
      - destruct (I v p w (or_introl eq_refl)) as [A B]. destruct (fwd_lead _ _ _ _ _ A B E). lia.
      - apply IHl. intros v' p' w' H. apply (I v' p' w'). right. exact H. }
    rewrite Z. reflexivity.
  Qed.
  Theorem flood_forwards_bounded : forall k g live, live_inv g live ->
    flood_forwards node forward edges (T - g + k) live = flood_forwards node forward edges (T - g) live.
  Proof.
    intros k g live. revert k. remember (T - g) as d eqn:Ed. revert g live Ed.
    induction d as [|d IH]; intros g live Ed k I.
    - cbn [plus flood_forwards]. apply (flood_forwards_stable_from k g live I). lia.
    - cbn [plus flood_forwards]. f_equal. apply (IH (S g)); [lia|apply flood_step_inv; exact I].
  Qed.
End FloodBound.

(* ---- the two routed families *)
Section FamilyLoops.
Variable F : famops.
Hypothesis L : famlaws F.

Definition fam_lead (g : nat) (w : list N) : Prop :=
  exists ws rest, w = flat ws ++ rest /\ Forall (nonend F) ws /\ length ws = g.

Lemma fam_lead0 w : fam_lead 0 w.
Proof. exists [], w. repeat split; auto. Qed.

Lemma fam_fwd_lead (ttl : nat -> nat) T (Httl : forall v, ttl v <= T) :
  forall v p w w' g, pid_ok p -> fam_lead g w -> fam_forward F ttl v p w = Some w' -> g < T /\ fam_lead (S g) w'.
Proof.
  intros v p w w' g Hp (ws & rest & Ew & Hw & Hl) H. unfold fam_forward in H.
  destruct (dev_request F (mkHop p (ttl v)) w) as [x| | |] eqn:E; try discriminate. inversion H; subst x.
  pose proof (dev_request_any F L _ _ _ E) as Ew'. cbn [h_pid] in Ew'.
  unfold dev_request in E. cbn [h_pid h_ttl] in E.
  destruct (f_front_recv F p (ttl v) w) as [m| |] eqn:R; try discriminate.
  rewrite Ew in R. apply (law_lead F L) in R; [|exact Hw]. specialize (Httl v). split; [lia|].
  exists (word_be p :: ws), rest. rewrite Ew', Ew, flat_cons, <- be32_wb, <- app_assoc. repeat split; auto.
  - constructor; [apply pid_nonend; assumption|exact Hw].
  - cbn [length]. lia.
Qed.

(* in ANY topology (cycles included) of raw REP|REQ or RESPONDENT|SURVEYOR devices whose receiving
   sockets have ttl <= T, and for ANY initial wire messages: after T + 1 generations nothing is left *)
Theorem fam_loops_die (ttl : nat -> nat) (edges : nat -> list (nat * N)) T live :
  (forall v, ttl v <= T) ->
  (forall v u p, In (u, p) (edges v) -> pid_ok p) ->
  (forall v p w, In (v, p, w) live -> pid_ok p) ->
  flood nat (fam_forward F ttl) edges (S T) live = [].
Proof.
  intros Httl He Hl.
  apply (flood_dies nat (fam_forward F ttl) edges pid_ok fam_lead T (fam_fwd_lead ttl T Httl) He).
  intros v p w H. split; [eapply Hl; eauto|apply fam_lead0].
Qed.
Theorem fam_forwards_bounded (ttl : nat -> nat) (edges : nat -> list (nat * N)) T live k :
  (forall v, ttl v <= T) ->
  (forall v u p, In (u, p) (edges v) -> pid_ok p) ->
  (forall v p w, In (v, p, w) live -> pid_ok p) ->
  flood_forwards nat (fam_forward F ttl) edges (T + k) live = flood_forwards nat (fam_forward F ttl) edges T live.
Proof.
  intros Httl He Hl.
  pose proof (flood_forwards_bounded nat (fam_forward F ttl) edges pid_ok fam_lead T (fam_fwd_lead ttl T Httl) He k 0 live) as B.
  rewrite Nat.sub_0_r in B. apply B. intros v p w H. split; [eapply Hl; eauto|apply fam_lead0].
Qed.

(* along a single path: at most T forwards *)
Theorem fam_walk_bounded : forall hops w T, Forall (fun h => pid_ok (h_pid h) /\ h_ttl h <= T) hops ->
  forall i, length (snd (chain_req F i hops w)) <= T.
Proof.
  intros hops w T Hh.
  assert (G : forall hops g w i, Forall (fun h => pid_ok (h_pid h) /\ h_ttl h <= T) hops -> fam_lead g w -> g <= T ->
              length (snd (chain_req F i hops w)) <= T - g).
  { clear hops w Hh. induction hops as [|h r IH]; intros g w i Hh Hl Hg; cbn [chain_req]; [cbn; lia|].
    inversion Hh as [|x l [Hp Ht] H2]; subst.
    destruct (dev_request F h w) as [w'| | |] eqn:E; try (cbn; lia).
    assert (FW : fam_forward F (fun _ => h_ttl h) 0 (h_pid h) w = Some w').
    { unfold fam_forward. destruct h as [hp ht]. cbn [h_pid h_ttl]. rewrite E. reflexivity. }
    destruct (fam_fwd_lead (fun _ => h_ttl h) T (fun _ => Ht) 0 (h_pid h) w w' g Hp Hl FW) as [A B].
    destruct (chain_req F (S i) r w') as [c tr] eqn:Ec. cbn [snd length].
    specialize (IH (S g) w' (S i) H2 B ltac:(lia)). rewrite Ec in IH. cbn [snd] in IH. lia. }
  intros i. specialize (G hops 0 w i Hh (fam_lead0 w) ltac:(lia)). lia.
Qed.

(* every wire whatsoever: Deliver / Drop / Close, bytes only moved, header within capacity;
   more than ttl hop words are never letin *)
Theorem fam_total_bounded p ttl w :
  (match f_front_recv F p ttl w with
   | RDeliver m => wire_of m = be32 p ++ w /\ length (pm_hdr m) <= RT_HEADER_MAX /\ length (pm_hdr m) <= 4 + 4 * ttl
   | _ => True end) /\
  (match f_cooked_recv F ttl w with
   | RDeliver m => wire_of m = w /\ length (pm_hdr m) <= RT_HEADER_MAX /\ length (pm_hdr m) <= 4 * ttl
   | _ => True end) /\
  (match f_back_recv F w with
   | RDeliver m => wire_of m = w /\ length (pm_hdr m) <= RT_HEADER_MAX
   | RDrop => False
   | RClose => True end).
Proof.
  split; [|split].
  - destruct (f_front_recv F p ttl w) eqn:E; auto. apply (law_front_any F L) in E. tauto.
  - destruct (f_cooked_recv F ttl w) eqn:E; auto. apply (law_cooked_any F L) in E. tauto.
  - destruct (f_back_recv F w) eqn:E; auto.
    + apply (law_back_any F L) in E. tauto.
    + now apply (law_back_nodrop F L) in E.
Qed.

Theorem fam_overlong_never_letin ws rest p ttl : Forall (nonend F) ws -> ttl <= length ws ->
  (forall m, f_front_recv F p ttl (flat ws ++ rest) <> RDeliver m) /\
  (forall m, f_cooked_recv F ttl (flat ws ++ rest) <> RDeliver m).
Proof.
  intros Hw Hl. split; intros m H.
  - apply (law_lead F L) in H; auto. lia.
  - apply (law_lead_cooked F L) in H; auto. lia.
Qed.
Theorem fam_back_overlong ws rest : Forall (nonend F) ws -> 16 <= length ws ->
  f_back_recv F (flat ws ++ rest) = RClose.
Proof.
  intros Hw Hl. destruct (f_back_recv F (flat ws ++ rest)) eqn:E; auto.
  - apply (law_lead_back F L) in E; auto. lia.
  - now apply (law_back_nodrop F L) in E.
Qed.
End FamilyLoops.
