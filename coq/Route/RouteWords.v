(* RouteWords: 32-bit words as byte quadruples, and the laws of the two routed families
   (REQ/REP, SURVEYOR/RESPONDENT) in one common form, proved from the transformer
   definitions of Proto/ReqRepBacktrace.v and Proto/SurveyBacktrace.v. *)
From Coq Require Import List Arith NArith Bool Lia.
From NngV Require Import Proto.Common Route.RouteModel.
From NngV Require Proto.ReqRepBacktrace Proto.SurveyBacktrace.
Import ListNotations.

Definition word := (N * N * N * N)%type.
Definition wb (w : word) : list N := let '(a, b, c, d) := w in [a; b; c; d].
Definition w0 (w : word) : N := let '(a, _, _, _) := w in a.
Definition flat (ws : list word) : list N := flat_map wb ws.
Definition word_be (v : N) : word :=
  ((v / 16777216) mod 256, (v / 65536) mod 256, (v / 256) mod 256, v mod 256)%N.
Definition flatp (ps : list N) : list N := flat (map word_be ps).

Lemma be32_wb v : be32 v = wb (word_be v).
Proof. reflexivity. Qed.
Lemma be32_sv v : SurveyBacktrace.be32 v = be32 v.
Proof. reflexivity. Qed.
Lemma be32_length v : length (be32 v) = 4.
Proof. reflexivity. Qed.
Lemma wb_length w : length (wb w) = 4.
Proof. destruct w as [[[a b] c] d]. reflexivity. Qed.
Lemma flat_length ws : length (flat ws) = 4 * length ws.
Proof. induction ws as [|w ws IH]; [reflexivity|]. cbn [flat flat_map]. rewrite app_length, wb_length. fold (flat ws). rewrite IH. cbn [length]. lia. Qed.
Lemma flat_cons w ws : flat (w :: ws) = wb w ++ flat ws.
Proof. reflexivity. Qed.
Lemma flat_app a b : flat (a ++ b) = flat a ++ flat b.
Proof. unfold flat. apply flat_map_app. Qed.
Lemma flatp_cons p ps : flatp (p :: ps) = be32 p ++ flatp ps.
Proof. reflexivity. Qed.
Lemma flatp_app a b : flatp (a ++ b) = flatp a ++ flatp b.
Proof. unfold flatp. rewrite map_app. apply flat_app. Qed.
Lemma flatp_length ps : length (flatp ps) = 4 * length ps.
Proof. unfold flatp. rewrite flat_length, map_length. reflexivity. Qed.

(* the bytes of a 32-bit value, recombined *)
Lemma be_bytes v : (v < W32)%N ->
  let '(a, b, c, d) := word_be v in
  (a < 256 /\ b < 256 /\ c < 256 /\ d < 256 /\ a * 16777216 + b * 65536 + c * 256 + d = v)%N.
Proof.
  intros H. unfold word_be, W32 in *.
  pose proof (N.div_mod' v 256) as E0.
  pose proof (N.div_mod' (v / 256) 256) as E1.
  pose proof (N.div_mod' (v / 65536) 256) as E2.
  pose proof (N.div_mod' (v / 16777216) 256) as E3.
  assert (D1 : (v / 256 / 256 = v / 65536)%N) by (rewrite N.div_div by lia; reflexivity).
  assert (D2 : (v / 65536 / 256 = v / 16777216)%N) by (rewrite N.div_div by lia; reflexivity).
  assert (D3 : (v / 16777216 / 256 = 0)%N) by (rewrite N.div_div by lia; apply N.div_small; exact H).
  rewrite D1 in E1. rewrite D2 in E2. rewrite D3 in E3.
  pose proof (N.mod_lt v 256). pose proof (N.mod_lt (v / 256) 256).
  pose proof (N.mod_lt (v / 65536) 256). pose proof (N.mod_lt (v / 16777216) 256).
  repeat split; lia.
Qed.
(* the first byte of a 32-bit value has bit 7 set iff the value is >= 2^31 *)
Lemma testbit7 x : (x < 256)%N -> N.testbit x 7 = (128 <=? x)%N.
Proof.
  intros H. rewrite N.testbit_eqb. change (2 ^ 7)%N with 128%N.
  pose proof (N.div_mod' x 128) as E. pose proof (N.mod_lt x 128 ltac:(lia)) as M.
  assert (Q : (x / 128 < 2)%N) by (apply N.div_lt_upper_bound; lia).
  rewrite (N.mod_small (x / 128) 2 Q).
  revert E M Q. generalize (x / 128)%N as q. generalize (x mod 128)%N as r. intros r q E M Q.
  destruct (N.leb_spec 128 x); destruct (N.eqb_spec q 1); auto; exfalso; lia.
Qed.
(* the first byte of a 32-bit value has bit 7 set iff the value is >= 2^31 *)
Lemma be_first v : (v < W32)%N -> (w0 (word_be v) < 256 /\ (128 <=? w0 (word_be v)) = (HI32 <=? v))%N.
Proof.
  intros H. pose proof (be_bytes v H) as B. unfold word_be in *. cbn [w0]. unfold W32, HI32 in *.
  destruct B as (A & B & C & D & E). split; [exact A|].
  revert A B C D E. generalize ((v / 16777216) mod 256)%N as a. generalize ((v / 65536) mod 256)%N as b.
  generalize ((v / 256) mod 256)%N as c. generalize (v mod 256)%N as d. intros d c b a A B C D E.
  destruct (N.leb_spec 128 a); destruct (N.leb_spec 2147483648 v); auto; exfalso; lia.
Qed.

(* ====================================================================== the laws *)
Definition nonend (F : famops) (w : word) : Prop := f_end F (w0 w) = false.
Definition isend (F : famops) (w : word) : Prop := f_end F (w0 w) = true.

Record famlaws (F : famops) : Prop := mkLaws {
  (* a well-terminated backtrace of k hop words: letin iff k + 1 <= ttl, with exactly those words moved *)
  law_front : forall ws wend rest p ttl, Forall (nonend F) ws -> isend F wend -> ttl <= RT_TTL_MAX ->
    f_front_recv F p ttl (flat ws ++ wb wend ++ rest) =
      if length ws <? ttl then RDeliver (mkPmsg (be32 p ++ flat ws ++ wb wend) rest) else RDrop;
  law_cooked : forall ws wend rest ttl, Forall (nonend F) ws -> isend F wend -> ttl <= RT_TTL_MAX ->
    f_cooked_recv F ttl (flat ws ++ wb wend ++ rest) =
      if length ws <? ttl then RDeliver (mkPmsg (flat ws ++ wb wend) rest) else RDrop;
  law_back : forall ws wend rest, Forall (nonend F) ws -> isend F wend -> length ws < 16 ->
    f_back_recv F (flat ws ++ wb wend ++ rest) = RDeliver (mkPmsg (flat ws ++ wb wend) rest);
  law_send : forall p h b, (p < W32)%N -> f_front_send F (mkPmsg (be32 p ++ h) b) = Some (p, mkPmsg h b);
  (* any wire that starts with g hop words is letin only when g < ttl *)
  law_lead : forall ws rest p ttl m, Forall (nonend F) ws ->
    f_front_recv F p ttl (flat ws ++ rest) = RDeliver m -> length ws < ttl;
  law_lead_cooked : forall ws rest ttl m, Forall (nonend F) ws ->
    f_cooked_recv F ttl (flat ws ++ rest) = RDeliver m -> length ws < ttl;
  law_lead_back : forall ws rest m, Forall (nonend F) ws ->
    f_back_recv F (flat ws ++ rest) = RDeliver m -> length ws < 16;
  (* every wire whatsoever: bytes are only moved, and the header stays inside its buffer *)
  law_front_any : forall p ttl w m, f_front_recv F p ttl w = RDeliver m ->
    wire_of m = be32 p ++ w /\ length (pm_hdr m) <= RT_HEADER_MAX /\ length (pm_hdr m) <= 4 + 4 * ttl /\ 8 <= length (pm_hdr m);
  law_cooked_any : forall ttl w m, f_cooked_recv F ttl w = RDeliver m ->
    wire_of m = w /\ length (pm_hdr m) <= RT_HEADER_MAX /\ length (pm_hdr m) <= 4 * ttl /\ 4 <= length (pm_hdr m);
  law_back_any : forall w m, f_back_recv F w = RDeliver m ->
    wire_of m = w /\ length (pm_hdr m) <= RT_HEADER_MAX /\ 4 <= length (pm_hdr m);
  law_back_nodrop : forall w, f_back_recv F w <> RDrop;
  law_send_any : forall m p m', f_front_send F m = Some (p, m') ->
    exists a b c d, pm_hdr m = [a; b; c; d] ++ pm_hdr m' /\ pm_body m' = pm_body m;
  law_send_short : forall m, length (pm_hdr m) < 4 -> f_front_send F m = None;
  law_orig : forall id body, (id < W32)%N -> f_orig_recv F (be32 id ++ body) = Some (id, body);
  law_orig_short : forall w, length w < 4 -> f_orig_recv F w = None;
  law_end : forall v, (v < W32)%N -> f_end F (w0 (word_be v)) = (HI32 <=? v)%N
}.

(* ====================================================================== REQ/REP *)
Module RRP.
Import ReqRepBacktrace.

Lemma step n hdr a b c d rest :
  bt_loop (S n) hdr (a :: b :: c :: d :: rest) =
    if BT_HEADER_MAX <? length hdr + 4 then BtDrop
    else if (128 <=? a)%N then BtDeliver (mkPmsg (hdr ++ [a; b; c; d]) rest)
    else bt_loop n (hdr ++ [a; b; c; d]) rest.
Proof. reflexivity. Qed.

Lemma short n hdr body : length body < 4 -> bt_loop (S n) hdr body = BtClose.
Proof.
  intros H. destruct body as [|a [|b [|c [|d r]]]]; cbn in H; try lia; reflexivity.
Qed.

Lemma terminated : forall ws n hdr wend rest,
  Forall (fun w => (128 <=? w0 w)%N = false) ws -> (128 <=? w0 wend)%N = true ->
  length hdr + 4 * (length ws + 1) <= BT_HEADER_MAX ->
  bt_loop n hdr (flat ws ++ wb wend ++ rest) =
    if length ws <? n then BtDeliver (mkPmsg (hdr ++ flat ws ++ wb wend) rest) else BtDrop.
Proof.
  induction ws as [|[[[a b] c] d] ws IH]; intros n hdr wend rest Hw He Hr.
  - destruct wend as [[[ea eb] ec] ed]. cbn [flat flat_map app length]. destruct n; [reflexivity|].
    cbn [wb app]. rewrite step. cbn [w0] in He. rewrite He.
    assert (R : (BT_HEADER_MAX <? length hdr + 4) = false) by (apply Nat.ltb_ge; cbn [length] in Hr; lia).
    rewrite R. reflexivity.
  - inversion Hw as [|x l H1 H2]; subst. cbn [w0] in H1. destruct n; [reflexivity|].
    rewrite flat_cons. cbn [wb]. rewrite <- !app_assoc. cbn [app]. rewrite step.
    assert (R : (BT_HEADER_MAX <? length hdr + 4) = false) by (apply Nat.ltb_ge; cbn [length] in Hr; lia).
    rewrite R, H1.
    rewrite (IH n (hdr ++ [a; b; c; d]) wend rest H2 He).
    + cbn [length]. change (S (length ws) <? S n) with (length ws <? n).
      destruct (length ws <? n); [|reflexivity]. rewrite <- !app_assoc. reflexivity.
    + rewrite app_length. cbn [length] in *. lia.
Qed.

Lemma lead : forall ws n hdr rest m,
  Forall (fun w => (128 <=? w0 w)%N = false) ws ->
  bt_loop n hdr (flat ws ++ rest) = BtDeliver m -> length ws < n.
Proof.
  induction ws as [|[[[a b] c] d] ws IH]; intros n hdr rest m Hw H.
  - destruct n; [discriminate|cbn [length]; lia].
  - inversion Hw as [|x l H1 H2]; subst. cbn [w0] in H1. destruct n; [discriminate|].
    rewrite flat_cons in H. cbn [wb] in H. rewrite <- app_assoc in H. cbn [app] in H. rewrite step in H.
    destruct (BT_HEADER_MAX <? length hdr + 4); [discriminate|]. rewrite H1 in H.
    apply IH in H; [cbn [length]; lia|exact H2].
Qed.

Lemma any : forall n hdr body m, bt_loop n hdr body = BtDeliver m ->
  exists w, pm_hdr m = hdr ++ w /\ w ++ pm_body m = body /\ length (pm_hdr m) <= BT_HEADER_MAX /\
            length w <= 4 * n /\ 4 <= length w.
Proof.
  induction n as [|n IH]; intros hdr body m H; [discriminate|].
  destruct body as [|a [|b [|c [|d rest]]]]; try (rewrite short in H by (cbn [length]; lia); discriminate).
  rewrite step in H. destruct (BT_HEADER_MAX <? length hdr + 4) eqn:R; [discriminate|]. apply Nat.ltb_ge in R.
  destruct (128 <=? a)%N.
  - inversion H; subst m. cbn [pm_hdr pm_body]. exists [a; b; c; d]. rewrite app_length. cbn [length app].
    repeat split; try reflexivity; lia.
  - apply IH in H. destruct H as (w & H1 & H2 & H3 & H4 & H5). exists ([a; b; c; d] ++ w).
    subst rest. rewrite H1 in *. rewrite !app_length in *. cbn [length] in *. rewrite <- !app_assoc.
    repeat split; try reflexivity; lia.
Qed.

(* raw REQ *)
Lemma xstep f hdr a b c d rest :
  xreq_loop (S f) hdr (a :: b :: c :: d :: rest) =
    if BT_HEADER_MAX <? length hdr + 4 then BtClose
    else if (128 <=? a)%N then BtDeliver (mkPmsg (hdr ++ [a; b; c; d]) rest)
    else xreq_loop f (hdr ++ [a; b; c; d]) rest.
Proof. reflexivity. Qed.
Lemma xshort f hdr body : length body < 4 -> xreq_loop f hdr body = BtClose.
Proof.
  intros H. destruct f; [reflexivity|]. destruct body as [|a [|b [|c [|d r]]]]; cbn in H; try lia; reflexivity.
Qed.
Lemma xterminated : forall ws f hdr wend rest,
  Forall (fun w => (128 <=? w0 w)%N = false) ws -> (128 <=? w0 wend)%N = true ->
  length hdr + 4 * (length ws + 1) <= BT_HEADER_MAX -> length ws < f ->
  xreq_loop f hdr (flat ws ++ wb wend ++ rest) = BtDeliver (mkPmsg (hdr ++ flat ws ++ wb wend) rest).
Proof.
  induction ws as [|[[[a b] c] d] ws IH]; intros f hdr wend rest Hw He Hr Hf.
  - destruct wend as [[[ea eb] ec] ed]. cbn [flat flat_map app length] in *. destruct f; [lia|].
    cbn [wb app]. rewrite xstep. cbn [w0] in He. rewrite He.
    assert (R : (BT_HEADER_MAX <? length hdr + 4) = false) by (apply Nat.ltb_ge; lia).
    rewrite R. reflexivity.
  - inversion Hw as [|x l H1 H2]; subst. cbn [w0] in H1. cbn [length] in Hf. destruct f; [lia|].
    rewrite flat_cons. cbn [wb]. rewrite <- !app_assoc. cbn [app]. rewrite xstep.
    assert (R : (BT_HEADER_MAX <? length hdr + 4) = false) by (apply Nat.ltb_ge; cbn [length] in Hr; lia).
    rewrite R, H1.
    rewrite (IH f (hdr ++ [a; b; c; d]) wend rest H2 He).
    + rewrite <- !app_assoc. reflexivity.
    + rewrite app_length. cbn [length] in *. lia.
    + lia.
Qed.
Lemma xlead : forall ws f hdr rest m,
  Forall (fun w => (128 <=? w0 w)%N = false) ws ->
  xreq_loop f hdr (flat ws ++ rest) = BtDeliver m -> length hdr + 4 * (length ws + 1) <= BT_HEADER_MAX.
Proof.
  induction ws as [|[[[a b] c] d] ws IH]; intros f hdr rest m Hw H.
  - cbn [flat flat_map app length] in *. destruct f; [discriminate|].
    destruct rest as [|a [|b [|c [|d r]]]]; try (rewrite xshort in H by (cbn [length]; lia); discriminate).
    rewrite xstep in H. destruct (BT_HEADER_MAX <? length hdr + 4) eqn:R; [discriminate|]. apply Nat.ltb_ge in R. lia.
  - inversion Hw as [|x l H1 H2]; subst. cbn [w0] in H1. destruct f; [discriminate|].
    rewrite flat_cons in H. cbn [wb] in H. rewrite <- app_assoc in H. cbn [app] in H. rewrite xstep in H.
    destruct (BT_HEADER_MAX <? length hdr + 4); [discriminate|]. rewrite H1 in H.
    apply IH in H; [|exact H2]. rewrite app_length in H. cbn [length] in *. lia.
Qed.
Lemma xany : forall f hdr body m, xreq_loop f hdr body = BtDeliver m ->
  exists w, pm_hdr m = hdr ++ w /\ w ++ pm_body m = body /\ length (pm_hdr m) <= BT_HEADER_MAX /\ 4 <= length w.
Proof.
  induction f as [|f IH]; intros hdr body m H; [discriminate|].
  destruct body as [|a [|b [|c [|d rest]]]]; try (rewrite xshort in H by (cbn [length]; lia); discriminate).
  rewrite xstep in H. destruct (BT_HEADER_MAX <? length hdr + 4) eqn:R; [discriminate|]. apply Nat.ltb_ge in R.
  destruct (128 <=? a)%N.
  - inversion H; subst m. cbn [pm_hdr pm_body]. exists [a; b; c; d]. rewrite app_length. cbn [length app].
    repeat split; try reflexivity; lia.
  - apply IH in H. destruct H as (w & H1 & H2 & H3 & H5). exists ([a; b; c; d] ++ w).
    subst rest. rewrite H1 in *. rewrite !app_length in *. cbn [length] in *. rewrite <- !app_assoc.
    repeat split; try reflexivity; lia.
Qed.
Lemma xnodrop : forall f hdr body, xreq_loop f hdr body <> BtDrop.
Proof.
  induction f as [|f IH]; intros hdr body; [discriminate|].
  destruct body as [|a [|b [|c [|d rest]]]]; try (rewrite xshort by (cbn [length]; lia); discriminate).
  rewrite xstep. destruct (BT_HEADER_MAX <? length hdr + 4); [discriminate|].
  destruct (128 <=? a)%N; [discriminate|apply IH].
Qed.

Lemma word_of_be32 v rest : (v < W32)%N -> word_of (RouteModel.be32 v ++ rest) = v.
Proof.
  intros H. pose proof (be_bytes v H) as B. rewrite be32_wb. unfold word_be in *.
  unfold word_of. cbn [wb app firstn fold_left]. lia.
Qed.
End RRP.



Module RRP2.
Import ReqRepBacktrace.
(* at least n hop words and no end word among them: the hop limit (or the header bound) discards *)
Lemma overlong : forall ws n hdr rest,
  Forall (fun w => (128 <=? w0 w)%N = false) ws -> n <= length ws ->
  bt_loop n hdr (flat ws ++ rest) = BtDrop.
Proof.
  induction ws as [|[[[a b] c] d] ws IH]; intros n hdr rest Hw Hn.
  - cbn [length] in Hn. assert (n = 0) by lia. subst n. reflexivity.
  - inversion Hw as [|x l H1 H2]; subst. cbn [w0] in H1. destruct n; [reflexivity|].
    rewrite flat_cons. cbn [wb]. rewrite <- app_assoc. cbn [app]. rewrite RRP.step.
    destruct (BT_HEADER_MAX <? length hdr + 4); [reflexivity|]. rewrite H1.
    apply IH; [exact H2|cbn [length] in Hn; lia].
Qed.
End RRP2.

Lemma of_rr_deliver r m : of_rr r = RDeliver m -> r = ReqRepBacktrace.BtDeliver m.
Proof. destruct r; cbn; intros H; try discriminate; congruence. Qed.
Lemma of_sv_deliver r m : of_sv r = RDeliver m -> r = SurveyBacktrace.BtDeliver (pm_hdr m) (pm_body m).
Proof. destruct r; cbn; intros H; try discriminate. inversion H. reflexivity. Qed.

Theorem reqrep_laws : famlaws reqrep_ops.
Proof.
  constructor; unfold reqrep_ops, nonend, isend;
    cbn [f_end f_front_recv f_cooked_recv f_back_recv f_front_send f_orig_recv].
  - (* front *) intros ws wend rest p ttl Hw He Ht. unfold ReqRepBacktrace.xrep_recv.
    destruct (length ws <? ttl) eqn:E.
    + apply Nat.ltb_lt in E. rewrite RRP.terminated; auto.
      * apply Nat.ltb_lt in E. rewrite E. reflexivity.
      * unfold RT_TTL_MAX, ReqRepBacktrace.BT_HEADER_MAX in *. change (length (ReqRepBacktrace.be32 p)) with 4. lia.
    + apply Nat.ltb_ge in E. rewrite RRP2.overlong; auto.
  - (* cooked *) intros ws wend rest ttl Hw He Ht. unfold ReqRepBacktrace.rep_recv.
    destruct (length ws <? ttl) eqn:E.
    + apply Nat.ltb_lt in E. rewrite RRP.terminated; auto.
      * apply Nat.ltb_lt in E. rewrite E. reflexivity.
      * unfold RT_TTL_MAX, ReqRepBacktrace.BT_HEADER_MAX in *. cbn [length]. lia.
    + apply Nat.ltb_ge in E. rewrite RRP2.overlong; auto.
  - (* back *) intros ws wend rest Hw He Hl. unfold ReqRepBacktrace.xreq_recv.
    rewrite RRP.xterminated; auto.
    + unfold ReqRepBacktrace.BT_HEADER_MAX. cbn [length]. lia.
    + rewrite !app_length, flat_length, wb_length. lia.
  - (* send *) intros p h b Hp. unfold ReqRepBacktrace.xrep_send. cbn [pm_hdr pm_body].
    rewrite app_length. change (length (be32 p)) with 4. cbn [Nat.ltb Nat.leb plus].
    rewrite RRP.word_of_be32 by exact Hp. reflexivity.
  - (* lead *) intros ws rest p ttl m Hw H. apply of_rr_deliver in H. unfold ReqRepBacktrace.xrep_recv in H.
    eapply RRP.lead; eauto.
  - intros ws rest ttl m Hw H. apply of_rr_deliver in H. unfold ReqRepBacktrace.rep_recv in H.
    eapply RRP.lead; eauto.
  - intros ws rest m Hw H. apply of_rr_deliver in H. unfold ReqRepBacktrace.xreq_recv in H.
    apply RRP.xlead in H; [|exact Hw]. unfold ReqRepBacktrace.BT_HEADER_MAX in H. cbn [length] in H. lia.
  - (* front any *) intros p ttl w m H. apply of_rr_deliver in H. unfold ReqRepBacktrace.xrep_recv in H.
    apply RRP.any in H. destruct H as (x & H1 & H2 & H3 & H4 & H5).
    unfold wire_of, ReqRepBacktrace.wire_of. rewrite H1, <- app_assoc, H2.
    change (length (ReqRepBacktrace.be32 p)) with 4 in *. rewrite H1 in *. rewrite app_length in *.
    change (length (ReqRepBacktrace.be32 p)) with 4 in *. unfold RT_HEADER_MAX, ReqRepBacktrace.BT_HEADER_MAX in *.
    repeat split; try reflexivity; lia.
  - (* cooked any *) intros ttl w m H. apply of_rr_deliver in H. unfold ReqRepBacktrace.rep_recv in H.
    apply RRP.any in H. destruct H as (x & H1 & H2 & H3 & H4 & H5). cbn [app] in H1.
    unfold wire_of, ReqRepBacktrace.wire_of. rewrite H1 in *. unfold RT_HEADER_MAX, ReqRepBacktrace.BT_HEADER_MAX in *.
    repeat split; auto.
  - (* back any *) intros w m H. apply of_rr_deliver in H. unfold ReqRepBacktrace.xreq_recv in H.
    apply RRP.xany in H. destruct H as (x & H1 & H2 & H3 & H5). cbn [app] in H1.
    unfold wire_of, ReqRepBacktrace.wire_of. rewrite H1 in *. unfold RT_HEADER_MAX, ReqRepBacktrace.BT_HEADER_MAX in *.
    repeat split; auto.
  - (* back nodrop *) intros w H. unfold ReqRepBacktrace.xreq_recv in H.
    destruct (ReqRepBacktrace.xreq_loop (S (length w)) [] w) eqn:E; try discriminate. now apply RRP.xnodrop in E.
  - (* send any *) intros m p m' H. unfold ReqRepBacktrace.xrep_send in H.
    destruct (length (pm_hdr m) <? 4) eqn:E; [discriminate|]. apply Nat.ltb_ge in E. inversion H; subst. cbn [pm_hdr pm_body].
    destruct (pm_hdr m) as [|a [|b [|c [|d r]]]]; cbn [length] in E; try lia.
    exists a, b, c, d. split; reflexivity.
  - (* send short *) intros m H. unfold ReqRepBacktrace.xrep_send. apply Nat.ltb_lt in H. rewrite H. reflexivity.
  - (* orig *) intros id body Hid. unfold ReqRepBacktrace.req_recv. rewrite app_length. change (length (be32 id)) with 4.
    cbn [Nat.ltb Nat.leb plus]. rewrite RRP.word_of_be32 by exact Hid. cbn [pm_body]. reflexivity.
  - intros w H. unfold ReqRepBacktrace.req_recv. apply Nat.ltb_lt in H. rewrite H. reflexivity.
  - (* end *) intros v Hv. apply be_first in Hv. tauto.
Qed.

(* ====================================================================== SURVEYOR/RESPONDENT *)
Module SVP.
Import SurveyBacktrace.

Lemma room_spec h : hdr_room h = true <-> length h + 4 <= HDR_MAX.
Proof. unfold hdr_room. apply Nat.leb_le. Qed.

Lemma terminated : forall ws n hdr wend rest,
  Forall (fun w => is_end (w0 w) = false) ws -> is_end (w0 wend) = true ->
  length hdr + 4 * (length ws + 1) <= HDR_MAX ->
  bt_move n hdr (flat ws ++ wb wend ++ rest) =
    if length ws <? n then BtDeliver (hdr ++ flat ws ++ wb wend) rest else BtDrop.
Proof.
  induction ws as [|[[[a b] c] d] ws IH]; intros n hdr wend rest Hw He Hr.
  - destruct wend as [[[ea eb] ec] ed]. cbn [flat flat_map app length]. destruct n; [reflexivity|].
    cbn [wb app bt_move]. cbn [w0] in He. rewrite He.
    assert (R : hdr_room hdr = true) by (apply room_spec; cbn [length] in Hr; lia).
    rewrite R. reflexivity.
  - inversion Hw as [|x l H1 H2]; subst. cbn [w0] in H1. destruct n; [reflexivity|].
    rewrite flat_cons. cbn [wb]. rewrite <- !app_assoc. cbn [app bt_move].
    assert (R : hdr_room hdr = true) by (apply room_spec; cbn [length] in Hr; lia).
    rewrite R, H1.
    rewrite (IH n (hdr ++ [a; b; c; d]) wend rest H2 He).
    + cbn [length]. change (S (length ws) <? S n) with (length ws <? n).
      destruct (length ws <? n); [|reflexivity]. rewrite <- !app_assoc. reflexivity.
    + rewrite app_length. cbn [length] in *. lia.
Qed.

Lemma overlong : forall ws n hdr rest,
  Forall (fun w => is_end (w0 w) = false) ws -> n <= length ws ->
  bt_move n hdr (flat ws ++ rest) = BtDrop.
Proof.
  induction ws as [|[[[a b] c] d] ws IH]; intros n hdr rest Hw Hn.
  - cbn [length] in Hn. assert (n = 0) by lia. subst n. reflexivity.
  - inversion Hw as [|x l H1 H2]; subst. cbn [w0] in H1. destruct n; [reflexivity|].
    rewrite flat_cons. cbn [wb]. rewrite <- app_assoc. cbn [app bt_move].
    destruct (hdr_room hdr); [|reflexivity]. rewrite H1.
    apply IH; [exact H2|cbn [length] in Hn; lia].
Qed.

Lemma lead : forall ws n hdr rest h b,
  Forall (fun w => is_end (w0 w) = false) ws ->
  bt_move n hdr (flat ws ++ rest) = BtDeliver h b -> length ws < n.
Proof.
  induction ws as [|[[[a b] c] d] ws IH]; intros n hdr rest h0 b0 Hw H.
  - destruct n; [discriminate|cbn [length]; lia].
  - inversion Hw as [|x l H1 H2]; subst. cbn [w0] in H1. destruct n; [discriminate|].
    rewrite flat_cons in H. cbn [wb] in H. rewrite <- app_assoc in H. cbn [app bt_move] in H.
    destruct (hdr_room hdr); [|discriminate]. rewrite H1 in H.
    apply IH in H; [cbn [length]; lia|exact H2].
Qed.

Lemma any : forall n hdr body h b, bt_move n hdr body = BtDeliver h b ->
  exists w, h = hdr ++ w /\ w ++ b = body /\ length h <= HDR_MAX /\ length w <= 4 * n /\ 4 <= length w.
Proof.
  induction n as [|n IH]; intros hdr body h0 b0 H; [discriminate|]. cbn [bt_move] in H.
  destruct body as [|a [|b [|c [|d rest]]]]; try discriminate.
  destruct (hdr_room hdr) eqn:R; [|discriminate]. apply room_spec in R.
  destruct (is_end a).
  - inversion H; subst. exists [a; b; c; d]. rewrite app_length. cbn [length app].
    repeat split; try reflexivity; lia.
  - apply IH in H. destruct H as (w & H1 & H2 & H3 & H4 & H5). exists ([a; b; c; d] ++ w).
    subst rest. rewrite H1 in *. rewrite !app_length in *. cbn [length] in *. rewrite <- !app_assoc.
    repeat split; try reflexivity; lia.
Qed.

Lemma xterminated : forall ws f hdr wend rest,
  Forall (fun w => is_end (w0 w) = false) ws -> is_end (w0 wend) = true ->
  length hdr + 4 * (length ws + 1) <= HDR_MAX -> length ws < f ->
  xsurv_move f hdr (flat ws ++ wb wend ++ rest) = BtDeliver (hdr ++ flat ws ++ wb wend) rest.
Proof.
  induction ws as [|[[[a b] c] d] ws IH]; intros f hdr wend rest Hw He Hr Hf.
  - destruct wend as [[[ea eb] ec] ed]. cbn [flat flat_map app length] in *. destruct f; [lia|].
    cbn [wb app xsurv_move]. cbn [w0] in He. rewrite He.
    assert (R : hdr_room hdr = true) by (apply room_spec; lia).
    rewrite R. reflexivity.
  - inversion Hw as [|x l H1 H2]; subst. cbn [w0] in H1. cbn [length] in Hf. destruct f; [lia|].
    rewrite flat_cons. cbn [wb]. rewrite <- !app_assoc. cbn [app xsurv_move].
    assert (R : hdr_room hdr = true) by (apply room_spec; cbn [length] in Hr; lia).
    rewrite R, H1.
    rewrite (IH f (hdr ++ [a; b; c; d]) wend rest H2 He).
    + rewrite <- !app_assoc. reflexivity.
    + rewrite app_length. cbn [length] in *. lia.
    + lia.
Qed.
Lemma xlead : forall ws f hdr rest h b,
  Forall (fun w => is_end (w0 w) = false) ws ->
  xsurv_move f hdr (flat ws ++ rest) = BtDeliver h b -> length hdr + 4 * (length ws + 1) <= HDR_MAX.
Proof.
  induction ws as [|[[[a b] c] d] ws IH]; intros f hdr rest h0 b0 Hw H.
  - cbn [flat flat_map app length] in *. destruct f; [discriminate|]. cbn [xsurv_move] in H.
    destruct rest as [|a [|b [|c [|d r]]]]; try discriminate.
    destruct (hdr_room hdr) eqn:R; [|discriminate]. apply room_spec in R. lia.
  - inversion Hw as [|x l H1 H2]; subst. cbn [w0] in H1. destruct f; [discriminate|].
    rewrite flat_cons in H. cbn [wb] in H. rewrite <- app_assoc in H. cbn [app xsurv_move] in H.
    destruct (hdr_room hdr); [|discriminate]. rewrite H1 in H.
    apply IH in H; [|exact H2]. rewrite app_length in H. cbn [length] in *. lia.
Qed.
Lemma xany : forall f hdr body h b, xsurv_move f hdr body = BtDeliver h b ->
  exists w, h = hdr ++ w /\ w ++ b = body /\ length h <= HDR_MAX /\ 4 <= length w.
Proof.
  induction f as [|f IH]; intros hdr body h0 b0 H; [discriminate|]. cbn [xsurv_move] in H.
  destruct body as [|a [|b [|c [|d rest]]]]; try discriminate.
  destruct (hdr_room hdr) eqn:R; [|discriminate]. apply room_spec in R.
  destruct (is_end a).
  - inversion H; subst. exists [a; b; c; d]. rewrite app_length. cbn [length app].
    repeat split; try reflexivity; lia.
  - apply IH in H. destruct H as (w & H1 & H2 & H3 & H5). exists ([a; b; c; d] ++ w).
    subst rest. rewrite H1 in *. rewrite !app_length in *. cbn [length] in *. rewrite <- !app_assoc.
    repeat split; try reflexivity; lia.
Qed.
Lemma xnodrop : forall f hdr body, xsurv_move f hdr body <> BtDrop.
Proof.
  induction f as [|f IH]; intros hdr body; [discriminate|]. cbn [xsurv_move].
  destruct body as [|a [|b [|c [|d rest]]]]; try discriminate.
  destruct (hdr_room hdr); [|discriminate]. destruct (is_end a); [discriminate|apply IH].
Qed.
End SVP.

Theorem survey_laws : famlaws survey_ops.
Proof.
  constructor; unfold survey_ops, nonend, isend;
    cbn [f_end f_front_recv f_cooked_recv f_back_recv f_front_send f_orig_recv].
  - (* front *) intros ws wend rest p ttl Hw He Ht. unfold SurveyBacktrace.xresp_recv.
    destruct (length ws <? ttl) eqn:E.
    + apply Nat.ltb_lt in E. rewrite SVP.terminated; auto.
      * apply Nat.ltb_lt in E. rewrite E. reflexivity.
      * unfold RT_TTL_MAX, SurveyBacktrace.HDR_MAX in *. change (length (SurveyBacktrace.be32 p)) with 4. lia.
    + apply Nat.ltb_ge in E. rewrite SVP.overlong; auto.
  - (* cooked *) intros ws wend rest ttl Hw He Ht. unfold SurveyBacktrace.resp_recv.
    destruct (length ws <? ttl) eqn:E.
    + apply Nat.ltb_lt in E. rewrite SVP.terminated; auto.
      * apply Nat.ltb_lt in E. rewrite E. reflexivity.
      * unfold RT_TTL_MAX, SurveyBacktrace.HDR_MAX in *. cbn [length]. lia.
    + apply Nat.ltb_ge in E. rewrite SVP.overlong; auto.
  - (* back *) intros ws wend rest Hw He Hl. unfold SurveyBacktrace.xsurv_recv.
    rewrite SVP.xterminated; auto.
    + unfold SurveyBacktrace.HDR_MAX. cbn [length]. lia.
    + rewrite !app_length, flat_length, wb_length. lia.
  - (* send *) intros p h b Hp. cbn [pm_hdr pm_body]. pose proof (be_bytes p Hp) as B.
    rewrite be32_wb. unfold word_be in *. cbn [wb app SurveyBacktrace.xresp_send].
    destruct B as (_ & _ & _ & _ & E). unfold SurveyBacktrace.word32.
    match goal with |- Some (?x, _) = _ => replace x with p by lia end. reflexivity.
  - (* lead *) intros ws rest p ttl m Hw H. apply of_sv_deliver in H. unfold SurveyBacktrace.xresp_recv in H.
    eapply SVP.lead; eauto.
  - intros ws rest ttl m Hw H. apply of_sv_deliver in H. unfold SurveyBacktrace.resp_recv in H.
    eapply SVP.lead; eauto.
  - intros ws rest m Hw H. apply of_sv_deliver in H. unfold SurveyBacktrace.xsurv_recv in H.
    apply SVP.xlead in H; [|exact Hw]. unfold SurveyBacktrace.HDR_MAX in H. cbn [length] in H. lia.
  - (* front any *) intros p ttl w m H. apply of_sv_deliver in H. unfold SurveyBacktrace.xresp_recv in H.
    apply SVP.any in H. destruct H as (x & H1 & H2 & H3 & H4 & H5).
    unfold wire_of, ReqRepBacktrace.wire_of. rewrite H1 in *. rewrite <- app_assoc, H2.
    rewrite app_length in *. change (length (SurveyBacktrace.be32 p)) with 4 in *.
    unfold RT_HEADER_MAX, SurveyBacktrace.HDR_MAX in *.
    repeat split; try reflexivity; lia.
  - (* cooked any *) intros ttl w m H. apply of_sv_deliver in H. unfold SurveyBacktrace.resp_recv in H.
    apply SVP.any in H. destruct H as (x & H1 & H2 & H3 & H4 & H5). cbn [app] in H1.
    unfold wire_of, ReqRepBacktrace.wire_of. rewrite H1 in *. unfold RT_HEADER_MAX, SurveyBacktrace.HDR_MAX in *.
    repeat split; auto.
  - (* back any *) intros w m H. apply of_sv_deliver in H. unfold SurveyBacktrace.xsurv_recv in H.
    apply SVP.xany in H. destruct H as (x & H1 & H2 & H3 & H5). cbn [app] in H1.
    unfold wire_of, ReqRepBacktrace.wire_of. rewrite H1 in *. unfold RT_HEADER_MAX, SurveyBacktrace.HDR_MAX in *.
    repeat split; auto.
  - (* back nodrop *) intros w H. unfold SurveyBacktrace.xsurv_recv in H.
    destruct (SurveyBacktrace.xsurv_move (S (length w)) [] w) eqn:E; try discriminate. now apply SVP.xnodrop in E.
  - (* send any *) intros m p m' H.
    destruct (pm_hdr m) as [|a [|b [|c [|d r]]]] eqn:E; cbn [SurveyBacktrace.xresp_send] in H; try discriminate.
    inversion H; subst. cbn [pm_hdr pm_body]. exists a, b, c, d. split; reflexivity.
  - (* send short *) intros m H.
    destruct (pm_hdr m) as [|a [|b [|c [|d r]]]]; cbn [length] in H; try lia; reflexivity.
  - (* orig *) intros id body Hid. pose proof (be_bytes id Hid) as B. rewrite be32_wb. unfold word_be in *.
    cbn [wb app SurveyBacktrace.surv_recv]. destruct B as (_ & _ & _ & _ & E). unfold SurveyBacktrace.word32.
    match goal with |- Some (?x, _) = _ => replace x with id by lia end. reflexivity.
  - intros w H. destruct w as [|a [|b [|c [|d r]]]]; cbn [length] in H; try lia; reflexivity.
  - (* end *) intros v Hv. apply be_first in Hv. destruct Hv as [A B]. unfold SurveyBacktrace.is_end.
    rewrite testbit7 by exact A. exact B.
Qed.
