(* RoutePairBus: PAIRv1 hop counts through devices, BUS raw devices, the header guard. *)
From Coq Require Import List Arith NArith Bool Lia.
From NngV Require Import Proto.Common Route.RouteModel Route.RouteWords Route.RouteProofs.
From NngV Require Proto.ReqRepBacktrace Proto.SurveyBacktrace Proto.PairModel Proto.BusModel.
Import ListNotations.

(* ====================================================================== the header guard *)
Lemma xrep_recv_h_transport p ttl w : xrep_recv_h [] p ttl w = Some (f_front_recv reqrep_ops p ttl w).
Proof. reflexivity. Qed.
Lemma xresp_recv_h_transport p ttl w : xresp_recv_h [] p ttl w = Some (f_front_recv survey_ops p ttl w).
Proof. reflexivity. Qed.
Lemma recv_h_panics_iff h0 p ttl w :
  (xrep_recv_h h0 p ttl w = None <-> RT_HEADER_MAX <= length h0 + 4) /\
  (xresp_recv_h h0 p ttl w = None <-> RT_HEADER_MAX <= length h0 + 4).
Proof.
  unfold xrep_recv_h, xresp_recv_h, append_u32_ok.
  destruct (length h0 + 4 <? RT_HEADER_MAX) eqn:E.
  - apply Nat.ltb_lt in E. split; split; try discriminate; lia.
  - apply Nat.ltb_ge in E. split; split; auto.
Qed.

(* ====================================================================== PAIRv1 *)
Lemma pair_be32 v : PairModel.be32 v = be32 v.
Proof. reflexivity. Qed.

Lemma get32_be32 v rest : (v < W32)%N -> PairModel.get32 (be32 v ++ rest) = Some (v, rest).
Proof.
  intros H. pose proof (be_bytes v H) as B. rewrite be32_wb. unfold word_be in *. cbn [wb app PairModel.get32].
  destruct B as (_ & _ & _ & _ & E). unfold PairModel.word32. rewrite E. reflexivity.
Qed.

(* classification of ALL 32-bit hop values *)
Lemma pair1_recv_values v body ttl : (v < W32)%N ->
  pair1_recv ttl (be32 v ++ body) =
    if (255 <? v)%N then RClose
    else if (N.of_nat ttl <? v)%N then RDrop
    else RDeliver (mkPmsg (be32 v) body).
Proof.
  intros H. unfold pair1_recv, PairModel.rx_decode, K1raw. cbn [pm_body pm_hdr]. rewrite get32_be32 by exact H.
  destruct (255 <? v)%N; [reflexivity|]. destruct (N.of_nat ttl <? v)%N; reflexivity.
Qed.
Lemma pair1_recv_short ttl w : length w < 4 -> pair1_recv ttl w = RClose.
Proof.
  intros H. unfold pair1_recv, PairModel.rx_decode, K1raw. cbn [pm_body].
  destruct w as [|a [|b [|c [|d r]]]]; cbn [length] in H; try lia; reflexivity.
Qed.
(* arbitrary values in the list (not even bytes) *)
Lemma pair1_recv_any ttl w m : pair1_recv ttl w = RDeliver m ->
  exists a b c d rest, w = [a; b; c; d] ++ rest /\
    (PairModel.word32 a b c d <= 255)%N /\ (PairModel.word32 a b c d <= N.of_nat ttl)%N /\
    m = mkPmsg (be32 (PairModel.word32 a b c d)) rest.
Proof.
  unfold pair1_recv, PairModel.rx_decode, K1raw. cbn [pm_body pm_hdr].
  destruct w as [|a [|b [|c [|d r]]]]; cbn [PairModel.get32]; try discriminate.
  destruct (N.ltb_spec 255 (PairModel.word32 a b c d)); [discriminate|].
  destruct (N.ltb_spec (N.of_nat ttl) (PairModel.word32 a b c d)); [discriminate|].
  intros H1. inversion H1. exists a, b, c, d, r. repeat split; auto.
Qed.

Lemma pair1_send_raw v body : (v < W32)%N ->
  pair1_send true (mkPmsg (be32 v) body) =
    if (255 <=? v)%N then None else Some (be32 ((v + 1) mod 4294967296) ++ body).
Proof.
  intros H. unfold pair1_send, PairModel.norm_send. cbn [pm_hdr].
  rewrite <- (app_nil_r (be32 v)). rewrite get32_be32 by exact H.
  destruct (255 <=? v)%N; [reflexivity|].
  unfold PairModel.wire_form, PairModel.bump. cbn [pm_hdr pm_body]. rewrite get32_be32 by exact H.
  unfold wire_of, ReqRepBacktrace.wire_of. cbn [pm_hdr pm_body]. rewrite app_nil_r. reflexivity.
Qed.
Lemma pair1_send_cooked m : pair1_send false m = Some (be32 1 ++ pm_body m).
Proof. reflexivity. Qed.

Lemma pair1_dev_values v body ttl : (v < W32)%N -> ttl <= 254 ->
  pair1_dev ttl (be32 v ++ body) =
    if (255 <? v)%N then FwdClose
    else if (N.of_nat ttl <? v)%N then FwdDrop
    else FwdSend (be32 (v + 1) ++ body).
Proof.
  intros H Ht. unfold pair1_dev. rewrite pair1_recv_values by exact H.
  destruct (N.ltb_spec 255 v); [reflexivity|]. destruct (N.ltb_spec (N.of_nat ttl) v); [reflexivity|].
  rewrite device_pass_id, pair1_send_raw by exact H.
  destruct (N.leb_spec 255 v); [lia|]. rewrite N.mod_small by lia. reflexivity.
Qed.

Lemma pair1_dev_any ttl w w' : ttl <= 254 -> pair1_dev ttl w = FwdSend w' ->
  exists a b c d rest, w = [a; b; c; d] ++ rest /\ (PairModel.word32 a b c d <= N.of_nat ttl)%N /\
    w' = be32 (PairModel.word32 a b c d + 1) ++ rest.
Proof.
  intros Ht. unfold pair1_dev. destruct (pair1_recv ttl w) as [m| |] eqn:E; try discriminate.
  apply pair1_recv_any in E. destruct E as (a & b & c & d & rest & Ew & H1 & H2 & Em).
  rewrite device_pass_id. subst m. rewrite pair1_send_raw by (unfold W32; lia).
  destruct (N.leb_spec 255 (PairModel.word32 a b c d)); [lia|]. rewrite N.mod_small by lia.
  intros H3. inversion H3. exists a, b, c, d, rest. repeat split; auto.
Qed.
(* a pair1 raw device never fails its send (which would stop the device) while ttl <= 254 *)
Lemma pair1_dev_never_stops ttl w : ttl <= 254 -> pair1_dev ttl w <> FwdStop.
Proof.
  intros Ht. unfold pair1_dev. destruct (pair1_recv ttl w) as [m| |] eqn:E; try discriminate.
  apply pair1_recv_any in E. destruct E as (a & b & c & d & rest & Ew & H1 & H2 & Em).
  rewrite device_pass_id. subst m. rewrite pair1_send_raw by (unfold W32; lia).
  destruct (N.leb_spec 255 (PairModel.word32 a b c d)); [lia|discriminate].
Qed.

(* chains: the message leaves the sender with hop h (1 for a cooked sender) *)
Fixpoint pfirst_fail (h : N) (i : nat) (ttls : list nat) : option nat :=
  match ttls with
  | [] => None
  | t :: r => if (N.of_nat t <? h)%N then Some i else pfirst_fail (h + 1) (S i) r
  end.
Lemma pfirst_fail_ge : forall ttls h i k, pfirst_fail h i ttls = Some k -> i <= k < i + length ttls.
Proof.
  induction ttls as [|t r IH]; intros h i k H; cbn [pfirst_fail] in H; [discriminate|].
  destruct (N.of_nat t <? h)%N; [inversion H; cbn [length]; lia|]. apply IH in H. cbn [length]. lia.
Qed.

Lemma pair1_chain_wf : forall ttls h i body, Forall (fun t => t <= RT_TTL_MAX) ttls -> (h <= 255)%N ->
  fst (pair1_chain i ttls (be32 h ++ body)) =
    match pfirst_fail h i ttls with
    | None => CArrive (be32 (h + N.of_nat (length ttls)) ++ body)
    | Some k => CDropAt k
    end /\
  length (snd (pair1_chain i ttls (be32 h ++ body))) =
    match pfirst_fail h i ttls with None => length ttls | Some k => k - i end.
Proof.
  induction ttls as [|t r IH]; intros h i body Ht Hh.
  - cbn [pair1_chain pfirst_fail fst snd length]. rewrite N.add_0_r. auto.
  - inversion Ht as [|x l H1 H2]; subst. unfold RT_TTL_MAX in H1. cbn [pair1_chain pfirst_fail].
    rewrite pair1_dev_values by (unfold W32; lia).
    destruct (N.ltb_spec 255 h); [lia|].
    destruct (N.ltb_spec (N.of_nat t) h).
    + cbn [fst snd length]. rewrite Nat.sub_diag. auto.
    + destruct (IH (h + 1)%N (S i) body H2 ltac:(lia)) as [A B].
      destruct (pair1_chain (S i) r (be32 (h + 1) ++ body)) as [c tr] eqn:E. cbn [fst snd] in *.
      rewrite A. split.
      * destruct (pfirst_fail (h + 1) (S i) r); [reflexivity|]. cbn [length]. do 3 f_equal. lia.
      * cbn [length]. rewrite B. destruct (pfirst_fail (h + 1) (S i) r) as [k|] eqn:Ef; [|reflexivity].
        apply pfirst_fail_ge in Ef. lia.
Qed.

(* loops: the hop count after g forwards is at least g *)
Definition plead (g : nat) (w : list N) : Prop :=
  g = 0 \/ exists a b c d rest, w = [a; b; c; d] ++ rest /\ (N.of_nat g <= PairModel.word32 a b c d)%N.

Lemma pair1_fwd_lead (ttl : nat -> nat) T (Httl : forall v, ttl v <= T) (HT : T <= 254) :
  forall (v : nat) (p : N) w w' g, True -> plead g w -> pair1_forward ttl v p w = Some w' -> g < S T /\ plead (S g) w'.
Proof.
  intros v p w w' g _ Hl H. unfold pair1_forward in H.
  destruct (pair1_dev (ttl v) w) as [x| | |] eqn:E; try discriminate. inversion H; subst x.
  specialize (Httl v). apply pair1_dev_any in E; [|lia].
  destruct E as (a & b & c & d & rest & Ew & Hv & Ew').
  assert (G : (N.of_nat g <= PairModel.word32 a b c d)%N).
  { destruct Hl as [->|(a' & b' & c' & d' & rest' & Ew2 & G)]; [lia|].
    rewrite Ew in Ew2. inversion Ew2; subst. exact G. }
  split; [lia|]. right. revert Hv G Ew'. generalize (PairModel.word32 a b c d) as x. intros x Hv G Ew'.
  assert (V : (x + 1 < W32)%N) by (unfold W32; lia).
  pose proof (be_bytes _ V) as B. rewrite Ew', be32_wb. unfold word_be in *. cbn [wb].
  do 5 eexists. split; [reflexivity|]. destruct B as (_ & _ & _ & _ & B). unfold PairModel.word32. rewrite B. lia.
Qed.

Theorem pair1_loops_die (ttl : nat -> nat) (edges : nat -> list (nat * N)) T live :
  (forall v, ttl v <= T) -> T <= 254 ->
  flood nat (pair1_forward ttl) edges (S (S T)) live = [].
Proof.
  intros Httl HT.
  apply (flood_dies nat (pair1_forward ttl) edges (fun _ => True) plead (S T) (pair1_fwd_lead ttl T Httl HT)); auto.
  intros v p w H. split; [exact I|left; reflexivity].
Qed.
Theorem pair1_forwards_bounded (ttl : nat -> nat) (edges : nat -> list (nat * N)) T live k :
  (forall v, ttl v <= T) -> T <= 254 ->
  flood_forwards nat (pair1_forward ttl) edges (S T + k) live = flood_forwards nat (pair1_forward ttl) edges (S T) live.
Proof.
  intros Httl HT.
  pose proof (flood_forwards_bounded nat (pair1_forward ttl) edges (fun _ => True) plead (S T)
                (pair1_fwd_lead ttl T Httl HT) (fun _ _ _ _ => I) k 0 live) as B.
  rewrite Nat.sub_0_r in B. apply B. intros v p w H. split; [exact I|left; reflexivity].
Qed.
(* along one path: at most T + 1 forwards for any wire, at most T when the first hop count is >= 1 *)
Theorem pair1_walk_bounded : forall ttls w T, Forall (fun t => t <= T) ttls -> T <= 254 ->
  forall i, length (snd (pair1_chain i ttls w)) <= S T.
Proof.
  intros ttls w T Ht HT.
  assert (G : forall ttls g w i, Forall (fun t => t <= T) ttls -> plead g w -> g <= S T ->
              length (snd (pair1_chain i ttls w)) <= S T - g).
  { clear ttls w Ht. induction ttls as [|t r IH]; intros g w i Ht Hl Hg; cbn [pair1_chain]; [cbn; lia|].
    inversion Ht as [|x l H1 H2]; subst.
    destruct (pair1_dev t w) as [w'| | |] eqn:E; try (cbn; lia).
    assert (FW : pair1_forward (fun _ => t) 0 0%N w = Some w') by (unfold pair1_forward; rewrite E; reflexivity).
    destruct (pair1_fwd_lead (fun _ => t) T (fun _ => H1) HT 0 0%N w w' g I Hl FW) as [A B].
    destruct (pair1_chain (S i) r w') as [c tr] eqn:Ec. cbn [snd length].
    specialize (IH (S g) w' (S i) H2 B ltac:(lia)). rewrite Ec in IH. cbn [snd] in IH. lia. }
  intros i. specialize (G ttls 0 w i Ht (or_introl eq_refl) ltac:(lia)). lia.
Qed.

(* ====================================================================== BUS raw *)
Lemma dec_enc32 p : (p < W32)%N -> BusModel.dec32 (BusModel.enc32 p) = p.
Proof.
  intros H. pose proof (be_bytes p H) as B. unfold word_be in B. unfold BusModel.dec32, BusModel.enc32.
  cbn [fold_left]. lia.
Qed.
(* a raw BUS device changes nothing and counts nothing: it only remembers the pipe to skip *)
Lemma bus_dev_spec p w : (p < W32)%N -> bus_dev p w = (p, w).
Proof.
  intros H. unfold bus_dev. rewrite device_pass_id. unfold BusModel.bus_prep. cbn [pm_hdr pm_body app].
  change (4 <=? length (BusModel.enc32 p)) with true. cbn iota.
  change (firstn 4 (BusModel.enc32 p)) with (BusModel.enc32 p). rewrite dec_enc32 by exact H. reflexivity.
Qed.
Lemma bus_no_echo p w bp : (p < W32)%N -> BusModel.bp_id bp = p ->
  BusModel.offer_kind true (fst (bus_dev p w)) bp = BusModel.OSkip.
Proof.
  intros H E. rewrite bus_dev_spec by exact H. cbn [fst]. unfold BusModel.offer_kind. rewrite E, N.eqb_refl. reflexivity.
Qed.

(* any forwarder that never refuses, on a graph in which every node has an out-edge, never dies out *)
Lemma flood_never_dies (node : Type) (forward : node -> N -> list N -> option (list N)) (edges : node -> list (node * N)) :
  (forall v p w, forward v p w <> None) -> (forall v, edges v <> []) ->
  forall g live, live <> [] -> flood node forward edges g live <> [].
Proof.
  intros Hf He. induction g as [|g IH]; intros live Hl; [exact Hl|]. cbn [flood]. apply IH.
  destruct live as [|[[v p] w] r]; [congruence|]. unfold flood_step. cbn [flat_map].
  destruct (forward v p w) as [w'|] eqn:E; [|now apply Hf in E].
  destruct (edges v) as [|e es] eqn:Ee; [now apply He in Ee|]. cbn. discriminate.
Qed.
Lemma flood_forwards_grow (node : Type) (forward : node -> N -> list N -> option (list N)) (edges : node -> list (node * N)) :
  (forall v p w, forward v p w <> None) -> (forall v, edges v <> []) ->
  forall g live, live <> [] -> g <= flood_forwards node forward edges g live.
Proof.
  intros Hf He. induction g as [|g IH]; intros live Hl; [cbn; lia|]. cbn [flood_forwards].
  assert (S1 : flood_step node forward edges live <> []) by (apply (flood_never_dies node forward edges Hf He 1 live Hl)).
  specialize (IH _ S1).
  destruct live as [|[[v p] w] r]; [congruence|]. cbn [filter].
  destruct (forward v p w) as [w'|] eqn:E; [|now apply Hf in E]. cbn [length]. lia.
Qed.
Theorem bus_ring_never_dies (edges : nat -> list (nat * N)) live :
  (forall v, edges v <> []) -> live <> [] ->
  forall g, flood nat bus_forward edges g live <> [] /\ g <= flood_forwards nat bus_forward edges g live.
Proof.
  intros He Hl g. split.
  - apply flood_never_dies; auto. discriminate.
  - apply flood_forwards_grow; auto. discriminate.
Qed.
