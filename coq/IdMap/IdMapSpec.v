(* IdMapSpec: the abstract object of the id-map half of C18 -- a finite map
   N -> N (an association list without duplicate keys) plus the allocation
   cursor over the inclusive range [lo, hi].  Definitions only. *)
From Coq Require Import List Arith Lia Bool NArith.
From NngV Require Import IdMap.IdMapModel.
Import ListNotations.

Definition id_amap : Type := list (N * N).

Fixpoint am_get (s : id_amap) (k : N) : option N :=
  match s with
  | [] => None
  | (k', v) :: r => if (k' =? k)%N then Some v else am_get r k
  end.
Definition am_mem (s : id_amap) (k : N) : bool := match am_get s k with Some _ => true | None => false end.
Fixpoint am_remove (s : id_amap) (k : N) : id_amap :=
  match s with
  | [] => []
  | (k', v) :: r => if (k' =? k)%N then am_remove r k else (k', v) :: am_remove r k
  end.
Definition am_set (s : id_amap) (k v : N) : id_amap := (k, v) :: am_remove s k.

Record id_spec := mkIdSpec {
  sp_map : id_amap;
  sp_lo : N; sp_hi : N; sp_random : bool;
  sp_cur : N               (* 0 = not yet chosen *)
}.
Definition sp_with (s : id_spec) (mp : id_amap) (cur : N) : id_spec :=
  mkIdSpec mp (sp_lo s) (sp_hi s) (sp_random s) cur.

(* the cyclic successor on [lo, hi] *)
Definition cyc_succ (lo hi x : N) : N := if (hi <? x + 1)%N then lo else (x + 1)%N.
Fixpoint cyc_iter (lo hi : N) (n : nat) (x : N) : N :=
  match n with 0 => x | S n' => cyc_iter lo hi n' (cyc_succ lo hi x) end.

(* the start of the cursor if it has not been chosen: lo, or (random maps) the
   oracle draw reduced into the range *)
Definition sp_start (s : id_spec) (rnd : N) : N :=
  if (sp_cur s =? 0)%N then
    (if sp_random s then (rnd mod (sp_hi s - sp_lo s + 1) + sp_lo s)%N else sp_lo s)
  else sp_cur s.

(* the first id, in cyclic order from x, that is not live; n counts the ids passed over *)
Fixpoint first_free (s : id_amap) (lo hi : N) (x : N) (fuel : nat) : option (N * N) :=
  match fuel with
  | 0 => None
  | S f => if am_mem s x then first_free s lo hi (cyc_succ lo hi x) f
           else Some (x, cyc_succ lo hi x)
  end.

(* One operation.  Allocation failure ([fail] = true) may or may not be hit (the
   spec does not know whether the table had to be resized): [id_spec_step] gives
   the outcome when no allocation fails, [id_spec_rel] adds the failure cases. *)
Definition id_spec_step (s : id_spec) (o : id_op) : id_out * id_spec :=
  match o with
  | IoSet k v _ => (OutRv 0%N, sp_with s (am_set (sp_map s) k v) (sp_cur s))
  | IoGet k => (OutGet (am_get (sp_map s) k), s)
  | IoRemove k _ =>
      if am_mem (sp_map s) k then (OutRv 0%N, sp_with s (am_remove (sp_map s) k) (sp_cur s))
      else (OutRv id_ENOENT, s)
  | IoAlloc v rnd _ =>
      if (sp_hi s - sp_lo s <? N.of_nat (length (sp_map s)))%N then (OutAlloc id_ENOMEM None, s)
      else match first_free (sp_map s) (sp_lo s) (sp_hi s) (sp_start s rnd) (S (length (sp_map s))) with
           | None => (OutAlloc id_ENOMEM None, s)        (* unreachable: pigeonhole *)
           | Some (id, cur') => (OutAlloc 0%N (Some id), sp_with s (am_set (sp_map s) id v) cur')
           end
  | IoVisit => (OutVisit (sp_map s), s)                   (* as a set: see out_equiv *)
  | IoCount => (OutCount (length (sp_map s)), s)
  end.

(* the effect of an operation whose table allocation failed: nothing but, for
   alloc, the cursor having moved past the id that would have been issued *)
Definition id_spec_fail_step (s : id_spec) (o : id_op) : option (id_out * id_spec) :=
  match o with
  | IoSet k v true => Some (OutRv id_ENOMEM, s)
  | IoAlloc v rnd true =>
      if (sp_hi s - sp_lo s <? N.of_nat (length (sp_map s)))%N then None
      else match first_free (sp_map s) (sp_lo s) (sp_hi s) (sp_start s rnd) (S (length (sp_map s))) with
           | None => None
           | Some (id, cur') => Some (OutAlloc id_ENOMEM None, sp_with s (sp_map s) cur')
           end
  | _ => None
  end.

(* two maps with the same bindings *)
Definition am_equiv (a b : id_amap) : Prop := forall k, am_get a k = am_get b k.

(* outputs are compared exactly, except that a visit is an enumeration in
   unspecified order: same bindings, every key once *)
Definition out_equiv (impl spec : id_out) : Prop :=
  match impl, spec with
  | OutVisit l, OutVisit s => NoDup (map fst l) /\ am_equiv l s
  | a, b => a = b
  end.

Definition id_spec_equiv (a b : id_spec) : Prop :=
  am_equiv (sp_map a) (sp_map b) /\ length (sp_map a) = length (sp_map b) /\
  sp_lo a = sp_lo b /\ sp_hi a = sp_hi b /\ sp_random a = sp_random b /\
  sp_cur a = sp_cur b.

Definition id_spec_rel (s : id_spec) (o : id_op) (out : id_out) (s' : id_spec) : Prop :=
  (out_equiv out (fst (id_spec_step s o)) /\ id_spec_equiv s' (snd (id_spec_step s o))) \/
  (exists r, id_spec_fail_step s o = Some r /\ out = fst r /\ id_spec_equiv s' (snd r)).

Inductive id_spec_run : id_spec -> list id_op -> list id_out -> id_spec -> Prop :=
| spr_nil s : id_spec_run s [] [] s
| spr_cons s o out s1 rest outs s2 :
    id_spec_rel s o out s1 -> id_spec_run s1 rest outs s2 -> id_spec_run s (o :: rest) (out :: outs) s2.
