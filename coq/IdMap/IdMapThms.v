(* IdMapThms: the theorems of the id-map half of C18 in their final form, derived
   from IdMapProofs.  Stdlib only; closed under the global context. *)
From Coq Require Import List Arith Lia PeanoNat ZArith NArith Bool ZifyNat ZifyN.
From NngV Require Import Gen.Consts IdMap.IdMapModel IdMap.IdMapSpec IdMap.ProbeOrder IdMap.IdMapLemmas IdMap.IdMapProofs.
Import ListNotations.

(* ------------------------------------------------------------ visit *)
Theorem visit_enumerates fixed m : Inv fixed m ->
  exists l, id_visit_all m = IdOk l /\ NoDup (map fst l) /\ length l = id_count m /\
            forall k v, In (k, v) l <-> id_get m k = IdOk (Some v).
Proof.
  intros [HI HR]. exists (abs_list (id_entries m)). split; [apply id_visit_all_spec|].
  pose proof (abs_keys_NoDup m HI) as ND. split; [exact ND|]. split; [now apply abs_count|].
  intros k v. rewrite (id_get_spec m k HI). split.
  - intros H. f_equal. now apply In_am_get.
  - intros H. inversion H. now apply am_get_In.
Qed.

(* ------------------------------------------------------------ alloc *)
Lemma am_get_set_same s k v : am_get (am_set s k v) k = Some v.
Proof. unfold am_set. cbn. now rewrite N.eqb_refl. Qed.

Lemma am_mem_false_get s k : am_mem s k = false -> am_get s k = None.
Proof. unfold am_mem. destruct (am_get s k); [discriminate|reflexivity]. Qed.

Lemma spec_step_range s o :
  sp_lo (snd (id_spec_step s o)) = sp_lo s /\ sp_hi (snd (id_spec_step s o)) = sp_hi s.
Proof.
  destruct o; cbn [id_spec_step]; try (cbn; auto; fail).
  - destruct (am_mem (sp_map s) k); cbn; auto.
  - destruct (sp_hi s - sp_lo s <? N.of_nat (length (sp_map s)))%N; [cbn; auto|].
    destruct (first_free _ _ _ _ _) as [[? ?]|]; cbn; auto.
Qed.

Lemma spec_fail_step_range s o r : id_spec_fail_step s o = Some r ->
  sp_lo (snd r) = sp_lo s /\ sp_hi (snd r) = sp_hi s.
Proof.
  destruct o; cbn [id_spec_fail_step]; try discriminate.
  - destruct fail; [|discriminate]. intros H; inversion H; cbn; auto.
  - destruct fail; [|discriminate].
    destruct (sp_hi s - sp_lo s <? N.of_nat (length (sp_map s)))%N; [discriminate|].
    destruct (first_free _ _ _ _ _) as [[? ?]|]; [|discriminate]. intros H; inversion H; cbn; auto.
Qed.

Theorem alloc_fresh_in_range fixed m v rnd f rv ido m' :
  Inv fixed m -> id_alloc fixed m v rnd f = IdOk (rv, ido, m') ->
  let lo := id_min_val m in let hi := id_max_val m in
  let s := abs_list (id_entries m) in let start := sp_start (abs m) rnd in
  Inv fixed m' /\ (lo <= start <= hi)%N /\ id_min_val m' = lo /\ id_max_val m' = hi /\
  match ido with
  | Some id =>
      rv = 0%N /\ (lo <= id <= hi)%N /\ id_get m id = IdOk None /\ id_get m' id = IdOk (Some v) /\
      id_count m' = S (id_count m) /\
      exists n, n <= id_count m /\ id = cyc_iter lo hi n start /\
                (forall i, i < n -> am_mem s (cyc_iter lo hi i start) = true) /\
                id_dyn_val m' = cyc_iter lo hi (S n) start
  | None => rv = id_ENOMEM /\ (f = true \/ (hi - lo < N.of_nat (id_count m))%N)
  end.
Proof.
  intros HInv R. destruct (alloc_refines fixed m v rnd f HInv) as (rv0 & ido0 & m0 & R0 & I0 & S0).
  rewrite R in R0. inversion R0; subst rv0 ido0 m0. clear R0.
  destruct HInv as [HI HR]. cbn zeta.
  destruct (start_eq fixed m rnd HR) as (_ & SR & _).
  pose proof (abs_count m HI) as AC.
  assert (Rng: id_min_val m' = id_min_val m /\ id_max_val m' = id_max_val m).
  { destruct S0 as [[_ E]|(r & F & _ & E)]; destruct E as (_ & _ & A & B & _); cbn [abs sp_lo sp_hi] in A, B.
    - destruct (spec_step_range (abs m) (IoAlloc v rnd f)) as [X Y]. rewrite X in A. rewrite Y in B. auto.
    - destruct (spec_fail_step_range (abs m) (IoAlloc v rnd f) r F) as [X Y]. rewrite X in A. rewrite Y in B. auto. }
  split; [exact I0|]. split; [exact SR|]. split; [apply Rng|]. split; [apply Rng|].
  destruct S0 as [[OE SE]|(r & F & OE & SE)].
  - (* no allocation failure *)
    revert OE SE. cbn [id_spec_step abs sp_map sp_lo sp_hi]. rewrite AC.
    change (mkIdSpec (abs_list (id_entries m)) (id_min_val m) (id_max_val m) (id_random m) (id_dyn_val m)) with (abs m).
    destruct (id_max_val m - id_min_val m <? N.of_nat (id_count m))%N eqn:Efull.
    { cbn [fst snd out_equiv]. intros OE _. inversion OE; subst. split; [reflexivity|]. right. now apply N.ltb_lt. }
    apply N.ltb_ge in Efull.
    destruct (first_free_total (abs_list (id_entries m)) (id_min_val m) (id_max_val m) (sp_start (abs m) rnd) SR)
      as (id & cur & FF); [rewrite AC; exact Efull|].
    rewrite AC in FF. rewrite FF. cbn [fst snd out_equiv]. intros OE SE. inversion OE; subst rv ido.
    destruct (first_free_Some _ _ _ _ _ _ _ FF) as (n & Hn & Hid & Hcur & Hfree & Hbusy).
    destruct SE as (EQ & LEN & _ & _ & _ & CUR). cbn [sp_with sp_map sp_cur abs] in EQ, LEN, CUR.
    split; [reflexivity|]. split.
    { rewrite Hid. apply cyc_iter_range; [destruct HR; assumption|exact SR]. }
    split. { rewrite (id_get_spec m id HI). f_equal. now apply am_mem_false_get. }
    split. { rewrite (id_get_spec m' id (proj1 I0)). f_equal. rewrite (EQ id). apply am_get_set_same. }
    split.
    { rewrite <- (abs_count m' (proj1 I0)), LEN. unfold am_set. cbn [length].
      rewrite am_remove_length_nomem by exact Hfree. now rewrite AC. }
    exists n. split; [lia|]. split; [exact Hid|]. split; [exact Hbusy|]. rewrite CUR. exact Hcur.
  - (* the table allocation failed *)
    revert F. cbn [id_spec_fail_step]. destruct f; [|discriminate].
    destruct (sp_hi (abs m) - sp_lo (abs m) <? N.of_nat (length (sp_map (abs m))))%N; [discriminate|].
    destruct (first_free _ _ _ _ _) as [[? ?]|]; [|discriminate]. intros F. inversion F; subst r.
    cbn [fst] in OE. inversion OE; subst. split; [reflexivity|]. now left.
Qed.

(* exhaustion: when every live key lies in the range (the map is populated by
   nni_id_alloc only, as the library's own maps are) ENOMEM-without-allocation-
   failure means every id of the range is live *)
Theorem full_means_all_live (s : id_amap) lo hi :
  NoDup (map fst s) -> (forall k, In k (map fst s) -> lo <= k <= hi)%N ->
  (hi - lo < N.of_nat (length s))%N -> forall id, (lo <= id <= hi)%N -> In id (map fst s).
Proof.
  intros ND Hin Hfull id Hid.
  set (L := map (fun i => (lo + N.of_nat i)%N) (seq 0 (N.to_nat (hi - lo + 1)))).
  assert (I: incl L (map fst s)).
  { apply NoDup_length_incl; [exact ND| |].
    - unfold L. rewrite !map_length, seq_length. lia.
    - intros k Hk. specialize (Hin k Hk). unfold L. apply in_map_iff. exists (N.to_nat (k - lo)).
      split; [lia|]. apply in_seq. lia. }
  apply I. unfold L. apply in_map_iff. exists (N.to_nat (id - lo)). split; [lia|]. apply in_seq. lia.
Qed.

(* the cursor passes over hi-lo+1 distinct ids before it comes back to the same
   id: an id is not reissued before the range wraps *)
Theorem cursor_no_early_return lo hi x i j : (lo <= hi)%N -> (lo <= x <= hi)%N ->
  i < j -> (N.of_nat j < N.of_nat i + (hi - lo + 1))%N -> cyc_iter lo hi i x <> cyc_iter lo hi j x.
Proof. apply cyc_iter_inj. Qed.

Theorem cursor_full_cycle lo hi x : (lo <= hi)%N -> (lo <= x <= hi)%N ->
  cyc_iter lo hi (N.to_nat (hi - lo + 1)) x = x.
Proof.
  intros H Hx. rewrite cyc_iter_closed by assumption. rewrite N2Nat.id.
  replace (x - lo + (hi - lo + 1))%N with ((x - lo) + 1 * (hi - lo + 1))%N by lia.
  rewrite N.mod_add by lia. rewrite N.mod_small by lia. lia.
Qed.

(* ------------------------------------------------- probe termination *)
Theorem probe_full_period k s : s < 2 ^ k ->
  (forall j, id_next (2 ^ k) j = nxt (2 ^ k) j) /\
  NoDup (map (path (2 ^ k) s) (seq 0 (2 ^ k))) /\
  path (2 ^ k) s (2 ^ k) = s /\
  (forall c, c < 2 ^ k -> exists n, n < 2 ^ k /\ path (2 ^ k) s n = c).
Proof.
  intros Hs. split; [intros; apply id_next_nxt|]. split; [now apply path_NoDup|].
  split; [now apply path_period|]. intros c Hc. now apply path_surj.
Qed.

(* the store loop of nni_id_set, entered after the resize check with a key that
   is not live, finds a vacant cell within id_cap probes *)
Theorem probe_terminates m id v : MInv m -> id_count m < id_cap m -> id_get m id = IdOk None ->
  exists T' d, d < id_cap m /\
    ins_loop (id_entries m) (id_cap m) id v (id_index (id_cap m) id) (id_load m) (id_cap m) false
    = IdOk (T', id_load m + d + 1).
Proof.
  intros HI Hroom Hget. destruct (MInv_pow2 m HI ltac:(lia)) as (k & Hk & Hcap). unfold id_cap in *.
  rewrite Hcap in *.
  assert (Hs: id_index (2 ^ k) id < 2 ^ k) by apply id_index_lt.
  assert (Hr: sumf (2 ^ k) (lv (id_entries m)) < 2 ^ k).
  { pose proof (mi_count m HI) as X. unfold id_cap in X. rewrite Hcap in X. lia. }
  destruct (first_vacant k (id_entries m) _ Hcap Hs Hr) as (d & Hd & Hvac & Hocc).
  assert (Hp: path (2 ^ k) (id_index (2 ^ k) id) d < length (id_entries m))
    by (rewrite Hcap; apply path_lt; [apply pow2_pos|assumption]).
  destruct (lv_vacant _ _ Hp Hvac) as (ed & Hed & Ved).
  destruct (ins_loop_char k id v false d (id_entries m) (id_index (2 ^ k) id) (id_load m) (2 ^ k) ed Hcap Hs Hd)
    as (T' & R & _).
  - intros i Hi. apply lv_live. now apply Hocc.
  - exact Hed.
  - exact Ved.
  - discriminate.
  - exists T', d. split; [exact Hd|exact R].
Qed.

(* every operation terminates within its fuel, stays inside the table and trips no
   assertion: no error value is reachable *)
Theorem no_error_reachable fixed m o : Inv fixed m -> exists r, id_step fixed m o = IdOk r.
Proof. intros H. destruct (step_refines fixed m o H) as (out & m' & R & _). eauto. Qed.

Theorem find_terminates m id : MInv m -> exists r, id_find m id = IdOk r.
Proof. intros HI. destruct (id_find_spec m id HI) as [(c & e & F & _)|[F _]]; eauto. Qed.

(* ------------------------------------------------- load accounting *)
Theorem load_accounting fixed m : Inv fixed m ->
  id_count m = sumf (id_cap m) (lv (id_entries m)) /\                      (* number of live cells *)
  id_count m = length (abs_list (id_entries m)) /\                         (* = number of bindings *)
  id_load m = sumf (id_cap m) (ld (id_entries m)) /\                       (* sum of (d(k)+1) *)
  (forall c e, nth_error (id_entries m) c = Some e ->
               ie_skips e = sumf (id_cap m) (cr (id_entries m) c)) /\      (* I1 *)
  (forall c e, nth_error (id_entries m) c = Some e -> ie_val e = None -> ie_key e = 0%N) /\   (* I2 *)
  id_count m <= id_load m /\ thresholds_ok m /\
  (id_cap m = 0 \/ exists k, 3 <= k /\ id_cap m = 2 ^ k).
Proof.
  intros [HI _]. split; [apply (mi_count m HI)|]. split; [symmetry; now apply abs_count|].
  split; [apply (mi_load m HI)|]. split; [apply (ti_skips _ (mi_tinv m HI))|].
  split; [apply (ti_vacant _ (mi_tinv m HI))|]. split; [now apply MInv_count_le_load|].
  split; [apply (mi_thr m HI)|apply (mi_cap m HI)].
Qed.

(* DESIGN 5/C18 conjectured "2*count <= cap"; that is false of the code (the
   minimum table of 8 cells holds 5 keys before it grows) *)
Definition five_sets : list id_op := [IoSet 1 1 false; IoSet 2 1 false; IoSet 3 1 false; IoSet 4 1 false; IoSet 5 1 false]%N.
Theorem two_count_le_cap_refuted :
  exists outs m', id_run true (id_map_static_init 1 100 false) five_sets = IdOk (outs, m') /\
                  id_cap m' = 8 /\ id_count m' = 5.
Proof. eexists _, _. split; [vm_compute; reflexivity|]. split; reflexivity. Qed.

(* ------------------- the defect of the code as pinned (before the fix: commit) *)
Definition u64max_ops : list id_op :=
  [IoAlloc 1 0 false; IoAlloc 2 0 false; IoAlloc 3 0 false; IoRemove (U64 - 3) false;
   IoAlloc 4 0 false; IoRemove (U64 - 3) false; IoAlloc 5 0 false]%N.
Definition u64max_map : id_map := id_map_static_init (U64 - 3) (U64 - 1) false.

Theorem alloc_u64max_unfixed_refuted :
  exists outs m', id_run false u64max_map u64max_ops = IdOk (outs, m') /\
                  nth 6 outs (OutRv 0%N) = OutAlloc 0%N (Some 0%N) /\ (0 < id_min_val m')%N.
Proof. eexists _, _. split; [vm_compute; reflexivity|]. split; reflexivity. Qed.

Theorem alloc_u64max_fixed_ok :
  exists outs m', id_run true u64max_map u64max_ops = IdOk (outs, m') /\
                  nth 6 outs (OutRv 0%N) = OutAlloc 0%N (Some (U64 - 3)%N).
Proof. eexists _, _. split; [vm_compute; reflexivity|]. reflexivity. Qed.

(* ------------------------------- the literals are those of the current source *)
Theorem consts_match :
  ID_MIN_CAP = IDMAP_MIN_CAP /\ ID_SMALL_MAX_LOAD = IDMAP_SMALL_MAX_LOAD /\
  ID_DEFAULT_HI = IDMAP_DEFAULT_HI /\ IDMAP_DEFAULT_LO = 1%N /\
  id_ENOMEM = IDMAP_NNG_ENOMEM /\ id_ENOENT = IDMAP_NNG_ENOENT /\
  (forall cap j, id_next cap j = Nat.land (j * IDMAP_PROBE_MUL + IDMAP_PROBE_INC) (cap - 1)) /\
  (forall c, id_new_cap c = grow_cap IDMAP_MIN_CAP (c * IDMAP_COUNT_FACTOR) (S c)) /\
  (forall c t f, grow_cap c t (S f) = if c <? t then grow_cap (c * IDMAP_GROW_FACTOR) t f else IdOk c) /\
  (forall c, id_thresholds c = if IDMAP_SMALL_CAP <? c
                               then (c / IDMAP_MIN_LOAD_DIV, c * IDMAP_MAX_LOAD_MUL / IDMAP_MAX_LOAD_DIV)
                               else (IDMAP_SMALL_MIN_LOAD, IDMAP_SMALL_MAX_LOAD)).
Proof. repeat split; reflexivity. Qed.

(* every range the library uses is a legal range of the theorems (for either variant of the code) *)
Theorem library_ranges_wf :
  Forall (fun r => let '(_, lo, hi, _, _) := r in (1 <= lo /\ lo < hi /\ hi + 1 < U64 /\ hi < 2 ^ 32)%N) IDMAP_RANGES.
Proof.
  unfold IDMAP_RANGES. repeat (apply Forall_cons; [unfold U64; cbn; lia|]). apply Forall_nil.
Qed.

Theorem library_ranges_inv fixed :
  Forall (fun r => let '(_, lo, hi, rnd, _) := r in Inv fixed (id_map_static_init lo hi rnd)) IDMAP_RANGES.
Proof.
  pose proof library_ranges_wf as W. eapply Forall_impl; [|exact W].
  intros [[[[nm lo] hi] rnd] st] (A & B & C & D). apply static_init_inv; lia.
Qed.

(* corollaries at the generated ranges: an id issued from a map with the range of ... *)
Corollary alloc_in_generated_range fixed m v rnd f id m' lo hi :
  Inv fixed m -> id_min_val m = lo -> id_max_val m = hi ->
  id_alloc fixed m v rnd f = IdOk (0%N, Some id, m') -> (lo <= id <= hi)%N /\ id_get m id = IdOk None.
Proof.
  intros HI <- <- R. pose proof (alloc_fresh_in_range fixed m v rnd f _ _ _ HI R) as X. cbn zeta in X.
  destruct X as (_ & _ & _ & _ & _ & Hr & Hg & _). auto.
Qed.

(* ... request / survey ids (req.c, survey.c): the high bit (bit 31) is set and the id fits 32 bits *)
Corollary request_ids_high_bit fixed m v rnd f id m' :
  Inv fixed m -> id_min_val m = IDMAP_REQ_LO -> id_max_val m = IDMAP_REQ_HI ->
  id_alloc fixed m v rnd f = IdOk (0%N, Some id, m') -> N.testbit id 31 = true /\ (id < 2 ^ 32)%N.
Proof.
  intros HI L H R. destruct (alloc_in_generated_range fixed m v rnd f id m' _ _ HI L H R) as [[A B] _].
  unfold IDMAP_REQ_LO, IDMAP_REQ_HI in *. split; [|lia].
  apply N.testbit_true. replace (id / 2 ^ 31)%N with 1%N; [reflexivity|].
  apply (N.div_unique id (2 ^ 31) 1 (id - 2 ^ 31)); lia.
Qed.
Corollary survey_ids_high_bit fixed m v rnd f id m' :
  Inv fixed m -> id_min_val m = IDMAP_SURVEY_LO -> id_max_val m = IDMAP_SURVEY_HI ->
  id_alloc fixed m v rnd f = IdOk (0%N, Some id, m') -> N.testbit id 31 = true /\ (id < 2 ^ 32)%N.
Proof.
  intros HI L H R. destruct (alloc_in_generated_range fixed m v rnd f id m' _ _ HI L H R) as [[A B] _].
  unfold IDMAP_SURVEY_LO, IDMAP_SURVEY_HI in *. split; [|lia].
  apply N.testbit_true. replace (id / 2 ^ 31)%N with 1%N; [reflexivity|].
  apply (N.div_unique id (2 ^ 31) 1 (id - 2 ^ 31)); lia.
Qed.

(* ... socket, context, dialer, listener and pipe ids: 1 .. 0x7fffffff (positive int32, never 0) *)
Corollary object_ids_positive_int32 fixed m v rnd f id m' :
  Inv fixed m ->
  (id_min_val m, id_max_val m) = (IDMAP_SOCK_LO, IDMAP_SOCK_HI) \/
  (id_min_val m, id_max_val m) = (IDMAP_CTX_LO, IDMAP_CTX_HI) \/
  (id_min_val m, id_max_val m) = (IDMAP_DIALER_LO, IDMAP_DIALER_HI) \/
  (id_min_val m, id_max_val m) = (IDMAP_LISTENER_LO, IDMAP_LISTENER_HI) \/
  (id_min_val m, id_max_val m) = (IDMAP_PIPE_LO, IDMAP_PIPE_HI) ->
  id_alloc fixed m v rnd f = IdOk (0%N, Some id, m') -> (0 < id < 2 ^ 31)%N /\ N.testbit id 31 = false.
Proof.
  intros HI Hr R.
  assert (E: (1 <= id <= 2147483647)%N).
  { destruct Hr as [E|[E|[E|[E|E]]]]; inversion E as [[L H]];
      destruct (alloc_in_generated_range fixed m v rnd f id m' _ _ HI L H R) as [X _]; exact X. }
  split; [lia|]. apply N.testbit_false. replace (id / 2 ^ 31)%N with 0%N; [reflexivity|].
  symmetry. apply N.div_small. lia.
Qed.

(* non-vacuity: a concrete non-trivial reachable state satisfies the invariant *)
Example inv_nonvacuous :
  exists outs m', id_run true (id_map_static_init 1 100 false) five_sets = IdOk (outs, m') /\
                  Inv true m' /\ id_count m' = 5.
Proof.
  destruct (run_refines true five_sets (id_map_static_init 1 100 false)) as (outs & m' & R & I & _).
  { apply static_init_inv; unfold U64; lia. }
  exists outs, m'. split; [exact R|]. split; [exact I|].
  destruct two_count_le_cap_refuted as (o2 & m2 & R2 & _ & C2). rewrite R in R2. inversion R2; subst. exact C2.
Qed.
