(* IdMapProofs: the invariants I1-I4 of DESIGN Appendix D for the model of
   idhash.c, correctness of id_find, the store / walk-back / rehash loops, and the
   refinement of the finite-map + cyclic-cursor specification, lifted to all
   operation histories.  Stdlib only; closed under the global context. *)
From Coq Require Import List Arith Lia PeanoNat ZArith NArith Bool ZifyNat ZifyN.
From NngV Require Import IdMap.IdMapModel IdMap.IdMapSpec IdMap.ProbeOrder IdMap.IdMapLemmas.
Import ListNotations.

Ltac Zify.zify_post_hook ::= Z.div_mod_to_equations.

(* ------------------------------------------------------------ invariants *)
Definition lvb (e : id_entry) : nat := if ie_live e then 1 else 0.
Definition lv (T : list id_entry) (i : nat) : nat :=
  match nth_error T i with Some e => lvb e | None => 0 end.

(* d(k): the probe distance of the key stored in cell i *)
Definition edist (cap : nat) (e : id_entry) (i : nat) : nat := dist cap (id_index cap (ie_key e)) i.
(* the cells the key of cell i was skipped over: p_0(k) .. p_{d(k)-1}(k) *)
Definition epref (cap : nat) (e : id_entry) (i : nat) : list nat :=
  pref cap (id_index cap (ie_key e)) (edist cap e i).

(* how often the live key of cell i crosses cell c *)
Definition cr (T : list id_entry) (c i : nat) : nat :=
  match nth_error T i with
  | Some e => if ie_live e then count_occ Nat.eq_dec (epref (length T) e i) c else 0
  | None => 0
  end.
(* the contribution of cell i to id_load *)
Definition ld (T : list id_entry) (i : nat) : nat :=
  match nth_error T i with
  | Some e => if ie_live e then S (edist (length T) e i) else 0
  | None => 0
  end.

Definition uniq (T : list id_entry) : Prop :=
  forall i j ei ej, nth_error T i = Some ei -> nth_error T j = Some ej ->
    ie_live ei = true -> ie_live ej = true -> ie_key ei = ie_key ej -> i = j.

Record TInv (T : list id_entry) : Prop := {
  ti_uniq : uniq T;                                   (* live keys occupy distinct cells *)
  ti_skips : forall c e, nth_error T c = Some e ->    (* I1 *)
               ie_skips e = sumf (length T) (cr T c);
  ti_vacant : forall c e, nth_error T c = Some e ->   (* I2 *)
               ie_val e = None -> ie_key e = 0%N }.

Definition thresholds_ok (m : id_map) : Prop :=
  (id_cap m = 0 /\ id_min_load m = 0 /\ id_max_load m = 0) \/
  (id_cap m = 8 /\ id_min_load m = 0 /\ id_max_load m = 5) \/
  (8 < id_cap m /\ id_min_load m = id_cap m / 8 /\ id_max_load m = id_cap m * 2 / 3).

Record MInv (m : id_map) : Prop := {
  mi_cap : id_cap m = 0 \/ exists k, 3 <= k /\ id_cap m = 2 ^ k;
  mi_tinv : TInv (id_entries m);
  mi_count : id_count m = sumf (id_cap m) (lv (id_entries m));      (* I3 *)
  mi_load : id_load m = sumf (id_cap m) (ld (id_entries m));        (* I3 *)
  mi_thr : thresholds_ok m }.

(* the range and the cursor *)
Record RInv (fixed : bool) (m : id_map) : Prop := {
  ri_lo : (1 <= id_min_val m)%N;
  ri_lohi : (id_min_val m <= id_max_val m)%N;
  ri_hi : (id_max_val m < U64)%N;
  ri_fixed : fixed = true \/ (id_max_val m + 1 < U64)%N;
  ri_dyn : id_dyn_val m = 0%N \/ (id_min_val m <= id_dyn_val m <= id_max_val m)%N }.

Definition Inv (fixed : bool) (m : id_map) : Prop := MInv m /\ RInv fixed m.

(* ------------------------------------------------------------ abstraction *)
Definition abs_list (T : list id_entry) : id_amap :=
  flat_map (fun e => match ie_val e with Some v => [(ie_key e, v)] | None => [] end) T.
Definition abs (m : id_map) : id_spec :=
  mkIdSpec (abs_list (id_entries m)) (id_min_val m) (id_max_val m) (id_random m) (id_dyn_val m).

Lemma live_val e : ie_live e = true <-> exists v, ie_val e = Some v.
Proof. unfold ie_live. destruct (ie_val e); split; intros; eauto; try discriminate. destruct H; discriminate. Qed.
Lemma dead_val e : ie_live e = false <-> ie_val e = None.
Proof. unfold ie_live. destruct (ie_val e); split; intros; auto; discriminate. Qed.

Lemma nth_error_lt {A} (T : list A) i : i < length T -> exists e, nth_error T i = Some e.
Proof. intros H. destruct (nth_error T i) eqn:E; [eauto|]. apply nth_error_None in E. lia. Qed.

Lemma abs_In T k v : In (k, v) (abs_list T) <->
  exists c e, nth_error T c = Some e /\ ie_key e = k /\ ie_val e = Some v.
Proof.
  unfold abs_list. rewrite in_flat_map. split.
  - intros (e & Hin & H). apply In_nth_error in Hin. destruct Hin as [c Hc].
    exists c, e. destruct (ie_val e); [|contradiction]. destruct H as [H|[]]. inversion H; subst. auto.
  - intros (c & e & Hc & Hk & Hv). exists e. split; [eapply nth_error_In; eauto|].
    rewrite Hv. left. now subst.
Qed.

Lemma uniq_tail e T : uniq (e :: T) -> uniq T.
Proof.
  intros U i j ei ej Hi Hj Li Lj K. assert (S i = S j); [|lia]. eapply U; eauto.
Qed.

Lemma abs_NoDup T : uniq T -> NoDup (map fst (abs_list T)).
Proof.
  induction T as [|e T IH]; intros U; [constructor|].
  specialize (IH (uniq_tail _ _ U)). cbn [abs_list flat_map]. fold (abs_list T).
  destruct (ie_val e) as [v|] eqn:Ev; [|exact IH].
  cbn. constructor; [|exact IH]. intros Hin. apply in_map_iff in Hin.
  destruct Hin as ([k' v'] & Hk & Hin). cbn in Hk. subst k'. apply abs_In in Hin.
  destruct Hin as (c & e' & Hc & Hk & Hv).
  assert (0 = S c); [|lia]. eapply (U 0 (S c) e e'); cbn; eauto; apply live_val; eauto.
Qed.

Lemma abs_length T : length (abs_list T) = sumf (length T) (lv T).
Proof.
  unfold lv. rewrite (sumf_map_nth T (fun o => match o with Some e => lvb e | None => 0 end)).
  induction T as [|e T IH]; [reflexivity|]. cbn [abs_list flat_map map list_sum]. fold (abs_list T).
  rewrite app_length, IH. unfold lvb at 2, ie_live. unfold list_sum. destruct (ie_val e); cbn [length fold_right]; lia.
Qed.

(* ---------------------------------------------------------------- id_find *)
Section Find.
Variables (T : list id_entry) (k : nat).
Hypothesis HL : length T = 2 ^ k.
Hypothesis HT : TInv T.

Lemma cell_exists p : p < 2 ^ k -> exists e, nth_error T p = Some e.
Proof. intros. apply nth_error_lt. lia. Qed.

Lemma skips_ge_cross c e p e' :
  nth_error T c = Some e -> ie_live e = true -> nth_error T p = Some e' ->
  In p (epref (2 ^ k) e c) -> 1 <= ie_skips e'.
Proof.
  intros Hc Lc Hp Hin. rewrite (ti_skips T HT p e' Hp).
  assert (c < length T) by (apply nth_error_Some; congruence).
  eapply Nat.le_trans; [|apply (sumf_ge _ _ c); assumption].
  unfold cr. rewrite Hc, Lc, HL. apply (count_occ_In Nat.eq_dec) in Hin. lia.
Qed.

Lemma find_loop_live id c e :
  nth_error T c = Some e -> ie_live e = true -> ie_key e = id ->
  find_loop T id (id_index (2 ^ k) id) (id_index (2 ^ k) id) (2 ^ k) = IdOk (Some c).
Proof.
  intros Hc Lc Kc. set (s := id_index (2 ^ k) id).
  assert (Hs: s < 2 ^ k) by apply id_index_lt.
  assert (Hc': c < 2 ^ k) by (rewrite <- HL; apply nth_error_Some; congruence).
  destruct (dist_spec k s c Hs Hc') as (Dlt & Dp & Dmin). set (d := dist (2 ^ k) s c) in *.
  assert (G: forall m n fuel, n + m = d -> m < fuel ->
             find_loop T id s (path (2 ^ k) s n) fuel = IdOk (Some c)).
  { induction m as [|m IH]; intros n fuel Hn Hf; (destruct fuel as [|f]; [lia|]); cbn [find_loop].
    - replace n with d by lia. rewrite Dp, Hc, Kc, N.eqb_refl, Lc. reflexivity.
    - assert (Hp: path (2 ^ k) s n < 2 ^ k) by (apply path_lt; [apply pow2_pos|assumption]).
      destruct (cell_exists _ Hp) as [e' He']. rewrite He'.
      destruct ((ie_key e' =? id)%N && ie_live e') eqn:Em.
      { exfalso. apply andb_true_iff in Em. destruct Em as [Ek El]. apply N.eqb_eq in Ek.
        apply (Dmin n); [lia|]. eapply (ti_uniq T HT); eauto. congruence. }
      assert (Sk: 1 <= ie_skips e').
      { apply (skips_ge_cross c e (path (2 ^ k) s n) e' Hc Lc He'). unfold epref, edist. rewrite Kc. fold s. fold d.
        apply pref_In. exists n. split; [lia|reflexivity]. }
      destruct (ie_skips e' =? 0) eqn:E0; [apply Nat.eqb_eq in E0; lia|].
      rewrite HL, id_next_nxt. change (nxt (2 ^ k) (path (2 ^ k) s n)) with (path (2 ^ k) s (S n)).
      destruct (path (2 ^ k) s (S n) =? s) eqn:Ew.
      { exfalso. apply Nat.eqb_eq in Ew. assert (S n = 0); [|lia].
        apply (path_inj k s); try lia. exact Ew. }
      apply IH; lia. }
  apply (G d 0 (2 ^ k)); lia.
Qed.

Lemma find_loop_dead id :
  (forall c e, nth_error T c = Some e -> ie_live e = true -> ie_key e <> id) ->
  find_loop T id (id_index (2 ^ k) id) (id_index (2 ^ k) id) (2 ^ k) = IdOk None.
Proof.
  intros Hd. set (s := id_index (2 ^ k) id).
  assert (Hs: s < 2 ^ k) by apply id_index_lt.
  assert (G: forall fuel n, n + fuel = 2 ^ k -> n < 2 ^ k ->
             find_loop T id s (path (2 ^ k) s n) fuel = IdOk None).
  { induction fuel as [|f IH]; intros n Hn Hlt; [lia|]. cbn [find_loop].
    assert (Hp: path (2 ^ k) s n < 2 ^ k) by (apply path_lt; [apply pow2_pos|assumption]).
    destruct (cell_exists _ Hp) as [e' He']. rewrite He'.
    destruct ((ie_key e' =? id)%N && ie_live e') eqn:Em.
    { exfalso. apply andb_true_iff in Em. destruct Em as [Ek El]. apply N.eqb_eq in Ek.
      eapply Hd; eauto. }
    destruct (ie_skips e' =? 0); [reflexivity|].
    rewrite HL, id_next_nxt. change (nxt (2 ^ k) (path (2 ^ k) s n)) with (path (2 ^ k) s (S n)).
    destruct (path (2 ^ k) s (S n) =? s) eqn:Ew; [reflexivity|].
    apply Nat.eqb_neq in Ew. apply IH; [lia|].
    destruct (Nat.eq_dec (S n) (2 ^ k)) as [E|]; [|lia].
    exfalso. apply Ew. rewrite E. now apply path_period. }
  apply (G (2 ^ k) 0); [lia|apply pow2_pos].
Qed.
End Find.

(* the table of a map satisfying MInv is either absent or a power of two *)
Lemma MInv_cap0 m : MInv m -> id_cap m = 0 -> id_entries m = [] /\ id_count m = 0.
Proof.
  intros HI H0. unfold id_cap in H0. apply length_zero_iff_nil in H0.
  split; [assumption|]. rewrite (mi_count m HI). unfold id_cap. rewrite H0. reflexivity.
Qed.

Lemma id_find_live m c e :
  MInv m -> nth_error (id_entries m) c = Some e -> ie_live e = true ->
  id_find m (ie_key e) = IdOk (Some c).
Proof.
  intros HI Hc Lc. unfold id_find.
  assert (Hlt: c < id_cap m) by (apply nth_error_Some; congruence).
  assert (1 <= id_count m).
  { rewrite (mi_count m HI). eapply Nat.le_trans; [|apply (sumf_ge _ _ c Hlt)].
    unfold lv, lvb. rewrite Hc, Lc. lia. }
  destruct (id_count m =? 0) eqn:E0; [apply Nat.eqb_eq in E0; lia|].
  destruct (mi_cap m HI) as [Z|(k & Hk & Hcap)]; [lia|].
  rewrite Hcap. eapply find_loop_live; eauto. apply (mi_tinv m HI).
Qed.

Lemma id_find_dead m id :
  MInv m -> (forall c e, nth_error (id_entries m) c = Some e -> ie_live e = true -> ie_key e <> id) ->
  id_find m id = IdOk None.
Proof.
  intros HI Hd. unfold id_find. destruct (id_count m =? 0) eqn:E0; [reflexivity|].
  destruct (mi_cap m HI) as [Z|(k & Hk & Hcap)].
  - apply (MInv_cap0 m HI) in Z. apply Nat.eqb_neq in E0. tauto.
  - rewrite Hcap. exact (find_loop_dead (id_entries m) k Hcap id Hd).
Qed.

(* id_find decides liveness *)
Lemma id_find_spec m id : MInv m ->
  (exists c e, id_find m id = IdOk (Some c) /\ nth_error (id_entries m) c = Some e /\
               ie_live e = true /\ ie_key e = id) \/
  (id_find m id = IdOk None /\
   forall c e, nth_error (id_entries m) c = Some e -> ie_live e = true -> ie_key e <> id).
Proof.
  intros HI.
  destruct (am_get (abs_list (id_entries m)) id) as [v|] eqn:E.
  - left. apply am_get_In, abs_In in E. destruct E as (c & e & Hc & Hk & Hv).
    exists c, e. assert (L: ie_live e = true) by (apply live_val; eauto).
    repeat split; auto. subst id. now apply id_find_live.
  - right. assert (D: forall c e, nth_error (id_entries m) c = Some e -> ie_live e = true -> ie_key e <> id).
    { intros c e Hc L K. apply live_val in L. destruct L as [v Hv].
      apply am_get_None in E. apply E. apply in_map_iff. exists (id, v). split; [reflexivity|].
      apply abs_In. eauto. }
    split; [now apply id_find_dead|exact D].
Qed.

Lemma id_get_spec m id : MInv m -> id_get m id = IdOk (am_get (abs_list (id_entries m)) id).
Proof.
  intros HI. unfold id_get.
  assert (ND: NoDup (map fst (abs_list (id_entries m)))) by (apply abs_NoDup, (mi_tinv m HI)).
  destruct (id_find_spec m id HI) as [(c & e & F & Hc & L & K)|[F D]]; rewrite F; cbn [id_bind].
  - rewrite Hc. f_equal. apply live_val in L. destruct L as [v Hv]. rewrite Hv.
    symmetry. apply In_am_get; [assumption|]. apply abs_In. eauto.
  - f_equal. symmetry. apply am_get_None. intros Hin. apply in_map_iff in Hin.
    destruct Hin as ([k' v] & Hk & Hin). cbn in Hk. subst k'. apply abs_In in Hin.
    destruct Hin as (c & e & Hc & Hk & Hv). eapply D; eauto. apply live_val; eauto.
Qed.
