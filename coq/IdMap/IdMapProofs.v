(* IdMapProofs: the invariants I1-I4 of DESIGN Appendix D for the model of
   idhash.c, correctness of id_find, the store / walk-back / rehash loops, and the
   refinement of the finite-map + cyclic-cursor specification, lifted to all
   operation histories.  Stdlib only; closed under the global context. *)
From Coq Require Import List Arith Lia PeanoNat ZArith NArith Bool ZifyNat ZifyN Permutation.
From NngV Require Import IdMap.IdMapModel IdMap.IdMapSpec IdMap.ProbeOrder IdMap.IdMapLemmas.
Import ListNotations.

Ltac Zify.zify_post_hook ::= Z.div_mod_to_equations.

(* ------------------------------------------------------------ invariants *)
Definition lvb (e : id_entry) : nat := if ie_live e then 1 else 0.
Definition lv (T : list id_entry) (i : nat) : nat :=
  match nth_error T i with Some e => lvb e | None => 0 end.

(* d(k): the probe distance of the key stored in cell i *)
Definition edist (cap : nat) (e : id_entry) (i : nat) : nat := dist cap (id_index cap (ie_key e)) i.
(* the cells the key of cell i was skipped over: p_0(k) .. p_{d(k)-1}(k) *)
Definition epref (cap : nat) (e : id_entry) (i : nat) : list nat :=
  pref cap (id_index cap (ie_key e)) (edist cap e i).

(* how often the live key of cell i crosses cell c *)
Definition cr (T : list id_entry) (c i : nat) : nat :=
  match nth_error T i with
  | Some e => if ie_live e then count_occ Nat.eq_dec (epref (length T) e i) c else 0
  | None => 0
  end.
(* the contribution of cell i to id_load *)
Definition ld (T : list id_entry) (i : nat) : nat :=
  match nth_error T i with
  | Some e => if ie_live e then S (edist (length T) e i) else 0
  | None => 0
  end.

Definition uniq (T : list id_entry) : Prop :=
  forall i j ei ej, nth_error T i = Some ei -> nth_error T j = Some ej ->
    ie_live ei = true -> ie_live ej = true -> ie_key ei = ie_key ej -> i = j.

Record TInv (T : list id_entry) : Prop := {
  ti_uniq : uniq T;                                   (* live keys occupy distinct cells *)
  ti_skips : forall c e, nth_error T c = Some e ->    (* I1 *)
               ie_skips e = sumf (length T) (cr T c);
  ti_vacant : forall c e, nth_error T c = Some e ->   (* I2 *)
               ie_val e = None -> ie_key e = 0%N }.

Definition thresholds_ok (m : id_map) : Prop :=
  (id_cap m = 0 /\ id_min_load m = 0 /\ id_max_load m = 0) \/
  (id_cap m = 8 /\ id_min_load m = 0 /\ id_max_load m = 5) \/
  (8 < id_cap m /\ id_min_load m = id_cap m / 8 /\ id_max_load m = id_cap m * 2 / 3).

Record MInv (m : id_map) : Prop := {
  mi_cap : id_cap m = 0 \/ exists k, 3 <= k /\ id_cap m = 2 ^ k;
  mi_tinv : TInv (id_entries m);
  mi_count : id_count m = sumf (id_cap m) (lv (id_entries m));      (* I3 *)
  mi_load : id_load m = sumf (id_cap m) (ld (id_entries m));        (* I3 *)
  mi_thr : thresholds_ok m }.

(* the range and the cursor *)
Record RInv (fixed : bool) (m : id_map) : Prop := {
  ri_lo : (1 <= id_min_val m)%N;
  ri_lohi : (id_min_val m <= id_max_val m)%N;
  ri_hi : (id_max_val m < U64)%N;
  ri_fixed : fixed = true \/ (id_max_val m + 1 < U64)%N;
  ri_dyn : id_dyn_val m = 0%N \/ (id_min_val m <= id_dyn_val m <= id_max_val m)%N }.

Definition Inv (fixed : bool) (m : id_map) : Prop := MInv m /\ RInv fixed m.

(* ------------------------------------------------------------ abstraction *)
Definition abs_list (T : list id_entry) : id_amap :=
  flat_map (fun e => match ie_val e with Some v => [(ie_key e, v)] | None => [] end) T.
Definition abs (m : id_map) : id_spec :=
  mkIdSpec (abs_list (id_entries m)) (id_min_val m) (id_max_val m) (id_random m) (id_dyn_val m).

Lemma live_val e : ie_live e = true <-> exists v, ie_val e = Some v.
Proof. unfold ie_live. destruct (ie_val e); split; intros; eauto; try discriminate. destruct H; discriminate. Qed.
Lemma dead_val e : ie_live e = false <-> ie_val e = None.
Proof. unfold ie_live. destruct (ie_val e); split; intros; auto; discriminate. Qed.

Lemma nth_error_lt {A} (T : list A) i : i < length T -> exists e, nth_error T i = Some e.
Proof. intros H. destruct (nth_error T i) eqn:E; [eauto|]. apply nth_error_None in E. lia. Qed.

Lemma abs_In T k v : In (k, v) (abs_list T) <->
  exists c e, nth_error T c = Some e /\ ie_key e = k /\ ie_val e = Some v.
Proof.
  unfold abs_list. rewrite in_flat_map. split.
  - intros (e & Hin & H). apply In_nth_error in Hin. destruct Hin as [c Hc].
    exists c, e. destruct (ie_val e); [|contradiction]. destruct H as [H|[]]. inversion H; subst. auto.
  - intros (c & e & Hc & Hk & Hv). exists e. split; [eapply nth_error_In; eauto|].
    rewrite Hv. left. now subst.
Qed.

Lemma uniq_tail e T : uniq (e :: T) -> uniq T.
Proof.
  intros U i j ei ej Hi Hj Li Lj K. assert (S i = S j); [|lia]. eapply U; eauto.
Qed.

Lemma abs_NoDup T : uniq T -> NoDup (map fst (abs_list T)).
Proof.
  induction T as [|e T IH]; intros U; [constructor|].
  specialize (IH (uniq_tail _ _ U)). cbn [abs_list flat_map]. fold (abs_list T).
  destruct (ie_val e) as [v|] eqn:Ev; [|exact IH].
  cbn. constructor; [|exact IH]. intros Hin. apply in_map_iff in Hin.
  destruct Hin as ([k' v'] & Hk & Hin). cbn in Hk. subst k'. apply abs_In in Hin.
  destruct Hin as (c & e' & Hc & Hk & Hv).
  assert (0 = S c); [|lia]. eapply (U 0 (S c) e e'); cbn; eauto; apply live_val; eauto.
Qed.

Lemma abs_length T : length (abs_list T) = sumf (length T) (lv T).
Proof.
  unfold lv. rewrite (sumf_map_nth T (fun o => match o with Some e => lvb e | None => 0 end)).
  induction T as [|e T IH]; [reflexivity|]. cbn [abs_list flat_map map list_sum]. fold (abs_list T).
  rewrite app_length, IH. unfold lvb at 2, ie_live. unfold list_sum. destruct (ie_val e); cbn [length fold_right]; lia.
Qed.

(* ---------------------------------------------------------------- id_find *)
Section Find.
Variables (T : list id_entry) (k : nat).
Hypothesis HL : length T = 2 ^ k.
Hypothesis HT : TInv T.

Lemma cell_exists p : p < 2 ^ k -> exists e, nth_error T p = Some e.
Proof. intros. apply nth_error_lt. lia. Qed.

Lemma skips_ge_cross c e p e' :
  nth_error T c = Some e -> ie_live e = true -> nth_error T p = Some e' ->
  In p (epref (2 ^ k) e c) -> 1 <= ie_skips e'.
Proof.
  intros Hc Lc Hp Hin. rewrite (ti_skips T HT p e' Hp).
  assert (c < length T) by (apply nth_error_Some; congruence).
  eapply Nat.le_trans; [|apply (sumf_ge _ _ c); assumption].
  unfold cr. rewrite Hc, Lc, HL. apply (count_occ_In Nat.eq_dec) in Hin. lia.
Qed.

Lemma find_loop_live id c e :
  nth_error T c = Some e -> ie_live e = true -> ie_key e = id ->
  find_loop T id (id_index (2 ^ k) id) (id_index (2 ^ k) id) (2 ^ k) = IdOk (Some c).
Proof.
  intros Hc Lc Kc. set (s := id_index (2 ^ k) id).
  assert (Hs: s < 2 ^ k) by apply id_index_lt.
  assert (Hc': c < 2 ^ k) by (rewrite <- HL; apply nth_error_Some; congruence).
  destruct (dist_spec k s c Hs Hc') as (Dlt & Dp & Dmin). set (d := dist (2 ^ k) s c) in *.
  assert (G: forall m n fuel, n + m = d -> m < fuel ->
             find_loop T id s (path (2 ^ k) s n) fuel = IdOk (Some c)).
  { induction m as [|m IH]; intros n fuel Hn Hf; (destruct fuel as [|f]; [lia|]); cbn [find_loop].
    - replace n with d by lia. rewrite Dp, Hc, Kc, N.eqb_refl, Lc. reflexivity.
    - assert (Hp: path (2 ^ k) s n < 2 ^ k) by (apply path_lt; [apply pow2_pos|assumption]).
      destruct (cell_exists _ Hp) as [e' He']. rewrite He'.
      destruct ((ie_key e' =? id)%N && ie_live e') eqn:Em.
      { exfalso. apply andb_true_iff in Em. destruct Em as [Ek El]. apply N.eqb_eq in Ek.
        apply (Dmin n); [lia|]. eapply (ti_uniq T HT); eauto. congruence. }
      assert (Sk: 1 <= ie_skips e').
      { apply (skips_ge_cross c e (path (2 ^ k) s n) e' Hc Lc He'). unfold epref, edist. rewrite Kc. fold s. fold d.
        apply pref_In. exists n. split; [lia|reflexivity]. }
      destruct (ie_skips e' =? 0) eqn:E0; [apply Nat.eqb_eq in E0; lia|].
      rewrite HL, id_next_nxt. change (nxt (2 ^ k) (path (2 ^ k) s n)) with (path (2 ^ k) s (S n)).
      destruct (path (2 ^ k) s (S n) =? s) eqn:Ew.
      { exfalso. apply Nat.eqb_eq in Ew. assert (S n = 0); [|lia].
        apply (path_inj k s); try lia. exact Ew. }
      apply IH; lia. }
  apply (G d 0 (2 ^ k)); lia.
Qed.

Lemma find_loop_dead id :
  (forall c e, nth_error T c = Some e -> ie_live e = true -> ie_key e <> id) ->
  find_loop T id (id_index (2 ^ k) id) (id_index (2 ^ k) id) (2 ^ k) = IdOk None.
Proof.
  intros Hd. set (s := id_index (2 ^ k) id).
  assert (Hs: s < 2 ^ k) by apply id_index_lt.
  assert (G: forall fuel n, n + fuel = 2 ^ k -> n < 2 ^ k ->
             find_loop T id s (path (2 ^ k) s n) fuel = IdOk None).
  { induction fuel as [|f IH]; intros n Hn Hlt; [lia|]. cbn [find_loop].
    assert (Hp: path (2 ^ k) s n < 2 ^ k) by (apply path_lt; [apply pow2_pos|assumption]).
    destruct (cell_exists _ Hp) as [e' He']. rewrite He'.
    destruct ((ie_key e' =? id)%N && ie_live e') eqn:Em.
    { exfalso. apply andb_true_iff in Em. destruct Em as [Ek El]. apply N.eqb_eq in Ek.
      eapply Hd; eauto. }
    destruct (ie_skips e' =? 0); [reflexivity|].
    rewrite HL, id_next_nxt. change (nxt (2 ^ k) (path (2 ^ k) s n)) with (path (2 ^ k) s (S n)).
    destruct (path (2 ^ k) s (S n) =? s) eqn:Ew; [reflexivity|].
    apply Nat.eqb_neq in Ew. apply IH; [lia|].
    destruct (Nat.eq_dec (S n) (2 ^ k)) as [E|]; [|lia].
    exfalso. apply Ew. rewrite E. now apply path_period. }
  apply (G (2 ^ k) 0); [lia|apply pow2_pos].
Qed.
End Find.

(* the table of a map satisfying MInv is either absent or a power of two *)
Lemma MInv_cap0 m : MInv m -> id_cap m = 0 -> id_entries m = [] /\ id_count m = 0.
Proof.
  intros HI H0. unfold id_cap in H0. apply length_zero_iff_nil in H0.
  split; [assumption|]. rewrite (mi_count m HI). unfold id_cap. rewrite H0. reflexivity.
Qed.

Lemma id_find_live m c e :
  MInv m -> nth_error (id_entries m) c = Some e -> ie_live e = true ->
  id_find m (ie_key e) = IdOk (Some c).
Proof.
  intros HI Hc Lc. unfold id_find.
  assert (Hlt: c < id_cap m) by (apply nth_error_Some; congruence).
  assert (1 <= id_count m).
  { rewrite (mi_count m HI). eapply Nat.le_trans; [|apply (sumf_ge _ _ c Hlt)].
    unfold lv, lvb. rewrite Hc, Lc. lia. }
  destruct (id_count m =? 0) eqn:E0; [apply Nat.eqb_eq in E0; lia|].
  destruct (mi_cap m HI) as [Z|(k & Hk & Hcap)]; [lia|].
  rewrite Hcap. eapply find_loop_live; eauto. apply (mi_tinv m HI).
Qed.

Lemma id_find_dead m id :
  MInv m -> (forall c e, nth_error (id_entries m) c = Some e -> ie_live e = true -> ie_key e <> id) ->
  id_find m id = IdOk None.
Proof.
  intros HI Hd. unfold id_find. destruct (id_count m =? 0) eqn:E0; [reflexivity|].
  destruct (mi_cap m HI) as [Z|(k & Hk & Hcap)].
  - apply (MInv_cap0 m HI) in Z. apply Nat.eqb_neq in E0. tauto.
  - rewrite Hcap. exact (find_loop_dead (id_entries m) k Hcap id Hd).
Qed.

(* id_find decides liveness *)
Lemma id_find_spec m id : MInv m ->
  (exists c e, id_find m id = IdOk (Some c) /\ nth_error (id_entries m) c = Some e /\
               ie_live e = true /\ ie_key e = id) \/
  (id_find m id = IdOk None /\
   forall c e, nth_error (id_entries m) c = Some e -> ie_live e = true -> ie_key e <> id).
Proof.
  intros HI.
  destruct (am_get (abs_list (id_entries m)) id) as [v|] eqn:E.
  - left. apply am_get_In, abs_In in E. destruct E as (c & e & Hc & Hk & Hv).
    exists c, e. assert (L: ie_live e = true) by (apply live_val; eauto).
    repeat split; auto. subst id. now apply id_find_live.
  - right. assert (D: forall c e, nth_error (id_entries m) c = Some e -> ie_live e = true -> ie_key e <> id).
    { intros c e Hc L K. apply live_val in L. destruct L as [v Hv].
      apply am_get_None in E. apply E. apply in_map_iff. exists (id, v). split; [reflexivity|].
      apply abs_In. eauto. }
    split; [now apply id_find_dead|exact D].
Qed.

Lemma id_get_spec m id : MInv m -> id_get m id = IdOk (am_get (abs_list (id_entries m)) id).
Proof.
  intros HI. unfold id_get.
  assert (ND: NoDup (map fst (abs_list (id_entries m)))) by (apply abs_NoDup, (mi_tinv m HI)).
  destruct (id_find_spec m id HI) as [(c & e & F & Hc & L & K)|[F D]]; rewrite F; cbn [id_bind].
  - rewrite Hc. f_equal. apply live_val in L. destruct L as [v Hv]. rewrite Hv.
    symmetry. apply In_am_get; [assumption|]. apply abs_In. eauto.
  - f_equal. symmetry. apply am_get_None. intros Hin. apply in_map_iff in Hin.
    destruct Hin as ([k' v] & Hk & Hin). cbn in Hk. subst k'. apply abs_In in Hin.
    destruct Hin as (c & e & Hc & Hk & Hv). eapply D; eauto. apply live_val; eauto.
Qed.

(* ------------------------------------------------ the store loop (ins_loop) *)
Definition bump_at (l : list nat) (c : nat) (e : id_entry) : id_entry :=
  mkIdEntry (ie_key e) (ie_skips e + count_occ Nat.eq_dec l c) (ie_val e).

(* vacant cells never carry a skip count: holds while a table is only filled *)
Definition NoTomb (T : list id_entry) : Prop :=
  forall c e, nth_error T c = Some e -> ie_val e = None -> ie_skips e = 0.

Lemma ins_loop_char k id v asrt : forall d T s load fuel ed,
  length T = 2 ^ k -> s < 2 ^ k -> d < fuel ->
  (forall i, i < d -> exists e, nth_error T (path (2 ^ k) s i) = Some e /\ ie_live e = true) ->
  nth_error T (path (2 ^ k) s d) = Some ed -> ie_val ed = None ->
  (asrt = true -> ie_skips ed = 0) ->
  exists T', ins_loop T (2 ^ k) id v s load fuel asrt = IdOk (T', load + d + 1) /\
             length T' = 2 ^ k /\
             forall c e, nth_error T c = Some e ->
               nth_error T' c = Some (if c =? path (2 ^ k) s d then mkIdEntry id (ie_skips e) (Some v)
                                      else bump_at (pref (2 ^ k) s d) c e).
Proof.
  induction d as [|d IH]; intros T s load fuel ed HL Hs Hf Hocc Hd Hv Ha;
    (destruct fuel as [|f]; [lia|]); cbn [ins_loop].
  - cbn [path] in *. rewrite Hd, Hv.
    assert (A: asrt && negb (ie_skips ed =? 0) = false).
    { destruct asrt; [|reflexivity]. rewrite Ha by reflexivity. reflexivity. }
    rewrite A. eexists. split; [f_equal; f_equal; lia|]. split; [rewrite tupd_length; lia|].
    intros c e Hc. rewrite tupd_nth by lia. destruct (c =? s) eqn:E.
    + apply Nat.eqb_eq in E. subst c. rewrite Hd in Hc. inversion Hc; subst. reflexivity.
    + rewrite Hc. f_equal. unfold bump_at, pref. cbn. destruct e; cbn. f_equal. lia.
  - destruct (Hocc 0 ltac:(lia)) as (e0 & He0 & L0). cbn [path] in He0. rewrite He0.
    destruct (live_val e0) as [LV _]. destruct (LV L0) as [v0 Hv0]. rewrite Hv0.
    assert (Hne: path (2 ^ k) s (S d) <> s).
    { intros E. rewrite E in Hd. rewrite He0 in Hd. inversion Hd; subst. congruence. }
    set (T1 := tupd T s (mkIdEntry (ie_key e0) (S (ie_skips e0)) (Some v0))).
    assert (HL1: length T1 = 2 ^ k) by (unfold T1; rewrite tupd_length; lia).
    assert (N1: forall c, nth_error T1 c = if c =? s then Some (mkIdEntry (ie_key e0) (S (ie_skips e0)) (Some v0))
                                          else nth_error T c).
    { intros c. unfold T1. apply tupd_nth. lia. }
    rewrite id_next_nxt.
    destruct (IH T1 (nxt (2 ^ k) s) (S load) f ed HL1 (nxt_lt _ _ (pow2_pos k)) ltac:(lia)) as (T' & R & HL' & P).
    + intros i Hi. rewrite <- path_succ_r. destruct (Hocc (S i) ltac:(lia)) as (e & He & Le).
      rewrite N1. destruct (path (2 ^ k) s (S i) =? s); [|eauto].
      eexists. split; [reflexivity|reflexivity].
    + rewrite <- path_succ_r, N1. apply Nat.eqb_neq in Hne. now rewrite Hne.
    + assumption.
    + assumption.
    + exists T'. split; [rewrite R; f_equal; f_equal; lia|]. split; [assumption|].
      intros c e Hc. specialize (P c). rewrite N1 in P. rewrite <- path_succ_r in P.
      rewrite pref_succ.
      destruct (c =? s) eqn:Es.
      * apply Nat.eqb_eq in Es. subst c. rewrite He0 in Hc. inversion Hc; subst e.
        rewrite (P _ eq_refl). apply Nat.eqb_neq in Hne. rewrite Nat.eqb_sym, Hne.
        f_equal. unfold bump_at. cbn [ie_key ie_skips ie_val]. rewrite Hv0.
        rewrite count_occ_cons_eq by reflexivity. f_equal. lia.
      * rewrite (P _ Hc). destruct (c =? path (2 ^ k) s (S d)); [reflexivity|].
        f_equal. unfold bump_at. apply Nat.eqb_neq in Es. rewrite count_occ_cons_neq by congruence. reflexivity.
Qed.

(* the first vacant cell on a probe path *)
Lemma first_vacant k T s : length T = 2 ^ k -> s < 2 ^ k -> sumf (2 ^ k) (lv T) < 2 ^ k ->
  exists d, d < 2 ^ k /\ lv T (path (2 ^ k) s d) = 0 /\ forall i, i < d -> lv T (path (2 ^ k) s i) <> 0.
Proof.
  intros HL Hs Hv.
  destruct (sumf_vacancy (2 ^ k) (lv T)) as (c & Hc & Hz); [|assumption|].
  { intros i _. unfold lv, lvb. destruct (nth_error T i) as [e|]; [destruct (ie_live e)|]; lia. }
  destruct (path_surj k s c Hs Hc) as (n & Hn & En).
  destruct (Wf_nat.dec_inh_nat_subset_has_unique_least_element (fun n => lv T (path (2 ^ k) s n) = 0))
    as (d & (Pd & Hmin) & _).
  - intros x. destruct (Nat.eq_dec (lv T (path (2 ^ k) s x)) 0); [now left|now right].
  - exists n. now rewrite En.
  - exists d. assert (d <= n) by (apply Hmin; now rewrite En). split; [lia|]. split; [assumption|].
    intros i Hi Hz'. specialize (Hmin i Hz'). lia.
Qed.

Lemma lv_live T p : lv T p <> 0 -> exists e, nth_error T p = Some e /\ ie_live e = true.
Proof.
  unfold lv, lvb. destruct (nth_error T p) as [e|]; [|lia]. destruct (ie_live e) eqn:E; [eauto|lia].
Qed.
Lemma lv_vacant T p : p < length T -> lv T p = 0 -> exists e, nth_error T p = Some e /\ ie_val e = None.
Proof.
  intros Hp. unfold lv, lvb. destruct (nth_error_lt T p Hp) as [e He]. rewrite He.
  destruct (ie_live e) eqn:E; [lia|]. intros _. exists e. split; [reflexivity|now apply dead_val].
Qed.

(* what a table must look like, relative to T, after storing (id, v) at distance d *)
Definition stored (k : nat) (T T' : list id_entry) (id v : N) (d : nat) : Prop :=
  let s := id_index (2 ^ k) id in
  length T' = 2 ^ k /\
  forall c e, nth_error T c = Some e ->
    nth_error T' c = Some (if c =? path (2 ^ k) s d then mkIdEntry id (ie_skips e) (Some v)
                           else bump_at (pref (2 ^ k) s d) c e).

Section Stored.
Variables (k : nat) (T T' : list id_entry) (id v : N) (d : nat).
Let s := id_index (2 ^ k) id.
Let p := path (2 ^ k) s d.
Hypothesis HL : length T = 2 ^ k.
Hypothesis HT : TInv T.
Hypothesis Hd : d < 2 ^ k.
Hypothesis Hocc : forall i, i < d -> lv T (path (2 ^ k) s i) <> 0.
Hypothesis Hvac : lv T p = 0.
Hypothesis Hdead : forall c e, nth_error T c = Some e -> ie_live e = true -> ie_key e <> id.
Hypothesis HS : stored k T T' id v d.

Let Hs : s < 2 ^ k := id_index_lt k id.
Let Hp : p < 2 ^ k := path_lt _ _ _ (pow2_pos k) Hs.
Let HL' : length T' = 2 ^ k := proj1 HS.

Lemma st_cell c : c < 2 ^ k -> exists e, nth_error T c = Some e /\
  nth_error T' c = Some (if c =? p then mkIdEntry id (ie_skips e) (Some v) else bump_at (pref (2 ^ k) s d) c e).
Proof.
  intros Hc. destruct (nth_error_lt T c) as [e He]; [lia|]. exists e. split; [assumption|].
  now apply (proj2 HS).
Qed.

Lemma st_p_notin : ~ In p (pref (2 ^ k) s d).
Proof.
  intros Hin. apply pref_In in Hin. destruct Hin as (i & Hi & E). apply (Hocc i Hi). now rewrite E.
Qed.

Lemma st_other c e' : c <> p -> nth_error T' c = Some e' ->
  exists e, nth_error T c = Some e /\ ie_key e' = ie_key e /\ ie_val e' = ie_val e /\
            ie_skips e' = ie_skips e + count_occ Nat.eq_dec (pref (2 ^ k) s d) c.
Proof.
  intros Hne Hc. assert (c < 2 ^ k) by (rewrite <- HL'; apply nth_error_Some; congruence).
  destruct (st_cell c H) as (e & He & He'). apply Nat.eqb_neq in Hne. rewrite Hne in He'.
  rewrite Hc in He'. inversion He'; subst e'. exists e. cbn. auto.
Qed.

Lemma st_at_p : exists e, nth_error T p = Some e /\ ie_val e = None /\
  nth_error T' p = Some (mkIdEntry id (ie_skips e) (Some v)).
Proof.
  destruct (st_cell p Hp) as (e & He & He'). rewrite Nat.eqb_refl in He'.
  exists e. split; [assumption|]. split; [|assumption].
  destruct (lv_vacant T p ltac:(lia) Hvac) as (e2 & He2 & Hv2). congruence.
Qed.

Lemma st_lv i : i <> p -> lv T' i = lv T i.
Proof.
  intros Hne. unfold lv. destruct (nth_error T' i) as [e'|] eqn:E.
  - destruct (st_other i e' Hne E) as (e & He & _ & Hv & _). rewrite He. unfold lvb, ie_live. now rewrite Hv.
  - apply nth_error_None in E. assert (nth_error T i = None) by (apply nth_error_None; lia). now rewrite H.
Qed.
Lemma st_ld i : i <> p -> ld T' i = ld T i.
Proof.
  intros Hne. unfold ld. rewrite HL, HL'. destruct (nth_error T' i) as [e'|] eqn:E.
  - destruct (st_other i e' Hne E) as (e & He & Hk & Hv & _). rewrite He. unfold ie_live, edist. now rewrite Hv, Hk.
  - apply nth_error_None in E. assert (nth_error T i = None) by (apply nth_error_None; lia). now rewrite H.
Qed.
Lemma st_cr c i : i <> p -> cr T' c i = cr T c i.
Proof.
  intros Hne. unfold cr. rewrite HL, HL'. destruct (nth_error T' i) as [e'|] eqn:E.
  - destruct (st_other i e' Hne E) as (e & He & Hk & Hv & _). rewrite He.
    unfold ie_live, epref, edist. now rewrite Hv, Hk.
  - apply nth_error_None in E. assert (nth_error T i = None) by (apply nth_error_None; lia). now rewrite H.
Qed.

Lemma st_dist_p : dist (2 ^ k) s p = d.
Proof. apply dist_unique; assumption. Qed.

Lemma st_count : sumf (2 ^ k) (lv T') = S (sumf (2 ^ k) (lv T)).
Proof.
  pose proof (sumf_upd (2 ^ k) (lv T) (lv T') p Hp (fun i _ Hne => st_lv i Hne)) as H.
  rewrite Hvac in H. destruct st_at_p as (e & _ & _ & E). unfold lv at 3 in H. rewrite E in H. cbn in H. lia.
Qed.

Lemma st_load : sumf (2 ^ k) (ld T') = sumf (2 ^ k) (ld T) + S d.
Proof.
  pose proof (sumf_upd (2 ^ k) (ld T) (ld T') p Hp (fun i _ Hne => st_ld i Hne)) as H.
  destruct st_at_p as (e & E0 & V0 & E). unfold ld at 2 4 in H. rewrite E, E0 in H.
  apply dead_val in V0. rewrite V0 in H. cbn [ie_live ie_val] in H. unfold edist in H. cbn [ie_key] in H.
  rewrite HL' in H. fold s in H. rewrite st_dist_p in H. lia.
Qed.

Lemma st_cross c : sumf (2 ^ k) (cr T' c) = sumf (2 ^ k) (cr T c) + count_occ Nat.eq_dec (pref (2 ^ k) s d) c.
Proof.
  pose proof (sumf_upd (2 ^ k) (cr T c) (cr T' c) p Hp (fun i _ Hne => st_cr c i Hne)) as H.
  destruct st_at_p as (e & E0 & V0 & E). unfold cr at 2 4 in H. rewrite E, E0 in H.
  apply dead_val in V0. rewrite V0 in H. cbn [ie_live ie_val] in H. unfold epref, edist in H. cbn [ie_key] in H.
  rewrite HL' in H. fold s in H. rewrite st_dist_p in H. lia.
Qed.

Lemma st_TInv : TInv T'.
Proof.
  split.
  - intros i j ei ej Hi Hj Li Lj K.
    destruct (Nat.eq_dec i p) as [Ei|Ei]; destruct (Nat.eq_dec j p) as [Ej|Ej]; [congruence| | |].
    + exfalso. subst i. destruct st_at_p as (e & _ & _ & E). rewrite E in Hi. inversion Hi; subst ei.
      destruct (st_other j ej Ej Hj) as (e2 & He2 & Hk2 & Hv2 & _). cbn in K.
      apply (Hdead j e2 He2); [|congruence]. unfold ie_live in *. now rewrite <- Hv2.
    + exfalso. subst j. destruct st_at_p as (e & _ & _ & E). rewrite E in Hj. inversion Hj; subst ej.
      destruct (st_other i ei Ei Hi) as (e2 & He2 & Hk2 & Hv2 & _). cbn in K.
      apply (Hdead i e2 He2); [|congruence]. unfold ie_live in *. now rewrite <- Hv2.
    + destruct (st_other i ei Ei Hi) as (e1 & He1 & Hk1 & Hv1 & _).
      destruct (st_other j ej Ej Hj) as (e2 & He2 & Hk2 & Hv2 & _).
      apply (ti_uniq T HT i j e1 e2); auto.
      * unfold ie_live in *. now rewrite <- Hv1.
      * unfold ie_live in *. now rewrite <- Hv2.
      * congruence.
  - intros c e' Hc. rewrite HL', st_cross.
    destruct (Nat.eq_dec c p) as [E|E].
    + subst c. destruct st_at_p as (e & E0 & _ & E1). rewrite E1 in Hc. inversion Hc; subst e'. cbn [ie_skips].
      rewrite (ti_skips T HT p e E0), HL.
      assert (Z: count_occ Nat.eq_dec (pref (2 ^ k) s d) p = 0) by (apply count_occ_not_In, st_p_notin).
      rewrite Z. lia.
    + destruct (st_other c e' E Hc) as (e & He & _ & _ & Sk). rewrite Sk, (ti_skips T HT c e He), HL. reflexivity.
  - intros c e' Hc Hv. destruct (Nat.eq_dec c p) as [E|E].
    + subst c. destruct st_at_p as (e & _ & _ & E1). rewrite E1 in Hc. inversion Hc; subst e'. discriminate.
    + destruct (st_other c e' E Hc) as (e & He & Hk & Hv' & _). rewrite Hk. apply (ti_vacant T HT c e He). congruence.
Qed.

Lemma st_NoTomb : NoTomb T -> NoTomb T'.
Proof.
  intros NT c e' Hc Hv. destruct (Nat.eq_dec c p) as [E|E].
  - subst c. destruct st_at_p as (e & _ & _ & E1). rewrite E1 in Hc. inversion Hc; subst e'. discriminate.
  - destruct (st_other c e' E Hc) as (e & He & Hk & Hv' & Sk). rewrite Sk.
    rewrite (NT c e He) by congruence. cbn [Nat.add].
    apply count_occ_not_In.
    intros Hin. apply pref_In in Hin. destruct Hin as (i & Hi & Ei).
    apply (Hocc i Hi). rewrite Ei. unfold lv. rewrite He. unfold lvb, ie_live. rewrite <- Hv', Hv. reflexivity.
Qed.

Lemma st_abs k' v' : In (k', v') (abs_list T') <-> (k' = id /\ v' = v) \/ In (k', v') (abs_list T).
Proof.
  rewrite !abs_In. split.
  - intros (c & e' & Hc & Hk & Hv). destruct (Nat.eq_dec c p) as [E|E].
    + subst c. destruct st_at_p as (e & _ & _ & E1). rewrite E1 in Hc. inversion Hc; subst e'. cbn in *.
      left. split; congruence.
    + destruct (st_other c e' E Hc) as (e & He & Hk2 & Hv2 & _). right. exists c, e. repeat split; congruence.
  - intros [[-> ->]|(c & e & Hc & Hk & Hv)].
    + destruct st_at_p as (e & _ & _ & E1). exists p, (mkIdEntry id (ie_skips e) (Some v)). auto.
    + assert (c < 2 ^ k) by (rewrite <- HL; apply nth_error_Some; congruence).
      destruct (st_cell c H) as (e2 & He2 & He2'). rewrite Hc in He2. inversion He2; subst e2.
      destruct (c =? p) eqn:E.
      * apply Nat.eqb_eq in E. subst c. exfalso. unfold lv in Hvac. rewrite Hc in Hvac.
        unfold lvb, ie_live in Hvac. rewrite Hv in Hvac. lia.
      * eexists c, _. split; [exact He2'|]. cbn. auto.
Qed.
End Stored.

(* --------------------------------------- the walk-back loop (rm_loop) *)
Definition unbump_at (l : list nat) (c : nat) (e : id_entry) : id_entry :=
  mkIdEntry (ie_key e) (ie_skips e - count_occ Nat.eq_dec l c) (ie_val e).

Lemma rm_loop_char k c : forall d T s load fuel,
  length T = 2 ^ k -> s < 2 ^ k -> d < fuel -> d < load ->
  (forall i, i < d -> path (2 ^ k) s i <> c) -> path (2 ^ k) s d = c ->
  (forall c', c' < 2 ^ k -> exists e, nth_error T c' = Some e /\
                                      count_occ Nat.eq_dec (pref (2 ^ k) s d) c' <= ie_skips e) ->
  exists T', rm_loop T (2 ^ k) c s load fuel = IdOk (T', load - d - 1) /\ length T' = 2 ^ k /\
    forall c' e, nth_error T c' = Some e ->
      nth_error T' c' = Some (if c' =? c then mkIdEntry 0%N (ie_skips e) None
                              else unbump_at (pref (2 ^ k) s d) c' e).
Proof.
  induction d as [|d IH]; intros T s load fuel HL Hs Hf Hl Hne Hd Hsk;
    (destruct fuel as [|f]; [lia|]); (destruct load as [|load']; [lia|]); cbn [rm_loop id_dec id_bind].
  - cbn [path] in Hd. subst c. destruct (Hsk s Hs) as (e & He & _). rewrite He, Nat.eqb_refl.
    eexists. split; [f_equal; f_equal; lia|]. split; [rewrite tupd_length; lia|].
    intros c' e' Hc'. rewrite tupd_nth by lia. destruct (c' =? s) eqn:E.
    + apply Nat.eqb_eq in E. subst. rewrite He in Hc'. now inversion Hc'.
    + rewrite Hc'. f_equal. unfold unbump_at, pref. cbn. destruct e'; cbn. f_equal. lia.
  - assert (Hsc: s <> c) by (apply (Hne 0); lia).
    destruct (Hsk s Hs) as (e0 & He0 & Hc0). rewrite He0.
    apply Nat.eqb_neq in Hsc. rewrite Hsc. apply Nat.eqb_neq in Hsc.
    rewrite pref_succ, count_occ_cons_eq in Hc0 by reflexivity.
    destruct (ie_skips e0) as [|sk] eqn:Esk; [lia|].
    set (T1 := tupd T s (mkIdEntry (ie_key e0) sk (ie_val e0))).
    assert (HL1: length T1 = 2 ^ k) by (unfold T1; rewrite tupd_length; lia).
    assert (N1: forall c', nth_error T1 c' = if c' =? s then Some (mkIdEntry (ie_key e0) sk (ie_val e0))
                                            else nth_error T c').
    { intros c'. unfold T1. apply tupd_nth. lia. }
    rewrite id_next_nxt.
    destruct (IH T1 (nxt (2 ^ k) s) load' f HL1 (nxt_lt _ _ (pow2_pos k)) ltac:(lia) ltac:(lia)) as (T' & R & HL' & P).
    + intros i Hi. rewrite <- path_succ_r. apply Hne. lia.
    + now rewrite <- path_succ_r.
    + intros c' Hc'. rewrite N1. destruct (c' =? s) eqn:E.
      * apply Nat.eqb_eq in E. subst c'. eexists. split; [reflexivity|]. cbn [ie_skips]. lia.
      * destruct (Hsk c' Hc') as (e & He & Hc). exists e. split; [assumption|].
        apply Nat.eqb_neq in E. rewrite pref_succ, count_occ_cons_neq in Hc by congruence. exact Hc.
    + exists T'. split; [rewrite R; f_equal; f_equal; lia|]. split; [assumption|].
      intros c' e Hc'. specialize (P c'). rewrite N1 in P. rewrite pref_succ.
      destruct (c' =? s) eqn:Es.
      * apply Nat.eqb_eq in Es. subst c'. rewrite He0 in Hc'. inversion Hc'; subst e.
        rewrite (P _ eq_refl). apply Nat.eqb_neq in Hsc. rewrite Hsc. f_equal.
        unfold unbump_at. cbn [ie_key ie_skips ie_val]. rewrite count_occ_cons_eq by reflexivity.
        rewrite Esk. try reflexivity; f_equal; lia.
      * rewrite (P _ Hc'). destruct (c' =? c); [reflexivity|]. f_equal. unfold unbump_at.
        apply Nat.eqb_neq in Es. rewrite count_occ_cons_neq by congruence. reflexivity.
Qed.

Definition removed (k : nat) (T T' : list id_entry) (id : N) (c : nat) : Prop :=
  let s := id_index (2 ^ k) id in
  length T' = 2 ^ k /\
  forall c' e, nth_error T c' = Some e ->
    nth_error T' c' = Some (if c' =? c then mkIdEntry 0%N (ie_skips e) None
                            else unbump_at (pref (2 ^ k) s (dist (2 ^ k) s c)) c' e).

Section Removed.
Variables (k : nat) (T T' : list id_entry) (id : N) (c : nat) (ec : id_entry).
Let s := id_index (2 ^ k) id.
Let d := dist (2 ^ k) s c.
Hypothesis HL : length T = 2 ^ k.
Hypothesis HT : TInv T.
Hypothesis Hc : nth_error T c = Some ec.
Hypothesis Lc : ie_live ec = true.
Hypothesis Kc : ie_key ec = id.
Hypothesis HR : removed k T T' id c.

Let Hs : s < 2 ^ k := id_index_lt k id.
Let HL' : length T' = 2 ^ k := proj1 HR.

Lemma rm_c_lt : c < 2 ^ k.
Proof. rewrite <- HL. apply nth_error_Some. congruence. Qed.

Lemma rm_dist : d < 2 ^ k /\ path (2 ^ k) s d = c /\ forall i, i < d -> path (2 ^ k) s i <> c.
Proof. apply dist_spec; [exact Hs|exact rm_c_lt]. Qed.

Lemma rm_c_notin : ~ In c (pref (2 ^ k) s d).
Proof.
  intros Hin. apply pref_In in Hin. destruct Hin as (i & Hi & E). destruct rm_dist as (_ & _ & M). exact (M i Hi E).
Qed.

Lemma rm_cr_c c' : cr T c' c = count_occ Nat.eq_dec (pref (2 ^ k) s d) c'.
Proof. unfold cr. rewrite Hc, Lc, HL. unfold epref, edist. rewrite Kc. reflexivity. Qed.

Lemma rm_skips_ge c' : c' < 2 ^ k -> exists e, nth_error T c' = Some e /\
  count_occ Nat.eq_dec (pref (2 ^ k) s d) c' <= ie_skips e.
Proof.
  clear HL' HR. intros H. destruct (nth_error_lt T c') as [e He]; [lia|]. exists e. split; [assumption|].
  rewrite (ti_skips T HT c' e He), HL, <- rm_cr_c. apply sumf_ge. exact rm_c_lt.
Qed.

Lemma rm_load_ge : d < sumf (2 ^ k) (ld T).
Proof.
  clear HL' HR. pose proof (sumf_ge (2 ^ k) (ld T) c rm_c_lt) as H. unfold ld at 1 in H.
  rewrite Hc, Lc, HL in H. unfold edist in H. rewrite Kc in H. fold s in H. fold d in H. lia.
Qed.

Lemma rm_other c' e' : c' <> c -> nth_error T' c' = Some e' ->
  exists e, nth_error T c' = Some e /\ ie_key e' = ie_key e /\ ie_val e' = ie_val e /\
            ie_skips e' = ie_skips e - count_occ Nat.eq_dec (pref (2 ^ k) s d) c'.
Proof.
  intros Hne H'. assert (c' < 2 ^ k) by (rewrite <- HL'; apply nth_error_Some; congruence).
  destruct (nth_error_lt T c') as [e He]; [lia|].
  pose proof (proj2 HR c' e He) as P. apply Nat.eqb_neq in Hne. rewrite Hne in P.
  rewrite H' in P. inversion P; subst e'. exists e. cbn. auto.
Qed.

Lemma rm_at_c : nth_error T' c = Some (mkIdEntry 0%N (ie_skips ec) None).
Proof. pose proof (proj2 HR c ec Hc) as P. now rewrite Nat.eqb_refl in P. Qed.

Lemma rm_lv i : i <> c -> lv T' i = lv T i.
Proof.
  intros Hne. unfold lv. destruct (nth_error T' i) as [e'|] eqn:E.
  - destruct (rm_other i e' Hne E) as (e & He & _ & Hv & _). rewrite He. unfold lvb, ie_live. now rewrite Hv.
  - apply nth_error_None in E. assert (nth_error T i = None) by (apply nth_error_None; lia). now rewrite H.
Qed.
Lemma rm_ld i : i <> c -> ld T' i = ld T i.
Proof.
  intros Hne. unfold ld. rewrite HL, HL'. destruct (nth_error T' i) as [e'|] eqn:E.
  - destruct (rm_other i e' Hne E) as (e & He & Hk & Hv & _). rewrite He. unfold ie_live, edist. now rewrite Hv, Hk.
  - apply nth_error_None in E. assert (nth_error T i = None) by (apply nth_error_None; lia). now rewrite H.
Qed.
Lemma rm_cr c' i : i <> c -> cr T' c' i = cr T c' i.
Proof.
  intros Hne. unfold cr. rewrite HL, HL'. destruct (nth_error T' i) as [e'|] eqn:E.
  - destruct (rm_other i e' Hne E) as (e & He & Hk & Hv & _). rewrite He.
    unfold ie_live, epref, edist. now rewrite Hv, Hk.
  - apply nth_error_None in E. assert (nth_error T i = None) by (apply nth_error_None; lia). now rewrite H.
Qed.

Lemma rm_count : S (sumf (2 ^ k) (lv T')) = sumf (2 ^ k) (lv T).
Proof.
  pose proof (sumf_upd (2 ^ k) (lv T) (lv T') c rm_c_lt (fun i _ Hne => rm_lv i Hne)) as H.
  unfold lv at 2 4 in H. rewrite Hc, rm_at_c in H. unfold lvb in H. rewrite Lc in H. cbn in H. lia.
Qed.

Lemma rm_load : sumf (2 ^ k) (ld T') + S d = sumf (2 ^ k) (ld T).
Proof.
  pose proof (sumf_upd (2 ^ k) (ld T) (ld T') c rm_c_lt (fun i _ Hne => rm_ld i Hne)) as H.
  unfold ld at 2 4 in H. rewrite Hc, rm_at_c, Lc, HL in H. cbn [ie_live ie_val] in H.
  unfold edist in H. rewrite Kc in H. fold s in H. fold d in H. lia.
Qed.

Lemma rm_cross c' : sumf (2 ^ k) (cr T' c') + count_occ Nat.eq_dec (pref (2 ^ k) s d) c' = sumf (2 ^ k) (cr T c').
Proof.
  pose proof (sumf_upd (2 ^ k) (cr T c') (cr T' c') c rm_c_lt (fun i _ Hne => rm_cr c' i Hne)) as H.
  rewrite rm_cr_c in H. unfold cr at 3 in H. rewrite rm_at_c in H. cbn [ie_live ie_val] in H. lia.
Qed.

Lemma rm_TInv : TInv T'.
Proof.
  split.
  - intros i j ei ej Hi Hj Li Lj K.
    destruct (Nat.eq_dec i c) as [Ei|Ei].
    { subst i. rewrite rm_at_c in Hi. inversion Hi; subst ei. discriminate. }
    destruct (Nat.eq_dec j c) as [Ej|Ej].
    { subst j. rewrite rm_at_c in Hj. inversion Hj; subst ej. discriminate. }
    destruct (rm_other i ei Ei Hi) as (e1 & He1 & Hk1 & Hv1 & _).
    destruct (rm_other j ej Ej Hj) as (e2 & He2 & Hk2 & Hv2 & _).
    apply (ti_uniq T HT i j e1 e2); auto.
    + unfold ie_live in *. now rewrite <- Hv1.
    + unfold ie_live in *. now rewrite <- Hv2.
    + congruence.
  - intros c' e' H'. rewrite HL'.
    pose proof (rm_cross c') as X.
    destruct (Nat.eq_dec c' c) as [E|E].
    + subst c'. rewrite rm_at_c in H'. inversion H'; subst e'. cbn [ie_skips].
      rewrite (ti_skips T HT c ec Hc), HL.
      assert (Z: count_occ Nat.eq_dec (pref (2 ^ k) s d) c = 0) by (apply count_occ_not_In, rm_c_notin). lia.
    + destruct (rm_other c' e' E H') as (e & He & _ & _ & Sk). rewrite Sk, (ti_skips T HT c' e He), HL. lia.
  - intros c' e' H' Hv. destruct (Nat.eq_dec c' c) as [E|E].
    + subst c'. rewrite rm_at_c in H'. now inversion H'.
    + destruct (rm_other c' e' E H') as (e & He & Hk & Hv' & _). rewrite Hk. apply (ti_vacant T HT c' e He). congruence.
Qed.

Lemma rm_abs k' v' : In (k', v') (abs_list T') <-> In (k', v') (abs_list T) /\ k' <> id.
Proof.
  rewrite !abs_In. split.
  - intros (c' & e' & H' & Hk & Hv). destruct (Nat.eq_dec c' c) as [E|E].
    + subst c'. rewrite rm_at_c in H'. inversion H'; subst e'. discriminate.
    + destruct (rm_other c' e' E H') as (e & He & Hk2 & Hv2 & _). split.
      * exists c', e. repeat split; congruence.
      * intros ->. apply E. apply (ti_uniq T HT c' c e ec); auto; [|congruence].
        apply live_val. exists v'. congruence.
  - intros [(c' & e & H' & Hk & Hv) Hne].
    assert (c' <> c) by (intros ->; rewrite Hc in H'; inversion H'; subst; congruence).
    pose proof (proj2 HR c' e H') as P. apply Nat.eqb_neq in H. rewrite H in P.
    eexists c', _. split; [exact P|]. cbn. auto.
Qed.
End Removed.

(* ------------------------------------------------------------- id_resize *)
Lemma grow_cap_spec target : forall fuel c j, c = 2 ^ j -> 1 <= fuel -> target <= c * 2 ^ (fuel - 1) ->
  exists j', j <= j' /\ grow_cap c target fuel = IdOk (2 ^ j') /\ target <= 2 ^ j'.
Proof.
  induction fuel as [|f IH]; intros c j Hc Hf Ht; [lia|]. cbn [grow_cap].
  destruct (c <? target) eqn:E.
  - apply Nat.ltb_lt in E. replace (S f - 1) with f in Ht by lia.
    destruct f as [|f']. { cbn in Ht. lia. }
    destruct (IH (c * 2) (S j)) as (j' & Hj & R & Hle).
    + subst c. cbn [Nat.pow]. lia.
    + lia.
    + replace (S f' - 1) with f' by lia. cbn [Nat.pow] in Ht. lia.
    + exists j'. split; [lia|]. split; assumption.
  - apply Nat.ltb_ge in E. exists j. subst c. split; [lia|]. split; [reflexivity|assumption].
Qed.

Lemma lv_le_ld T i : lv T i <= ld T i.
Proof. unfold lv, ld, lvb. destruct (nth_error T i) as [e|]; [destruct (ie_live e)|]; lia. Qed.

Lemma sumf_le n f g : (forall i, i < n -> f i <= g i) -> sumf n f <= sumf n g.
Proof.
  induction n as [|n IH]; intros H; [cbn; lia|]. rewrite !sumf_S.
  specialize (IH (fun i Hi => H i (Nat.lt_lt_succ_r _ _ Hi))). specialize (H n ltac:(lia)). lia.
Qed.

Lemma dead_of_notin T id : ~ In id (map fst (abs_list T)) ->
  forall c e, nth_error T c = Some e -> ie_live e = true -> ie_key e <> id.
Proof.
  intros H c e Hc L K. apply live_val in L. destruct L as [v Hv]. apply H.
  apply in_map_iff. exists (id, v). split; [reflexivity|]. apply abs_In. eauto.
Qed.

(* storing a key that is not live into a table with a vacant cell *)
Lemma ins_spec k T id v load asrt :
  length T = 2 ^ k -> TInv T -> sumf (2 ^ k) (lv T) < 2 ^ k ->
  ~ In id (map fst (abs_list T)) -> (asrt = true -> NoTomb T) ->
  exists T' d, ins_loop T (2 ^ k) id v (id_index (2 ^ k) id) load (2 ^ k) asrt = IdOk (T', load + d + 1) /\
    length T' = 2 ^ k /\ TInv T' /\ (NoTomb T -> NoTomb T') /\
    sumf (2 ^ k) (lv T') = S (sumf (2 ^ k) (lv T)) /\
    sumf (2 ^ k) (ld T') = sumf (2 ^ k) (ld T) + S d /\
    (forall k' v', In (k', v') (abs_list T') <-> (k' = id /\ v' = v) \/ In (k', v') (abs_list T)).
Proof.
  intros HL HT Hroom Hnew Hnt.
  pose proof (id_index_lt k id) as Hs.
  destruct (first_vacant k T _ HL Hs Hroom) as (d & Hd & Hvac & Hocc).
  assert (Hp: path (2 ^ k) (id_index (2 ^ k) id) d < length T)
    by (rewrite HL; apply path_lt; [apply pow2_pos|assumption]).
  destruct (lv_vacant T _ Hp Hvac) as (ed & Hed & Ved).
  destruct (ins_loop_char k id v asrt d T (id_index (2 ^ k) id) load (2 ^ k) ed HL Hs Hd) as (T' & R & HL' & P).
  - intros i Hi. apply lv_live. apply Hocc. exact Hi.
  - exact Hed.
  - exact Ved.
  - intros A. apply (Hnt A _ _ Hed Ved).
  - assert (HS: stored k T T' id v d) by (split; assumption).
    pose proof (dead_of_notin T id Hnew) as Hdead.
    exists T', d. split; [exact R|]. split; [exact HL'|].
    split; [exact (st_TInv k T T' id v d HL HT Hd Hocc Hvac Hdead HS)|].
    split; [exact (st_NoTomb k T T' id v d HL Hd Hocc Hvac Hdead HS)|].
    split; [exact (st_count k T T' id v d HL Hd Hocc Hvac Hdead HS)|].
    split; [exact (st_load k T T' id v d HL Hd Hocc Hvac Hdead HS)|].
    exact (st_abs k T T' id v d HL Hd Hocc Hvac Hdead HS).
Qed.

Lemma rehash_spec k : forall old N load,
  length N = 2 ^ k -> TInv N -> NoTomb N -> load = sumf (2 ^ k) (ld N) ->
  sumf (2 ^ k) (lv N) + length (abs_list old) < 2 ^ k ->
  NoDup (map fst (abs_list old)) ->
  (forall k', In k' (map fst (abs_list old)) -> ~ In k' (map fst (abs_list N))) ->
  exists N' load', rehash old N (2 ^ k) load = IdOk (N', load') /\ length N' = 2 ^ k /\ TInv N' /\
    load' = sumf (2 ^ k) (ld N') /\
    sumf (2 ^ k) (lv N') = sumf (2 ^ k) (lv N) + length (abs_list old) /\
    (forall k' v', In (k', v') (abs_list N') <-> In (k', v') (abs_list N) \/ In (k', v') (abs_list old)).
Proof.
  induction old as [|e rest IH]; intros N load HL HT NT Hload Hroom ND Hdisj; cbn [rehash].
  - exists N, load. split; [reflexivity|]. split; [exact HL|]. split; [exact HT|]. split; [exact Hload|].
    split; [cbn; lia|]. intros k' v'. cbn. tauto.
  - cbn [abs_list flat_map] in *. fold (abs_list rest) in *.
    destruct (ie_val e) as [v|] eqn:Ev.
    + cbn [app map fst length] in *. apply NoDup_cons_iff in ND. destruct ND as [Hnin ND'].
      destruct (ins_spec k N (ie_key e) v load true HL HT ltac:(lia)) as (N1 & d & R & HL1 & HT1 & NT1 & C1 & L1 & A1).
      { apply Hdisj. now left. }
      { intros _. exact NT. }
      rewrite R. cbn [id_bind].
      destruct (IH N1 (load + d + 1) HL1 HT1 (NT1 NT)) as (N' & load' & R' & HL' & HT' & Hl' & C' & A').
      * rewrite L1. lia.
      * rewrite C1. lia.
      * exact ND'.
      * intros k' Hin Hin1. apply in_map_iff in Hin1. destruct Hin1 as ([k2 v2] & Hk2 & Hin1). cbn in Hk2. subst k2.
        apply A1 in Hin1. destruct Hin1 as [[-> _]|Hin1]; [contradiction|].
        apply (Hdisj k'); [now right|]. apply in_map_iff. exists (k', v2). auto.
      * exists N', load'. split; [exact R'|]. split; [exact HL'|]. split; [exact HT'|]. split; [exact Hl'|].
        split; [rewrite C', C1; lia|].
        intros k' v'. rewrite A', A1. split.
        -- intros [[[-> ->]|H]|H]; auto. right. now left. right. now right.
        -- intros [H|[H|H]]; auto. inversion H; subst. auto.
    + cbn [app] in *. apply IH; auto.
Qed.

Lemma abs_list_fresh n : abs_list (repeat ie_empty n) = [].
Proof. induction n as [|n IH]; [reflexivity|]. cbn. exact IH. Qed.

Lemma fresh_table n :
  TInv (repeat ie_empty n) /\ NoTomb (repeat ie_empty n) /\
  (forall i, lv (repeat ie_empty n) i = 0) /\ (forall i, ld (repeat ie_empty n) i = 0) /\
  abs_list (repeat ie_empty n) = [].
Proof.
  assert (G: forall i e, nth_error (repeat ie_empty n) i = Some e -> e = ie_empty).
  { intros i e H. apply nth_error_In in H. now apply repeat_spec in H. }
  assert (Lv: forall i, lv (repeat ie_empty n) i = 0).
  { intros i. unfold lv. destruct (nth_error (repeat ie_empty n) i) eqn:E; [|reflexivity].
    apply G in E. subst. reflexivity. }
  split; [|split; [|split; [exact Lv|split]]].
  - split.
    + intros i j ei ej Hi Hj Li. apply G in Hi. subst. discriminate.
    + intros c e Hc. apply G in Hc. subst. cbn. symmetry. apply sumf_zero. intros i _.
      unfold cr. destruct (nth_error (repeat ie_empty n) i) eqn:E; [|reflexivity]. apply G in E. subst. reflexivity.
    + intros c e Hc _. apply G in Hc. now subst.
  - intros c e Hc _. apply G in Hc. now subst.
  - intros i. unfold ld. destruct (nth_error (repeat ie_empty n) i) eqn:E; [|reflexivity]. apply G in E. subst. reflexivity.
  - apply abs_list_fresh.
Qed.

(* the part of a map the invariant and the abstraction look at *)
Definition same_core (m m' : id_map) : Prop :=
  id_entries m' = id_entries m /\ id_count m' = id_count m /\ id_load m' = id_load m /\
  id_min_load m' = id_min_load m /\ id_max_load m' = id_max_load m.
Definition same_range (m m' : id_map) : Prop :=
  id_min_val m' = id_min_val m /\ id_max_val m' = id_max_val m /\ id_random m' = id_random m /\
  id_dyn_val m' = id_dyn_val m.

Lemma MInv_core m m' : same_core m m' -> MInv m -> MInv m'.
Proof.
  intros (E1 & E2 & E3 & E4 & E5) [A B C D E]. split; unfold thresholds_ok, id_cap in *;
    rewrite ?E1, ?E2, ?E3, ?E4, ?E5; assumption.
Qed.

Lemma MInv_count_le_load m : MInv m -> id_count m <= id_load m.
Proof.
  intros HI. rewrite (mi_count m HI), (mi_load m HI). apply sumf_le. intros; apply lv_le_ld.
Qed.

Lemma MInv_max_le_cap m : MInv m -> id_max_load m <= id_cap m.
Proof. intros HI. destruct (mi_thr m HI) as [(A & B & C)|[(A & B & C)|(A & B & C)]]; lia. Qed.

Definition abs_same (m m' : id_map) : Prop :=
  forall k v, In (k, v) (abs_list (id_entries m')) <-> In (k, v) (abs_list (id_entries m)).

Lemma id_resize_spec m fail : MInv m ->
  exists rv m', id_resize m fail = IdOk (rv, m') /\ MInv m' /\ abs_same m m' /\
    id_count m' = id_count m /\ same_range m m' /\
    ((rv = 0%N /\ id_count m' < id_cap m') \/ (rv = id_ENOMEM /\ fail = true)).
Proof.
  intros HI. unfold id_resize, id_new_cap, id_thresholds.
  destruct ((id_load m <? id_max_load m) && (id_min_load m <=? id_load m)) eqn:Ethr.
  { exists 0%N, m. split; [reflexivity|]. split; [assumption|]. split; [intros ? ?; tauto|]. split; [reflexivity|].
    split; [repeat split|]. left. split; [reflexivity|].
    apply andb_true_iff in Ethr. destruct Ethr as [E1 _]. apply Nat.ltb_lt in E1.
    pose proof (MInv_count_le_load m HI). pose proof (MInv_max_le_cap m HI). lia. }
  set (m0 := if id_static m then set_registered m else m).
  assert (C0: same_core m m0) by (unfold m0; destruct (id_static m); repeat split).
  assert (R0: same_range m m0) by (unfold m0; destruct (id_static m); repeat split).
  assert (HI0: MInv m0) by (eapply MInv_core; eauto).
  destruct C0 as (E1 & E2 & E3 & E4 & E5).
  destruct (grow_cap_spec (id_count m0 * 2) (S (id_count m0)) ID_MIN_CAP 3 eq_refl ltac:(lia)) as (j & Hj & RG & Hle).
  { replace (S (id_count m0) - 1) with (id_count m0) by lia.
    pose proof (Nat.pow_gt_lin_r 2 (id_count m0) ltac:(lia)). unfold ID_MIN_CAP. lia. }
  rewrite RG. cbn [id_bind].
  assert (Hpow: 8 <= 2 ^ j).
  { replace 8 with (2 ^ 3) by reflexivity. apply Nat.pow_le_mono_r; lia. }
  destruct (2 ^ j =? id_cap m0) eqn:Esame.
  { apply Nat.eqb_eq in Esame. exists 0%N, m0. split; [reflexivity|]. split; [assumption|].
    split; [intros ? ?; rewrite E1; tauto|]. split; [assumption|]. split; [assumption|].
    left. split; [reflexivity|]. lia. }
  destruct fail.
  { exists id_ENOMEM, m0. split; [reflexivity|]. split; [assumption|].
    split; [intros ? ?; rewrite E1; tauto|]. split; [assumption|]. split; [assumption|]. right. auto. }
  destruct (fresh_table (2 ^ j)) as (FT & FN & FLv & FLd & FA).
  destruct (rehash_spec j (id_entries m0) (repeat ie_empty (2 ^ j)) 0) as (N' & load' & RH & HL' & HT' & Hl' & C' & A').
  - apply repeat_length.
  - exact FT.
  - exact FN.
  - symmetry. apply sumf_zero. intros; apply FLd.
  - rewrite (sumf_zero _ _ (fun i _ => FLv i)), abs_length. fold (id_cap m0). rewrite <- (mi_count m0 HI0). lia.
  - apply abs_NoDup, (mi_tinv m0 HI0).
  - intros k' _. rewrite FA. auto.
  - rewrite RH. cbn [id_bind].
    assert (Cnt: id_count m0 = sumf (2 ^ j) (lv N')).
    { rewrite C', (sumf_zero _ _ (fun i _ => FLv i)), abs_length. fold (id_cap m0). apply (mi_count m0 HI0). }
    destruct (ID_MIN_CAP <? 2 ^ j) eqn:Ebig; eexists 0%N, _; (split; [reflexivity|]);
      (split; [|split; [|split; [|split; [|left; split; [reflexivity|]]]]]); cbn [id_count id_cap id_entries];
      try (intros k' v'; cbn [id_entries]; rewrite A', FA, E1; cbn; tauto); try assumption; try lia.
    + split; unfold thresholds_ok, id_cap; cbn [id_entries id_count id_load id_min_load id_max_load]; rewrite ?HL'; auto.
      * right. exists j. split; [lia|reflexivity].
      * apply Nat.ltb_lt in Ebig. unfold ID_MIN_CAP in Ebig. right. right. auto.
    + unfold id_cap. cbn [id_entries]. rewrite HL'. lia.
    + split; unfold thresholds_ok, id_cap; cbn [id_entries id_count id_load id_min_load id_max_load]; rewrite ?HL'; auto.
      * right. exists j. split; [lia|reflexivity].
      * apply Nat.ltb_ge in Ebig. unfold ID_MIN_CAP, ID_SMALL_MAX_LOAD in *. right. left. split; [lia|auto].
    + unfold id_cap. cbn [id_entries]. rewrite HL'. lia.
Qed.

(* ------------------------------------------------ overwriting a live value *)
Section Overwrite.
Variables (T : list id_entry) (c : nat) (e : id_entry) (v : N).
Hypothesis HT : TInv T.
Hypothesis Hc : nth_error T c = Some e.
Hypothesis Lc : ie_live e = true.
Let T' := tupd T c (mkIdEntry (ie_key e) (ie_skips e) (Some v)).

Let Hlt : c < length T.
Proof. apply nth_error_Some. congruence. Qed.

Lemma ow_length : length T' = length T.
Proof. unfold T'. now apply tupd_length. Qed.

Lemma ow_nth i : nth_error T' i = if i =? c then Some (mkIdEntry (ie_key e) (ie_skips e) (Some v)) else nth_error T i.
Proof. unfold T'. now apply tupd_nth. Qed.

Lemma ow_shape i e' : nth_error T' i = Some e' ->
  exists e0, nth_error T i = Some e0 /\ ie_key e' = ie_key e0 /\ ie_live e' = ie_live e0 /\ ie_skips e' = ie_skips e0 /\
             (i <> c -> ie_val e' = ie_val e0).
Proof.
  rewrite ow_nth. destruct (i =? c) eqn:E.
  - apply Nat.eqb_eq in E. subst i. intros H. inversion H; subst e'. exists e. cbn. rewrite Lc. repeat split; auto. congruence.
  - intros H. exists e'. auto.
Qed.

Lemma ow_lv i : lv T' i = lv T i.
Proof.
  unfold lv. destruct (nth_error T' i) as [e'|] eqn:E.
  - destruct (ow_shape i e' E) as (e0 & H0 & _ & L & _). rewrite H0. unfold lvb. now rewrite L.
  - rewrite ow_nth in E. destruct (i =? c); [discriminate|]. now rewrite E.
Qed.
Lemma ow_ld i : ld T' i = ld T i.
Proof.
  unfold ld. rewrite ow_length. destruct (nth_error T' i) as [e'|] eqn:E.
  - destruct (ow_shape i e' E) as (e0 & H0 & K & L & _). rewrite H0, L. unfold edist. now rewrite K.
  - rewrite ow_nth in E. destruct (i =? c); [discriminate|]. now rewrite E.
Qed.
Lemma ow_cr c' i : cr T' c' i = cr T c' i.
Proof.
  unfold cr. rewrite ow_length. destruct (nth_error T' i) as [e'|] eqn:E.
  - destruct (ow_shape i e' E) as (e0 & H0 & K & L & _). rewrite H0, L. unfold epref, edist. now rewrite K.
  - rewrite ow_nth in E. destruct (i =? c); [discriminate|]. now rewrite E.
Qed.

Lemma ow_TInv : TInv T'.
Proof.
  split.
  - intros i j ei ej Hi Hj Li Lj K.
    destruct (ow_shape i ei Hi) as (e1 & H1 & K1 & L1 & _). destruct (ow_shape j ej Hj) as (e2 & H2 & K2 & L2 & _).
    apply (ti_uniq T HT i j e1 e2); congruence.
  - intros c' e' H'. destruct (ow_shape c' e' H') as (e0 & H0 & _ & _ & S0 & _).
    rewrite S0, (ti_skips T HT c' e0 H0), ow_length. apply sumf_ext. intros i _. symmetry. apply ow_cr.
  - intros c' e' H' Hv. destruct (ow_shape c' e' H') as (e0 & H0 & K0 & L0 & _ & V0).
    rewrite K0. apply (ti_vacant T HT c' e0 H0). apply dead_val. rewrite <- L0. now apply dead_val.
Qed.

Lemma ow_abs k' v' : In (k', v') (abs_list T') <->
  (k' = ie_key e /\ v' = v) \/ (In (k', v') (abs_list T) /\ k' <> ie_key e).
Proof.
  rewrite !abs_In. split.
  - intros (i & e' & Hi & Hk & Hv). rewrite ow_nth in Hi. destruct (i =? c) eqn:E.
    + inversion Hi; subst e'. cbn in *. left. split; congruence.
    + right. split; [eauto|]. intros ->. apply Nat.eqb_neq in E. apply E.
      apply (ti_uniq T HT i c e' e); auto. apply live_val; eauto.
  - intros [[-> ->]|[(i & e' & Hi & Hk & Hv) Hne]].
    + exists c, (mkIdEntry (ie_key e) (ie_skips e) (Some v)). rewrite ow_nth, Nat.eqb_refl. auto.
    + exists i, e'. rewrite ow_nth. destruct (i =? c) eqn:E; [|auto].
      apply Nat.eqb_eq in E. subst i. congruence.
Qed.
End Overwrite.

Lemma notin_of_dead T id :
  (forall c e, nth_error T c = Some e -> ie_live e = true -> ie_key e <> id) ->
  ~ In id (map fst (abs_list T)).
Proof.
  intros D Hin. apply in_map_iff in Hin. destruct Hin as ([k' v] & Hk & Hin). cbn in Hk. subst k'.
  apply abs_In in Hin. destruct Hin as (c & e & Hc & Hk & Hv). eapply D; eauto. apply live_val; eauto.
Qed.

Lemma MInv_pow2 m : MInv m -> 0 < id_cap m -> exists k, 3 <= k /\ id_cap m = 2 ^ k.
Proof. intros HI H. destruct (mi_cap m HI) as [Z|X]; [lia|exact X]. Qed.

(* the bindings after a successful set, as a set of pairs *)
Definition set_pairs (m m' : id_map) (id v : N) : Prop :=
  forall k' v', In (k', v') (abs_list (id_entries m')) <->
                (k' = id /\ v' = v) \/ (In (k', v') (abs_list (id_entries m)) /\ k' <> id).

Lemma id_set_spec m id v fail : MInv m ->
  exists rv m', id_set m id v fail = IdOk (rv, m') /\ MInv m' /\ same_range m m' /\
    ((rv = 0%N /\ set_pairs m m' id v) \/
     (rv = id_ENOMEM /\ fail = true /\ abs_same m m' /\ id_count m' = id_count m)).
Proof.
  intros HI. unfold id_set.
  destruct (id_resize_spec m fail HI) as (rv0 & m1 & R & HI1 & AS & CS & RS & [[-> Hvac]|[-> Hf]]);
    rewrite R; cbn [id_bind N.eqb negb].
  2:{ exists id_ENOMEM, m1. split; [reflexivity|]. split; [assumption|]. split; [assumption|]. right. auto. }
  destruct (MInv_pow2 m1 HI1 ltac:(lia)) as (k & Hk & Hcap).
  destruct (id_find_spec m1 id HI1) as [(c & e & F & Hc & L & K)|[F D]]; rewrite F; cbn [id_bind].
  - rewrite Hc. eexists 0%N, _. split; [reflexivity|].
    pose proof (ow_length (id_entries m1) c e v Hc) as OL.
    split; [|split; [exact RS|left; split; [reflexivity|]]].
    + split; unfold thresholds_ok, id_cap; cbn [set_table id_entries id_count id_load id_min_load id_max_load]; rewrite ?OL.
      * exact (mi_cap m1 HI1).
      * exact (ow_TInv _ c e v (mi_tinv m1 HI1) Hc L).
      * rewrite (mi_count m1 HI1). apply sumf_ext. intros i _. symmetry. exact (ow_lv _ c e v Hc L i).
      * rewrite (mi_load m1 HI1). apply sumf_ext. intros i _. symmetry. exact (ow_ld _ c e v Hc L i).
      * exact (mi_thr m1 HI1).
    + intros k' v'. cbn [set_table id_entries]. rewrite (ow_abs _ c e v (mi_tinv m1 HI1) Hc L k' v'), K.
      rewrite (AS k' v'). reflexivity.
  - unfold id_cap in *. rewrite Hcap.
    destruct (ins_spec k (id_entries m1) id v (id_load m1) false Hcap (mi_tinv m1 HI1)) as (T' & d & RI & HL' & HT' & _ & C' & L' & A').
    + rewrite <- Hcap. fold (id_cap m1). rewrite <- (mi_count m1 HI1). unfold id_cap. lia.
    + now apply notin_of_dead.
    + discriminate.
    + rewrite RI. cbn [id_bind]. eexists 0%N, _. split; [reflexivity|].
      split; [|split; [exact RS|left; split; [reflexivity|]]].
      * split; unfold thresholds_ok, id_cap; cbn [set_table id_entries id_count id_load id_min_load id_max_load]; rewrite ?HL'.
        -- right. exists k. auto.
        -- exact HT'.
        -- rewrite C'. f_equal. rewrite <- Hcap. exact (mi_count m1 HI1).
        -- rewrite L'. pose proof (mi_load m1 HI1) as X. unfold id_cap in X. rewrite Hcap in X. lia.
        -- pose proof (mi_thr m1 HI1) as X. unfold thresholds_ok, id_cap in X. rewrite Hcap in X. exact X.
      * intros k' v'. cbn [set_table id_entries]. rewrite (A' k' v'), (AS k' v'). split.
        -- intros [H|H]; [auto|]. right. split; [assumption|]. intros ->.
           apply (notin_of_dead _ _ D). apply in_map_iff. exists (id, v'). split; [reflexivity|]. now apply AS.
        -- tauto.
Qed.

Definition remove_pairs (m m' : id_map) (id : N) : Prop :=
  forall k' v', In (k', v') (abs_list (id_entries m')) <-> In (k', v') (abs_list (id_entries m)) /\ k' <> id.

Lemma id_remove_spec m id fail : MInv m ->
  exists rv m', id_remove m id fail = IdOk (rv, m') /\ MInv m' /\ same_range m m' /\
    ((rv = id_ENOENT /\ m' = m /\ ~ In id (map fst (abs_list (id_entries m)))) \/
     (rv = 0%N /\ In id (map fst (abs_list (id_entries m))) /\ remove_pairs m m' id /\ S (id_count m') = id_count m)).
Proof.
  intros HI. unfold id_remove.
  destruct (id_find_spec m id HI) as [(c & e & F & Hc & L & K)|[F D]]; rewrite F; cbn [id_bind].
  2:{ exists id_ENOENT, m. split; [reflexivity|]. split; [assumption|]. split; [repeat split|].
      left. split; [reflexivity|]. split; [reflexivity|]. now apply notin_of_dead. }
  assert (Hlt: c < id_cap m) by (apply nth_error_Some; congruence).
  destruct (MInv_pow2 m HI ltac:(lia)) as (k & Hk & Hcap). unfold id_cap in Hcap.
  pose proof (mi_tinv m HI) as HT.
  destruct (rm_dist k (id_entries m) id c e Hcap Hc) as (Dlt & Dp & Dmin).
  pose proof (rm_load_ge k (id_entries m) id c e Hcap Hc L K) as LG.
  unfold id_cap. rewrite Hcap.
  destruct (rm_loop_char k c (dist (2 ^ k) (id_index (2 ^ k) id) c) (id_entries m) (id_index (2 ^ k) id)
              (id_load m) (2 ^ k) Hcap (id_index_lt k id) Dlt) as (T' & RL & HL' & P).
  - pose proof (mi_load m HI) as X. unfold id_cap in X. rewrite Hcap in X. lia.
  - exact Dmin.
  - exact Dp.
  - exact (rm_skips_ge k (id_entries m) id c e Hcap HT Hc L K).
  - rewrite RL. cbn [id_bind].
    assert (HR: removed k (id_entries m) T' id c) by (split; assumption).
    pose proof (rm_count k (id_entries m) T' id c e Hcap Hc L K HR) as RC.
    pose proof (rm_load k (id_entries m) T' id c e Hcap Hc L K HR) as RLd.
    pose proof (mi_count m HI) as MC. unfold id_cap in MC. rewrite Hcap in MC.
    pose proof (mi_load m HI) as ML. unfold id_cap in ML. rewrite Hcap in ML.
    destruct (id_count m) as [|cnt] eqn:Ecnt; [lia|]. cbn [id_dec id_bind].
    set (m2 := set_table m T' cnt (id_load m - dist (2 ^ k) (id_index (2 ^ k) id) c - 1)).
    assert (HI2: MInv m2).
    { split; unfold thresholds_ok, id_cap, m2; cbn [set_table id_entries id_count id_load id_min_load id_max_load]; rewrite ?HL'.
      - right. exists k. auto.
      - exact (rm_TInv k (id_entries m) T' id c e Hcap HT Hc L K HR).
      - lia.
      - lia.
      - pose proof (mi_thr m HI) as X. unfold thresholds_ok, id_cap in X. rewrite Hcap in X. exact X. }
    destruct (id_resize_spec m2 fail HI2) as (rv0 & m' & R & HI' & AS & CS & RS & _).
    rewrite R. cbn [id_bind]. exists 0%N, m'. split; [reflexivity|]. split; [assumption|].
    split; [exact RS|]. right. split; [reflexivity|].
    split; [|split].
    + apply in_map_iff. apply live_val in L. destruct L as [v0 Hv0]. exists (id, v0). split; [reflexivity|].
      apply abs_In. eauto.
    + intros k' v'. rewrite (AS k' v'). unfold m2. cbn [set_table id_entries].
      exact (rm_abs k (id_entries m) T' id c e Hcap HT Hc L K HR k' v').
    + rewrite CS. unfold m2. reflexivity.
Qed.

(* ---------------------------------------------------------------- visit *)
Fixpoint first_live (l : list id_entry) (index : nat) : option (N * N) * nat :=
  match l with
  | [] => (None, index)
  | e :: r => match ie_val e with
              | Some v => (Some (ie_key e, v), S index)
              | None => first_live r (S index)
              end
  end.

Lemma skipn_nth_cons {A} (T : list A) i e : nth_error T i = Some e -> skipn i T = e :: skipn (S i) T.
Proof.
  revert i; induction T as [|a T IH]; intros i H; [destruct i; discriminate|].
  destruct i; cbn in *; [now inversion H|]. now apply IH.
Qed.

Lemma skipn_add {A} (l : list A) a b : skipn a (skipn b l) = skipn (a + b) l.
Proof.
  revert l; induction b as [|b IH]; intros l.
  - now rewrite Nat.add_0_r.
  - destruct l as [|x l]. { now rewrite !skipn_nil. }
    replace (a + S b) with (S (a + b)) by lia. cbn. apply IH.
Qed.

Lemma visit_loop_spec T : forall fuel index, length T - index < fuel ->
  visit_loop T index fuel = IdOk (first_live (skipn index T) index).
Proof.
  induction fuel as [|f IH]; intros index Hf; [lia|]. cbn [visit_loop].
  destruct (index <? length T) eqn:E.
  - apply Nat.ltb_lt in E. destruct (nth_error_lt T index E) as [e He]. rewrite He.
    rewrite (skipn_nth_cons T index e He). cbn [first_live]. destruct (ie_val e); [reflexivity|].
    apply IH. lia.
  - apply Nat.ltb_ge in E. rewrite skipn_all2 by lia. reflexivity.
Qed.

Lemma first_live_spec : forall l index,
  match first_live l index with
  | (None, _) => abs_list l = []
  | (Some kv, c') => exists j, c' = S (index + j) /\ j < length l /\ abs_list l = kv :: abs_list (skipn (S j) l)
  end.
Proof.
  induction l as [|e r IH]; intros index; cbn [first_live]; [reflexivity|].
  cbn [abs_list flat_map]. fold (abs_list r). destruct (ie_val e) as [v|] eqn:Ev.
  - exists 0. cbn. repeat split; [lia|lia].
  - specialize (IH (S index)). destruct (first_live r (S index)) as [[kv|] c'].
    + destruct IH as (j & -> & Hj & E). exists (S j). cbn [length app skipn]. repeat split; [lia|lia|exact E].
    + exact IH.
Qed.

Lemma visit_all_loop_spec m : forall fuel cursor, id_cap m - cursor < fuel ->
  visit_all_loop m cursor fuel = IdOk (abs_list (skipn cursor (id_entries m))).
Proof.
  induction fuel as [|f IH]; intros cursor Hf; [lia|]. cbn [visit_all_loop]. unfold id_visit.
  rewrite visit_loop_spec by (fold (id_cap m); lia). cbn [id_bind].
  pose proof (first_live_spec (skipn cursor (id_entries m)) cursor) as P.
  destruct (first_live (skipn cursor (id_entries m)) cursor) as [[kv|] c'].
  - destruct P as (j & -> & Hj & E). rewrite skipn_length in Hj. fold (id_cap m) in Hj.
    rewrite IH by lia. cbn [id_bind]. rewrite E, skipn_add. replace (S (cursor + j)) with (S j + cursor)%nat by lia. reflexivity.
  - now rewrite P.
Qed.

Lemma id_visit_all_spec m : id_visit_all m = IdOk (abs_list (id_entries m)).
Proof. unfold id_visit_all. rewrite visit_all_loop_spec by lia. reflexivity. Qed.

(* ---------------------------------------------------------------- alloc *)
Local Open Scope N_scope.

Lemma cyc_succ_range lo hi x : lo <= x <= hi -> lo <= cyc_succ lo hi x <= hi.
Proof. intros H. unfold cyc_succ. destruct (hi <? x + 1) eqn:E; [lia|]. apply N.ltb_ge in E. lia. Qed.

Lemma mod_shift_neq R y d : 0 < d -> d < R -> (y + d) mod R <> y mod R.
Proof.
  intros Hd HR E.
  pose proof (N.div_mod (y + d) R ltac:(lia)) as H1. pose proof (N.div_mod y R ltac:(lia)) as H2.
  rewrite E in H1. set (q1 := (y + d) / R) in *. set (q2 := y / R) in *.
  destruct (N.le_gt_cases q1 q2) as [L|L].
  - assert (R * q1 <= R * q2) by (apply N.mul_le_mono_l; assumption). lia.
  - assert (R * (q2 + 1) <= R * q1) by (apply N.mul_le_mono_l; lia). lia.
Qed.

Lemma cyc_iter_closed lo hi : lo <= hi -> forall n x, lo <= x <= hi ->
  cyc_iter lo hi n x = lo + (x - lo + N.of_nat n) mod (hi - lo + 1).
Proof.
  intros Hlh. induction n as [|n IH]; intros x Hx.
  - cbn [cyc_iter]. rewrite N.add_0_r, N.mod_small by lia. lia.
  - cbn [cyc_iter]. rewrite IH by (now apply cyc_succ_range). f_equal.
    unfold cyc_succ. destruct (hi <? x + 1) eqn:E.
    + apply N.ltb_lt in E. assert (x = hi) by lia. subst x.
      replace (hi - lo + N.of_nat (S n)) with (N.of_nat n + 1 * (hi - lo + 1)) by lia.
      rewrite N.mod_add by lia. f_equal. lia.
    + apply N.ltb_ge in E. f_equal. lia.
Qed.

Lemma cyc_iter_range lo hi n x : lo <= hi -> lo <= x <= hi -> lo <= cyc_iter lo hi n x <= hi.
Proof.
  intros Hlh Hx. rewrite cyc_iter_closed by assumption.
  pose proof (N.mod_lt (x - lo + N.of_nat n) (hi - lo + 1) ltac:(lia)). lia.
Qed.

(* the first hi-lo+1 iterates are pairwise distinct: the cursor passes over every id
   of the range before it comes back *)
Lemma cyc_iter_inj lo hi x i j : lo <= hi -> lo <= x <= hi ->
  (i < j)%nat -> N.of_nat j < N.of_nat i + (hi - lo + 1) -> cyc_iter lo hi i x <> cyc_iter lo hi j x.
Proof.
  intros Hlh Hx Hij Hj E. rewrite !cyc_iter_closed in E by assumption.
  apply N.add_cancel_l in E. symmetry in E.
  replace (x - lo + N.of_nat j) with ((x - lo + N.of_nat i) + (N.of_nat j - N.of_nat i)) in E by lia.
  revert E. apply mod_shift_neq; lia.
Qed.

Lemma first_free_None s lo hi : forall fuel x, first_free s lo hi x fuel = None ->
  forall i, (i < fuel)%nat -> am_mem s (cyc_iter lo hi i x) = true.
Proof.
  induction fuel as [|f IH]; intros x H i Hi; [lia|]. cbn [first_free] in H.
  destruct (am_mem s x) eqn:E; [|discriminate].
  destruct i as [|i]; [exact E|]. cbn [cyc_iter]. apply IH; [exact H|lia].
Qed.

Lemma first_free_Some s lo hi : forall fuel x id cur, first_free s lo hi x fuel = Some (id, cur) ->
  exists n, (n < fuel)%nat /\ id = cyc_iter lo hi n x /\ cur = cyc_iter lo hi (S n) x /\ am_mem s id = false /\
            forall i, (i < n)%nat -> am_mem s (cyc_iter lo hi i x) = true.
Proof.
  induction fuel as [|f IH]; intros x id cur H; [discriminate|]. cbn [first_free] in H.
  destruct (am_mem s x) eqn:E.
  - destruct (IH _ _ _ H) as (n & Hn & -> & -> & M & P). exists (S n). cbn [cyc_iter].
    repeat split; auto; [lia|]. intros i Hi. destruct i as [|i]; [exact E|]. cbn [cyc_iter]. apply P. lia.
  - inversion H; subst. exists 0%nat. cbn [cyc_iter]. repeat split; auto; [lia|]. intros i Hi. lia.
Qed.

(* pigeonhole: with at most hi-lo live keys a free id is found within count+1 steps *)
Lemma first_free_total s lo hi x : lo <= x <= hi -> N.of_nat (length s) <= hi - lo ->
  exists id cur, first_free s lo hi x (S (length s)) = Some (id, cur).
Proof.
  intros Hx Hlen. destruct (first_free s lo hi x (S (length s))) as [[id cur]|] eqn:E; [eauto|].
  exfalso. pose proof (first_free_None s lo hi _ _ E) as A.
  set (L := map (fun i => cyc_iter lo hi i x) (seq 0 (S (length s)))).
  assert (ND: NoDup L).
  { apply NoDup_map_inj_on; [apply seq_NoDup|]. intros a b Ha Hb Eab. apply in_seq in Ha, Hb.
    destruct (Nat.lt_trichotomy a b) as [Lt|[Eq|Lt]]; [|assumption|]; exfalso.
    - revert Eab. apply cyc_iter_inj; lia.
    - symmetry in Eab. revert Eab. apply cyc_iter_inj; lia. }
  assert (IN: incl L (map fst s)).
  { intros y Hy. apply in_map_iff in Hy. destruct Hy as (i & <- & Hi). apply in_seq in Hi.
    apply am_mem_true_iff. apply A. lia. }
  pose proof (NoDup_incl_length ND IN) as LE. unfold L in LE. rewrite !map_length, seq_length in LE. lia.
Qed.

Lemma u64_sub_plain a b : b <= a -> a < U64 -> u64_sub a b = a - b.
Proof.
  intros H1 H2. unfold u64_sub. rewrite (N.mod_small b) by lia.
  replace (a + U64 - b) with ((a - b) + 1 * U64) by lia. rewrite N.mod_add by (unfold U64; lia).
  apply N.mod_small. lia.
Qed.
Lemma u64_add_plain a b : a + b < U64 -> u64_add a b = a + b.
Proof. intros H. unfold u64_add. now apply N.mod_small. Qed.

Lemma model_succ fixed m dyn : RInv fixed m -> id_min_val m <= dyn <= id_max_val m ->
  (if (id_max_val m <? u64_add dyn 1) || (fixed && (u64_add dyn 1 =? 0)) then id_min_val m else u64_add dyn 1)
  = cyc_succ (id_min_val m) (id_max_val m) dyn.
Proof.
  intros [H1 H2 H3 H4 H5] Hd. unfold cyc_succ.
  destruct (N.lt_ge_cases (dyn + 1) U64) as [L|L].
  - rewrite u64_add_plain by assumption.
    destruct (id_max_val m <? dyn + 1) eqn:E; [reflexivity|].
    assert ((dyn + 1 =? 0) = false) by (apply N.eqb_neq; lia). rewrite H. now rewrite andb_false_r.
  - assert (EU: dyn + 1 = U64) by lia. unfold u64_add. rewrite EU, N.mod_same by (unfold U64; lia).
    destruct H4 as [->|H4]; [|lia]. cbn [andb N.eqb orb].
    assert (X1: (id_max_val m <? 0) = false) by (apply N.ltb_ge; lia). rewrite X1. cbn [orb].
    assert (X2: (id_max_val m <? U64) = true) by (apply N.ltb_lt; lia). now rewrite X2.
Qed.

Lemma find_mem m id : MInv m ->
  (exists c, id_find m id = IdOk (Some c) /\ am_mem (abs_list (id_entries m)) id = true) \/
  (id_find m id = IdOk None /\ am_mem (abs_list (id_entries m)) id = false).
Proof.
  intros HI. destruct (id_find_spec m id HI) as [(c & e & F & Hc & L & K)|[F D]].
  - left. exists c. split; [assumption|]. apply am_mem_true_iff. apply in_map_iff.
    apply live_val in L. destruct L as [v Hv]. exists (id, v). split; [reflexivity|]. apply abs_In. eauto.
  - right. split; [assumption|]. destruct (am_mem (abs_list (id_entries m)) id) eqn:E; [|reflexivity].
    exfalso. apply am_mem_true_iff in E. revert E. now apply notin_of_dead.
Qed.

Lemma alloc_loop_spec fixed m : MInv m -> RInv fixed m -> forall fuel dyn,
  id_min_val m <= dyn <= id_max_val m ->
  alloc_loop fixed m dyn fuel =
  match first_free (abs_list (id_entries m)) (id_min_val m) (id_max_val m) dyn fuel with
  | Some r => IdOk r
  | None => IdErr IdFuel
  end.
Proof.
  intros HI HR. induction fuel as [|f IH]; intros dyn Hd; [reflexivity|].
  cbn [alloc_loop first_free]. rewrite (model_succ fixed m dyn HR Hd).
  destruct (find_mem m dyn HI) as [(c & F & M)|[F M]]; rewrite F, M; cbn [id_bind].
  - apply IH. apply cyc_succ_range. exact Hd.
  - reflexivity.
Qed.
Local Close Scope N_scope.

(* ------------------------------------------------ from pairs to the spec *)
Lemma equiv_from_pairs (a b : id_amap) : NoDup (map fst a) -> NoDup (map fst b) ->
  (forall k v, In (k, v) a <-> In (k, v) b) -> am_equiv a b /\ length a = length b.
Proof.
  intros Ha Hb H. split; [now apply am_equiv_of_In|].
  apply Permutation_length. apply NoDup_Permutation.
  - eapply NoDup_map_inv; eauto.
  - eapply NoDup_map_inv; eauto.
  - intros [k v]. apply H.
Qed.

Lemma abs_count m : MInv m -> length (abs_list (id_entries m)) = id_count m.
Proof. intros HI. rewrite abs_length. symmetry. apply (mi_count m HI). Qed.

Lemma abs_keys_NoDup m : MInv m -> NoDup (map fst (abs_list (id_entries m))).
Proof. intros HI. apply abs_NoDup, (mi_tinv m HI). Qed.

Lemma spec_equiv_refl s : id_spec_equiv s s.
Proof. repeat split; auto. Qed.

Lemma RInv_range fixed m m' : same_range m m' -> RInv fixed m -> RInv fixed m'.
Proof. intros (A & B & C & D) [H1 H2 H3 H4 H5]. split; rewrite ?A, ?B, ?D; assumption. Qed.

Lemma same_range_refl m : same_range m m.
Proof. repeat split. Qed.
Lemma same_range_trans a b c : same_range a b -> same_range b c -> same_range a c.
Proof. intros (A & B & C & D) (A' & B' & C' & D'). repeat split; congruence. Qed.

(* set *)
Lemma set_refines fixed m k v f : Inv fixed m ->
  exists rv m', id_set m k v f = IdOk (rv, m') /\ Inv fixed m' /\
                id_spec_rel (abs m) (IoSet k v f) (OutRv rv) (abs m').
Proof.
  intros [HI HR]. destruct (id_set_spec m k v f HI) as (rv & m' & R & HI' & RS & [[-> SP]|(-> & -> & AS & CS)]);
    eexists _, _; (split; [exact R|]); (split; [split; [exact HI'|exact (RInv_range _ _ _ RS HR)]|]).
  - left. cbn [id_spec_step fst snd]. split; [reflexivity|].
    destruct RS as (A & B & C & D).
    destruct (equiv_from_pairs (abs_list (id_entries m')) (am_set (abs_list (id_entries m)) k v)) as [E1 E2].
    + now apply abs_keys_NoDup.
    + apply am_set_NoDup. now apply abs_keys_NoDup.
    + intros k' v'. rewrite am_set_In. apply SP.
    + repeat split; cbn; auto.
  - right. eexists. split; [reflexivity|]. split; [reflexivity|]. cbn [snd].
    destruct RS as (A & B & C & D).
    destruct (equiv_from_pairs (abs_list (id_entries m')) (abs_list (id_entries m))) as [E1 E2];
      [now apply abs_keys_NoDup|now apply abs_keys_NoDup|exact AS|].
    repeat split; cbn; auto.
Qed.

(* remove *)
Lemma remove_refines fixed m k f : Inv fixed m ->
  exists rv m', id_remove m k f = IdOk (rv, m') /\ Inv fixed m' /\
                id_spec_rel (abs m) (IoRemove k f) (OutRv rv) (abs m').
Proof.
  intros [HI HR]. destruct (id_remove_spec m k f HI) as (rv & m' & R & HI' & RS & [(-> & -> & NI)|(-> & IN & RP & CS)]);
    eexists _, _; (split; [exact R|]); (split; [split; [exact HI'|exact (RInv_range _ _ _ RS HR)]|]); left;
    cbn [id_spec_step abs sp_map].
  - assert (M: am_mem (abs_list (id_entries m)) k = false).
    { destruct (am_mem (abs_list (id_entries m)) k) eqn:E; [|reflexivity]. apply am_mem_true_iff in E. contradiction. }
    rewrite M. cbn [fst snd]. split; [reflexivity|apply spec_equiv_refl].
  - apply am_mem_true_iff in IN. rewrite IN. cbn [fst snd]. split; [reflexivity|].
    destruct RS as (A & B & C & D).
    destruct (equiv_from_pairs (abs_list (id_entries m')) (am_remove (abs_list (id_entries m)) k)) as [E1 E2].
    + now apply abs_keys_NoDup.
    + apply am_remove_NoDup. now apply abs_keys_NoDup.
    + intros k' v'. rewrite am_remove_In. apply RP.
    + repeat split; cbn; auto.
Qed.

(* the start of the cursor *)
Lemma start_eq fixed m rnd : RInv fixed m ->
  let m1 := if (id_dyn_val m =? 0)%N
            then set_dyn m (if id_random m
                            then u64_add (rnd mod (u64_add (u64_sub (id_max_val m) (id_min_val m)) 1)) (id_min_val m)
                            else id_min_val m)
            else m in
  id_dyn_val m1 = sp_start (abs m) rnd /\ (id_min_val m <= sp_start (abs m) rnd <= id_max_val m)%N /\
  same_core m m1 /\ id_min_val m1 = id_min_val m /\ id_max_val m1 = id_max_val m /\ id_random m1 = id_random m.
Proof.
  intros [H1 H2 H3 H4 H5]. cbn zeta. unfold sp_start. cbn [abs sp_cur sp_random sp_hi sp_lo].
  destruct (id_dyn_val m =? 0)%N eqn:E.
  - rewrite u64_sub_plain by assumption.
    rewrite (u64_add_plain (id_max_val m - id_min_val m) 1) by lia.
    assert (B: (rnd mod (id_max_val m - id_min_val m + 1) < id_max_val m - id_min_val m + 1)%N) by (apply N.mod_lt; lia).
    rewrite u64_add_plain by lia.
    destruct (id_random m) eqn:Er; cbn [set_dyn id_dyn_val id_min_val id_max_val id_random];
      (split; [reflexivity|]); (split; [lia|]); repeat split; assumption.
  - apply N.eqb_neq in E. split; [reflexivity|]. split; [lia|]. repeat split.
Qed.

(* alloc *)
Lemma alloc_refines fixed m v rnd f : Inv fixed m ->
  exists rv ido m', id_alloc fixed m v rnd f = IdOk (rv, ido, m') /\ Inv fixed m' /\
                    id_spec_rel (abs m) (IoAlloc v rnd f) (OutAlloc rv ido) (abs m').
Proof.
  intros [HI HR]. unfold id_alloc.
  pose proof (abs_count m HI) as AC.
  assert (US: u64_sub (id_max_val m) (id_min_val m) = (id_max_val m - id_min_val m)%N)
    by (destruct HR; now apply u64_sub_plain).
  rewrite US.
  destruct (id_max_val m - id_min_val m <? N.of_nat (id_count m))%N eqn:Efull.
  { exists id_ENOMEM, None, m. split; [reflexivity|]. split; [split; assumption|]. left.
    cbn [id_spec_step abs sp_map sp_hi sp_lo]. rewrite AC, Efull. cbn [fst snd]. split; [reflexivity|apply spec_equiv_refl]. }
  rewrite <- US.
  destruct (start_eq fixed m rnd HR) as (SD & SR & SC & Slo & Shi & Srnd).
  set (m1 := if (id_dyn_val m =? 0)%N then _ else m) in *.
  assert (HI1: MInv m1) by (eapply MInv_core; eauto).
  assert (HR1: RInv fixed m1).
  { destruct HR as [H1 H2 H3 H4 H5]. split; rewrite ?Slo, ?Shi, ?SD; auto. }
  destruct SC as (E1 & E2 & E3 & E4 & E5).
  rewrite (alloc_loop_spec fixed m1 HI1 HR1) by (rewrite Slo, Shi, SD; exact SR).
  rewrite E1, E2, Slo, Shi, SD.
  apply N.ltb_ge in Efull.
  destruct (first_free_total (abs_list (id_entries m)) (id_min_val m) (id_max_val m) (sp_start (abs m) rnd) SR)
    as (id & cur & FF); [rewrite AC; exact Efull|].
  pose proof FF as FF'. rewrite AC in FF'. rewrite FF'. cbn [id_bind].
  destruct (first_free_Some _ _ _ _ _ _ _ FF) as (n & Hn & Hid & Hcur & Hfree & Hbusy).
  assert (CR: (id_min_val m <= cur <= id_max_val m)%N).
  { rewrite Hcur. apply cyc_iter_range; [destruct HR; assumption|exact SR]. }
  set (m2 := set_dyn m1 cur).
  assert (HI2: MInv m2) by (apply (MInv_core m1); [repeat split|assumption]).
  assert (HR2: RInv fixed m2).
  { destruct HR1 as [H1 H2 H3 H4 H5]. split; unfold m2; cbn [set_dyn id_min_val id_max_val id_dyn_val]; auto.
    right. rewrite Slo, Shi. exact CR. }
  destruct (id_set_spec m2 id v f HI2) as (rv & m' & R & HI' & RS & [[-> SP]|(-> & -> & AS & CS)]);
    rewrite R; cbn [id_bind N.eqb].
  - exists 0%N, (Some id), m'. split; [reflexivity|].
    split; [split; [exact HI'|exact (RInv_range _ _ _ RS HR2)]|].
    left. cbn [id_spec_step abs sp_map sp_hi sp_lo]. apply N.ltb_ge in Efull. rewrite AC, Efull.
    change (mkIdSpec (abs_list (id_entries m)) (id_min_val m) (id_max_val m) (id_random m) (id_dyn_val m)) with (abs m).
    rewrite FF'. cbn [fst snd]. split; [reflexivity|].
    destruct RS as (A & B & C & D).
    destruct (equiv_from_pairs (abs_list (id_entries m')) (am_set (abs_list (id_entries m)) id v)) as [X1 X2].
    + now apply abs_keys_NoDup.
    + apply am_set_NoDup. now apply abs_keys_NoDup.
    + intros k' v'. rewrite am_set_In. specialize (SP k' v'). unfold m2 in SP. cbn [set_dyn id_entries] in SP.
      rewrite E1 in SP. exact SP.
    + unfold m2 in *. cbn [set_dyn id_min_val id_max_val id_random id_dyn_val] in *.
      repeat split; cbn; auto; congruence.
  - exists id_ENOMEM, None, m'. split; [reflexivity|].
    split; [split; [exact HI'|exact (RInv_range _ _ _ RS HR2)]|].
    right. cbn [id_spec_fail_step abs sp_map sp_hi sp_lo]. apply N.ltb_ge in Efull. rewrite AC, Efull.
    change (mkIdSpec (abs_list (id_entries m)) (id_min_val m) (id_max_val m) (id_random m) (id_dyn_val m)) with (abs m).
    rewrite FF'. eexists. split; [reflexivity|]. split; [reflexivity|]. cbn [snd].
    destruct RS as (A & B & C & D).
    destruct (equiv_from_pairs (abs_list (id_entries m')) (abs_list (id_entries m))) as [X1 X2];
      [now apply abs_keys_NoDup|now apply abs_keys_NoDup| |].
    + intros k' v'. specialize (AS k' v'). unfold m2 in AS. cbn [set_dyn id_entries] in AS. rewrite E1 in AS. exact AS.
    + unfold m2 in *. cbn [set_dyn id_min_val id_max_val id_random id_dyn_val] in *.
      repeat split; cbn; auto; congruence.
Qed.

(* ----------------------------------------------------- one step, all steps *)
Theorem step_refines fixed m o : Inv fixed m ->
  exists out m', id_step fixed m o = IdOk (out, m') /\ Inv fixed m' /\ id_spec_rel (abs m) o out (abs m').
Proof.
  intros HInv. destruct o as [k v f|k|k f|v rnd f| |]; cbn [id_step].
  - destruct (set_refines fixed m k v f HInv) as (rv & m' & R & I' & S'). rewrite R. cbn [id_bind]. eauto.
  - rewrite (id_get_spec m k (proj1 HInv)). cbn [id_bind]. eexists _, m. split; [reflexivity|]. split; [assumption|].
    left. cbn [id_spec_step fst snd]. split; [reflexivity|apply spec_equiv_refl].
  - destruct (remove_refines fixed m k f HInv) as (rv & m' & R & I' & S'). rewrite R. cbn [id_bind]. eauto.
  - destruct (alloc_refines fixed m v rnd f HInv) as (rv & ido & m' & R & I' & S'). rewrite R. cbn [id_bind]. eauto.
  - rewrite id_visit_all_spec. cbn [id_bind]. eexists _, m. split; [reflexivity|]. split; [assumption|].
    left. cbn [id_spec_step fst snd out_equiv abs sp_map]. split; [|apply spec_equiv_refl].
    split; [apply abs_keys_NoDup, (proj1 HInv)|intros k; reflexivity].
  - eexists _, m. split; [reflexivity|]. split; [assumption|].
    left. cbn [id_spec_step fst snd out_equiv abs sp_map]. split; [|apply spec_equiv_refl].
    f_equal. symmetry. apply abs_count, (proj1 HInv).
Qed.

Theorem run_refines fixed : forall ops m, Inv fixed m ->
  exists outs m', id_run fixed m ops = IdOk (outs, m') /\ Inv fixed m' /\ id_spec_run (abs m) ops outs (abs m').
Proof.
  induction ops as [|o rest IH]; intros m HInv; cbn [id_run].
  - exists [], m. split; [reflexivity|]. split; [assumption|constructor].
  - destruct (step_refines fixed m o HInv) as (out & m1 & R & I1 & S1). rewrite R. cbn [id_bind].
    destruct (IH m1 I1) as (outs & m2 & R2 & I2 & S2). rewrite R2. cbn [id_bind].
    exists (out :: outs), m2. split; [reflexivity|]. split; [assumption|]. econstructor; eauto.
Qed.

(* ---------------------------------------------------------- init / fini *)
Lemma MInv_empty st rg rnd lo hi dyn : MInv (mkIdMap [] 0 0 0 0 st rg rnd lo hi dyn).
Proof.
  split; unfold thresholds_ok, id_cap; cbn; auto.
  split.
  - intros i j ei ej Hi. destruct i; discriminate.
  - intros c e Hc. destruct c; discriminate.
  - intros c e Hc. destruct c; discriminate.
Qed.

Theorem init_inv fixed lo hi rnd m : (lo < U64)%N -> (hi < U64)%N -> (fixed = true \/ hi + 1 < U64)%N ->
  id_map_init lo hi rnd = IdOk m ->
  Inv fixed m /\ abs m = mkIdSpec [] (if (lo =? 0)%N then 1%N else lo) (if (hi =? 0)%N then ID_DEFAULT_HI else hi) rnd 0%N.
Proof.
  intros Hlo Hhi Hf. unfold id_map_init.
  destruct (negb ((if (lo =? 0)%N then 1%N else lo) <? (if (hi =? 0)%N then ID_DEFAULT_HI else hi))%N) eqn:E; [discriminate|].
  intros H. inversion H; subst m. apply negb_false_iff, N.ltb_lt in E.
  split; [|reflexivity]. split; [apply MInv_empty|].
  set (lo' := if (lo =? 0)%N then 1%N else lo) in *. set (hi' := if (hi =? 0)%N then ID_DEFAULT_HI else hi) in *.
  assert (L1: (1 <= lo')%N) by (unfold lo'; destruct (lo =? 0)%N eqn:E1; [lia|apply N.eqb_neq in E1; lia]).
  assert (L2: (hi' < U64)%N) by (unfold hi', ID_DEFAULT_HI, U64 in *; destruct (hi =? 0)%N; lia).
  assert (L3: fixed = true \/ (hi' + 1 < U64)%N).
  { destruct Hf as [->|Hf]; [now left|right]. unfold hi', ID_DEFAULT_HI, U64 in *. destruct (hi =? 0)%N; lia. }
  split; cbn [id_min_val id_max_val id_dyn_val]; auto; lia.
Qed.

Theorem static_init_inv fixed lo hi rnd : (1 <= lo)%N -> (lo <= hi)%N -> (hi < U64)%N -> (fixed = true \/ hi + 1 < U64)%N ->
  Inv fixed (id_map_static_init lo hi rnd).
Proof.
  intros H1 H2 H3 H4. split; [apply MInv_empty|]. split; cbn; auto.
Qed.

Theorem fini_inv fixed m : Inv fixed m -> Inv fixed (id_map_fini m) /\ abs_list (id_entries (id_map_fini m)) = [].
Proof.
  intros [HI HR]. unfold id_map_fini. destruct (id_entries m) eqn:E.
  - split; [split; assumption|]. now rewrite E.
  - split; [|reflexivity]. split; [apply MInv_empty|]. destruct HR as [A B C D F]. split; cbn; assumption.
Qed.
