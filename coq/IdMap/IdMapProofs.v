(* IdMapProofs: the invariants I1-I4 of DESIGN Appendix D for the model of
   idhash.c, correctness of id_find, the store / walk-back / rehash loops, and the
   refinement of the finite-map + cyclic-cursor specification, lifted to all
   operation histories.  Stdlib only; closed under the global context. *)
From Coq Require Import List Arith Lia PeanoNat ZArith NArith Bool ZifyNat ZifyN.
From NngV Require Import IdMap.IdMapModel IdMap.IdMapSpec IdMap.ProbeOrder IdMap.IdMapLemmas.
Import ListNotations.

Ltac Zify.zify_post_hook ::= Z.div_mod_to_equations.

(* ------------------------------------------------------------ invariants *)
Definition lvb (e : id_entry) : nat := if ie_live e then 1 else 0.
Definition lv (T : list id_entry) (i : nat) : nat :=
  match nth_error T i with Some e => lvb e | None => 0 end.

(* d(k): the probe distance of the key stored in cell i *)
Definition edist (cap : nat) (e : id_entry) (i : nat) : nat := dist cap (id_index cap (ie_key e)) i.
(* the cells the key of cell i was skipped over: p_0(k) .. p_{d(k)-1}(k) *)
Definition epref (cap : nat) (e : id_entry) (i : nat) : list nat :=
  pref cap (id_index cap (ie_key e)) (edist cap e i).

(* how often the live key of cell i crosses cell c *)
Definition cr (T : list id_entry) (c i : nat) : nat :=
  match nth_error T i with
  | Some e => if ie_live e then count_occ Nat.eq_dec (epref (length T) e i) c else 0
  | None => 0
  end.
(* the contribution of cell i to id_load *)
Definition ld (T : list id_entry) (i : nat) : nat :=
  match nth_error T i with
  | Some e => if ie_live e then S (edist (length T) e i) else 0
  | None => 0
  end.

Definition uniq (T : list id_entry) : Prop :=
  forall i j ei ej, nth_error T i = Some ei -> nth_error T j = Some ej ->
    ie_live ei = true -> ie_live ej = true -> ie_key ei = ie_key ej -> i = j.

Record TInv (T : list id_entry) : Prop := {
  ti_uniq : uniq T;                                   (* live keys occupy distinct cells *)
  ti_skips : forall c e, nth_error T c = Some e ->    (* I1 *)
               ie_skips e = sumf (length T) (cr T c);
  ti_vacant : forall c e, nth_error T c = Some e ->   (* I2 *)
               ie_val e = None -> ie_key e = 0%N }.

Definition thresholds_ok (m : id_map) : Prop :=
  (id_cap m = 0 /\ id_min_load m = 0 /\ id_max_load m = 0) \/
  (id_cap m = 8 /\ id_min_load m = 0 /\ id_max_load m = 5) \/
  (8 < id_cap m /\ id_min_load m = id_cap m / 8 /\ id_max_load m = id_cap m * 2 / 3).

Record MInv (m : id_map) : Prop := {
  mi_cap : id_cap m = 0 \/ exists k, 3 <= k /\ id_cap m = 2 ^ k;
  mi_tinv : TInv (id_entries m);
  mi_count : id_count m = sumf (id_cap m) (lv (id_entries m));      (* I3 *)
  mi_load : id_load m = sumf (id_cap m) (ld (id_entries m));        (* I3 *)
  mi_thr : thresholds_ok m }.

(* the range and the cursor *)
Record RInv (fixed : bool) (m : id_map) : Prop := {
  ri_lo : (1 <= id_min_val m)%N;
  ri_lohi : (id_min_val m <= id_max_val m)%N;
  ri_hi : (id_max_val m < U64)%N;
  ri_fixed : fixed = true \/ (id_max_val m + 1 < U64)%N;
  ri_dyn : id_dyn_val m = 0%N \/ (id_min_val m <= id_dyn_val m <= id_max_val m)%N }.

Definition Inv (fixed : bool) (m : id_map) : Prop := MInv m /\ RInv fixed m.

(* ------------------------------------------------------------ abstraction *)
Definition abs_list (T : list id_entry) : id_amap :=
  flat_map (fun e => match ie_val e with Some v => [(ie_key e, v)] | None => [] end) T.
Definition abs (m : id_map) : id_spec :=
  mkIdSpec (abs_list (id_entries m)) (id_min_val m) (id_max_val m) (id_random m) (id_dyn_val m).

Lemma live_val e : ie_live e = true <-> exists v, ie_val e = Some v.
Proof. unfold ie_live. destruct (ie_val e); split; intros; eauto; try discriminate. destruct H; discriminate. Qed.
Lemma dead_val e : ie_live e = false <-> ie_val e = None.
Proof. unfold ie_live. destruct (ie_val e); split; intros; auto; discriminate. Qed.

Lemma nth_error_lt {A} (T : list A) i : i < length T -> exists e, nth_error T i = Some e.
Proof. intros H. destruct (nth_error T i) eqn:E; [eauto|]. apply nth_error_None in E. lia. Qed.

Lemma abs_In T k v : In (k, v) (abs_list T) <->
  exists c e, nth_error T c = Some e /\ ie_key e = k /\ ie_val e = Some v.
Proof.
  unfold abs_list. rewrite in_flat_map. split.
  - intros (e & Hin & H). apply In_nth_error in Hin. destruct Hin as [c Hc].
    exists c, e. destruct (ie_val e); [|contradiction]. destruct H as [H|[]]. inversion H; subst. auto.
  - intros (c & e & Hc & Hk & Hv). exists e. split; [eapply nth_error_In; eauto|].
    rewrite Hv. left. now subst.
Qed.

Lemma uniq_tail e T : uniq (e :: T) -> uniq T.
Proof.
  intros U i j ei ej Hi Hj Li Lj K. assert (S i = S j); [|lia]. eapply U; eauto.
Qed.

Lemma abs_NoDup T : uniq T -> NoDup (map fst (abs_list T)).
Proof.
  induction T as [|e T IH]; intros U; [constructor|].
  specialize (IH (uniq_tail _ _ U)). cbn [abs_list flat_map]. fold (abs_list T).
  destruct (ie_val e) as [v|] eqn:Ev; [|exact IH].
  cbn. constructor; [|exact IH]. intros Hin. apply in_map_iff in Hin.
  destruct Hin as ([k' v'] & Hk & Hin). cbn in Hk. subst k'. apply abs_In in Hin.
  destruct Hin as (c & e' & Hc & Hk & Hv).
  assert (0 = S c); [|lia]. eapply (U 0 (S c) e e'); cbn; eauto; apply live_val; eauto.
Qed.

Lemma abs_length T : length (abs_list T) = sumf (length T) (lv T).
Proof.
  unfold lv. rewrite (sumf_map_nth T (fun o => match o with Some e => lvb e | None => 0 end)).
  induction T as [|e T IH]; [reflexivity|]. cbn [abs_list flat_map map list_sum]. fold (abs_list T).
  rewrite app_length, IH. unfold lvb at 2, ie_live. unfold list_sum. destruct (ie_val e); cbn [length fold_right]; lia.
Qed.

(* ---------------------------------------------------------------- id_find *)
Section Find.
Variables (T : list id_entry) (k : nat).
Hypothesis HL : length T = 2 ^ k.
Hypothesis HT : TInv T.

Lemma cell_exists p : p < 2 ^ k -> exists e, nth_error T p = Some e.
Proof. intros. apply nth_error_lt. lia. Qed.

Lemma skips_ge_cross c e p e' :
  nth_error T c = Some e -> ie_live e = true -> nth_error T p = Some e' ->
  In p (epref (2 ^ k) e c) -> 1 <= ie_skips e'.
Proof.
  intros Hc Lc Hp Hin. rewrite (ti_skips T HT p e' Hp).
  assert (c < length T) by (apply nth_error_Some; congruence).
  eapply Nat.le_trans; [|apply (sumf_ge _ _ c); assumption].
  unfold cr. rewrite Hc, Lc, HL. apply (count_occ_In Nat.eq_dec) in Hin. lia.
Qed.

Lemma find_loop_live id c e :
  nth_error T c = Some e -> ie_live e = true -> ie_key e = id ->
  find_loop T id (id_index (2 ^ k) id) (id_index (2 ^ k) id) (2 ^ k) = IdOk (Some c).
Proof.
  intros Hc Lc Kc. set (s := id_index (2 ^ k) id).
  assert (Hs: s < 2 ^ k) by apply id_index_lt.
  assert (Hc': c < 2 ^ k) by (rewrite <- HL; apply nth_error_Some; congruence).
  destruct (dist_spec k s c Hs Hc') as (Dlt & Dp & Dmin). set (d := dist (2 ^ k) s c) in *.
  assert (G: forall m n fuel, n + m = d -> m < fuel ->
             find_loop T id s (path (2 ^ k) s n) fuel = IdOk (Some c)).
  { induction m as [|m IH]; intros n fuel Hn Hf; (destruct fuel as [|f]; [lia|]); cbn [find_loop].
    - replace n with d by lia. rewrite Dp, Hc, Kc, N.eqb_refl, Lc. reflexivity.
    - assert (Hp: path (2 ^ k) s n < 2 ^ k) by (apply path_lt; [apply pow2_pos|assumption]).
      destruct (cell_exists _ Hp) as [e' He']. rewrite He'.
      destruct ((ie_key e' =? id)%N && ie_live e') eqn:Em.
      { exfalso. apply andb_true_iff in Em. destruct Em as [Ek El]. apply N.eqb_eq in Ek.
        apply (Dmin n); [lia|]. eapply (ti_uniq T HT); eauto. congruence. }
      assert (Sk: 1 <= ie_skips e').
      { apply (skips_ge_cross c e (path (2 ^ k) s n) e' Hc Lc He'). unfold epref, edist. rewrite Kc. fold s. fold d.
        apply pref_In. exists n. split; [lia|reflexivity]. }
      destruct (ie_skips e' =? 0) eqn:E0; [apply Nat.eqb_eq in E0; lia|].
      rewrite HL, id_next_nxt. change (nxt (2 ^ k) (path (2 ^ k) s n)) with (path (2 ^ k) s (S n)).
      destruct (path (2 ^ k) s (S n) =? s) eqn:Ew.
      { exfalso. apply Nat.eqb_eq in Ew. assert (S n = 0); [|lia].
        apply (path_inj k s); try lia. exact Ew. }
      apply IH; lia. }
  apply (G d 0 (2 ^ k)); lia.
Qed.

Lemma find_loop_dead id :
  (forall c e, nth_error T c = Some e -> ie_live e = true -> ie_key e <> id) ->
  find_loop T id (id_index (2 ^ k) id) (id_index (2 ^ k) id) (2 ^ k) = IdOk None.
Proof.
  intros Hd. set (s := id_index (2 ^ k) id).
  assert (Hs: s < 2 ^ k) by apply id_index_lt.
  assert (G: forall fuel n, n + fuel = 2 ^ k -> n < 2 ^ k ->
             find_loop T id s (path (2 ^ k) s n) fuel = IdOk None).
  { induction fuel as [|f IH]; intros n Hn Hlt; [lia|]. cbn [find_loop].
    assert (Hp: path (2 ^ k) s n < 2 ^ k) by (apply path_lt; [apply pow2_pos|assumption]).
    destruct (cell_exists _ Hp) as [e' He']. rewrite He'.
    destruct ((ie_key e' =? id)%N && ie_live e') eqn:Em.
    { exfalso. apply andb_true_iff in Em. destruct Em as [Ek El]. apply N.eqb_eq in Ek.
      eapply Hd; eauto. }
    destruct (ie_skips e' =? 0); [reflexivity|].
    rewrite HL, id_next_nxt. change (nxt (2 ^ k) (path (2 ^ k) s n)) with (path (2 ^ k) s (S n)).
    destruct (path (2 ^ k) s (S n) =? s) eqn:Ew; [reflexivity|].
    apply Nat.eqb_neq in Ew. apply IH; [lia|].
    destruct (Nat.eq_dec (S n) (2 ^ k)) as [E|]; [|lia].
    exfalso. apply Ew. rewrite E. now apply path_period. }
  apply (G (2 ^ k) 0); [lia|apply pow2_pos].
Qed.
End Find.

(* the table of a map satisfying MInv is either absent or a power of two *)
Lemma MInv_cap0 m : MInv m -> id_cap m = 0 -> id_entries m = [] /\ id_count m = 0.
Proof.
  intros HI H0. unfold id_cap in H0. apply length_zero_iff_nil in H0.
  split; [assumption|]. rewrite (mi_count m HI). unfold id_cap. rewrite H0. reflexivity.
Qed.

Lemma id_find_live m c e :
  MInv m -> nth_error (id_entries m) c = Some e -> ie_live e = true ->
  id_find m (ie_key e) = IdOk (Some c).
Proof.
  intros HI Hc Lc. unfold id_find.
  assert (Hlt: c < id_cap m) by (apply nth_error_Some; congruence).
  assert (1 <= id_count m).
  { rewrite (mi_count m HI). eapply Nat.le_trans; [|apply (sumf_ge _ _ c Hlt)].
    unfold lv, lvb. rewrite Hc, Lc. lia. }
  destruct (id_count m =? 0) eqn:E0; [apply Nat.eqb_eq in E0; lia|].
  destruct (mi_cap m HI) as [Z|(k & Hk & Hcap)]; [lia|].
  rewrite Hcap. eapply find_loop_live; eauto. apply (mi_tinv m HI).
Qed.

Lemma id_find_dead m id :
  MInv m -> (forall c e, nth_error (id_entries m) c = Some e -> ie_live e = true -> ie_key e <> id) ->
  id_find m id = IdOk None.
Proof.
  intros HI Hd. unfold id_find. destruct (id_count m =? 0) eqn:E0; [reflexivity|].
  destruct (mi_cap m HI) as [Z|(k & Hk & Hcap)].
  - apply (MInv_cap0 m HI) in Z. apply Nat.eqb_neq in E0. tauto.
  - rewrite Hcap. exact (find_loop_dead (id_entries m) k Hcap id Hd).
Qed.

(* id_find decides liveness *)
Lemma id_find_spec m id : MInv m ->
  (exists c e, id_find m id = IdOk (Some c) /\ nth_error (id_entries m) c = Some e /\
               ie_live e = true /\ ie_key e = id) \/
  (id_find m id = IdOk None /\
   forall c e, nth_error (id_entries m) c = Some e -> ie_live e = true -> ie_key e <> id).
Proof.
  intros HI.
  destruct (am_get (abs_list (id_entries m)) id) as [v|] eqn:E.
  - left. apply am_get_In, abs_In in E. destruct E as (c & e & Hc & Hk & Hv).
    exists c, e. assert (L: ie_live e = true) by (apply live_val; eauto).
    repeat split; auto. subst id. now apply id_find_live.
  - right. assert (D: forall c e, nth_error (id_entries m) c = Some e -> ie_live e = true -> ie_key e <> id).
    { intros c e Hc L K. apply live_val in L. destruct L as [v Hv].
      apply am_get_None in E. apply E. apply in_map_iff. exists (id, v). split; [reflexivity|].
      apply abs_In. eauto. }
    split; [now apply id_find_dead|exact D].
Qed.

Lemma id_get_spec m id : MInv m -> id_get m id = IdOk (am_get (abs_list (id_entries m)) id).
Proof.
  intros HI. unfold id_get.
  assert (ND: NoDup (map fst (abs_list (id_entries m)))) by (apply abs_NoDup, (mi_tinv m HI)).
  destruct (id_find_spec m id HI) as [(c & e & F & Hc & L & K)|[F D]]; rewrite F; cbn [id_bind].
  - rewrite Hc. f_equal. apply live_val in L. destruct L as [v Hv]. rewrite Hv.
    symmetry. apply In_am_get; [assumption|]. apply abs_In. eauto.
  - f_equal. symmetry. apply am_get_None. intros Hin. apply in_map_iff in Hin.
    destruct Hin as ([k' v] & Hk & Hin). cbn in Hk. subst k'. apply abs_In in Hin.
    destruct Hin as (c & e & Hc & Hk & Hv). eapply D; eauto. apply live_val; eauto.
Qed.

(* ------------------------------------------------ the store loop (ins_loop) *)
Definition bump_at (l : list nat) (c : nat) (e : id_entry) : id_entry :=
  mkIdEntry (ie_key e) (ie_skips e + count_occ Nat.eq_dec l c) (ie_val e).

(* vacant cells never carry a skip count: holds while a table is only filled *)
Definition NoTomb (T : list id_entry) : Prop :=
  forall c e, nth_error T c = Some e -> ie_val e = None -> ie_skips e = 0.

Lemma ins_loop_char k id v asrt : forall d T s load fuel ed,
  length T = 2 ^ k -> s < 2 ^ k -> d < fuel ->
  (forall i, i < d -> exists e, nth_error T (path (2 ^ k) s i) = Some e /\ ie_live e = true) ->
  nth_error T (path (2 ^ k) s d) = Some ed -> ie_val ed = None ->
  (asrt = true -> ie_skips ed = 0) ->
  exists T', ins_loop T (2 ^ k) id v s load fuel asrt = IdOk (T', load + d + 1) /\
             length T' = 2 ^ k /\
             forall c e, nth_error T c = Some e ->
               nth_error T' c = Some (if c =? path (2 ^ k) s d then mkIdEntry id (ie_skips e) (Some v)
                                      else bump_at (pref (2 ^ k) s d) c e).
Proof.
  induction d as [|d IH]; intros T s load fuel ed HL Hs Hf Hocc Hd Hv Ha;
    (destruct fuel as [|f]; [lia|]); cbn [ins_loop].
  - cbn [path] in *. rewrite Hd, Hv.
    assert (A: asrt && negb (ie_skips ed =? 0) = false).
    { destruct asrt; [|reflexivity]. rewrite Ha by reflexivity. reflexivity. }
    rewrite A. eexists. split; [f_equal; f_equal; lia|]. split; [rewrite tupd_length; lia|].
    intros c e Hc. rewrite tupd_nth by lia. destruct (c =? s) eqn:E.
    + apply Nat.eqb_eq in E. subst c. rewrite Hd in Hc. inversion Hc; subst. reflexivity.
    + rewrite Hc. f_equal. unfold bump_at, pref. cbn. destruct e; cbn. f_equal. lia.
  - destruct (Hocc 0 ltac:(lia)) as (e0 & He0 & L0). cbn [path] in He0. rewrite He0.
    destruct (live_val e0) as [LV _]. destruct (LV L0) as [v0 Hv0]. rewrite Hv0.
    assert (Hne: path (2 ^ k) s (S d) <> s).
    { intros E. rewrite E in Hd. rewrite He0 in Hd. inversion Hd; subst. congruence. }
    set (T1 := tupd T s (mkIdEntry (ie_key e0) (S (ie_skips e0)) (Some v0))).
    assert (HL1: length T1 = 2 ^ k) by (unfold T1; rewrite tupd_length; lia).
    assert (N1: forall c, nth_error T1 c = if c =? s then Some (mkIdEntry (ie_key e0) (S (ie_skips e0)) (Some v0))
                                          else nth_error T c).
    { intros c. unfold T1. apply tupd_nth. lia. }
    rewrite id_next_nxt.
    destruct (IH T1 (nxt (2 ^ k) s) (S load) f ed HL1 (nxt_lt _ _ (pow2_pos k)) ltac:(lia)) as (T' & R & HL' & P).
    + intros i Hi. rewrite <- path_succ_r. destruct (Hocc (S i) ltac:(lia)) as (e & He & Le).
      rewrite N1. destruct (path (2 ^ k) s (S i) =? s); [|eauto].
      eexists. split; [reflexivity|reflexivity].
    + rewrite <- path_succ_r, N1. apply Nat.eqb_neq in Hne. now rewrite Hne.
    + assumption.
    + assumption.
    + exists T'. split; [rewrite R; f_equal; f_equal; lia|]. split; [assumption|].
      intros c e Hc. specialize (P c). rewrite N1 in P. rewrite <- path_succ_r in P.
      rewrite pref_succ.
      destruct (c =? s) eqn:Es.
      * apply Nat.eqb_eq in Es. subst c. rewrite He0 in Hc. inversion Hc; subst e.
        rewrite (P _ eq_refl). apply Nat.eqb_neq in Hne. rewrite Nat.eqb_sym, Hne.
        f_equal. unfold bump_at. cbn [ie_key ie_skips ie_val]. rewrite Hv0.
        rewrite count_occ_cons_eq by reflexivity. f_equal. lia.
      * rewrite (P _ Hc). destruct (c =? path (2 ^ k) s (S d)); [reflexivity|].
        f_equal. unfold bump_at. apply Nat.eqb_neq in Es. rewrite count_occ_cons_neq by congruence. reflexivity.
Qed.

(* the first vacant cell on a probe path *)
Lemma first_vacant k T s : length T = 2 ^ k -> s < 2 ^ k -> sumf (2 ^ k) (lv T) < 2 ^ k ->
  exists d, d < 2 ^ k /\ lv T (path (2 ^ k) s d) = 0 /\ forall i, i < d -> lv T (path (2 ^ k) s i) <> 0.
Proof.
  intros HL Hs Hv.
  destruct (sumf_vacancy (2 ^ k) (lv T)) as (c & Hc & Hz); [|assumption|].
  { intros i _. unfold lv, lvb. destruct (nth_error T i) as [e|]; [destruct (ie_live e)|]; lia. }
  destruct (path_surj k s c Hs Hc) as (n & Hn & En).
  destruct (Wf_nat.dec_inh_nat_subset_has_unique_least_element (fun n => lv T (path (2 ^ k) s n) = 0))
    as (d & (Pd & Hmin) & _).
  - intros x. destruct (Nat.eq_dec (lv T (path (2 ^ k) s x)) 0); [now left|now right].
  - exists n. now rewrite En.
  - exists d. assert (d <= n) by (apply Hmin; now rewrite En). split; [lia|]. split; [assumption|].
    intros i Hi Hz'. specialize (Hmin i Hz'). lia.
Qed.

Lemma lv_live T p : lv T p <> 0 -> exists e, nth_error T p = Some e /\ ie_live e = true.
Proof.
  unfold lv, lvb. destruct (nth_error T p) as [e|]; [|lia]. destruct (ie_live e) eqn:E; [eauto|lia].
Qed.
Lemma lv_vacant T p : p < length T -> lv T p = 0 -> exists e, nth_error T p = Some e /\ ie_val e = None.
Proof.
  intros Hp. unfold lv, lvb. destruct (nth_error_lt T p Hp) as [e He]. rewrite He.
  destruct (ie_live e) eqn:E; [lia|]. intros _. exists e. split; [reflexivity|now apply dead_val].
Qed.

(* what a table must look like, relative to T, after storing (id, v) at distance d *)
Definition stored (k : nat) (T T' : list id_entry) (id v : N) (d : nat) : Prop :=
  let s := id_index (2 ^ k) id in
  length T' = 2 ^ k /\
  forall c e, nth_error T c = Some e ->
    nth_error T' c = Some (if c =? path (2 ^ k) s d then mkIdEntry id (ie_skips e) (Some v)
                           else bump_at (pref (2 ^ k) s d) c e).

Section Stored.
Variables (k : nat) (T T' : list id_entry) (id v : N) (d : nat).
Let s := id_index (2 ^ k) id.
Let p := path (2 ^ k) s d.
Hypothesis HL : length T = 2 ^ k.
Hypothesis HT : TInv T.
Hypothesis Hd : d < 2 ^ k.
Hypothesis Hocc : forall i, i < d -> lv T (path (2 ^ k) s i) <> 0.
Hypothesis Hvac : lv T p = 0.
Hypothesis Hdead : forall c e, nth_error T c = Some e -> ie_live e = true -> ie_key e <> id.
Hypothesis HS : stored k T T' id v d.

Let Hs : s < 2 ^ k := id_index_lt k id.
Let Hp : p < 2 ^ k := path_lt _ _ _ (pow2_pos k) Hs.
Let HL' : length T' = 2 ^ k := proj1 HS.

Lemma st_cell c : c < 2 ^ k -> exists e, nth_error T c = Some e /\
  nth_error T' c = Some (if c =? p then mkIdEntry id (ie_skips e) (Some v) else bump_at (pref (2 ^ k) s d) c e).
Proof.
  intros Hc. destruct (nth_error_lt T c) as [e He]; [lia|]. exists e. split; [assumption|].
  now apply (proj2 HS).
Qed.

Lemma st_p_notin : ~ In p (pref (2 ^ k) s d).
Proof.
  intros Hin. apply pref_In in Hin. destruct Hin as (i & Hi & E). apply (Hocc i Hi). now rewrite E.
Qed.

Lemma st_other c e' : c <> p -> nth_error T' c = Some e' ->
  exists e, nth_error T c = Some e /\ ie_key e' = ie_key e /\ ie_val e' = ie_val e /\
            ie_skips e' = ie_skips e + count_occ Nat.eq_dec (pref (2 ^ k) s d) c.
Proof.
  intros Hne Hc. assert (c < 2 ^ k) by (rewrite <- HL'; apply nth_error_Some; congruence).
  destruct (st_cell c H) as (e & He & He'). apply Nat.eqb_neq in Hne. rewrite Hne in He'.
  rewrite Hc in He'. inversion He'; subst e'. exists e. cbn. auto.
Qed.

Lemma st_at_p : exists e, nth_error T p = Some e /\ ie_val e = None /\
  nth_error T' p = Some (mkIdEntry id (ie_skips e) (Some v)).
Proof.
  destruct (st_cell p Hp) as (e & He & He'). rewrite Nat.eqb_refl in He'.
  exists e. split; [assumption|]. split; [|assumption].
  destruct (lv_vacant T p ltac:(lia) Hvac) as (e2 & He2 & Hv2). congruence.
Qed.

Lemma st_lv i : i <> p -> lv T' i = lv T i.
Proof.
  intros Hne. unfold lv. destruct (nth_error T' i) as [e'|] eqn:E.
  - destruct (st_other i e' Hne E) as (e & He & _ & Hv & _). rewrite He. unfold lvb, ie_live. now rewrite Hv.
  - apply nth_error_None in E. assert (nth_error T i = None) by (apply nth_error_None; lia). now rewrite H.
Qed.
Lemma st_ld i : i <> p -> ld T' i = ld T i.
Proof.
  intros Hne. unfold ld. rewrite HL, HL'. destruct (nth_error T' i) as [e'|] eqn:E.
  - destruct (st_other i e' Hne E) as (e & He & Hk & Hv & _). rewrite He. unfold ie_live, edist. now rewrite Hv, Hk.
  - apply nth_error_None in E. assert (nth_error T i = None) by (apply nth_error_None; lia). now rewrite H.
Qed.
Lemma st_cr c i : i <> p -> cr T' c i = cr T c i.
Proof.
  intros Hne. unfold cr. rewrite HL, HL'. destruct (nth_error T' i) as [e'|] eqn:E.
  - destruct (st_other i e' Hne E) as (e & He & Hk & Hv & _). rewrite He.
    unfold ie_live, epref, edist. now rewrite Hv, Hk.
  - apply nth_error_None in E. assert (nth_error T i = None) by (apply nth_error_None; lia). now rewrite H.
Qed.

Lemma st_dist_p : dist (2 ^ k) s p = d.
Proof. apply dist_unique; assumption. Qed.

Lemma st_count : sumf (2 ^ k) (lv T') = S (sumf (2 ^ k) (lv T)).
Proof.
  pose proof (sumf_upd (2 ^ k) (lv T) (lv T') p Hp (fun i _ Hne => st_lv i Hne)) as H.
  rewrite Hvac in H. destruct st_at_p as (e & _ & _ & E). unfold lv at 3 in H. rewrite E in H. cbn in H. lia.
Qed.

Lemma st_load : sumf (2 ^ k) (ld T') = sumf (2 ^ k) (ld T) + S d.
Proof.
  pose proof (sumf_upd (2 ^ k) (ld T) (ld T') p Hp (fun i _ Hne => st_ld i Hne)) as H.
  destruct st_at_p as (e & E0 & V0 & E). unfold ld at 2 3 in H. rewrite E, E0 in H.
  apply dead_val in V0. rewrite V0 in H. cbn [ie_live ie_val] in H. unfold edist in H. cbn [ie_key] in H.
  rewrite HL' in H. fold s in H. rewrite st_dist_p in H. lia.
Qed.

Lemma st_cross c : sumf (2 ^ k) (cr T' c) = sumf (2 ^ k) (cr T c) + count_occ Nat.eq_dec (pref (2 ^ k) s d) c.
Proof.
  pose proof (sumf_upd (2 ^ k) (cr T c) (cr T' c) p Hp (fun i _ Hne => st_cr c i Hne)) as H.
  destruct st_at_p as (e & E0 & V0 & E). unfold cr at 2 3 in H. rewrite E, E0 in H.
  apply dead_val in V0. rewrite V0 in H. cbn [ie_live ie_val] in H. unfold epref, edist in H. cbn [ie_key] in H.
  rewrite HL' in H. fold s in H. rewrite st_dist_p in H. lia.
Qed.

Lemma st_TInv : TInv T'.
Proof.
  split.
  - intros i j ei ej Hi Hj Li Lj K.
    destruct (Nat.eq_dec i p) as [Ei|Ei]; destruct (Nat.eq_dec j p) as [Ej|Ej]; [congruence| | |].
    + exfalso. subst i. destruct st_at_p as (e & _ & _ & E). rewrite E in Hi. inversion Hi; subst ei.
      destruct (st_other j ej Ej Hj) as (e2 & He2 & Hk2 & Hv2 & _). cbn in K.
      apply (Hdead j e2 He2); [|congruence]. unfold ie_live in *. now rewrite <- Hv2.
    + exfalso. subst j. destruct st_at_p as (e & _ & _ & E). rewrite E in Hj. inversion Hj; subst ej.
      destruct (st_other i ei Ei Hi) as (e2 & He2 & Hk2 & Hv2 & _). cbn in K.
      apply (Hdead i e2 He2); [|congruence]. unfold ie_live in *. now rewrite <- Hv2.
    + destruct (st_other i ei Ei Hi) as (e1 & He1 & Hk1 & Hv1 & _).
      destruct (st_other j ej Ej Hj) as (e2 & He2 & Hk2 & Hv2 & _).
      apply (ti_uniq T HT i j e1 e2); auto; unfold ie_live in *; congruence.
  - intros c e' Hc. rewrite HL', st_cross.
    destruct (Nat.eq_dec c p) as [E|E].
    + subst c. destruct st_at_p as (e & E0 & _ & E1). rewrite E1 in Hc. inversion Hc; subst e'. cbn [ie_skips].
      rewrite (ti_skips T HT p e E0), HL.
      rewrite (count_occ_not_In Nat.eq_dec (pref (2 ^ k) s d) p) ; [lia|apply st_p_notin].
    + destruct (st_other c e' E Hc) as (e & He & _ & _ & Sk). rewrite Sk, (ti_skips T HT c e He), HL. reflexivity.
  - intros c e' Hc Hv. destruct (Nat.eq_dec c p) as [E|E].
    + subst c. destruct st_at_p as (e & _ & _ & E1). rewrite E1 in Hc. inversion Hc; subst e'. discriminate.
    + destruct (st_other c e' E Hc) as (e & He & Hk & Hv' & _). rewrite Hk. apply (ti_vacant T HT c e He). congruence.
Qed.

Lemma st_NoTomb : NoTomb T -> NoTomb T'.
Proof.
  intros NT c e' Hc Hv. destruct (Nat.eq_dec c p) as [E|E].
  - subst c. destruct st_at_p as (e & _ & _ & E1). rewrite E1 in Hc. inversion Hc; subst e'. discriminate.
  - destruct (st_other c e' E Hc) as (e & He & Hk & Hv' & Sk). rewrite Sk.
    rewrite (NT c e He) by congruence.
    rewrite (count_occ_not_In Nat.eq_dec (pref (2 ^ k) s d) c); [reflexivity|].
    intros Hin. apply pref_In in Hin. destruct Hin as (i & Hi & Ei).
    apply (Hocc i Hi). rewrite Ei. unfold lv. rewrite He. unfold lvb, ie_live. rewrite <- Hv', Hv. reflexivity.
Qed.

Lemma st_abs k' v' : In (k', v') (abs_list T') <-> (k' = id /\ v' = v) \/ In (k', v') (abs_list T).
Proof.
  rewrite !abs_In. split.
  - intros (c & e' & Hc & Hk & Hv). destruct (Nat.eq_dec c p) as [E|E].
    + subst c. destruct st_at_p as (e & _ & _ & E1). rewrite E1 in Hc. inversion Hc; subst e'. cbn in *.
      left. split; congruence.
    + destruct (st_other c e' E Hc) as (e & He & Hk2 & Hv2 & _). right. exists c, e. repeat split; congruence.
  - intros [[-> ->]|(c & e & Hc & Hk & Hv)].
    + destruct st_at_p as (e & _ & _ & E1). exists p, (mkIdEntry id (ie_skips e) (Some v)). auto.
    + assert (c < 2 ^ k) by (rewrite <- HL; apply nth_error_Some; congruence).
      destruct (st_cell c H) as (e2 & He2 & He2'). rewrite Hc in He2. inversion He2; subst e2.
      destruct (c =? p) eqn:E.
      * apply Nat.eqb_eq in E. subst c. exfalso. unfold lv in Hvac. rewrite Hc in Hvac.
        unfold lvb, ie_live in Hvac. rewrite Hv in Hvac. lia.
      * eexists c, _. split; [exact He2'|]. cbn. auto.
Qed.
End Stored.
