(* IdMapModel: executable model of src/core/idhash.c (the open-addressed id map
   behind socket/ctx/pipe/dialer/listener ids, request/survey ids and the public
   nng_id_map).  Definitions only.  One Gallina function per C function, same
   branches, same index arithmetic, same order of side effects.

   Representation.  The table m->id_entries is a list of cells of length
   id_cap (NULL ~ [], id_cap is [length]).  A cell is (key, skips, val) with
   val : option N (None ~ NULL; values are abstract non-null pointers).
   Table indices, id_count, id_load, id_min_load, id_max_load and the skip
   counters are nat (uint32_t in the C: the 2^32 wrap of count*2 / new_cap*2 is
   therefore not represented; decrements are *checked* -- an underflow is the
   explicit error IdUnderflow, never a silent wrap).  Keys, the id range and the
   allocation cursor id_dyn_val are N with the uint64 wrap written where the C
   wraps.  Every table access goes through nth_error (IdOob = out of bounds),
   every for(;;) loop is a fuel-bounded recursion (IdFuel = fuel exhausted, i.e.
   the C loop would not have terminated within the proved bound), every
   NNI_ASSERT is a test (IdPanic).  The theorems of IdMapProofs show that no
   error value is reachable. *)
From Coq Require Import List Arith Lia Bool NArith.
Import ListNotations.

Definition id_ENOMEM : N := 2%N.
Definition id_ENOENT : N := 12%N.
Definition ID_MIN_CAP : nat := 8.          (* new_cap = 8 *)
Definition ID_SMALL_MAX_LOAD : nat := 5.   (* id_max_load = 5 for the minimum table *)
Definition ID_DEFAULT_HI : N := 4294967295%N.  (* hi == 0 -> 0xffffffffu *)

Inductive id_err := IdOob | IdFuel | IdPanic | IdUnderflow.
Inductive id_res (A : Type) := IdOk (a : A) | IdErr (e : id_err).
Arguments IdOk {A} a.
Arguments IdErr {A} e.

Definition id_bind {A B} (r : id_res A) (f : A -> id_res B) : id_res B :=
  match r with IdOk a => f a | IdErr e => IdErr e end.
Notation "'do' x <- r ; k" := (id_bind r (fun x => k)) (at level 200, x name, r at level 100, k at level 200).
Notation "'do' ' p <- r ; k" := (id_bind r (fun x => match x with p => k end))
  (at level 200, p pattern, r at level 100, k at level 200).

(* struct nni_id_entry *)
Record id_entry := mkIdEntry { ie_key : N; ie_skips : nat; ie_val : option N }.
Definition ie_empty : id_entry := mkIdEntry 0%N 0 None.      (* a zeroed cell *)
Definition ie_live (e : id_entry) : bool := match ie_val e with Some _ => true | None => false end.

(* struct nni_id_map *)
Record id_map := mkIdMap {
  id_entries : list id_entry;
  id_count : nat; id_load : nat; id_min_load : nat; id_max_load : nat;
  id_static : bool; id_registered : bool; id_random : bool;
  id_min_val : N; id_max_val : N; id_dyn_val : N }.
Definition id_cap (m : id_map) : nat := length (id_entries m).

Definition set_table (m : id_map) (T : list id_entry) (count load : nat) : id_map :=
  mkIdMap T count load (id_min_load m) (id_max_load m) (id_static m) (id_registered m) (id_random m)
          (id_min_val m) (id_max_val m) (id_dyn_val m).
Definition set_dyn (m : id_map) (d : N) : id_map :=
  mkIdMap (id_entries m) (id_count m) (id_load m) (id_min_load m) (id_max_load m) (id_static m)
          (id_registered m) (id_random m) (id_min_val m) (id_max_val m) d.
Definition set_registered (m : id_map) : id_map :=
  mkIdMap (id_entries m) (id_count m) (id_load m) (id_min_load m) (id_max_load m) (id_static m)
          true (id_random m) (id_min_val m) (id_max_val m) (id_dyn_val m).

(* uint64 arithmetic *)
Definition U64 : N := 18446744073709551616%N.
Definition u64_add (a b : N) : N := ((a + b) mod U64)%N.
Definition u64_sub (a b : N) : N := ((a + U64 - b mod U64) mod U64)%N.

(* nni_id_map_init *)
Definition id_map_init (lo hi : N) (randomize : bool) : id_res id_map :=
  let lo := if (lo =? 0)%N then 1%N else lo in
  let hi := if (hi =? 0)%N then ID_DEFAULT_HI else hi in
  if negb (lo <? hi)%N then IdErr IdPanic                 (* NNI_ASSERT(hi > lo) *)
  else IdOk (mkIdMap [] 0 0 0 0 false false randomize lo hi 0%N).

(* NNI_ID_MAP_INITIALIZER(min, max, random): statically declared map *)
Definition id_map_static_init (lo hi : N) (random : bool) : id_map :=
  mkIdMap [] 0 0 0 0 true false random lo hi 0%N.

(* nni_id_map_fini *)
Definition id_map_fini (m : id_map) : id_map :=
  match id_entries m with
  | [] => m
  | _ => mkIdMap [] 0 0 0 0 (id_static m) (id_registered m) (id_random m)
                 (id_min_val m) (id_max_val m) (id_dyn_val m)
  end.

(* #define ID_NEXT(m, j) ((((j) * 5) + 1) & (m->id_cap - 1))
   #define ID_INDEX(m, j) ((j) & (m->id_cap - 1)) *)
Definition id_next (cap j : nat) : nat := Nat.land (j * 5 + 1) (cap - 1).
Definition id_index (cap : nat) (id : N) : nat := N.to_nat (N.land id (N.of_nat cap - 1)).

(* a write to one cell *)
Definition tupd (T : list id_entry) (i : nat) (e : id_entry) : list id_entry :=
  firstn i T ++ e :: skipn (S i) T.

(* id_find: for(;;) of the C with fuel; Some index / None = (size_t)-1 *)
Fixpoint find_loop (T : list id_entry) (id : N) (start index fuel : nat) : id_res (option nat) :=
  match fuel with
  | 0 => IdErr IdFuel
  | S f =>
      match nth_error T index with
      | None => IdErr IdOob
      | Some e =>
          if (ie_key e =? id)%N && ie_live e then IdOk (Some index)
          else if ie_skips e =? 0 then IdOk None
          else let index' := id_next (length T) index in
               if index' =? start then IdOk None
               else find_loop T id start index' f
      end
  end.

Definition id_find (m : id_map) (id : N) : id_res (option nat) :=
  if id_count m =? 0 then IdOk None
  else let i := id_index (id_cap m) id in find_loop (id_entries m) id i i (id_cap m).

(* nni_id_get *)
Definition id_get (m : id_map) (id : N) : id_res (option N) :=
  do r <- id_find m id;
  match r with
  | None => IdOk None
  | Some index => match nth_error (id_entries m) index with
                  | None => IdErr IdOob
                  | Some e => IdOk (ie_val e)
                  end
  end.

(* the probing store loop shared in shape by id_resize and nni_id_set:
     for (;;) { load++; if (ent->val == NULL) { [assert skips == 0;] place; break; }
                ent->skips++; index = ID_NEXT(m, index); }
   [asrt] = the NNI_ASSERT(new_entries[index].skips == 0) of id_resize. *)
Fixpoint ins_loop (T : list id_entry) (cap : nat) (key val : N) (index load fuel : nat) (asrt : bool)
  : id_res (list id_entry * nat) :=
  match fuel with
  | 0 => IdErr IdFuel
  | S f =>
      match nth_error T index with
      | None => IdErr IdOob
      | Some e =>
          let load := S load in
          match ie_val e with
          | None =>
              if asrt && negb (ie_skips e =? 0) then IdErr IdPanic
              else IdOk (tupd T index (mkIdEntry key (ie_skips e) (Some val)), load)
          | Some _ =>
              ins_loop (tupd T index (mkIdEntry (ie_key e) (S (ie_skips e)) (ie_val e))) cap key val
                       (id_next cap index) load f asrt
          end
      end
  end.

(* new_cap = 8; while (new_cap < count * 2) new_cap *= 2; *)
Fixpoint grow_cap (c target fuel : nat) : id_res nat :=
  match fuel with
  | 0 => IdErr IdFuel
  | S f => if c <? target then grow_cap (c * 2) target f else IdOk c
  end.

(* for (i = 0; i < old_cap; i++) { if (old_entries[i].val == NULL) continue; ...store... } *)
Fixpoint rehash (old : list id_entry) (T : list id_entry) (cap load : nat) : id_res (list id_entry * nat) :=
  match old with
  | [] => IdOk (T, load)
  | e :: rest =>
      match ie_val e with
      | None => rehash rest T cap load
      | Some v =>
          do '(T', load') <- ins_loop T cap (ie_key e) v (id_index cap (ie_key e)) load cap true;
          rehash rest T' cap load'
      end
  end.

(* new_cap = 8; while (new_cap < (m->id_count * 2)) new_cap *= 2; *)
Definition id_new_cap (count : nat) : id_res nat := grow_cap ID_MIN_CAP (count * 2) (S count).

(* if (new_cap > 8) { min_load = new_cap / 8; max_load = new_cap * 2 / 3; } else { min_load = 0; max_load = 5; } *)
Definition id_thresholds (new_cap : nat) : nat * nat :=
  if ID_MIN_CAP <? new_cap then (new_cap / 8, new_cap * 2 / 3) else (0, ID_SMALL_MAX_LOAD).

(* id_resize.  [fail]: the allocation of the new table, if attempted, fails. *)
Definition id_resize (m : id_map) (fail : bool) : id_res (N * id_map) :=
  if (id_load m <? id_max_load m) && (id_min_load m <=? id_load m) then IdOk (0%N, m)
  else
    let m := if id_static m then set_registered m else m in
    let old_cap := id_cap m in
    do new_cap <- id_new_cap (id_count m);
    if new_cap =? old_cap then IdOk (0%N, m)
    else if fail then IdOk (id_ENOMEM, m)
    else
      let '(minl, maxl) := id_thresholds new_cap in
      do '(T, load) <- rehash (id_entries m) (repeat ie_empty new_cap) new_cap 0;
      IdOk (0%N, mkIdMap T (id_count m) load minl maxl (id_static m) (id_registered m) (id_random m)
                         (id_min_val m) (id_max_val m) (id_dyn_val m)).

Definition id_dec (x : nat) : id_res nat :=
  match x with 0 => IdErr IdUnderflow | S x' => IdOk x' end.

(* the walk-back loop of nni_id_remove *)
Fixpoint rm_loop (T : list id_entry) (cap index probe load fuel : nat) : id_res (list id_entry * nat) :=
  match fuel with
  | 0 => IdErr IdFuel
  | S f =>
      do load' <- id_dec load;
      match nth_error T probe with
      | None => IdErr IdOob
      | Some e =>
          if probe =? index then IdOk (tupd T probe (mkIdEntry 0%N (ie_skips e) None), load')
          else match ie_skips e with
               | 0 => IdErr IdPanic                        (* NNI_ASSERT(entry->skips > 0) *)
               | S s => rm_loop (tupd T probe (mkIdEntry (ie_key e) s (ie_val e))) cap index
                                (id_next cap probe) load' f
               end
      end
  end.

(* nni_id_remove.  [fail] concerns the shrink attempt, whose result is ignored. *)
Definition id_remove (m : id_map) (id : N) (fail : bool) : id_res (N * id_map) :=
  do r <- id_find m id;
  match r with
  | None => IdOk (id_ENOENT, m)
  | Some index =>
      do '(T, load) <- rm_loop (id_entries m) (id_cap m) index (id_index (id_cap m) id) (id_load m) (id_cap m);
      do count <- id_dec (id_count m);
      do '(_, m') <- id_resize (set_table m T count load) fail;
      IdOk (0%N, m')
  end.

(* nni_id_set *)
Definition id_set (m : id_map) (id val : N) (fail : bool) : id_res (N * id_map) :=
  do '(rv, m) <- id_resize m fail;
  if negb (rv =? 0)%N then IdOk (id_ENOMEM, m)
  else
    do r <- id_find m id;
    match r with
    | Some index =>
        match nth_error (id_entries m) index with
        | None => IdErr IdOob
        | Some e => IdOk (0%N, set_table m (tupd (id_entries m) index (mkIdEntry (ie_key e) (ie_skips e) (Some val)))
                                         (id_count m) (id_load m))
        end
    | None =>
        do '(T, load) <- ins_loop (id_entries m) (id_cap m) id val (id_index (id_cap m) id) (id_load m) (id_cap m) false;
        IdOk (0%N, set_table m T (S (id_count m)) load)
    end.

(* the cursor loop of nni_id_alloc: returns (id, new id_dyn_val).
   [fixed] = false is the code as pinned: `id_dyn_val++; if (id_dyn_val > id_max_val) id_dyn_val = id_min_val;`
   -- for id_max_val = 2^64-1 the increment wraps to 0, the test is false and
   the loop goes on with ids 0, 1, ... outside the range (idmap_alloc_u64max_refuted).
   [fixed] = true adds `|| id_dyn_val == 0` to the test (the proposed repair). *)
Fixpoint alloc_loop (fixed : bool) (m : id_map) (dyn : N) (fuel : nat) : id_res (N * N) :=
  match fuel with
  | 0 => IdErr IdFuel
  | S f =>
      let id := dyn in
      let dyn1 := u64_add dyn 1 in
      let dyn2 := if (id_max_val m <? dyn1)%N || (fixed && (dyn1 =? 0)%N) then id_min_val m else dyn1 in
      do r <- id_find m id;
      match r with
      | None => IdOk (id, dyn2)
      | Some _ => alloc_loop fixed m dyn2 f
      end
  end.

(* nni_id_alloc.  [rnd] = the value nni_random() returns if it is called. *)
Definition id_alloc (fixed : bool) (m : id_map) (val rnd : N) (fail : bool) : id_res (N * option N * id_map) :=
  if (u64_sub (id_max_val m) (id_min_val m) <? N.of_nat (id_count m))%N then IdOk (id_ENOMEM, None, m)
  else
    let m := if (id_dyn_val m =? 0)%N
             then set_dyn m (if id_random m
                             then u64_add (rnd mod (u64_add (u64_sub (id_max_val m) (id_min_val m)) 1)) (id_min_val m)
                             else id_min_val m)
             else m in
    do '(id, dyn) <- alloc_loop fixed m (id_dyn_val m) (S (id_count m));
    let m := set_dyn m dyn in
    do '(rv, m') <- id_set m id val fail;
    if (rv =? 0)%N then IdOk (0%N, Some id, m') else IdOk (rv, None, m').

(* nni_id_visit: Some (key, val, new cursor) = true; None + cursor = false *)
Fixpoint visit_loop (T : list id_entry) (index fuel : nat) : id_res (option (N * N) * nat) :=
  match fuel with
  | 0 => IdErr IdFuel
  | S f =>
      if index <? length T then
        match nth_error T index with
        | None => IdErr IdOob
        | Some e => match ie_val e with
                    | Some v => IdOk (Some (ie_key e, v), S index)
                    | None => visit_loop T (S index) f
                    end
        end
      else IdOk (None, index)
  end.

Definition id_visit (m : id_map) (cursor : nat) : id_res (option (N * N) * nat) :=
  visit_loop (id_entries m) cursor (S (id_cap m)).

(* the canonical client loop: cursor = 0; while (nni_id_visit(...)) collect *)
Fixpoint visit_all_loop (m : id_map) (cursor fuel : nat) : id_res (list (N * N)) :=
  match fuel with
  | 0 => IdErr IdFuel
  | S f =>
      do '(r, c) <- id_visit m cursor;
      match r with
      | None => IdOk []
      | Some kv => do rest <- visit_all_loop m c f; IdOk (kv :: rest)
      end
  end.
Definition id_visit_all (m : id_map) : id_res (list (N * N)) := visit_all_loop m 0 (S (id_cap m)).

(* nni_id_count *)
Definition id_count_op (m : id_map) : nat := id_count m.

(* ---- operations as data, for histories ---- *)
Inductive id_op :=
| IoSet (k v : N) (fail : bool)
| IoGet (k : N)
| IoRemove (k : N) (fail : bool)
| IoAlloc (v rnd : N) (fail : bool)
| IoVisit
| IoCount.

Inductive id_out :=
| OutRv (rv : N)
| OutGet (v : option N)
| OutAlloc (rv : N) (id : option N)
| OutVisit (l : list (N * N))
| OutCount (n : nat).

Definition id_step (fixed : bool) (m : id_map) (o : id_op) : id_res (id_out * id_map) :=
  match o with
  | IoSet k v f => do '(rv, m') <- id_set m k v f; IdOk (OutRv rv, m')
  | IoGet k => do r <- id_get m k; IdOk (OutGet r, m)
  | IoRemove k f => do '(rv, m') <- id_remove m k f; IdOk (OutRv rv, m')
  | IoAlloc v rnd f => do '(rv, id, m') <- id_alloc fixed m v rnd f; IdOk (OutAlloc rv id, m')
  | IoVisit => do l <- id_visit_all m; IdOk (OutVisit l, m)
  | IoCount => IdOk (OutCount (id_count m), m)
  end.

Fixpoint id_run (fixed : bool) (m : id_map) (ops : list id_op) : id_res (list id_out * id_map) :=
  match ops with
  | [] => IdOk ([], m)
  | o :: rest =>
      do '(out, m1) <- id_step fixed m o;
      do '(outs, m2) <- id_run fixed m1 rest;
      IdOk (out :: outs, m2)
  end.
