(* ProbeOrder: the probe sequence j |-> (5j+1) mod 2^k of idhash.c (ID_NEXT) is a
   single cycle through all 2^k cells.  Stdlib only, closed under the global context.

   S(n) = sum_{i<n} 5^i; the n-th iterate from x is x + S(n)(4x+1) (mod 2^k);
   2^k | S(d)  <->  2^k | d   (S(2e) = 2 S(e) (2 S(e) + 1), S(odd) odd),
   hence iterates i < j < 2^k differ and the 2^k-th iterate is x again. *)
From Coq Require Import List Arith Lia PeanoNat ZArith ZifyNat.
Import ListNotations.

Ltac Zify.zify_post_hook ::= Z.div_mod_to_equations.

Definition nxt (cap j : nat) : nat := (j * 5 + 1) mod cap.
Fixpoint path (cap s n : nat) : nat :=
  match n with 0 => s | S n' => nxt cap (path cap s n') end.

Lemma path_succ_r cap s n : path cap s (S n) = path cap (nxt cap s) n.
Proof. induction n as [|n IH]; [reflexivity|]. cbn [path] in *. now rewrite IH. Qed.

Lemma nxt_lt cap j : 0 < cap -> nxt cap j < cap.
Proof. intros H. unfold nxt. apply Nat.mod_upper_bound. lia. Qed.

Lemma path_lt cap s n : 0 < cap -> s < cap -> path cap s n < cap.
Proof. intros H Hs. destruct n; cbn [path]; [assumption|]. now apply nxt_lt. Qed.

Fixpoint SS (n : nat) : nat := match n with 0 => 0 | S n' => 5 * SS n' + 1 end.

Lemma pow5_SS n : 5 ^ n = 4 * SS n + 1.
Proof. induction n as [|n IH]; [reflexivity|]. cbn [Nat.pow SS]. rewrite IH. ring. Qed.

Lemma SS_add i d : SS (i + d) = SS d * 5 ^ i + SS i.
Proof.
  induction i as [|i IH]; cbn [Nat.add SS Nat.pow]; [lia|]. rewrite IH. ring.
Qed.

Lemma SS_double e : SS (e + e) = 2 * (SS e * (2 * SS e + 1)).
Proof. rewrite SS_add, pow5_SS. ring. Qed.

Lemma SS_mod2 d : SS d mod 2 = d mod 2.
Proof. induction d as [|d IH]; [reflexivity|]. cbn [SS]. lia. Qed.

(* closed form of the iterates *)
Lemma path_closed cap s n : 0 < cap ->
  path cap s n mod cap = (s + SS n * (4 * s + 1)) mod cap.
Proof.
  intros Hc. induction n as [|n IH].
  - cbn [path SS]. f_equal. lia.
  - cbn [path SS]. unfold nxt. rewrite Nat.mod_mod by lia.
    rewrite <- Nat.add_mod_idemp_l by lia.
    rewrite <- Nat.mul_mod_idemp_l by lia.
    rewrite IH.
    rewrite Nat.mul_mod_idemp_l by lia.
    rewrite Nat.add_mod_idemp_l by lia.
    f_equal. lia.
Qed.

(* ---- divisibility by powers of two ---- *)
Lemma pow2_pos k : 0 < 2 ^ k.
Proof. induction k; cbn [Nat.pow]; lia. Qed.

Lemma pow2_cancel_odd k : forall a b, Nat.divide (2 ^ k) (a * (2 * b + 1)) -> Nat.divide (2 ^ k) a.
Proof.
  induction k as [|k IH]; intros a b [q Hq].
  - exists a. cbn. lia.
  - cbn [Nat.pow] in *.
    destruct (Nat.Even_or_Odd a) as [[a' Ha]|[a' Ha]]; subst a.
    + destruct (IH a' b) as [q' Hq'].
      { exists q. nia. }
      exists q'. nia.
    + exfalso. nia.
Qed.

Lemma pow2_div_SS k : forall d, Nat.divide (2 ^ k) (SS d) -> Nat.divide (2 ^ k) d.
Proof.
  induction k as [|k IH]; intros d [q Hq].
  - exists d. cbn. lia.
  - cbn [Nat.pow] in *.
    destruct (Nat.Even_or_Odd d) as [[e He]|[e He]].
    + subst d. replace (2 * e) with (e + e) in Hq by lia. rewrite SS_double in Hq.
      destruct (IH e) as [q' Hq'].
      { apply (pow2_cancel_odd k (SS e) (SS e)). exists q. nia. }
      exists q'. nia.
    + exfalso. pose proof (SS_mod2 d) as HM.
      assert (SS d mod 2 = 0) by (rewrite Hq; lia).
      assert (d mod 2 = 1) by (subst d; lia). lia.
Qed.

Lemma SS_pow2_div k : Nat.divide (2 ^ k) (SS (2 ^ k)).
Proof.
  induction k as [|k [q Hq]].
  - exists 1. reflexivity.
  - cbn [Nat.pow]. replace (2 * 2 ^ k) with (2 ^ k + 2 ^ k) by lia.
    rewrite SS_double. exists (q * (2 * SS (2 ^ k) + 1)). rewrite Hq. cbn [Nat.pow]. nia.
Qed.

Lemma mod_eq_add_divide n a x : 0 < n -> (a + x) mod n = a mod n -> Nat.divide n x.
Proof.
  intros Hn H. exists ((a + x) / n - a / n).
  pose proof (Nat.div_mod (a + x) n ltac:(lia)). pose proof (Nat.div_mod a n ltac:(lia)).
  assert (a / n <= (a + x) / n) by (apply Nat.div_le_mono; lia).
  nia.
Qed.

(* ---- the cycle ---- *)
Theorem path_inj k s i j :
  s < 2 ^ k -> i < 2 ^ k -> j < 2 ^ k -> path (2 ^ k) s i = path (2 ^ k) s j -> i = j.
Proof.
  intros Hs. revert i j.
  assert (W: forall i d, 0 < d -> i + d < 2 ^ k -> path (2 ^ k) s i = path (2 ^ k) s (i + d) -> False).
  { intros i d Hd Hlt E.
    pose proof (pow2_pos k) as Hp.
    apply (f_equal (fun x => x mod 2 ^ k)) in E.
    rewrite !path_closed in E by assumption.
    rewrite SS_add in E.
    replace (s + (SS d * 5 ^ i + SS i) * (4 * s + 1))
      with ((s + SS i * (4 * s + 1)) + SS d * (5 ^ i * (4 * s + 1))) in E by lia.
    symmetry in E. apply mod_eq_add_divide in E; [|assumption].
    assert (O: exists b, 5 ^ i * (4 * s + 1) = 2 * b + 1).
    { rewrite pow5_SS. exists (8 * SS i * s + 2 * SS i + 2 * s). lia. }
    destruct O as [b Hb]. rewrite Hb in E. apply pow2_cancel_odd in E.
    apply pow2_div_SS in E. destruct E as [q Hq]. destruct q; nia. }
  intros i j Hi Hj E.
  destruct (Nat.lt_trichotomy i j) as [L|[L|L]]; [|assumption|]; exfalso.
  - apply (W i (j - i)); try lia. now replace (i + (j - i)) with j by lia.
  - apply (W j (i - j)); try lia. now replace (j + (i - j)) with i by lia.
Qed.

Theorem path_period k s : s < 2 ^ k -> path (2 ^ k) s (2 ^ k) = s.
Proof.
  intros Hs. pose proof (pow2_pos k) as Hp.
  rewrite <- (Nat.mod_small (path (2 ^ k) s (2 ^ k)) (2 ^ k)) by (now apply path_lt).
  rewrite path_closed by assumption.
  destruct (SS_pow2_div k) as [q Hq]. rewrite Hq.
  replace (s + q * 2 ^ k * (4 * s + 1)) with (s + (q * (4 * s + 1)) * 2 ^ k) by lia.
  rewrite Nat.mod_add by lia. now apply Nat.mod_small.
Qed.

Lemma NoDup_map_inj_on {A B} (f : A -> B) (l : list A) :
  NoDup l -> (forall x y, In x l -> In y l -> f x = f y -> x = y) -> NoDup (map f l).
Proof.
  induction 1 as [|a l Hn Hd IH]; intros Hinj; cbn [map]; constructor.
  - intros Hin. apply in_map_iff in Hin. destruct Hin as (y & Hy & Hin).
    assert (y = a) by (apply Hinj; [now right|now left|assumption]). subst. contradiction.
  - apply IH. intros x y Hx Hy. apply Hinj; now right.
Qed.

(* the first 2^k probes are pairwise distinct ... *)
Theorem path_NoDup k s : s < 2 ^ k -> NoDup (map (path (2 ^ k) s) (seq 0 (2 ^ k))).
Proof.
  intros Hs. apply NoDup_map_inj_on; [apply seq_NoDup|].
  intros x y Hx Hy. apply in_seq in Hx, Hy. apply path_inj; lia.
Qed.

(* ... hence visit every cell *)
Theorem path_surj k s c : s < 2 ^ k -> c < 2 ^ k -> exists n, n < 2 ^ k /\ path (2 ^ k) s n = c.
Proof.
  intros Hs Hc.
  assert (I: incl (seq 0 (2 ^ k)) (map (path (2 ^ k) s) (seq 0 (2 ^ k)))).
  { apply NoDup_length_incl.
    - now apply path_NoDup.
    - rewrite map_length. lia.
    - intros x Hx. apply in_map_iff in Hx. destruct Hx as (n & <- & Hn).
      apply in_seq. split; [lia|]. cbn. apply path_lt; [apply pow2_pos|assumption]. }
  assert (Hin: In c (seq 0 (2 ^ k))) by (apply in_seq; lia).
  apply I in Hin. apply in_map_iff in Hin. destruct Hin as (n & E & Hn).
  apply in_seq in Hn. exists n. split; [lia|assumption].
Qed.

(* ---- distance along the probe path ---- *)
Fixpoint dist_aux (cap cur c fuel : nat) : nat :=
  match fuel with
  | 0 => 0
  | S f => if cur =? c then 0 else S (dist_aux cap (nxt cap cur) c f)
  end.
Definition dist (cap s c : nat) : nat := dist_aux cap s c cap.

Lemma dist_aux_spec cap c : forall fuel s n,
  n < fuel -> path cap s n = c ->
  let d := dist_aux cap s c fuel in
  d <= n /\ path cap s d = c /\ forall i, i < d -> path cap s i <> c.
Proof.
  induction fuel as [|f IH]; intros s n Hn E; [lia|].
  cbn [dist_aux]. destruct (s =? c) eqn:Es.
  - apply Nat.eqb_eq in Es. cbn. repeat split; [lia|assumption|lia].
  - apply Nat.eqb_neq in Es. destruct n as [|n]; [cbn in E; congruence|].
    rewrite path_succ_r in E.
    destruct (IH (nxt cap s) n ltac:(lia) E) as (H1 & H2 & H3).
    cbn zeta. repeat split; [lia| now rewrite path_succ_r |].
    intros i Hi. destruct i as [|i]; [cbn; assumption|]. rewrite path_succ_r. apply H3. lia.
Qed.

Theorem dist_spec k s c : s < 2 ^ k -> c < 2 ^ k ->
  dist (2 ^ k) s c < 2 ^ k /\ path (2 ^ k) s (dist (2 ^ k) s c) = c /\
  (forall i, i < dist (2 ^ k) s c -> path (2 ^ k) s i <> c).
Proof.
  intros Hs Hc. destruct (path_surj k s c Hs Hc) as (n & Hn & E).
  destruct (dist_aux_spec (2 ^ k) c (2 ^ k) s n Hn E) as (H1 & H2 & H3).
  unfold dist. repeat split; [lia|assumption|assumption].
Qed.

Theorem dist_unique k s n : s < 2 ^ k -> n < 2 ^ k -> dist (2 ^ k) s (path (2 ^ k) s n) = n.
Proof.
  intros Hs Hn.
  assert (Hc: path (2 ^ k) s n < 2 ^ k) by (apply path_lt; [apply pow2_pos|assumption]).
  destruct (dist_spec k s _ Hs Hc) as (H1 & H2 & _).
  apply (path_inj k s); assumption.
Qed.

(* the cells probed before reaching distance d *)
Definition pref (cap s d : nat) : list nat := map (path cap s) (seq 0 d).

Lemma pref_succ cap s d : pref cap s (S d) = s :: pref cap (nxt cap s) d.
Proof.
  unfold pref. cbn [seq map path]. f_equal. rewrite <- seq_shift, map_map.
  apply map_ext. intros a. apply path_succ_r.
Qed.

Lemma pref_In cap s d c : In c (pref cap s d) <-> exists i, i < d /\ path cap s i = c.
Proof.
  unfold pref. rewrite in_map_iff. split.
  - intros (i & E & Hi). apply in_seq in Hi. exists i. split; [lia|assumption].
  - intros (i & Hi & E). exists i. split; [assumption|apply in_seq; lia].
Qed.

Lemma pref_NoDup k s d : s < 2 ^ k -> d <= 2 ^ k -> NoDup (pref (2 ^ k) s d).
Proof.
  intros Hs Hd. unfold pref. apply NoDup_map_inj_on; [apply seq_NoDup|].
  intros x y Hx Hy. apply in_seq in Hx, Hy. apply path_inj; lia.
Qed.
