(* IdMapProps: statements only -- the id-map half of C18 ("identifiers issued by
   the library are unique among live objects, lie within their documented range
   and are not reissued before the range wraps, and nng_id_map set/get/remove/
   visit behave as a finite map").  Required by Props/Properties_C18.v.

   Reading guide.  [id_map] is the model of struct nni_id_map (IdMapModel.v, one
   Gallina function per C function of src/core/idhash.c); [fixed] selects the
   variant of the cursor wrap test of nni_id_alloc (Gen/Consts.v says which one the
   current source has: IDMAP_ALLOC_WRAP_FIXED).  [Inv fixed m] is the invariant
   (I1-I4 of DESIGN Appendix D + range/cursor well-formedness), [abs m] the
   abstract state: the association list of live (key, value) pairs, the range,
   the random flag and the cursor.  An [id_res] value IdErr _ stands for an
   out-of-bounds table access, a loop that does not stop within its bound, a
   failed NNI_ASSERT or a counter underflow: the theorems say none is reachable. *)
From Coq Require Import List Arith NArith Bool.
From NngV Require Import Gen.Consts IdMap.IdMapModel IdMap.IdMapSpec IdMap.ProbeOrder IdMap.IdMapLemmas
                         IdMap.IdMapProofs IdMap.IdMapThms.
Import ListNotations.

(* Every history of set/get/remove/alloc/visit/count operations, with any
   allocation-failure and nni_random oracle, from any state satisfying the
   invariant (in particular from nni_id_map_init / a static initializer, below)
   runs to the end without error value, keeps the invariant, and is
   observationally a history of the finite-map + cyclic-cursor specification
   IdMapSpec: same return codes (ENOENT exactly when the key is absent, ENOMEM
   only where an allocation was made to fail or the range is exhausted), same
   values, same ids, visit = the bindings each exactly once. *)
Theorem idmap_refines_map : forall fixed ops m, Inv fixed m ->
  exists outs m', id_run fixed m ops = IdOk (outs, m') /\ Inv fixed m' /\
                  id_spec_run (abs m) ops outs (abs m').
Proof. exact run_refines. Qed.
Print Assumptions idmap_refines_map.

(* ... in particular for the source as it is now *)
Theorem idmap_refines_map_current_source : forall ops m, Inv IDMAP_ALLOC_WRAP_FIXED m ->
  exists outs m', id_run IDMAP_ALLOC_WRAP_FIXED m ops = IdOk (outs, m') /\ Inv IDMAP_ALLOC_WRAP_FIXED m' /\
                  id_spec_run (abs m) ops outs (abs m').
Proof. exact (run_refines IDMAP_ALLOC_WRAP_FIXED). Qed.
Print Assumptions idmap_refines_map_current_source.

Theorem idmap_step_refines : forall fixed m o, Inv fixed m ->
  exists out m', id_step fixed m o = IdOk (out, m') /\ Inv fixed m' /\ id_spec_rel (abs m) o out (abs m').
Proof. exact step_refines. Qed.
Print Assumptions idmap_step_refines.

(* nni_id_map_init (uint64 arguments; for the unrepaired wrap test hi = 2^64-1 is excluded) *)
Theorem idmap_init_establishes_inv : forall fixed lo hi rnd m,
  (lo < U64)%N -> (hi < U64)%N -> (fixed = true \/ hi + 1 < U64)%N ->
  id_map_init lo hi rnd = IdOk m ->
  Inv fixed m /\
  abs m = mkIdSpec [] (if (lo =? 0)%N then 1%N else lo) (if (hi =? 0)%N then ID_DEFAULT_HI else hi) rnd 0%N.
Proof. exact init_inv. Qed.
Print Assumptions idmap_init_establishes_inv.

(* NNI_ID_MAP_INITIALIZER *)
Theorem idmap_static_init_inv : forall fixed lo hi rnd,
  (1 <= lo)%N -> (lo <= hi)%N -> (hi < U64)%N -> (fixed = true \/ hi + 1 < U64)%N ->
  Inv fixed (id_map_static_init lo hi rnd).
Proof. exact static_init_inv. Qed.
Print Assumptions idmap_static_init_inv.

Theorem idmap_fini_inv : forall fixed m, Inv fixed m ->
  Inv fixed (id_map_fini m) /\ abs_list (id_entries (id_map_fini m)) = [].
Proof. exact fini_inv. Qed.
Print Assumptions idmap_fini_inv.

(* nni_id_get is lookup in the abstract map *)
Theorem idmap_get_is_lookup : forall m id, MInv m -> id_get m id = IdOk (am_get (abs_list (id_entries m)) id).
Proof. exact id_get_spec. Qed.
Print Assumptions idmap_get_is_lookup.

(* cursor = 0; while (nni_id_visit(..)) ...: exactly the live keys, each once *)
Theorem idmap_visit_enumerates : forall fixed m, Inv fixed m ->
  exists l, id_visit_all m = IdOk l /\ NoDup (map fst l) /\ length l = id_count m /\
            forall k v, In (k, v) l <-> id_get m k = IdOk (Some v).
Proof. exact visit_enumerates. Qed.
Print Assumptions idmap_visit_enumerates.

(* nni_id_alloc: an id is issued only with rv = 0; it lies in [lo, hi], was not
   live, is bound to the value afterwards; it is the first id not live in cyclic
   order from the cursor (every id passed over is live) and the cursor ends just
   past it; failure is NNG_ENOMEM and happens only if the table allocation was
   made to fail or more than hi-lo keys are live. *)
Theorem idmap_alloc_fresh_in_range : forall fixed m v rnd f rv ido m',
  Inv fixed m -> id_alloc fixed m v rnd f = IdOk (rv, ido, m') ->
  let lo := id_min_val m in let hi := id_max_val m in
  let s := abs_list (id_entries m) in let start := sp_start (abs m) rnd in
  Inv fixed m' /\ (lo <= start <= hi)%N /\ id_min_val m' = lo /\ id_max_val m' = hi /\
  match ido with
  | Some id =>
      rv = 0%N /\ (lo <= id <= hi)%N /\ id_get m id = IdOk None /\ id_get m' id = IdOk (Some v) /\
      id_count m' = S (id_count m) /\
      exists n, n <= id_count m /\ id = cyc_iter lo hi n start /\
                (forall i, i < n -> am_mem s (cyc_iter lo hi i start) = true) /\
                id_dyn_val m' = cyc_iter lo hi (S n) start
  | None => rv = id_ENOMEM /\ (f = true \/ (hi - lo < N.of_nat (id_count m))%N)
  end.
Proof. exact alloc_fresh_in_range. Qed.
Print Assumptions idmap_alloc_fresh_in_range.

(* "more than hi-lo keys live" means "all hi-lo+1 ids live" when the live keys lie
   in the range (maps filled by nni_id_alloc only, as all of the library's are).
   NB nni_id_alloc counts *all* keys: after nni_id_set of keys outside [lo,hi] it
   can report exhaustion while ids of the range are free. *)
Theorem idmap_alloc_full_means_all_live : forall (s : id_amap) lo hi,
  NoDup (map fst s) -> (forall k, In k (map fst s) -> lo <= k <= hi)%N ->
  (hi - lo < N.of_nat (length s))%N -> forall id, (lo <= id <= hi)%N -> In id (map fst s).
Proof. exact full_means_all_live. Qed.
Print Assumptions idmap_alloc_full_means_all_live.

(* the cursor visits hi-lo+1 pairwise distinct ids and is then back where it
   started: between two issues of the same id the whole range has been passed *)
Theorem idmap_cursor_no_early_return : forall lo hi x i j, (lo <= hi)%N -> (lo <= x <= hi)%N ->
  i < j -> (N.of_nat j < N.of_nat i + (hi - lo + 1))%N -> cyc_iter lo hi i x <> cyc_iter lo hi j x.
Proof. exact cursor_no_early_return. Qed.
Print Assumptions idmap_cursor_no_early_return.

Theorem idmap_cursor_full_cycle : forall lo hi x, (lo <= hi)%N -> (lo <= x <= hi)%N ->
  cyc_iter lo hi (N.to_nat (hi - lo + 1)) x = x.
Proof. exact cursor_full_cycle. Qed.
Print Assumptions idmap_cursor_full_cycle.

(* ID_NEXT: j |-> (5j+1) & (cap-1) on a table of 2^k cells is one cycle through all
   cells (proved for every k, via v2(S(n)) = v2(n), S(n) = sum_{i<n} 5^i) *)
Theorem idmap_probe_full_period : forall k s, s < 2 ^ k ->
  (forall j, id_next (2 ^ k) j = nxt (2 ^ k) j) /\
  NoDup (map (path (2 ^ k) s) (seq 0 (2 ^ k))) /\
  path (2 ^ k) s (2 ^ k) = s /\
  (forall c, c < 2 ^ k -> exists n, n < 2 ^ k /\ path (2 ^ k) s n = c).
Proof. exact probe_full_period. Qed.
Print Assumptions idmap_probe_full_period.

(* the store loop of nni_id_set (entered after the resize check, key not live)
   finds a vacant cell within id_cap probes; id_find stops within id_cap probes;
   the same bound for the rehash loop is part of idmap_no_error_reachable *)
Theorem idmap_probe_terminates : forall m id v,
  MInv m -> id_count m < id_cap m -> id_get m id = IdOk None ->
  exists T' d, d < id_cap m /\
    ins_loop (id_entries m) (id_cap m) id v (id_index (id_cap m) id) (id_load m) (id_cap m) false
    = IdOk (T', id_load m + d + 1).
Proof. exact probe_terminates. Qed.
Print Assumptions idmap_probe_terminates.

Theorem idmap_find_terminates : forall m id, MInv m -> exists r, id_find m id = IdOk r.
Proof. exact find_terminates. Qed.
Print Assumptions idmap_find_terminates.

Theorem idmap_no_error_reachable : forall fixed m o, Inv fixed m -> exists r, id_step fixed m o = IdOk r.
Proof. exact no_error_reachable. Qed.
Print Assumptions idmap_no_error_reachable.

(* I1-I3 as equations on every reachable state *)
Theorem idmap_load_accounting : forall fixed m, Inv fixed m ->
  id_count m = sumf (id_cap m) (lv (id_entries m)) /\
  id_count m = length (abs_list (id_entries m)) /\
  id_load m = sumf (id_cap m) (ld (id_entries m)) /\
  (forall c e, nth_error (id_entries m) c = Some e ->
               ie_skips e = sumf (id_cap m) (cr (id_entries m) c)) /\
  (forall c e, nth_error (id_entries m) c = Some e -> ie_val e = None -> ie_key e = 0%N) /\
  id_count m <= id_load m /\ thresholds_ok m /\
  (id_cap m = 0 \/ exists k, 3 <= k /\ id_cap m = 2 ^ k).
Proof. exact load_accounting. Qed.
Print Assumptions idmap_load_accounting.

(* the clause "2*count <= cap" conjectured in DESIGN 5/C18 is false of the code *)
Theorem idmap_two_count_le_cap_refuted :
  exists outs m', id_run true (id_map_static_init 1 100 false) five_sets = IdOk (outs, m') /\
                  id_cap m' = 8 /\ id_count m' = 5.
Proof. exact two_count_le_cap_refuted. Qed.
Print Assumptions idmap_two_count_le_cap_refuted.

(* the code as pinned (before the fix: commit 1072c34) issued id 0 from the range
   [2^64-3, 2^64-1]; with the repaired wrap test the same history stays in range *)
Theorem idmap_alloc_u64max_unfixed_refuted :
  exists outs m', id_run false u64max_map u64max_ops = IdOk (outs, m') /\
                  nth 6 outs (OutRv 0%N) = OutAlloc 0%N (Some 0%N) /\ (0 < id_min_val m')%N.
Proof. exact alloc_u64max_unfixed_refuted. Qed.
Print Assumptions idmap_alloc_u64max_unfixed_refuted.

Theorem idmap_alloc_u64max_fixed_ok :
  exists outs m', id_run true u64max_map u64max_ops = IdOk (outs, m') /\
                  nth 6 outs (OutRv 0%N) = OutAlloc 0%N (Some (U64 - 3)%N).
Proof. exact alloc_u64max_fixed_ok. Qed.
Print Assumptions idmap_alloc_u64max_fixed_ok.

(* the literals of the model are those of the current source (Gen/Consts.v is
   regenerated from /repo on every run) *)
Theorem idmap_consts_match :
  ID_MIN_CAP = IDMAP_MIN_CAP /\ ID_SMALL_MAX_LOAD = IDMAP_SMALL_MAX_LOAD /\
  ID_DEFAULT_HI = IDMAP_DEFAULT_HI /\ IDMAP_DEFAULT_LO = 1%N /\
  id_ENOMEM = IDMAP_NNG_ENOMEM /\ id_ENOENT = IDMAP_NNG_ENOENT /\
  (forall cap j, id_next cap j = Nat.land (j * IDMAP_PROBE_MUL + IDMAP_PROBE_INC) (cap - 1)) /\
  (forall c, id_new_cap c = grow_cap IDMAP_MIN_CAP (c * IDMAP_COUNT_FACTOR) (S c)) /\
  (forall c t f, grow_cap c t (S f) = if c <? t then grow_cap (c * IDMAP_GROW_FACTOR) t f else IdOk c) /\
  (forall c, id_thresholds c = if IDMAP_SMALL_CAP <? c
                               then (c / IDMAP_MIN_LOAD_DIV, c * IDMAP_MAX_LOAD_MUL / IDMAP_MAX_LOAD_DIV)
                               else (IDMAP_SMALL_MIN_LOAD, IDMAP_SMALL_MAX_LOAD)).
Proof. exact consts_match. Qed.
Print Assumptions idmap_consts_match.

(* every id range the library declares (socket, ctx, dialer, listener, pipe,
   request, survey) gives a map satisfying the invariant *)
Theorem idmap_library_ranges_inv : forall fixed,
  Forall (fun r => let '(_, lo, hi, rnd, _) := r in Inv fixed (id_map_static_init lo hi rnd)) IDMAP_RANGES.
Proof. exact library_ranges_inv. Qed.
Print Assumptions idmap_library_ranges_inv.

Corollary idmap_request_ids_high_bit : forall fixed m v rnd f id m',
  Inv fixed m -> id_min_val m = IDMAP_REQ_LO -> id_max_val m = IDMAP_REQ_HI ->
  id_alloc fixed m v rnd f = IdOk (0%N, Some id, m') -> N.testbit id 31 = true /\ (id < 2 ^ 32)%N.
Proof. exact request_ids_high_bit. Qed.
Print Assumptions idmap_request_ids_high_bit.

Corollary idmap_survey_ids_high_bit : forall fixed m v rnd f id m',
  Inv fixed m -> id_min_val m = IDMAP_SURVEY_LO -> id_max_val m = IDMAP_SURVEY_HI ->
  id_alloc fixed m v rnd f = IdOk (0%N, Some id, m') -> N.testbit id 31 = true /\ (id < 2 ^ 32)%N.
Proof. exact survey_ids_high_bit. Qed.
Print Assumptions idmap_survey_ids_high_bit.

Corollary idmap_object_ids_positive_int32 : forall fixed m v rnd f id m',
  Inv fixed m ->
  (id_min_val m, id_max_val m) = (IDMAP_SOCK_LO, IDMAP_SOCK_HI) \/
  (id_min_val m, id_max_val m) = (IDMAP_CTX_LO, IDMAP_CTX_HI) \/
  (id_min_val m, id_max_val m) = (IDMAP_DIALER_LO, IDMAP_DIALER_HI) \/
  (id_min_val m, id_max_val m) = (IDMAP_LISTENER_LO, IDMAP_LISTENER_HI) \/
  (id_min_val m, id_max_val m) = (IDMAP_PIPE_LO, IDMAP_PIPE_HI) ->
  id_alloc fixed m v rnd f = IdOk (0%N, Some id, m') -> (0 < id < 2 ^ 31)%N /\ N.testbit id 31 = false.
Proof. exact object_ids_positive_int32. Qed.
Print Assumptions idmap_object_ids_positive_int32.

(* non-vacuity: a concrete non-trivial reachable state satisfies the invariant *)
Example idmap_inv_nonvacuous :
  exists outs m', id_run true (id_map_static_init 1 100 false) five_sets = IdOk (outs, m') /\
                  Inv true m' /\ id_count m' = 5.
Proof. exact inv_nonvacuous. Qed.
