(* IdMapLemmas: generic facts used by IdMapProofs -- sums over index ranges,
   single-cell table updates, association lists without duplicate keys, and the
   bit-mask forms of ID_NEXT / ID_INDEX.  Stdlib only. *)
From Coq Require Import List Arith Lia PeanoNat ZArith NArith Bool ZifyNat ZifyN.
From NngV Require Import IdMap.IdMapModel IdMap.IdMapSpec IdMap.ProbeOrder.
Import ListNotations.

Ltac Zify.zify_post_hook ::= Z.div_mod_to_equations.

(* ------------------------------------------------------------------ sums *)
Definition sumf (n : nat) (f : nat -> nat) : nat := list_sum (map f (seq 0 n)).

Lemma list_sum_app' l1 l2 : list_sum (l1 ++ l2) = list_sum l1 + list_sum l2.
Proof. apply list_sum_app. Qed.

Lemma sumf_0 f : sumf 0 f = 0.
Proof. reflexivity. Qed.

Lemma sumf_S n f : sumf (S n) f = sumf n f + f n.
Proof. unfold sumf. rewrite seq_S, map_app, list_sum_app'. cbn. lia. Qed.

Lemma sumf_ext n f g : (forall i, i < n -> f i = g i) -> sumf n f = sumf n g.
Proof.
  induction n as [|n IH]; intros H; [reflexivity|]. rewrite !sumf_S, IH, H; auto.
Qed.

Lemma sumf_ge n f p : p < n -> f p <= sumf n f.
Proof.
  induction n as [|n IH]; intros H; [lia|]. rewrite sumf_S.
  destruct (Nat.eq_dec p n) as [->|]; [lia|]. assert (p < n) by lia. specialize (IH H0). lia.
Qed.

(* two functions that differ at one point only *)
Lemma sumf_upd n f g p : p < n -> (forall i, i < n -> i <> p -> g i = f i) ->
  sumf n g + f p = sumf n f + g p.
Proof.
  induction n as [|n IH]; intros Hp H; [lia|]. rewrite !sumf_S.
  destruct (Nat.eq_dec p n) as [->|Hne].
  - rewrite (sumf_ext n g f); [lia|]. intros i Hi. apply H; lia.
  - rewrite (H n) by lia. assert (Hp': p < n) by lia.
    specialize (IH Hp' (fun i Hi => H i (Nat.lt_lt_succ_r _ _ Hi))). lia.
Qed.

Lemma sumf_zero n f : (forall i, i < n -> f i = 0) -> sumf n f = 0.
Proof.
  induction n as [|n IH]; intros H; [reflexivity|]. rewrite sumf_S, IH, H; auto.
Qed.

(* fewer ones than indices: some index carries a zero *)
Lemma sumf_vacancy n f : (forall i, i < n -> f i <= 1) -> sumf n f < n -> exists i, i < n /\ f i = 0.
Proof.
  induction n as [|n IH]; intros Hb H; [lia|]. rewrite sumf_S in H.
  destruct (f n) eqn:E.
  - exists n. split; [lia|assumption].
  - assert (f n <= 1) by (apply Hb; lia).
    destruct IH as (i & Hi & Hz); [intros; apply Hb; lia|lia|]. exists i. split; [lia|assumption].
Qed.

Lemma sumf_map_nth {A} (T : list A) (g : option A -> nat) :
  sumf (length T) (fun i => g (nth_error T i)) = list_sum (map (fun e => g (Some e)) T).
Proof.
  unfold sumf. f_equal.
  induction T as [|a T IH]; [reflexivity|].
  cbn [length seq map nth_error]. f_equal. rewrite <- seq_shift, map_map. exact IH.
Qed.

(* ---------------------------------------------------------- table updates *)
Lemma tupd_length T i e : i < length T -> length (tupd T i e) = length T.
Proof.
  intros H. unfold tupd. rewrite app_length. cbn [length]. rewrite firstn_length, skipn_length. lia.
Qed.

Lemma tupd_nth T i e j : i < length T ->
  nth_error (tupd T i e) j = if j =? i then Some e else nth_error T j.
Proof.
  intros H. unfold tupd. destruct (j =? i) eqn:E.
  - apply Nat.eqb_eq in E. subst j. rewrite nth_error_app2 by (rewrite firstn_length; lia).
    rewrite firstn_length. replace (i - Nat.min i (length T)) with 0 by lia. reflexivity.
  - apply Nat.eqb_neq in E. destruct (Nat.lt_ge_cases j i) as [L|L].
    + rewrite nth_error_app1 by (rewrite firstn_length; lia).
      rewrite <- (firstn_skipn i T) at 2. rewrite nth_error_app1 by (rewrite firstn_length; lia). reflexivity.
    + rewrite nth_error_app2 by (rewrite firstn_length; lia). rewrite firstn_length.
      replace (j - Nat.min i (length T)) with (S (j - S i)) by lia. cbn [nth_error].
      rewrite <- (firstn_skipn (S i) T) at 2.
      rewrite nth_error_app2 by (rewrite firstn_length; lia). rewrite firstn_length.
      f_equal. lia.
Qed.

Lemma nth_error_repeat {A} (x : A) n i : i < n -> nth_error (repeat x n) i = Some x.
Proof.
  revert i; induction n as [|n IH]; intros i H; [lia|]. destruct i; cbn; [reflexivity|]. apply IH. lia.
Qed.

(* ---------------------------------------------------- association lists *)
Lemma am_get_In s k v : am_get s k = Some v -> In (k, v) s.
Proof.
  induction s as [|[k' v'] s IH]; cbn; [discriminate|].
  destruct (k' =? k)%N eqn:E.
  - apply N.eqb_eq in E. intros H; inversion H; subst. now left.
  - intros H. right. auto.
Qed.

Lemma am_get_None s k : am_get s k = None <-> ~ In k (map fst s).
Proof.
  induction s as [|[k' v'] s IH]; cbn; [tauto|].
  destruct (k' =? k)%N eqn:E.
  - apply N.eqb_eq in E. subst. split; [discriminate|]. intros H. exfalso. apply H. now left.
  - apply N.eqb_neq in E. rewrite IH. tauto.
Qed.

Lemma In_am_get s k v : NoDup (map fst s) -> In (k, v) s -> am_get s k = Some v.
Proof.
  induction s as [|[k' v'] s IH]; cbn; [tauto|]. intros Hn [H|H].
  - inversion H; subst. now rewrite N.eqb_refl.
  - inversion Hn; subst. destruct (k' =? k)%N eqn:E.
    + apply N.eqb_eq in E. subst. exfalso. apply H2. apply in_map_iff. exists (k, v). auto.
    + auto.
Qed.

(* two duplicate-free lists with the same pairs have the same bindings *)
Lemma am_equiv_of_In a b : NoDup (map fst a) -> NoDup (map fst b) ->
  (forall k v, In (k, v) a <-> In (k, v) b) -> am_equiv a b.
Proof.
  intros Ha Hb H k. destruct (am_get a k) as [v|] eqn:E.
  - symmetry. apply In_am_get; [assumption|]. apply H. now apply am_get_In.
  - symmetry. apply am_get_None. apply am_get_None in E. intros Hin. apply E.
    apply in_map_iff in Hin. destruct Hin as ([k' v] & Hk & Hin). cbn in Hk. subst k'.
    apply in_map_iff. exists (k, v). split; [reflexivity|]. now apply H.
Qed.

Lemma am_remove_In s k k' v : In (k', v) (am_remove s k) <-> In (k', v) s /\ k' <> k.
Proof.
  induction s as [|[k0 v0] s IH]; cbn; [tauto|].
  destruct (k0 =? k)%N eqn:E.
  - apply N.eqb_eq in E. subst. rewrite IH. split.
    + intros [H1 H2]. auto.
    + intros [[H|H] Hne]; [inversion H; subst; congruence|auto].
  - apply N.eqb_neq in E. cbn. rewrite IH. split.
    + intros [H|[H1 H2]]; [inversion H; subst; auto|auto].
    + intros [[H|H] Hne]; auto.
Qed.

Lemma am_remove_keys s k x : In x (map fst (am_remove s k)) -> In x (map fst s) /\ x <> k.
Proof.
  intros H. apply in_map_iff in H. destruct H as ([k' v] & E & Hin). cbn in E. subst.
  apply am_remove_In in Hin. destruct Hin. split; [|assumption]. apply in_map_iff. exists (x, v). auto.
Qed.

Lemma am_remove_NoDup s k : NoDup (map fst s) -> NoDup (map fst (am_remove s k)).
Proof.
  induction s as [|[k0 v0] s IH]; cbn; [auto|]. intros H. inversion H; subst.
  destruct (k0 =? k)%N; [auto|]. cbn. constructor; [|auto].
  intros Hin. apply am_remove_keys in Hin. tauto.
Qed.

Lemma am_set_NoDup s k v : NoDup (map fst s) -> NoDup (map fst (am_set s k v)).
Proof.
  intros H. unfold am_set. cbn. constructor; [|now apply am_remove_NoDup].
  intros Hin. apply am_remove_keys in Hin. tauto.
Qed.

Lemma am_set_In s k v k' v' : In (k', v') (am_set s k v) <-> (k' = k /\ v' = v) \/ (In (k', v') s /\ k' <> k).
Proof.
  unfold am_set. cbn. rewrite am_remove_In. split.
  - intros [H|H]; [inversion H; auto|auto].
  - intros [[-> ->]|H]; auto.
Qed.

Lemma am_remove_length_mem s k : NoDup (map fst s) -> am_mem s k = true ->
  S (length (am_remove s k)) = length s.
Proof.
  unfold am_mem. induction s as [|[k0 v0] s IH]; cbn; [discriminate|]. intros Hn.
  inversion Hn; subst. destruct (k0 =? k)%N eqn:E.
  - intros _. f_equal. apply N.eqb_eq in E. subst.
    assert (G: forall s, ~ In k (map fst s) -> am_remove s k = s).
    { clear. induction s as [|[a b] s IH]; cbn; [auto|]. intros H.
      destruct (a =? k)%N eqn:E; [apply N.eqb_eq in E; subst; tauto|]. f_equal. apply IH. tauto. }
    now rewrite G.
  - intros H. cbn. f_equal. auto.
Qed.

Lemma am_remove_length_nomem s k : am_mem s k = false -> am_remove s k = s.
Proof.
  unfold am_mem. induction s as [|[k0 v0] s IH]; cbn; [auto|].
  destruct (k0 =? k)%N; [discriminate|]. intros H. f_equal. auto.
Qed.

Lemma am_mem_true_iff s k : am_mem s k = true <-> In k (map fst s).
Proof.
  unfold am_mem. destruct (am_get s k) eqn:E.
  - split; [|auto]. intros _. apply am_get_In in E. apply in_map_iff. exists (k, n). auto.
  - apply am_get_None in E. split; [discriminate|tauto].
Qed.

(* ------------------------------------------- ID_NEXT / ID_INDEX as mod *)
Lemma id_next_nxt k j : id_next (2 ^ k) j = nxt (2 ^ k) j.
Proof.
  unfold id_next, nxt. replace (2 ^ k - 1) with (Nat.ones k) by (rewrite Nat.ones_equiv; lia).
  apply Nat.land_ones.
Qed.

Lemma id_index_lt k id : id_index (2 ^ k) id < 2 ^ k.
Proof.
  unfold id_index.
  assert (E: (N.of_nat (2 ^ k) - 1 = N.ones (N.of_nat k))%N).
  { rewrite N.ones_equiv. rewrite Nat2N.inj_pow. cbn. lia. }
  rewrite E, N.land_ones.
  assert (id mod 2 ^ N.of_nat k < 2 ^ N.of_nat k)%N by (apply N.mod_lt; apply N.pow_nonzero; lia).
  assert (N.of_nat (2 ^ k) = 2 ^ N.of_nat k)%N by (rewrite Nat2N.inj_pow; reflexivity).
  lia.
Qed.
