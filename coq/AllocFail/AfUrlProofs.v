(* AfUrlProofs: nng_url_parse / nng_url_clone under every allocation oracle. *)
From Coq Require Import List Arith Lia Bool NArith Permutation.
From NngV Require Import Base.ListX Url.Utf8Model Url.CanonModel Url.UrlParseModel Url.UrlParseProofs
  AllocFail.AfBase AllocFail.AfUrl.
Import ListNotations.

(* the buffer size recorded by a successful parse is decided by the first two phases *)
Lemma url_parse_phases fx resolver raw :
  match parse_scheme (fx_scheme fx) raw with
  | UOob => url_parse fx resolver raw = UOob
  | UErr rv => url_parse fx resolver raw = UErr rv
  | UVal (sch, len) =>
      match c_strlen raw len with
      | None => url_parse fx resolver raw = UOob
      | Some slen =>
          forall u, url_parse fx resolver raw = UVal u ->
                    u_bufsz u = if (STATIC_SZ <=? slen)%nat then (slen + 1)%nat else O
      end
  end.
Proof.
  unfold url_parse. destruct (parse_scheme (fx_scheme fx) raw) as [|rv|[sch len]]; cbn [ubind]; try reflexivity.
  unfold parse_buffer. destruct (c_strlen raw len) as [slen|]; cbn [ubind ulift]; [|reflexivity].
  destruct (sub raw len (slen + 1)) as [d|]; cbn [ubind ulift]; [|discriminate].
  set (bsz := if (STATIC_SZ <=? slen)%nat then (slen + 1)%nat else O).
  assert (E: (if (STATIC_SZ <=? slen)%nat then UVal (d, (slen + 1)%nat)
              else UVal (d ++ uzeros (STATIC_SZ - (slen + 1)), O)) =
             UVal (if (STATIC_SZ <=? slen)%nat then d else d ++ uzeros (STATIC_SZ - (slen + 1)), bsz)).
  { unfold bsz. destruct (STATIC_SZ <=? slen)%nat; reflexivity. }
  rewrite E. cbn [ubind]. clear E.
  set (buf := if (STATIC_SZ <=? slen)%nat then d else d ++ uzeros (STATIC_SZ - (slen + 1))).
  intros u. destruct (is_path_only sch).
  - intros H; inversion H; reflexivity.
  - destruct (parse_authority buf) as [|?|[b3 p]]; cbn [ubind]; try discriminate.
    destruct (parse_userinfo b3) as [|?|[[b4 ui] h]]; cbn [ubind]; try discriminate.
    destruct (lower_host b4 h) as [|?|b5]; cbn [ubind]; try discriminate.
    destruct (canon_at (fx_utf8 fx) b5 p) as [|?|b6]; cbn [ubind]; try discriminate.
    destruct (parse_qf b6 p) as [|?|[[b7 q] f]]; cbn [ubind]; try discriminate.
    destruct (parse_hostport (fx_bracket fx) resolver sch b7 h) as [|?|[[b8 h'] port]]; cbn [ubind]; try discriminate.
    intros H; inversion H; reflexivity.
Qed.

Section UrlAFProofs.
  Variable SZ_URL : nat.
  Hypothesis SZ_URL_pos : 0 < SZ_URL.
  Notation owned := (url_owned SZ_URL).

  (* the repaired form: every oracle *)
  Theorem url_parse_o_clean fx resolver raw (orc : oracle) :
    let r := run (url_parse_o SZ_URL true fx resolver raw) orc in
    let t := ledger (url_parse_o SZ_URL true fx resolver raw) orc in
    ncalls t <= 2 /\
    (failed t = true -> r = URes U_ENOMEM None /\ self_balanced t) /\
    (failed t = false ->
       match url_parse fx resolver raw with
       | UVal u => r = URes 0%N (Some u) /\ balanced [] t (owned u)
       | UErr rv => r = URes rv None /\ self_balanced t
       | UOob => r = UCrash
       end).
  Proof.
    cbn zeta. unfold run, ledger, url_parse_o, bind.
    destruct (nalloc_cases SZ_URL orc) as [[Z _]|[[_ [o1 E1]]|[_ [o1 E1]]]]; [lia| |]; rewrite E1; cbn [negb].
    2:{ unfold ret. cbn [fst snd]. split; [cbn; lia|]. split; [|cbn; discriminate].
        intros _. split; [reflexivity|unfold self_balanced; cbn; constructor]. }
    pose proof (url_parse_phases fx resolver raw) as PH.
    destruct (parse_scheme (fx_scheme fx) raw) as [|rv|[sch len]].
    - unfold ret. cbn [fst snd app]. rewrite PH. split; [cbn; lia|]. split; [cbn; discriminate|auto].
    - unfold free, ret. cbn [fst snd app]. rewrite PH. split; [cbn; lia|]. split; [cbn; discriminate|].
      intros _. split; [reflexivity|unfold self_balanced; cbn; apply Permutation_refl].
    - destruct (c_strlen raw len) as [slen|].
      2:{ unfold ret. cbn [fst snd app]. rewrite PH. split; [cbn; lia|]. split; [cbn; discriminate|auto]. }
      destruct (STATIC_SZ <=? slen)%nat eqn:LONG.
      + destruct (nalloc_cases (slen + 1) o1) as [[Z _]|[[_ [o2 E2]]|[_ [o2 E2]]]]; [lia| |]; rewrite E2.
        * destruct (url_parse fx resolver raw) as [|rv|u] eqn:UP.
          -- unfold ret. cbn [fst snd app]. split; [cbn; lia|]. split; [cbn; discriminate|auto].
          -- unfold free_if, free, ret. cbn [fst snd app]. split; [cbn; lia|]. split; [cbn; discriminate|].
             intros _. split; [reflexivity|]. unfold self_balanced; cbn. apply perm_swap.
          -- unfold ret. cbn [fst snd app]. split; [cbn; lia|]. split; [cbn; discriminate|].
             intros _. split; [reflexivity|]. specialize (PH u eq_refl).
             unfold balanced, url_owned. rewrite PH. replace (slen + 1 =? 0) with false by (symmetry; apply Nat.eqb_neq; lia).
             cbn. apply Permutation_refl.
        * unfold free, ret. cbn [fst snd app]. split; [cbn; lia|]. split; [|cbn; discriminate].
          intros _. split; [reflexivity|unfold self_balanced; cbn; apply Permutation_refl].
      + destruct (url_parse fx resolver raw) as [|rv|u] eqn:UP.
        * unfold ret. cbn [fst snd app]. split; [cbn; lia|]. split; [cbn; discriminate|auto].
        * unfold free_if, free, ret. cbn [fst snd app]. split; [cbn; lia|]. split; [cbn; discriminate|].
          intros _. split; [reflexivity|unfold self_balanced; cbn; apply Permutation_refl].
        * unfold ret. cbn [fst snd app]. split; [cbn; lia|]. split; [cbn; discriminate|].
          intros _. split; [reflexivity|]. specialize (PH u eq_refl).
          unfold balanced, url_owned. rewrite PH. cbn. apply Permutation_refl.
  Qed.

  (* the code as pinned: a URL of 128 bytes or more after the scheme, the struct granted,
     the copy refused => a NULL pointer is dereferenced *)
  Definition long_raw : list N :=
    ([116; 99; 112; 58; 47; 47] ++ repeat 97 140 ++ [0])%N.     (* "tcp://" "a" x 140 *)

  Theorem url_parse_strdup_unchecked_refuted :
    run (url_parse_o SZ_URL false fx_repaired (fun _ => None) long_raw) [true; false] = UCrash.
  Proof.
    unfold run, url_parse_o, bind. unfold nalloc at 1.
    destruct (SZ_URL =? 0) eqn:Z; [apply Nat.eqb_eq in Z; lia|].
    cbn [alloc negb fst snd]. vm_compute. reflexivity.
  Qed.

  Theorem url_parse_strdup_checked_same_input :
    run (url_parse_o SZ_URL true fx_repaired (fun _ => None) long_raw) [true; false] = URes U_ENOMEM None.
  Proof.
    unfold run, url_parse_o, bind. unfold nalloc at 1.
    destruct (SZ_URL =? 0) eqn:Z; [apply Nat.eqb_eq in Z; lia|].
    cbn [alloc negb fst snd]. vm_compute. reflexivity.
  Qed.

  (* ---- nng_url_clone ---- *)
  Theorem url_clone_o_clean u (orc : oracle) : buf_ok u ->
    let r := run (url_clone_o SZ_URL true u) orc in
    let t := ledger (url_clone_o SZ_URL true u) orc in
    ncalls t <= 2 /\
    (failed t = true -> r = URes U_ENOMEM None /\ self_balanced t) /\
    (failed t = false -> r = URes 0%N (Some u) /\ balanced [] t (owned u)).
  Proof.
    intros BO. cbn zeta. unfold run, ledger, url_clone_o, bind. rewrite (url_clone_equal u BO).
    destruct (nalloc_cases SZ_URL orc) as [[Z _]|[[_ [o1 E1]]|[_ [o1 E1]]]]; [lia| |]; rewrite E1; cbn [negb].
    2:{ unfold ret. cbn [fst snd]. split; [cbn; lia|]. split; [|cbn; discriminate].
        intros _. split; [reflexivity|unfold self_balanced; cbn; constructor]. }
    destruct (u_bufsz u =? 0) eqn:Z0.
    - unfold ret. cbn [fst snd app]. split; [cbn; lia|]. split; [cbn; discriminate|].
      intros _. split; [reflexivity|]. unfold balanced, url_owned. rewrite Z0. cbn. apply Permutation_refl.
    - apply Nat.eqb_neq in Z0.
      destruct (nalloc_cases (u_bufsz u) o1) as [[Z _]|[[_ [o2 E2]]|[_ [o2 E2]]]]; [lia| |]; rewrite E2.
      + unfold ret. cbn [fst snd app]. split; [cbn; lia|]. split; [cbn; discriminate|].
        intros _. split; [reflexivity|]. unfold balanced, url_owned.
        replace (u_bufsz u =? 0) with false by (symmetry; now apply Nat.eqb_neq). cbn. apply Permutation_refl.
      + unfold free, ret. cbn [fst snd app]. split; [cbn; lia|]. split; [|cbn; discriminate].
        intros _. split; [reflexivity|unfold self_balanced; cbn; apply Permutation_refl].
  Qed.

  Theorem url_free_o_balanced u (orc : oracle) :
    balanced (owned u) (ledger (url_free_o SZ_URL u) orc) [] /\ ncalls (ledger (url_free_o SZ_URL u) orc) = 0.
  Proof.
    unfold ledger, url_free_o, bind, free_if, free, ret, balanced, url_owned.
    destruct (u_bufsz u =? 0); cbn; split; auto. apply perm_swap.
  Qed.
End UrlAFProofs.
