(* AfBase: the allocation oracle and the allocation ledger of C20 (DESIGN 4.2, 5/C20).
   Definitions and their algebra only.

   An oracle is the list of booleans "the k-th allocation succeeds" (true), consumed
   one entry per call of the pluggable allocator; an exhausted oracle succeeds.
   Every wrapper of coq/AllocFail runs in the monad
        M A = oracle -> A * oracle * list aev
   whose third component is the *ledger* of the call: the sizes allocated, the sizes
   whose allocation was refused, and the sizes freed, in program order.  The ledger is
   what harness/wb_allocfail.c records in its accounting allocator, so that allocation
   counts, sizes and failure positions are part of the white-box comparison.

   nni_alloc(0) / nni_zalloc(0) return NULL *without* calling the allocator
   (src/platform/posix/posix_alloc.c): [nalloc 0] consumes nothing and fails. *)
From Coq Require Import List Arith Lia Bool Permutation.
Import ListNotations.

Definition oracle := list bool.

Inductive aev := AAlloc (sz : nat) | AFail (sz : nat) | AFree (sz : nat).

Definition M (A : Type) : Type := oracle -> A * oracle * list aev.

Definition ret {A} (a : A) : M A := fun o => (a, o, []).
Definition bind {A B} (m : M A) (f : A -> M B) : M B :=
  fun o => let '(a, o1, t1) := m o in
           let '(b, o2, t2) := f a o1 in (b, o2, t1 ++ t2).
Notation "x <-- m ;; k" := (bind m (fun x => k)) (at level 61, m at next level, right associativity).

(* one call of the allocator *)
Definition alloc (sz : nat) : M bool :=
  fun o => match o with
           | [] => (true, [], [AAlloc sz])
           | true :: r => (true, r, [AAlloc sz])
           | false :: r => (false, r, [AFail sz])
           end.
(* nni_alloc / nni_zalloc *)
Definition nalloc (sz : nat) : M bool := if sz =? 0 then ret false else alloc sz.
(* nni_free(p, sz) of a non-NULL block; freeing NULL is no event *)
Definition free (sz : nat) : M unit := fun o => (tt, o, [AFree sz]).
Definition free_if (b : bool) (sz : nat) : M unit := if b then free sz else ret tt.

Definition run {A} (m : M A) (o : oracle) : A := fst (fst (m o)).
Definition ledger {A} (m : M A) (o : oracle) : list aev := snd (m o).
Definition rest {A} (m : M A) (o : oracle) : oracle := snd (fst (m o)).

(* the three projections of a ledger *)
Fixpoint allocs (t : list aev) : list nat :=
  match t with [] => [] | AAlloc s :: r => s :: allocs r | _ :: r => allocs r end.
Fixpoint frees (t : list aev) : list nat :=
  match t with [] => [] | AFree s :: r => s :: frees r | _ :: r => frees r end.
Fixpoint nfails (t : list aev) : nat :=
  match t with [] => 0 | AFail _ :: r => S (nfails r) | _ :: r => nfails r end.
Definition failed (t : list aev) : bool := negb (nfails t =? 0).
(* number of calls of the allocator (what the harness counts) *)
Fixpoint ncalls (t : list aev) : nat :=
  match t with [] => 0 | AFree _ :: r => ncalls r | _ :: r => S (ncalls r) end.

(* The call moved the object from owning the blocks [before] to owning [after]:
   everything it allocated is either owned afterwards or was freed by it, and
   everything it freed was owned before or allocated by it. *)
Definition balanced (before : list nat) (t : list aev) (after : list nat) : Prop :=
  Permutation (allocs t ++ before) (frees t ++ after).
(* no leak by a call that leaves the object as it was *)
Definition self_balanced (t : list aev) : Prop := Permutation (allocs t) (frees t).

Lemma allocs_app a b : allocs (a ++ b) = allocs a ++ allocs b.
Proof. induction a as [|[]]; cbn; congruence. Qed.
Lemma frees_app a b : frees (a ++ b) = frees a ++ frees b.
Proof. induction a as [|[]]; cbn; congruence. Qed.
Lemma nfails_app a b : nfails (a ++ b) = nfails a + nfails b.
Proof. induction a as [|[]]; cbn; congruence. Qed.
Lemma ncalls_app a b : ncalls (a ++ b) = ncalls a + ncalls b.
Proof. induction a as [|[]]; cbn; congruence. Qed.

Lemma balanced_same own t : balanced own t own <-> self_balanced t.
Proof.
  unfold balanced, self_balanced. split; intros H.
  - now apply Permutation_app_inv_r in H.
  - now apply Permutation_app_tail.
Qed.

Lemma balanced_nil own : balanced own [] own.
Proof. unfold balanced. cbn. apply Permutation_refl. Qed.

(* composition: ledgers of consecutive calls add up *)
Lemma balanced_trans a t1 b t2 c : balanced a t1 b -> balanced b t2 c -> balanced a (t1 ++ t2) c.
Proof.
  unfold balanced. intros H1 H2. rewrite allocs_app, frees_app.
  (* allocs t1 ++ allocs t2 ++ a  ~  allocs t2 ++ (allocs t1 ++ a) ~ allocs t2 ++ frees t1 ++ b
     ~ frees t1 ++ (allocs t2 ++ b) ~ frees t1 ++ frees t2 ++ c *)
  eapply Permutation_trans.
  { rewrite <- app_assoc. apply Permutation_app_swap_app. }
  eapply Permutation_trans.
  { apply Permutation_app_head. exact H1. }
  eapply Permutation_trans.
  { apply Permutation_app_swap_app. }
  rewrite <- app_assoc. apply Permutation_app_head. exact H2.
Qed.

(* a frame of blocks owned by other objects is untouched *)
Lemma balanced_frame a t b f : balanced a t b -> balanced (a ++ f) t (b ++ f).
Proof.
  unfold balanced. intros H. rewrite !app_assoc. now apply Permutation_app_tail.
Qed.

(* evaluation lemmas for the primitives *)
Lemma alloc_nil sz : alloc sz [] = (true, [], [AAlloc sz]).
Proof. reflexivity. Qed.
Lemma alloc_true sz r : alloc sz (true :: r) = (true, r, [AAlloc sz]).
Proof. reflexivity. Qed.
Lemma alloc_false sz r : alloc sz (false :: r) = (false, r, [AFail sz]).
Proof. reflexivity. Qed.

(* what one call of the allocator can do *)
Lemma alloc_cases sz o :
  (exists o', alloc sz o = (true, o', [AAlloc sz])) \/ (exists o', alloc sz o = (false, o', [AFail sz])).
Proof. destruct o as [|[] r]; cbn; eauto. Qed.

Lemma nalloc_cases sz o :
  (sz = 0 /\ nalloc sz o = (false, o, [])) \/
  (sz <> 0 /\ exists o', nalloc sz o = (true, o', [AAlloc sz])) \/
  (sz <> 0 /\ exists o', nalloc sz o = (false, o', [AFail sz])).
Proof.
  unfold nalloc. destruct sz as [|n].
  - left. split; reflexivity.
  - right. cbn [Nat.eqb]. destruct (alloc_cases (S n) o) as [[o' H]|[o' H]]; [left|right]; split; eauto.
Qed.

(* an oracle that never refuses *)
Definition all_true (o : oracle) : Prop := Forall (fun b => b = true) o.
Lemma alloc_all_true sz o : all_true o -> exists o', alloc sz o = (true, o', [AAlloc sz]) /\ all_true o'.
Proof.
  intros H. destruct o as [|b r]; cbn.
  - eexists; split; [reflexivity|constructor].
  - inversion H; subst. eexists; split; [reflexivity|assumption].
Qed.
