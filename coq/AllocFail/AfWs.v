(* AfWs: the lock structure of ws_read_finish_msg (src/supplemental/websocket/websocket.c)
   when its nni_msg_alloc is refused.  Definitions only.

   ws_read_finish_msg runs with ws->mtx HELD (it is called from ws_read_frame_cb, i.e.
   from ws_read_cb, and from ws_str_recv, both inside the lock).  Once a complete
   message is queued and a receiver waits it allocates the message:

       if ((rv = nni_msg_alloc(&msg, len)) != 0) {
               nni_aio_finish_error(aio, rv);
               ws_close_error(ws, WS_CLOSE_INTERNAL);     // pinned tree
               return;
       }

   and ws_close_error is { nni_mtx_lock(&ws->mtx); ws_close(ws, code); nni_mtx_unlock }:
   the thread locks a mutex it already holds.  nng's mutexes are not recursive: a
   self-deadlock (with NNG's debug error-checking mutexes: "pthread_mutex_lock:
   Resource deadlock avoided", a panic).  [relock_fixed] = the repaired form calls
   ws_close(ws, WS_CLOSE_INTERNAL) directly.

   A mutex is modelled as what it is here: one bit; locking a held mutex is the
   observable event WDeadlock.  Frames own a struct and, for payloads of 126 bytes
   or more, a separate data block (ws_read_cb: "Short frames can avoid an alloc"). *)
From Coq Require Import List Arith Bool NArith.
From NngV Require Import Base.ListX Base.Bytes Msg.MsgModel AllocFail.AfBase AllocFail.AfMsg.
Import ListNotations.

Definition WS_ECLOSED : N := 7%N.
Definition WS_CLOSE_INTERNAL : N := 1011%N.

Record ws := mkWs {
  w_held : bool;              (* ws->mtx is held by the running thread *)
  w_inmsg : bool;             (* a fragmented message is still incomplete *)
  w_rxq : list nat;           (* payload lengths of the queued frames *)
  w_recvq : list N;           (* waiting receive aios, oldest first *)
  w_closed : bool }.

Inductive wout :=
| WFinish (a : N) (rv : N) (len : nat)     (* completion of a receive aio *)
| WSendClose (code : N)                    (* ws_send_close: the connection is being closed *)
| WDeadlock.                               (* nni_mtx_lock on a mutex this thread holds *)

Section WsAF.
  Variable SZ_MSG : nat.
  Variable SZ_FRAME : nat.    (* sizeof (ws_frame) *)

  Definition frame_blocks (len : nat) : list nat := SZ_FRAME :: (if len <? 126 then [] else [len]).
  Definition ws_owned (w : ws) : list nat := flat_map frame_blocks (w_rxq w).

  (* ws_frame_fini of every queued frame *)
  Fixpoint free_frames (l : list nat) : M unit :=
    match l with
    | [] => ret tt
    | len :: r => _ <-- free_if (negb (len <? 126)) len ;; _ <-- free SZ_FRAME ;; free_frames r
    end.

  (* ws_close: the caller holds ws->mtx *)
  Definition ws_close (w : ws) (code : N) : ws * list wout :=
    (mkWs (w_held w) (w_inmsg w) (w_rxq w) [] true,
     map (fun a => WFinish a WS_ECLOSED 0) (w_recvq w) ++ (if w_closed w then [] else [WSendClose code])).

  (* ws_close_error: takes the lock itself *)
  Definition ws_close_error (w : ws) (code : N) : ws * list wout :=
    if w_held w then (w, [WDeadlock])
    else let '(w', o) := ws_close (mkWs true (w_inmsg w) (w_rxq w) (w_recvq w) (w_closed w)) code in
         (mkWs false (w_inmsg w') (w_rxq w') (w_recvq w') (w_closed w'), o).

  Definition ws_read_finish_msg_o (relock_fixed : bool) (w : ws) : M (ws * list wout * option msg) :=
    match w_recvq w with
    | [] => ret (w, [], None)
    | a :: rest =>
        if w_inmsg w || (match w_rxq w with [] => true | _ => false end) then ret (w, [], None)
        else
          let len := list_sum (w_rxq w) in
          r <-- msg_alloc_o SZ_MSG len ;;
          match r with
          | Some (0%N, Some m) =>
              _ <-- free_frames (w_rxq w) ;;
              ret (mkWs (w_held w) false [] rest (w_closed w), [WFinish a 0%N len], Some m)
          | Some (rv, _) =>
              (* nni_aio_list_remove(aio); nni_aio_finish_error(aio, rv); then the close *)
              let w1 := mkWs (w_held w) (w_inmsg w) (w_rxq w) rest (w_closed w) in
              let '(w2, o) := if relock_fixed then ws_close w1 WS_CLOSE_INTERNAL
                              else ws_close_error w1 WS_CLOSE_INTERNAL in
              ret (w2, WFinish a rv 0 :: o, None)
          | None => ret (w, [], None)
          end
    end.
End WsAF.
