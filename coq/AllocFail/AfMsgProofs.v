(* AfMsgProofs: message.c under every allocation oracle. *)
From Coq Require Import List Arith Lia Bool NArith Permutation.
From NngV Require Import Base.ListX Base.Bytes Msg.MsgModel Msg.MsgSpec Msg.MsgProofs
  AllocFail.AfBase AllocFail.AfMsg.
Import ListNotations.

(* ---------------------------------------------------------------- nni_chunk_grow *)
Lemma grow_none_irrelevant c n h :
  grow_allocsz c n h = None -> chunk_grow c n h true = chunk_grow c n h false.
Proof.
  unfold grow_allocsz, chunk_grow. destruct (ptr_inside c) as [hr|].
  - destruct (_ && _); [reflexivity|discriminate].
  - destruct (ch_cap c <=? _); [discriminate|reflexivity].
Qed.

Lemma grow_some_fail c n h a :
  grow_allocsz c n h = Some a -> chunk_grow c n h true = Some (ENOMEM, c).
Proof.
  unfold grow_allocsz, chunk_grow. destruct (ptr_inside c) as [hr|].
  - destruct (_ && _); [discriminate|reflexivity].
  - destruct (ch_cap c <=? _); [reflexivity|discriminate].
Qed.

Lemma grow_cap c n h rv c' :
  chunk_grow c n h false = Some (rv, c') ->
  rv = 0%N /\ ch_cap c' = match grow_allocsz c n h with Some a => a | None => ch_cap c end.
Proof.
  unfold grow_allocsz, chunk_grow. destruct (ptr_inside c) as [hr|].
  - destruct (_ && _).
    + intros H; inversion H; subst; auto.
    + destruct (sub _ _ _) as [d|]; [|discriminate].
      destruct (blit _ _ _) as [nb|] eqn:B; [|discriminate].
      intros H; inversion H; subst. split; [reflexivity|].
      apply blit_length in B as [B _]. unfold ch_cap; cbn [ch_buf]. rewrite B. apply zeros_length.
  - destruct (ch_cap c <=? _); intros H; inversion H; subst; split; try reflexivity.
    unfold ch_cap; cbn [ch_buf]. apply zeros_length.
Qed.

Lemma grow_allocsz_ge c n h a : CInv c -> grow_allocsz c n h = Some a -> ch_cap c <= a /\ 0 < a.
Proof.
  intros (off & Hp & Hlt & Hle). unfold grow_allocsz.
  rewrite (ptr_inside_inv _ _ Hp Hlt).
  destruct (_ && _) eqn:E; [discriminate|]. intros H; inversion H; subst. lia.
Qed.

(* ---------------------------------------------------------------- append / insert *)
Lemma append_none_irrelevant c d n :
  append_allocsz c n = None -> chunk_append c d n true = chunk_append c d n false.
Proof.
  unfold append_allocsz, chunk_append. destruct (n =? 0); [reflexivity|].
  intros H. now rewrite (grow_none_irrelevant _ _ _ H).
Qed.

Lemma append_some_fail c d n a :
  append_allocsz c n = Some a -> chunk_append c d n true = Some (ENOMEM, c).
Proof.
  unfold append_allocsz, chunk_append. destruct (n =? 0); [discriminate|].
  intros H. now rewrite (grow_some_fail _ _ _ _ H).
Qed.

Lemma append_cap c d n rv c' :
  chunk_append c d n false = Some (rv, c') ->
  rv = 0%N /\ ch_cap c' = match append_allocsz c n with Some a => a | None => ch_cap c end.
Proof.
  unfold append_allocsz, chunk_append. destruct (n =? 0).
  - intros H; inversion H; subst; auto.
  - destruct (chunk_grow c (n + ch_len c) 0 false) as [[rv1 c1]|] eqn:G; [|discriminate].
    apply grow_cap in G as [-> G]. cbn [N.eqb negb].
    destruct d as [d|].
    + destruct (blit _ _ _) as [nb|] eqn:B; [|discriminate]. intros H; inversion H; subst.
      apply blit_length in B as [B _]. split; [reflexivity|]. unfold ch_cap in *; cbn [ch_buf]. now rewrite B.
    + destruct (_ <=? _); [|discriminate]. intros H; inversion H; subst. split; [reflexivity|exact G].
Qed.

Lemma insert_none_irrelevant fx c d :
  insert_allocsz c (length d) = None -> chunk_insert fx c d true = chunk_insert fx c d false.
Proof.
  unfold insert_allocsz, chunk_insert.
  set (off0 := match ch_ptr c with Some o => o | None => 0 end).
  destruct (off0 <? ch_cap c).
  - destruct (length d <=? off0); [reflexivity|].
    destruct (ch_len c + length d + 8 <=? ch_cap c); [reflexivity|].
    intros H. now rewrite (grow_none_irrelevant _ _ _ H).
  - intros H. now rewrite (grow_none_irrelevant _ _ _ H).
Qed.

Lemma insert_some_fail fx c d a :
  insert_allocsz c (length d) = Some a ->
  chunk_insert fx c d true =
    Some (ENOMEM, mkChunk (ch_buf c) (ch_len c) (Some (match ch_ptr c with Some o => o | None => 0 end))).
Proof.
  unfold insert_allocsz, chunk_insert.
  set (off0 := match ch_ptr c with Some o => o | None => 0 end).
  destruct (off0 <? ch_cap c).
  - destruct (length d <=? off0); [discriminate|].
    destruct (ch_len c + length d + 8 <=? ch_cap c); [discriminate|].
    intros H. now rewrite (grow_some_fail _ _ _ _ H).
  - intros H. now rewrite (grow_some_fail _ _ _ _ H).
Qed.

Lemma insert_finish_cap (c2 : chunk) o (d : list byte) rv c' :
  match blit (ch_buf c2) o d with
  | None => None
  | Some nb => Some (0%N, mkChunk nb (ch_len c2 + length d) (Some o))
  end = Some (rv, c') -> rv = 0%N /\ ch_cap c' = ch_cap c2.
Proof.
  destruct (blit _ _ _) as [nb|] eqn:B; [|discriminate]. intros H; inversion H; subst.
  apply blit_length in B as [B _]. split; [reflexivity|]. unfold ch_cap; cbn [ch_buf]. exact B.
Qed.

Lemma insert_cap fx c d rv c' :
  chunk_insert fx c d false = Some (rv, c') ->
  rv = 0%N /\ ch_cap c' = match insert_allocsz c (length d) with Some a => a | None => ch_cap c end.
Proof.
  unfold insert_allocsz, chunk_insert.
  set (off0 := match ch_ptr c with Some o => o | None => 0 end).
  set (c0 := mkChunk (ch_buf c) (ch_len c) (Some off0)).
  assert (GR: forall rv c',
    match chunk_grow c0 0 (length d) false with
    | None => None
    | Some (rv, c1) =>
        if negb (rv =? 0)%N then Some (rv, c1) else
        match ch_ptr c1 with
        | Some o => if length d <=? o
                    then match blit (ch_buf c1) (o - length d) d with
                         | None => None
                         | Some nb => Some (0%N, mkChunk nb (ch_len c1 + length d) (Some (o - length d)))
                         end
                    else None
        | None => None
        end
    end = Some (rv, c') ->
    rv = 0%N /\ ch_cap c' = match grow_allocsz c0 0 (length d) with Some a => a | None => ch_cap c end).
  { intros rv0 c0'. destruct (chunk_grow c0 0 (length d) false) as [[rv1 c1]|] eqn:G; [|discriminate].
    apply grow_cap in G as [-> G]. cbn [N.eqb negb].
    destruct (ch_ptr c1) as [o|]; [|discriminate]. destruct (length d <=? o); [|discriminate].
    intros H. apply insert_finish_cap in H as [-> H]. split; [reflexivity|]. rewrite H, G. reflexivity. }
  destruct (off0 <? ch_cap c).
  - destruct (length d <=? off0).
    + apply insert_finish_cap.
    + replace (ch_len c + length d + 8 <=? ch_cap c) with (ch_len c + length d + 8 <=? ch_cap c) by reflexivity.
      destruct (ch_len c + length d + 8 <=? ch_cap c).
      * destruct (sub _ _ _) as [old|]; [|discriminate].
        destruct (blit (ch_buf c) _ old) as [nb|] eqn:B; [|discriminate].
        intros H. apply insert_finish_cap in H as [-> H]. split; [reflexivity|].
        rewrite H. unfold ch_cap; cbn [ch_buf]. apply blit_length in B as [B _]. exact B.
      * apply GR.
  - apply GR.
Qed.

Lemma insert_allocsz_ge c n a : CInv c -> insert_allocsz c n = Some a -> ch_cap c <= a /\ 0 < a.
Proof.
  intros (off & Hp & Hlt & Hle). unfold insert_allocsz. rewrite Hp.
  assert (HI: CInv (mkChunk (ch_buf c) (ch_len c) (Some off))) by (exists off; auto).
  assert (G: forall a, grow_allocsz (mkChunk (ch_buf c) (ch_len c) (Some off)) 0 n = Some a -> ch_cap c <= a /\ 0 < a).
  { intros a0 H. apply (grow_allocsz_ge _ _ _ _ HI) in H. exact H. }
  destruct (off <? ch_cap c).
  - destruct (n <=? off); [discriminate|]. destruct (_ <=? _); [discriminate|]. apply G.
  - apply G.
Qed.

Lemma append_allocsz_ge c n a : CInv c -> append_allocsz c n = Some a -> ch_cap c <= a /\ 0 < a.
Proof.
  intros HI. unfold append_allocsz. destruct (n =? 0); [discriminate|]. now apply grow_allocsz_ge.
Qed.

(* ---------------------------------------------------------------- one public operation *)
Lemma same_body m : mkMsg (m_hdr m) (m_body m) = m.
Proof. now destruct m. Qed.

Lemma step_none_irrelevant fx m o :
  step_allocsz m o = None -> msg_step fx m o true = msg_step fx m o false.
Proof.
  destruct o; cbn [step_allocsz msg_step]; try reflexivity; intros H.
  - now rewrite (append_none_irrelevant _ _ _ H).
  - now rewrite (insert_none_irrelevant _ _ _ H).
  - destruct (ch_len (m_body m) <? n); [|reflexivity]. now rewrite (append_none_irrelevant _ _ _ H).
  - now rewrite (grow_none_irrelevant _ _ _ H).
  - now rewrite (append_none_irrelevant _ _ _ H).
  - now rewrite (insert_none_irrelevant _ _ _ H).
Qed.

Lemma step_some_fail fx m o a :
  Inv m -> step_allocsz m o = Some a -> msg_step fx m o true = Some (ENOMEM, None, m).
Proof.
  intros [(off & Hp & Hlt & Hle) _].
  assert (HB: mkChunk (ch_buf (m_body m)) (ch_len (m_body m)) (Some off) = m_body m).
  { destruct (m_body m) as [b l p]; cbn in *. now subst. }
  destruct o; cbn [step_allocsz msg_step]; try discriminate; intros H.
  - rewrite (append_some_fail _ _ _ _ H). cbn. now rewrite same_body.
  - rewrite (insert_some_fail _ _ _ _ H), Hp, HB. cbn. now rewrite same_body.
  - destruct (ch_len (m_body m) <? n); [|discriminate].
    rewrite (append_some_fail _ _ _ _ H). cbn. now rewrite same_body.
  - rewrite (grow_some_fail _ _ _ _ H). cbn. now rewrite same_body.
  - rewrite (append_some_fail _ _ _ _ H). cbn. now rewrite same_body.
  - rewrite (insert_some_fail _ _ _ _ H), Hp, HB. cbn. now rewrite same_body.
Qed.

Lemma step_allocsz_ge m o a : Inv m -> step_allocsz m o = Some a -> ch_cap (m_body m) <= a /\ 0 < a.
Proof.
  intros [HC _]. destruct o; cbn [step_allocsz]; try discriminate; intros H.
  - eapply append_allocsz_ge; eauto.
  - eapply insert_allocsz_ge; eauto.
  - destruct (_ <? _); [|discriminate]. eapply append_allocsz_ge; eauto.
  - eapply grow_allocsz_ge; eauto.
  - eapply append_allocsz_ge; eauto.
  - eapply insert_allocsz_ge; eauto.
Qed.

(* the capacity (= size of the backing store) after a step that was not refused memory *)
Lemma step_cap fx m o rv v m' :
  msg_step fx m o false = Some (rv, v, m') ->
  ch_cap (m_body m') = match step_allocsz m o with Some a => a | None => ch_cap (m_body m) end.
Proof.
  assert (WB: forall r rv v m', with_body m r = Some (rv, v, m') ->
              exists c, r = Some (rv, c) /\ m_body m' = c).
  { intros r rv0 v0 m0 H. apply with_body_inv in H as (c & -> & _ & ->). eauto. }
  assert (TR: forall c n, ch_cap (snd (chunk_trim c n)) = ch_cap c).
  { intros c n. unfold chunk_trim. destruct (_ <? _); reflexivity. }
  assert (CH: forall c n, ch_cap (snd (chunk_chop c n)) = ch_cap c).
  { intros c n. unfold chunk_chop. destruct (_ <? _); reflexivity. }
  assert (HA: forall d, m_body (snd (hdr_append m d)) = m_body m).
  { intros d. unfold hdr_append. destruct (_ <? _); reflexivity. }
  assert (HIN: forall d, m_body (snd (hdr_insert m d)) = m_body m).
  { intros d. unfold hdr_insert. destruct (_ <? _); reflexivity. }
  destruct o; cbn [step_allocsz msg_step]; intros H.
  - (* Append *) apply WB in H as (c & H & ->). now apply append_cap in H as [_ H].
  - (* Insert *) apply WB in H as (c & H & ->). now apply insert_cap in H as [_ H].
  - (* Trim *) inversion H; subst. cbn [m_body]. apply TR.
  - (* Chop *) inversion H; subst. cbn [m_body]. apply CH.
  - (* HAppend *) inversion H; subst. now rewrite HA.
  - (* HInsert *) inversion H; subst. now rewrite HIN.
  - (* HTrim *) destruct (length (m_hdr m) <? n); inversion H; subst; reflexivity.
  - (* HChop *) destruct (length (m_hdr m) <? n); inversion H; subst; reflexivity.
  - (* Realloc *) destruct (ch_len (m_body m) <? n).
    + apply WB in H as (c & H & ->). now apply append_cap in H as [_ H].
    + inversion H; subst. cbn [m_body snd]. apply CH.
  - (* Reserve *) apply WB in H as (c & H & ->). now apply grow_cap in H as [_ H].
  - (* Clear *) inversion H; subst. reflexivity.
  - (* HClear *) inversion H; subst. reflexivity.
  - (* AppendU *) apply WB in H as (c & H & ->). now apply append_cap in H as [_ H].
  - (* InsertU *) apply WB in H as (c & H & ->). now apply insert_cap in H as [_ H].
  - (* TrimU *) destruct (msg_len m <? k); [inversion H; subst; reflexivity|].
    destruct (msg_body m); [|discriminate]. inversion H; subst. cbn [m_body]. apply TR.
  - (* ChopU *) destruct (msg_len m <? k); [inversion H; subst; reflexivity|].
    destruct (msg_body m); [|discriminate]. inversion H; subst. cbn [m_body]. apply CH.
  - (* HAppendU *) inversion H; subst. now rewrite HA.
  - (* HInsertU *) inversion H; subst. now rewrite HIN.
  - (* HTrimU *) destruct (length (m_hdr m) <? k); inversion H; subst; reflexivity.
  - (* HChopU *) destruct (length (m_hdr m) <? k); inversion H; subst; reflexivity.
Qed.

Section MsgAFProofs.
  Variable SZ_MSG : nat.
  Notation owned := (msg_owned SZ_MSG).

  Lemma owned_inv m : Inv m -> owned m = [SZ_MSG; ch_cap (m_body m)].
  Proof.
    intros [(off & Hp & Hlt & Hle) _]. unfold msg_owned.
    destruct (ch_cap (m_body m) =? 0) eqn:E; [apply Nat.eqb_eq in E; lia|reflexivity].
  Qed.

  (* what one operation does under an arbitrary oracle *)
  Definition step_clean (m : msg) (o : op) (r : option (N * option N * msg)) (t : list aev) : Prop :=
    exists rv v m', r = Some (rv, v, m') /\ Inv m' /\ balanced (owned m) t (owned m') /\
      ncalls t <= 1 /\
      (* some allocation was refused: NNG_ENOMEM, the message is exactly as before, nothing leaked *)
      (failed t = true -> rv = ENOMEM /\ v = None /\ m' = m /\ self_balanced t) /\
      (* none was refused: the operation did what the two-strings specification says *)
      (failed t = false -> spec_rel (abs m) o rv v (abs m')).

  Theorem msg_step_o_clean m o (orc : oracle) :
    Inv m -> step_clean m o (run (msg_step_o true m o) orc) (ledger (msg_step_o true m o) orc).
  Proof.
    intros HI. unfold step_clean, run, ledger, msg_step_o.
    destruct (step_allocsz m o) as [a|] eqn:SA.
    - destruct (step_allocsz_ge _ _ _ HI SA) as [Hge Hpos].
      unfold bind. destruct (nalloc_cases a orc) as [[Z _]|[[_ [o' E]]|[_ [o' E]]]]; [lia| |]; rewrite E.
      + (* granted *)
        destruct (step_total m o false HI) as [[[rv v] m'] ST].
        pose proof (step_refines _ _ _ _ _ _ HI ST) as [HI' SR].
        pose proof (step_cap _ _ _ _ _ _ ST) as HC. rewrite SA in HC.
        unfold free_store, free_if, free, ret. pose proof HI as [(off & Hp & Hlt & Hle) _].
        destruct (ch_cap (m_body m) =? 0) eqn:E0; [apply Nat.eqb_eq in E0; lia|].
        cbn [negb fst snd app]. rewrite ST.
        exists rv, v, m'. split; [reflexivity|]. split; [exact HI'|].
        split; [|split; [cbn; lia|split]].
        * unfold balanced. rewrite (owned_inv _ HI), (owned_inv _ HI'), HC. cbn.
          apply perm_trans with (SZ_MSG :: a :: [ch_cap (m_body m)]); [apply perm_swap|].
          apply perm_trans with (SZ_MSG :: ch_cap (m_body m) :: [a]); [constructor; apply perm_swap|apply perm_swap].
        * cbn. discriminate.
        * intros _. destruct SR as [(_ & _ & _ & F)|SR]; [discriminate|exact SR].
      + (* refused *)
        rewrite (step_some_fail true _ _ _ HI SA). unfold ret. cbn [fst snd app].
        exists ENOMEM, None, m. split; [reflexivity|]. split; [exact HI|].
        split; [|split; [cbn; lia|split]].
        * apply balanced_same. unfold self_balanced; cbn. constructor.
        * intros _. repeat split; auto. unfold self_balanced; cbn. constructor.
        * cbn. discriminate.
    - unfold ret. cbn [fst snd].
      destruct (step_total m o false HI) as [[[rv v] m'] ST].
      pose proof (step_refines _ _ _ _ _ _ HI ST) as [HI' SR].
      pose proof (step_cap _ _ _ _ _ _ ST) as HC. rewrite SA in HC. rewrite ST.
      exists rv, v, m'. split; [reflexivity|]. split; [exact HI'|].
      split; [|split; [cbn; lia|split]].
      + unfold balanced. rewrite (owned_inv _ HI), (owned_inv _ HI'), HC. cbn. apply Permutation_refl.
      + cbn. discriminate.
      + intros _. destruct SR as [(_ & _ & _ & F)|SR]; [discriminate|exact SR].
  Qed.

  (* ---- nni_msg_alloc ---- *)
  Lemma grow_allocsz_fits tot hw n :
    hw < tot -> n + hw <= tot -> grow_allocsz (mkChunk (zeros tot) 0 (Some hw)) n 0 = None.
  Proof.
    intros H1 H2. unfold grow_allocsz, ptr_inside, ch_cap. cbn [ch_ptr ch_buf ch_len]. rewrite zeros_length.
    destruct (hw <? tot) eqn:E; [|apply Nat.ltb_ge in E; lia].
    rewrite Nat.max_0_r. replace (Nat.max 0 hw) with hw by lia.
    destruct ((n + hw <=? tot) && (hw <=? hw)) eqn:E2; [reflexivity|].
    apply andb_false_iff in E2 as [E2|E2]; apply Nat.leb_gt in E2; lia.
  Qed.

  Lemma msg_alloc_cap sz m :
    msg_alloc sz false false = Some (0%N, Some m) -> ch_cap (m_body m) = msg_alloc_sz sz.
  Proof.
    unfold msg_alloc, msg_alloc_sz. cbn [negb].
    destruct ((1024 <=? sz) && (N.land (N.of_nat sz) (N.of_nat sz - 1) =? 0)%N) eqn:P;
      rewrite grow0_spec; cbn [N.eqb negb];
      (destruct (chunk_append _ None sz false) as [[rv c']|] eqn:A; [|discriminate]);
      apply append_cap in A as [-> A]; intros H; inversion H; subst; cbn [m_body]; rewrite A.
    - apply andb_true_iff in P as [P _]. apply Nat.leb_le in P.
      assert (append_allocsz (mkChunk (zeros (sz + 0)) 0 (Some 0)) sz = None) as ->.
      { unfold append_allocsz. destruct (sz =? 0); [reflexivity|]. cbn [ch_len]. apply grow_allocsz_fits; lia. }
      unfold ch_cap; cbn [ch_buf]. rewrite zeros_length. lia.
    - assert (append_allocsz (mkChunk (zeros (sz + 32 + 32)) 0 (Some 32)) sz = None) as ->.
      { unfold append_allocsz. destruct (sz =? 0); [reflexivity|]. cbn [ch_len]. apply grow_allocsz_fits; lia. }
      unfold ch_cap; cbn [ch_buf]. rewrite zeros_length. lia.
  Qed.

  Definition alloc_clean (r : option (N * option msg)) (t : list aev) (sz : nat) : Prop :=
    ncalls t <= 2 /\
    (failed t = true -> r = Some (ENOMEM, None) /\ self_balanced t) /\
    (failed t = false -> exists m, r = Some (0%N, Some m) /\ Inv m /\ abs m = ([], zeros sz) /\
                                   sz <= msg_capacity m /\ balanced [] t (owned m)).

  Hypothesis SZ_MSG_pos : 0 < SZ_MSG.

  Lemma msg_alloc_sz_pos sz : 0 < msg_alloc_sz sz.
  Proof.
    unfold msg_alloc_sz. destruct ((1024 <=? sz) && _) eqn:E; [|lia].
    apply andb_true_iff in E as [E _]. apply Nat.leb_le in E. lia.
  Qed.

  Theorem msg_alloc_o_clean sz (orc : oracle) :
    alloc_clean (run (msg_alloc_o SZ_MSG sz) orc) (ledger (msg_alloc_o SZ_MSG sz) orc) sz.
  Proof.
    unfold alloc_clean, run, ledger, msg_alloc_o, bind.
    destruct (nalloc_cases SZ_MSG orc) as [[Z _]|[[_ [o1 E1]]|[_ [o1 E1]]]]; [lia| |]; rewrite E1; cbn [negb].
    - pose proof (msg_alloc_sz_pos sz).
      destruct (nalloc_cases (msg_alloc_sz sz) o1) as [[Z _]|[[_ [o2 E2]]|[_ [o2 E2]]]]; [lia| |]; rewrite E2.
      + unfold ret. cbn [fst snd app]. split; [cbn; lia|]. split; [cbn; discriminate|]. intros _.
        destruct (alloc_spec sz) as (m & A & HI & Ha & Hc). exists m. rewrite A.
        split; [reflexivity|]. split; [exact HI|]. split; [exact Ha|]. split; [exact Hc|].
        unfold balanced. rewrite (owned_inv _ HI), (msg_alloc_cap _ _ A). cbn. apply Permutation_refl.
      + unfold free, ret. cbn [fst snd app]. split; [cbn; lia|]. split; [|cbn; discriminate]. intros _.
        split; [|unfold self_balanced; cbn; apply Permutation_refl].
        unfold msg_alloc. cbn [negb].
        destruct ((1024 <=? sz) && _); unfold chunk_grow, ptr_inside, chunk0, ch_cap; cbn; reflexivity.
    - unfold ret. cbn [fst snd]. split; [cbn; lia|]. split; [|cbn; discriminate]. intros _.
      split; [reflexivity|unfold self_balanced; cbn; constructor].
  Qed.

  (* ---- nni_msg_dup ---- *)
  Definition dup_clean (m : msg) (r : option (N * option msg)) (t : list aev) : Prop :=
    ncalls t <= 2 /\
    (failed t = true -> r = Some (ENOMEM, None) /\ self_balanced t) /\
    (failed t = false -> exists m', r = Some (0%N, Some m') /\ Inv m' /\ abs m' = abs m /\
                                    balanced [] t (owned m')).

  Lemma msg_dup_cap m m' : msg_dup m false false = Some (0%N, Some m') -> ch_cap (m_body m') = ch_cap (m_body m).
  Proof.
    unfold msg_dup, chunk_dup. cbn [negb].
    destruct (ch_ptr (m_body m)) as [off|].
    - destruct (ch_len (m_body m) =? 0).
      + cbn. intros H; inversion H; subst. unfold ch_cap; cbn. apply zeros_length.
      + destruct (sub _ _ _); [|discriminate]. destruct (blit _ _ _) as [nb|] eqn:B; [|discriminate].
        cbn. intros H; inversion H; subst. apply blit_length in B as [B _].
        unfold ch_cap at 1; cbn. rewrite B. apply zeros_length.
    - destruct (ch_len (m_body m) =? 0); [|discriminate].
      cbn. intros H; inversion H; subst. unfold ch_cap; cbn. apply zeros_length.
  Qed.

  Theorem msg_dup_o_clean m (orc : oracle) :
    Inv m -> dup_clean m (run (msg_dup_o SZ_MSG m) orc) (ledger (msg_dup_o SZ_MSG m) orc).
  Proof.
    intros HI. pose proof HI as [(off & Hp & Hlt & Hle) _].
    unfold dup_clean, run, ledger, msg_dup_o, bind.
    destruct (nalloc_cases SZ_MSG orc) as [[Z _]|[[_ [o1 E1]]|[_ [o1 E1]]]]; [lia| |]; rewrite E1; cbn [negb].
    - destruct (nalloc_cases (ch_cap (m_body m)) o1) as [[Z _]|[[_ [o2 E2]]|[_ [o2 E2]]]]; [lia| |]; rewrite E2.
      + unfold ret. cbn [fst snd app]. split; [cbn; lia|]. split; [cbn; discriminate|]. intros _.
        destruct (msg_dup_spec m HI) as (m' & D & HI' & Ha & _). exists m'. rewrite D.
        split; [reflexivity|]. split; [exact HI'|]. split; [exact Ha|].
        unfold balanced. rewrite (owned_inv _ HI'), (msg_dup_cap _ _ D). cbn. apply Permutation_refl.
      + unfold free, ret. cbn [fst snd app]. split; [cbn; lia|]. split; [|cbn; discriminate]. intros _.
        split; [reflexivity|unfold self_balanced; cbn; apply Permutation_refl].
    - unfold ret. cbn [fst snd]. split; [cbn; lia|]. split; [|cbn; discriminate]. intros _.
      split; [reflexivity|unfold self_balanced; cbn; constructor].
  Qed.

  (* ---- nni_msg_free: everything the message owns goes back ---- *)
  Theorem msg_free_o_balanced m (orc : oracle) :
    Inv m -> balanced (owned m) (ledger (msg_free_o SZ_MSG m) orc) [] /\ ncalls (ledger (msg_free_o SZ_MSG m) orc) = 0.
  Proof.
    intros HI. pose proof HI as [(off & Hp & Hlt & Hle) _].
    unfold ledger, msg_free_o, bind, free_store, free_if, free.
    destruct (ch_cap (m_body m) =? 0) eqn:E0; [apply Nat.eqb_eq in E0; lia|].
    cbn [negb snd app]. split; [|reflexivity].
    unfold balanced. rewrite (owned_inv _ HI). cbn. apply perm_swap.
  Qed.

  (* alloc; any history; free: balanced to zero whatever the oracle does *)

  (* ---- nni_msg_unique: loss of the message, never of memory ---- *)
  Theorem msg_unique_o_clean m shared (orc : oracle) :
    Inv m ->
    let r := run (msg_unique_o SZ_MSG m shared) orc in
    let t := ledger (msg_unique_o SZ_MSG m shared) orc in
    (shared = false -> r = Some (Some m) /\ t = []) /\
    (shared = true ->
       (failed t = true -> r = Some None /\ self_balanced t) /\
       (failed t = false -> exists m', r = Some (Some m') /\ Inv m' /\ abs m' = abs m /\ balanced [] t (owned m'))).
  Proof.
    intros HI. cbn zeta. split; intros ->.
    - unfold run, ledger, msg_unique_o, ret. cbn. auto.
    - unfold run, ledger, msg_unique_o. cbn [negb].
      pose proof (msg_dup_o_clean m orc HI) as (_ & F & S). unfold run, ledger in F, S.
      unfold bind. destruct (msg_dup_o SZ_MSG m orc) as [[r o'] t]. cbn [fst snd] in *.
      unfold ret. cbn [fst snd]. rewrite app_nil_r. split; intros Hf.
      + destruct (F Hf) as [-> B]. auto.
      + destruct (S Hf) as (m' & -> & HI' & Ha & B). eauto.
  Qed.

  (* ---- nni_msg_pull_up ---- *)
  (* the duplicate path: NULL on failure with the original untouched and nothing leaked *)
  Theorem msg_pull_up_o_dup_clean ic m shared (orc : oracle) :
    Inv m -> (chunk_room (m_body m) <? length (m_hdr m)) || shared = true ->
    let r := run (msg_pull_up_o SZ_MSG true ic m shared) orc in
    let t := ledger (msg_pull_up_o SZ_MSG true ic m shared) orc in
    (failed t = true -> r = Some None /\ self_balanced t) /\
    (failed t = false -> r = msg_pull_up true m shared false false).
  Proof.
    intros HI C. cbn zeta. unfold run, ledger, msg_pull_up_o. rewrite C. unfold bind.
    destruct (nalloc_cases SZ_MSG orc) as [[Z _]|[[_ [o1 E1]]|[_ [o1 E1]]]]; [lia| |]; rewrite E1; cbn [negb].
    - pose proof (msg_alloc_sz_pos (msg_len m + length (m_hdr m))).
      destruct (nalloc_cases (msg_alloc_sz (msg_len m + length (m_hdr m))) o1)
        as [[Z _]|[[_ [o2 E2]]|[_ [o2 E2]]]]; [lia| |]; rewrite E2.
      + destruct shared.
        * unfold ret. cbn [fst snd app]. split; [cbn; discriminate|auto].
        * destruct (msg_free_o SZ_MSG m o2) as [[u o3] t3] eqn:FR. unfold ret. cbn [fst snd app].
          assert (nfails t3 = 0).
          { unfold msg_free_o, bind, free_store, free_if, free, ret in FR.
            destruct (negb _); inversion FR; reflexivity. }
          split.
          -- unfold failed. cbn [nfails]. rewrite app_nil_r, H0. discriminate.
          -- auto.
      + unfold free, ret. cbn [fst snd app]. split; [|cbn; discriminate]. intros _.
        split; [|unfold self_balanced; cbn; apply Permutation_refl].
        unfold msg_pull_up. rewrite C. destruct (msg_body m) eqn:MB.
        * unfold msg_alloc. cbn [negb].
          destruct ((1024 <=? _) && _); unfold chunk_grow, ptr_inside, chunk0, ch_cap; cbn; reflexivity.
        * rewrite (msg_body_abs _ HI) in MB. discriminate.
    - unfold ret. cbn [fst snd]. split; [|cbn; discriminate]. intros _.
      split; [|unfold self_balanced; cbn; constructor].
      unfold msg_pull_up. rewrite C. destruct (msg_body m) eqn:MB; [reflexivity|].
      rewrite (msg_body_abs _ HI) in MB. discriminate.
  Qed.

  (* the in-place path as the C is: if the ignored nni_msg_insert had to grow the chunk
     and was refused, the message is returned with its header dropped *)
  Definition pull_up_witness : msg :=
    (* nng_msg_alloc(0); nng_msg_insert(30 bytes): capacity 64, offset 2, 34 bytes of room;
       a 32-byte header *)
    mkMsg (repeat 7%N 32) (mkChunk (repeat 0%N 64) 30 (Some 2)).

  Theorem pull_up_lost_header_refuted :
    exists m, Inv m /\ m_hdr m <> [] /\
      run (msg_pull_up_o SZ_MSG true false m false) [false] = Some (Some (mkMsg [] (m_body m))).
  Proof.
    exists pull_up_witness. split; [|split].
    - split; [exists 2; unfold ch_cap; cbn; repeat split; lia|cbn; unfold HDR_CAP; lia].
    - discriminate.
    - vm_compute. reflexivity.
  Qed.

  (* ---- histories: the oracle threaded through any sequence of operations ---- *)
  Theorem msg_run_o_clean ops : forall m (orc : oracle), Inv m ->
    exists outs m', run (msg_run_o true m ops) orc = Some (outs, m') /\ Inv m' /\
      length outs = length ops /\
      balanced (owned m) (ledger (msg_run_o true m ops) orc) (owned m') /\
      (failed (ledger (msg_run_o true m ops) orc) = false ->
         exists fl, spec_run (abs m) (combine ops fl) outs (abs m') /\ length fl = length ops).
  Proof.
    induction ops as [|o r IH]; intros m orc HI.
    - exists [], m. unfold run, ledger; cbn. split; [reflexivity|]. split; [exact HI|]. split; [reflexivity|].
      split; [apply balanced_nil|]. intros _. exists []. split; [constructor|reflexivity].
    - pose proof (msg_step_o_clean m o orc HI) as (rv & v & m1 & R & HI1 & B1 & _ & F1 & S1).
      unfold run, ledger in *. cbn [msg_run_o]. unfold bind.
      destruct (msg_step_o true m o orc) as [[x o1] t1]. cbn [fst snd] in *. subst x.
      destruct (IH m1 o1 HI1) as (outs & m2 & R2 & HI2 & L2 & B2 & S2).
      destruct (msg_run_o true m1 r o1) as [[y o2] t2]. cbn [fst snd] in *. subst y.
      unfold ret. cbn [fst snd]. rewrite app_nil_r.
      exists ((rv, v) :: outs), m2. split; [reflexivity|]. split; [exact HI2|].
      split; [cbn; now rewrite L2|]. split; [eapply balanced_trans; eauto|].
      { intros Hf. unfold failed in Hf. rewrite nfails_app in Hf.
        assert (nfails t1 = 0 /\ nfails t2 = 0) as [Z1 Z2].
        { destruct (nfails t1 + nfails t2) eqn:E; [lia|discriminate]. }
        destruct S2 as (fl & SR & Lf). { unfold failed. now rewrite Z2. }
        exists (false :: fl). split; [|cbn; now rewrite Lf].
        cbn [combine]. econstructor; [|exact SR].
        apply S1. unfold failed. now rewrite Z1. }
  Qed.
End MsgAFProofs.
