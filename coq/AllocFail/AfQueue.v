(* AfQueue: src/core/lmq.c and src/core/msgqueue.c under the allocation oracle.
   Definitions only.

     nni_lmq_resize   new_q = nni_alloc(sizeof(msg ptr) x alloc) first; failure: NNG_ENOMEM,
                      nothing touched.  Success: the ring is copied, the surplus flushed,
                      the old ring freed if it was allocated (lmq_alloc > 0; the initial
                      2-cell ring is inline)
     nni_lmq_init     "guaranteed to succeed": cap > 2 calls nni_lmq_resize and ignores the
                      result -- the documented fallback is a queue of capacity 2
     nni_lmq_fini     frees the ring if it was allocated
     nni_msgq_init    NNI_ALLOC_STRUCT(mq); mq_msgs = nni_zalloc(sizeof(ptr) * (cap + 2));
                      second failure: NNI_FREE_STRUCT(mq)
     nni_msgq_resize  only when growing (cap + 2 > mq_alloc): newq = nni_zalloc(...) BEFORE
                      the lock is taken; failure: NNG_ENOMEM, nothing touched; success: old ring
                      freed after the copy
     nni_msgq_fini    frees the ring and the struct *)
From Coq Require Import List Arith Bool NArith.
From NngV Require Import Base.Ring Queue.LmqModel Queue.MsgqModel AllocFail.AfBase.
Import ListNotations.

Section QueueAF.
  Variable SZ_PTR : nat.      (* sizeof (a message pointer) *)
  Variable SZ_MSGQ : nat.     (* sizeof (struct nni_msgq) *)

  (* ---- lmq ---- *)
  Definition lmq_owned (q : lmq) : list nat := if q_alloc q =? 0 then [] else [SZ_PTR * q_alloc q].

  Definition lmq_resize_o (fixed : bool) (q : lmq) (cap : nat) : M (option (N * lmq * list N)) :=
    ok <-- nalloc (SZ_PTR * pow2ge cap 2 cap) ;;
    if ok then
      _ <-- free_if (negb (q_alloc q =? 0)) (SZ_PTR * q_alloc q) ;;
      ret (lmq_resize fixed q cap false)
    else ret (lmq_resize fixed q cap true).

  Definition lmq_init_o (fixed : bool) (cap : nat) : M (option lmq) :=
    if 2 <? cap then
      ok <-- nalloc (SZ_PTR * pow2ge cap 2 cap) ;;
      ret (lmq_init fixed cap (negb ok))
    else ret (lmq_init fixed cap false).

  (* result: the messages freed, oldest first *)
  Definition lmq_fini_o (q : lmq) : M (option (list N)) :=
    _ <-- free_if (negb (q_alloc q =? 0)) (SZ_PTR * q_alloc q) ;;
    ret (match lmq_flush q with None => None | Some (l, _) => Some l end).

  Inductive lop_o := OPut (x : N) | OGet | OFlush | OResize (cap : nat).
  Definition lmq_step_o (fixed : bool) (q : lmq) (o : lop_o) : M (option (lout * lmq)) :=
    match o with
    | OPut x => ret (lmq_step fixed q (LPut x))
    | OGet => ret (lmq_step fixed q LGet)
    | OFlush => ret (lmq_step fixed q LFlush)
    | OResize cap =>
        r <-- lmq_resize_o fixed q cap ;;
        ret (match r with None => None | Some (rv, q', l) => Some (LFreed rv l, q') end)
    end.
  Fixpoint lmq_run_o (fixed : bool) (q : lmq) (ops : list lop_o) : M (option (list lout * lmq)) :=
    match ops with
    | [] => ret (Some ([], q))
    | o :: r =>
        x <-- lmq_step_o fixed q o ;;
        match x with
        | None => ret None
        | Some (out, q1) =>
            y <-- lmq_run_o fixed q1 r ;;
            ret (match y with None => None | Some (outs, q2) => Some (out :: outs, q2) end)
        end
    end.

  (* ---- msgq ---- *)
  Definition msgq_owned (q : msgq) : list nat := [SZ_MSGQ; SZ_PTR * mq_alloc q].

  Definition msgq_init_o (cap : nat) : M (N * option msgq) :=
    ok1 <-- nalloc SZ_MSGQ ;;
    if negb ok1 then ret (ENOMEM_q, None)
    else
      ok2 <-- nalloc (SZ_PTR * (cap + 2)) ;;
      if ok2 then ret (0%N, Some (msgq_init cap))
      else _ <-- free SZ_MSGQ ;; ret (ENOMEM_q, None).

  Definition msgq_resize_o (fixed : bool) (q : msgq) (cap : nat) : M (option (N * msgq * list mout)) :=
    if mq_alloc q <? cap + 2 then
      ok <-- nalloc (SZ_PTR * (cap + 2)) ;;
      if ok then
        _ <-- free (SZ_PTR * mq_alloc q) ;;
        ret (msgq_step fixed q (MResize cap false))
      else ret (msgq_step fixed q (MResize cap true))
    else ret (msgq_step fixed q (MResize cap false)).

  Definition msgq_fini_o (q : msgq) : M unit :=
    _ <-- free (SZ_PTR * mq_alloc q) ;; free SZ_MSGQ.

  Inductive mop_o :=
  | QAioPut (a m : N) (start_ok : bool) | QAioGet (a : N) (start_ok : bool) | QTryPut (m : N)
  | QCancel (a rv : N) | QClose | QResize (cap : nat) | QNotify.
  Definition msgq_step_o (fixed : bool) (q : msgq) (o : mop_o) : M (option (N * msgq * list mout)) :=
    match o with
    | QAioPut a m ok => ret (msgq_step fixed q (MAioPut a m ok))
    | QAioGet a ok => ret (msgq_step fixed q (MAioGet a ok))
    | QTryPut m => ret (msgq_step fixed q (MTryPut m))
    | QCancel a rv => ret (msgq_step fixed q (MCancel a rv))
    | QClose => ret (msgq_step fixed q MClose)
    | QResize cap => msgq_resize_o fixed q cap
    | QNotify => ret (msgq_step fixed q MNotify)
    end.
End QueueAF.
