(* AfIdMapProofs: idhash.c under every allocation oracle. *)
From Coq Require Import List Arith Lia Bool NArith Permutation.
From NngV Require Import IdMap.IdMapModel IdMap.IdMapSpec IdMap.IdMapLemmas IdMap.IdMapProofs
  AllocFail.AfBase AllocFail.AfIdMap.
Import ListNotations.

(* the state id_resize leaves behind when it does not replace the table *)
Definition reg (m : id_map) : id_map := if id_static m then set_registered m else m.

Lemma reg_cap m : id_cap (reg m) = id_cap m.
Proof. unfold reg. destruct (id_static m); reflexivity. Qed.

(* ---------------------------------------------------------------- structural: table sizes *)
Lemma nth_error_lt' {A} (T : list A) i e : nth_error T i = Some e -> i < length T.
Proof. intros H. apply nth_error_Some. congruence. Qed.

Lemma ins_loop_length fuel : forall T cap k v idx load asrt T' l,
  ins_loop T cap k v idx load fuel asrt = IdOk (T', l) -> length T' = length T.
Proof.
  induction fuel as [|f IH]; intros T cap k v idx load asrt T' l H; cbn [ins_loop] in H; [discriminate|].
  destruct (nth_error T idx) as [e|] eqn:E; [|discriminate].
  pose proof (nth_error_lt' _ _ _ E) as Hlt.
  destruct (ie_val e).
  - apply IH in H. rewrite H. now apply tupd_length.
  - destruct (asrt && _); [discriminate|]. inversion H; subst. now apply tupd_length.
Qed.

Lemma rehash_length old : forall T cap load T' l,
  rehash old T cap load = IdOk (T', l) -> length T' = length T.
Proof.
  induction old as [|e rest IH]; intros T cap load T' l H; cbn [rehash] in H; [inversion H; reflexivity|].
  destruct (ie_val e) as [v|]; [|now apply IH in H].
  destruct (ins_loop T cap (ie_key e) v _ load cap true) as [[T1 l1]|] eqn:I; cbn [id_bind] in H; [|discriminate].
  apply IH in H. rewrite H. now apply ins_loop_length in I.
Qed.

Lemma rm_loop_length fuel : forall T cap index probe load T' l,
  rm_loop T cap index probe load fuel = IdOk (T', l) -> length T' = length T.
Proof.
  induction fuel as [|f IH]; intros T cap index probe load T' l H; cbn [rm_loop] in H; [discriminate|].
  destruct (id_dec load) as [load'|]; cbn [id_bind] in H; [|discriminate].
  destruct (nth_error T probe) as [e|] eqn:E; [|discriminate].
  pose proof (nth_error_lt' _ _ _ E) as Hlt.
  destruct (probe =? index).
  - inversion H; subst. now apply tupd_length.
  - destruct (ie_skips e); [discriminate|]. apply IH in H. rewrite H. now apply tupd_length.
Qed.

(* ---------------------------------------------------------------- id_resize vs resize_newcap *)
Lemma resize_none m f : resize_newcap m = IdOk None ->
  exists m', id_resize m f = IdOk (0%N, m') /\ (m' = m \/ m' = reg m) /\ id_cap m' = id_cap m.
Proof.
  unfold resize_newcap, id_resize.
  destruct ((id_load m <? id_max_load m) && (id_min_load m <=? id_load m)).
  - intros _. exists m. auto.
  - replace (id_count (if id_static m then set_registered m else m)) with (id_count m) by (destruct (id_static m); reflexivity).
    destruct (id_new_cap (id_count m)) as [nc|e]; cbn [id_bind]; [|discriminate].
    replace (id_cap (if id_static m then set_registered m else m)) with (id_cap m) by (destruct (id_static m); reflexivity).
    destruct (nc =? id_cap m); [|discriminate]. intros _. exists (reg m). split; [reflexivity|].
    split; [now right|apply reg_cap].
Qed.

Lemma resize_some_fail m nc : resize_newcap m = IdOk (Some nc) -> id_resize m true = IdOk (id_ENOMEM, reg m).
Proof.
  unfold resize_newcap, id_resize.
  destruct ((id_load m <? id_max_load m) && (id_min_load m <=? id_load m)); [discriminate|].
  replace (id_count (if id_static m then set_registered m else m)) with (id_count m) by (destruct (id_static m); reflexivity).
  destruct (id_new_cap (id_count m)) as [nc'|e]; cbn [id_bind]; [|discriminate].
  replace (id_cap (if id_static m then set_registered m else m)) with (id_cap m) by (destruct (id_static m); reflexivity).
  destruct (nc' =? id_cap m); [discriminate|]. intros _. reflexivity.
Qed.

Lemma resize_some_ok m nc rv m' : resize_newcap m = IdOk (Some nc) ->
  id_resize m false = IdOk (rv, m') -> rv = 0%N /\ id_cap m' = nc.
Proof.
  unfold resize_newcap, id_resize.
  destruct ((id_load m <? id_max_load m) && (id_min_load m <=? id_load m)); [discriminate|].
  replace (id_count (if id_static m then set_registered m else m)) with (id_count m) by (destruct (id_static m); reflexivity).
  destruct (id_new_cap (id_count m)) as [nc'|e]; cbn [id_bind]; [|discriminate].
  replace (id_cap (if id_static m then set_registered m else m)) with (id_cap m) by (destruct (id_static m); reflexivity).
  destruct (nc' =? id_cap m); [discriminate|]. intros H; inversion H; subst nc'.
  destruct (id_thresholds nc) as [minl maxl].
  destruct (rehash _ _ nc 0) as [[T l]|e] eqn:R; cbn [id_bind]; [|discriminate].
  intros X; inversion X; subst. split; [reflexivity|].
  unfold id_cap; cbn [id_entries]. apply rehash_length in R. rewrite R. apply repeat_length.
Qed.

Lemma resize_err m e f : resize_newcap m = IdErr e -> id_resize m f = IdErr e.
Proof.
  unfold resize_newcap, id_resize.
  destruct ((id_load m <? id_max_load m) && (id_min_load m <=? id_load m)); [discriminate|].
  replace (id_count (if id_static m then set_registered m else m)) with (id_count m) by (destruct (id_static m); reflexivity).
  destruct (id_new_cap (id_count m)) as [nc'|e']; cbn [id_bind].
  - destruct (nc' =? _); discriminate.
  - intros H; inversion H; reflexivity.
Qed.

Lemma new_cap_ge8 c nc : id_new_cap c = IdOk nc -> 8 <= nc.
Proof.
  unfold id_new_cap, ID_MIN_CAP.
  assert (G: forall fuel a t r, 8 <= a -> grow_cap a t fuel = IdOk r -> 8 <= r).
  { induction fuel as [|f IH]; intros a t r Ha; cbn [grow_cap]; [discriminate|].
    destruct (a <? t); [apply IH; lia|intros H; inversion H; subst; lia]. }
  apply G. lia.
Qed.

Lemma resize_newcap_ge8 m nc : resize_newcap m = IdOk (Some nc) -> 8 <= nc.
Proof.
  unfold resize_newcap. destruct (_ && _); [discriminate|].
  destruct (id_new_cap (id_count m)) as [nc'|e] eqn:N; cbn [id_bind]; [|discriminate].
  destruct (nc' =? _); [discriminate|]. intros H; inversion H; subst. eapply new_cap_ge8; eauto.
Qed.

(* ---------------------------------------------------------------- capacities after set *)
Lemma id_set_after_resize m k v f :
  id_set m k v f =
  (do '(rv, m1) <- id_resize m f;
   if negb (rv =? 0)%N then IdOk (id_ENOMEM, m1) else
   do r <- id_find m1 k;
   match r with
   | Some index =>
       match nth_error (id_entries m1) index with
       | None => IdErr IdOob
       | Some e => IdOk (0%N, set_table m1 (tupd (id_entries m1) index (mkIdEntry (ie_key e) (ie_skips e) (Some v)))
                                       (id_count m1) (id_load m1))
       end
   | None =>
       do '(T, load) <- ins_loop (id_entries m1) (id_cap m1) k v (id_index (id_cap m1) k) (id_load m1) (id_cap m1) false;
       IdOk (0%N, set_table m1 T (S (id_count m1)) load)
   end).
Proof. reflexivity. Qed.

Lemma id_set_cap m k v f rv m' : id_set m k v f = IdOk (rv, m') ->
  exists rv1 m1, id_resize m f = IdOk (rv1, m1) /\ id_cap m' = id_cap m1 /\ (rv1 <> 0%N -> rv = id_ENOMEM /\ m' = m1).
Proof.
  rewrite id_set_after_resize. destruct (id_resize m f) as [[rv1 m1]|e]; cbn [id_bind]; [|discriminate].
  intros H. exists rv1, m1. split; [reflexivity|].
  destruct (rv1 =? 0)%N eqn:E; cbn [negb] in H.
  - apply N.eqb_eq in E. subst rv1. split; [|intros X; congruence].
    destruct (id_find m1 k) as [[index|]|e]; cbn [id_bind] in H; [| |discriminate].
    + destruct (nth_error (id_entries m1) index) as [e|] eqn:NE; [|discriminate].
      inversion H; subst. unfold id_cap, set_table; cbn [id_entries].
      apply tupd_length. eapply nth_error_lt'; eauto.
    + destruct (ins_loop _ _ _ _ _ _ _ _) as [[T l]|e] eqn:I; cbn [id_bind] in H; [|discriminate].
      inversion H; subst. unfold id_cap, set_table; cbn [id_entries]. now apply ins_loop_length in I.
  - inversion H; subst. split; [reflexivity|]. intros _. auto.
Qed.

Lemma id_remove_unfold m k f :
  id_remove m k f =
  match remove_mid m k with
  | IdErr e => IdErr e
  | IdOk None => IdOk (id_ENOENT, m)
  | IdOk (Some m1) => do '(_, m') <- id_resize m1 f; IdOk (0%N, m')
  end.
Proof.
  unfold id_remove, remove_mid. destruct (id_find m k) as [[index|]|e]; cbn [id_bind]; try reflexivity.
  destruct (rm_loop _ _ _ _ _ _) as [[T l]|e]; cbn [id_bind]; [|reflexivity].
  destruct (id_dec (id_count m)) as [c|e]; cbn [id_bind]; reflexivity.
Qed.

Lemma remove_mid_cap m k m1 : remove_mid m k = IdOk (Some m1) -> id_cap m1 = id_cap m.
Proof.
  unfold remove_mid. destruct (id_find m k) as [[index|]|e]; cbn [id_bind]; try discriminate.
  destruct (rm_loop _ _ _ _ _ _) as [[T l]|e] eqn:R; cbn [id_bind]; [|discriminate].
  destruct (id_dec (id_count m)) as [c|e]; cbn [id_bind]; [|discriminate].
  intros H; inversion H; subst. unfold id_cap, set_table; cbn [id_entries]. now apply rm_loop_length in R.
Qed.

Lemma id_alloc_unfold fx m v rnd f :
  id_alloc fx m v rnd f =
  match alloc_mid fx m rnd with
  | IdErr e => IdErr e
  | IdOk None => IdOk (id_ENOMEM, None, m)
  | IdOk (Some (id, m1)) =>
      do '(rv, m') <- id_set m1 id v f;
      if (rv =? 0)%N then IdOk (0%N, Some id, m') else IdOk (rv, None, m')
  end.
Proof.
  unfold id_alloc, alloc_mid. destruct (_ <? _)%N; [reflexivity|].
  match goal with |- context [alloc_loop fx ?a ?b ?c] => destruct (alloc_loop fx a b c) as [[id dyn]|e] end;
    cbn [id_bind]; reflexivity.
Qed.

Lemma alloc_mid_cap fx m rnd id m1 : alloc_mid fx m rnd = IdOk (Some (id, m1)) -> id_cap m1 = id_cap m.
Proof.
  unfold alloc_mid. destruct (_ <? _)%N; [discriminate|].
  match goal with |- context [alloc_loop fx ?a ?b ?c] => destruct (alloc_loop fx a b c) as [[id' dyn]|e] end;
    cbn [id_bind]; [|discriminate].
  intros H; inversion H; subst. destruct (id_dyn_val m =? 0)%N; reflexivity.
Qed.

Section IdMapAFProofs.
  Variable SZ_ENT : nat.
  Hypothesis SZ_ENT_pos : 0 < SZ_ENT.
  Notation owned := (idmap_owned SZ_ENT).

  Lemma owned_cap_eq m m' : id_cap m' = id_cap m -> owned m' = owned m.
  Proof. unfold idmap_owned. now intros ->. Qed.

  (* what the oracle-driven resize of [m0] does to a body that is a function of the flag *)
  Lemma with_resize_cases {A} (m0 : id_map) (body : bool -> id_res A) (orc : oracle) :
    let r := run (with_resize SZ_ENT m0 body) orc in
    let t := ledger (with_resize SZ_ENT m0 body) orc in
    (exists e, resize_newcap m0 = IdErr e /\ r = IdErr e /\ t = []) \/
    (resize_newcap m0 = IdOk None /\ r = body false /\ t = []) \/
    (exists nc, resize_newcap m0 = IdOk (Some nc) /\ r = body false /\
                t = AAlloc (SZ_ENT * nc) :: (if id_cap m0 =? 0 then [] else [AFree (SZ_ENT * id_cap m0)])) \/
    (exists nc, resize_newcap m0 = IdOk (Some nc) /\ r = body true /\ t = [AFail (SZ_ENT * nc)]).
  Proof.
    cbn zeta. unfold run, ledger, with_resize.
    destruct (resize_newcap m0) as [[nc|]|e] eqn:RN.
    - pose proof (resize_newcap_ge8 _ _ RN).
      unfold bind. destruct (nalloc_cases (SZ_ENT * nc) orc) as [[Z _]|[[_ [o' E]]|[_ [o' E]]]]; [nia| |]; rewrite E.
      + right. right. left. exists nc. unfold free_if, free, ret.
        destruct (id_cap m0 =? 0); cbn [negb fst snd app]; auto.
      + right. right. right. exists nc. unfold ret. cbn [fst snd app]. auto.
    - right. left. unfold ret. cbn. auto.
    - left. exists e. unfold ret. cbn. auto.
  Qed.

  (* ---- nni_id_set ---- *)
  Theorem id_set_o_clean fixed m k v (orc : oracle) : Inv fixed m ->
    let r := run (id_set_o SZ_ENT m k v) orc in
    let t := ledger (id_set_o SZ_ENT m k v) orc in
    exists rv m', r = IdOk (rv, m') /\ Inv fixed m' /\
      id_spec_rel (abs m) (IoSet k v (failed t)) (OutRv rv) (abs m') /\
      balanced (owned m) t (owned m') /\ ncalls t <= 1 /\
      (failed t = true -> rv = id_ENOMEM /\ m' = reg m /\ self_balanced t) /\
      (failed t = false -> rv = 0%N).
  Proof.
    intros HI. cbn zeta. unfold id_set_o.
    destruct (with_resize_cases m (id_set m k v) orc) as [(e & RN & R & T)|[(RN & R & T)|[(nc & RN & R & T)|(nc & RN & R & T)]]];
      rewrite R, T; clear R T.
    - (* impossible: the model never errs on a state satisfying the invariant *)
      exfalso. destruct (step_refines fixed m (IoSet k v false) HI) as (out & m' & S & _).
      cbn [id_step] in S. rewrite id_set_after_resize, (resize_err _ _ false RN) in S. discriminate.
    - destruct (step_refines fixed m (IoSet k v false) HI) as (out & m' & S & HI' & SR).
      cbn [id_step] in S. destruct (id_set m k v false) as [[rv m1]|e] eqn:IS; cbn [id_bind] in S; [|discriminate].
      inversion S; subst out m'. exists rv, m1. split; [reflexivity|]. split; [exact HI'|].
      split; [exact SR|].
      destruct (id_set_cap _ _ _ _ _ _ IS) as (rv1 & m2 & RS & C & FL).
      destruct (resize_none m false RN) as (m3 & RS3 & _ & C3). rewrite RS3 in RS. inversion RS; subst rv1 m2.
      split; [rewrite (owned_cap_eq m m1) by congruence; apply balanced_nil|].
      split; [cbn; lia|]. split; [cbn; discriminate|]. intros _.
      rewrite id_set_after_resize, RS3 in IS. cbn [id_bind N.eqb negb] in IS.
      destruct (id_find m3 k) as [[index|]|e]; cbn [id_bind] in IS; [| |discriminate].
      + destruct (nth_error _ _); inversion IS; reflexivity.
      + destruct (ins_loop _ _ _ _ _ _ _ _) as [[T l]|e]; cbn [id_bind] in IS; inversion IS; reflexivity.
    - destruct (step_refines fixed m (IoSet k v false) HI) as (out & m' & S & HI' & SR).
      cbn [id_step] in S. destruct (id_set m k v false) as [[rv m1]|e] eqn:IS; cbn [id_bind] in S; [|discriminate].
      inversion S; subst out m'. exists rv, m1. split; [reflexivity|]. split; [exact HI'|].
      assert (Ff: failed (AAlloc (SZ_ENT * nc) :: (if id_cap m =? 0 then [] else [AFree (SZ_ENT * id_cap m)])) = false).
      { destruct (id_cap m =? 0); reflexivity. }
      rewrite Ff. split; [exact SR|].
      destruct (id_set_cap _ _ _ _ _ _ IS) as (rv1 & m2 & RS & C & FL).
      destruct (resize_some_ok _ _ _ _ RN RS) as [-> C2].
      pose proof (resize_newcap_ge8 _ _ RN) as G8.
      split.
      { unfold balanced, idmap_owned. rewrite C, C2.
        destruct (nc =? 0) eqn:Z; [apply Nat.eqb_eq in Z; lia|].
        destruct (id_cap m =? 0); cbn; [apply Permutation_refl|apply perm_swap]. }
      split; [destruct (id_cap m =? 0); cbn; lia|]. split; [discriminate|]. intros _.
      rewrite id_set_after_resize, RS in IS. cbn [id_bind N.eqb negb] in IS.
      destruct (id_find m2 k) as [[index|]|e]; cbn [id_bind] in IS; [| |discriminate].
      + destruct (nth_error _ _); inversion IS; reflexivity.
      + destruct (ins_loop _ _ _ _ _ _ _ _) as [[T l]|e]; cbn [id_bind] in IS; inversion IS; reflexivity.
    - destruct (step_refines fixed m (IoSet k v true) HI) as (out & m' & S & HI' & SR).
      cbn [id_step] in S. rewrite id_set_after_resize, (resize_some_fail _ _ RN) in S. cbn [id_bind] in S.
      change (negb (id_ENOMEM =? 0)%N) with true in S. cbn [id_bind] in S. inversion S; subst out m'.
      rewrite id_set_after_resize, (resize_some_fail _ _ RN). cbn [id_bind].
      change (negb (id_ENOMEM =? 0)%N) with true. cbn iota.
      exists id_ENOMEM, (reg m). split; [reflexivity|]. split; [exact HI'|].
      change (failed [AFail (SZ_ENT * nc)]) with true. split; [exact SR|].
      split; [rewrite (owned_cap_eq m (reg m) (reg_cap m)); apply balanced_same; unfold self_balanced; cbn; constructor|].
      split; [cbn; lia|]. split; [|discriminate]. intros _.
      split; [reflexivity|]. split; [reflexivity|unfold self_balanced; cbn; constructor].
  Qed.

  (* ---- nni_id_remove: a refused shrink is ignored ("it's ok if we can't") ---- *)
  Theorem id_remove_o_clean fixed m k (orc : oracle) : Inv fixed m ->
    let r := run (id_remove_o SZ_ENT m k) orc in
    let t := ledger (id_remove_o SZ_ENT m k) orc in
    exists rv m', r = IdOk (rv, m') /\ Inv fixed m' /\
      id_spec_rel (abs m) (IoRemove k (failed t)) (OutRv rv) (abs m') /\
      balanced (owned m) t (owned m') /\ ncalls t <= 1 /\
      (failed t = true -> rv = 0%N /\ self_balanced t /\ id_cap m' = id_cap m).
  Proof.
    intros HI. cbn zeta. unfold id_remove_o.
    destruct (remove_mid m k) as [[m1|]|e] eqn:RM.
    - pose proof (remove_mid_cap _ _ _ RM) as C1.
      destruct (with_resize_cases m1 (id_remove m k) orc) as [(e & RN & R & T)|[(RN & R & T)|[(nc & RN & R & T)|(nc & RN & R & T)]]];
        rewrite R, T; clear R T.
      + exfalso. destruct (step_refines fixed m (IoRemove k false) HI) as (out & m' & S & _).
        cbn [id_step] in S. rewrite id_remove_unfold, RM, (resize_err _ _ false RN) in S. discriminate.
      + destruct (step_refines fixed m (IoRemove k false) HI) as (out & m' & S & HI' & SR).
        cbn [id_step] in S. destruct (id_remove m k false) as [[rv m2]|e] eqn:IR; cbn [id_bind] in S; [|discriminate].
        inversion S; subst out m'. exists rv, m2. split; [reflexivity|]. split; [exact HI'|]. split; [exact SR|].
        rewrite id_remove_unfold, RM in IR. destruct (resize_none m1 false RN) as (m3 & RS3 & _ & C3).
        rewrite RS3 in IR. cbn [id_bind] in IR. inversion IR; subst rv m2.
        split; [rewrite (owned_cap_eq m m3) by congruence; apply balanced_nil|].
        split; [cbn; lia|discriminate].
      + destruct (step_refines fixed m (IoRemove k false) HI) as (out & m' & S & HI' & SR).
        cbn [id_step] in S. destruct (id_remove m k false) as [[rv m2]|e] eqn:IR; cbn [id_bind] in S; [|discriminate].
        inversion S; subst out m'. exists rv, m2. split; [reflexivity|]. split; [exact HI'|].
        assert (Ff: failed (AAlloc (SZ_ENT * nc) :: (if id_cap m1 =? 0 then [] else [AFree (SZ_ENT * id_cap m1)])) = false).
        { destruct (id_cap m1 =? 0); reflexivity. }
        rewrite Ff. split; [exact SR|].
        rewrite id_remove_unfold, RM in IR.
        destruct (id_resize m1 false) as [[rv3 m3]|e] eqn:RS; cbn [id_bind] in IR; [|discriminate].
        inversion IR; subst rv m2. destruct (resize_some_ok _ _ _ _ RN RS) as [_ C2].
        pose proof (resize_newcap_ge8 _ _ RN) as G8.
        split.
        { unfold balanced, idmap_owned. rewrite C2, C1.
          destruct (nc =? 0) eqn:Z; [apply Nat.eqb_eq in Z; lia|].
          destruct (id_cap m =? 0); cbn; [apply Permutation_refl|apply perm_swap]. }
        split; [destruct (id_cap m1 =? 0); cbn; lia|discriminate].
      + destruct (step_refines fixed m (IoRemove k true) HI) as (out & m' & S & HI' & SR).
        cbn [id_step] in S. rewrite id_remove_unfold, RM, (resize_some_fail _ _ RN) in S. cbn [id_bind] in S.
        inversion S; subst out m'.
        rewrite id_remove_unfold, RM, (resize_some_fail _ _ RN). cbn [id_bind].
        exists 0%N, (reg m1). split; [reflexivity|]. split; [exact HI'|].
        change (failed [AFail (SZ_ENT * nc)]) with true. split; [exact SR|].
        assert (CC: id_cap (reg m1) = id_cap m) by (rewrite reg_cap; exact C1).
        split; [rewrite (owned_cap_eq m (reg m1) CC); apply balanced_same; unfold self_balanced; cbn; constructor|].
        split; [cbn; lia|]. intros _. split; [reflexivity|]. split; [unfold self_balanced; cbn; constructor|exact CC].
    - unfold run, ledger, ret. cbn [fst snd].
      destruct (step_refines fixed m (IoRemove k false) HI) as (out & m' & S & HI' & SR).
      cbn [id_step] in S. destruct (id_remove m k false) as [[rv m2]|e] eqn:IR; cbn [id_bind] in S; [|discriminate].
      inversion S; subst out m'. exists rv, m2. split; [reflexivity|]. split; [exact HI'|]. split; [exact SR|].
      rewrite id_remove_unfold, RM in IR. inversion IR; subst.
      split; [apply balanced_nil|]. split; [cbn; lia|discriminate].
    - exfalso. destruct (step_refines fixed m (IoRemove k false) HI) as (out & m' & S & _).
      cbn [id_step] in S. rewrite id_remove_unfold, RM in S. discriminate.
  Qed.

  (* ---- nni_id_alloc: on a refused table allocation NNG_ENOMEM, no id issued, the map's
     contents unchanged; the cursor has moved past the id that would have been issued ---- *)
  Theorem id_alloc_o_clean fixed m v rnd (orc : oracle) : Inv fixed m ->
    let r := run (id_alloc_o SZ_ENT fixed m v rnd) orc in
    let t := ledger (id_alloc_o SZ_ENT fixed m v rnd) orc in
    exists rv ido m', r = IdOk (rv, ido, m') /\ Inv fixed m' /\
      id_spec_rel (abs m) (IoAlloc v rnd (failed t)) (OutAlloc rv ido) (abs m') /\
      balanced (owned m) t (owned m') /\ ncalls t <= 1 /\
      (failed t = true -> rv = id_ENOMEM /\ ido = None /\ self_balanced t /\ id_cap m' = id_cap m).
  Proof.
    intros HI. cbn zeta. unfold id_alloc_o.
    destruct (alloc_mid fixed m rnd) as [[[id m1]|]|e] eqn:AM.
    - pose proof (alloc_mid_cap _ _ _ _ _ AM) as C1.
      destruct (with_resize_cases m1 (id_alloc fixed m v rnd) orc) as [(e & RN & R & T)|[(RN & R & T)|[(nc & RN & R & T)|(nc & RN & R & T)]]];
        rewrite R, T; clear R T.
      + exfalso. destruct (step_refines fixed m (IoAlloc v rnd false) HI) as (out & m' & S & _).
        cbn [id_step] in S. rewrite id_alloc_unfold, AM, id_set_after_resize, (resize_err _ _ false RN) in S. discriminate.
      + destruct (step_refines fixed m (IoAlloc v rnd false) HI) as (out & m' & S & HI' & SR).
        cbn [id_step] in S. destruct (id_alloc fixed m v rnd false) as [[[rv ido] m2]|e] eqn:IA; cbn [id_bind] in S; [|discriminate].
        inversion S; subst out m'. exists rv, ido, m2. split; [reflexivity|]. split; [exact HI'|]. split; [exact SR|].
        rewrite id_alloc_unfold, AM in IA.
        destruct (id_set m1 id v false) as [[rv3 m3]|e] eqn:IS; cbn [id_bind] in IA; [|discriminate].
        destruct (id_set_cap _ _ _ _ _ _ IS) as (rv1 & m4 & RS & C & FL).
        destruct (resize_none m1 false RN) as (m5 & RS5 & _ & C5). rewrite RS5 in RS. inversion RS; subst rv1 m4.
        assert (id_cap m2 = id_cap m).
        { destruct (rv3 =? 0)%N; inversion IA; subst; congruence. }
        split; [rewrite (owned_cap_eq m m2 H); apply balanced_nil|]. split; [cbn; lia|discriminate].
      + destruct (step_refines fixed m (IoAlloc v rnd false) HI) as (out & m' & S & HI' & SR).
        cbn [id_step] in S. destruct (id_alloc fixed m v rnd false) as [[[rv ido] m2]|e] eqn:IA; cbn [id_bind] in S; [|discriminate].
        inversion S; subst out m'. exists rv, ido, m2. split; [reflexivity|]. split; [exact HI'|].
        assert (Ff: failed (AAlloc (SZ_ENT * nc) :: (if id_cap m1 =? 0 then [] else [AFree (SZ_ENT * id_cap m1)])) = false).
        { destruct (id_cap m1 =? 0); reflexivity. }
        rewrite Ff. split; [exact SR|].
        rewrite id_alloc_unfold, AM in IA.
        destruct (id_set m1 id v false) as [[rv3 m3]|e] eqn:IS; cbn [id_bind] in IA; [|discriminate].
        destruct (id_set_cap _ _ _ _ _ _ IS) as (rv1 & m4 & RS & C & FL).
        destruct (resize_some_ok _ _ _ _ RN RS) as [-> C2].
        pose proof (resize_newcap_ge8 _ _ RN) as G8.
        assert (id_cap m2 = nc).
        { destruct (rv3 =? 0)%N; inversion IA; subst; congruence. }
        split.
        { unfold balanced, idmap_owned. rewrite H, C1.
          destruct (nc =? 0) eqn:Z; [apply Nat.eqb_eq in Z; lia|].
          destruct (id_cap m =? 0); cbn; [apply Permutation_refl|apply perm_swap]. }
        split; [destruct (id_cap m1 =? 0); cbn; lia|discriminate].
      + destruct (step_refines fixed m (IoAlloc v rnd true) HI) as (out & m' & S & HI' & SR).
        cbn [id_step] in S.
        rewrite id_alloc_unfold, AM, id_set_after_resize, (resize_some_fail _ _ RN) in S. cbn [id_bind] in S.
        change (negb (id_ENOMEM =? 0)%N) with true in S. cbn [id_bind] in S.
        change (id_ENOMEM =? 0)%N with false in S. cbn [id_bind] in S. inversion S; subst out m'.
        rewrite id_alloc_unfold, AM, id_set_after_resize, (resize_some_fail _ _ RN). cbn [id_bind].
        change (negb (id_ENOMEM =? 0)%N) with true. cbn [id_bind].
        change (id_ENOMEM =? 0)%N with false. cbn iota.
        exists id_ENOMEM, None, (reg m1). split; [reflexivity|]. split; [exact HI'|].
        change (failed [AFail (SZ_ENT * nc)]) with true. split; [exact SR|].
        assert (CC: id_cap (reg m1) = id_cap m) by (rewrite reg_cap; exact C1).
        split; [rewrite (owned_cap_eq m (reg m1) CC); apply balanced_same; unfold self_balanced; cbn; constructor|].
        split; [cbn; lia|]. intros _. split; [reflexivity|]. split; [reflexivity|].
        split; [unfold self_balanced; cbn; constructor|exact CC].
    - unfold run, ledger, ret. cbn [fst snd].
      destruct (step_refines fixed m (IoAlloc v rnd false) HI) as (out & m' & S & HI' & SR).
      cbn [id_step] in S. destruct (id_alloc fixed m v rnd false) as [[[rv ido] m2]|e] eqn:IA; cbn [id_bind] in S; [|discriminate].
      inversion S; subst out m'. exists rv, ido, m2. split; [reflexivity|]. split; [exact HI'|]. split; [exact SR|].
      rewrite id_alloc_unfold, AM in IA. inversion IA; subst.
      split; [apply balanced_nil|]. split; [cbn; lia|discriminate].
    - exfalso. destruct (step_refines fixed m (IoAlloc v rnd false) HI) as (out & m' & S & _).
      cbn [id_step] in S. rewrite id_alloc_unfold, AM in S. discriminate.
  Qed.

  (* ---- nni_id_map_fini: the table goes back ---- *)
  Theorem id_fini_o_balanced m (orc : oracle) :
    balanced (owned m) (ledger (id_fini_o SZ_ENT m) orc) [] /\
    id_cap (run (id_fini_o SZ_ENT m) orc) = 0.
  Proof.
    unfold ledger, run, id_fini_o, bind, free_if, free, ret, balanced, idmap_owned.
    destruct (id_cap m =? 0) eqn:E; cbn [negb fst snd app allocs frees].
    - split; [constructor|]. apply Nat.eqb_eq in E. unfold id_map_fini.
      destruct (id_entries m) eqn:EE; [unfold id_cap; now rewrite EE|reflexivity].
    - split; [apply Permutation_refl|]. unfold id_map_fini.
      destruct (id_entries m) eqn:EE; [unfold id_cap; now rewrite EE|reflexivity].
  Qed.

  (* ---- one step / histories under one oracle ---- *)
  Theorem id_step_o_clean fixed m o (orc : oracle) : Inv fixed m ->
    let r := run (id_step_o SZ_ENT fixed m o) orc in
    let t := ledger (id_step_o SZ_ENT fixed m o) orc in
    exists out m', r = IdOk (out, m') /\ Inv fixed m' /\
      id_spec_rel (abs m) (unop o (failed t)) out (abs m') /\
      balanced (owned m) t (owned m') /\ ncalls t <= 1.
  Proof.
    intros HI. cbn zeta. destruct o as [k v|k|k|v rnd| |]; cbn [id_step_o unop].
    - pose proof (id_set_o_clean fixed m k v orc HI) as (rv & m' & R & HI' & SR & B & NC & _).
      unfold run, ledger, bind in *. destruct (id_set_o SZ_ENT m k v orc) as [[x o1] t1]. cbn [fst snd] in *. subst x.
      unfold ret. cbn [fst snd id_bind]. rewrite app_nil_r. eauto 10.
    - unfold run, ledger, ret. cbn [fst snd].
      destruct (step_refines fixed m (IoGet k) HI) as (out & m' & S & HI' & SR). rewrite S.
      exists out, m'. split; [reflexivity|]. split; [exact HI'|]. split; [exact SR|].
      cbn [id_step] in S. destruct (id_get m k); cbn [id_bind] in S; inversion S; subst.
      split; [apply balanced_nil|cbn; lia].
    - pose proof (id_remove_o_clean fixed m k orc HI) as (rv & m' & R & HI' & SR & B & NC & _).
      unfold run, ledger, bind in *. destruct (id_remove_o SZ_ENT m k orc) as [[x o1] t1]. cbn [fst snd] in *. subst x.
      unfold ret. cbn [fst snd id_bind]. rewrite app_nil_r. eauto 10.
    - pose proof (id_alloc_o_clean fixed m v rnd orc HI) as (rv & ido & m' & R & HI' & SR & B & NC & _).
      unfold run, ledger, bind in *. destruct (id_alloc_o SZ_ENT fixed m v rnd orc) as [[x o1] t1]. cbn [fst snd] in *. subst x.
      unfold ret. cbn [fst snd id_bind]. rewrite app_nil_r. eauto 10.
    - unfold run, ledger, ret. cbn [fst snd].
      destruct (step_refines fixed m IoVisit HI) as (out & m' & S & HI' & SR). rewrite S.
      exists out, m'. split; [reflexivity|]. split; [exact HI'|]. split; [exact SR|].
      cbn [id_step] in S. destruct (id_visit_all m); cbn [id_bind] in S; inversion S; subst.
      split; [apply balanced_nil|cbn; lia].
    - unfold run, ledger, ret. cbn [fst snd].
      exists (OutCount (id_count m)), m. split; [reflexivity|]. split; [exact HI|].
      destruct (step_refines fixed m IoCount HI) as (out & m' & S & HI' & SR).
      cbn [id_step] in S. inversion S; subst. split; [exact SR|]. split; [apply balanced_nil|cbn; lia].
  Qed.

  Theorem id_run_o_clean fixed ops : forall m (orc : oracle), Inv fixed m ->
    exists outs m', run (id_run_o SZ_ENT fixed m ops) orc = IdOk (outs, m') /\ Inv fixed m' /\
      balanced (owned m) (ledger (id_run_o SZ_ENT fixed m ops) orc) (owned m') /\
      length outs = length ops /\
      ncalls (ledger (id_run_o SZ_ENT fixed m ops) orc) <= length ops.
  Proof.
    induction ops as [|o r IH]; intros m orc HI.
    - exists [], m. unfold run, ledger; cbn. split; [reflexivity|]. split; [exact HI|].
      split; [apply balanced_nil|]. split; [reflexivity|lia].
    - pose proof (id_step_o_clean fixed m o orc HI) as (out & m1 & R & HI1 & _ & B1 & N1).
      unfold run, ledger in *. cbn [id_run_o]. unfold bind.
      destruct (id_step_o SZ_ENT fixed m o orc) as [[x o1] t1]. cbn [fst snd] in *. subst x.
      destruct (IH m1 o1 HI1) as (outs & m2 & R2 & HI2 & B2 & L2 & N2).
      destruct (id_run_o SZ_ENT fixed m1 r o1) as [[y o2] t2]. cbn [fst snd] in *. subst y.
      unfold ret. cbn [fst snd id_bind]. rewrite app_nil_r.
      exists (out :: outs), m2. split; [reflexivity|]. split; [exact HI2|].
      split; [eapply balanced_trans; eauto|]. split; [cbn; now rewrite L2|].
      rewrite ncalls_app. cbn [length]. lia.
  Qed.
End IdMapAFProofs.
